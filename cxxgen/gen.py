"""gen.py -- generator of C20 differential test programs (expression trees over
mpz_class / mpq_class / mpf_class plus conversion and stream tests).

A test is one C++ function `static int tN(const rt::Ctx& C)` (see rt.h):
  reference (C functions, one fresh temporary per node)  ->  C++ statement  ->  compare.
The operator -> C function map lives in ONE place: the tables below.  It is written from the
manual (doc/mpir.texi); mpirxx.h was consulted only for what compiles.
"""
import copy
import hashlib
import os
import random

# ----------------------------------------------------------------------------------------------
# THE TABLE.  (class, operator) -> C function computing the node into a fresh temporary.
# Manual sentences (doc/mpir.texi) for the non-obvious entries:
#  [M1] C++ Interface Integers: "Divisions involving mpz_class round towards zero, as per the
#       mpz_tdiv_q and mpz_tdiv_r functions.  This is the same as the C99 / and % operators."
#  [M2] C++ Interface Integers/Rationals/Floats, abs cmp sgn sqrt floor ceil trunc swap get_* set_str
#       fits_*: "These functions provide a C++ class interface to the corresponding MPIR C routines."
#  [M3] Integer Division: "For negative n, mpz_fdiv_q_2exp is effectively an arithmetic right shift
#       treating n as twos complement the same as the bitwise logical functions do, whereas
#       mpz_tdiv_q_2exp effectively treats n as sign and magnitude."  mpz_class exposes the
#       twos-complement & | ^ ~, so >> is the arithmetic shift mpz_fdiv_q_2exp; << is mpz_mul_2exp
#       ("This operation can also be defined as a left shift by op2 bits").
#  [M4] Integer Logic and Bit Fiddling: mpz_and/ior/xor/com "behave as if twos complement arithmetic
#       were used" -- the one C function of that meaning for & | ^ ~.
#  [M5] C++ Interface General: "The classes can be freely intermixed in expressions, as can the
#       classes and the standard types mpir_si, mpir_ui and double.  Smaller types like int or float
#       can also be intermixed, since C++ will promote them."  + constructors: "Any necessary
#       conversion follows the corresponding C function, for example double follows mpz_set_d."
#       => a built-in operand is first converted into its own temporary with mpz_set_si/ui/d
#       (mpq_set_si/ui(x,1)/mpq_set_d, mpf_set_si/ui/d), then the 3-operand C function is applied.
#  [M6] C++ Interface Integers: with a double operand that is not an integer "the way any rounding is
#       done is currently unspecified" => doubles mixed into mpz_class ARITHMETIC are integer-valued;
#       "comparisons are always made exactly, as per mpz_cmp_d" => any double in comparisons.
#  [M7] C++ Interface Rationals: "All arithmetic operators require their operands in canonical form,
#       and will return results in canonical form." (mpq_add/sub/mul/div; shifts mpq_mul_2exp/div_2exp)
#  [M8] C++ Interface Floats: "When an expression requires the use of temporary intermediate mpf_class
#       values, like f=g*h+x*y, those temporaries will have the same precision as the destination f."
#       and Internals: "all subexpressions are evaluated to the precision of f" => every reference
#       temporary of an mpf tree has the DESTINATION's precision.
#  [M9] gcd / lcm are not listed in this manual's C++ chapter; they are taken as the same-name C
#       routines mpz_gcd / mpz_lcm (result always non-negative).
CFUN = {
    ('Z', '+'): 'mpz_add', ('Z', '-'): 'mpz_sub', ('Z', '*'): 'mpz_mul',
    ('Z', '/'): 'mpz_tdiv_q', ('Z', '%'): 'mpz_tdiv_r',                          # [M1]
    ('Z', '&'): 'mpz_and', ('Z', '|'): 'mpz_ior', ('Z', '^'): 'mpz_xor', ('Z', '~'): 'mpz_com',  # [M4]
    ('Z', '<<'): 'mpz_mul_2exp', ('Z', '>>'): 'mpz_fdiv_q_2exp',                 # [M3]
    ('Z', 'neg'): 'mpz_neg', ('Z', 'pos'): 'mpz_set', ('Z', 'abs'): 'mpz_abs', ('Z', 'sqrt'): 'mpz_sqrt',  # [M2] sqrt truncates
    ('Z', 'gcd'): 'mpz_gcd', ('Z', 'lcm'): 'mpz_lcm',                            # [M9]
    ('Q', '+'): 'mpq_add', ('Q', '-'): 'mpq_sub', ('Q', '*'): 'mpq_mul', ('Q', '/'): 'mpq_div',  # [M7]
    ('Q', '<<'): 'mpq_mul_2exp', ('Q', '>>'): 'mpq_div_2exp',
    ('Q', 'neg'): 'mpq_neg', ('Q', 'pos'): 'mpq_set', ('Q', 'abs'): 'mpq_abs',
    ('F', '+'): 'mpf_add', ('F', '-'): 'mpf_sub', ('F', '*'): 'mpf_mul', ('F', '/'): 'mpf_div',  # [M8]
    ('F', '<<'): 'mpf_mul_2exp', ('F', '>>'): 'mpf_div_2exp',
    ('F', 'neg'): 'mpf_neg', ('F', 'pos'): 'mpf_set', ('F', 'abs'): 'mpf_abs', ('F', 'sqrt'): 'mpf_sqrt',
    ('F', 'floor'): 'mpf_floor', ('F', 'ceil'): 'mpf_ceil', ('F', 'trunc'): 'mpf_trunc',
}
# built-in operand -> temporary of the class  [M5]
SETB = {
    ('Z', 'si'): 'mpz_set_si({t}, {v});', ('Z', 'ui'): 'mpz_set_ui({t}, {v});', ('Z', 'd'): 'mpz_set_d({t}, {v});',
    ('Q', 'si'): 'mpq_set_si({t}, {v}, 1);', ('Q', 'ui'): 'mpq_set_ui({t}, {v}, 1);', ('Q', 'd'): 'mpq_set_d({t}, {v});',
    ('F', 'si'): 'mpf_set_si({t}, {v});', ('F', 'ui'): 'mpf_set_ui({t}, {v});', ('F', 'd'): 'mpf_set_d({t}, {v});',
}
# class conversions through explicit constructors ("Any necessary conversion follows the corresponding C function")
CONV = {('Z', 'Q'): 'mpz_set_q', ('Z', 'F'): 'mpz_set_f', ('Q', 'Z'): 'mpq_set_z', ('Q', 'F'): 'mpq_set_f',
        ('F', 'Z'): 'mpf_set_z', ('F', 'Q'): 'mpf_set_q'}
# comparisons: class/class and class/built-in  [M2][M6]; mpq against double goes through mpq_set_d (exact)
CMP = {'Z': 'mpz_cmp', 'Q': 'mpq_cmp', 'F': 'mpf_cmp'}
CMPB = {('Z', 'si'): 'mpz_cmp_si({x}, {v})', ('Z', 'ui'): 'mpz_cmp_ui({x}, {v})', ('Z', 'd'): 'mpz_cmp_d({x}, {v})',
        ('Q', 'si'): 'mpq_cmp_si({x}, {v}, 1)', ('Q', 'ui'): 'mpq_cmp_ui({x}, {v}, 1)',
        ('F', 'si'): 'mpf_cmp_si({x}, {v})', ('F', 'ui'): 'mpf_cmp_ui({x}, {v})', ('F', 'd'): 'mpf_cmp_d({x}, {v})'}
SGN = {'Z': 'mpz_sgn', 'Q': 'mpq_sgn', 'F': 'mpf_sgn'}
# ----------------------------------------------------------------------------------------------

VARS = {'Z': ['a', 'b', 'c'], 'Q': ['q', 'r', 's'], 'F': ['f', 'g', 'h']}
CXX = {'Z': 'mpz_class', 'Q': 'mpq_class', 'F': 'mpf_class'}
MASK = {v: 1 << i for i, v in enumerate('abcqrsfgh')}
CLSOF = {v: c for c, vs in VARS.items() for v in vs}
BKIND = {'int': 'si', 'long': 'si', 'unsigned': 'ui', 'ulong': 'ui', 'double': 'd'}
BVARS = {'int': ['i1', 'i2'], 'unsigned': ['u1', 'u2'], 'long': ['l1', 'l2'], 'ulong': ['ul1', 'ul2']}
BLITS = {
    'int': ['1', '-1', '2', '-7', '3', '10', '255', '-1000', '2147483647', '(-2147483647-1)'],
    'unsigned': ['1u', '2u', '7u', '16u', '1000u', '4294967295u'],
    'long': ['1L', '-1L', '5L', '-12L', '4294967296L', '-4294967297L', '9223372036854775807L', '-9223372036854775807L'],
    'ulong': ['1UL', '3UL', '64UL', '4294967296UL', '9223372036854775808UL', '18446744073709551615UL'],
}
DLIT_INT = [1.0, -1.0, 2.0, 3.0, -12.0, 1024.0, 9007199254740992.0, -9007199254740991.0, 1e20, -4294967296.0]
DLIT_ANY = [0.5, -0.25, 2.5, -0.75, 1.125, 1e10, 3.0, -1.0, 0.001953125, 123456.5]
ARITH = {'Z': ['+', '-', '*', '/', '%', '&', '|', '^'], 'Q': ['+', '-', '*', '/'], 'F': ['+', '-', '*', '/']}
ARITH_W = {'Z': [5, 5, 5, 4, 3, 2, 2, 2], 'Q': [4, 4, 4, 3], 'F': [4, 4, 4, 3]}
UNARY = {'Z': ['neg', 'pos', '~', 'abs', 'sqrt'], 'Q': ['neg', 'pos', 'abs'],
         'F': ['neg', 'pos', 'abs', 'sqrt', 'floor', 'ceil', 'trunc']}
UNSRC = {'neg': '(-{})', 'pos': '(+{})', '~': '(~{})'}
RELS = ['==', '!=', '<', '<=', '>', '>=']


# Shapes excluded from generation because they hit a suspected finding on the unchanged tree (README,
# "Suspected findings"); every exclusion is counted.  CXXGEN_INCLUDE_FINDINGS=1 generates them anyway.
EXCLUDED = {'mpq_shift_in_place': 0, 'mpf_assign_rvalue_other_precision': 0}
# Exclusions are per known finding: CXXGEN_KNOWN = comma separated ids listed as status "known" in
# /verif/known_findings.json (passed by props/C20_run.py).  An id that is not listed is NOT excluded, so a finding
# that was fixed (or never confirmed) is generated and would be reported again.  CXXGEN_INCLUDE_FINDINGS=1 = none excluded.
KNOWN = set(x for x in os.environ.get('CXXGEN_KNOWN', '').split(',') if x)
if os.environ.get('CXXGEN_INCLUDE_FINDINGS') == '1': KNOWN = set()
SKIP_LONG_MIN = bool(KNOWN & {'long_min_div_minus_one', 'long_min_negation_ub'})
if not SKIP_LONG_MIN: BLITS['long'].append('(-9223372036854775807L-1)')


class N:
    """expression node. k: var nd b sgn un bin sh fn2 conv hoist"""
    def __init__(s, k, cls, op=None, kids=(), txt=None, bt=None, prec=None, sub=None):
        s.k, s.cls, s.op, s.kids, s.txt, s.bt, s.prec, s.sub = k, cls, op, list(kids), txt, bt, prec, sub

    def src(s):
        k, ks = s.k, [x.src() for x in s.kids]
        if k in ('var', 'b', 'hoist'): return s.txt
        if k == 'nd': return '%s.get_%s()' % (s.txt, s.op)
        if k == 'sgn': return 'sgn(%s)' % ks[0]
        if k == 'un': return UNSRC[s.op].format(ks[0]) if s.op in UNSRC else '%s(%s)' % (s.op, ks[0])
        if k in ('bin', 'sh'): return '(%s %s %s)' % (ks[0], s.op, ks[1])
        if k == 'fn2': return '%s(%s, %s)' % (s.op, ks[0], ks[1])
        if k == 'conv': return '%s(%s%s)' % (CXX[s.cls], ks[0], ', %d' % s.prec if s.cls == 'F' else '')
        raise ValueError(k)

    def walk(s):
        yield s
        for x in s.kids:
            for y in x.walk(): yield y

    def nops(s): return sum(1 for n in s.walk() if n.k in ('sgn', 'un', 'bin', 'sh', 'fn2', 'conv'))
    def uses(s, v): return any(n.k in ('var', 'nd') and n.txt == v for n in s.walk())


class Root:
    """kind: assign compound incdec compare intfn; target None => fresh variable t"""
    def __init__(s, kind, cls, trees, target=None, op=None, form='=', precs=(64, 128, 256), tprec=128):
        s.kind, s.cls, s.trees, s.target, s.op, s.form, s.precs, s.tprec = kind, cls, trees, target, op, form, precs, tprec
        s.hcount = 0

    def src(s):
        t, k, e = s.target or 't', s.kind, [x.src() for x in s.trees]
        if k == 'assign':
            if s.target: return '%s = %s;' % (t, e[0])
            if s.form == 'ctor': return '%s t((%s));' % (CXX[s.cls], e[0])
            return '%s t%s; t = %s;' % (CXX[s.cls], '(0, %d)' % s.tprec if s.cls == 'F' else '', e[0])
        if k == 'compound': return '%s %s= %s;' % (t, s.op, e[0])
        if k == 'incdec':
            return '%s t(%s);' % (CXX[s.cls], (s.op[:2] + t) if s.op.endswith('pre') else (t + s.op[:2]))
        if k == 'compare': return 'bool t = (%s %s %s);' % (e[0], s.op, e[1])
        if s.op == 'sgn': return 'int t = sgn(%s);' % e[0]
        return 'int t = cmp(%s, %s);' % (e[0], e[1])

    def nops(s): return sum(x.nops() for x in s.trees) + (s.kind != 'assign')
    def in_tree(s): return bool(s.target) and any(x.uses(s.target) for x in s.trees)


class TreeGen:
    def __init__(s, rng, maxdepth):
        s.r, s.maxd = rng, maxdepth

    def builtin(s, cls, exact_int=None):
        """a built-in operand; for mpz arithmetic doubles are integer-valued [M6]"""
        r = s.r
        if exact_int is None: exact_int = (cls == 'Z')
        ct = r.choices(['int', 'unsigned', 'long', 'ulong', 'double'], [3, 2, 3, 3, 3])[0]
        if ct == 'double':
            if r.random() < 0.6:
                txt = r.choice(['di1', 'di2'] if exact_int else ['dq1', 'dq2', 'dq1', 'di1'])
            else:
                txt = repr(r.choice(DLIT_INT if exact_int else DLIT_ANY))
        elif r.random() < 0.6: txt = r.choice(BVARS[ct])
        else: txt = r.choice(BLITS[ct])
        return N('b', 'B', txt=txt, bt=ct)

    def leaf(s, cls):
        if cls == 'Z' and s.r.random() < 0.12:
            return N('nd', 'Z', op=s.r.choice(['num', 'den']), txt=s.r.choice(VARS['Q']))
        return N('var', cls, txt=s.r.choice(VARS[cls]))

    def shcount(s):
        return N('b', 'B', txt=s.r.choice(['sh1', 'sh2', 'sh1', '1UL', '7UL', '64UL', '100UL', 'ul1 % 150']) , bt='ulong')

    def tree(s, cls, d, top=False):
        r = s.r
        if d <= 0 or (not top and r.random() < 0.08): return s.leaf(cls)
        w = {'Z': [52, 13, 9, 9, 9, 8], 'Q': [60, 12, 10, 0, 12, 6], 'F': [58, 20, 9, 0, 9, 4]}[cls]
        if top: w[5] = 0
        kind = r.choices(['bin', 'un', 'sh', 'fn2', 'conv', 'leaf'], w)[0]
        if kind == 'leaf': return s.leaf(cls)
        if kind == 'un':
            op = r.choice(UNARY[cls])
            x = s.tree(cls, d - 1)
            if op == 'sqrt' and r.random() < 0.75 and not (x.k == 'un' and x.op == 'abs'):
                x = N('un', cls, op='abs', kids=[x])      # keep most sqrt arguments in the domain
            return N('un', cls, op=op, kids=[x])
        if kind == 'sh': return N('sh', cls, op=r.choice(['<<', '>>']), kids=[s.tree(cls, d - 1), s.shcount()])
        if kind == 'conv':
            src = r.choice([c for c in 'ZQF' if c != cls])
            x = s.leaf('F') if src == 'F' else s.tree(src, min(d - 1, 2))   # mpf operands of conversions: variables only
            return N('conv', cls, kids=[x], prec=r.choice([64, 128, 192, 256]) if cls == 'F' else None)
        op = r.choice(['gcd', 'lcm']) if kind == 'fn2' else r.choices(ARITH[cls], ARITH_W[cls])[0]
        p = r.random()
        if p < 0.36:     # one built-in side
            if p < 0.04: b = N('sgn', 'B', kids=[s.tree(r.choice('ZQ'), min(d - 1, 1))], bt='int')
            else: b = s.builtin(cls)
            x = s.tree(cls, d - 1)
            kids = [b, x] if r.random() < 0.5 else [x, b]
        else:
            d1, d2 = d - 1, r.randint(0, d - 1)
            if r.random() < 0.5: d1, d2 = d2, d1
            kids = [s.tree(cls, d1), s.tree(cls, d2)]
        return N('fn2' if kind == 'fn2' else 'bin', cls, op=op, kids=kids)

    def root(s, cls):
        r = s.r
        kind = r.choices(['assign', 'compound', 'compare', 'intfn', 'incdec'], [54, 20, 14, 8, 4])[0]
        d = r.choices(range(1, s.maxd + 1), [1 + i for i in range(s.maxd)])[0]
        precs, uniform = (64, 128, 256), False
        if cls == 'F':
            uniform = r.random() < (0.8 if kind in ('compare', 'intfn') else 0.25)
            p = r.choice([64, 128, 192, 256])
            precs = (p, p, p) if uniform else tuple(r.sample([64, 128, 256], 3))
        # without a destination the precision of mpf temporaries is only pinned down when all
        # variables have the same precision; otherwise compare variables only (README, "mpf")
        dd = 0 if (cls == 'F' and kind in ('compare', 'intfn') and not uniform) else d
        if kind == 'assign':
            t = s.tree(cls, d, top=r.random() < 0.97)
            used = [v for v in VARS[cls] if t.uses(v)]
            p = r.random()
            if used and p < 0.6: target = r.choice(used)
            elif p < 0.8: target = r.choice(VARS[cls])
            else: target = None
            form = 'ctor' if (target is None and r.random() < 0.4 and (cls != 'F' or uniform)) else '='
            return Root('assign', cls, [t], target, form=form, precs=precs, tprec=r.choice([64, 128, 256, 320]))
        if kind == 'compound':
            target = r.choice(VARS[cls])
            if r.random() < 0.15:
                return Root('compound', cls, [s.shcount()], target, op=r.choice(['<<', '>>']), precs=precs)
            op = r.choices(ARITH[cls], ARITH_W[cls])[0]
            p = r.random()
            if p < 0.3: t = s.builtin(cls)
            elif p < 0.45: t = N('var', cls, txt=target)
            else:
                t = s.tree(cls, d - 1)
                if r.random() < 0.4 and not t.uses(target):   # force the target into the right-hand side
                    t = N('bin', cls, op=r.choice(['+', '*', '-']), kids=[t, N('var', cls, txt=target)])
            return Root('compound', cls, [t], target, op=op, precs=precs)
        if kind == 'incdec':
            return Root('incdec', cls, [], r.choice(VARS[cls]), op=r.choice(['++pre', '++post', '--pre', '--post']), precs=precs)
        if kind == 'intfn' and r.random() < 0.4:
            return Root('intfn', cls, [s.tree(cls, dd)], op='sgn', precs=precs)
        x = s.tree(cls, dd)
        if r.random() < 0.4:
            y = s.builtin(cls, exact_int=False)      # comparisons are exact for any double [M6]
            kids = [y, x] if r.random() < 0.5 else [x, y]
        else: kids = [x, s.tree(cls, r.randint(0, dd))]
        if kind == 'intfn': return Root('intfn', cls, kids, op='cmp', precs=precs)
        return Root('compare', cls, kids, op=r.choice(RELS), precs=precs)


def normalise_uniform(R):
    """uniform-precision mpf functions: explicit-precision conversions use the same precision, so that
    every rule one could read into the manual gives the same precision for every temporary"""
    if R.cls == 'F' and len(set(R.precs)) == 1:
        for tr in R.trees:
            for n in tr.walk():
                if n.k == 'conv' and n.cls == 'F': n.prec = R.precs[0]
    return R


class Emit:
    """reference code: post-order, one fresh temporary per node"""
    def __init__(s): s.L, s.n = [], 0

    def tmp(s, cls, P=None):
        s.n += 1
        s.L.append('rt::%s t%d%s;' % (cls, s.n, '(%s)' % P if cls == 'F' else ''))
        return 't%d.v' % s.n

    def lift(s, cls, b, P):
        """built-in operand -> its own temporary of class cls [M5]"""
        v = s.bval(b)
        t = s.tmp(cls, P)
        s.L.append(SETB[(cls, BKIND[b.bt])].format(t=t, v=v))
        return t

    def bval(s, b):
        if b.k == 'b': return b.txt
        x = s.ref(b.kids[0], None)       # sgn(X) used as an int operand
        s.n += 1
        s.L.append('int t%d = %s(%s);' % (s.n, SGN[b.kids[0].cls], x))
        return 't%d' % s.n

    def operand(s, cls, n, P):
        return s.lift(cls, n, P) if n.cls == 'B' else s.ref(n, P)

    def binop(s, cls, op, a, b, P):
        """a op b into a fresh temporary"""
        bv = [s.bval(k) if (cls == 'F' and k.cls == 'B' and BKIND[k.bt] != 'd') else None for k in (a, b)]
        ops = []
        for k, v in zip((a, b), bv):
            if v is not None:
                t = s.tmp(cls, P); s.L.append(SETB[(cls, BKIND[k.bt])].format(t=t, v=v)); ops.append(t)
            else: ops.append(s.operand(cls, k, P))
        x, y = ops
        if op in ('/', '%'): s.L.append('if (%s(%s) == 0) return rt::SKIP_DIV0;' % (SGN[cls], y))
        for k in (a, b):
            if k.cls == 'B' and k.k == 'b' and k.bt == 'long' and SKIP_LONG_MIN:
                # suspected findings long_min_negation_ub / long_min_div_minus_one: mpirxx.h negates the long operand
                s.L.append('if ((%s) == LONG_MIN) return rt::SKIP_FINDING;' % k.txt)
        t = s.tmp(cls, P)
        s.L.append('%s(%s, %s, %s);' % (CFUN[(cls, op)], t, x, y))
        for i, v in enumerate(bv):   # mpf with a built-in integer: skip tuples where the two C routes differ
            if v is not None:
                s.L.append("if (rt::f_ambig(%s, %s, '%s', %s, %s, %s)) return rt::SKIP_AMBIG;" % (t, P, op, 'true' if i == 0 else 'false', ops[1 - i], v))
        return t
    def ref(s, n, P):
        k, cls = n.k, n.cls
        if k == 'var': return 'C.%s.v' % n.txt
        if k == 'nd': return 'mpq_%sref(C.%s.v)' % (n.op, n.txt)
        if k == 'hoist': return n.op
        if k == 'un':
            x = s.ref(n.kids[0], P)
            if n.op == 'sqrt': s.L.append('if (%s(%s) < 0) return rt::SKIP_DOM;' % (SGN[cls], x))
            t = s.tmp(cls, P)
            s.L.append('%s(%s, %s);' % (CFUN[(cls, n.op)], t, x))
            return t
        if k in ('bin', 'fn2'):
            return s.binop(cls, n.op, n.kids[0], n.kids[1], P)
        if k == 'sh':
            x = s.ref(n.kids[0], P)
            t = s.tmp(cls, P)
            s.L.append('%s(%s, %s, %s);' % (CFUN[(cls, n.op)], t, x, n.kids[1].txt))
            return t
        if k == 'conv':
            x = s.ref(n.kids[0], None)
            t = s.tmp(cls, n.prec)
            s.L.append('%s(%s, %s);' % (CONV[(cls, n.kids[0].cls)], t, x))
            return t
        raise ValueError(k)


def emit_root(R):
    """-> (source text, body lines)"""
    E, cls, t = Emit(), R.cls, R.target
    PV = {'f': 'C.pf', 'g': 'C.pg', 'h': 'C.ph'}
    P = None
    if cls == 'F': P = PV[t] if t else (str(R.tprec) if (R.kind == 'assign' and R.form == '=') else 'C.pf')
    pre = []
    def hoists(n):   # shrinker: sub-expression replaced by a fresh variable holding its reference value
        for x in n.walk():
            if x.k == 'hoist':
                hoists(x.sub)
                x.op = E.ref(x.sub, P)
                pre.append('%s %s(%s%s);' % (CXX[x.cls], x.txt, x.op, ', %s' % P if x.cls == 'F' else ''))
    for tr in R.trees: hoists(tr)
    src, test, chk, mask = R.src(), None, [], MASK.get(t, 0)
    if R.kind == 'assign':
        w = E.ref(R.trees[0], P)
        if cls == 'F' and R.trees[0].k in ('var', 'conv', 'hoist'):   # plain copy: mpf_set into the destination's precision
            w0, w = w, E.tmp(cls, P)
            E.L.append('mpf_set(%s, %s);' % (w, w0))
        chk.append('rt::chk(%s, %s, "%s")' % (t or 't', w, t or 't'))
    elif R.kind == 'compound':
        rhs = R.trees[0]   # "compound assignments behave like their expanded form": t op= e  ==  t = t op e
        if R.op in ('<<', '>>'):
            w = E.tmp(cls, P)
            E.L.append('%s(%s, C.%s.v, %s);' % (CFUN[(cls, R.op)], w, t, rhs.txt))
        else: w = E.binop(cls, R.op, N('var', cls, txt=t), rhs, P)
        chk.append('rt::chk(%s, %s, "%s")' % (t, w, t))
    elif R.kind == 'incdec':
        w = E.binop(cls, R.op[0], N('var', cls, txt=t), N('b', 'B', txt='1', bt='int'), P)
        chk.append('rt::chk(%s, %s, "%s")' % (t, w, t))
        chk.append('rt::chk(t, %s, "returned")' % (w if R.op.endswith('pre') else 'C.%s.v' % t))
    else:
        a, b = R.trees[0], (R.trees[1] if len(R.trees) > 1 else None)
        if R.op == 'sgn':
            E.L.append('int want = %s(%s);' % (SGN[cls], E.ref(a, P)))
        else:
            flip = a.cls == 'B'
            if flip: a, b = b, a
            x = E.ref(a, P)
            if b.cls != 'B':
                y = E.ref(b, P)
                cexp = '%s(%s, %s)' % (CMP[cls], x, y)
                if cls == 'Q' and R.op in ('==', '!='): cexp = '(mpq_equal(%s, %s) ? 0 : %s)' % (x, y, cexp)
            elif (cls, BKIND[b.bt]) in CMPB:
                cexp = CMPB[(cls, BKIND[b.bt])].format(x=x, v=E.bval(b))
            else:
                cexp = '%s(%s, %s)' % (CMP[cls], x, E.lift(cls, b, P))
            E.L.append('int cv = rt::sign(%s);%s' % (cexp, ' cv = -cv;' if flip else ''))
            E.L.append('int want = cv;' if R.kind == 'intfn' else 'bool want = (cv %s 0);' % R.op)
        chk.append('rt::chki(%s, want, "t")' % ('rt::sign(t)' if R.kind == 'intfn' else 't'))
    body = ['RT_VARS'] + E.L + pre + ['RT_GO', src, 'RT_END']   # reference lines only read C
    body.append('int bad = %s;' % ' | '.join(chk))
    body.append('return bad | RT_UNCH(%d);' % mask)
    return src, body


def labels_of(R):
    lab = {}
    def inc(k): lab[k] = lab.get(k, 0) + 1
    inc({'Z': 'mpz', 'Q': 'mpq', 'F': 'mpf'}[R.cls])
    inc('root:' + R.kind)
    if R.in_tree(): inc('target_in_tree')
    if R.kind == 'compound': inc('compound_assign'); inc('op:%s=' % R.op)
    if R.kind == 'incdec': inc('op:' + R.op[:2])
    if R.kind == 'compare': inc('op:cmp' + R.op)
    if R.kind == 'intfn': inc('op:' + R.op)
    if R.kind == 'assign' and R.target is None: inc('fresh_target_' + R.form.replace('=', 'assign'))
    bts = set()
    for tr in R.trees:
        if tr.cls == 'B': bts.add(tr.bt)
        for n in tr.walk():
            if n.k in ('un', 'bin', 'sh', 'fn2'): inc('op:' + n.op)
            elif n.k == 'conv': inc('op:conv_%s_from_%s' % (n.cls, n.kids[0].cls))
            elif n.k == 'sgn': inc('op:sgn_as_operand')
            elif n.k == 'nd': inc('op:get_' + n.op)
            if n.k in ('bin', 'fn2') and n.kids[0].cls == 'B': inc('builtin_on_left')
            if n.k == 'b': bts.add(n.bt)
    if R.kind in ('compare', 'intfn') and R.trees and R.trees[0].cls == 'B': inc('builtin_on_left')
    for b in bts: inc('builtin:' + b)
    if len(bts) >= 2: inc('mixed_builtin_types')
    if R.cls == 'F': inc('mpf_uniform_prec' if len(set(R.precs)) == 1 else 'mpf_mixed_prec')
    return lab


class Test:
    def __init__(s, src, body, labels, precs=(64, 128, 256), root=None, nops=0):
        s.src, s.body, s.labels, s.precs, s.root, s.nops = src, body, labels, precs, root, nops
        s.id = -1


def excluded_shape(R):
    """True: regenerate.  (1) mpq_class << / >> evaluated in place (operand is a sub-expression or the
    assignment target): mpq_mul_2exp/mpq_div_2exp are wrong for dst==src.  (2) f = mpf_class(x, P) with
    P != precision of f: the C++11 move assignment swaps, so f changes precision (fixed up, not rejected)."""
    if 'mpf_assign_rvalue_other_precision' in KNOWN and R.cls == 'F' and R.kind == 'assign' and R.form == '=' and R.trees[0].k == 'conv':
        dest = R.precs[VARS['F'].index(R.target)] if R.target else R.tprec
        if R.trees[0].prec != dest:
            EXCLUDED['mpf_assign_rvalue_other_precision'] += 1
            R.trees[0].prec = dest
    if 'mpq_shift_in_place' not in KNOWN: return False
    bad = R.kind == 'compound' and R.cls == 'Q' and R.op in ('<<', '>>')
    for tr in R.trees:
        for n in tr.walk():
            if n.k == 'sh' and n.cls == 'Q' and (n.kids[0].k != 'var' or n.kids[0].txt == R.target): bad = True
    if bad: EXCLUDED['mpq_shift_in_place'] += 1
    return bad


def expr_test(rng, maxdepth, cls=None):
    cls = cls or rng.choices('ZQF', [40, 30, 30])[0]
    while True:
        R = normalise_uniform(TreeGen(rng, maxdepth).root(cls))
        if not excluded_shape(R): break
    src, body = emit_root(R)
    return Test(src, body, labels_of(R), R.precs, R, R.nops())


# ---------------------------------------------------------------------------------------------- conversions / IO
def fmt_arg(f):
    return '{%d, %s, %s, %s, %d, %d, \'%s\'}' % (f['base'], str(f['showbase']).lower(), str(f['upper']).lower(),
                                                 str(f['showpos']).lower(), f['adj'], f['width'], f['fill'])


def fmt_src(f):
    m = [['std::dec', 'std::hex', 'std::oct'][f['base']]]
    if f['showbase']: m.append('std::showbase')
    if f['upper']: m.append('std::uppercase')
    if f['showpos']: m.append('std::showpos')
    if f['adj']: m.append(['', 'std::left', 'std::right', 'std::internal'][f['adj']])
    if f['width']: m.append('std::setw(%d)' % f['width'])
    if f['fill'] != ' ': m.append("std::setfill('%s')" % f['fill'])
    return ' << '.join(m)


def rand_fmt(r, base=None):
    return dict(base=r.choice([0, 0, 1, 1, 2]) if base is None else base, showbase=r.random() < 0.5, upper=r.random() < 0.3,
                showpos=r.random() < 0.25, adj=r.choice([0, 1, 2, 3]), width=r.choice([0, 0, 5, 12, 30, 80]),
                fill=r.choice([' ', ' ', '*', '0', '_']))


def io_test(r):
    kind = r.choice(['os_z', 'os_z', 'os_q', 'os_f', 'is_z', 'is_q', 'is_f'])
    w = r.randrange(3)
    if kind == 'os_z':
        f = rand_fmt(r); ex = r.random() < 0.2; v = VARS['Z'][w]
        src = 'os << %s << %s;' % (fmt_src(f), '(%s + 0)' % v if ex else v)
        call = 'rt::os_z(C, %d, rt::Fmt%s, %s)' % (w, fmt_arg(f), str(ex).lower())
    elif kind == 'os_q':
        f = rand_fmt(r); f['showpos'] = False; f['adj'] = r.choice([0, 1, 2])
        src = 'os << %s << %s;' % (fmt_src(f), VARS['Q'][w])
        call = 'rt::os_q(C, %d, rt::Fmt%s)' % (w, fmt_arg(f))
    elif kind == 'os_f':
        f = rand_fmt(r, 0); f['showbase'] = False; f['adj'] = r.choice([0, 1, 2])
        mode = r.randrange(3); vk = r.randrange(3)
        if mode == 1: prec = r.choice([3, 4, 6, 10]); vk = r.choice([0, 1, 2])
        elif mode == 2: prec = r.choice([8, 10, 12])
        else: prec = r.choice([6, 10, 12, 15]) if vk == 0 else r.choice([10, 12, 15]) if vk == 1 else r.choice([6, 8, 12])
        if mode == 0 and vk == 2 and prec < 6: prec = 6
        src = 'os << %s << %s << std::setprecision(%d) << mpf_class(d, 128);  // d: value kind %d' % (
            fmt_src(f), ['/*general*/', 'std::fixed', 'std::scientific'][mode], prec, vk)
        call = 'rt::os_f(C, %d, %d, %d, rt::Fmt%s)' % (mode, prec, vk, fmt_arg(f))
    elif kind in ('is_z', 'is_q'):
        base = r.choice([0, 1, 2, 3]); up = r.random() < 0.3; sub = r.randrange(72)
        src = 'is >> %s >> %s;  // text from %s_get_str%s' % (
            ['std::dec', 'std::hex', 'std::oct', 'std::resetiosflags(std::ios::basefield)'][base], VARS[kind[-1].upper()][w],
            'mp' + kind[-1], ' with 0x/0 prefixes' if base == 3 else '')
        call = 'rt::%s(C, %d, %d, %s, %d)' % (kind, w, base, str(up).lower(), sub)
    else:
        si = r.randrange(24); p = r.choice([64, 128, 256])
        src = 'is >> x;  // mpf_class x(99, %d), decimal string #%d' % (p, si)
        call = 'rt::is_f(C, %d, %d)' % (si, p)
    return Test(src, ['return %s;' % call], {'stream_io': 1, 'io:' + kind: 1})


INVALID = {'Z': ['', 'xyz', '12x', '--5', '1.5', '0x', ' ', '1e5', '12 34', '+7'],
           'Q': ['', 'x/y', '1/', '/2', '3/x', '1.5/2', '5//2', '1/2/3', '12 / 7'],
           'F': ['', 'abc', '1.2.3', 'e5', '--1', '1e', '.', '1 e5', '3 14']}


def conv_test(r):
    cls = r.choice('ZQF')
    cx, lo = CXX[cls], {'Z': 'mpz', 'Q': 'mpq', 'F': 'mpf'}[cls]
    v = r.choice(VARS[cls])
    kind = r.choice(['builtin', 'builtin', 'string', 'string', 'badstring', 'get', 'get_str', 'swap', 'numden'])
    lab = {'conversion': 1, 'conv:' + kind: 1}
    B = ['RT_VARS']
    dflt = 'mpf_get_default_prec()'
    if kind == 'builtin':
        ct = r.choice(['int', 'unsigned', 'long', 'ulong', 'double'])
        bv = r.choice(BVARS[ct]) if ct != 'double' else r.choice(['dq1', 'di1', 'dq2'])
        form = r.choice(['ctor', 'assign', 'ctor_prec'] if cls == 'F' else ['ctor', 'assign'])
        P = {'ctor': dflt, 'assign': 'C.p' + v, 'ctor_prec': '192'}[form]
        B.append('rt::%s w%s; %s' % (cls, '(%s)' % P if cls == 'F' else '', SETB[(cls, BKIND[ct])].format(t='w.v', v=bv)))
        if form == 'assign':
            src = '%s = %s;' % (v, bv); B += ['RT_GO', src, 'RT_END', 'return rt::chk(%s, w.v, "%s");' % (v, v)]
        else:
            src = '%s x(%s%s);' % (cx, bv, ', 192' if form == 'ctor_prec' else '')
            B += ['RT_GO', src, 'RT_END', 'return rt::chk(x, w.v, "x");']
    elif kind in ('string', 'badstring'):
        base = r.choice([0, 2, 8, 10, 16, 36, 10, 16]) if cls != 'F' else r.choice([10, 10, 16, 2])
        if kind == 'badstring':
            B.append('std::string txt = "%s";' % r.choice(INVALID[cls]))
        elif cls == 'F':
            if base == 10: B.append('std::string txt = std::to_string(C.l1 % 1000000) + "." + std::to_string(C.u1 % 1000) + "e" + std::to_string(C.i1 % 20);')
            else: B.append('mp_exp_t e0; std::string txt = rt::cstr(mpf_get_str(NULL, &e0, %d, 0, C.%s.v)); if (txt.empty()) txt = "0"; txt = (txt[0] == \'-\' ? "-0." + txt.substr(1) : "0." + txt) + "@" + std::to_string((long)e0 %% 50);' % (base, v))
        elif base == 0:
            pre, gb = r.choice([('0x', 16), ('0X', -16), ('0', 8), ('0b', 2), ('', 10)])
            if cls == 'Z':
                B.append('rt::Z m; mpz_abs(m.v, C.%s.v); std::string txt = std::string(mpz_sgn(C.%s.v) < 0 ? "-" : "") + "%s" + rt::cstr(mpz_get_str(NULL, %d, m.v));' % (v, v, pre, gb))
            else:
                B.append('rt::Z m; mpz_abs(m.v, mpq_numref(C.%s.v)); std::string txt = std::string(mpq_sgn(C.%s.v) < 0 ? "-" : "") + "%s" + rt::cstr(mpz_get_str(NULL, %d, m.v)) + "/" + "%s" + rt::cstr(mpz_get_str(NULL, %d, mpq_denref(C.%s.v)));' % (v, v, pre, gb, pre, gb, v))
        else:
            B.append('std::string txt = rt::cstr(%s_get_str(NULL, %d, C.%s.v));' % (lo, base if r.random() < 0.7 or base > 36 else -base if base > 10 else base, v))
        form = r.choice(['ctor_string', 'ctor_cstr', 'assign', 'set_str'])
        arg = 'txt' if form != 'ctor_cstr' and r.random() < 0.6 else 'txt.c_str()'
        if form == 'assign': base = 0
        P = '192' if form.startswith('ctor') else 'C.p' + v
        B.append('rt::%s w%s; int rc = %s_set_str(w.v, txt.c_str(), %d);' % (cls, '(%s)' % P if cls == 'F' else '', lo, base))
        if form == 'set_str':
            src = 'int rc2 = %s.set_str(%s, %d);' % (v, arg, base)
            B += ['RT_GO', src, 'RT_END', 'int bad = rt::chki(rc2, rc, "return-code");', 'if (rc == 0) bad |= rt::chk(%s, w.v, "%s");' % (v, v), 'return bad;']
        else:
            if form == 'assign': src = '%s = %s;' % (v, arg); stmt, res = src, v
            else:
                src = '%s x(%s, %s%d);' % (cx, arg, '192, ' if cls == 'F' else '', base); stmt, res = src, 'x'
            if form == 'assign':
                B += ['bool threw = false;', 'RT_GO', 'try { %s } catch (std::invalid_argument&) { threw = true; }' % stmt, 'RT_END',
                      'int bad = rt::chki(threw, rc != 0, "threw-invalid_argument");', 'if (rc == 0) bad |= rt::chk(%s, w.v, "%s");' % (res, res), 'return bad;']
            else:
                B += ['bool threw = false; int bad = 0;', 'RT_GO',
                      'try { %s RT_END if (rc == 0) bad |= rt::chk(x, w.v, "x"); } catch (std::invalid_argument&) { threw = true; }' % stmt, 'RT_END',
                      'return bad | rt::chki(threw, rc != 0, "threw-invalid_argument");']
        lab['conv:string_base_%d' % base] = 1
    elif kind == 'get':
        if cls == 'Q':
            src = 'double t = %s.get_d();' % v
            B += ['RT_GO', src, 'RT_END', 'return rt::chkd(t, mpq_get_d(C.%s.v), "get_d");' % v]
        else:
            m = r.choice(['get_si', 'get_ui', 'get_d', 'fits_sint_p', 'fits_uint_p', 'fits_slong_p', 'fits_ulong_p', 'fits_sshort_p', 'fits_ushort_p'])
            if m == 'get_d': src = 'double t = %s.get_d();' % v; ck = 'rt::chkd(t, %s_get_d(C.%s.v), "get_d")' % (lo, v)
            elif m == 'get_ui': src = 'unsigned long t = %s.get_ui();' % v; ck = 'rt::chku(t, %s_get_ui(C.%s.v), "get_ui")' % (lo, v)
            elif m == 'get_si': src = 'long t = %s.get_si();' % v; ck = 'rt::chki(t, %s_get_si(C.%s.v), "get_si")' % (lo, v)
            else: src = 'bool t = %s.%s();' % (v, m); ck = 'rt::chki(t, %s_%s(C.%s.v) != 0, "%s")' % (lo, m, v, m)
            B += ['RT_GO', src, 'RT_END', 'return %s;' % ck]
    elif kind == 'get_str':
        base = r.choice([2, 3, 8, 10, 16, 36, -16, -36, 10, 16])
        if cls == 'F':
            nd = r.choice([0, 1, 5, 20, 0])
            src = 'mp_exp_t e; std::string t = %s.get_str(e, %d, %d);' % (v, base, nd)
            B += ['RT_GO', src, 'RT_END', 'mp_exp_t e2; std::string w = rt::cstr(mpf_get_str(NULL, &e2, %d, %d, C.%s.v));' % (base, nd, v),
                  'return rt::chks(t, w, "digits") | rt::chki(e, e2, "exponent");']
        else:
            src = 'std::string t = %s.get_str(%s);' % (v, '' if base == 10 and r.random() < 0.5 else base)
            B += ['RT_GO', src, 'RT_END', 'return rt::chks(t, rt::cstr(%s_get_str(NULL, %d, C.%s.v)), "get_str");' % (lo, base, v)]
    elif kind == 'swap':
        o = r.choice([x for x in VARS[cls] if x != v])
        src = r.choice(['%s.swap(%s);', 'swap(%s, %s);']) % (v, o)
        # mpf_swap: "Both the values and the precisions of the two variables are swapped."
        B += ['rt::%s w1%s, w2%s;' % (cls, '(C.p%s)' % v if cls == 'F' else '', '(C.p%s)' % o if cls == 'F' else ''),
              '%s_set(w1.v, C.%s.v); %s_set(w2.v, C.%s.v); %s_swap(w1.v, w2.v);' % (lo, v, lo, o, lo),
              'RT_GO', src, 'RT_END', 'return rt::chk(%s, w1.v, "%s") | rt::chk(%s, w2.v, "%s");' % (v, v, o, o)]
    else:   # numden: get_num()/get_den() write access + canonicalize, and the (num, den) constructor
        qv = r.choice(VARS['Q']); form = r.choice(['refs', 'ctor_z', 'ctor_long'])
        if form == 'ctor_long':
            B += ['if (C.l2 == 0) return rt::SKIP_DIV0;', 'rt::Z n, d; mpz_set_si(n.v, C.l1); mpz_set_si(d.v, C.l2);']
            src = 'mpq_class x(l1, l2); x.canonicalize();'; res = 'x'
        else:
            B += ['if (mpz_sgn(C.b.v) == 0) return rt::SKIP_DIV0;', 'rt::Z n, d; mpz_set(n.v, C.a.v); mpz_set(d.v, C.b.v);']
            if form == 'ctor_z': src = 'mpq_class x(a, b); x.canonicalize();'; res = 'x'
            else: src = '%s.get_num() = a; %s.get_den() = b; %s.canonicalize();' % (qv, qv, qv); res = qv
        B += ['rt::Q w; mpq_set_num(w.v, n.v); mpq_set_den(w.v, d.v); mpq_canonicalize(w.v);', 'RT_GO', src, 'RT_END',
              'return rt::chk(%s, w.v, "%s");' % (res, res)]
        cls = 'Q'
    lab[{'Z': 'mpz', 'Q': 'mpq', 'F': 'mpf'}[cls]] = 1
    return Test(src, B, lab)


# ---------------------------------------------------------------------------------------------- programs
def make_tests(seed, tier, tu, nfunc):
    """deterministic list of tests for translation unit number tu"""
    r = random.Random('%s/%s/%d' % (seed, tier, tu))
    maxd = 5 if tier == 'thorough' else 4
    out = []
    for i in range(nfunc):
        p = r.random()
        t = expr_test(r, maxd) if p < 0.84 else io_test(r) if p < 0.92 else conv_test(r)
        t.id = tu * 1000 + i
        out.append(t)
    return out


def cstr(s): return '"' + s.replace('\\', '\\\\').replace('"', '\\"') + '"'


def program_text(tests, tuple_str=None, inline_rt=None):
    L = ['// generated by /verif/cxxgen -- C20 differential program']
    L.append(inline_rt if inline_rt else '#include "rt.h"')
    for t in tests:
        L.append('// %s' % t.src)
        L.append('static int t%d(const rt::Ctx& C) {' % t.id)
        L += ['  ' + x for x in t.body]
        L.append('}')
    L.append('static const rt::Test TESTS[] = {')
    for t in tests:
        L.append('  {%d, t%d, %d, %d, %d, %s},' % (t.id, t.id, t.precs[0], t.precs[1], t.precs[2], cstr(t.src)))
    L.append('};')
    L.append('static const char* TUPLE = %s;' % (cstr(tuple_str) if tuple_str else '0'))
    L.append('int main(int argc, char** argv) { return rt::run(TESTS, %d, argc, argv, TUPLE); }' % len(tests))
    return '\n'.join(L) + '\n'


def src_hash(t): return hashlib.sha1(t.src.encode()).hexdigest()


# ---------------------------------------------------------------------------------------------- shrinking
def reductions(R):
    """candidate smaller roots (tree level): subtree -> one of its same-class descendants (drops operators),
    subtree -> fresh variable holding its reference value (hoist)"""
    out = []
    for ti, tr in enumerate(R.trees):
        nodes = list(tr.walk())
        for ni, n in enumerate(nodes):
            if n.cls == 'B' or n.k in ('var', 'nd', 'hoist'): continue
            cands = sorted([d for d in n.walk() if d is not n and d.cls == n.cls], key=lambda d: d.nops())
            picks = []
            for d in cands[:2] + cands[-1:]:
                if not any(d is x for x in picks): picks.append(d)
            if n is not tr and not (R.cls == 'F' and R.kind in ('compare', 'intfn') and len(set(R.precs)) > 1):
                picks.append('hoist')
            for rep in picks:
                R2 = copy.deepcopy(R)
                nodes2 = list(R2.trees[ti].walk())
                n2 = nodes2[ni]
                if rep == 'hoist':
                    R2.hcount += 1
                    new = N('hoist', n.cls, txt='x%d' % R2.hcount, sub=n2)
                else:
                    new = nodes2[[i for i, x in enumerate(nodes) if x is rep][0]]
                if n2 is R2.trees[ti]: R2.trees[ti] = new
                else:
                    for p in nodes2:
                        for ci, c in enumerate(p.kids):
                            if c is n2: p.kids[ci] = new
                out.append(R2)
    out.sort(key=lambda r: (r.nops(), r.hcount))
    return out
