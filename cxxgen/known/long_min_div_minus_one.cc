// Known finding (C20): LONG_MIN / mpz_class(-1) is computed in machine arithmetic (SIGFPE); mpz_tdiv_q gives 2^63.
#include <mpirxx.h>
#include <climits>
#include <cstdio>
#include <unistd.h>
#include <sys/wait.h>
int main() {
  pid_t p = fork();
  if (p == 0) { mpz_class a(-1), r; long l = LONG_MIN; r = l / a; mpz_t e; mpz_init_set_ui(e, 1); mpz_mul_2exp(e, e, 63); _exit(mpz_cmp(r.get_mpz_t(), e) == 0 ? 0 : 1); }
  int st = 0; waitpid(p, &st, 0);
  if (WIFSIGNALED(st) || WEXITSTATUS(st) != 0) { printf("MISMATCH func=0 tuple=0 expr=r = LONG_MIN / a; got=%s want=0x8000000000000000 item=value\n", WIFSIGNALED(st) ? "signal" : "wrong"); return 1; }
  return 0;
}
