// Known finding (C20): mpirxx.h negates long operands in machine arithmetic (-l); undefined for LONG_MIN and
// miscompiled by clang++ -O1: a %= LONG_MIN differs from mpz_tdiv_r (g++ 12 happens to produce the right value).
#include <mpirxx.h>
#include <climits>
#include <cstdio>
int main() {
  int bad = 0;
  { mpz_class a("-17702697211180479013"), b(a); a %= LONG_MIN; mpz_t d, e; mpz_init_set_si(d, LONG_MIN); mpz_init(e); mpz_tdiv_r(e, b.get_mpz_t(), d); if (mpz_cmp(a.get_mpz_t(), e) != 0) bad++; }
  { mpz_class a("12345678901234567890123"), b(a); a %= LONG_MIN; mpz_t d, e; mpz_init_set_si(d, LONG_MIN); mpz_init(e); mpz_tdiv_r(e, b.get_mpz_t(), d); if (mpz_cmp(a.get_mpz_t(), e) != 0) bad++; }
  { mpz_class a("-9223372036854775809"), b(a), q; q = a / LONG_MIN; mpz_t d, e; mpz_init_set_si(d, LONG_MIN); mpz_init(e); mpz_tdiv_q(e, b.get_mpz_t(), d); if (mpz_cmp(q.get_mpz_t(), e) != 0) bad++; }
  if (bad) { printf("MISMATCH func=0 tuple=0 expr=a %%= LONG_MIN; got=%d-wrong want=mpz_tdiv_r item=value\n", bad); return 1; }
  return 0;
}
