// Known finding (C20): assigning an rvalue mpf_class of another precision changes the destination precision
// (C++11 move assignment swaps); the manual says operator= never changes the precision of the destination and
// the value is truncated, i.e. the C evaluation is mpf_set(t, tmp).
#include <mpirxx.h>
#include <cstdio>
int main() {
  mpf_class t(0, 128); mpq_class q(1, 3);
  t = mpf_class(q, 256);
  mpf_t ref, tmp; mpf_init2(ref, 128); mpf_init2(tmp, 256); mpf_set_q(tmp, q.get_mpq_t()); mpf_set(ref, tmp);
  bool bad = mpf_get_prec(t.get_mpf_t()) != mpf_get_prec(ref) || mpf_cmp(t.get_mpf_t(), ref) != 0;
  if (bad) { printf("MISMATCH func=0 tuple=0 expr=t = mpf_class(q, 256); got=prec%lu want=prec%lu item=precision\n", (unsigned long)mpf_get_prec(t.get_mpf_t()), (unsigned long)mpf_get_prec(ref)); return 1; }
  return 0;
}
