#!/usr/bin/env python3
"""C20 generated-program differential checker (see README.md).

run.py --repo <tree> --lib <dir with libmpir.a [+ mpir.h]> --tier quick|thorough --seed N --out result.json
       [--replay <file.cc>]
exit: 0 held, 1 mismatch (prints CXX-MISMATCH expr=... replay=...), 2 harness fault / inconclusive
"""
import argparse
import concurrent.futures as cf
import glob
import json
import os
import re
import shutil
import subprocess
import sys
import tempfile
import time

HERE = os.path.dirname(os.path.abspath(__file__))
sys.path.insert(0, HERE)
sys.dont_write_bytecode = True
import gen  # noqa: E402

TIERS = {'quick': dict(tus=64, funcs=150, K=100), 'thorough': dict(tus=320, funcs=150, K=400)}
JOBS = int(os.environ.get('VERIF_JOBS', '16'))
MAX_SHRINK = 40


SUSPECTED_FINDINGS = [
    dict(id='mpq_shift_in_place',
         summary='mpq_mul_2exp / mpq_div_2exp give a wrong value when dst == src, n >= 64 and the operand that is shifted right '
                 '(denominator for mul, numerator for div) has zero low limbs; mpq/md_2exp.c mord_2exp() copies the overlapping limbs '
                 'with MPN_COPY_DECR although the destination is BELOW the source (needs MPN_COPY_INCR). mpq_class evaluates '
                 'q >>= n, q = q << n and every shift of a sub-expression in place, so the C++ value differs from the '
                 'temporaries evaluation.',
         repro='mpq_t r,t; mpq_init(r); mpq_init(t); mpq_set_str(r,"-6/5",10); mpq_mul_2exp(r,r,126); mpq_div_2exp(t,r,64); '
               'mpq_div_2exp(r,r,64); /* mpq_equal(r,t)==0: r=-0x10000000000000001/5, t=-0x18000000000000000/5 */',
         excluded='mpq_class shifts whose operand is a sub-expression or the assignment target, and q <<= n / q >>= n'),
    dict(id='mpf_assign_rvalue_other_precision',
         summary='manual (C++ Interface Floats, operator=): "operator= only stores a new value, it doesn\'t copy or change the '
                 'precision of the destination, instead the value is truncated if necessary". With C++11 the move assignment '
                 'mpf_class::operator=(mpf_class&&) swaps, so assigning an rvalue mpf_class of another precision changes the '
                 'destination precision (and keeps the untruncated value).',
         repro='mpf_class t(0,128); mpq_class q(1,3); t = mpf_class(q,256); /* t.get_prec()==256, manual says 128 */',
         excluded='f = mpf_class(x, P) is generated only with P equal to the precision of f'),
    dict(id='long_min_div_minus_one',
         summary='(long)LONG_MIN / mpz_class(-1) and LONG_MIN % mpz_class(-1) raise SIGFPE: mpirxx.h __gmp_binary_divides / '
                 '__gmp_binary_modulus eval(mpz_ptr, mpir_si, mpz_srcptr) compute l / mpz_get_si(w) in machine arithmetic, which '
                 'overflows. The manual says divisions follow mpz_tdiv_q / mpz_tdiv_r: the results are 2^63 and 0.',
         repro='#include <mpirxx.h>\n#include <climits>\nint main(){ mpz_class a(-1), r; r = LONG_MIN / a; /* killed by SIGFPE, '
               'expected r == 9223372036854775808 */ return r.fits_slong_p(); }',
         excluded='covered by the LONG_MIN skip of long_min_negation_ub'),
    dict(id='long_min_negation_ub',
         summary='mpirxx.h negates signed long operands in machine arithmetic (-l, static_cast<mpir_ui>(-l), __gmpxx_abs_ui) in the '
                 'mpz/mpq/mpf functors for + - * / % gcd lcm; for l == LONG_MIN this is signed overflow (undefined behaviour). '
                 'g++ 12 -O1 happens to produce 2^63, clang++ 14 -O1 produces a wrong value.',
         repro='#include <mpirxx.h>\n#include <climits>\n#include <iostream>\nint main(){ mpz_class a("-17702697211180479013"); '
               'a %= LONG_MIN; std::cout << a << "\\n"; } /* clang++ -O1: -207785848; mpz_tdiv_r gives -8479325174325703205 */',
         excluded='value tuples in which a long operand of an arithmetic operator equals LONG_MIN are skipped at run time; '
                  'the literal LONG_MIN is not generated (comparisons with LONG_MIN are still generated)'),
]


class Fault(Exception):
    pass


def sh(cmd, timeout=900, env=None):
    p = subprocess.run(cmd, stdout=subprocess.PIPE, stderr=subprocess.PIPE, timeout=timeout, env=env)
    return p.returncode, p.stdout.decode('utf-8', 'replace'), p.stderr.decode('utf-8', 'replace')


class Build:
    """compiles against the GIVEN tree: mpirxx.h, gmp-impl.h, cxx/*.cc from --repo, mpir.h + libmpir.a from --lib"""
    def __init__(self, repo, lib, scratch):
        self.repo, self.scratch = os.path.abspath(repo), scratch
        lib = os.path.abspath(lib)
        cands = [os.path.join(lib, 'libmpir.a'), os.path.join(lib, '.libs', 'libmpir.a')]
        self.archive = next((c for c in cands if os.path.isfile(c)), None)
        if not self.archive: raise Fault('no libmpir.a in %s' % lib)
        for need in ('mpirxx.h', 'gmp-impl.h', 'cxx/osmpz.cc'):
            if not os.path.isfile(os.path.join(self.repo, need)): raise Fault('%s missing in %s' % (need, self.repo))
        inc = os.path.join(scratch, 'inc')
        os.makedirs(inc)
        mpir_h = next((p for p in (os.path.join(lib, 'mpir.h'), os.path.join(self.repo, 'mpir.h')) if os.path.isfile(p)), None)
        if not mpir_h: raise Fault('no mpir.h in --lib or --repo')
        os.symlink(mpir_h, os.path.join(inc, 'mpir.h'))
        for h in ('mpirxx.h', 'gmp-impl.h'):
            os.symlink(os.path.join(self.repo, h), os.path.join(inc, h))
        shutil.copy(os.path.join(HERE, 'rt.h'), os.path.join(inc, 'rt.h'))
        self.inc = ['-I' + inc, '-I' + lib, '-I' + self.repo]
        rc, out, _ = sh(['sh', '-c', 'nm "%s" 2>/dev/null | grep -c __asan_' % self.archive])
        self.asan = out.strip() not in ('', '0')
        self.cxx = ['clang++', '-fsanitize=address', '-fno-omit-frame-pointer'] if self.asan else ['g++']
        self.flags = ['-std=gnu++17', '-O1', '-w']
        self.env = dict(os.environ, ASAN_OPTIONS='detect_leaks=0:abort_on_error=1:handle_abort=0')
        self.objs = []

    def cxx_objects(self):
        srcs = [f for f in sorted(glob.glob(os.path.join(self.repo, 'cxx', '*.cc'))) if os.path.basename(f) != 'dummy.cc']
        od = os.path.join(self.scratch, 'cxxobj')
        os.makedirs(od)

        def one(f):
            o = os.path.join(od, os.path.basename(f)[:-3] + '.o')
            rc, _, err = sh(self.cxx + self.flags + ['-DHAVE_CONFIG_H'] * 0 + self.inc + ['-c', f, '-o', o])
            if rc: raise Fault('cannot compile %s: %s' % (f, first_error(err)))
            return o
        with cf.ThreadPoolExecutor(JOBS) as ex:
            self.objs = list(ex.map(one, srcs))

    def compile(self, cc, exe):
        rc, _, err = sh(self.cxx + self.flags + self.inc + [cc] + self.objs + [self.archive, '-o', exe])
        return None if rc == 0 else first_error(err)

    def run(self, exe, args=()):
        try:
            rc, out, err = sh([exe] + [str(a) for a in args], timeout=1800, env=self.env)
        except subprocess.TimeoutExpired:
            return -99, '', 'timeout'
        return rc, out, err


def first_error(err):
    for line in err.splitlines():
        if 'error' in line.lower(): return line.strip()[:400]
    return (err.strip().splitlines() or ['?'])[0][:400]


RE_MIS = re.compile(r'^MISMATCH func=(\d+) tuple=(\d+) expr=(.*) got=(\S+) want=(\S+) item=(.*)$')
RE_TUP = re.compile(r'^TUPLE func=(\d+) tuple=(\d+) (.*)$')
RE_CRASH = re.compile(r'^CRASH func=(-?\d+) tuple=(\d+) signal=(\d+)')
RE_SUM = re.compile(r'^SUMMARY funcs=(\d+) evals=(\d+) skip_div0=(\d+) skip_dom=(\d+) skip_ambig=(\d+) skip_finding=(\d+) mismatches=(\d+) badfuncs=(\d+)')


def parse(out):
    """-> dict(summary, mismatches=[{func,tuple,expr,got,want,item,values}], crash, harness)"""
    res = dict(summary=None, mismatches=[], harness=None)
    tuples = {}
    for line in out.splitlines():
        m = RE_MIS.match(line)
        if m:
            res['mismatches'].append(dict(func=int(m.group(1)), tuple=int(m.group(2)), expr=m.group(3), got=m.group(4),
                                          want=m.group(5), item=m.group(6)))
            continue
        m = RE_TUP.match(line)
        if m: tuples[(int(m.group(1)), int(m.group(2)))] = m.group(3); continue
        m = RE_CRASH.match(line)
        if m:
            res['mismatches'].append(dict(func=int(m.group(1)), tuple=int(m.group(2)), expr='', got='CRASH-signal-' + m.group(3),
                                          want='no-crash', item='crash'))
            continue
        m = RE_SUM.match(line)
        if m: res['summary'] = [int(x) for x in m.groups()]; continue
        if line.startswith('HARNESS'): res['harness'] = line
    for mm in res['mismatches']: mm['values'] = tuples.get((mm['func'], mm['tuple']))
    return res


def one_function_program(t, values):
    rt = open(os.path.join(HERE, 'rt.h')).read()
    return gen.program_text([t], tuple_str=values, inline_rt=rt)


class Shrinker:
    def __init__(self, build, scratch, test, values):
        self.b, self.dir, self.t, self.values, self.n = build, os.path.join(scratch, 'shrink'), test, values, 0
        os.makedirs(self.dir, exist_ok=True)

    def fails(self, t, values):
        """True when the one-function program still reports a mismatch"""
        self.n += 1
        base = os.path.join(self.dir, 's%d' % self.n)
        open(base + '.cc', 'w').write(one_function_program(t, values))
        if self.b.compile(base + '.cc', base): return False
        rc, out, _ = self.b.run(base)
        return rc == 1 and bool(parse(out)['mismatches'])

    def batch(self, cands):
        with cf.ThreadPoolExecutor(JOBS) as ex:
            return list(ex.map(lambda c: self.fails(*c), cands))

    def shrink(self):
        t, values, attempts = self.t, self.values, 0
        if not self.fails(t, values): return t, values, 'not reproduced in isolation'
        while t.root is not None and attempts < MAX_SHRINK:   # tree level
            cands = []
            for R in gen.reductions(t.root)[:min(JOBS, MAX_SHRINK - attempts)]:
                try:
                    src, body = gen.emit_root(R)
                except Exception:
                    continue
                t2 = gen.Test(src, body, {}, R.precs, R, R.nops()); t2.id = t.id
                cands.append(t2)
            if not cands: break
            attempts += len(cands)
            ok = self.batch([(c, values) for c in cands])
            hit = [c for c, f in zip(cands, ok) if f]
            if not hit: break
            t = hit[0]
        kv = dict(x.split('=', 1) for x in values.split())
        used = set(re.findall(r'\b(a|b|c|q|r|s|f|g|h|i1|i2|u1|u2|l1|l2|ul1|ul2|di1|di2|dq1|dq2|sh1|sh2)\b', t.src.split('//')[0]))
        if t.root is None: used |= set(re.findall(r'C\.(\w+)', ' '.join(t.body))) | {'l1', 'u1', 'u2'}   # rt.h stream helpers read these

        def simple(k, level):
            if k in 'abc': return ['0x0', '0x1', low(kv[k])][level]
            if k in 'qrs': return ['0x0/0x1', '0x1/0x1', low(kv[k].split('/')[0]) + '/0x1'][level]
            if k in 'fgh': return ['0x0@0', '0x1@0', low(kv[k].split('@')[0]) + '@0'][level]
            if k.startswith('d'): return ['0x0p+0', '0x1p+0', kv[k]][level]
            return ['0', '1', kv[k]][level]

        def low(h):
            neg = h.startswith('-')
            d = h.lstrip('-')[2:][-16:].lstrip('0') or '0'
            return ('-' if neg and d != '0' else '') + '0x' + d
        # variables the expression does not mention: all to zero in one step
        kv2 = dict(kv)
        for k in kv2:
            if k not in used: kv2[k] = simple(k, 0)
        v2 = ' '.join('%s=%s' % x for x in kv2.items())
        attempts += 1
        if self.fails(t, v2): kv, values = kv2, v2
        for k in sorted(used):   # fewer limbs / smaller built-ins for the variables that matter
            for level in (0, 1, 2):
                if attempts >= MAX_SHRINK + 12: break
                new = simple(k, level)
                if new == kv[k]: break
                kv2 = dict(kv); kv2[k] = new
                v2 = ' '.join('%s=%s' % x for x in kv2.items())
                attempts += 1
                if self.fails(t, v2):
                    kv, values = kv2, v2
                    break
        return t, values, 'shrunk in %d attempts' % attempts


def replay(args, scratch):
    b = Build(args.repo, args.lib, scratch)
    b.cxx_objects()
    exe = os.path.join(scratch, 'replay')
    err = b.compile(os.path.abspath(args.replay), exe)
    if err: raise Fault('replay file does not compile: ' + err)
    rc, out, errtxt = b.run(exe)
    p = parse(out)
    for m in p['mismatches'][:5]:
        print('CXX-MISMATCH expr=%s got=%s want=%s item=%s replay=%s' % (m['expr'], m['got'], m['want'], m['item'], args.replay))
    if rc == 1 or p['mismatches']: return 1, dict(status='violation', message='replay still mismatches', replay=args.replay)
    if rc != 0: raise Fault('replay program exit code %d: %s %s' % (rc, p['harness'] or '', errtxt[-300:]))
    return 0, dict(status='ok', message='replay no longer mismatches', replay=args.replay)


def check(args, scratch, res):
    cfg = TIERS[args.tier]
    b = Build(args.repo, args.lib, scratch)
    b.cxx_objects()
    res['compiler'] = ' '.join(b.cxx)
    all_tests = {}
    labels, distinct, nfun, samples = {}, set(), 0, []
    progs = []
    for tu in range(cfg['tus']):
        tests = gen.make_tests(args.seed, args.tier, tu, cfg['funcs'])
        cc = os.path.join(scratch, 'tu%03d.cc' % tu)
        open(cc, 'w').write(gen.program_text(tests))
        progs.append((tu, cc, tests))
        for t in tests:
            all_tests[t.id] = t
            nfun += 1
            for k, v in t.labels.items(): labels[k] = labels.get(k, 0) + v
            if t.root is not None and t.nops >= 2: distinct.add(gen.src_hash(t))
            if t.root is not None and t.nops >= 3 and len(samples) < 12 and len(t.src) < 120:
                samples.append(dict(expr=t.src, reference=[x for x in t.body[1:t.body.index('RT_GO')]]))
    res['excluded_shapes'] = dict(gen.EXCLUDED)
    res.update(programs=len(progs), functions=nfun, distinct_nontrivial=len(distinct), labels=dict(sorted(labels.items())), samples=samples)

    def build_and_run(p):
        tu, cc, tests = p
        exe = cc[:-3]
        err = b.compile(cc, exe)
        if err: return tu, 'compile', err, None
        rc, out, errtxt = b.run(exe, [args.seed, cfg['K']])
        return tu, 'ran', rc, (out, errtxt)
    evals = div0 = dom = amb = fnd = 0
    mism, faults = [], []
    with cf.ThreadPoolExecutor(JOBS) as ex:
        for tu, what, rc, io in ex.map(build_and_run, progs):
            if what == 'compile':
                res['compile_failures'].append(dict(tu=tu, first_error=rc))
                continue
            p = parse(io[0])
            if p['summary']:
                evals += p['summary'][1]; div0 += p['summary'][2]; dom += p['summary'][3]; amb += p['summary'][4]; fnd += p['summary'][5]
            mism += p['mismatches']
            if p['harness'] or (rc not in (0, 1)) or (rc == 1 and not p['mismatches']) or (rc == 0 and not p['summary']):
                faults.append('tu%03d: exit %s %s %s' % (tu, rc, p['harness'] or '', io[1].strip()[-300:]))
    res.update(evaluations=evals, skipped_div_by_zero=div0, skipped_domain=dom, skipped_ambiguous_mpf_builtin=amb)
    res['excluded_shapes']['long_min_operand(value tuples skipped at run time)'] = fnd
    res['program_faults'] = faults[:10]
    if mism:
        mism.sort(key=lambda m: (m['func'], m['tuple']))
        res['mismatching_functions'] = sorted(set(m['func'] for m in mism))[:50]
        seen, firsts = set(), []
        for x in mism:
            if x['func'] not in seen:
                seen.add(x['func']); firsts.append(dict(x, values=None, expr=all_tests[x['func']].src))
        res['first_mismatches'] = firsts[:40]
        m = mism[0]
        t = all_tests[m['func']]
        path = None
        if m['values']:
            t2, values, how = Shrinker(b, scratch, t, m['values']).shrink()
            rdir = os.path.join(os.environ.get('VERIF_REPLAY_DIR', '/verif/replays'), 'C20')
            os.makedirs(rdir, exist_ok=True)
            path = os.path.join(rdir, '%s-seed%d-f%d.cc' % (args.tier, args.seed, t.id))
            text = one_function_program(t2, values)
            head = '// C20 replay: %s\n// original expression: %s\n// item=%s got=%s want=%s (%s)\n' % (t2.src, t.src, m['item'], m['got'], m['want'], how)
            open(path, 'w').write(head + text)
            res['shrunk_expr'] = t2.src
        res.update(status='violation', replay=path,
                   message='%d mismatching evaluations in %d functions; first: %s item=%s' % (len(mism), len(res['mismatching_functions']), t.src, m['item']))
        print('CXX-MISMATCH expr=%s replay=%s' % (res.get('shrunk_expr', t.src), path))
        return 1
    if faults:
        res.update(status='harness_fault', message='; '.join(faults[:5]))
        return 2
    ncf = len(res['compile_failures'])
    if ncf * 10 > len(progs):
        res.update(status='inconclusive', message='%d of %d generated programs do not compile' % (ncf, len(progs)))
        return 2
    res.update(status='ok', message='all %d evaluations agree with the reference%s' % (evals, ' (%d TUs did not compile)' % ncf if ncf else ''))
    return 0


def main():
    ap = argparse.ArgumentParser()
    ap.add_argument('--repo', required=True); ap.add_argument('--lib', required=True)
    ap.add_argument('--tier', choices=sorted(TIERS), default='quick')
    ap.add_argument('--seed', type=int, default=1); ap.add_argument('--out', required=True)
    ap.add_argument('--replay')
    args = ap.parse_args()
    t0 = time.time()
    res = dict(status='harness_fault', evaluations=0, programs=0, functions=0, distinct_nontrivial=0, labels={},
               skipped_div_by_zero=0, compile_failures=[], suspected_findings=SUSPECTED_FINDINGS, excluded_shapes={}, samples=[],
               replay=None, message='', tier=args.tier, seed=args.seed)
    scratch = tempfile.mkdtemp(prefix='cxxgen.', dir='/var/tmp')
    code = 2
    try:
        if args.replay:
            code, upd = replay(args, scratch)
            res.update(upd)
        else:
            code = check(args, scratch, res)
    except Fault as e:
        res.update(status='harness_fault', message=str(e)); code = 2
    except Exception as e:  # noqa: BLE001
        import traceback
        res.update(status='harness_fault', message='%s: %s' % (type(e).__name__, e), traceback=traceback.format_exc()); code = 2
    finally:
        shutil.rmtree(scratch, ignore_errors=True)
        res['wall_s'] = round(time.time() - t0, 1)
        with open(args.out, 'w') as f: json.dump(res, f, indent=1)
    print('C20 cxxgen: %s (%s) evaluations=%s wall=%ss' % (res['status'], res['message'], res.get('evaluations'), res['wall_s']))
    sys.exit(code)


if __name__ == '__main__':
    main()
