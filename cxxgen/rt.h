// rt.h -- runtime support for the generated C20 differential programs.
// Every generated test is `static int tN(const rt::Ctx& C)`; it computes the
// REFERENCE first (C functions on the immutable values in C, one temporary per
// node), then runs the C++ statement on fresh class objects, then compares.
#ifndef CXXGEN_RT_H
#define CXXGEN_RT_H
#include <mpir.h>
#include <mpirxx.h>
#include <iostream>
#include <sstream>
#include <iomanip>
#include <string>
#include <stdexcept>
#include <climits>
#include <cstdint>
#include <cstdio>
#include <cstdlib>
#include <cstring>
#include <csignal>
#include <cmath>
#include <unistd.h>

namespace rt {
typedef unsigned long ul;
enum { OK = 0, BAD = 1, SKIP_DIV0 = 2, SKIP_DOM = 3, SKIP_AMBIG = 4, SKIP_FINDING = 5 };

struct Rng {
  uint64_t s;
  explicit Rng(uint64_t x) : s(x) {}
  uint64_t next() {  // splitmix64
    uint64_t z = (s += 0x9E3779B97F4A7C15ULL);
    z = (z ^ (z >> 30)) * 0xBF58476D1CE4E5B9ULL;
    z = (z ^ (z >> 27)) * 0x94D049BB133111EBULL;
    return z ^ (z >> 31);
  }
  uint64_t below(uint64_t n) { return next() % n; }
  bool coin() { return next() & 1; }
};

struct Z { mpz_t v; Z() { mpz_init(v); } ~Z() { mpz_clear(v); } Z(const Z&) = delete; };
struct Q { mpq_t v; Q() { mpq_init(v); } ~Q() { mpq_clear(v); } Q(const Q&) = delete; };
struct F { mpf_t v; explicit F(mp_bitcnt_t p) { mpf_init2(v, p); } ~F() { mpf_clear(v); } F(const F&) = delete; };

struct Ctx {
  Z a, b, c; Q q, r, s; F f, g, h;
  ul pf, pg, ph;
  int i1, i2; unsigned u1, u2; long l1, l2; ul ul1, ul2;
  double di1, di2, dq1, dq2;  // di*: integer-valued, dq*: any finite dyadic
  ul sh1, sh2;
  Ctx(ul p1, ul p2, ul p3) : f(p1), g(p2), h(p3), pf(p1), pg(p2), ph(p3) {}
};

// ---------------------------------------------------------------- values
inline void rnd_limbs(Rng& r, mpz_t z, int n) {
  uint64_t buf[8];
  int style = (int)r.below(4);
  for (int i = 0; i < n; i++) {
    uint64_t x = r.next();
    if (style == 1) x = r.coin() ? ~(uint64_t)0 : 0;           // runs of ones / zeros
    if (style == 2) x = (uint64_t)1 << r.below(64);            // sparse
    buf[i] = x;
  }
  if (buf[n - 1] == 0) buf[n - 1] = 1 + r.below(1000);
  mpz_import(z, n, -1, 8, 0, 0, buf);
}
inline void gen_z(Rng& r, mpz_t z) {
  switch (r.below(14)) {
    case 0: mpz_set_ui(z, 0); break;
    case 1: mpz_set_ui(z, 1); break;
    case 2: case 3: mpz_set_ui(z, r.below(1000)); break;
    case 4: mpz_set_ui(z, 1); mpz_mul_2exp(z, z, r.below(401)); break;
    case 5: mpz_set_ui(z, 1); mpz_mul_2exp(z, z, r.below(401));
            if (r.coin()) mpz_add_ui(z, z, 1); else mpz_sub_ui(z, z, 1); break;
    case 6: { static const ul sp[] = { (ul)LONG_MAX, (ul)LONG_MAX + 1, ULONG_MAX, (ul)INT_MAX, (ul)INT_MAX + 1,
                                       (ul)UINT_MAX, (ul)UINT_MAX + 1, (ul)1 << 53, ((ul)1 << 53) - 1, ULONG_MAX - 1 };
              mpz_set_ui(z, sp[r.below(10)]); if (r.below(4) == 0) mpz_add_ui(z, z, 1); break; }
    default: rnd_limbs(r, z, 1 + (int)r.below(6)); break;
  }
  if (r.coin()) mpz_neg(z, z);
}
inline void gen_q(Rng& r, mpq_t q) {
  Z n, d;
  int k = (int)r.below(7);
  if (k == 0) { gen_z(r, n.v); mpz_set_ui(d.v, 1); }
  else if (k == 1) { mpz_set_si(n.v, (long)r.below(200) - 100); mpz_set_ui(d.v, 1 + r.below(100)); }
  else if (k == 2) { rnd_limbs(r, n.v, 1 + (int)r.below(6)); rnd_limbs(r, d.v, 1 + (int)r.below(6)); }
  else if (k == 3) { mpz_set_ui(n.v, r.below(100)); rnd_limbs(r, d.v, 1 + (int)r.below(4)); }
  else if (k == 4) { rnd_limbs(r, n.v, 1 + (int)r.below(4)); mpz_set_ui(d.v, 1 + r.below(100)); }
  else if (k == 5) { mpz_set_ui(n.v, 1 + r.below(9)); mpz_set_ui(d.v, 1); mpz_mul_2exp(d.v, d.v, r.below(130)); }
  else { gen_z(r, n.v); gen_z(r, d.v); if (mpz_sgn(d.v) == 0) mpz_set_ui(d.v, 3); mpz_abs(d.v, d.v); }
  if (r.coin()) mpz_neg(n.v, n.v);
  mpq_set_num(q, n.v); mpq_set_den(q, d.v); mpq_canonicalize(q);
}
inline void gen_f(Rng& r, mpf_t f, ul prec) {
  Z m;
  int k = (int)r.below(10);
  int maxl = (int)(prec / 64) + 1;  // fits the variable exactly (it holds prec/64+2 limbs)
  if (k == 0) { mpf_set_ui(f, 0); return; }
  if (k == 1) { mpf_set_si(f, r.coin() ? 1 : -1); return; }
  if (k == 2) { mpf_set_si(f, (long)r.below(2000) - 1000); return; }
  if (k == 3) { mpf_set_si(f, (long)r.below(2000) - 1000); mpf_div_2exp(f, f, 1 + r.below(8)); return; }
  rnd_limbs(r, m.v, 1 + (int)r.below(maxl));
  if (r.coin()) mpz_neg(m.v, m.v);
  mpf_set_z(f, m.v);
  ul e = (k == 4) ? r.below(3000) : r.below(300);
  if (k == 5) e = 64 * r.below(5);
  if (r.coin()) mpf_mul_2exp(f, f, e); else mpf_div_2exp(f, f, e);
}
template <class T> inline T pick(Rng& r, const T* sp, int n, int smallrange, bool sgn) {
  uint64_t k = r.below(10);
  if (k < 4) return sp[r.below(n)];
  if (k < 7) { long v = (long)r.below(smallrange); if (sgn && r.coin()) v = -v; return (T)v; }
  return (T)r.next();
}
inline double gen_di(Rng& r) {
  double d;
  switch (r.below(8)) {
    case 0: d = 0; break;
    case 1: d = 1; break;
    case 2: d = 9007199254740992.0; break;
    case 3: d = 9007199254740991.0; break;
    case 4: d = ldexp(1.0, (int)r.below(120)); break;
    case 5: d = (double)(r.next() >> 11); break;               // < 2^53, exact
    case 6: { double m = (double)(r.next() >> 20); d = ldexp(m, (int)r.below(60)); break; }   // sequenced: same values with every compiler
    default: d = (double)r.below(1000); break;
  }
  return r.coin() ? -d : d;
}
inline double gen_dq(Rng& r) {
  double d;
  switch (r.below(7)) {
    case 0: d = 0.5; break;
    case 1: d = 0.25 * (double)r.below(64); break;
    case 2: { double m = (double)(r.next() >> 11); d = ldexp(m, -(int)r.below(90)); break; }
    case 3: { double m = (double)(r.next() >> 11); d = ldexp(m, (int)r.below(40)); break; }
    case 4: d = (double)r.below(1000); break;
    case 5: d = ldexp(1.0, (int)r.below(80) - 40); break;
    default: { double m = (double)r.below(100000); d = ldexp(m, -(int)r.below(6)); break; }
  }
  return r.coin() ? -d : d;
}
inline ul gen_sh(Rng& r) {
  static const ul sp[] = { 0, 1, 2, 31, 32, 63, 64, 65, 127, 128, 129, 200 };
  return r.coin() ? sp[r.below(12)] : r.below(201);
}
inline void gen(Ctx& C, uint64_t seed, int id, int k) {
  Rng r(seed * 0x9E3779B97F4A7C15ULL ^ ((uint64_t)id << 32) ^ (uint64_t)k);
  r.next();
  gen_z(r, C.a.v); gen_z(r, C.b.v); gen_z(r, C.c.v);
  switch (r.below(12)) {   // related values: equality, cancellation, common factors
    case 0: mpz_set(C.b.v, C.a.v); break;
    case 1: mpz_neg(C.c.v, C.a.v); break;
    case 2: mpz_add_ui(C.b.v, C.a.v, 1); break;
    case 3: mpz_mul(C.b.v, C.a.v, C.c.v); break;
    default: break;
  }
  gen_q(r, C.q.v); gen_q(r, C.r.v); gen_q(r, C.s.v);
  switch (r.below(10)) {
    case 0: mpq_set(C.r.v, C.q.v); break;
    case 1: mpq_neg(C.s.v, C.q.v); break;
    case 2: if (mpq_sgn(C.q.v)) mpq_inv(C.r.v, C.q.v); break;
    default: break;
  }
  gen_f(r, C.f.v, C.pf); gen_f(r, C.g.v, C.pg); gen_f(r, C.h.v, C.ph);
  switch (r.below(10)) {
    case 0: mpf_set(C.g.v, C.f.v); break;
    case 1: mpf_neg(C.h.v, C.f.v); break;
    case 2: mpf_set(C.g.v, C.f.v); mpf_add_ui(C.g.v, C.g.v, 1); break;
    default: break;
  }
  static const int si[] = { 0, 1, -1, 2, -2, INT_MAX, INT_MIN, INT_MIN + 1, 10, 16 };
  static const unsigned su[] = { 0, 1, 2, UINT_MAX, UINT_MAX - 1, (unsigned)INT_MAX + 1u, 10, 16 };
  static const long sl[] = { 0, 1, -1, LONG_MAX, LONG_MIN, LONG_MIN + 1, (long)INT_MAX + 1, (long)INT_MIN - 1,
                             1L << 53, -(1L << 53), (1L << 53) + 1, 2, -2 };
  static const ul sul[] = { 0, 1, 2, ULONG_MAX, ULONG_MAX - 1, (ul)LONG_MAX + 1, (ul)LONG_MAX, 1UL << 53, 1UL << 32, 10 };
  C.i1 = pick<int>(r, si, 10, 100, true); C.i2 = pick<int>(r, si, 10, 100, true);
  C.u1 = pick<unsigned>(r, su, 8, 100, false); C.u2 = pick<unsigned>(r, su, 8, 100, false);
  C.l1 = pick<long>(r, sl, 13, 1000, true); C.l2 = pick<long>(r, sl, 13, 1000, true);
  C.ul1 = pick<ul>(r, sul, 10, 1000, false); C.ul2 = pick<ul>(r, sul, 10, 1000, false);
  C.di1 = gen_di(r); C.di2 = gen_di(r); C.dq1 = gen_dq(r); C.dq2 = gen_dq(r);
  C.sh1 = gen_sh(r); C.sh2 = gen_sh(r);
}

// ---------------------------------------------------------------- tuple (de)serialisation
inline std::string hexz(mpz_srcptr z) {
  char* s = mpz_get_str(NULL, 16, z); std::string o(s);
  void (*fr)(void*, size_t); mp_get_memory_functions(NULL, NULL, &fr); fr(s, strlen(s) + 1);
  return (o[0] == '-') ? "-0x" + o.substr(1) : "0x" + o;
}
inline std::string hexq(mpq_srcptr q) { return hexz(mpq_numref(q)) + "/" + hexz(mpq_denref(q)); }
inline std::string hexf(mpf_srcptr f) {  // exact: <mantissa as integer>@<exponent in bits>
  Z m; long n = f->_mp_size < 0 ? -f->_mp_size : f->_mp_size;
  if (n) mpz_import(m.v, n, -1, sizeof(mp_limb_t), 0, 0, f->_mp_d);
  if (f->_mp_size < 0) mpz_neg(m.v, m.v);
  char b[64]; snprintf(b, sizeof b, "@%ld", (long)(f->_mp_exp - n) * (long)(8 * sizeof(mp_limb_t)));
  return hexz(m.v) + b;
}
inline void unhexz(mpz_t z, const std::string& s) {
  bool neg = s[0] == '-'; std::string t = s.substr(neg ? 3 : 2);
  mpz_set_str(z, t.c_str(), 16); if (neg) mpz_neg(z, z);
}
inline void unhexf(mpf_t f, const std::string& s) {
  size_t at = s.find('@'); Z m; unhexz(m.v, s.substr(0, at)); long e = atol(s.c_str() + at + 1);
  F big(mpz_sizeinbase(m.v, 2) + 128); mpf_set_z(big.v, m.v);
  if (e >= 0) mpf_mul_2exp(big.v, big.v, e); else mpf_div_2exp(big.v, big.v, -e);
  mpf_set(f, big.v);
}
inline std::string tuple_str(const Ctx& C) {
  std::ostringstream o;
  o << "a=" << hexz(C.a.v) << " b=" << hexz(C.b.v) << " c=" << hexz(C.c.v)
    << " q=" << hexq(C.q.v) << " r=" << hexq(C.r.v) << " s=" << hexq(C.s.v)
    << " f=" << hexf(C.f.v) << " g=" << hexf(C.g.v) << " h=" << hexf(C.h.v)
    << " i1=" << C.i1 << " i2=" << C.i2 << " u1=" << C.u1 << " u2=" << C.u2
    << " l1=" << C.l1 << " l2=" << C.l2 << " ul1=" << C.ul1 << " ul2=" << C.ul2;
  char b[200];
  snprintf(b, sizeof b, " di1=%a di2=%a dq1=%a dq2=%a sh1=%lu sh2=%lu", C.di1, C.di2, C.dq1, C.dq2, C.sh1, C.sh2);
  return o.str() + b;
}
inline void load_tuple(Ctx& C, const char* t) {
  std::istringstream is(t); std::string tok;
  while (is >> tok) {
    size_t e = tok.find('='); if (e == std::string::npos) continue;
    std::string k = tok.substr(0, e), v = tok.substr(e + 1);
    if (k == "a") unhexz(C.a.v, v); else if (k == "b") unhexz(C.b.v, v); else if (k == "c") unhexz(C.c.v, v);
    else if (k == "q" || k == "r" || k == "s") {
      mpq_ptr p = k == "q" ? C.q.v : k == "r" ? C.r.v : C.s.v; size_t sl = v.find('/');
      unhexz(mpq_numref(p), v.substr(0, sl)); unhexz(mpq_denref(p), v.substr(sl + 1));
    }
    else if (k == "f") unhexf(C.f.v, v); else if (k == "g") unhexf(C.g.v, v); else if (k == "h") unhexf(C.h.v, v);
    else if (k == "i1") C.i1 = (int)strtol(v.c_str(), 0, 10); else if (k == "i2") C.i2 = (int)strtol(v.c_str(), 0, 10);
    else if (k == "u1") C.u1 = (unsigned)strtoul(v.c_str(), 0, 10); else if (k == "u2") C.u2 = (unsigned)strtoul(v.c_str(), 0, 10);
    else if (k == "l1") C.l1 = strtol(v.c_str(), 0, 10); else if (k == "l2") C.l2 = strtol(v.c_str(), 0, 10);
    else if (k == "ul1") C.ul1 = strtoul(v.c_str(), 0, 10); else if (k == "ul2") C.ul2 = strtoul(v.c_str(), 0, 10);
    else if (k == "di1") C.di1 = strtod(v.c_str(), 0); else if (k == "di2") C.di2 = strtod(v.c_str(), 0);
    else if (k == "dq1") C.dq1 = strtod(v.c_str(), 0); else if (k == "dq2") C.dq2 = strtod(v.c_str(), 0);
    else if (k == "sh1") C.sh1 = strtoul(v.c_str(), 0, 10); else if (k == "sh2") C.sh2 = strtoul(v.c_str(), 0, 10);
  }
}

// ---------------------------------------------------------------- reporting
struct Test { int id; int (*fn)(const Ctx&); unsigned pf, pg, ph; const char* src; };
static const Test* cur = 0;
static int cur_k = 0;
static volatile int in_test = 0;
static long n_reported = 0, n_reported_fn = 0;
static const Ctx* cur_ctx = 0;

inline void report(const char* item, const std::string& got, const std::string& want) {
  if (n_reported_fn++ >= 2 || n_reported++ >= 120) return;
  printf("MISMATCH func=%d tuple=%d expr=%s got=%s want=%s item=%s\n", cur->id, cur_k, cur->src, got.c_str(), want.c_str(), item);
  printf("TUPLE func=%d tuple=%d %s\n", cur->id, cur_k, tuple_str(*cur_ctx).c_str());
  fflush(stdout);
}
inline int harness(const char* what) {
  printf("HARNESS func=%d tuple=%d %s\n", cur->id, cur_k, what); fflush(stdout); exit(3);
}
inline int chk(const mpz_class& x, mpz_srcptr w, const char* item) {
  if (mpz_cmp(x.get_mpz_t(), w) == 0) return 0;
  report(item, hexz(x.get_mpz_t()), hexz(w)); return 1;
}
inline int chk(const mpq_class& x, mpq_srcptr w, const char* item) {  // value and canonical form
  if (mpq_equal(x.get_mpq_t(), w) && mpz_cmp(x.get_num_mpz_t(), mpq_numref(w)) == 0 && mpz_cmp(x.get_den_mpz_t(), mpq_denref(w)) == 0) return 0;
  report(item, hexq(x.get_mpq_t()), hexq(w)); return 1;
}
inline int chk(const mpf_class& x, mpf_srcptr w, const char* item) {  // exact value and precision
  if (mpf_cmp(x.get_mpf_t(), w) == 0 && mpf_get_prec(x.get_mpf_t()) == mpf_get_prec(w)) return 0;
  char b[64]; snprintf(b, sizeof b, "/p%lu", (ul)mpf_get_prec(x.get_mpf_t())); std::string g = hexf(x.get_mpf_t()) + b;
  snprintf(b, sizeof b, "/p%lu", (ul)mpf_get_prec(w)); report(item, g, hexf(w) + b); return 1;
}
inline int chki(long long got, long long want, const char* item) {
  if (got == want) return 0;
  report(item, std::to_string(got), std::to_string(want)); return 1;
}
inline int chku(unsigned long long got, unsigned long long want, const char* item) {
  if (got == want) return 0;
  report(item, std::to_string(got), std::to_string(want)); return 1;
}
inline int chkd(double got, double want, const char* item) {
  if (memcmp(&got, &want, sizeof got) == 0) return 0;
  char a[64], b[64]; snprintf(a, sizeof a, "%a", got); snprintf(b, sizeof b, "%a", want); report(item, a, b); return 1;
}
inline int chks(const std::string& got, const std::string& want, const char* item) {
  if (got == want) return 0;
  report(item, "\"" + got + "\"", "\"" + want + "\""); return 1;
}
inline int sign(int x) { return (x > 0) - (x < 0); }
// variables that are not the assignment target must keep their values
inline int unch(const Ctx& C, unsigned tmask, const mpz_class& a, const mpz_class& b, const mpz_class& c,
                const mpq_class& q, const mpq_class& r, const mpq_class& s,
                const mpf_class& f, const mpf_class& g, const mpf_class& h) {
  int bad = 0;
  if (!(tmask & 1)) bad |= chk(a, C.a.v, "unchanged:a");
  if (!(tmask & 2)) bad |= chk(b, C.b.v, "unchanged:b");
  if (!(tmask & 4)) bad |= chk(c, C.c.v, "unchanged:c");
  if (!(tmask & 8)) bad |= chk(q, C.q.v, "unchanged:q");
  if (!(tmask & 16)) bad |= chk(r, C.r.v, "unchanged:r");
  if (!(tmask & 32)) bad |= chk(s, C.s.v, "unchanged:s");
  if (!(tmask & 64)) bad |= chk(f, C.f.v, "unchanged:f");
  if (!(tmask & 128)) bad |= chk(g, C.g.v, "unchanged:g");
  if (!(tmask & 256)) bad |= chk(h, C.h.v, "unchanged:h");
  return bad;
}
#define RT_VARS \
  mpz_class a(C.a.v), b(C.b.v), c(C.c.v); mpq_class q(C.q.v), r(C.r.v), s(C.s.v); \
  mpf_class f(C.f.v, C.pf), g(C.g.v, C.pg), h(C.h.v, C.ph); \
  int i1 = C.i1, i2 = C.i2; unsigned u1 = C.u1, u2 = C.u2; long l1 = C.l1, l2 = C.l2; \
  unsigned long ul1 = C.ul1, ul2 = C.ul2, sh1 = C.sh1, sh2 = C.sh2; \
  double di1 = C.di1, di2 = C.di2, dq1 = C.dq1, dq2 = C.dq2; \
  (void)i1; (void)i2; (void)u1; (void)u2; (void)l1; (void)l2; (void)ul1; (void)ul2; (void)sh1; (void)sh2; \
  (void)di1; (void)di2; (void)dq1; (void)dq2;
#define RT_UNCH(mask) rt::unch(C, mask, a, b, c, q, r, s, f, g, h)
#define RT_GO rt::in_test = 1;
#define RT_END rt::in_test = 0;

// mpf arithmetic with a built-in integer operand: the manual does not say whether e.g. f*3 is mpf_mul_ui or
// mpf_mul on a converted temporary, and the two C routes truncate differently (measured: add_ui, ui_sub,
// mul_ui differ from the general function in 4-12% of random cases).  The reference is the converted
// temporary [M5]; this helper computes the other route so that value tuples on which the two C routes
// disagree are skipped as ambiguous instead of being judged.
inline void f_alt(mpf_t o, char op, bool bleft, mpf_srcptr x, bool neg, ul m) {
  switch (op) {
    case '+': if (!neg) mpf_add_ui(o, x, m); else mpf_sub_ui(o, x, m); break;
    case '-': if (!bleft) { if (!neg) mpf_sub_ui(o, x, m); else mpf_add_ui(o, x, m); }
              else if (!neg) mpf_ui_sub(o, m, x); else { mpf_add_ui(o, x, m); mpf_neg(o, o); } break;
    case '*': mpf_mul_ui(o, x, m); if (neg) mpf_neg(o, o); break;
    default:  if (!bleft) mpf_div_ui(o, x, m); else mpf_ui_div(o, m, x); if (neg) mpf_neg(o, o); break;
  }
}
inline bool f_ambig(mpf_srcptr refv, ul prec, char op, bool bleft, mpf_srcptr x, long v) {
  F o(prec); f_alt(o.v, op, bleft, x, v < 0, v < 0 ? -(ul)v : (ul)v); return mpf_cmp(o.v, refv) != 0;
}
inline bool f_ambig(mpf_srcptr refv, ul prec, char op, bool bleft, mpf_srcptr x, ul v) {
  F o(prec); f_alt(o.v, op, bleft, x, false, v); return mpf_cmp(o.v, refv) != 0;
}
inline bool f_ambig(mpf_srcptr refv, ul prec, char op, bool bleft, mpf_srcptr x, int v) { return f_ambig(refv, prec, op, bleft, x, (long)v); }
inline bool f_ambig(mpf_srcptr refv, ul prec, char op, bool bleft, mpf_srcptr x, unsigned v) { return f_ambig(refv, prec, op, bleft, x, (ul)v); }

// ---------------------------------------------------------------- stream helpers
struct Fmt { int base; bool showbase, upper, showpos; int adj; int width; char fill; };  // base 0 dec 1 hex 2 oct; adj 0 none 1 left 2 right 3 internal
inline void apply(std::ios& s, const Fmt& f) {
  s.setf(f.base == 1 ? std::ios::hex : f.base == 2 ? std::ios::oct : std::ios::dec, std::ios::basefield);
  if (f.showbase) s.setf(std::ios::showbase);
  if (f.upper) s.setf(std::ios::uppercase);
  if (f.showpos) s.setf(std::ios::showpos);
  if (f.adj) s.setf(f.adj == 1 ? std::ios::left : f.adj == 2 ? std::ios::right : std::ios::internal, std::ios::adjustfield);
  s.width(f.width); s.fill(f.fill);
}
inline std::string cdigits(mpz_srcptr z, const Fmt& f) {  // |z| digits from the C-level mpz_get_str
  Z t; mpz_abs(t.v, z);
  char* s = mpz_get_str(NULL, f.base == 1 ? (f.upper ? -16 : 16) : f.base == 2 ? 8 : 10, t.v); std::string o(s);
  void (*fr)(void*, size_t); mp_get_memory_functions(NULL, NULL, &fr); fr(s, strlen(s) + 1);
  return o;
}
inline std::string pad(const std::string& sign, const std::string& prefix, const std::string& dig, const Fmt& f) {
  std::string body = sign + prefix + dig;
  if ((int)body.size() >= f.width) return body;
  std::string p(f.width - body.size(), f.fill);
  if (f.adj == 1) return body + p;
  if (f.adj == 3) {   // standard iostream rule: after the sign, else after 0x/0X, else on the left
    if (!sign.empty()) return sign + p + prefix + dig;
    if (prefix.size() == 2) return prefix + p + dig;
  }
  return p + body;
}
inline std::string expect_int(mpz_srcptr z, const Fmt& f) {
  std::string sign = mpz_sgn(z) < 0 ? "-" : (f.showpos && f.base == 0 ? "+" : "");
  std::string prefix = !f.showbase ? "" : f.base == 1 ? (f.upper ? "0X" : "0x") : (f.base == 2 && mpz_sgn(z) != 0) ? "0" : "";
  return pad(sign, prefix, cdigits(z, f), f);
}
// combinations whose expected text the manual / the C++ standard do not pin down are not checked
inline bool int_fmt_defined(mpz_srcptr z, const Fmt& f) {
  if (f.showpos && f.base != 0) return false;                       // std: no '+' on hex/oct; MPIR prints signed
  if (f.showbase && f.base == 1 && mpz_sgn(z) == 0) return false;   // "0" (std) vs "0x0": unspecified
  if (mpz_sgn(z) < 0 && f.base != 0 && f.adj == 3) return false;    // internal padding of "-0x.." unspecified
  if (f.showbase && f.base == 2 && f.adj == 3) return false;        // std pads left of the octal "0", MPIR after it: unspecified
  return true;
}
inline int os_z(const Ctx& C, int which, Fmt f, bool as_expr) {
  mpz_srcptr z = which == 0 ? C.a.v : which == 1 ? C.b.v : C.c.v;
  if (!int_fmt_defined(z, f)) return SKIP_DOM;
  std::string want = expect_int(z, f);
  if (mpz_fits_slong_p(z) && (f.base == 0 || mpz_sgn(z) >= 0)) {   // oracle self-check against the standard library
    std::ostringstream o; apply(o, f); o << mpz_get_si(z);
    if (o.str() != want) harness("expect_int disagrees with std::ostream << long");
  }
  mpz_class x(z), zero; std::ostringstream o; apply(o, f);
  RT_GO if (as_expr) o << (x + zero); else o << x; RT_END
  int bad = chks(o.str(), want, "text") | chki(o.width(), 0, "width-reset");
  o << x;   // width was reset: second output is unpadded
  Fmt g = f; g.width = 0;
  return bad | chks(o.str(), want + expect_int(z, g), "second-output");
}
inline int os_q(const Ctx& C, int which, Fmt f) {
  mpq_srcptr v = which == 0 ? C.q.v : which == 1 ? C.r.v : C.s.v;
  if (f.showpos || f.adj == 3) return SKIP_DOM;
  if (f.showbase && f.base == 1 && mpq_sgn(v) == 0) return SKIP_DOM;
  Fmt g = f; g.width = 0;
  Z n; mpz_abs(n.v, mpq_numref(v));
  std::string body = (mpq_sgn(v) < 0 ? "-" : "") + expect_int(n.v, g);
  if (mpz_cmp_ui(mpq_denref(v), 1) != 0) body += "/" + expect_int(mpq_denref(v), g);
  std::string want = pad("", "", body, f);
  mpq_class x(v); std::ostringstream o; apply(o, f);
  RT_GO o << x; RT_END
  return chks(o.str(), want, "text") | chki(o.width(), 0, "width-reset");
}
// mpf output is compared with the standard library's output of the same value as a double; only values
// whose decimal expansion is short enough that no rounding happens at the chosen precision are used.
inline int os_f(const Ctx& C, int mode /*0 general 1 fixed 2 scientific*/, int prec, int kind, Fmt f) {
  double d;
  long m = C.l1 % 100000; int j = (int)(C.u1 % 4);
  if (kind == 0) { m %= 1000; d = (double)m / (1 << j); }            // <= 6 significant digits
  else if (kind == 1) d = (double)m / (1 << j);                      // <= 8 significant digits, <= 3 decimals
  else { static const double p10[] = { 1e5, 1e6, 1e7, 1e8, 1e9 }; d = (double)(m % 100) * p10[C.u2 % 5]; }
  if (f.base != 0 || f.adj == 3 || f.showbase) return SKIP_DOM;
  std::ostringstream w; apply(w, f);
  if (mode == 1) w.setf(std::ios::fixed, std::ios::floatfield); else if (mode == 2) w.setf(std::ios::scientific, std::ios::floatfield);
  w.precision(prec); w << d;
  mpf_class x(d, 128); std::ostringstream o; apply(o, f);
  if (mode == 1) o.setf(std::ios::fixed, std::ios::floatfield); else if (mode == 2) o.setf(std::ios::scientific, std::ios::floatfield);
  o.precision(prec);
  RT_GO o << x; RT_END
  return chks(o.str(), w.str(), "text") | chki(o.width(), 0, "width-reset");
}
inline void set_in_base(std::istream& is, int base) {
  if (base == 3) is.unsetf(std::ios::basefield);
  else is.setf(base == 1 ? std::ios::hex : base == 2 ? std::ios::oct : std::ios::dec, std::ios::basefield);
}
inline std::string in_text(mpz_srcptr z, int base, bool upper, int sub) {  // base 3: prefixed text, basefield unset
  Fmt f = { base == 3 ? (sub % 3) : base, false, upper, false, 0, 0, ' ' };
  std::string pre = base == 3 ? (f.base == 1 ? (upper ? "0X" : "0x") : (f.base == 2 && mpz_sgn(z) != 0) ? "0" : "") : "";
  return (mpz_sgn(z) < 0 ? "-" : "") + pre + cdigits(z, f);
}
static const char* const WS[] = { "", " ", "  \t", "\n " };
inline int is_z(const Ctx& C, int which, int base, bool upper, int sub) {
  mpz_srcptr z = which == 0 ? C.a.v : which == 1 ? C.b.v : C.c.v;
  // in some cases the number is the last thing in the stream, and the stream throws on failbit / badbit (a valid number must neither fail nor throw)
  bool at_end = sub % 5 == 0, exc = sub % 7 < 3;
  std::string txt = std::string(WS[sub % 4]) + in_text(z, base, upper, sub) + (at_end ? "" : " tail");
  std::istringstream is(txt); set_in_base(is, base); if (exc) is.exceptions(std::ios::failbit | std::ios::badbit);
  // the target's previous value varies: small, a multi-limb negative value, or another generated variable
  mpz_class x(12345); if ((sub >> 3) % 3 == 1) { x = 1; x <<= 200; x = -x - 77; } else if ((sub >> 3) % 3 == 2) x = mpz_class(which == 0 ? C.b.v : C.a.v);
  std::string tail;
  RT_GO try { is >> x; } catch (const std::ios_base::failure&) { RT_END return chki(1, 0, "ios_base::failure thrown while extracting a valid number"); } RT_END
  int bad = chki(is.fail(), 0, "fail") | chk(x, z, "value"); is.exceptions(std::ios::goodbit);
  if (at_end) return bad;
  is >> tail;
  return bad | chks(tail, "tail", "rest-of-stream");
}
inline int is_q(const Ctx& C, int which, int base, bool upper, int sub) {
  mpq_srcptr v = which == 0 ? C.q.v : which == 1 ? C.r.v : C.s.v;
  std::string txt = std::string(WS[sub % 4]) + in_text(mpq_numref(v), base, upper, sub);
  bool with_den = mpz_cmp_ui(mpq_denref(v), 1) != 0 || (sub & 4);
  if (with_den) txt += "/" + in_text(mpq_denref(v), base, upper, sub / 3);   // base indicator read separately for num and den
  bool at_end = sub % 5 == 0, exc = sub % 7 < 3;
  std::istringstream is(txt + (at_end ? "" : " tail")); set_in_base(is, base); if (exc) is.exceptions(std::ios::failbit | std::ios::badbit);
  // the target's previous value varies: small, a negative value over a multi-limb denominator, or another generated variable
  mpq_class x(7, 3); if ((sub >> 3) % 3 == 1) { mpz_class d(1); d <<= 130; d += 5; x = mpq_class(mpz_class(-9), d); } else if ((sub >> 3) % 3 == 2) x = mpq_class(which == 0 ? C.r.v : C.q.v);
  std::string tail;
  RT_GO try { is >> x; } catch (const std::ios_base::failure&) { RT_END return chki(1, 0, "ios_base::failure thrown while extracting a valid number"); } RT_END
  int bad = chki(is.fail(), 0, "fail") | chk(x, v, "value"); is.exceptions(std::ios::goodbit);
  if (at_end) return bad;
  is >> tail;
  return bad | chks(tail, "tail", "rest-of-stream");
}
inline int is_f(const Ctx& C, int sidx, ul prec) {
  static const char* const S[] = { "1.5", "-0.25", "12345", "1e3", "-2.5e2", "0.125", "7.75e1", "0", "-3", "1024.0625", "6.5e4", "0.5e1" };
  const char* s = S[sidx % 12];
  F w(prec); if (mpf_set_str(w.v, s, 10) != 0) harness("is_f string");
  bool at_end = (C.u1 >> 2) % 3 == 0, exc = (C.u1 >> 4) % 2 == 0;
  std::istringstream is(std::string(WS[C.u1 % 4]) + s + (at_end ? "" : " tail")); if (exc) is.exceptions(std::ios::failbit | std::ios::badbit);
  mpf_class x(99, prec); if (sidx / 12 % 2) { x = -1; x <<= 300; x -= 1; }   // previous value: small, or a long negative mantissa with a large exponent
  std::string tail;
  RT_GO try { is >> x; } catch (const std::ios_base::failure&) { RT_END return chki(1, 0, "ios_base::failure thrown while extracting a valid number"); } RT_END
  int bad = chki(is.fail(), 0, "fail") | chk(x, w.v, "value"); is.exceptions(std::ios::goodbit);
  if (at_end) return bad;
  is >> tail;
  return bad | chks(tail, "tail", "rest-of-stream");
}
inline std::string cstr(char* s) {
  std::string o(s); void (*fr)(void*, size_t); mp_get_memory_functions(NULL, NULL, &fr); fr(s, strlen(s) + 1); return o;
}

// ---------------------------------------------------------------- driver
inline void on_signal(int sig) {
  char b[160];
  int n = snprintf(b, sizeof b, "\n%s func=%d tuple=%d signal=%d\n", in_test ? "CRASH" : "HARNESS-CRASH", cur ? cur->id : -1, cur_k, sig);
  if (write(1, b, n) < 0) {}
  if (in_test && cur_ctx) { std::string t = "TUPLE func=" + std::to_string(cur->id) + " tuple=" + std::to_string(cur_k) + " " + tuple_str(*cur_ctx) + "\n";
    if (write(1, t.c_str(), t.size()) < 0) {} }
  _exit(in_test ? 1 : 3);
}
inline int run(const Test* T, int n, int argc, char** argv, const char* tuple) {
  uint64_t seed = argc > 1 ? strtoull(argv[1], 0, 10) : 1; int K = argc > 2 ? atoi(argv[2]) : 10;
  signal(SIGABRT, on_signal); signal(SIGSEGV, on_signal); signal(SIGFPE, on_signal); signal(SIGBUS, on_signal);
  const bool trace = getenv("CXXGEN_TRACE") != 0;
  long evals = 0, div0 = 0, dom = 0, amb = 0, fnd = 0, bad = 0, badf = 0;
  for (int i = 0; i < n; i++) {
    Ctx C(T[i].pf, T[i].pg, T[i].ph); cur = &T[i]; cur_ctx = &C; long fb = 0; n_reported_fn = 0;
    for (int k = 0; k < (tuple ? 1 : K); k++) {
      cur_k = k;
      if (tuple) load_tuple(C, tuple); else gen(C, seed, T[i].id, k);
      int rc;
      try { rc = T[i].fn(C); }
      catch (std::exception& e) { in_test = 0; report("exception", e.what(), "none"); rc = BAD; }
      if (trace && rc != OK) printf("TRACE func=%d tuple=%d rc=%d\n", T[i].id, k, rc);
      if (rc == SKIP_DIV0) div0++; else if (rc == SKIP_DOM) dom++; else if (rc == SKIP_AMBIG) amb++; else if (rc == SKIP_FINDING) fnd++; else { evals++; if (rc != OK) { bad++; fb++; } }
    }
    if (fb) { badf++; printf("BADFUNC func=%d mismatches=%ld\n", T[i].id, fb); }
  }
  printf("SUMMARY funcs=%d evals=%ld skip_div0=%ld skip_dom=%ld skip_ambig=%ld skip_finding=%ld mismatches=%ld badfuncs=%ld\n", n, evals, div0, dom, amb, fnd, bad, badf);
  return bad ? 1 : 0;
}
}  // namespace rt
#endif
