#!/bin/bash
# Offline setup: self-test the oracle (refint vs CPython ints), warm the build cache.
set -e
cd "$(dirname "$0")"
mkdir -p .cache evidence
g++ -O2 -std=gnu++17 -o .cache/refint_cli selftest/refint_cli.cc
python3 selftest/refint_vs_python.py .cache/refint_cli 20000
./build/mkvariant.sh san >/dev/null
echo "setup ok"
