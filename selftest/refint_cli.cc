// Reads "op args..." lines (hex integers), prints results; driven by refint_vs_python.py
#include "../harness/refint.hpp"
#include <iostream>
#include <sstream>
using namespace ref;
static Int parse(const std::string& s) {
  bool neg = false; size_t i = 0; if (s[0] == '-') { neg = true; i = 1; }
  std::vector<unsigned> d; for (; i < s.size(); i++) { char c = s[i]; d.push_back(c <= '9' ? c - '0' : c - 'a' + 10); }
  Int r = from_digits(d, 16); if (neg) r = -r; return r;
}
int main() {
  std::ios::sync_with_stdio(false);
  std::string line;
  while (std::getline(std::cin, line)) {
    std::istringstream is(line); std::string op; is >> op; std::vector<std::string> a; std::string t; while (is >> t) a.push_back(t);
    auto A = [&](int i) { return parse(a[i]); };
    auto U = [&](int i) { return (uint64_t)std::stoull(a[i]); };
    if (op == "add") std::cout << hex(A(0) + A(1)) << "\n";
    else if (op == "sub") std::cout << hex(A(0) - A(1)) << "\n";
    else if (op == "mul") std::cout << hex(A(0) * A(1)) << "\n";
    else if (op == "tdiv") { Int q, r; tdivrem(A(0), A(1), q, r); std::cout << hex(q) << " " << hex(r) << "\n"; }
    else if (op == "fdiv") { Int q, r; fdivrem(A(0), A(1), q, r); std::cout << hex(q) << " " << hex(r) << "\n"; }
    else if (op == "cdiv") { Int q, r; cdivrem(A(0), A(1), q, r); std::cout << hex(q) << " " << hex(r) << "\n"; }
    else if (op == "shl") std::cout << hex(shl(A(0), U(1))) << "\n";
    else if (op == "fshr") std::cout << hex(fshr(A(0), U(1))) << "\n";
    else if (op == "tshr") std::cout << hex(tshr(A(0), U(1))) << "\n";
    else if (op == "and") std::cout << hex(bitop(A(0), A(1), [](uint64_t x, uint64_t y) { return x & y; })) << "\n";
    else if (op == "ior") std::cout << hex(bitop(A(0), A(1), [](uint64_t x, uint64_t y) { return x | y; })) << "\n";
    else if (op == "xor") std::cout << hex(bitop(A(0), A(1), [](uint64_t x, uint64_t y) { return x ^ y; })) << "\n";
    else if (op == "tcbit") std::cout << (tc_bit(A(0), U(1)) ? 1 : 0) << "\n";
    else if (op == "gcd") std::cout << hex(gcd(A(0), A(1))) << "\n";
    else if (op == "gcdext") { Int s, t; Int g = gcdext(A(0), A(1), s, t); std::cout << hex(g) << " " << hex(A(0) * s + A(1) * t) << "\n"; }
    else if (op == "pow") std::cout << hex(pow(A(0), U(1))) << "\n";
    else if (op == "powmod") std::cout << hex(powmod(A(0), A(1), A(2))) << "\n";
    else if (op == "isqrt") std::cout << hex(isqrt(A(0))) << "\n";
    else if (op == "iroot") std::cout << hex(iroot(A(0), U(1))) << "\n";
    else if (op == "kron") std::cout << kronecker(A(0), A(1)) << "\n";
    else if (op == "str") std::cout << to_string(A(0), (int)U(1)) << "\n";
    else if (op == "prime") std::cout << (is_prime_small(A(0)) ? 1 : 0) << " " << (A(0).fits_u64() ? (is_prime_u64(A(0).low()) ? 1 : 0) : -1) << "\n";
    else if (op == "cmp") std::cout << cmp(A(0), A(1)) << "\n";
    else std::cout << "?\n";
  }
}
