#!/bin/bash
# run_list.sh <Cxx> <tier> <patch>...   : runs each mutant, prints a summary line per mutant
ID="$1"; TIER="$2"; shift 2
HERE="$(cd "$(dirname "$0")" && pwd)"
for p in "$@"; do "$HERE/run_mutant.sh" "$p" "$ID" "$TIER" 2>&1 | tail -1; done
