#!/bin/bash
# selftest/revert_sweep.sh [commit ...]: for every repaired finding, revert the fix in a scratch copy of /repo and run the
# quick check of the property that reproduces it (SEEDS, default "1 2"); prints one CAUGHT/MISSED line per revert.
# 8d74fef (mpz_remove count) is not in the list: its operand cannot be smaller than 850 MB (regress/C16/mpz_remove-2pow32/).
HERE="$(cd "$(dirname "$0")" && pwd)"; cd "$HERE/.."
MAP="da3c3df:C02 aa6e4d4:C02 c3f8148:C12 3c843f4:C14 835dc69:C13 dad2220:C13 8755b5b:C18 d041a90:C18 3855ee0:C19 b5f586c:C19 80bde8e:C04
9459be6:C09 949a778:C01 d9bcd34:C08 b2fd6a5:C04 5352129:C16 75f4273:C17 49aadc2:C17 f9c0de8:C09 1afbcc8:C18 066afa8:C18 488aedd:C13
2a43627:C13 0012737:C11 e07406b:C16 98929b8:C18 fc44de9:C11 b37cdc2:C06 86fe398:C11 db1ad4f:C04 7c407c7:C18 c7208ba:C05 c7208ba:C15 e8db101:C20 4dc0e93:C20 0c33d56:C14 ad9c6d5:C14 97d0d4c:C04 775dd2e:C04 3a0a835:C04 ecc655e:C11 3143fec:C17 75a81f6:C04 1bfdd2a:C18 7069a7c:C18 507faa2:C18 17c3035:C16 4104599:C13 ea5370c:C14 4bf1e19:C20"
for e in $MAP; do c=${e%%:*}; p=${e##*:}
  if [ $# -gt 0 ]; then case " $* " in *" $c "*) ;; *) continue;; esac; fi
  echo "### revert $c $p"; SEEDS="${SEEDS:-1 2}" selftest/run_mutant.sh selftest/mutants/revert-fix-$c.patch $p 2>&1 | grep -E "SEEDS:|MUTANT|patch failed"
done
