#!/usr/bin/env python3
"""Cross-check refint (the oracle) against CPython ints. Exit 0 iff all agree."""
import random, subprocess, sys, math, os
here = os.path.dirname(os.path.abspath(__file__))
exe = sys.argv[1]; N = int(sys.argv[2]) if len(sys.argv) > 2 else 20000
rnd = random.Random(12345)
def rint(maxbits=None):
    style = rnd.randrange(8)
    mb = maxbits or rnd.choice([8, 64, 65, 128, 200, 700, 3000, 9000])
    b = rnd.randrange(1, mb + 1)
    if style == 0: v = rnd.getrandbits(b)
    elif style == 1: v = (1 << b) - 1
    elif style == 2: v = 1 << (b - 1)
    elif style == 3: v = (1 << b) - rnd.getrandbits(min(b, 20))
    elif style == 4: v = rnd.getrandbits(b) << (64 * rnd.randrange(4))
    elif style == 5:
        v = 0
        for _ in range(b // 64 + 1): v = (v << 64) | rnd.choice([0, 2**64 - 1, 1, 2**63, rnd.getrandbits(64)])
    else: v = rnd.getrandbits(b)
    if rnd.randrange(3) == 0: v = -v
    return v
def h(v): return ('-' if v < 0 else '') + format(abs(v), 'x')
def tdiv(a, b):
    q = abs(a) // abs(b); q = -q if (a < 0) != (b < 0) else q; return q, a - q * b
def kron(a, b):
    # textbook Kronecker via sympy-free implementation
    if b == 0: return 1 if abs(a) == 1 else 0
    if a % 2 == 0 and b % 2 == 0: return 0
    res = 1
    v = (b & -b).bit_length() - 1
    if v:
        b >>= v
        if v & 1 and (a % 8) in (3, 5): res = -res
    if b < 0:
        b = -b
        if a < 0: res = -res
    a %= b
    while a:
        t = (a & -a).bit_length() - 1
        if t:
            a >>= t
            if t & 1 and b % 8 in (3, 5): res = -res
        if a % 4 == 3 and b % 4 == 3: res = -res
        a, b = b % a, a
    return res if b == 1 else 0
def isprime(n):
    if n < 2: return False
    for p in (2,3,5,7,11,13,17,19,23,29,31,37,41,43,47):
        if n == p: return True
        if n % p == 0: return False
    d = n - 1; s = 0
    while d % 2 == 0: d //= 2; s += 1
    for a in (2,3,5,7,11,13,17,19,23,29,31,37,41,43,47,53,59,61,67,71):
        x = pow(a, d, n)
        if x in (1, n - 1): continue
        for _ in range(s - 1):
            x = x * x % n
            if x == n - 1: break
        else: return False
    return True
ops = ['add','sub','mul','tdiv','fdiv','cdiv','shl','fshr','tshr','and','ior','xor','tcbit','gcd','gcdext','pow','powmod','isqrt','iroot','kron','str','prime','cmp','bigmul','bigdiv','bigstr']
lines = []; exp = []
for i in range(N):
    op = rnd.choice(ops)
    if op in ('add','sub','mul','and','ior','xor','gcd','cmp','gcdext'):
        a, b = rint(), rint()
        if op in ('gcd','gcdext'): a, b = rint(2000), rint(2000)
        if rnd.randrange(10) == 0: b = a
        if rnd.randrange(20) == 0: b = -a
        lines.append(f"{op} {h(a)} {h(b)}")
        if op == 'add': e = h(a + b)
        elif op == 'sub': e = h(a - b)
        elif op == 'mul': e = h(a * b)
        elif op == 'and': e = h(a & b)
        elif op == 'ior': e = h(a | b)
        elif op == 'xor': e = h(a ^ b)
        elif op == 'gcd': e = h(math.gcd(a, b))
        elif op == 'gcdext': g = math.gcd(a, b); e = h(g) + ' ' + h(g)
        else: e = str((a > b) - (a < b))
    elif op == 'bigmul':
        a, b = rnd.getrandbits(rnd.randrange(1, 40000)), rnd.getrandbits(rnd.randrange(1, 40000))
        lines.append(f"mul {h(a)} {h(b)}"); e = h(a * b)
    elif op == 'bigdiv':
        b = rnd.getrandbits(rnd.randrange(1, 20000)) + 1; q = rnd.getrandbits(rnd.randrange(1, 20000)); r = rnd.randrange(b)
        if rnd.randrange(3) == 0: q = (1 << q.bit_length()) - 1
        if rnd.randrange(3) == 0: r = b - 1
        a = q * b + r
        lines.append(f"tdiv {h(a)} {h(b)}"); e = h(q) + ' ' + h(r)
    elif op == 'bigstr':
        a = rnd.getrandbits(rnd.randrange(12800, 40000)); base = rnd.randrange(2, 63)
        lines.append(f"str {h(a)} {base}")
        digs = "0123456789ABCDEFGHIJKLMNOPQRSTUVWXYZabcdefghijklmnopqrstuvwxyz" if base > 36 else "0123456789abcdefghijklmnopqrstuvwxyz"
        s = ''; v = a
        while v: v, d = divmod(v, base); s = digs[d] + s
        e = s or '0'
    elif op in ('tdiv','fdiv','cdiv'):
        a, b = rint(), rint()
        if b == 0: b = 1
        if rnd.randrange(4) == 0:  # constructed: prefix equal, q limbs all ones
            q = (1 << rnd.randrange(1, 300)) - 1; a = q * b + (abs(b) - 1) * (1 if rnd.randrange(2) else 0)
        lines.append(f"{op} {h(a)} {h(b)}")
        if op == 'tdiv': q, r = tdiv(a, b)
        elif op == 'fdiv': q, r = divmod(a, b)
        else: q = -((-a) // b); r = a - q * b
        e = h(q) + ' ' + h(r)
    elif op in ('shl','fshr','tshr','tcbit'):
        a = rint(); k = rnd.choice([0, 1, 63, 64, 65, 128, rnd.randrange(0, 1000)])
        lines.append(f"{op} {h(a)} {k}")
        if op == 'shl': e = h(a << k)
        elif op == 'fshr': e = h(a >> k)
        elif op == 'tshr': e = h(-((-a) >> k) if a < 0 else a >> k)
        else: e = str((a >> k) & 1)
    elif op == 'pow':
        a = rint(200); k = rnd.randrange(0, 40)
        lines.append(f"pow {h(a)} {k}"); e = h(a ** k)
    elif op == 'powmod':
        a, ee, m = rint(600), abs(rint(300)), rint(600)
        if m == 0: m = 7
        lines.append(f"powmod {h(a)} {h(ee)} {h(m)}"); e = h(pow(a, ee, abs(m)))
    elif op == 'isqrt':
        a = abs(rint())
        if rnd.randrange(2): k = abs(rint(1500)); a = k * k + rnd.choice([-1, 0, 1]); a = max(a, 0)
        lines.append(f"isqrt {h(a)}"); e = h(math.isqrt(a))
    elif op == 'iroot':
        n = rnd.randrange(1, 12); k = abs(rint(300)); a = max(k ** n + rnd.choice([-1, 0, 1, rnd.randrange(100)]), 0)
        if rnd.randrange(5) == 0: n = rnd.randrange(1, 2000)
        lines.append(f"iroot {h(a)} {n}")
        # exact integer root by bisection
        lo, hi = 0, 1 << (a.bit_length() // n + 1)
        while lo < hi:
            mid = (lo + hi + 1) // 2
            if mid ** n <= a: lo = mid
            else: hi = mid - 1
        e = h(lo)
    elif op == 'kron':
        a, b = rint(300), rint(300)
        lines.append(f"kron {h(a)} {h(b)}"); e = str(kron(a, b))
    elif op == 'str':
        a = rint(); base = rnd.randrange(2, 63)
        lines.append(f"str {h(a)} {base}")
        digs = "0123456789ABCDEFGHIJKLMNOPQRSTUVWXYZabcdefghijklmnopqrstuvwxyz" if base > 36 else "0123456789abcdefghijklmnopqrstuvwxyz"
        s = ''; v = abs(a)
        while v: v, d = divmod(v, base); s = digs[d] + s
        e = ('-' if a < 0 else '') + (s or '0')
    elif op == 'prime':
        a = rnd.choice([rnd.getrandbits(rnd.randrange(2, 80)), rnd.randrange(0, 5000), 3215031751, 3825123056546413051, 2**61 - 1, 2**64 - 59, (2**31 - 1) ** 2])
        if rnd.randrange(2): a |= 1
        lines.append(f"prime {h(a)}"); p = 1 if isprime(a) else 0
        e = f"{p} {p if a < 2**64 else -1}"
    lines.append if False else None
    exp.append(e)
out = subprocess.run([exe], input="\n".join(lines) + "\n", capture_output=True, text=True)
got = out.stdout.split("\n")
bad = 0
for i, e in enumerate(exp):
    if i >= len(got) or got[i].strip() != e:
        bad += 1
        if bad < 10: open("/var/tmp/mm%d.txt"%bad,"w").write(lines[i]+"\n"+e+"\n"+(got[i] if i < len(got) else "")+"\n"); print("MISMATCH", lines[i][:200], "\n  expected", e[:200], "\n  got     ", (got[i] if i < len(got) else "<none>")[:200])
print(f"refint_vs_python: {len(exp)} operations, {bad} mismatches")
sys.exit(1 if bad or out.returncode else 0)
