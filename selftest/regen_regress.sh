#!/bin/bash
# regen_regress.sh <fix-commit> <Cxx> <name>: re-derive the regression input of a repaired defect after a decoder change:
# scratch copy of /repo with that one fix reverted, run the check there, keep the shrunk replay as regress/<Cxx>/<name>.bin
C="$1"; ID="$2"; NAME="$3"
HERE="$(cd "$(dirname "$0")" && pwd)"; ROOT="$(dirname "$HERE")"
M="/var/tmp/mpir-regen.$$"; rm -rf "$M"; mkdir -p "$M"; trap 'rm -rf "$M" /var/tmp/regen-ev.$$' EXIT
rsync -a --exclude .git --exclude '*.o' --exclude '*.lo' --exclude '*.la' --exclude .libs --exclude '*.a' --exclude '*.so*' /repo/ "$M"/ || exit 2
git -C /repo show "$C" | ( cd "$M" && patch -R -p1 --no-backup-if-mismatch -s ) || { echo "cannot revert $C"; exit 2; }
OUT="$(cd "$ROOT" && VERIF_REPO="$M" VERIF_EVIDENCE_DIR=/var/tmp/regen-ev.$$ VERIF_REPLAY_DIR=/var/tmp/regen-ev.$$/replays ./check "$ID" --tier quick 2>&1)"
echo "$OUT" | grep -E 'VIOLATION|failure|OK property' | head -3
R=$(echo "$OUT" | sed -n 's/^VIOLATION property=[A-Z0-9]* replay=//p' | head -1)
TH="$("$ROOT/build/treehash.sh" "$M")"; CLEAN="$("$ROOT/build/treehash.sh" /repo)"; if [ -n "$TH" ] && [ "$TH" != "$CLEAN" ]; then rm -rf "$ROOT/.cache/$TH"-*; fi
case "$R" in /*) mkdir -p "$ROOT/regress/$ID"; cp "$R" "$ROOT/regress/$ID/$NAME.bin"; echo "saved regress/$ID/$NAME.bin";; *) echo "no file replay obtained ($R)"; exit 1;; esac
