#!/bin/bash
# run_mutant.sh <patch-file> <Cxx> [tier]  -> exit 0 iff the check reports a VIOLATION on the mutated copy
P="$(readlink -f "$1")"; ID="$2"; TIER="${3:-quick}"
HERE="$(cd "$(dirname "$0")" && pwd)"; ROOT="$(dirname "$HERE")"
M="/var/tmp/mpir-mutant.$$"
rm -rf "$M"; mkdir -p "$M"
trap 'rm -rf "$M"' EXIT
rsync -a --exclude .git --exclude '*.o' --exclude '*.lo' --exclude '*.la' --exclude .libs --exclude '*.a' --exclude '*.so*' /repo/ "$M"/ || exit 2
( cd "$M" && patch -p1 --no-backup-if-mismatch -s < "$P" ) || { echo "patch failed: $P"; exit 2; }
# SEEDS="1 2 3" runs the check once per seed on the same build (caught only if every seed catches it; the count is printed)
NS=0; NC=0; RC=1; OUT=""
for SEED in ${SEEDS:-${VERIF_SEED:-1}}; do
  O="$(cd "$ROOT" && VERIF_REPO="$M" VERIF_EVIDENCE_DIR=/var/tmp/mutant-evidence.$$ VERIF_REPLAY_DIR=/var/tmp/mutant-evidence.$$/replays ./check "$ID" --tier "$TIER" --seed "$SEED" 2>&1)"; R=$?
  NS=$((NS+1)); if [ $R -eq 1 ] && echo "$O" | grep -q '^VIOLATION'; then NC=$((NC+1)); else RC=$R; OUT="$O"; fi
  [ -z "$OUT" ] && OUT="$O"
  rm -rf /var/tmp/mutant-evidence.$$
  echo "$O" | grep -E 'VIOLATION|HARNESS|OK property|failure' | head -3
done
[ $NS -gt 1 ] && echo "SEEDS: caught with $NC of $NS seeds"
[ $NC -eq $NS ] && RC=1
# drop the mutant's cache entry
TH="$("$ROOT/build/treehash.sh" "$M")"; CLEAN="$("$ROOT/build/treehash.sh" /repo)"; if [ -n "$TH" ] && [ "$TH" != "$CLEAN" ]; then rm -rf "$ROOT/.cache/$TH"-*; fi
if [ $RC -eq 1 ] && echo "$OUT" | grep -q '^VIOLATION'; then echo "MUTANT CAUGHT: $(basename "$P") by $ID ($TIER)"; exit 0; fi
echo "MUTANT MISSED: $(basename "$P") by $ID ($TIER) rc=$RC"; exit 1
