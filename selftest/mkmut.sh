#!/bin/bash
# mkmut.sh <name> <repo-relative-file> <python-expr replacing s>   e.g.  mkmut.sh C03-x mpn/generic/lshift.c 's.replace("a","b")'
N="$1"; F="$2"; E="$3"
W=/var/tmp/mkmut.$$; rm -rf $W; mkdir -p $W/a/$(dirname $F) $W/b/$(dirname $F)
cp /repo/$F $W/a/$F
python3 - "$W/a/$F" "$W/b/$F" "$E" <<'PY'
import sys
s=open(sys.argv[1]).read(); t=eval(sys.argv[3]); 
if t==s: print("NO CHANGE"); sys.exit(1)
open(sys.argv[2],'w').write(t)
PY
[ $? -eq 0 ] || { rm -rf $W; exit 1; }
( cd $W && diff -u a/$F b/$F > /verif/selftest/mutants/$N.patch ); rm -rf $W
echo "wrote selftest/mutants/$N.patch"; 
