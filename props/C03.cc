// C03: add, subtract, negate, shift, copy compute the exact limb-vector function
#include "../harness/gen.hpp"
using namespace eng; using namespace gen; using ref::Int;

static size_t gen_n(ByteSource& in) {
  size_t cap = expcap(in.scale, 8, 20000);
  unsigned w = in.pick({6, 3, 2});
  if (w == 0) return (size_t)in.range(1, std::min<size_t>(cap, 40));
  if (w == 1) return (size_t)in.range(1, std::min<size_t>(cap, 300));
  return (size_t)in.logrange(1, cap);
}
// carry-chain friendly operand pairs: a + b has a long carry chain
static void chain_pair(ByteSource& in, Limbs& a, Limbs& b, bool sub) {
  size_t n = a.size(); unsigned k = in.pick({3, 2, 2, 2});
  if (k == 0) return;
  if (!sub) {
    if (k == 1) { for (size_t i = 0; i < n; i++) b[i] = ~a[i]; b[0] += 1; if (b[0] == 0 && n > 1) { /* a[0]=~0: fine */ } }   // a + ~a + 1 : full chain
    else if (k == 2) { std::fill(a.begin(), a.end(), ~0ull); std::fill(b.begin(), b.end(), 0); b[0] = 1; }
    else { size_t z = (size_t)in.range(0, n - 1); for (size_t i = 0; i <= z; i++) b[i] = ~a[i]; b[0]++; }
  } else {
    if (k == 1) { b = a; }                                         // exact cancellation
    else if (k == 2) { std::fill(a.begin(), a.end(), 0); std::fill(b.begin(), b.end(), 0); b[0] = 1; }  // 0 - 1 : full borrow
    else { size_t z = (size_t)in.range(0, n - 1); b = a; b[z]++; }
  }
}

static void check_mpn(ByteSource& in, CaseInfo& ci) {
  unsigned f = in.pick({10, 10, 6, 6, 5, 5, 5, 10, 10, 4, 4, 2, 4, 2});
  static const char* names[] = {"mpn_add_n", "mpn_sub_n", "mpn_add", "mpn_sub", "mpn_add_1", "mpn_sub_1", "mpn_neg", "mpn_lshift", "mpn_rshift", "mpn_copyi", "mpn_copyd", "mpn_zero", "mpn_cmp", "mpn_zero_p"};
  ci.label(names[f]);
  size_t n = gen_n(in);
  ci.d("%s n=%zu ", names[f], n);
  if (n >= 2) ci.nontrivial = true;
  switch (f) {
    case 0: case 1: {   // add_n / sub_n : rp may equal s1p and/or s2p
      Limbs a = limbs(in, n), b = limbs(in, n); chain_pair(in, a, b, f == 1);
      unsigned ov = in.pick({4, 2, 2, 1});   // none, rp==s1p, rp==s2p, all three the same
      if (ov == 3) b = a;
      Int A = Int::from_limbs(a.data(), n), B = Int::from_limbs(b.data(), n);
      Int R = f == 0 ? A + B : A - B; uint64_t cy = 0;
      if (f == 0) { cy = R.bits() > 64 * n; if (cy) R = R - ref::pow2(64 * n); } else if (R.neg) { cy = 1; R = R + ref::pow2(64 * n); }
      Guarded r(n), s1(n), s2(n); memcpy(s1.p(), a.data(), n * 8); memcpy(s2.p(), b.data(), n * 8);
      uint64_t* rp = ov == 0 ? r.p() : ov == 1 ? s1.p() : ov == 2 ? s2.p() : s1.p();
      const uint64_t* s1p = s1.p(); const uint64_t* s2p = ov == 3 ? s1.p() : s2.p();
      uint64_t got = f == 0 ? mpn_add_n(rp, s1p, s2p, n) : mpn_sub_n(rp, s1p, s2p, n);
      DESC(ci, "a=" + show(a) + " b=" + show(b) + " overlap=" + std::to_string(ov));
      if (ov) ci.label("inplace");
      Int G = Int::from_limbs(rp, n);
      if ((f == 0 && cy && n >= 8) || (f == 1 && cy && n >= 8)) ci.label("carry_out_long");
      { // full chain: every limb position carried
        bool full = true; if (f == 0) { for (size_t i = 0; i + 1 < n && full; i++) { ref::u128 s = (ref::u128)a[i] + b[i]; (void)s; } }
        (void)full; }
      REQUIRE(got == cy, "%s(n=%zu): returned carry/borrow %llu, expected %llu", names[f], n, (unsigned long long)got, (unsigned long long)cy);
      REQUIRE(G == R, "%s(n=%zu, overlap=%u): wrong result limbs", names[f], n, ov);
      REQUIRE(r.intact() && s1.intact() && s2.intact(), "%s: wrote outside the destination", names[f]);
      if (ov != 1 && ov != 3) REQUIRE(memcmp(s1.p(), a.data(), n * 8) == 0, "%s: source 1 modified", names[f]);
      if (ov != 2 && ov != 3) REQUIRE(memcmp(s2.p(), b.data(), n * 8) == 0, "%s: source 2 modified", names[f]);
      if (ov == 0) { for (size_t i = 0; i < n; i++) REQUIRE(r.p()[i] == (i < R.m.size() ? R.m[i] : 0), "limb %zu", i); }
      break; }
    case 2: case 3: {   // add / sub : s1n >= s2n >= 1 (manual: "s1n >= s2n"); s2n may be 0 in the code but the manual does not say so
      size_t n2 = (size_t)in.range(1, n); if (in.chance(64)) n2 = n; if (in.chance(64)) n2 = 1;
      Limbs a = limbs(in, n), b = limbs(in, n2);
      unsigned k = in.pick({3, 2, 2});
      if (k == 1) { if (f == 2) { std::fill(a.begin(), a.end(), ~0ull); } else { std::fill(a.begin() + (n2 < n ? n2 : 0), a.end(), 0); if (n2 == n) a = b; } }   // carry ripples through the high part
      if (k == 2 && f == 3) { for (size_t i = 0; i < n2; i++) a[i] = 0; b[0] |= 1; }
      unsigned ov = in.pick({4, 2, 1});   // none, rp==s1p, rp==s2p (only if n2==n)
      if (ov == 2 && n2 != n) ov = 0;
      Int A = Int::from_limbs(a.data(), n), B = Int::from_limbs(b.data(), n2);
      Int R = f == 2 ? A + B : A - B; uint64_t cy = 0;
      if (f == 2) { cy = R.bits() > 64 * n; if (cy) R = R - ref::pow2(64 * n); } else if (R.neg) { cy = 1; R = R + ref::pow2(64 * n); }
      Guarded r(n), s1(n), s2(n2); memcpy(s1.p(), a.data(), n * 8); memcpy(s2.p(), b.data(), n2 * 8);
      uint64_t* rp = ov == 0 ? r.p() : ov == 1 ? s1.p() : s2.p();
      uint64_t got = f == 2 ? mpn_add(rp, s1.p(), n, s2.p(), n2) : mpn_sub(rp, s1.p(), n, s2.p(), n2);
      DESC(ci, "s2n=" + std::to_string(n2) + " a=" + show(a) + " b=" + show(b) + " overlap=" + std::to_string(ov));
      if (n2 < n && k == 1) ci.label("ripple_high_part");
      REQUIRE(got == cy, "%s(%zu,%zu): returned carry/borrow %llu, expected %llu", names[f], n, n2, (unsigned long long)got, (unsigned long long)cy);
      REQUIRE(Int::from_limbs(rp, n) == R, "%s(%zu,%zu, overlap=%u): wrong result limbs", names[f], n, n2, ov);
      REQUIRE(r.intact() && s1.intact() && s2.intact(), "%s: wrote outside the destination", names[f]);
      if (ov != 1) REQUIRE(memcmp(s1.p(), a.data(), n * 8) == 0, "%s: source 1 modified", names[f]);
      if (ov != 2) REQUIRE(memcmp(s2.p(), b.data(), n2 * 8) == 0, "%s: source 2 modified", names[f]);
      break; }
    case 4: case 5: {   // add_1 / sub_1
      Limbs a = limbs(in, n); uint64_t v = in.pick({3, 1, 1, 1}) == 0 ? in.u64() : PALETTE[in.u8() & 7];
      unsigned k = in.pick({2, 2});
      if (k == 1) { std::fill(a.begin(), a.end(), f == 4 ? ~0ull : 0ull); if (v == 0) v = 1; size_t z = (size_t)in.range(0, n); if (z < n) a[z] = in.u64(); }
      bool inplace = in.flag();
      Int A = Int::from_limbs(a.data(), n), B = Int::from_u64(v);
      Int R = f == 4 ? A + B : A - B; uint64_t cy = 0;
      if (f == 4) { cy = R.bits() > 64 * n; if (cy) R = R - ref::pow2(64 * n); } else if (R.neg) { cy = 1; R = R + ref::pow2(64 * n); }
      Guarded r(n), s1(n); memcpy(s1.p(), a.data(), n * 8);
      uint64_t* rp = inplace ? s1.p() : r.p();
      uint64_t got = f == 4 ? mpn_add_1(rp, s1.p(), n, v) : mpn_sub_1(rp, s1.p(), n, v);
      DESC(ci, "a=" + show(a) + " v=" + std::to_string(v) + (inplace ? " inplace" : ""));
      if (cy && n >= 4) ci.label("carry_full_chain");
      REQUIRE(got == cy, "%s(n=%zu): returned %llu, expected %llu", names[f], n, (unsigned long long)got, (unsigned long long)cy);
      REQUIRE(Int::from_limbs(rp, n) == R, "%s(n=%zu): wrong result limbs", names[f], n);
      REQUIRE(r.intact() && s1.intact(), "%s: wrote outside the destination", names[f]);
      if (!inplace) REQUIRE(memcmp(s1.p(), a.data(), n * 8) == 0, "%s: source modified", names[f]);
      break; }
    case 6: {   // neg: rp = -sp mod B^n, returns borrow (1 iff sp != 0)
      Limbs a = limbs(in, n); if (in.chance(40)) std::fill(a.begin(), a.end(), 0);
      if (in.chance(40)) { size_t z = (size_t)in.range(0, n - 1); std::fill(a.begin(), a.begin() + z, 0); }
      bool inplace = in.flag();
      Int A = Int::from_limbs(a.data(), n); Int R = A.is_zero() ? A : ref::pow2(64 * n) - A; uint64_t cy = A.is_zero() ? 0 : 1;
      Guarded r(n), s1(n); memcpy(s1.p(), a.data(), n * 8);
      uint64_t* rp = inplace ? s1.p() : r.p();
      uint64_t got = mpn_neg(rp, s1.p(), n);
      DESC(ci, "a=" + show(a) + (inplace ? " inplace" : ""));
      if (A.is_zero()) ci.label("neg_of_zero");
      REQUIRE(got == cy, "mpn_neg(n=%zu): returned %llu, expected %llu", n, (unsigned long long)got, (unsigned long long)cy);
      REQUIRE(Int::from_limbs(rp, n) == R, "mpn_neg(n=%zu): wrong result limbs", n);
      REQUIRE(r.intact() && s1.intact(), "mpn_neg: wrote outside the destination");
      if (!inplace) REQUIRE(memcmp(s1.p(), a.data(), n * 8) == 0, "mpn_neg: source modified");
      break; }
    case 7: case 8: {   // lshift (rp >= sp allowed), rshift (rp <= sp allowed); count 1..63
      unsigned cnt = (unsigned)in.range(1, 63); if (in.chance(50)) cnt = in.flag() ? 1 : 63;
      Limbs a = limbs(in, n);
      unsigned ovk = in.pick({3, 2, 3});   // separate, in place, partial overlap by k limbs
      size_t k = ovk == 2 ? (size_t)in.range(1, std::max<size_t>(1, std::min<size_t>(n, 1 + in.range(0, 12)))) : 0;
      if (ovk == 2 && k >= n && n > 1) k = n - 1;
      // one arena: source at offset o_s, destination at offset o_d
      size_t G = 4, o_s, o_d;
      if (ovk == 0) { o_s = G; o_d = G + n + G; }
      else if (f == 7) { o_s = G; o_d = G + k; }     // lshift: rp = sp + k
      else { o_d = G; o_s = G + k; }                  // rshift: rp = sp - k
      size_t total = std::max(o_s, o_d) + n + G;
      std::vector<uint64_t> arena(total); for (size_t i = 0; i < total; i++) arena[i] = 0xa5a5a5a500000000ull + i;
      memcpy(&arena[o_s], a.data(), n * 8);
      std::vector<uint64_t> before = arena;
      Int A = Int::from_limbs(a.data(), n); Int R; uint64_t ret;
      if (f == 7) { Int full = ref::shl(A, cnt); ret = 0; if (full.m.size() > n) ret = full.m[n]; R = Int::from_limbs(full.m.data(), std::min(n, full.m.size())); }
      else { Int wide = ref::shl(A, 64 - cnt); ret = wide.m.empty() ? 0 : wide.m[0]; R = ref::tshr(A, cnt); }
      uint64_t got = f == 7 ? mpn_lshift(&arena[o_d], &arena[o_s], n, cnt) : mpn_rshift(&arena[o_d], &arena[o_s], n, cnt);
      DESC(ci, "count=" + std::to_string(cnt) + " a=" + show(a) + " overlap=" + (ovk == 0 ? "none" : ovk == 1 ? "inplace" : "partial k=" + std::to_string(k)));
      if (ovk == 2 && k < n) ci.label(f == 7 ? "overlap_partial_lshift" : "overlap_partial_rshift");
      REQUIRE(got == ret, "%s(n=%zu,count=%u): returned 0x%llx, expected 0x%llx", names[f], n, cnt, (unsigned long long)got, (unsigned long long)ret);
      REQUIRE(Int::from_limbs(&arena[o_d], n) == R, "%s(n=%zu,count=%u,overlap=%u k=%zu): wrong result limbs", names[f], n, cnt, ovk, k);
      for (size_t i = 0; i < total; i++) {
        bool in_d = i >= o_d && i < o_d + n;
        if (!in_d) REQUIRE(arena[i] == before[i], "%s(n=%zu,count=%u,overlap=%u k=%zu): limb at arena offset %zu outside the destination changed", names[f], n, cnt, ovk, k, i);
      }
      break; }
    case 9: case 10: {  // copyi (rp <= sp overlap ok), copyd (rp >= sp overlap ok)
      Limbs a = limbs(in, n);
      unsigned ovk = in.pick({3, 1, 3});
      size_t k = ovk == 2 ? (size_t)in.range(1, std::max<size_t>(1, std::min<size_t>(n, 1 + in.range(0, 12)))) : 0;
      size_t G = 4, o_s, o_d;
      if (ovk == 0) { o_s = G; o_d = G + n + G; }
      else if (f == 10) { o_s = G; o_d = G + k; }
      else { o_d = G; o_s = G + k; }
      size_t total = std::max(o_s, o_d) + n + G;
      std::vector<uint64_t> arena(total); for (size_t i = 0; i < total; i++) arena[i] = 0x5a5a5a5a00000000ull + i;
      memcpy(&arena[o_s], a.data(), n * 8);
      std::vector<uint64_t> before = arena;
      if (f == 9) mpn_copyi(&arena[o_d], &arena[o_s], n); else mpn_copyd(&arena[o_d], &arena[o_s], n);
      DESC(ci, "a=" + show(a) + " overlap=" + std::to_string(ovk) + " k=" + std::to_string(k));
      if (ovk == 2) ci.label("overlap_partial_copy");
      REQUIRE(memcmp(&arena[o_d], a.data(), n * 8) == 0, "%s(n=%zu,overlap k=%zu): destination differs from source", names[f], n, k);
      for (size_t i = 0; i < total; i++) if (!(i >= o_d && i < o_d + n)) REQUIRE(arena[i] == before[i], "%s: limb outside the destination changed", names[f]);
      break; }
    case 11: {  // zero
      Guarded r(n); mpn_zero(r.p(), n);
      for (size_t i = 0; i < n; i++) REQUIRE(r.p()[i] == 0, "mpn_zero(n=%zu): limb %zu not zero", n, i);
      REQUIRE(r.intact(), "mpn_zero: wrote outside the destination");
      break; }
    case 12: {  // cmp
      Limbs a = limbs(in, n), b = limbs(in, n);
      unsigned k = in.pick({2, 2, 3});
      if (k == 1) b = a; if (k == 2) { b = a; size_t z = (size_t)in.range(0, n - 1); b[z] = in.u64(); }
      int e = ref::mcmp(Int::from_limbs(a.data(), n).m, Int::from_limbs(b.data(), n).m);
      int g = mpn_cmp(a.data(), b.data(), n);
      DESC(ci, "a=" + show(a) + " b=" + show(b));
      REQUIRE((g > 0) - (g < 0) == e, "mpn_cmp(n=%zu): returned %d, expected sign %d", n, g, e);
      break; }
    case 13: {  // zero_p
      Limbs a(n, 0); unsigned k = in.pick({2, 3});
      if (k == 1) { size_t z = (size_t)in.range(0, n - 1); a[z] = in.flag() ? 1ull << in.range(0, 63) : in.u64(); }
      bool e = true; for (auto x : a) if (x) e = false;
      int g = mpn_zero_p(a.data(), n);
      DESC(ci, "a=" + show(a));
      REQUIRE((g != 0) == e, "mpn_zero_p(n=%zu): returned %d, expected %d", n, g, (int)e);
      break; }
  }
}

static void check_mpz(ByteSource& in, CaseInfo& ci) {
  unsigned f = in.pick({10, 10, 5, 5, 5, 3, 3, 6, 3, 3});
  static const char* names[] = {"mpz_add", "mpz_sub", "mpz_add_ui", "mpz_sub_ui", "mpz_ui_sub", "mpz_neg", "mpz_abs", "mpz_mul_2exp", "mpz_set", "mpz_swap"};
  ci.label(names[f]);
  size_t cap = expcap(in.scale, 6, 6000);
  auto gi = [&]() { size_t n = in.pick({1, 6}) == 0 ? 0 : (in.flag() ? (size_t)in.range(1, std::min<size_t>(cap, 8)) : (size_t)in.logrange(1, cap)); Limbs v = limbs_nz(in, n); return Int::from_limbs(v.data(), n, in.flag()); };
  Int A = gi(), B = gi();
  mpz_t a, b, r; mpz_init(a); mpz_init(b); mpz_init(r);
  struct Clr { mpz_ptr a, b, r; ~Clr() { mpz_clear(a); mpz_clear(b); mpz_clear(r); } } clr{a, b, r};
  // garbage in the destination so stale limbs cannot pass for a result
  { Limbs junk = limbs_nz(in, (size_t)in.range(0, 5)); mpz_from_limbs(r, junk.data(), junk.size(), in.flag()); }
  switch (f) {
    case 0: case 1: {
      unsigned rel = in.pick({4, 2, 2, 2, 2});
      if (rel == 1) { B = A; }                       // equal
      if (rel == 2) { B = -A; }                      // equal magnitude, opposite sign
      if (rel == 3 && !A.is_zero()) { B = A; size_t z = (size_t)in.range(0, A.m.size() - 1); B.m[z] ^= 1ull << in.range(0, 63); B.fix(); if (in.flag()) B = -B; }  // differ in one bit: massive cancellation
      if (rel == 4 && !A.is_zero()) { B = Int::from_limbs(A.m.data(), A.m.size(), in.flag()); B = B + Int(in.flag() ? 1 : -1); }
      mpz_from_int(a, A); mpz_from_int(b, B);
      unsigned al = in.pick({4, 2, 2, 1});   // r distinct, r==a, r==b, a==b==r (then B=A)
      Int R;
      if (al == 3) { B = A; R = f == 0 ? A + A : A - A; if (f == 0) mpz_add(a, a, a); else mpz_sub(a, a, a); REQUIRE_WF(a, names[f]); REQUIRE(int_from_mpz(a) == R, "%s(x,x,x): wrong value", names[f]); DESC(ci, "a=b=r=" + show(A)); break; }
      R = f == 0 ? A + B : A - B;
      mpz_ptr rp = al == 0 ? r : al == 1 ? a : b;
      if (f == 0) mpz_add(rp, a, b); else mpz_sub(rp, a, b);
      DESC(ci, "a=" + show(A) + " b=" + show(B) + " alias=" + std::to_string(al));
      if (R.is_zero() && !A.is_zero()) ci.label("cancel_to_zero");
      if (!A.is_zero() && !B.is_zero() && R.m.size() + 1 < std::max(A.m.size(), B.m.size())) ci.label("cancel_many_limbs");
      if (A.m.size() >= 2 || B.m.size() >= 2) ci.nontrivial = true;
      REQUIRE_WF(rp, names[f]);
      REQUIRE(int_from_mpz(rp) == R, "%s: wrong value (alias pattern %u)", names[f], al);
      if (al != 1) REQUIRE(int_from_mpz(a) == A, "%s: input a modified", names[f]);
      if (al != 2) REQUIRE(int_from_mpz(b) == B, "%s: input b modified", names[f]);
      break; }
    case 2: case 3: case 4: {
      uint64_t v = in.pick({3, 1, 1, 1}) == 0 ? in.u64() : PALETTE[in.u8() & 7];
      unsigned rel = in.pick({3, 2, 2});
      if (rel == 1) { A = Int::from_u64(v); if (in.flag()) A = -A; }     // |a| == v
      if (rel == 2) { A = Int::from_u64(v) + Int((long long)in.srange(-2, 2)); if (in.flag()) A = -A; }
      mpz_from_int(a, A); bool inplace = in.flag(); mpz_ptr rp = inplace ? a : r;
      Int V = Int::from_u64(v); Int R = f == 2 ? A + V : f == 3 ? A - V : V - A;
      if (f == 2) mpz_add_ui(rp, a, v); else if (f == 3) mpz_sub_ui(rp, a, v); else mpz_ui_sub(rp, v, a);
      DESC(ci, "a=" + show(A) + " ui=" + std::to_string(v) + (inplace ? " inplace" : ""));
      if (A.m.size() >= 2 || (A.m.size() == 1 && R.m.size() != 1)) ci.nontrivial = true;
      if (R.is_zero() && v) ci.label("cancel_to_zero");
      REQUIRE_WF(rp, names[f]);
      REQUIRE(int_from_mpz(rp) == R, "%s: wrong value", names[f]);
      if (!inplace) REQUIRE(int_from_mpz(a) == A, "%s: input modified", names[f]);
      break; }
    case 5: case 6: {
      mpz_from_int(a, A); bool inplace = in.flag(); mpz_ptr rp = inplace ? a : r;
      Int R = f == 5 ? -A : A.abs();
      if (f == 5) mpz_neg(rp, a); else mpz_abs(rp, a);
      DESC(ci, "a=" + show(A) + (inplace ? " inplace" : ""));
      if (A.m.size() >= 2) ci.nontrivial = true;
      REQUIRE_WF(rp, names[f]); REQUIRE(int_from_mpz(rp) == R, "%s: wrong value", names[f]);
      if (!inplace) REQUIRE(int_from_mpz(a) == A, "%s: input modified", names[f]);
      break; }
    case 7: {
      uint64_t cnt; unsigned k = in.pick({3, 3, 2});
      if (k == 0) { static const uint64_t c[] = {0, 1, 63, 64, 65, 127, 128, 129, 192}; cnt = c[in.range(0, 8)]; }
      else if (k == 1) cnt = in.range(0, 300); else cnt = in.logrange(0, 64 * cap);
      mpz_from_int(a, A); bool inplace = in.flag(); mpz_ptr rp = inplace ? a : r;
      Int R = ref::shl(A, cnt);
      mpz_mul_2exp(rp, a, cnt);
      DESC(ci, "a=" + show(A) + " cnt=" + std::to_string(cnt) + (inplace ? " inplace" : ""));
      if (!A.is_zero()) ci.nontrivial = true;
      if (cnt % 64 == 0 && cnt) ci.label("shift_whole_limbs");
      REQUIRE_WF(rp, names[f]); REQUIRE(int_from_mpz(rp) == R, "mpz_mul_2exp(cnt=%llu): wrong value", (unsigned long long)cnt);
      if (!inplace) REQUIRE(int_from_mpz(a) == A, "mpz_mul_2exp: input modified");
      break; }
    case 8: {
      mpz_from_int(a, A); bool self = in.chance(40);
      if (self) { mpz_set(a, a); REQUIRE_WF(a, "mpz_set"); REQUIRE(int_from_mpz(a) == A, "mpz_set(x,x): value changed"); }
      else { mpz_set(r, a); REQUIRE_WF(r, "mpz_set"); REQUIRE(int_from_mpz(r) == A, "mpz_set: wrong value"); REQUIRE(int_from_mpz(a) == A, "mpz_set: input modified"); }
      DESC(ci, "a=" + show(A)); if (A.m.size() >= 2) ci.nontrivial = true;
      break; }
    case 9: {
      mpz_from_int(a, A); mpz_from_int(b, B); bool self = in.chance(40);
      if (self) { mpz_swap(a, a); REQUIRE_WF(a, "mpz_swap"); REQUIRE(int_from_mpz(a) == A, "mpz_swap(x,x): value changed"); ci.label("swap_self"); }
      else { mpz_swap(a, b); REQUIRE_WF(a, "mpz_swap"); REQUIRE_WF(b, "mpz_swap"); REQUIRE(int_from_mpz(a) == B && int_from_mpz(b) == A, "mpz_swap: values not exchanged"); }
      DESC(ci, "a=" + show(A) + " b=" + show(B)); if (A.m.size() >= 2 || B.m.size() >= 2) ci.nontrivial = true;
      break; }
  }
}

// ---- the three-operand helpers of the anchor files (internal; used by the Toom code): every same-or-separate operand pattern ----
extern "C" { mp_limb_t __gmpn_addadd_n(mp_ptr, mp_srcptr, mp_srcptr, mp_srcptr, mp_size_t); int __gmpn_addsub_n(mp_ptr, mp_srcptr, mp_srcptr, mp_srcptr, mp_size_t); mp_limb_t __gmpn_subadd_n(mp_ptr, mp_srcptr, mp_srcptr, mp_srcptr, mp_size_t); }
static void check_helpers(ByteSource& in, CaseInfo& ci) {
  unsigned f = in.pick({3, 3, 3, 2}); static const char* names[] = {"mpn_addadd_n", "mpn_addsub_n", "mpn_subadd_n", "mpn_sumdiff_n"}; ci.label(names[f]);
  size_t n = in.flag() ? (size_t)in.range(1, 24) : (size_t)in.logrange(1, std::max<size_t>(1, expcap(in.scale, 6, 2000))); if (n >= 2) ci.nontrivial = true;
  Limbs X = limbs(in, n), Y = limbs(in, n), Zv = limbs(in, n); if (in.chance(60)) { uint64_t top = in.flag() ? ~0ull : 1ull << 63; X[n - 1] |= top; Y[n - 1] |= top; Zv[n - 1] |= top; }
  Int B = ref::pow2(64 * n), x = Int::from_limbs(X.data(), n), y = Int::from_limbs(Y.data(), n), z = Int::from_limbs(Zv.data(), n);
  if (f <= 2) {
    // which sources are the destination itself (bit 0: x, bit 1: y, bit 2: z); sources that are the destination necessarily hold the same value
    unsigned pat = (unsigned)in.range(0, 7); Guarded t(n), bx(n), by(n), bz(n); Limbs D = (pat & 1) ? X : (pat & 2) ? Y : (pat & 4) ? Zv : limbs(in, n);
    if (pat & 1) X = D; if (pat & 2) Y = D; if (pat & 4) Zv = D; x = Int::from_limbs(X.data(), n); y = Int::from_limbs(Y.data(), n); z = Int::from_limbs(Zv.data(), n);
    memcpy(t.p(), D.data(), n * 8); memcpy(bx.p(), X.data(), n * 8); memcpy(by.p(), Y.data(), n * 8); memcpy(bz.p(), Zv.data(), n * 8);
    const uint64_t* px = (pat & 1) ? t.p() : bx.p(); const uint64_t* py = (pat & 2) ? t.p() : by.p(); const uint64_t* pz = (pat & 4) ? t.p() : bz.p();
    bool same_src = !(pat & 3) && in.chance(40); if (same_src) { py = px; y = x; Y = X; }   // two sources may also be the same separate operand
    ci.d("%s n=%zu pattern t==%s%s%s%s ", names[f], n, (pat & 1) ? "x" : "", (pat & 2) ? "y" : "", (pat & 4) ? "z" : "", pat ? "" : "none"); if (pat) ci.label("helper:dest_is_source"); if (pat == 7 || pat == 6 || pat == 5 || pat == 3) ci.label("helper:dest_is_two_sources");
    Int e = f == 0 ? x + y + z : f == 1 ? x + y - z : x - y - z; Int q, r; ref::fdivrem(e, B, q, r);
    long long ret = f == 0 ? (long long)__gmpn_addadd_n(t.p(), px, py, pz, (long)n) : f == 1 ? (long long)__gmpn_addsub_n(t.p(), px, py, pz, (long)n) : (long long)__gmpn_subadd_n(t.p(), px, py, pz, (long)n);
    long long eret = f == 2 ? -(q.neg ? -(long long)q.abs().low() : (long long)q.low()) : (q.neg ? -(long long)q.abs().low() : (long long)q.low());
    REQUIRE(t.intact() && bx.intact() && by.intact() && bz.intact(), "%s(n=%zu): wrote outside its operands", names[f], n);
    REQUIRE(Int::from_limbs(t.p(), n) == r, "%s(n=%zu, pattern %u): wrong result limbs", names[f], n, pat);
    REQUIRE(ret == eret, "%s(n=%zu, pattern %u): returned %lld, expected %lld", names[f], n, pat, ret, eret);
    if (!(pat & 1)) REQUIRE(!memcmp(bx.p(), X.data(), n * 8), "%s: source x modified", names[f]); if (!(pat & 2) && !same_src) REQUIRE(!memcmp(by.p(), Y.data(), n * 8), "%s: source y modified", names[f]); if (!(pat & 4)) REQUIRE(!memcmp(bz.p(), Zv.data(), n * 8), "%s: source z modified", names[f]);
  } else {
    // s = x + y, d = x - y; s and d distinct; each may be x or y
    unsigned ps = (unsigned)in.range(0, 2), pd = (unsigned)in.range(0, 2); if (ps && ps == pd) pd = 0;   // 0 separate, 1 is x, 2 is y
    Guarded bs(n), bd(n), bx(n), by(n); memcpy(bx.p(), X.data(), n * 8); memcpy(by.p(), Y.data(), n * 8);
    uint64_t* sp = ps == 1 ? bx.p() : ps == 2 ? by.p() : bs.p(); uint64_t* dp = pd == 1 ? bx.p() : pd == 2 ? by.p() : bd.p();
    ci.d("mpn_sumdiff_n n=%zu s is %s, d is %s ", n, ps == 1 ? "x" : ps == 2 ? "y" : "separate", pd == 1 ? "x" : pd == 2 ? "y" : "separate"); if (ps || pd) ci.label("helper:dest_is_source"); if (ps && pd) ci.label("helper:dest_is_two_sources");
    Int qs, rs, qd, rd; ref::fdivrem(x + y, B, qs, rs); ref::fdivrem(x - y, B, qd, rd);
    uint64_t ret = mpn_sumdiff_n(sp, dp, bx.p(), by.p(), (long)n); uint64_t eret = 2 * qs.low() + (qd.neg ? 1 : 0);
    REQUIRE(bs.intact() && bd.intact() && bx.intact() && by.intact(), "mpn_sumdiff_n(n=%zu): wrote outside its operands", n);
    REQUIRE(Int::from_limbs(sp, n) == rs, "mpn_sumdiff_n(n=%zu): wrong sum limbs", n); REQUIRE(Int::from_limbs(dp, n) == rd, "mpn_sumdiff_n(n=%zu): wrong difference limbs", n);
    REQUIRE(ret == eret, "mpn_sumdiff_n(n=%zu): returned %llu, expected 2*carry+borrow = %llu", n, (unsigned long long)ret, (unsigned long long)eret);
  }
}
static void check(ByteSource& in, CaseInfo& ci) { if (in.chance(26)) { check_helpers(in, ci); return; } if (in.pick({3, 2}) == 0) check_mpn(in, ci); else check_mpz(in, ci); }

// ---- exhaustive sweep: every pair of signed values of up to three limbs with limbs from {0,1,2^63-1,2^63,2^64-2,2^64-1} ----------
static uint64_t sweep_count() { return 432ull * 432ull; }
static void sweep_item(uint64_t i, CaseInfo& ci) {
  uint64_t ia = i % 432, ib = i / 432; Int A = palette_int(ia % 216, 3), B = palette_int(ib % 216, 3); if (ia >= 216) A = -A; if (ib >= 216) B = -B;
  ci.d("a=%s b=%s", show(A).c_str(), show(B).c_str());
  mpz_t a, b, r; mpz_init(a); mpz_init(b); mpz_init(r); struct Clr { mpz_ptr x, y, z; ~Clr() { mpz_clear(x); mpz_clear(y); mpz_clear(z); } } clr{a, b, r}; mpz_from_int(a, A); mpz_from_int(b, B);
  mpz_add(r, a, b); REQUIRE_WF(r, "mpz_add"); REQUIRE(int_from_mpz(r) == A + B, "mpz_add(%s, %s)", show(A).c_str(), show(B).c_str());
  mpz_sub(r, a, b); REQUIRE_WF(r, "mpz_sub"); REQUIRE(int_from_mpz(r) == A - B, "mpz_sub(%s, %s)", show(A).c_str(), show(B).c_str());
  { mpz_set(r, a); mpz_add(r, r, b); REQUIRE_WF(r, "mpz_add"); REQUIRE(int_from_mpz(r) == A + B, "mpz_add(r=a, b) in place (%s, %s)", show(A).c_str(), show(B).c_str()); mpz_set(r, b); mpz_sub(r, a, r); REQUIRE_WF(r, "mpz_sub"); REQUIRE(int_from_mpz(r) == A - B, "mpz_sub(r, a, r=b) in place (%s, %s)", show(A).c_str(), show(B).c_str()); }
  uint64_t u = B.low(); Int U = Int::from_u64(u);
  mpz_add_ui(r, a, u); REQUIRE_WF(r, "mpz_add_ui"); REQUIRE(int_from_mpz(r) == A + U, "mpz_add_ui(%s, %llu)", show(A).c_str(), (unsigned long long)u);
  mpz_sub_ui(r, a, u); REQUIRE_WF(r, "mpz_sub_ui"); REQUIRE(int_from_mpz(r) == A - U, "mpz_sub_ui(%s, %llu)", show(A).c_str(), (unsigned long long)u);
  mpz_ui_sub(r, u, a); REQUIRE_WF(r, "mpz_ui_sub"); REQUIRE(int_from_mpz(r) == U - A, "mpz_ui_sub(%llu, %s)", (unsigned long long)u, show(A).c_str());
  { mpz_set(r, a); mpz_ui_sub(r, u, r); REQUIRE_WF(r, "mpz_ui_sub"); REQUIRE(int_from_mpz(r) == U - A, "mpz_ui_sub(r, %llu, r) in place, r = %s", (unsigned long long)u, show(A).c_str()); }
  if (ib < 6) { static const unsigned sh[] = {0, 1, 63, 64, 65, 128}; mpz_mul_2exp(r, a, sh[ib]); REQUIRE_WF(r, "mpz_mul_2exp"); REQUIRE(int_from_mpz(r) == ref::shl(A, sh[ib]), "mpz_mul_2exp(%s, %u)", show(A).c_str(), sh[ib]);
    mpz_neg(r, a); REQUIRE(int_from_mpz(r) == -A, "mpz_neg(%s)", show(A).c_str()); mpz_abs(r, a); REQUIRE(int_from_mpz(r) == A.abs(), "mpz_abs(%s)", show(A).c_str()); }
  // mpn level on the three-limb magnitudes
  if (ia < 216 && ib < 216) { uint64_t x[3] = {0, 0, 0}, y[3] = {0, 0, 0}, t[3]; for (size_t k = 0; k < A.m.size(); k++) x[k] = A.m[k]; for (size_t k = 0; k < B.m.size(); k++) y[k] = B.m[k]; Int X = Int::from_limbs(x, 3), Y = Int::from_limbs(y, 3), B3 = ref::pow2(192), q, rr;
    uint64_t c = mpn_add_n(t, x, y, 3); ref::fdivrem(X + Y, B3, q, rr); REQUIRE(Int::from_limbs(t, 3) == rr && Int::from_u64(c) == q, "mpn_add_n(%s, %s)", show(X).c_str(), show(Y).c_str());
    c = mpn_sub_n(t, x, y, 3); ref::fdivrem(X - Y, B3, q, rr); REQUIRE(Int::from_limbs(t, 3) == rr && Int::from_u64(c) == -q, "mpn_sub_n(%s, %s)", show(X).c_str(), show(Y).c_str());
    c = mpn_add_1(t, x, 3, y[0]); ref::fdivrem(X + Int::from_u64(y[0]), B3, q, rr); REQUIRE(Int::from_limbs(t, 3) == rr && Int::from_u64(c) == q, "mpn_add_1(%s, %llu)", show(X).c_str(), (unsigned long long)y[0]);
    c = mpn_sub_1(t, x, 3, y[0]); ref::fdivrem(X - Int::from_u64(y[0]), B3, q, rr); REQUIRE(Int::from_limbs(t, 3) == rr && Int::from_u64(c) == -q, "mpn_sub_1(%s, %llu)", show(X).c_str(), (unsigned long long)y[0]);
    c = mpn_neg(t, x, 3); ref::fdivrem(-X, B3, q, rr); REQUIRE(Int::from_limbs(t, 3) == rr && (c != 0) == !X.is_zero(), "mpn_neg(%s)", show(X).c_str());
    REQUIRE((mpn_cmp(x, y, 3) > 0) == (X > Y) && (mpn_cmp(x, y, 3) < 0) == (X < Y), "mpn_cmp(%s, %s)", show(X).c_str(), show(Y).c_str()); }
}
namespace eng {
PropDef g_prop = {"C03",
  "Cases: one call of a three-operand helper of the anchor files (mpn_addadd_n x+y+z, mpn_addsub_n x+y-z, mpn_subadd_n x-y-z with every pattern of sources being the destination, mpn_sumdiff_n with s and d separate or equal to a source; result limbs and the returned carry/borrow count), or of one of the 14 mpn functions (lengths 1..40 dense, ..300, log-uniform to the scale cap; limb styles uniform/runs/palette/all-ones/single-bit/low-zero; constructed full carry and borrow chains; in-place and the permitted partial overlaps rp=sp+k for lshift/copyd, rp=sp-k for rshift/copyi inside one arena) or of the 10 mpz functions (all sign combinations, equal magnitude, one-bit difference, |a|=ui, aliasing of destination and sources). Oracle: refint arithmetic on the limb vectors, returned carry/borrow/shifted-out limb, guard limbs, sources unchanged. Non-trivial: length >= 2 (mpn) or an operand of >= 2 limbs / a size-changing result (mpz). Distinct = hash of all decoded choices.",
  check, nullptr, {"carry_full_chain", "overlap_partial_lshift", "overlap_partial_rshift", "cancel_to_zero", "inplace", "mpn_addadd_n", "mpn_addsub_n", "mpn_subadd_n", "mpn_sumdiff_n", "helper:dest_is_two_sources"}, nullptr, sweep_count, sweep_item,
  "every pair of signed values of up to three limbs with limbs from {0,1,2^63-1,2^63,2^64-2,2^64-1} (432 x 432): mpz_add, mpz_sub (also in place), mpz_add_ui, mpz_sub_ui, mpz_ui_sub (also in place), mpz_mul_2exp by 0,1,63,64,65,128, mpz_neg, mpz_abs; mpn_add_n, mpn_sub_n, mpn_add_1, mpn_sub_1, mpn_neg, mpn_cmp on the three-limb magnitudes"};
}
