// C08: powers and modular powers are exact
#include "../harness/gen.hpp"
#include "../harness/thresholds.hpp"
#ifndef REDC_1_TO_REDC_2_THRESHOLD
#define REDC_1_TO_REDC_2_THRESHOLD 15   /* gmp-impl.h default */
#endif
#ifndef REDC_2_TO_REDC_N_THRESHOLD
#define REDC_2_TO_REDC_N_THRESHOLD 100  /* gmp-impl.h default */
#endif
using namespace eng; using namespace gen; using ref::Int;
struct Z { mpz_t z; Z() { mpz_init(z); } ~Z() { mpz_clear(z); } operator mpz_ptr() { return z; } };

// exponent bit patterns: every sliding-window width gets exercised
static Int gen_exp(ByteSource& in, uint64_t maxbits) {
  uint64_t nb = in.flag() ? in.range(0, std::min<uint64_t>(maxbits, 70)) : in.logrange(0, maxbits);
  unsigned k = in.pick({5, 2, 2, 2, 1, 1});
  if (nb == 0) return Int(0);
  Int e;
  switch (k) {
    default: { Limbs v = limbs(in, (nb + 63) / 64, S_UNIFORM); e = ref::tshr(Int::from_limbs(v.data(), v.size()), 64 * v.size() - nb); e = e + ref::pow2(nb - 1); e = ref::tmod(e, ref::pow2(nb)); if (e.bits() < nb) e = e + ref::pow2(nb - 1); break; }
    case 1: e = ref::pow2(nb) - Int(1); break;                 // all ones
    case 2: e = ref::pow2(nb - 1); break;                      // single bit
    case 3: { e = Int(0); for (uint64_t i = nb; i-- > 0;) { e = ref::shl(e, 1); if ((nb - 1 - i) % 2 == 0) e = e + Int(1); } break; }   // alternating
    case 4: { Limbs v = limbs(in, (nb + 63) / 64, S_RUNS); e = Int::from_limbs(v.data(), v.size()); e = ref::tmod(e, ref::pow2(nb)); if (e.bits() < nb) e = e + ref::pow2(nb - 1); break; }
    case 5: e = Int((long long)in.range(0, 3)); break;
  }
  return e;
}
static Int gen_mod(ByteSource& in, size_t cap, CaseInfo& ci) {
  size_t n = size_near(in, 1, cap, {REDC_1_TO_REDC_2_THRESHOLD, REDC_2_TO_REDC_N_THRESHOLD, POWM_THRESHOLD, MUL_KARATSUBA_THRESHOLD, 2, 3, BINV_NEWTON_THRESHOLD, 2 * BINV_NEWTON_THRESHOLD});
  Limbs v = limbs_nz(in, n); Int m = Int::from_limbs(v.data(), n);
  unsigned k = in.pick({6, 4, 2, 1, 1});
  if (k == 0) { if (!m.is_odd()) m = m + Int(1); ci.label("mod:odd"); }
  else if (k == 1) { // even with 2-adic valuation 1..200 incl. whole zero low limbs
    uint64_t tz = in.flag() ? in.range(1, 8) : in.range(1, 64 * std::min<size_t>(n, 4)); if (!m.is_odd()) m = m + Int(1); m = ref::shl(ref::tshr(m, std::min<uint64_t>(tz, m.bits() > 1 ? m.bits() - 1 : 0)), tz); if (m.is_zero()) m = ref::pow2(tz); ci.label(tz >= 64 ? "mod:even_zero_low_limb" : "mod:even"); }
  else if (k == 2) { m = ref::pow2(in.range(0, 64 * n)); ci.label("mod:pow2"); }
  else if (k == 3) { m = Int(1); ci.label("mod:one"); }
  else { m = Int(2); }
  if (m.is_zero()) m = Int(3);
  if (in.chance(64)) m = -m;
  return m;
}
static void case_powm(ByteSource& in, CaseInfo& ci) {
  bool ui = in.chance(70);
  size_t cap = expcap(in.scale, 3, in.chance(40) ? 720 : 260);   // now and then above BINV_NEWTON_THRESHOLD (default 300) and twice that
  Int M = gen_mod(in, cap, ci);
  // cost bound for the reference square-and-multiply: mod_limbs^2 * exp_bits <= ~3e7
  uint64_t maxbits = (uint64_t)std::min<double>(2200.0, 3e7 / ((double)M.size() * M.size() + 1)); if (maxbits < 8) maxbits = 8; if (ui) maxbits = std::min<uint64_t>(maxbits, 64);
  Int E = gen_exp(in, maxbits);
  Int B; unsigned bk = in.pick({5, 2, 1, 1, 1, 2});
  if (bk == 0) B = gen_int(in, M.size() + 2); else if (bk == 1) { B = gen_int(in, M.size() + 2); B = B + M * gen_int(in, 2); } else if (bk == 2) B = Int(0); else if (bk == 3) B = M.abs() - Int(1); else if (bk == 4) B = M;
  else { // |base| a little below or above |mod| (the difference has fewer limbs), either sign: reductions of the base that lose several high limbs
    Int dlt = gen_int(in, std::max<size_t>(1, M.size() > 1 ? (size_t)in.range(1, M.size() - 1) : 1), false); B = in.flag() ? M.abs() - dlt : M.abs() + dlt; if (in.flag() && M.size() > 1) B = ref::tmod(B, ref::pow2(64 * (M.size() - 1)) ) + ref::shl(Int::from_u64(~0ull), 64 * (M.size() - 2));   // or one limb shorter than the modulus with an all-ones top limb
    if (in.flag()) B = -B; ci.label("base_near_modulus");
    if (M.size() >= 3 && in.chance(100)) {   // modulus just above a power of the limb base, base just below that power: mod - |base| loses two or more limbs
      size_t n = M.size(); Int s2 = gen_int(in, (size_t)in.range(1, n - 2), false), d2 = gen_int(in, n - 2, false) + s2 + Int(1); if (d2.size() > n - 2) d2 = ref::tmod(d2, ref::pow2(64 * (n - 2))) ; if (!(d2 > s2)) d2 = s2 + Int(1);
      bool mneg = M.neg; M = ref::pow2(64 * (n - 1)) + s2; B = M - d2; if (mneg) M = -M; if (in.chance(200)) B = -B; ci.label("mod_minus_base_loses_limbs"); }
    if (in.flag()) E = Int((long long)in.range(1, 3)); }
  bool negexp = !ui && in.chance(40) && ref::cmpabs(M, Int(1)) > 0 && !E.is_zero();
  if (negexp) { if (!(ref::gcd(B, M) == Int(1))) { // make base invertible: search nearby
      bool ok = false; for (int i = 0; i < 50 && !ok; i++) { B = B + Int(1); if (ref::gcd(B, M) == Int(1)) ok = true; } if (!ok) negexp = false; } }
  Int Ee = E;
  Int expect;
  if (negexp) { Int s, t; Int g = ref::gcdext(B, M, s, t); (void)g; Int inv = ref::emod(s, M); expect = ref::powmod(inv, E, M); Ee = -E; ci.label("negative_exponent"); }
  else expect = ref::powmod(B, E, M);
  ci.label(ui ? "mpz_powm_ui" : "mpz_powm"); if (E.bits() >= 2 && M.size() >= 2) ci.nontrivial = true;
  if (M.size() >= POWM_THRESHOLD) ci.label("mod_ge_powm_threshold"); else if (M.size() >= REDC_2_TO_REDC_N_THRESHOLD) ci.label("mod_ge_redc_n"); else if (M.size() >= REDC_1_TO_REDC_2_THRESHOLD) ci.label("mod_ge_redc_2");
  if (B.neg) ci.label("base_negative"); if (ref::cmpabs(B, M) > 0) ci.label("base_gt_mod");
  Z b, e, m, r; mpz_from_int(b, B); mpz_from_int(e, Ee); mpz_from_int(m, M); { Limbs j = limbs_nz(in, (size_t)in.range(0, 3)); mpz_from_limbs(r, j.data(), j.size(), in.flag()); }
  unsigned al = in.pick({4, 1, 1, 1}); mpz_ptr o = al == 0 ? r.z : al == 1 ? b.z : al == 2 ? m.z : (ui ? b.z : e.z);
  ci.d("%s alias=%u ", ui ? "mpz_powm_ui" : "mpz_powm", al); DESC(ci, "base=" + show(B, 48) + " exp=" + show(Ee, 48) + " mod=" + show(M, 48));
  if (ui) mpz_powm_ui(o, b, E.low(), m); else mpz_powm(o, b, e, m);
  REQUIRE_WF(o, "mpz_powm"); Int R = int_from_mpz(o);
  REQUIRE(!R.neg && ref::cmpabs(R, M) < 0, "%s: result outside [0,|mod|)", ui ? "mpz_powm_ui" : "mpz_powm");
  REQUIRE(R == expect, "%s (alias %u, |mod|=%zu limbs, exp %llu bits): wrong result", ui ? "mpz_powm_ui" : "mpz_powm", al, M.size(), (unsigned long long)E.bits());
  if (o != b.z) REQUIRE(int_from_mpz(b) == B, "powm: base modified"); if (o != m.z) REQUIRE(int_from_mpz(m) == M, "powm: modulus modified"); if (!ui && o != e.z) REQUIRE(int_from_mpz(e) == Ee, "powm: exponent modified");
}
static void case_pow(ByteSource& in, CaseInfo& ci) {
  bool uib = in.flag(); uint64_t maxres_bits = (uint64_t)expcap(in.scale, 200, 200000);
  Int B; uint64_t bu = 0;
  if (uib) { unsigned k = in.pick({3, 2, 2, 1}); bu = k == 0 ? in.u64() : k == 1 ? in.range(0, 20) : k == 2 ? 1ull << in.range(0, 63) : PALETTE[in.u8() & 7]; B = Int::from_u64(bu); }
  else { unsigned k = in.pick({5, 1, 1, 1, 1}); if (k == 0) B = gen_int(in, 6); else if (k == 1) B = Int(0); else if (k == 2) B = Int(in.flag() ? 1 : -1); else if (k == 3) { B = ref::pow2(in.range(1, 200)); if (in.flag()) B = -B; } else B = Int(in.flag() ? 2 : -3); }
  uint64_t bb = std::max<uint64_t>(1, B.bits()); uint64_t emax = maxres_bits / bb; if (B.bits() <= 1) emax = 100000;
  uint64_t E = in.pick({3, 1}) == 0 ? in.logrange(0, std::max<uint64_t>(1, emax)) : in.range(0, std::min<uint64_t>(emax, 5));
  if (B.bits() <= 1 && in.chance(60)) E = in.u64();      // 0^e, 1^e, (-1)^e with huge e
  Int expect; if (B.is_zero()) expect = E == 0 ? Int(1) : Int(0); else if (B.bits() == 1) expect = (B.neg && (E & 1)) ? Int(-1) : Int(1); else expect = ref::pow(B, E);
  ci.label(uib ? "mpz_ui_pow_ui" : "mpz_pow_ui"); if (expect.size() >= 2) ci.nontrivial = true; if (E == 0 && B.is_zero()) ci.label("zero_pow_zero"); if (B.neg && (E & 1)) ci.label("neg_base_odd_exp");
  Z b, r; mpz_from_int(b, B); bool inplace = !uib && in.flag(); mpz_ptr o = inplace ? b.z : r.z;
  ci.d("%s exp=%llu ", uib ? "mpz_ui_pow_ui" : "mpz_pow_ui", (unsigned long long)E); DESC(ci, "base=" + show(B, 48));
  if (uib) mpz_ui_pow_ui(o, bu, E); else mpz_pow_ui(o, b, E);
  REQUIRE_WF(o, "pow_ui"); REQUIRE(int_from_mpz(o) == expect, "%s(exp=%llu): wrong power", uib ? "mpz_ui_pow_ui" : "mpz_pow_ui", (unsigned long long)E);
  if (!uib && !inplace) REQUIRE(int_from_mpz(b) == B, "mpz_pow_ui: base modified");
}
// mpn_binvert (internal, anchor mpn/generic/binvert.c; used by powm/redc set-up, divexact, bdiv): r*u = 1 mod B^n for odd u
extern "C" void __gmpn_binvert(mp_limb_t*, const mp_limb_t*, long, mp_limb_t*);
extern "C" long __gmpn_binvert_itch(long);
static void case_binvert(ByteSource& in, CaseInfo& ci) {
  size_t cap = expcap(in.scale, 4, 2600); size_t n = size_near(in, 1, cap, {BINV_NEWTON_THRESHOLD, 2 * BINV_NEWTON_THRESHOLD, 4 * BINV_NEWTON_THRESHOLD, 2 * BINV_NEWTON_THRESHOLD + 1, 2, 3});
  Limbs u = limbs(in, n); u[0] |= 1; ci.label("mpn_binvert"); if (n >= BINV_NEWTON_THRESHOLD) ci.label("binvert:newton"); if (n >= 2) ci.nontrivial = true;
  ci.d("mpn_binvert n=%zu ", n); DESC(ci, "u=" + show(u, 64));
  size_t itch = (size_t)__gmpn_binvert_itch((long)n); Guarded r(n), t(itch); Limbs u0 = u;
  __gmpn_binvert(r.p(), u.data(), (long)n, t.p());
  REQUIRE(r.intact() && t.intact(), "mpn_binvert(n=%zu): wrote outside the result or the %zu-limb scratch area", n, itch); REQUIRE(u == u0, "mpn_binvert: source modified");
  Int P = ref::tmod(Int::from_limbs(r.p(), n) * Int::from_limbs(u.data(), n), ref::pow2(64 * n));
  REQUIRE(P == Int(1), "mpn_binvert(n=%zu): r*u != 1 mod B^n", n);
}
static void check(ByteSource& in, CaseInfo& ci) { unsigned k = in.pick({6, 4, 1}); if (k == 0) case_powm(in, ci); else if (k == 1) case_pow(in, ci); else case_binvert(in, ci); }
// ---- exhaustive sweep: base, exponent and modulus of up to two limbs from {0,1,2^63-1,2^63,2^64-2,2^64-1}; both signs of base and modulus ----
static uint64_t sweep_count() { return 72ull * 36ull * 70ull; }
static void sweep_item(uint64_t i, CaseInfo& ci) {
  uint64_t ib = i % 72, ie = (i / 72) % 36, im = i / (72 * 36); Int B = palette_int(ib % 36, 2); if (ib >= 36) B = -B; Int E = palette_int(ie, 2); Int M = palette_int(1 + im % 35, 2); if (im >= 35) M = -M;
  ci.d("base=%s exp=%s mod=%s", show(B).c_str(), show(E).c_str(), show(M).c_str()); Int expect = ref::powmod(B, E, M);
  Z b, e, m, r; mpz_from_int(b, B); mpz_from_int(e, E); mpz_from_int(m, M);
  mpz_powm(r, b, e, m); REQUIRE_WF(r, "mpz_powm"); REQUIRE(int_from_mpz(r) == expect, "mpz_powm(%s, %s, %s) = %s, expected %s", show(B).c_str(), show(E).c_str(), show(M).c_str(), show(int_from_mpz(r)).c_str(), show(expect).c_str());
  if (E.size() <= 1) { mpz_powm_ui(r, b, E.low(), m); REQUIRE_WF(r, "mpz_powm_ui"); REQUIRE(int_from_mpz(r) == expect, "mpz_powm_ui(%s, %llu, %s)", show(B).c_str(), (unsigned long long)E.low(), show(M).c_str()); }
  { mpz_set(r, b); mpz_powm(r, r, e, m); REQUIRE(int_from_mpz(r) == expect, "mpz_powm in place on the base (%s, %s, %s)", show(B).c_str(), show(E).c_str(), show(M).c_str()); mpz_set(r, m); mpz_powm(r, b, e, r); REQUIRE(int_from_mpz(r) == expect, "mpz_powm in place on the modulus (%s, %s, %s)", show(B).c_str(), show(E).c_str(), show(M).c_str()); }
  if (!E.is_zero() && ref::cmpabs(M, Int(1)) > 0 && ref::gcd(B, M) == Int(1)) { Int s2, t2; ref::gcdext(B, M, s2, t2); Int inv = ref::emod(s2, M); Z ne; mpz_from_int(ne, -E); mpz_powm(r, b, ne, m); REQUIRE_WF(r, "mpz_powm"); REQUIRE(int_from_mpz(r) == ref::powmod(inv, E, M), "mpz_powm(%s, -%s, %s): negative exponent", show(B).c_str(), show(E).c_str(), show(M).c_str()); }
}
namespace eng {
PropDef g_prop = {"C08",
  "Cases: mpz_powm / mpz_powm_ui (base of any sign and size incl. 0, |mod|-1, mod, larger than mod; exponent 0,1,.. with patterns all-ones / single bit / alternating / runs; modulus odd, even with 2-adic valuation 1..256 incl. whole zero low limbs, power of two, +-1, 2, negative; sizes around REDC_1/REDC_2/REDC_N/POWM thresholds and, in 1 of 6 cases, up to 720 limbs around BINV_NEWTON_THRESHOLD and twice it; mpn_binvert called directly (n up to 2600 limbs, r*u = 1 mod B^n, scratch guard); negative exponent only with gcd(base,mod)=1 and |mod|>1; result aliasing base/exp/mod) and mpz_pow_ui / mpz_ui_pow_ui (0^0, (+-1)^e with huge e, (+-2^k)^e, negative bases, results up to the scale cap). Oracle: refint square-and-multiply with refint division; result in [0,|mod|). Cost bound mod_limbs^2*exp_bits <= 3e7 (a bound on generated size, not on time). Non-trivial: exponent >= 2 bits and modulus >= 2 limbs / result >= 2 limbs. Distinct = hash of all decoded choices.",
  check, nullptr, {"mod:odd", "mod:even", "mod:even_zero_low_limb", "mod:pow2", "mod:one", "negative_exponent", "mod_ge_redc_2", "mod_ge_redc_n", "mod_ge_powm_threshold", "zero_pow_zero", "neg_base_odd_exp", "base_gt_mod", "mpn_binvert", "binvert:newton", "base_near_modulus", "mod_minus_base_loses_limbs"}, nullptr, sweep_count, sweep_item,
  "every base (both signs) and exponent of up to two limbs and non-zero modulus (both signs) of up to two limbs with limbs from {0,1,2^63-1,2^63,2^64-2,2^64-1} (72 x 36 x 70): mpz_powm (also in place on base and on modulus), mpz_powm_ui for one-limb exponents, and the negative exponent when the base is invertible"};
}
