// C05: outputs may alias inputs, and input-only operands are never modified
#include "../harness/api_table.hpp"
using namespace eng; using namespace gen; using ref::Int; using namespace api;

struct ZV { Int v; }; struct QV { Int n, d; }; struct FV { Limbs l; long exp; bool neg; unsigned prec; unsigned rawlow = 0; };   // rawlow: precision lowered with mpf_set_prec_raw after the value was stored (the value may then be longer than prec+1 limbs)
static Int gz(ByteSource& in, size_t cap) { unsigned k = in.pick({6, 1, 1, 1}); if (k == 1) return Int(0); if (k == 2) return Int((long long)in.srange(-3, 3)); if (k == 3) return ref::pow2(in.range(0, 64 * cap)) * Int(in.flag() ? 1 : -1); return gen_int(in, cap); }
static QV gq(ByteSource& in, size_t cap) { Int n = gz(in, cap), d = gen_int(in, cap, false); if (d.is_zero()) d = Int(1); Int g = ref::gcd(n, d); if (!n.is_zero()) { n = ref::tdiv(n, g); d = ref::tdiv(d, g); } else d = Int(1); return {n, d}; }
static FV gf(ByteSource& in, unsigned prec) { FV f; f.prec = prec; size_t maxn = (prec + 127) / 64 + 1; size_t n = in.chance(20) ? 0 : (size_t)in.range(1, maxn); f.l = limbs_nz(in, n); if (n && in.chance(60)) { size_t z = (size_t)in.range(0, n - 1); std::fill(f.l.begin(), f.l.begin() + z, 0); } f.exp = n ? (long)in.srange(-4, 6) : 0; f.neg = n && in.flag(); return f; }
static void put_f(mpf_ptr x, const FV& f) { size_t n = f.l.size(); for (size_t i = 0; i < n; i++) x->_mp_d[i] = f.l[i]; x->_mp_size = f.neg ? -(int)n : (int)n; x->_mp_exp = f.exp; for (size_t i = n; i < (size_t)x->_mp_prec + 1; i++) x->_mp_d[i] = 0xdeadbeefdeadbeefull; }
static bool feq(mpf_srcptr a, mpf_srcptr b) { int n = std::abs(a->_mp_size); return a->_mp_size == b->_mp_size && a->_mp_exp == b->_mp_exp && memcmp(a->_mp_d, b->_mp_d, n * 8) == 0; }
static bool zeq(mpz_srcptr a, mpz_srcptr b) { return a->_mp_size == b->_mp_size && memcmp(a->_mp_d, b->_mp_d, zl(a) * 8) == 0; }

// one set of objects: slot k of a class -> variable; several slots may share a variable (aliasing)
// Read-only views of input-only operands: the limbs are copied into a page-aligned mapping that is then made PROT_READ (what mpz_roinit_n promises
// to work for every input: "can be passed safely as input to any mpz function"), so that even a store that is undone before the call returns faults.
#include <sys/mman.h>
struct RoRegion { void* p = nullptr; size_t len = 0;
  mp_limb_t* make(const mp_limb_t* src, size_t n) { len = ((n ? n : 1) * 8 + 4095) & ~(size_t)4095; p = mmap(nullptr, len, PROT_READ | PROT_WRITE, MAP_PRIVATE | MAP_ANONYMOUS, -1, 0); if (p == MAP_FAILED) { p = nullptr; return nullptr; }
    /* place the limbs at the END of the mapping: a read past the operand faults as well */ mp_limb_t* d = (mp_limb_t*)((char*)p + len) - (n ? n : 1); if (n) memcpy(d, src, n * 8); else d[0] = 0; mprotect(p, len, PROT_READ); return d; }
  ~RoRegion() { if (p) munmap(p, len); } };
struct Objs {
  mpz_t z[5]; mpq_t q[4]; mpf_t f[4]; int nz = 0, nq = 0, nf = 0; gmp_randstate_t r; bool rinit = false;
  unsigned long fprec0[4] = {0, 0, 0, 0};   // original precision of variables lowered with mpf_set_prec_raw (restored before clearing, as the manual requires)
  ~Objs() { for (int i = 0; i < nz; i++) mpz_clear(z[i]); for (int i = 0; i < nq; i++) mpq_clear(q[i]); for (int i = 0; i < nf; i++) { if (fprec0[i]) mpf_set_prec_raw(f[i], fprec0[i]); mpf_clear(f[i]); } if (rinit) gmp_randclear(r); }
};

static void check(ByteSource& in, CaseInfo& ci) {
  const Op* op; Sig g; int tries = 0;
  do { op = &OPS[in.range(0, NOPS - 1)]; g = parse_sig(op->sig); tries++; } while (tries < 20 && !((g.zo && g.zi) || (g.qo && g.qi) || (g.fo && g.fi) || g.zi >= 2 || g.qi >= 2 || g.fi >= 2));
  int nzz = g.zo + g.zi, nqq = g.qo + g.qi, nff = g.fo + g.fi;
  size_t cap = std::max<size_t>(1, expcap(in.scale, 2, 200));
  // variable assignment per slot: outputs are distinct variables; an input is a fresh variable, an earlier input, or an output
  int vz[5], vq[4], vf[4]; bool aliased = false, out_in = false;
  auto assign = [&](int* v, int nout, int ntot) { int next = 0; for (int k = 0; k < ntot; k++) { if (k < nout) { v[k] = next++; continue; } unsigned c = in.pick({5, 4, 2}); if (c == 1 && nout > 0) { v[k] = (int)in.range(0, nout - 1); aliased = true; out_in = true; } else if (c == 2 && k > nout) { v[k] = v[nout + (int)in.range(0, k - nout - 1)]; aliased = true; } else v[k] = next++; } return next; };
  int nvz = assign(vz, g.zo, nzz), nvq = assign(vq, g.qo, nqq), nvf = assign(vf, g.fo, nff);
  // values per variable (outputs that are not aliased get junk)
  std::vector<Int> zv(nvz); std::vector<QV> qv(nvq); std::vector<FV> fv(nvf); static const unsigned PR[] = {64, 128, 192, 320};
  for (auto& x : zv) x = gz(in, cap); for (auto& x : qv) x = gq(in, std::min<size_t>(cap, 40)); for (auto& x : fv) x = gf(in, PR[in.range(0, 3)]);
  // mid-size class: 90..260 limbs (REDC_n with odd and even sizes, Toom ranges): the generated cap rarely gets there; more often for the powm family,
  // whose Montgomery code works on the caller's modulus; the exponent of mpz_powm stays small so that the table's cost cap admits the call
  { bool powm = strncmp(op->name, "mpz_powm", 8) == 0; if (nvz > 0 && in.chance(powm ? 128 : 20)) { ci.label("mpz_operands_90_to_260_limbs");
      for (auto& x : zv) { size_t n = (size_t)in.range(90, 260); Limbs l = limbs_nz(in, n); if (in.flag()) l[0] |= 1; x = Int::from_limbs(l.data(), n, in.chance(60)); }
      if (strcmp(op->name, "mpz_powm") == 0 && vz[2] != vz[3]) zv[vz[2]] = gz(in, 2).abs(); } }
  if (strcmp(op->name, "mpf_swap") != 0 && strncmp(op->name, "mpf_init", 8) != 0 /* these clear their destination, which the manual allows only at the original precision */) for (auto& x : fv) if (x.prec > 64 && in.chance(60)) { x.rawlow = 64 * (unsigned)in.range(1, x.prec / 64 - 1); ci.label("mpf_operand_longer_than_prec_raw"); }
  Args a0; a0.u[0] = in.pick({3, 2, 2}) == 0 ? in.u64() : in.flag() ? in.range(0, 300) : PALETTE[in.u8() & 7]; a0.u[1] = in.flag() ? in.range(0, 200) : in.u64(); a0.u[2] = in.flag() ? in.range(0, 40) : in.u64(); a0.s[0] = (int64_t)(in.flag() ? in.u64() : (uint64_t)in.srange(-300, 300)); a0.s[1] = 0;
  { uint64_t b = in.u64(); memcpy(&a0.d, &b, 8); if (!std::isfinite(a0.d)) a0.d = -2.75; } a0.base = (int)in.range(0, 255); a0.str = gen_string(in);
  uint64_t rseed = in.u64(); unsigned astate = in.pick({3, 2, 3}); bool shrink = astate == 0, roomy = astate == 2;
  // build the two object sets: A = aliased (one object per variable), R = reference (one object per slot)
  Objs A, R;
  auto setup_objs = [&](Objs& o, bool per_slot) {
    o.nz = per_slot ? nzz : nvz; o.nq = per_slot ? nqq : nvq; o.nf = per_slot ? nff : nvf;
    for (int i = 0; i < o.nz; i++) { mpz_init(o.z[i]); mpz_from_int(o.z[i], zv[per_slot ? vz[i] : i]); }
    for (int i = 0; i < o.nq; i++) { mpq_init(o.q[i]); const QV& v = qv[per_slot ? vq[i] : i]; mpz_from_int(mpq_numref(o.q[i]), v.n); mpz_from_int(mpq_denref(o.q[i]), v.d); }
    for (int i = 0; i < o.nf; i++) { const FV& v = fv[per_slot ? vf[i] : i]; mpf_init2(o.f[i], v.prec); put_f(o.f[i], v); if (v.rawlow) { o.fprec0[i] = mpf_get_prec(o.f[i]); mpf_set_prec_raw(o.f[i], v.rawlow); } }
    gmp_randinit_default(o.r); gmp_randseed_ui(o.r, rseed); o.rinit = true; };
  setup_objs(A, false); setup_objs(R, true);
  Args aA = a0, aR = a0;
  for (int k = 0; k < nzz; k++) { aA.z[k] = A.z[vz[k]]; aR.z[k] = R.z[k]; } for (int k = 0; k < nqq; k++) { aA.q[k] = A.q[vq[k]]; aR.q[k] = R.q[k]; } for (int k = 0; k < nff; k++) { aA.f[k] = A.f[vf[k]]; aR.f[k] = R.f[k]; } aA.r = A.r; aR.r = R.r;
  if (!op->pre(aR) || !op->pre(aA)) { ci.label("skipped_precondition"); return; }
  // destination allocation state: minimal (forces a reallocation while aliased) or roomy
  if (shrink) { for (int k = 0; k < g.zo; k++) mpz_realloc2(aA.z[k], mpz_sizeinbase(aA.z[k], 2)); for (int k = 0; k < g.qo; k++) { mpz_realloc2(mpq_numref(aA.q[k]), mpz_sizeinbase(mpq_numref(aA.q[k]), 2)); mpz_realloc2(mpq_denref(aA.q[k]), mpz_sizeinbase(mpq_denref(aA.q[k]), 2)); } }
  if (roomy) { for (int k = 0; k < g.zo; k++) mpz_realloc2(aA.z[k], 64 * (zl(aA.z[k]) + 2 * cap + 40)); for (int k = 0; k < g.qo; k++) { mpz_realloc2(mpq_numref(aA.q[k]), 64 * (zl(mpq_numref(aA.q[k])) + 100)); mpz_realloc2(mpq_denref(aA.q[k]), 64 * (zl(mpq_denref(aA.q[k])) + 100)); } ci.label("dest:roomy"); }
  size_t alloc0[5]; for (int k = 0; k < g.zo; k++) alloc0[k] = (size_t)aA.z[k]->_mp_alloc;
  ci.label(op->name); ci.d("%s pattern:", op->name); for (int k = 0; k < nzz; k++) ci.d(" z%d%s", vz[k], k < g.zo ? "(out)" : ""); for (int k = 0; k < nqq; k++) ci.d(" q%d%s", vq[k], k < g.qo ? "(out)" : ""); for (int k = 0; k < nff; k++) ci.d(" f%d%s", vf[k], k < g.fo ? "(out)" : "");
  if (ci.want_desc) for (int i = 0; i < nvz; i++) ci.desc += " z" + std::to_string(i) + "=" + show(zv[i], 40);
  // in half of the cases the input-only mpz operands of the call with distinct variables are read-only views (see RoRegion)
  RoRegion ro[5]; __mpz_struct rov[5]; bool use_ro = in.flag();
  if (use_ro) { bool any = false; for (int k = g.zo; k < nzz; k++) { size_t n = zl(aR.z[k]); mp_limb_t* d = ro[k].make(aR.z[k]->_mp_d, n); if (!d) continue; rov[k]._mp_d = d; rov[k]._mp_size = aR.z[k]->_mp_size; rov[k]._mp_alloc = 0; aR.z[k] = &rov[k]; any = true; } if (any) ci.label("inputs_read_only"); }
  Res rA, rR; op->run(aR, rR); op->run(aA, rA);
  for (auto& sv : rA.sv) REQUIRE(sv.compare(0, 10, "ILL-FORMED") != 0, "%s: %s", op->name, sv.c_str());
  if (aliased) { ci.label(out_in ? "alias:output=input" : "alias:input=input"); ci.nontrivial = true; } else ci.label("alias:none_inputs_unchanged_only");
  for (int k = 0; k < g.zo; k++) if (out_in && zl(aA.z[k]) > alloc0[k]) ci.label("realloc_while_aliased");
  REQUIRE(rA == rR, "%s: returned values differ between the aliased call and the call with distinct variables", op->name);
  for (int k = 0; k < g.zo; k++) { const char* e = mpz_illformed(aA.z[k]); REQUIRE(!e, "%s: output ill-formed in the aliased call: %s", op->name, e); REQUIRE(zeq(aA.z[k], aR.z[k]), "%s: mpz output %d differs between the aliased call and the call with distinct variables", op->name, k); }
  for (int k = 0; k < g.qo; k++) REQUIRE(zeq(mpq_numref(aA.q[k]), mpq_numref(aR.q[k])) && zeq(mpq_denref(aA.q[k]), mpq_denref(aR.q[k])), "%s: mpq output %d differs between the aliased call and the call with distinct variables", op->name, k);
  for (int k = 0; k < g.fo; k++) {
    if (feq(aA.f[k], aR.f[k])) continue;
    // recorded finding: an in-place call on a variable that holds more than prec+1 limbs (after mpf_set_prec_raw) may leave the excess low limbs in place where
    // the call with a distinct destination truncates to prec+1 limbs: the two results then agree exactly after truncation to the destination precision
    mpf_srcptr fa = aA.f[k], fr = aR.f[k]; size_t na = (size_t)std::abs(fa->_mp_size), nr = (size_t)std::abs(fr->_mp_size), lim = (size_t)fa->_mp_prec + 1;
    bool keeps_excess = na > lim && nr <= lim && nr >= 1 && (fa->_mp_size < 0) == (fr->_mp_size < 0) && fa->_mp_exp == fr->_mp_exp && memcmp(fa->_mp_d + na - nr, fr->_mp_d, nr * 8) == 0;
    if (keeps_excess && nr < lim) for (size_t i = na - lim; i < na - nr; i++) if (fa->_mp_d[i] != 0) keeps_excess = false;
    if (keeps_excess && is_known("mpf-inplace-keeps-excess-limbs")) { ci.excluded.push_back("mpf-inplace-keeps-excess-limbs"); ci.label(op->name); continue; }
    REQUIRE(false, "%s: mpf output %d differs between the aliased call and the call with distinct variables%s", op->name, k, keeps_excess ? " (the in-place result keeps more than prec+1 limbs; truncated to prec+1 limbs the two agree)" : "");
  }
  // operands that are not outputs keep their value (in both calls)
  auto is_out_var = [&](const int* v, int nout, int var) { for (int k = 0; k < nout; k++) if (v[k] == var) return true; return false; };
  for (int k = g.zo; k < nzz; k++) { REQUIRE(int_from_mpz(aR.z[k]) == zv[vz[k]], "%s: input-only mpz operand %d was modified (distinct variables)", op->name, k); if (!is_out_var(vz, g.zo, vz[k])) REQUIRE(int_from_mpz(aA.z[k]) == zv[vz[k]], "%s: input-only mpz operand %d was modified", op->name, k); }
  for (int k = g.qo; k < nqq; k++) { const QV& v = qv[vq[k]]; REQUIRE(int_from_mpz(mpq_numref(aR.q[k])) == v.n && int_from_mpz(mpq_denref(aR.q[k])) == v.d, "%s: input-only mpq operand %d was modified (distinct variables)", op->name, k); if (!is_out_var(vq, g.qo, vq[k])) REQUIRE(int_from_mpz(mpq_numref(aA.q[k])) == v.n && int_from_mpz(mpq_denref(aA.q[k])) == v.d, "%s: input-only mpq operand %d was modified", op->name, k); }
  for (int k = g.fo; k < nff; k++) { mpf_t t; mpf_init2(t, fv[vf[k]].prec); put_f(t, fv[vf[k]]); bool okR = feq(aR.f[k], t), okA = is_out_var(vf, g.fo, vf[k]) || feq(aA.f[k], t); mpf_clear(t); REQUIRE(okR && okA, "%s: input-only mpf operand %d was modified", op->name, k); }
}
// deterministic reproduction of the recorded finding
static void fixed_case(unsigned k, CaseInfo& ci) {
  if (k == 0) {
    mpf_t x, y, r; mpf_init2(x, 192); mpf_init2(y, 192); mpf_init2(r, 64); unsigned long p0 = mpf_get_prec(x);
    for (mpf_ptr v : {x, y}) { v->_mp_d[0] = 0x1111; v->_mp_d[1] = 0x2222; v->_mp_d[2] = 0x3333; v->_mp_d[3] = 5; v->_mp_size = 4; v->_mp_exp = 1; }
    mpf_set_prec_raw(x, 64); ci.desc = "x = 4 limbs (5.3333|2222|1111 in base 2^64), mpf_set_prec_raw(x, 64); mpf_add_ui(x, x, 0) against mpf_add_ui(r, y, 0) with r of 64 bits";
    mpf_add_ui(x, x, 0); mpf_add_ui(r, y, 0); bool same = feq(x, r); int nx = x->_mp_size, nr = r->_mp_size;
    mpf_set_prec_raw(x, p0); mpf_clear(x); mpf_clear(y); mpf_clear(r);
    REQUIRE(same, "mpf_add_ui(x, x, 0) in place leaves %d limbs in a variable of 64-bit precision, the call with a distinct 64-bit destination stores %d limbs: the results differ", nx, nr);
  }
}
namespace eng {
PropDef g_prop = {"C05",
  "Cases: one function from the API table (harness/api_table.hpp; mpf variables in 1 of 4 cases with their precision lowered by mpf_set_prec_raw after the value was stored, so that the value is longer than prec+1 limbs; every mpz/mpq/mpf entry point with at least one output and one same-typed input, or at least two same-typed inputs) x an alias pattern (each input is a fresh variable, the same variable as an earlier input, or the same variable as one of the outputs; outputs are never aliased to each other, as the manual forbids for q/r, root/rem, g/s/t, fn/fnsub1) x operand values (zero, small, powers of two, multi-limb up to the scale cap; canonical rationals; hand-built floats of precisions 64..320 with low zero limbs) x destination allocation state (shrunk to the minimum so the aliased destination must be reallocated, or roomy). mpf: the aliased output has the source's precision in both calls; random functions: the reference call uses an identically seeded state. Oracle (metamorphic): the call with the alias pattern and the call with distinct variables holding the same values give identical outputs and return values; every operand that is not an output is bit-for-bit unchanged afterwards. Non-trivial: a non-empty alias pattern. Distinct = hash of all decoded choices. mpn overlaps permitted by the manual are exercised by C01/C02/C03/C10 (in place, rp=sp+-k).",
  check, nullptr, {"alias:output=input", "alias:input=input", "realloc_while_aliased", "mpz_mul", "mpz_gcdext", "mpz_tdiv_qr", "mpz_powm", "mpq_add", "mpq_mul_2exp", "mpf_add", "mpf_div", "mpf_sqrt", "mpf_operand_longer_than_prec_raw"}, fixed_case};
}
