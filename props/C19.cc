// C19: random numbers stay in range, are reproducible from the seed, copies are equivalent, no gross bias
#include "../harness/gen.hpp"
#include <cmath>
using namespace eng; using namespace gen; using ref::Int;
struct Z { mpz_t z; Z() { mpz_init(z); } ~Z() { mpz_clear(z); } operator mpz_ptr() { return z; } };

// ---- generator kinds -------------------------------------------------------------------------
struct Kind { int k; Int a; uint64_t c; uint64_t m2exp; uint64_t size; Int seed; bool seed_ui; uint64_t seedv; std::string desc; };
static Kind gen_kind(ByteSource& in, CaseInfo& ci) {
  Kind K; K.k = (int)in.pick({5, 3, 4}); K.c = 0; K.m2exp = 0; K.size = 0;
  if (K.k == 0) { K.desc = "mt"; ci.label("kind:mt"); }
  else if (K.k == 1) { // user parameters; a = 5 (mod 8), c odd => full period (others may legitimately be poor: only range/reproducibility are checked for them)
    K.m2exp = in.flag() ? in.range(2, 64) : in.range(32, 300); size_t al = (size_t)((K.m2exp + 63) / 64); Limbs v = limbs(in, al); K.a = ref::tmod(Int::from_limbs(v.data(), al), ref::pow2(K.m2exp));
    if (in.chance(200)) { K.a = ref::shl(ref::tshr(K.a, 3), 3) + Int(5); K.c = in.u64() | 1; } else K.c = in.u64(); if (K.a.is_zero()) K.a = Int(5);
    K.desc = "lc_2exp(m2exp=" + std::to_string(K.m2exp) + ")"; ci.label(K.m2exp < 64 ? "kind:lc_2exp_small" : "kind:lc_2exp"); }
  else { K.size = in.range(1, 128); K.desc = "lc_2exp_size(" + std::to_string(K.size) + ")"; ci.label("kind:lc_2exp_size"); }
  unsigned sk = in.pick({2, 2, 2, 2, 3}); K.seed_ui = in.flag();
  if (sk == 0) K.seed = Int(0); else if (sk == 1) K.seed = Int(1); else if (sk == 2) K.seed = Int::from_u64(~0ull); else if (sk == 3) K.seed = Int::from_u64(in.u64()); else { Limbs v = limbs_nz(in, (size_t)in.range(2, 6)); K.seed = Int::from_limbs(v.data(), v.size()); K.seed_ui = false; ci.label("seed:multi_limb"); }
  K.seedv = K.seed.low(); if (K.seed.size() > 1) K.seed_ui = false; K.desc += K.seed_ui ? " seed_ui=" + std::to_string(K.seedv) : " seed=" + ref::hex(K.seed);
  return K;
}
static void init_state(gmp_randstate_t s, const Kind& K) {
  if (K.k == 0) gmp_randinit_mt(s); else if (K.k == 1) { Z a; mpz_from_int(a, K.a); gmp_randinit_lc_2exp(s, a, K.c, K.m2exp); } else { int ok = gmp_randinit_lc_2exp_size(s, K.size); REQUIRE(ok != 0, "gmp_randinit_lc_2exp_size(%llu) failed although sizes up to 128 are supported", (unsigned long long)K.size); }
  if (K.seed_ui) gmp_randseed_ui(s, K.seedv); else { Z sd; mpz_from_int(sd, K.seed); gmp_randseed(s, sd); }
}
// one draw; returns the value(s) drawn as an Int list (for twin comparison) after checking the range
struct Draw { unsigned f; uint64_t n; Int mod; };
static Draw gen_draw(ByteSource& in) {
  Draw d; d.f = in.pick({5, 5, 2, 2, 2, 2, 2, 2, 2, 2}); unsigned k = in.pick({4, 3, 2, 1});
  static const uint64_t nb[] = {0, 1, 2, 31, 32, 33, 63, 64, 65, 127, 128, 129}; if (k == 0) d.n = nb[in.range(0, 11)]; else if (k == 1) d.n = in.range(0, 700); else if (k == 2) d.n = 19937 + (uint64_t)in.srange(-70, 70); else d.n = in.logrange(1, 60000);
  unsigned mk = in.pick({2, 2, 3, 3, 3}); if (mk == 0) d.mod = Int(1); else if (mk == 1) d.mod = Int(2); else if (mk == 2) d.mod = ref::pow2(in.range(1, 200)) + Int((long long)in.srange(-1, 1)); else if (mk == 3) d.mod = Int::from_u64(in.u64() | 1); else { Limbs v = limbs_nz(in, (size_t)in.range(1, 6)); d.mod = Int::from_limbs(v.data(), v.size()); }
  if (d.mod.is_zero() || d.mod.neg) d.mod = Int(3);
  return d;
}
static const char* FN[] = {"mpz_urandomb", "mpz_urandomm", "mpz_rrandomb", "mpn_urandomb", "mpn_urandomm", "mpn_randomb", "mpn_rrandom", "gmp_urandomb_ui", "gmp_urandomm_ui", "mpf_urandomb"};
static Int do_draw(gmp_randstate_t s, const Draw& d, CaseInfo* ci) {
  switch (d.f) {
    case 0: { Z r; mpz_urandomb(r, s, d.n); REQUIRE_WF(r, "mpz_urandomb"); Int v = int_from_mpz(r); REQUIRE(!v.neg && v.bits() <= d.n, "mpz_urandomb(n=%llu): result has %llu bits", (unsigned long long)d.n, (unsigned long long)v.bits()); return v; }
    case 1: { Z r, m; mpz_from_int(m, d.mod); bool alias = (d.n & 1); mpz_ptr o = alias ? m.z : r.z; mpz_urandomm(o, s, m); REQUIRE_WF(o, "mpz_urandomm"); Int v = int_from_mpz(o); REQUIRE(!v.neg && v < d.mod, "mpz_urandomm: result not in [0, n-1] (n has %llu bits)", (unsigned long long)d.mod.bits()); if (ci && alias) ci->label("urandomm:rop==n"); return v; }
    case 2: { Z r; mpz_rrandomb(r, s, d.n); REQUIRE_WF(r, "mpz_rrandomb"); Int v = int_from_mpz(r); REQUIRE(!v.neg && v.bits() <= d.n, "mpz_rrandomb(n=%llu): result has %llu bits", (unsigned long long)d.n, (unsigned long long)v.bits()); return v; }
    case 3: { uint64_t n = d.n ? d.n : 1; size_t ln = (size_t)((n + 63) / 64); Guarded g(ln); mpn_urandomb(g.p(), s, n); REQUIRE(g.intact(), "mpn_urandomb: wrote outside ceil(n/64) limbs"); Int v = Int::from_limbs(g.p(), ln); REQUIRE(v.bits() <= n, "mpn_urandomb(n=%llu): result has %llu bits", (unsigned long long)n, (unsigned long long)v.bits()); return v; }
    case 4: { size_t ln = d.mod.size(); Guarded g(ln); mpn_urandomm(g.p(), s, d.mod.m.data(), ln); REQUIRE(g.intact(), "mpn_urandomm: wrote outside n limbs"); Int v = Int::from_limbs(g.p(), ln); REQUIRE(v < d.mod, "mpn_urandomm: result >= modulus"); return v; }
    case 5: case 6: { size_t ln = (size_t)(d.n % 40) + 1; Guarded g(ln); if (d.f == 5) mpn_randomb(g.p(), s, ln); else mpn_rrandom(g.p(), s, ln); REQUIRE(g.intact(), "%s: wrote outside n limbs", FN[d.f]); REQUIRE(g.p()[ln - 1] != 0, "%s(n=%zu): top limb is zero", FN[d.f], ln); return Int::from_limbs(g.p(), ln); }
    case 7: { uint64_t n = d.n % 65; uint64_t v = gmp_urandomb_ui(s, n); REQUIRE(n == 64 || v < (1ull << n), "gmp_urandomb_ui(%llu): returned 0x%llx", (unsigned long long)n, (unsigned long long)v); return Int::from_u64(v); }
    case 8: { uint64_t n = d.mod.low() ? d.mod.low() : 7; uint64_t v = gmp_urandomm_ui(s, n); REQUIRE(v < n, "gmp_urandomm_ui(%llu): returned %llu", (unsigned long long)n, (unsigned long long)v); return Int::from_u64(v); }
    default: { uint64_t n = d.n % 2000 + 1; mpf_t f; mpf_init2(f, n);
      // the request may be smaller or larger than the variable holds (then at most its precision is used), or zero; the variable holds an old value
      uint64_t sel = d.mod.low() % 8, nbits = sel == 0 ? 0 : sel == 1 ? n / 2 : sel == 2 ? n + 64 : sel == 3 ? 64 * ((uint64_t)f->_mp_prec + 1) + 1 : sel == 4 ? 3 * n + 200 : n;
      for (long i = 0; i <= f->_mp_prec; i++) f->_mp_d[i] = 0x5a5a5a5a5a5a5a5aull ^ d.mod.low(); f->_mp_size = (int)f->_mp_prec + 1; f->_mp_exp = 0; if (ci && nbits != n) ci->label(nbits == 0 ? "mpf_urandomb:zero_bits" : nbits > n ? "mpf_urandomb:more_bits_than_precision" : "mpf_urandomb:fewer_bits");
      // the same draw from a copy of the state into a variable with a different old value must give the same result (nbits = 0 means full precision in this library)
      gmp_randstate_t s2; gmp_randinit_set(s2, s); mpf_t f2; mpf_init2(f2, n); for (long i = 0; i <= f2->_mp_prec; i++) f2->_mp_d[i] = ~0ull; f2->_mp_size = -1; f2->_mp_exp = 7;
      mpf_urandomb(f, s, nbits); mpf_urandomb(f2, s2, nbits); bool same = f->_mp_size == f2->_mp_size && f->_mp_exp == f2->_mp_exp && (f->_mp_size <= 0 || !memcmp(f->_mp_d, f2->_mp_d, (size_t)f->_mp_size * 8)); mpf_clear(f2); gmp_randclear(s2);
      REQUIRE(same, "mpf_urandomb(nbits=%llu, precision %llu): the result depends on the old value of the destination (two equal states, two destinations)", (unsigned long long)nbits, (unsigned long long)n);
      if (nbits != 0 && nbits < n && f->_mp_size != 0) { Int mm = Int::from_limbs((const uint64_t*)f->_mp_d, (size_t)f->_mp_size, false); long lowbit = 64 * ((long)f->_mp_exp - (long)f->_mp_size); uint64_t tz = 0; while (!ref::mtest(mm.m, tz)) tz++; REQUIRE(lowbit + (long)tz >= -(long)(nbits + 63) / 64 * 64, "mpf_urandomb(nbits=%llu): the result has bits below 2^-%llu (rounded up to whole limbs)", (unsigned long long)nbits, (unsigned long long)((nbits + 63) / 64 * 64)); } int sz = f->_mp_size; size_t l = sz < 0 ? -sz : sz; Int m = Int::from_limbs((const uint64_t*)f->_mp_d, l, sz < 0); long e = f->_mp_exp; bool ok = sz >= 0 && (l == 0 || (e <= 0 || (e == 0))) ; bool lt1 = l == 0 || e <= 0; bool topnz = l == 0 || f->_mp_d[l - 1] != 0; bool zeroexp = l != 0 || e == 0; mpf_clear(f);
      REQUIRE(ok && lt1, "mpf_urandomb(nbits=%llu, precision %llu): result not in [0,1) (size %d, exp %ld)", (unsigned long long)nbits, (unsigned long long)n, sz, e); REQUIRE(l <= (size_t)((n + 63) / 64) + 2, "mpf_urandomb: more limbs than the precision allows"); REQUIRE(topnz && zeroexp, "mpf_urandomb: result violates the mpf format rules"); return ref::shl(m, 0) + Int((long long)e) * ref::pow2(70000); }
  }
}
static void case_history(ByteSource& in, CaseInfo& ci) {
  Kind K = gen_kind(in, ci); gmp_randstate_t A, B; init_state(A, K); bool twin_now = in.flag(); bool haveB = false; if (twin_now) { init_state(B, K); haveB = true; ci.label("twin:same_seed"); }
  size_t steps = (size_t)in.range(1, 14), copy_at = (size_t)in.range(0, steps); ci.nontrivial = steps >= 2; ci.d("history %s steps=%zu twin=%s :", K.desc.c_str(), steps, twin_now ? "same-seed" : "randinit_set");
  struct Cl { __gmp_randstate_struct* a; __gmp_randstate_struct* b; bool* hb; ~Cl() { gmp_randclear(a); if (*hb) gmp_randclear(b); } } cl{A, B, &haveB};
  for (size_t i = 0; i < steps; i++) {
    if (!twin_now && i == copy_at) { gmp_randinit_set(B, A); haveB = true; ci.label("twin:randinit_set"); }
    Draw d = gen_draw(in);
    // mpz_urandomm, mpn_urandomm, mpn_randomb and mpn_rrandom draw again until the value is acceptable: with user supplied
    // linear congruential parameters that are not full period (or a tiny modulus) the stream can be constant and the loop
    // never ends; the manual allows such parameters to be poor, so those calls are only made on sound generators
    bool sound = K.k != 1 || (K.a.low() % 8 == 5 && (K.c & 1) && K.m2exp >= 32);
    if (!sound && (d.f == 1 || d.f == 4 || d.f == 5 || d.f == 6 || d.f == 8)) { d.f = d.f == 8 ? 7 : 0; ci.label("rejection_loop_calls_replaced_for_poor_lc"); }
    ci.label(FN[d.f]); ci.d(" %s(n=%llu)", FN[d.f], (unsigned long long)d.n); if (d.f == 0 && d.n >= 19900 && d.n <= 20010) ci.label("mt_refill_boundary_request");
    Int va = do_draw(A, d, &ci);
    if (haveB) { Int vb = do_draw(B, d, nullptr); REQUIRE(va == vb, "step %zu (%s): a state and its %s produced different values for the same call sequence (%s)", i, FN[d.f], twin_now ? "same-algorithm same-seed twin" : "gmp_randinit_set copy", K.desc.c_str()); }
  }
}
// ---- statistics: not grossly non-uniform in value or in any single bit ---------------------------
static void case_stats(ByteSource& in, CaseInfo& ci) {
  Kind K = gen_kind(in, ci); if (K.k == 1 && !(K.a.low() % 8 == 5 && (K.c & 1) && K.m2exp >= 32)) { K.k = 2; K.size = in.range(1, 128); K.desc = "lc_2exp_size(" + std::to_string(K.size) + ")"; }
  gmp_randstate_t S; init_state(S, K); struct Cl { __gmp_randstate_struct* a; ~Cl() { gmp_randclear(a); } } cl{S};
  unsigned shape = in.pick({3, 2, 2, 3}); const unsigned N = 16384; ci.label("statistics"); ci.nontrivial = true; ci.mixin_count = N;
  if (shape == 0 || shape == 1) { // n-bit draws: chi-square of the top 8 and low 8 bits, per-bit frequency
    uint64_t n = shape == 0 ? (uint64_t[]){8, 16, 32, 64, 100, 128}[in.range(0, 5)] : in.range(8, 200); ci.d("stats %s mpz_urandomb n=%llu x%u", K.desc.c_str(), (unsigned long long)n, N);
    std::vector<unsigned> top(256, 0), low(256, 0); std::vector<unsigned> bit(n, 0); Z r;
    for (unsigned i = 0; i < N; i++) { mpz_urandomb(r, S, n); Int v = int_from_mpz(r); REQUIRE(v.bits() <= n, "mpz_urandomb out of range"); low[v.low() & 255]++; top[ref::tshr(v, n - 8).low() & 255]++; for (uint64_t b = 0; b < n; b++) if (ref::mtest(v.m, b)) bit[b]++; }
    double e = N / 256.0, c1 = 0, c2 = 0; for (int i = 0; i < 256; i++) { c1 += (top[i] - e) * (top[i] - e) / e; c2 += (low[i] - e) * (low[i] - e) / e; }
    REQUIRE(c1 < 620 && c2 < 620, "%s: chi-square of the %s 8 bits over %u draws of %llu bits is %.0f (255 degrees of freedom; alarm level 620)", K.desc.c_str(), c1 >= 620 ? "top" : "low", N, (unsigned long long)n, std::max(c1, c2));
    for (uint64_t b = 0; b < n; b++) REQUIRE(std::abs((int)bit[b] - (int)N / 2) <= 8 * 64, "%s: bit %llu of %llu-bit draws is set in %u of %u draws", K.desc.c_str(), (unsigned long long)b, (unsigned long long)n, bit[b], N); }
  else if (shape == 2) { // values modulo m: chi-square over 16 equal bins of [0,m)
    unsigned mk = in.pick({3, 3, 3, 1, 2}); Int M;
    if (mk == 0) M = Int::from_u64(in.range(16, 100000)); else if (mk == 1) M = ref::pow2(in.range(10, 150)) + Int((long long)in.range(0, 1000));
    else if (mk == 2) { M = ref::pow2(64 * in.range(1, 3)) + Int::from_u64(in.u64() | (in.flag() ? 1ull << 63 : 1)); ci.label("urandomm:top_limb_one_low_limb_nonzero"); }   // B^j + r: only the top and the lowest limb are non-zero
    else if (mk == 3) M = ref::pow2(64 * in.range(1, 3) + in.range(0, 63)) + Int::from_u64(in.u64() | 1);
    else M = in.flag() ? ref::pow2(in.range(10, 200)) * Int(3) : ref::pow2(in.range(10, 200)) - Int(1);
    Z r, m; mpz_from_int(m, M); ci.d("stats %s mpz_urandomm m=%s x%u", K.desc.c_str(), ref::hex(M).c_str(), N);
    std::vector<unsigned> bin(16, 0); for (unsigned i = 0; i < N; i++) { mpz_urandomm(r, S, m); Int v = int_from_mpz(r); REQUIRE(!v.neg && v < M, "mpz_urandomm out of range"); bin[ref::tdiv(v * Int(16), M).low()]++; }
    // expected count of bin i: N * #{v in [0,M): floor(16v/M) = i} / M; the bins hold unequally many values when 16 does not divide M, which matters for small M
    // (found by the fuzzer: m = 58 has bins of 3 and 4 values and gave chi-square 162 against equal expectations); above 2^40 the difference is below 2^-36
    double ex[16]; if (M.bits() <= 40) { uint64_t mm = M.low(); for (int i = 0; i < 16; i++) { uint64_t lo = (i * mm + 15) / 16, hi = ((i + 1) * mm + 15) / 16; ex[i] = (double)N * (double)(hi - lo) / (double)mm; } } else for (int i = 0; i < 16; i++) ex[i] = N / 16.0;
    double c = 0; for (int i = 0; i < 16; i++) c += (bin[i] - ex[i]) * (bin[i] - ex[i]) / ex[i]; REQUIRE(c < 130, "%s: chi-square of mpz_urandomm over 16 bins is %.0f (15 degrees of freedom; alarm level 130)", K.desc.c_str(), c); }
  else { // 1-bit draws: a linear congruential generator must not expose its short-period low bits
    const unsigned L = 4096; std::vector<unsigned char> s(L); unsigned ones = 0; for (unsigned i = 0; i < L; i++) { s[i] = (unsigned char)gmp_urandomb_ui(S, 1); ones += s[i]; } ci.d("stats %s 1-bit draws x%u", K.desc.c_str(), L); ci.label("one_bit_stream");
    REQUIRE(std::abs((int)ones - (int)L / 2) <= 8 * 32, "%s: %u of %u one-bit draws are 1", K.desc.c_str(), ones, L);
    for (unsigned p = 1; p <= 1024; p++) { bool per = true; for (unsigned i = 0; i + p < L && per; i++) if (s[i] != s[i + p]) per = false; REQUIRE(!per, "%s: the stream of 1-bit draws has period %u (weak low-order bits of the recurrence reach the caller)", K.desc.c_str(), p); } }
}
// deterministic case: seeds whose scrambled form (seed+2)^1074888996 mod 2^19937-20023, which gmp_randseed stores into the Mersenne Twister buffer, is SHORT
// (its top 32-bit words are zero: probability 2^-32 per word for an arbitrary seed), so that the code that fills the rest of the buffer runs.  The seeds are
// constructed as roots: gcd(1074888996, p-1) = 12, so seed+2 = u^d with d = (1074888996/12)^-1 mod (p-1) is scrambled to u^12.  MPIR's own mpz_powm / mpz_invert are
// used only to AIM (the construction is verified with mpz_powm_ui; if it fails the seed is merely an ordinary one); the oracle is the property itself: states
// with different histories (fresh / used before / seeded with something else before) that are seeded with the same seed must produce the same sequence.
static void fixed_case(unsigned k, CaseInfo& ci) {
  if (k != 0) return;
  ci.desc = "gmp_randseed on Mersenne Twister states with different histories, seeds whose scrambled value has 1, 243 and 620 zero top words";
  Z p, pm1, d, u, s1, chk, t; mpz_set_ui(p.z, 0); mpz_setbit(p.z, 19937); mpz_sub_ui(p.z, p.z, 20023); mpz_sub_ui(pm1.z, p.z, 1); mpz_set_ui(t.z, 1074888996ul / 12);
  REQUIRE(mpz_invert(d.z, t.z, pm1.z) != 0, "harness: 1074888996/12 is not invertible modulo p-1");
  static const unsigned UB[3] = {1658, 1010, 8};   // bits of u: u^12 has about 12*bits bits of the 19936 that fill the buffer
  for (unsigned ui = 0; ui < 3; ui++) {
    mpz_set_ui(u.z, 0); mpz_setbit(u.z, UB[ui] - 1); mpz_add_ui(u.z, u.z, 1234567 + 2 * ui); mpz_powm(s1.z, u.z, d.z, p.z);
    mpz_powm_ui(chk.z, s1.z, 1074888996ul, p.z); mpz_pow_ui(t.z, u.z, 12); bool aimed = mpz_cmp(chk.z, t.z) == 0 && mpz_cmp_ui(s1.z, 2) >= 0; Z seed; mpz_sub_ui(seed.z, s1.z, 2);
    REQUIRE(aimed, "harness: the constructed seed does not scramble to u^12 (no verdict from this case)");
    uint64_t ref[400];
    for (int hist = 0; hist < 4; hist++) { gmp_randstate_t st; gmp_randinit_mt(st);
      if (hist == 1) { Z j; mpz_urandomb(j.z, st, 64 * 1300); } else if (hist == 2) { Z o; mpz_set_ui(o.z, 1); mpz_mul_2exp(o.z, o.z, 19000); mpz_sub_ui(o.z, o.z, 977); gmp_randseed(st, o.z); Z j; mpz_urandomb(j.z, st, 64 * 100); } else if (hist == 3) { gmp_randseed_ui(st, 42); }
      gmp_randseed(st, seed.z);
      for (int i = 0; i < 400; i++) { uint64_t v = gmp_urandomb_ui(st, 64); if (hist == 0) ref[i] = v; else REQUIRE(v == ref[i], "gmp_randseed (Mersenne Twister) with a seed whose scrambled value has about %u zero top words: draw %d after seeding differs between a fresh state and a state that %s before (same seed => same sequence, whatever the state held)", (19936 - 12 * UB[ui]) / 32, i, hist == 1 ? "had produced 1300 limbs" : hist == 2 ? "was seeded with another multi-limb seed and used" : "was seeded with gmp_randseed_ui(42)"); }
      gmp_randclear(st); }
  }
}
static void check(ByteSource& in, CaseInfo& ci) { if (in.pick({30, 1}) == 0) case_history(in, ci); else case_stats(in, ci); }
namespace eng {
PropDef g_prop = {"C19",
  "Cases: (a) histories: a generator of kind mt / lc_2exp(a,c,m2exp 2..300) / lc_2exp_size(1..128) seeded with 0, 1, 2^64-1, random or multi-limb seeds (gmp_randseed or gmp_randseed_ui), then 1..14 draws interleaving mpz_urandomb (n in 0,1,2,31..33,63..65,127..129, around the Mersenne Twister refill boundary 19937+-70, up to 60000), mpz_urandomm (n in 1,2,2^k,2^k+-1,odd limb,multi-limb, rop==n), mpz_rrandomb, mpn_urandomb/urandomm/randomb/rrandom, gmp_urandomb_ui/urandomm_ui, mpf_urandomb; a twin state (same algorithm and seed from the start, or a gmp_randinit_set copy made at a generated point) performs the same calls. (b) statistics batches of 16384 draws (1 in 31 cases): chi-square of the top and low 8 bits, every bit position within 8 sigma, chi-square of mpz_urandomm over 16 bins, and for the linear congruential kinds (table entries and user parameters with a=5 mod 8, c odd, m2exp>=32) the 4096-draw stream of 1-bit values must have no period <= 1024. Oracle: refint range checks (< 2^n, < n, top limb non-zero, 0 <= f < 1), twin equality after every step, fixed acceptance regions with false-alarm probability < 1e-12 per test. Non-trivial: history of >= 2 draws or a statistics batch. Distinct = hash of all decoded choices.",
  check, nullptr, {"kind:mt", "kind:lc_2exp", "kind:lc_2exp_size", "twin:same_seed", "twin:randinit_set", "seed:multi_limb", "statistics", "one_bit_stream", "mt_refill_boundary_request", "urandomm:rop==n", "mpf_urandomb", "mpn_randomb", "urandomm:top_limb_one_low_limb_nonzero", "mpf_urandomb:zero_bits", "mpf_urandomb:more_bits_than_precision"}, fixed_case};
}
