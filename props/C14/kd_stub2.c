/* Symbols referenced only by helpers of tests/refmpn.c that the checker never calls
   (refmpn_get_str, refmpn_random*, refmpn_malloc_limbs_aligned). */
#include <stdlib.h>
char __gmpn_bases[257 * 64];
void __gmpn_random(void) { abort(); }
void __gmpn_random2(void) { abort(); }
void *align_pointer(void) { abort(); }
