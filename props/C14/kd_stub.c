/* C14 layer 1 -- reference-side glue, compiled against the shadow include directory (the tree's
   headers with every HAVE_NATIVE_* removed from config.h, so that only portable code is used).
   c14fb_*: the portable fallback definitions of gmp-impl.h for entry points that have no
   mpn/generic/<name>.c (they expand to mpn_lshift/mpn_rshift/mpn_com_n/mpn_modexact_1c_odd,
   which bind to the generic C objects inside ref.so). */
#include "mpir.h"
#include "gmp-impl.h"
#include "longlong.h"
mp_limb_t c14fb_lshift1(mp_ptr r, mp_srcptr u, mp_size_t n) { return mpn_lshift1(r, u, n); }
mp_limb_t c14fb_rshift1(mp_ptr r, mp_srcptr u, mp_size_t n) { return mpn_rshift1(r, u, n); }
mp_limb_t c14fb_lshift2(mp_ptr r, mp_srcptr u, mp_size_t n) { return mpn_lshift2(r, u, n); }
mp_limb_t c14fb_rshift2(mp_ptr r, mp_srcptr u, mp_size_t n) { return mpn_rshift2(r, u, n); }
mp_limb_t c14fb_double(mp_ptr r, mp_size_t n) { return mpn_double(r, n); }
mp_limb_t c14fb_half(mp_ptr r, mp_size_t n) { return mpn_half(r, n); }
void c14fb_not(mp_ptr r, mp_size_t n) { mpn_not(r, n); }
mp_limb_t c14fb_modexact_1_odd(mp_srcptr u, mp_size_t n, mp_limb_t d) { return mpn_modexact_1_odd(u, n, d); }
/* size limit of the portable mpn_sqr_basecase (fixed stack array) in this reference build */
long c14_sqr_kara_threshold = SQR_KARATSUBA_THRESHOLD;
