/* Standalone demonstration: shipped kernel mpn/x86_64/haswell/nsumdiff_n.as vs portable
   mpn/generic/nsumdiff_n.c on a legal input (n=1, no overlap).
   Build (from the MPIR tree top, configured):
     yasm -I . -f elf64 -D PIC -o /var/tmp/k.o mpn/x86_64/haswell/nsumdiff_n.as
     objcopy --redefine-sym __gmpn_nsumdiff_n=kernel_nsumdiff_n /var/tmp/k.o
     gcc -I. -DHAVE_CONFIG_H -D__GMP_WITHIN_GMP nsumdiff_finding.c mpn/generic/nsumdiff_n.c \
         mpn/generic/add_n.c mpn/generic/sub_n.c /var/tmp/k.o -o /var/tmp/nsd && /var/tmp/nsd   */
#include <stdio.h>
#include "mpir.h"
#include "gmp-impl.h"
mp_limb_t kernel_nsumdiff_n(mp_ptr, mp_ptr, mp_srcptr, mp_srcptr, mp_size_t);
int main(void){
  mp_limb_t x[1]={~(mp_limb_t)0}, y[1]={2}, s1[1],d1[1],s2[1],d2[1];
  mp_limb_t rk = kernel_nsumdiff_n(s1,d1,x,y,1);
  mp_limb_t rg = mpn_nsumdiff_n(s2,d2,x,y,1);      /* generic C */
  printf("kernel : s=%016lx d=%016lx ret=%lu\n", s1[0], d1[0], rk);
  printf("generic: s=%016lx d=%016lx ret=%lu\n", s2[0], d2[0], rg);
  /* documented meaning: 2*(carry(x+y) + borrow(-(x+y))) + borrow(x-y) = 2*(1+1)+0 = 4 */
  return rk != rg;
}
