// C14 layer 1 -- own restatements (plain C++ / unsigned __int128, written from the documented
// meaning of each routine, NOT copied from the tree) and the table of operations.
// Every own_* function has exactly the prototype of the mpn routine it restates, copies its
// inputs first (so it is correct for every permitted overlap) and is called through F8.
#include <cmath>

namespace own {
static V cp(const U *p, long n) { return V(p, p + n); }
// r = u + v + cin  (sub: u - v - cin); returns carry/borrow out
static U aors(U *r, const V &u, const V &v, long n, U cin, bool sub) {
  U c = cin;
  for (long i = 0; i < n; i++) { if (!sub) { W t = (W)u[i] + v[i] + c; r[i] = (U)t; c = (U)(t >> 64); } else { W t = (W)u[i] - v[i] - c; r[i] = (U)t; c = (U)(t >> 64) & 1; } }
  return c;
}
static V shl(const V &u, long n, unsigned c, U lowin, U &out) { V t(n); out = u[n - 1] >> (64 - c); for (long i = n - 1; i > 0; i--) t[i] = (u[i] << c) | (u[i - 1] >> (64 - c)); t[0] = (u[0] << c) | lowin; return t; }
static V shr(const V &u, long n, unsigned c, U &out) { V t(n); out = u[0] << (64 - c); for (long i = 0; i < n - 1; i++) t[i] = (u[i] >> c) | (u[i + 1] << (64 - c)); t[n - 1] = u[n - 1] >> c; return t; }

static U add_n(U *r, const U *u, const U *v, long n) { return aors(r, cp(u, n), cp(v, n), n, 0, false); }
static U sub_n(U *r, const U *u, const U *v, long n) { return aors(r, cp(u, n), cp(v, n), n, 0, true); }
static U add_nc(U *r, const U *u, const U *v, long n, U c) { return aors(r, cp(u, n), cp(v, n), n, c, false); }
static U sub_nc(U *r, const U *u, const U *v, long n, U c) { return aors(r, cp(u, n), cp(v, n), n, c, true); }
// r = u +- ((v << c) | cin >> (64-c)); return = bits shifted out of v + carry/borrow
static U aorslsh(U *r, const U *u, const U *v, long n, unsigned c, U cin, bool sub) { U out; V t = shl(cp(v, n), n, c, cin >> (64 - c), out); return out + aors(r, cp(u, n), t, n, 0, sub); }
static U addlsh1_n(U *r, const U *u, const U *v, long n) { return aorslsh(r, u, v, n, 1, 0, false); }
static U sublsh1_n(U *r, const U *u, const U *v, long n) { return aorslsh(r, u, v, n, 1, 0, true); }
static U addlsh_n(U *r, const U *u, const U *v, long n, U c) { return aorslsh(r, u, v, n, (unsigned)c, 0, false); }
static U sublsh_n(U *r, const U *u, const U *v, long n, U c) { return aorslsh(r, u, v, n, (unsigned)c, 0, true); }
static U addlsh_nc(U *r, const U *u, const U *v, long n, U c, U ci) { return aorslsh(r, u, v, n, (unsigned)c, ci, false); }
static U sublsh_nc(U *r, const U *u, const U *v, long n, U c, U ci) { return aorslsh(r, u, v, n, (unsigned)c, ci, true); }
// r = (u +- v) >> 1 with the carry/borrow shifted in at the top; return = bit shifted out
static U rsh1aors(U *r, const U *u, const U *v, long n, bool sub) { V t(n); U cy = aors(t.data(), cp(u, n), cp(v, n), n, 0, sub); U low = t[0] & 1, o; V s = shr(t, n, 1, o); s[n - 1] |= cy << 63; memcpy(r, s.data(), n * 8); return low; }
static U rsh1add_n(U *r, const U *u, const U *v, long n) { return rsh1aors(r, u, v, n, false); }
static U rsh1sub_n(U *r, const U *u, const U *v, long n) { return rsh1aors(r, u, v, n, true); }

static U lshift(U *r, const U *u, long n, U c) { U o; V t = shl(cp(u, n), n, (unsigned)c, 0, o); memcpy(r, t.data(), n * 8); return o; }
static U rshift(U *r, const U *u, long n, U c) { U o; V t = shr(cp(u, n), n, (unsigned)c, o); memcpy(r, t.data(), n * 8); return o; }
static U lshiftc(U *r, const U *u, long n, U c) { U o; V t = shl(cp(u, n), n, (unsigned)c, 0, o); for (long i = 0; i < n; i++) r[i] = ~t[i]; return o; }
template <int K> static U lshiftK(U *r, const U *u, long n) { return lshift(r, u, n, K); }
template <int K> static U rshiftK(U *r, const U *u, long n) { return rshift(r, u, n, K); }
static U dbl(U *r, long n) { return lshift(r, r, n, 1); }
static U half(U *r, long n) { return rshift(r, r, n, 1); }
static U notf(U *r, long n) { for (long i = 0; i < n; i++) r[i] = ~r[i]; return 0; }
static U com_n(U *r, const U *u, long n) { V t = cp(u, n); for (long i = 0; i < n; i++) r[i] = ~t[i]; return 0; }
static U copy(U *r, const U *u, long n) { V t = cp(u, n); memcpy(r, t.data(), n * 8); return 0; }
static U store(U *r, long n, U val) { for (long i = 0; i < n; i++) r[i] = val; return 0; }
template <int K> static U logic(U *r, const U *u, const U *v, long n) {
  V a = cp(u, n), b = cp(v, n);
  for (long i = 0; i < n; i++) { U x = a[i], y = b[i];
    r[i] = K == 0 ? (x & y) : K == 1 ? (x & ~y) : K == 2 ? ~(x & y) : K == 3 ? (x | y) : K == 4 ? (x | ~y) : K == 5 ? ~(x | y) : K == 6 ? (x ^ y) : ~(x ^ y); }
  return 0;
}
static U popcount(const U *u, long n) { U t = 0; for (long i = 0; i < n; i++) t += __builtin_popcountll(u[i]); return t; }
static U hamdist(const U *u, const U *v, long n) { U t = 0; for (long i = 0; i < n; i++) t += __builtin_popcountll(u[i] ^ v[i]); return t; }

// r = [r +-] u*v + c, return carry (borrow) limb.  mode 0 mul, 1 addmul, 2 submul
static U muls(U *r, const V &u, long n, U v, U c, int mode) {
  for (long i = 0; i < n; i++) { W p = (W)u[i] * v + c; U lo = (U)p; c = (U)(p >> 64);
    if (mode == 0) r[i] = lo; else if (mode == 1) { U s = r[i] + lo; c += s < lo; r[i] = s; } else { U s = r[i] - lo; c += r[i] < lo; r[i] = s; } }
  return c;
}
static U mul_1(U *r, const U *u, long n, U v) { return muls(r, cp(u, n), n, v, 0, 0); }
static U addmul_1(U *r, const U *u, long n, U v) { return muls(r, cp(u, n), n, v, 0, 1); }
static U submul_1(U *r, const U *u, long n, U v) { return muls(r, cp(u, n), n, v, 0, 2); }
static U addmul_1c(U *r, const U *u, long n, U v, U c) { return muls(r, cp(u, n), n, v, c, 1); }
static U submul_1c(U *r, const U *u, long n, U v, U c) { return muls(r, cp(u, n), n, v, c, 2); }
// schoolbook product into t (un+vn limbs)
static V mulfull(const V &u, long un, const V &v, long vn) { V t(un + vn, 0); for (long j = 0; j < vn; j++) t[un + j] = muls(t.data() + j, u, un, v[j], 0, 1); return t; }
// mul_2: {r,n+1} = low n+1 limbs of u*{v,2}, return the top limb
static U mul_2(U *r, const U *u, long n, const U *v) { V t = mulfull(cp(u, n), n, cp(v, 2), 2); memcpy(r, t.data(), (n + 1) * 8); return t[n + 1]; }
// addmul_2: {r,n} += u*{v,2}; r[n] receives (is overwritten by) the next limb, the top limb is returned
static U addmul_2(U *r, const U *u, long n, const U *v) { V t = mulfull(cp(u, n), n, cp(v, 2), 2); V z(n + 2, 0), rr(n + 2, 0); memcpy(rr.data(), r, n * 8); aors(z.data(), t, rr, n + 2, 0, false); memcpy(r, z.data(), (n + 1) * 8); return z[n + 1]; }
static U mul_basecase(U *r, const U *u, long un, const U *v, long vn) { V t = mulfull(cp(u, un), un, cp(v, vn), vn); memcpy(r, t.data(), (un + vn) * 8); return 0; }
static U sqr_basecase(U *r, const U *u, long n) { return mul_basecase(r, u, n, u, n); }
static U mullow_n_basecase(U *r, const U *u, const U *v, long n) { V t = mulfull(cp(u, n), n, cp(v, n), n); memcpy(r, t.data(), n * 8); return 0; }  // only the low n limbs are defined
// mulmid: sum of u[i]*v[j]*B^(i+j-vn+1) over vn-1 <= i+j <= un-1, un-vn+3 limbs
static U mulmid_basecase(U *r, const U *u, long un, const U *v, long vn) {
  V a = cp(u, un), b = cp(v, vn); long rn = un - vn + 3; V t(rn, 0);
  for (long i = 0; i < un; i++) for (long j = 0; j < vn; j++) { long k = i + j - (vn - 1); if (k < 0 || i + j > un - 1) continue;
    W p = (W)a[i] * b[j]; U add[2] = {(U)p, (U)(p >> 64)}; U c = 0;
    for (long q = 0; k + q < rn; q++) { W s = (W)t[k + q] + (q < 2 ? add[q] : 0) + c; t[k + q] = (U)s; c = (U)(s >> 64); if (q >= 1 && !c) break; } }
  memcpy(r, t.data(), rn * 8); return 0;
}
static U addadd_n(U *r, const U *x, const U *y, const U *z, long n) { V t(n); U c = aors(t.data(), cp(x, n), cp(y, n), n, 0, false); V zz = cp(z, n); c += aors(r, t, zz, n, 0, false); return c; }
static U addsub_n(U *r, const U *x, const U *y, const U *z, long n) { V t(n); U c = aors(t.data(), cp(x, n), cp(y, n), n, 0, false); V zz = cp(z, n); U b = aors(r, t, zz, n, 0, true); return (U)(uint32_t)(int)((long)c - (long)b); }
static U subadd_n(U *r, const U *x, const U *y, const U *z, long n) { V t(n); U c = aors(t.data(), cp(x, n), cp(y, n), n, 0, true); V zz = cp(z, n); c += aors(r, t, zz, n, 0, true); return c; }
// s = x+y, d = x-y, return 2*carry + borrow;  nsumdiff: s = -(x+y), return 2*(carry + [x+y != 0 mod B^n]) + borrow
static U sumdiff(U *s, U *d, const U *x, const U *y, long n, bool neg) {
  V a = cp(x, n), b = cp(y, n), t(n); U c = aors(t.data(), a, b, n, 0, false), bw = aors(d, a, b, n, 0, true);
  if (neg) { V z(n, 0); c += aors(s, z, t, n, 0, true); } else memcpy(s, t.data(), n * 8);
  return 2 * c + bw;
}
static U sumdiff_n(U *s, U *d, const U *x, const U *y, long n) { return sumdiff(s, d, x, y, n, false); }
static U nsumdiff_n(U *s, U *d, const U *x, const U *y, long n) { return sumdiff(s, d, x, y, n, true); }
// add/sub with error terms: e (2 limbs each) = sum over i of carry_out(i) * y[n-1-i]
static U aors_err(U *r, const U *u, const U *v, U *e, const U *y1, const U *y2, long n, U cy, bool sub) {
  V a = cp(u, n), b = cp(v, n); W e1 = 0, e2 = 0;
  for (long i = 0; i < n; i++) { W t = sub ? (W)a[i] - b[i] - cy : (W)a[i] + b[i] + cy; r[i] = (U)t; cy = (U)(t >> 64) & 1; if (cy) { e1 += y1[n - 1 - i]; if (y2) e2 += y2[n - 1 - i]; } }
  e[0] = (U)e1; e[1] = (U)(e1 >> 64); if (y2) { e[2] = (U)e2; e[3] = (U)(e2 >> 64); }
  return cy;
}
static U add_err1_n(U *r, const U *u, const U *v, U *e, const U *y, long n, U cy) { return aors_err(r, u, v, e, y, nullptr, n, cy, false); }
static U sub_err1_n(U *r, const U *u, const U *v, U *e, const U *y, long n, U cy) { return aors_err(r, u, v, e, y, nullptr, n, cy, true); }
static U add_err2_n(U *r, const U *u, const U *v, U *e, const U *y1, const U *y2, long n, U cy) { return aors_err(r, u, v, e, y1, y2, n, cy, false); }
static U sub_err2_n(U *r, const U *u, const U *v, U *e, const U *y1, const U *y2, long n, U cy) { return aors_err(r, u, v, e, y1, y2, n, cy, true); }
// Karatsuba interpolation: {r,2n} holds L={r,2*n2}, H={r+2*n2,2*n3}; {t,2*n3} = M.  r += (L + H +- M) * B^n2  (mod B^2n)
static U kara(U *r, U *t, long n, bool sub) {
  long n2 = n / 2, n3 = n - n2, w = 2 * n3 + 2; V L(w, 0), H(w, 0), M(w, 0), S(w), S2(w);
  memcpy(L.data(), r, 2 * n2 * 8); memcpy(H.data(), r + 2 * n2, 2 * n3 * 8); memcpy(M.data(), t, 2 * n3 * 8);
  aors(S.data(), L, H, w, 0, false); aors(S2.data(), S, M, w, 0, sub);         // two's complement in w limbs
  U ext = (S2[w - 1] >> 63) ? ~(U)0 : 0; long len = 2 * n - n2; V A(len), R(r + n2, r + 2 * n), O(len);
  for (long i = 0; i < len; i++) A[i] = i < w ? S2[i] : ext;
  aors(O.data(), R, A, len, 0, false); memcpy(r + n2, O.data(), len * 8); return 0;
}
static U karaadd(U *r, U *t, long n) { return kara(r, t, n, false); }
static U karasub(U *r, U *t, long n) { return kara(r, t, n, true); }
// Montgomery reduction step by step: for j<n: q = t[j]*Np; t += q*m*B^j.  c = high half (+ carries); if the sum overflows n limbs subtract m once.
static U redc_1(U *c, U *t, const U *m, long n, U Np) {
  V T(t, t + 2 * n), M = cp(m, n); T.push_back(0);
  for (long j = 0; j < n; j++) { U q = T[j] * Np; U cy = muls(T.data() + j, M, n, q, 0, 1); for (long k = j + n; cy && k <= 2 * n; k++) { U s = T[k] + cy; cy = s < cy; T[k] = s; } }
  V hi(T.begin() + n, T.begin() + 2 * n);
  if (T[2 * n]) aors(c, hi, M, n, 0, true); else memcpy(c, hi.data(), n * 8);
  return 0;
}
static U inv64(U d) { U x = d; for (int i = 0; i < 6; i++) x *= 2 - d * x; return x; }    // d odd: d*x == 1 mod 2^64
// Hensel (2-adic) exact division: x - cin = q*d - ret*B^n with 0 <= q < B^n (unique); q is stored shifted right by s
static U hensel(U *q, const U *x, long n, U d, U cin, unsigned s) {
  V a = cp(x, n), Q(n); U di = inv64(d), c = cin;
  for (long i = 0; i < n; i++) { U l = a[i] - c; U b = a[i] < c; U qq = l * di; Q[i] = qq; c = (U)(((W)qq * d) >> 64) + b; }
  if (q) { if (s) { U o; Q = shr(Q, n, s, o); } memcpy(q, Q.data(), n * 8); }
  return c;
}
static U divexact_byff(U *q, const U *x, long n) { return hensel(q, x, n, ~(U)0, 0, 0); }
static U divexact_byfobm1(U *q, const U *x, long n, U f, U) { return hensel(q, x, n, f, 0, 0); }
static U divexact_by3c(U *q, const U *x, long n, U ci) { return hensel(q, x, n, 3, ci, 0); }
static U divrem_hensel_qr_1(U *q, const U *x, long n, U d) { return hensel(q, x, n, d, 0, 0); }
static U divrem_hensel_r_1(const U *x, long n, U d) { return hensel(nullptr, x, n, d, 0, 0); }
static U rsh_divrem_hensel_qr_1(U *q, const U *x, long n, U d, U s, U cin) { return hensel(q, x, n, d, cin, (unsigned)s); }
// Euclidean division by one limb: {q, n+qxn} = floor(x*B^qxn / d), return remainder
static U div1(U *q, long qxn, const V &a, long n, U d) { U r = 0; for (long i = n + qxn - 1; i >= 0; i--) { W t = ((W)r << 64) | (i >= qxn ? a[i - qxn] : 0); q[i] = (U)(t / d); r = (U)(t % d); } return r; }
static U divrem_euclidean_qr_1(U *q, long qxn, const U *x, long n, U d) { return div1(q, qxn, cp(x, n), n, d); }
static U preinv_divrem_1(U *q, long qxn, const U *x, long n, U d, U, U) { return div1(q, qxn, cp(x, n), n, d); }
// Euclidean division by a normalised two-limb divisor (bit-serial): {q, nn-2+qxn} low quotient limbs, returns the top
// quotient limb (0/1), remainder in np[0..1]
static U div2(U *q, long qxn, U *np, long nn, const U *dp) {
  V a = cp(np, nn); W D = ((W)dp[1] << 64) | dp[0], R = ((W)a[nn - 1] << 64) | a[nn - 2]; U top = 0;
  if (R >= D) { R -= D; top = 1; }
  for (long i = nn - 3 + qxn; i >= 0; i--) { U x = i >= qxn ? a[i - qxn] : 0, qq = 0;
    for (int b = 63; b >= 0; b--) { bool ov = (R >> 127) & 1; R = (R << 1) | ((x >> b) & 1); if (ov || R >= D) { R -= D; qq |= (U)1 << b; } }
    q[i] = qq; }
  np[0] = (U)R; np[1] = (U)(R >> 64); return top;
}
static U divrem_2(U *q, long qxn, U *np, long nn, const U *dp) { return div2(q, qxn, np, nn, dp); }
static U divrem_euclidean_qr_2(U *q, U *xp, long xn, const U *dp) { return div2(q, 0, xp, xn, dp); }
static U modW(const U *x, long n, U d) { U r = 0; for (long i = n - 1; i >= 0; i--) r = (U)((((W)r << 64) | x[i]) % d); return r; }
} // namespace own

// ------------------------------------------------------------------ op table helpers
static void opd(Opd *o, int k, long size, bool dst = false) { o[k].size = size; o[k].dst = dst; }
static void alias(Opd *o, int k, int root, long off = 0) { o[k].alias = root; o[k].aoff = off; }
template <class... A> static U call8(F8 f, A... a) { U v[8] = {0, 0, 0, 0, 0, 0, 0, 0}; U t[] = {(U)a...}; for (size_t i = 0; i < sizeof...(A); i++) v[i] = t[i]; return f(v[0], v[1], v[2], v[3], v[4], v[5], v[6], v[7]); }
#define P(k) ((U)p[k])
static U odd_limb(Rng &r) { return pick_limb(r) | 1; }
static U nonzero_limb(Rng &r) { U d = pick_limb(r); return d ? d : 1; }
static U small_or_any(Rng &r) { U t = r.below(5); return t == 0 ? 1 + r.below(16) : t == 1 ? ((U)1 << r.below(64)) : pick_limb(r); }
static void fillv(Case &c, int k, long n, Rng &r, int style = -1) { fill_style(c.v[k], n, style < 0 ? pick_style(r) : style, r); }

static std::vector<Op> build_ops(long sqrmax, long sqrgeneric) {
  std::vector<Op> ops;
  auto add = [&](Op op) { if (op.sym.empty()) op.sym = "__gmpn_" + op.name; ops.push_back(op); };
  const std::vector<std::string> OV3 = {"none", "rp==up", "rp==vp"}, OV1 = {"none", "rp==up"}, OVP = {"none", "rp==up", "rp<up partial", "rp>up partial"};

  // ---- (rp, up, vp, n [, extra scalars]) : exact overlap of rp with either source permitted
  auto rn2 = [&](const char *name, int ret, void *ownf, const char *gen, const char *refm, int extra /*0 none,1 carry bit,2 shift,3 shift+carry limb*/, const char *dom) {
    Op op; op.name = name; op.ret = ret; op.own = ownf; op.generic = gen; op.refmpn = refm; op.ovnames = OV3; op.domain = dom;
    op.layout = [](const Case &c, Opd *o) { opd(o, 0, c.n, true); opd(o, 2, c.n); opd(o, 3, c.n); if (c.ov == 1) alias(o, 0, 2); if (c.ov == 2) alias(o, 0, 3); };
    op.gen = [extra](Case &c, Rng &r, long) { c.ov = (int)r.below(3); if (extra == 1) c.sc[1] = r.below(2); if (extra >= 2) c.sc[0] = r.range(1, 63); if (extra == 3) c.sc[1] = pick_limb(r); };
    if (extra == 0) op.call = [](F8 f, const Case &c, U **p) { return call8(f, P(0), P(2), P(3), c.n); };
    if (extra == 1) op.call = [](F8 f, const Case &c, U **p) { return call8(f, P(0), P(2), P(3), c.n, c.sc[1]); };
    if (extra == 2) op.call = [](F8 f, const Case &c, U **p) { return call8(f, P(0), P(2), P(3), c.n, c.sc[0]); };
    if (extra == 3) op.call = [](F8 f, const Case &c, U **p) { return call8(f, P(0), P(2), P(3), c.n, c.sc[0], c.sc[1]); };
    add(op);
  };
  const char *D_N = "n>=1; rp==up or rp==vp exactly, or all separate";
  rn2("add_n", 1, (void *)own::add_n, "__gmpn_add_n", "refmpn_add_n", 0, D_N);
  rn2("sub_n", 1, (void *)own::sub_n, "__gmpn_sub_n", "refmpn_sub_n", 0, D_N);
  rn2("add_nc", 1, (void *)own::add_nc, "", "refmpn_add_nc", 1, "n>=1; carry-in 0/1; exact overlaps");
  rn2("sub_nc", 1, (void *)own::sub_nc, "", "refmpn_sub_nc", 1, "n>=1; carry-in 0/1; exact overlaps");
  rn2("addlsh1_n", 1, (void *)own::addlsh1_n, "", "refmpn_addlsh1_n", 0, D_N);
  rn2("sublsh1_n", 1, (void *)own::sublsh1_n, "", "refmpn_sublsh1_n", 0, D_N);
  rn2("rsh1add_n", 1, (void *)own::rsh1add_n, "", "refmpn_rsh1add_n", 0, D_N);
  rn2("rsh1sub_n", 1, (void *)own::rsh1sub_n, "", "refmpn_rsh1sub_n", 0, D_N);
  rn2("addlsh_n", 1, (void *)own::addlsh_n, "", "refmpn_addlsh_n", 2, "n>=1; shift 1..63; exact overlaps");
  rn2("sublsh_n", 1, (void *)own::sublsh_n, "", "refmpn_sublsh_n", 2, "n>=1; shift 1..63; exact overlaps");
  rn2("addlsh_nc", 1, (void *)own::addlsh_nc, "", "refmpn_addlsh_nc", 3, "n>=1; shift 1..63; carry-in any limb (its top `shift` bits enter at the bottom); exact overlaps");
  rn2("sublsh_nc", 1, (void *)own::sublsh_nc, "", "refmpn_sublsh_nc", 3, "n>=1; shift 1..63; carry-in any limb; exact overlaps");
  { const char *nm[8] = {"and_n", "andn_n", "nand_n", "ior_n", "iorn_n", "nior_n", "xor_n", "xnor_n"};
    void *fn[8] = {(void *)own::logic<0>, (void *)own::logic<1>, (void *)own::logic<2>, (void *)own::logic<3>, (void *)own::logic<4>, (void *)own::logic<5>, (void *)own::logic<6>, (void *)own::logic<7>};
    for (int i = 0; i < 8; i++) rn2(nm[i], 0, fn[i], strdup((std::string("__gmpn_") + nm[i]).c_str()), strdup((std::string("refmpn_") + nm[i]).c_str()), 0, D_N); }
  { Op op; op.name = "hamdist"; op.own = (void *)own::hamdist; op.generic = "__gmpn_hamdist"; op.refmpn = "refmpn_hamdist"; op.ovnames = {"none"}; op.domain = "n>=1";
    op.layout = [](const Case &c, Opd *o) { opd(o, 2, c.n); opd(o, 3, c.n); }; op.gen = [](Case &, Rng &, long) {};
    op.call = [](F8 f, const Case &c, U **p) { return call8(f, P(2), P(3), c.n); }; add(op); }
  { Op op; op.name = "popcount"; op.own = (void *)own::popcount; op.generic = "__gmpn_popcount"; op.refmpn = "refmpn_popcount"; op.ovnames = {"none"}; op.domain = "n>=1";
    op.layout = [](const Case &c, Opd *o) { opd(o, 2, c.n); }; op.gen = [](Case &, Rng &, long) {};
    op.call = [](F8 f, const Case &c, U **p) { return call8(f, P(2), c.n); }; add(op); }

  // ---- (rp, up, n [, scalar(s)]) : overlap policy pol: 0 exact only, 1 rp<=up (incr), 2 rp>=up (decr)
  auto rn1 = [&](const char *name, const char *sym, int ret, void *ownf, const char *gen, const char *refm, int pol, int extra /*0,1 shift,2 mult,3 mult+carry,4 carry 0..2,5 odd divisor,6 f|B-1*/, long nmin, const char *dom) {
    Op op; op.name = name; if (sym) op.sym = sym; op.ret = ret; op.own = ownf; op.generic = gen; op.refmpn = refm; op.ovnames = OVP; op.nmin = nmin; op.domain = dom;
    op.layout = [](const Case &c, Opd *o) { opd(o, 0, c.n, true); opd(o, 2, c.n); if (c.ov == 1) alias(o, 0, 2); if (c.ov == 2) alias(o, 0, 2, -c.off); if (c.ov == 3) alias(o, 0, 2, c.off); };
    op.gen = [pol, extra](Case &c, Rng &r, long n) {
      U t = r.below(4); c.ov = t < 2 ? 0 : 1;
      if (pol && n >= 2 && t == 3) { c.ov = pol == 1 ? 2 : 3; c.off = r.coin() ? r.range(1, std::min(3L, n - 1)) : r.range(1, n - 1); }
      if (extra == 1) c.sc[0] = r.range(1, 63);
      if (extra == 2 || extra == 3) c.sc[2] = pick_limb(r);
      if (extra == 3) c.sc[1] = pick_limb(r);
      if (extra == 4) c.sc[1] = r.below(3);
      if (extra == 5) c.sc[3] = odd_limb(r);
      if (extra == 6) { static const U pr[7] = {3, 5, 17, 257, 641, 65537, 6700417}; U f = 1; for (int i = 0; i < 7; i++) if (r.coin()) f *= pr[i]; if (f == 1) f = 3; c.sc[3] = f; c.sc[4] = ~(U)0 / f; }
    };
    switch (extra) {
    case 0: op.call = [](F8 f, const Case &c, U **p) { return call8(f, P(0), P(2), c.n); }; break;
    case 1: op.call = [](F8 f, const Case &c, U **p) { return call8(f, P(0), P(2), c.n, c.sc[0]); }; break;
    case 2: op.call = [](F8 f, const Case &c, U **p) { return call8(f, P(0), P(2), c.n, c.sc[2]); }; break;
    case 3: op.call = [](F8 f, const Case &c, U **p) { return call8(f, P(0), P(2), c.n, c.sc[2], c.sc[1]); }; break;
    case 4: op.call = [](F8 f, const Case &c, U **p) { return call8(f, P(0), P(2), c.n, c.sc[1]); }; break;
    case 5: op.call = [](F8 f, const Case &c, U **p) { return call8(f, P(0), P(2), c.n, c.sc[3]); }; break;
    case 6: op.call = [](F8 f, const Case &c, U **p) { return call8(f, P(0), P(2), c.n, c.sc[3], c.sc[4]); }; break;
    }
    add(op);
  };
  rn1("lshift", 0, 1, (void *)own::lshift, "__gmpn_lshift", "refmpn_lshift", 2, 1, 1, "n>=1; cnt 1..63; overlap only with rp>=up");
  rn1("rshift", 0, 1, (void *)own::rshift, "__gmpn_rshift", "refmpn_rshift", 1, 1, 1, "n>=1; cnt 1..63; overlap only with rp<=up");
  rn1("lshiftc", 0, 1, (void *)own::lshiftc, "", "refmpn_lshiftc", 2, 1, 1, "n>=1; cnt 1..63; overlap only with rp>=up");
  rn1("lshift1", 0, 1, (void *)own::lshiftK<1>, "c14fb_lshift1", "refmpn_lshift1", 0, 0, 1, "n>=1; rp==up or separate");
  rn1("lshift2", 0, 1, (void *)own::lshiftK<2>, "c14fb_lshift2", "refmpn_lshift2", 0, 0, 1, "n>=1; rp==up or separate");
  rn1("rshift1", 0, 1, (void *)own::rshiftK<1>, "c14fb_rshift1", "refmpn_rshift1", 0, 0, 1, "n>=1; rp==up or separate");
  rn1("rshift2", 0, 1, (void *)own::rshiftK<2>, "c14fb_rshift2", "refmpn_rshift2", 0, 0, 1, "n>=1; rp==up or separate");
  // k8/k8only/lshift3..6 export the unmangled names mpn_lshift3.. (never linked into the library); meaning from the asm: lshift by K
  rn1("lshift3", "mpn_lshift3", 1, (void *)own::lshiftK<3>, "", "", 0, 0, 1, "n>=1; rp==up or separate; unlisted helper, reference = own restatement only");
  rn1("lshift4", "mpn_lshift4", 1, (void *)own::lshiftK<4>, "", "", 0, 0, 1, "n>=1; rp==up or separate; own restatement only");
  rn1("lshift5", "mpn_lshift5", 1, (void *)own::lshiftK<5>, "", "", 0, 0, 1, "n>=1; rp==up or separate; own restatement only");
  rn1("lshift6", "mpn_lshift6", 1, (void *)own::lshiftK<6>, "", "", 0, 0, 1, "n>=1; rp==up or separate; own restatement only");
  rn1("copyi", 0, 0, (void *)own::copy, "__gmpn_copyi", "refmpn_copyi", 1, 0, 1, "n>=1; overlap only with rp<=up");
  rn1("copyd", 0, 0, (void *)own::copy, "__gmpn_copyd", "refmpn_copyd", 2, 0, 1, "n>=1; overlap only with rp>=up");
  rn1("com_n", 0, 0, (void *)own::com_n, "__gmpn_com_n", "refmpn_com_n", 0, 0, 1, "n>=1; rp==up or separate");
  rn1("mul_1", 0, 1, (void *)own::mul_1, "__gmpn_mul_1", "refmpn_mul_1", 1, 2, 1, "n>=1; overlap only with rp<=up");
  rn1("addmul_1", 0, 1, (void *)own::addmul_1, "__gmpn_addmul_1", "refmpn_addmul_1", 0, 2, 1, "n>=1; rp==up or separate");
  rn1("submul_1", 0, 1, (void *)own::submul_1, "__gmpn_submul_1", "refmpn_submul_1", 0, 2, 1, "n>=1; rp==up or separate");
  rn1("addmul_1c", 0, 1, (void *)own::addmul_1c, "", "refmpn_addmul_1c", 0, 3, 1, "n>=1; carry-in any limb; rp==up or separate");
  rn1("submul_1c", 0, 1, (void *)own::submul_1c, "", "refmpn_submul_1c", 0, 3, 1, "n>=1; carry-in any limb; rp==up or separate");
  rn1("divexact_byff", 0, 1, (void *)own::divexact_byff, "__gmpn_divexact_byff", "refmpn_divexact_byff", 0, 0, 1, "n>=1; any x (result defined 2-adically); qp==xp or separate");
  rn1("divexact_by3c", 0, 1, (void *)own::divexact_by3c, "__gmpn_divexact_by3c", "refmpn_divexact_by3c", 0, 4, 1, "n>=1; carry-in 0..2; qp==xp or separate");
  rn1("divexact_byfobm1", 0, 1, (void *)own::divexact_byfobm1, "__gmpn_divexact_byfobm1", "refmpn_divexact_byfobm1", 0, 6, 1, "n>=1; f a divisor of B-1 (product of Fermat-number factors), second scalar (B-1)/f; qp==xp or separate");
  rn1("divrem_hensel_qr_1_1", 0, 1, (void *)own::divrem_hensel_qr_1, "__gmpn_divrem_hensel_qr_1_1", "refmpn_divrem_hensel_qr_1", 0, 5, 1, "n>=1; d odd; qp==xp or separate");
  rn1("divrem_hensel_qr_1_2", 0, 1, (void *)own::divrem_hensel_qr_1, "__gmpn_divrem_hensel_qr_1_2", "refmpn_divrem_hensel_qr_1", 0, 5, 2, "n>=2; d odd; qp==xp or separate");

  // ---- (qp, xp, n, d, s, cin): shifted Hensel quotient
  for (int v = 1; v <= 2; v++) { Op op; op.name = v == 1 ? "rsh_divrem_hensel_qr_1_1" : "rsh_divrem_hensel_qr_1_2"; op.nmin = v == 1 ? 1 : 3; op.own = (void *)own::rsh_divrem_hensel_qr_1;
    op.generic = "__gmpn_" + op.name; op.refmpn = "refmpn_rsh_divrem_hensel_qr_1"; op.ovnames = OV1; op.domain = v == 1 ? "n>=1; d odd; shift 1..63; carry-in < d (as passed by mpn_divrem_1) or any limb; qp==xp or separate" : "n>=3 (tests/devel/try.c minimum); d odd; shift 1..63; carry-in any limb; qp==xp or separate";
    op.layout = [](const Case &c, Opd *o) { opd(o, 0, c.n, true); opd(o, 2, c.n); if (c.ov == 1) alias(o, 0, 2); };
    op.gen = [](Case &c, Rng &r, long) { c.ov = (int)r.below(2); c.sc[3] = odd_limb(r); c.sc[0] = r.range(1, 63); c.sc[1] = r.coin() ? pick_limb(r) % c.sc[3] : pick_limb(r); };
    op.call = [](F8 f, const Case &c, U **p) { return call8(f, P(0), P(2), c.n, c.sc[3], c.sc[0], c.sc[1]); }; add(op); }
  { Op op; op.name = "divrem_hensel_r_1"; op.own = (void *)own::divrem_hensel_r_1; op.generic = "__gmpn_divrem_hensel_r_1"; op.refmpn = "refmpn_divrem_hensel_r_1"; op.ovnames = {"none"}; op.domain = "n>=1; d odd";
    op.layout = [](const Case &c, Opd *o) { opd(o, 2, c.n); }; op.gen = [](Case &c, Rng &r, long) { c.sc[3] = odd_limb(r); };
    op.call = [](F8 f, const Case &c, U **p) { return call8(f, P(2), c.n, c.sc[3]); }; add(op); }

  // ---- modexact_1_odd / 1c_odd: the specification (mpn/generic/modexact_1c_odd.c, tests/devel/try.c validate_modexact_1c_odd)
  // leaves the representative free: r*B^k + a - c == 0 (mod d) for k = n or n-1, r<d when c<d else r<=d.  Kernel and
  // portable C are both checked against that predicate, not bitwise against each other.
  for (int v = 0; v < 2; v++) { Op op; op.name = v ? "modexact_1c_odd" : "modexact_1_odd"; op.generic = v ? "__gmpn_modexact_1c_odd" : "c14fb_modexact_1_odd"; op.generic_exact = false; op.ovnames = {"none"};
    op.domain = "n>=1; d odd; carry any limb; result checked against the documented predicate (representative not unique)";
    op.layout = [](const Case &c, Opd *o) { opd(o, 2, c.n); };
    op.gen = [v](Case &c, Rng &r, long) { c.sc[3] = odd_limb(r); c.sc[1] = v ? (r.coin() ? pick_limb(r) % c.sc[3] : pick_limb(r)) : 0; };
    if (v) op.call = [](F8 f, const Case &c, U **p) { return call8(f, P(2), c.n, c.sc[3], c.sc[1]); }; else op.call = [](F8 f, const Case &c, U **p) { return call8(f, P(2), c.n, c.sc[3]); };
    op.check = [](const Case &c, const V &, U r, const std::vector<std::pair<long, long>> &) -> std::string {
      U d = c.sc[3], cin = c.sc[1]; if (cin < d ? !(r < d) : !(r <= d)) return "remainder out of range";
      U a = own::modW(c.v[2].data(), c.n, d), bk = 1 % d;      // bk = B^(n-1) mod d
      for (long i = 0; i < c.n - 1; i++) bk = (U)((((W)bk) << 64) % d);
      for (int k = 0; k < 2; k++) { U t = (U)(((W)(r % d) * bk + a + (d - cin % d)) % d); if (t == 0) return ""; bk = (U)((((W)bk) << 64) % d); }
      return "r*B^k + a - c != 0 (mod d) for k = n-1 and k = n"; };
    add(op); }

  // ---- in-place (rp, n) and store(rp, n, val)
  auto inplace = [&](const char *name, int ret, void *ownf, const char *gen, const char *refm) { Op op; op.name = name; op.ret = ret; op.own = ownf; op.generic = gen; op.refmpn = refm; op.ovnames = {"in-place"}; op.domain = "n>=1; in place";
    op.layout = [](const Case &c, Opd *o) { opd(o, 0, c.n, true); }; op.gen = [](Case &c, Rng &r, long n) { fillv(c, 0, n, r); };
    op.call = [](F8 f, const Case &c, U **p) { return call8(f, P(0), c.n); }; add(op); };
  inplace("double", 1, (void *)own::dbl, "c14fb_double", "refmpn_double"); inplace("half", 1, (void *)own::half, "c14fb_half", "refmpn_half"); inplace("not", 0, (void *)own::notf, "c14fb_not", "refmpn_not");
  { Op op; op.name = "store"; op.ret = 0; op.own = (void *)own::store; op.refmpn = "refmpn_store"; op.ovnames = {"none"}; op.domain = "n>=1";
    op.layout = [](const Case &c, Opd *o) { opd(o, 0, c.n, true); }; op.gen = [](Case &c, Rng &r, long) { c.sc[2] = pick_limb(r); };
    op.call = [](F8 f, const Case &c, U **p) { return call8(f, P(0), c.n, c.sc[2]); }; add(op); }

  // ---- mul_2 / addmul_2 (rp, up, n, vp): rp has n+1 limbs, the top limb is returned
  for (int v = 0; v < 2; v++) { Op op; op.name = v ? "addmul_2" : "mul_2"; op.nmin = 2; op.own = v ? (void *)own::addmul_2 : (void *)own::mul_2; op.refmpn = v ? "refmpn_addmul_2" : "refmpn_mul_2"; op.ovnames = OV1;
    op.domain = v ? "n>=2; rp (n+1 limbs, limb n is output only) separate from up and vp" : "n>=2; rp (n+1 limbs) == up or separate; vp separate";
    op.layout = [](const Case &c, Opd *o) { opd(o, 0, c.n + 1, true); opd(o, 2, c.n); opd(o, 3, 2); if (c.ov == 1) alias(o, 0, 2); };
    op.gen = [v](Case &c, Rng &r, long n) { c.ov = v ? 0 : (int)(r.below(4) == 0); fillv(c, 0, n + 1, r); };
    op.call = [](F8 f, const Case &c, U **p) { return call8(f, P(0), P(2), c.n, P(3)); }; add(op); }

  // ---- three-source (rp, xp, yp, zp, n)
  auto rn3 = [&](const char *name, int ret, void *ownf) { Op op; op.name = name; op.ret = ret; op.own = ownf; op.generic = std::string("__gmpn_") + name; op.refmpn = std::string("refmpn_") + name; op.ovnames = {"none", "rp==xp", "rp==yp", "rp==zp"};
    op.domain = "n>=1; rp equal to one source or all separate (sources distinct)";
    op.layout = [](const Case &c, Opd *o) { opd(o, 0, c.n, true); opd(o, 2, c.n); opd(o, 3, c.n); opd(o, 4, c.n); if (c.ov) alias(o, 0, 1 + c.ov); };
    op.gen = [](Case &c, Rng &r, long) { c.ov = (int)r.below(4); };
    op.call = [](F8 f, const Case &c, U **p) { return call8(f, P(0), P(2), P(3), P(4), c.n); }; add(op); };
  rn3("addadd_n", 1, (void *)own::addadd_n); rn3("addsub_n", 2, (void *)own::addsub_n); rn3("subadd_n", 1, (void *)own::subadd_n);

  // ---- sumdiff_n / nsumdiff_n (sp, dp, xp, yp, n)
  for (int v = 0; v < 2; v++) { Op op; op.name = v ? "nsumdiff_n" : "sumdiff_n"; op.own = v ? (void *)own::nsumdiff_n : (void *)own::sumdiff_n; op.generic = "__gmpn_" + op.name; op.refmpn = "refmpn_" + op.name;
    op.ovnames = {"none", "sp==xp", "sp==yp", "dp==xp", "dp==yp", "sp==xp,dp==yp", "sp==yp,dp==xp"}; op.domain = "n>=1; sp,dp distinct; each may equal xp or yp exactly";
    op.layout = [](const Case &c, Opd *o) { opd(o, 0, c.n, true); opd(o, 1, c.n, true); opd(o, 2, c.n); opd(o, 3, c.n);
      switch (c.ov) { case 1: alias(o, 0, 2); break; case 2: alias(o, 0, 3); break; case 3: alias(o, 1, 2); break; case 4: alias(o, 1, 3); break; case 5: alias(o, 0, 2); alias(o, 1, 3); break; case 6: alias(o, 0, 3); alias(o, 1, 2); break; } };
    op.gen = [](Case &c, Rng &r, long) { c.ov = r.coin() ? 0 : (int)r.below(7); };
    op.call = [](F8 f, const Case &c, U **p) { return call8(f, P(0), P(1), P(2), P(3), c.n); }; add(op); }

  // ---- add/sub with error terms
  for (int v = 0; v < 4; v++) { bool two = v >= 2, sub = v & 1; Op op; op.name = std::string(sub ? "sub" : "add") + (two ? "_err2_n" : "_err1_n");
    void *of[4] = {(void *)own::add_err1_n, (void *)own::sub_err1_n, (void *)own::add_err2_n, (void *)own::sub_err2_n}; op.own = of[v]; op.generic = "__gmpn_" + op.name; op.ovnames = {"none"};
    op.domain = "n>=1; carry-in 0/1; all operands separate (as in tests/devel/try.c)";
    op.layout = [two](const Case &c, Opd *o) { opd(o, 0, c.n, true); opd(o, 1, two ? 4 : 2, true); opd(o, 2, c.n); opd(o, 3, c.n); opd(o, 4, c.n); if (two) opd(o, 5, c.n); };
    op.gen = [](Case &c, Rng &r, long) { c.sc[1] = r.below(2); };
    if (two) op.call = [](F8 f, const Case &c, U **p) { return call8(f, P(0), P(2), P(3), P(1), P(4), P(5), c.n, c.sc[1]); };
    else op.call = [](F8 f, const Case &c, U **p) { return call8(f, P(0), P(2), P(3), P(1), P(4), c.n, c.sc[1]); };
    add(op); }

  // ---- basecase multiplications (no overlap)
  { Op op; op.name = "mul_basecase"; op.ret = 0; op.quad = 1; op.own = (void *)own::mul_basecase; op.generic = "__gmpn_mul_basecase"; op.refmpn = "refmpn_mul_basecase"; op.ovnames = {"none"}; op.domain = "un>=vn>=1; no overlap; un*vn bounded for run time";
    op.layout = [](const Case &c, Opd *o) { opd(o, 0, c.n + c.m, true); opd(o, 2, c.n); opd(o, 3, c.m); };
    op.gen = [](Case &c, Rng &r, long n) { long cap = std::max(1L, std::min(n, 12000 / n)); c.m = r.below(3) == 0 ? r.range(1, std::min(n, 8L)) : r.range(1, cap); };
    op.call = [](F8 f, const Case &c, U **p) { return call8(f, P(0), P(2), c.n, P(3), c.m); }; add(op); }
  { Op op; op.name = "mulmid_basecase"; op.ret = 0; op.quad = 1; op.own = (void *)own::mulmid_basecase; op.generic = "__gmpn_mulmid_basecase"; op.refmpn = "refmpn_mulmid_basecase"; op.ovnames = {"none"}; op.domain = "un>=vn>=1; rp has un-vn+3 limbs; no overlap";
    op.layout = [](const Case &c, Opd *o) { opd(o, 0, c.n - c.m + 3, true); opd(o, 2, c.n); opd(o, 3, c.m); };
    op.gen = [](Case &c, Rng &r, long n) { long cap = std::max(1L, std::min(n, 12000 / n)); c.m = r.below(3) == 0 ? r.range(std::max(1L, n - 6), n) : r.range(1, cap); if (c.m > cap && n > 110) c.m = cap; };
    op.call = [](F8 f, const Case &c, U **p) { return call8(f, P(0), P(2), c.n, P(3), c.m); }; add(op); }
  { Op op; op.name = "mullow_n_basecase"; op.ret = 0; op.quad = 1; op.nmax = 110; op.own = (void *)own::mullow_n_basecase; op.generic = "__gmpn_mullow_n_basecase"; op.ovnames = {"none"};
    op.domain = "1<=n<=110; rp has 2n limbs of which only the low n are defined (high n are scratch: mpn_mullow_n 'sets 2n limbs'); no overlap";
    op.layout = [](const Case &c, Opd *o) { opd(o, 0, 2 * c.n, true); o[0].scr_lo = c.n; o[0].scr_hi = 2 * c.n; opd(o, 2, c.n); opd(o, 3, c.n); }; op.gen = [](Case &, Rng &, long) {};
    op.call = [](F8 f, const Case &c, U **p) { return call8(f, P(0), P(2), P(3), c.n); }; add(op); }
  // sqr_basecase: the portable routine has a fixed stack array, n <= SQR_KARATSUBA_THRESHOLD of the reference build; above
  // that (up to the largest threshold a build would use the kernel with) the references are generic mul_basecase(u,u) and own
  { Op op; op.name = "sqr_basecase"; op.ret = 0; op.quad = 1; op.nmax = sqrgeneric; op.own = (void *)own::sqr_basecase; op.generic = "__gmpn_sqr_basecase"; op.refmpn = "refmpn_sqr"; op.ovnames = {"none"};
    op.domain = "1<=n<=SQR_KARATSUBA_THRESHOLD of the reference build (stack array in mpn/generic/sqr_basecase.c); no overlap";
    op.layout = [](const Case &c, Opd *o) { opd(o, 0, 2 * c.n, true); opd(o, 2, c.n); }; op.gen = [](Case &, Rng &, long) {};
    op.call = [](F8 f, const Case &c, U **p) { return call8(f, P(0), P(2), c.n); }; add(op);
    if (sqrmax > sqrgeneric) { Op o2 = op; o2.name = "sqr_basecase+"; o2.sym = "__gmpn_sqr_basecase"; o2.generic = ""; o2.nmin = sqrgeneric + 1; o2.nmax = sqrmax;
      o2.domain = "SQR_KARATSUBA_THRESHOLD(reference) < n <= largest SQR_KARATSUBA_THRESHOLD with which a build selects this kernel; references refmpn_sqr and own";
      ops.push_back(o2); } }

  // ---- karaadd / karasub (rp, tp, n): operands built from a real Karatsuba step so that the result fits 2n limbs
  for (int v = 0; v < 2; v++) { Op op; op.name = v ? "karasub" : "karaadd"; op.ret = 0; op.nmin = 8; op.own = v ? (void *)own::karasub : (void *)own::karaadd; op.generic = v ? "c14st_karasub" : "c14st_karaadd"; op.ovnames = {"none"}; op.freemask = 0;
    op.domain = "n>=8 (asm comment); {rp,2n} = xl*yl | xh*yh and {tp,2*n3} = |xh-xl|*|yh-yl| of a real n-limb product with the sign that selects this routine in mpn_kara_mul_n; tp is scratch afterwards";
    op.layout = [](const Case &c, Opd *o) { long n3 = c.n - c.n / 2; opd(o, 0, 2 * c.n, true); opd(o, 1, 2 * n3, true); o[1].scr_lo = 0; o[1].scr_hi = 2 * n3; };
    op.gen = [v](Case &c, Rng &r, long n) {
      long n2 = n / 2, n3 = n - n2;
      // |hi - lo| of an n-limb operand split as in mpn_kara_mul_n (lo zero-extended to n3 limbs); returns the sign
      auto diff = [&](const V &a, V &d) { V lo(a.begin(), a.begin() + n2), hi(a.begin() + n2, a.end()); lo.resize(n3, 0); d.assign(n3, 0);
        if (own::aors(d.data(), hi, lo, n3, 0, true)) { own::aors(d.data(), lo, hi, n3, 0, true); return -1; } return 1; };
      { V x, y, dx, dy; fill_style(x, n, pick_style(r), r); fill_style(y, n, pick_style(r), r);
        int s = diff(x, dx) * diff(y, dy);
        // mpn_kara_mul_n calls karasub when (xh-xl)(yh-yl) >= 0 and karaadd when it is negative (with tp = |..|*|..|).
        // Wrong sign for this routine: flip the sign of xh-xl (for odd n, xh < xl needs a zero top limb), then swap halves.
        if ((s > 0) != (v == 1)) { int sx = diff(x, dx); if (n2 != n3) x[n - 1] = sx > 0 ? 0 : 1; if (diff(x, dx) == sx) std::swap_ranges(x.begin(), x.begin() + n2, x.begin() + n2);
          s = diff(x, dx) * diff(y, dy); }
        bool zero = std::all_of(dx.begin(), dx.end(), [](U t) { return !t; }) || std::all_of(dy.begin(), dy.end(), [](U t) { return !t; });
        if (!zero && (s > 0) != (v == 1)) { fprintf(stderr, "kara generator: sign construction failed\n"); exit(2); }   // M == 0 is legal for both routines
        V xl(x.begin(), x.begin() + n2), xh(x.begin() + n2, x.end()), yl(y.begin(), y.begin() + n2), yh(y.begin() + n2, y.end());
        V L = own::mulfull(xl, n2, yl, n2), H = own::mulfull(xh, n3, yh, n3), M = own::mulfull(dx, n3, dy, n3);
        c.v[0] = L; c.v[0].insert(c.v[0].end(), H.begin(), H.end()); c.v[1] = M; } };
    op.call = [](F8 f, const Case &c, U **p) { return call8(f, P(0), P(1), c.n); }; add(op); }

  // ---- redc_1 (cp, tp, mp, n, Nprim)
  { Op op; op.name = "redc_1"; op.ret = 0; op.quad = 1; op.own = (void *)own::redc_1; op.generic = "__gmpn_redc_1"; op.refmpn = "refmpn_redc_1"; op.ovnames = {"none"}; op.freemask = 0;
    op.domain = "n>=1; modulus odd; Nprim = -1/mp[0] mod B; {tp,2n} any value, clobbered (scratch); no overlap";
    op.layout = [](const Case &c, Opd *o) { opd(o, 0, c.n, true); opd(o, 1, 2 * c.n, true); o[1].scr_hi = 2 * c.n; opd(o, 2, c.n); };
    op.gen = [](Case &c, Rng &r, long n) { fillv(c, 2, n, r); c.v[2][0] |= 1; c.sc[2] = -own::inv64(c.v[2][0]); fillv(c, 1, 2 * n, r); };
    op.call = [](F8 f, const Case &c, U **p) { return call8(f, P(0), P(1), P(2), c.n, c.sc[2]); }; add(op); }

  // ---- mod_1_k (rem, xp, xn, db): db[i] = B^(i+1) mod d
  for (int k = 1; k <= 3; k++) { Op op; op.name = "mod_1_" + std::to_string(k); op.ret = 0; op.nmin = k + 2; op.generic = "__gmpn_" + op.name; op.ovnames = {"none"}; op.freemask = 1u << 2;
    op.domain = "xn>=" + std::to_string(k + 2) + "; (k+1)(d-1) <= B; db[i] = B^(i+1) mod d as produced by mpn_mod_1_k_wrap in mpn/generic/divrem_euclidean_r_1.c; own check: rem[1]*B+rem[0] == x (mod d)";
    op.layout = [k](const Case &c, Opd *o) { opd(o, 0, 2, true); opd(o, 2, c.n); opd(o, 3, k + 1); };
    op.gen = [k](Case &c, Rng &r, long) { U lim = k == 1 ? ((U)1 << 63) + 1 : k == 2 ? ~(U)0 / 3 + 1 : ((U)1 << 62) + 1; U d = small_or_any(r); d %= lim; if (r.below(8) == 0) d = lim - r.below(3); if (d < 1) d = 1; if (d > lim) d = lim; c.sc[3] = d;
      c.v[3].assign(k + 1, 0); U b = 1 % d; for (int i = 0; i <= k; i++) { b = (U)((((W)b) << 64) % d); c.v[3][i] = b; } };
    op.check = [](const Case &c, const V &img, U, const std::vector<std::pair<long, long>> &pos) -> std::string { U d = c.sc[3]; U rem[2] = {img[pos[0].first], img[pos[0].first + 1]};
      return own::modW(rem, 2, d) == own::modW(c.v[2].data(), c.n, d) ? "" : "rem[1]*B+rem[0] is not congruent to x mod d"; };
    op.call = [](F8 f, const Case &c, U **p) { return call8(f, P(0), P(2), c.n, P(3)); }; add(op); }

  // ---- Euclidean divisions
  { Op op; op.name = "divrem_euclidean_qr_1"; op.own = (void *)own::divrem_euclidean_qr_1; op.generic = "__gmpn_divrem_euclidean_qr_1"; op.refmpn = "refmpn_divrem_1"; op.ovnames = OV1;
    op.domain = "n>=1; d != 0; qxn == 0 (ASSERT_ALWAYS in the portable routine); qp==xp or separate";
    op.layout = [](const Case &c, Opd *o) { opd(o, 0, c.n, true); opd(o, 2, c.n); if (c.ov == 1) alias(o, 0, 2); };
    op.gen = [](Case &c, Rng &r, long) { c.ov = (int)(r.below(3) == 0); U d = small_or_any(r); c.sc[3] = d ? d : 1; };
    op.call = [](F8 f, const Case &c, U **p) { return call8(f, P(0), 0, P(2), c.n, c.sc[3]); }; add(op); }
  { Op op; op.name = "preinv_divrem_1"; op.own = (void *)own::preinv_divrem_1; op.generic = "__gmpn_preinv_divrem_1"; op.refmpn = "refmpn_preinv_divrem_1"; op.ovnames = OV1;
    op.domain = "size>=1; xsize 0..4; d != 0; shift = clz(d), dinv = floor((B^2-1)/(d<<shift)) - B; qp==ap only when xsize==0";
    op.layout = [](const Case &c, Opd *o) { opd(o, 0, c.n + c.m, true); opd(o, 2, c.n); if (c.ov == 1) alias(o, 0, 2); };
    op.gen = [](Case &c, Rng &r, long) { c.m = r.below(3) ? 0 : r.range(1, 4); c.ov = (int)(c.m == 0 && r.below(3) == 0); U d = small_or_any(r); if (!d) d = 1; c.sc[3] = d; int s = __builtin_clzll(d); c.sc[0] = s; U dn = d << s; c.sc[4] = (U)((~(W)0 / dn) - ((W)1 << 64)); };
    op.call = [](F8 f, const Case &c, U **p) { return call8(f, P(0), c.m, P(2), c.n, c.sc[3], c.sc[4], c.sc[0]); }; add(op); }
  for (int v = 0; v < 2; v++) { Op op; op.name = v ? "divrem_euclidean_qr_2" : "divrem_2"; op.nmin = 2; op.own = v ? (void *)own::divrem_euclidean_qr_2 : (void *)own::divrem_2; op.generic = "__gmpn_" + op.name; op.ovnames = {"none"}; op.freemask = 0;
    op.domain = v ? "xn>=2; divisor 2 limbs, top bit set; quotient xn-2 limbs; remainder returned in xp[0..1], other limbs of xp unspecified; no overlap" : "nn>=2; qxn 0..3; divisor 2 limbs, top bit set; remainder in np[0..1], other limbs of np unspecified; no overlap";
    // operand 1 = np/xp (in/out: low two limbs = remainder, rest scratch), operand 0 = quotient
    op.layout = [](const Case &c, Opd *o) { opd(o, 0, c.n - 2 + c.m, true); opd(o, 1, c.n, true); o[1].scr_lo = 2; o[1].scr_hi = c.n; opd(o, 2, 2); };
    op.gen = [v](Case &c, Rng &r, long n) { c.m = v ? 0 : (r.below(3) ? 0 : r.range(1, 3)); fillv(c, 1, n, r); fillv(c, 2, 2, r); c.v[2][1] |= (U)1 << 63;
      if (r.below(4) == 0) { c.v[1][n - 1] = c.v[2][1]; if (r.coin()) c.v[1][n - 2] = c.v[2][0] - r.below(2); }       // quotient-estimate corner: high limbs equal the divisor's
      if (n >= 3 && r.below(4) == 0) for (long i = 0; i + 1 < n; i += 2) { c.v[1][i + 1] = c.v[2][1] - (i == 0); c.v[1][i] = ~(U)0; } };
    if (v) op.call = [](F8 f, const Case &c, U **p) { return call8(f, P(0), P(1), c.n, P(2)); }; else op.call = [](F8 f, const Case &c, U **p) { return call8(f, P(0), c.m, P(1), c.n, P(2)); };
    add(op); }
  return ops;
}
