/* C14 layer 3, fat build: print every word of __gmpn_cpuvec after initialisation; props/C14_run.py resolves the
   words that are code addresses to symbols (nm) and checks the kernel directory suffix of each against the
   path that the tree's own configure.ac gives for the CPU name printed by the tree's config.guess. */
#include <stdio.h>
#include <string.h>
#include "mpir.h"
struct cpuvec_t;            /* opaque here: we only read its words */
extern char __gmpn_cpuvec[];  /* really struct cpuvec_t */
int main(int argc, char** argv) {
  mp_limb_t a[4] = {1, 2, 3, 4}, b[4] = {5, 6, 7, 8}, r[8];
  mpn_add_n(r, a, b, 4);      /* first call runs __gmpn_cpuvec_init */
  mpn_mul_n(r, a, b, 4);
  unsigned long n = argc > 1 ? strtoul(argv[1], 0, 10) : 0, i;
  for (i = 0; i < n / sizeof(void*); i++) { void* p; memcpy(&p, __gmpn_cpuvec + i * sizeof(void*), sizeof p); printf("%lu %p\n", i, p); }
  return 0;
}
