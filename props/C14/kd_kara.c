/* Exposes the portable (static) mpn_karaadd / mpn_karasub of <tree>/mpn/generic/mul_n.c.
   Built into its own kara.so together with generic add_n/sub_n; the other functions of mul_n.c
   (mpn_mul_n, ...) reference toom/fft code that is not linked: the library is loaded lazily and
   those functions are never called. */
#include C14_MUL_N_C
void c14st_karaadd(mp_ptr r, mp_ptr t, mp_size_t n) { mpn_karaadd(r, t, n); }
void c14st_karasub(mp_ptr r, mp_ptr t, mp_size_t n) { mpn_karasub(r, t, n); }
