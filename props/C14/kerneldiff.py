#!/usr/bin/env python3
"""C14 layer 1: kernel differential checker for MPIR's x86-64 assembly kernels.

  kerneldiff.py --repo <tree> --tier quick|thorough --seed N --out result.json
                [--replay file] [--workdir dir] [--jobs N] [--only substr]

Every *.as / *.asm under <tree>/mpn/x86_64 (except fat/) is assembled standalone into its own
shared object and each exported entry point is compared, on generated inputs, with
  generic : the portable C routine of the same name compiled from <tree>/mpn/generic
            (headers from the tree, config.h with all HAVE_NATIVE_* removed),
  refmpn  : the tree's reference implementation tests/refmpn.c,
  own     : an independent unsigned __int128 restatement (kd_ops.hpp).
Exit: 0 all agree, 1 mismatch, 2 harness fault.  See README.md.
"""
import argparse, ctypes, hashlib, json, os, re, shutil, subprocess, sys, threading, time
from concurrent.futures import ThreadPoolExecutor

HERE = os.path.dirname(os.path.abspath(__file__))
CACHE = "/verif/.cache/kern"
RECIPE = "c14-kd-v3"          # bump to invalidate cached objects
GENERIC = """add_err1_n add_err2_n add_n addadd_n addmul_1 addsub_n and_n andn_n com_n copyd copyi divexact_by3c
 divexact_byff divexact_byfobm1 divrem_2 divrem_euclidean_qr_1 divrem_euclidean_qr_2 divrem_hensel_qr_1_1
 divrem_hensel_qr_1_2 divrem_hensel_r_1 hamdist ior_n iorn_n lshift mod_1_1 mod_1_2 mod_1_3 modexact_1c_odd mul_1
 mul_basecase mullow_n_basecase mulmid_basecase nand_n nior_n nsumdiff_n popcount preinv_divrem_1 redc_1
 rsh_divrem_hensel_qr_1_1 rsh_divrem_hensel_qr_1_2 rshift sqr_basecase sub_err1_n sub_err2_n sub_n subadd_n submul_1
 sumdiff_n xnor_n xor_n""".split()
SUPPORT_TOP = ["memory.c", "assert.c", "mp_minv_tab.c"]     # everything else the generic routines need


class Fault(Exception):
    pass


def sh(cmd, cwd=None, env=None, inp=None):
    p = subprocess.run(cmd, cwd=cwd, env=env, input=inp, stdout=subprocess.PIPE, stderr=subprocess.PIPE)
    return p.returncode, p.stdout, p.stderr.decode(errors="replace")


def hkey(*parts):
    h = hashlib.sha256()
    for p in parts:
        h.update(p if isinstance(p, bytes) else str(p).encode()); h.update(b"\0")
    return h.hexdigest()[:32]


class Builder:
    def __init__(self, repo, work, jobs):
        self.repo, self.work, self.jobs = os.path.realpath(repo), work, jobs
        self.env = dict(os.environ, TMPDIR=os.path.join(work, "tmp"), LC_ALL="C")
        for d in ("tmp", "inc", "obj"):
            os.makedirs(os.path.join(work, d), exist_ok=True)
        self.xdir = os.path.join(self.repo, "mpn", "x86_64")
        for need in ("config.m4", "yasm_mac.inc", "config.h", "mpir.h", "gmp-impl.h", "mpn/asm-defs.m4", "mpn/x86_64/x86_64-defs.m4", "mp_minv_tab.c", "tests/refmpn.c"):
            if not os.path.exists(os.path.join(self.repo, need)):
                raise Fault("tree %s lacks %s (must be a configured MPIR tree)" % (self.repo, need))

    # ---- shadow include dir: the tree's top-level headers, config.h without HAVE_NATIVE_* -> portable code only
    def make_inc(self):
        inc = os.path.join(self.work, "inc"); h = hashlib.sha256()
        for f in sorted(os.listdir(self.repo)):
            if f.endswith(".h"):
                data = open(os.path.join(self.repo, f), "rb").read()
                if f == "config.h":
                    data = b"\n".join(l for l in data.split(b"\n") if not re.match(rb"\s*#\s*define\s+HAVE_NATIVE_", l))
                open(os.path.join(inc, f), "wb").write(data); h.update(f.encode()); h.update(data)
        self.inc, self.inchash = inc, h.hexdigest()
        self.cflags = ["-O1", "-fPIC", "-w", "-DHAVE_CONFIG_H", "-D__GMP_WITHIN_GMP", "-I" + inc]

    def cached(self, key, suffix, build):
        """build(path) creates the artefact. The run only ever uses its private copy in the work dir (the shared cache
        /verif/.cache/kern may be wiped by anybody at any time); the cache is read and filled on a best-effort basis."""
        mine = os.path.join(self.work, "art", key + suffix); dst = os.path.join(CACHE, key + suffix)
        os.makedirs(os.path.dirname(mine), exist_ok=True)
        try:
            shutil.copy2(dst, mine + ".part"); os.replace(mine + ".part", mine)
            return mine
        except OSError:
            pass
        build(mine)
        try:
            os.makedirs(CACHE, exist_ok=True)
            tmp = os.path.join(CACHE, ".tmp.%s.%d.%d" % (key, os.getpid(), threading.get_ident()))
            shutil.copy2(mine, tmp); os.replace(tmp, dst)      # atomic publish
        except OSError:
            pass
        return mine

    def cc(self, src, obj, extra=()):
        rc, _, err = sh(["gcc"] + self.cflags + list(extra) + ["-c", src, "-o", obj], env=self.env)
        if rc:
            raise Fault("compiling %s failed:\n%s" % (src, err[-2000:]))

    # ---- reference libraries (generic C + refmpn + glue) and kara.so, all from the tree's sources
    def build_refs(self):
        srcs = [os.path.join(self.repo, "mpn/generic", g + ".c") for g in GENERIC] + [os.path.join(self.repo, f) for f in SUPPORT_TOP]
        srcs += [os.path.join(self.repo, "tests/refmpn.c"), os.path.join(self.repo, "tests/tests.h"), os.path.join(self.repo, "mpn/generic/mul_n.c")]
        srcs += [os.path.join(HERE, f) for f in ("kd_stub.c", "kd_stub2.c", "kd_kara.c")]
        missing = [s for s in srcs if not os.path.exists(s)]
        if missing:
            raise Fault("reference sources missing: %s" % missing)
        h = hashlib.sha256((RECIPE + self.inchash).encode())
        for s in srcs:
            h.update(open(s, "rb").read())
        key = h.hexdigest()[:32]
        od = os.path.join(self.work, "obj")

        def build_ref(path):
            jobs = []
            for g in GENERIC:
                jobs.append((os.path.join(self.repo, "mpn/generic", g + ".c"), os.path.join(od, "g_%s.o" % g), ["-DOPERATION_" + g]))
            for f in SUPPORT_TOP:
                jobs.append((os.path.join(self.repo, f), os.path.join(od, "s_%s.o" % f[:-2]), []))
            jobs.append((os.path.join(self.repo, "tests/refmpn.c"), os.path.join(od, "refmpn.o"), ["-I" + os.path.join(self.repo, "tests")]))
            jobs.append((os.path.join(HERE, "kd_stub.c"), os.path.join(od, "kd_stub.o"), []))
            jobs.append((os.path.join(HERE, "kd_stub2.c"), os.path.join(od, "kd_stub2.o"), []))
            jobs.append((os.path.join(HERE, "kd_kara.c"), os.path.join(od, "kd_kara.o"), ['-DC14_MUL_N_C="%s"' % os.path.join(self.repo, "mpn/generic/mul_n.c")]))
            with ThreadPoolExecutor(self.jobs) as ex:
                list(ex.map(lambda j: self.cc(*j), jobs))
            objs = [j[1] for j in jobs if not j[1].endswith("kd_kara.o")]
            # -z defs: every symbol must resolve inside ref.so (=> the generic routines call generic routines, never a kernel);
            # -Bsymbolic: internal calls cannot be interposed.
            rc, _, err = sh(["gcc", "-shared", "-o", path] + objs + ["-Wl,-z,defs", "-Wl,-Bsymbolic", "-Wl,-z,noexecstack"], env=self.env)
            if rc:
                raise Fault("linking ref.so failed:\n" + err[-3000:])

        def build_kara(path):
            if not os.path.exists(os.path.join(od, "kd_kara.o")):      # ref.so came from the cache: compile the few objects needed
                for g in ("add_n", "sub_n"):
                    self.cc(os.path.join(self.repo, "mpn/generic", g + ".c"), os.path.join(od, "g_%s.o" % g), ["-DOPERATION_" + g])
                self.cc(os.path.join(self.repo, "assert.c"), os.path.join(od, "s_assert.o"))
                self.cc(os.path.join(HERE, "kd_kara.c"), os.path.join(od, "kd_kara.o"), ['-DC14_MUL_N_C="%s"' % os.path.join(self.repo, "mpn/generic/mul_n.c")])
            rc, _, err = sh(["gcc", "-shared", "-o", path] + [os.path.join(od, f) for f in ("kd_kara.o", "g_add_n.o", "g_sub_n.o", "s_assert.o")] + ["-Wl,-Bsymbolic", "-Wl,-z,noexecstack"], env=self.env)
            if rc:
                raise Fault("linking kara.so failed:\n" + err[-3000:])

        self.ref_so = self.cached(key, ".ref.so", build_ref)
        try:
            self.kara_so = self.cached(key, ".kara.so", build_kara)
        except Fault as e:
            self.kara_so, self.kara_err = "", str(e)
        self.sqr_generic = ctypes.c_long.in_dll(ctypes.CDLL(self.ref_so), "c14_sqr_kara_threshold").value

    def build_driver(self):
        src = [os.path.join(HERE, f) for f in ("kd_driver.cc", "kd_ops.hpp")]
        key = hkey(RECIPE, *[open(s, "rb").read() for s in src])

        def b(path):
            rc, _, err = sh(["g++", "-O2", "-std=c++17", "-w", "-o", path, src[0], "-ldl"], env=self.env)
            if rc:
                raise Fault("compiling driver failed:\n" + err[-3000:])
        self.driver = self.cached(key, ".driver", b)

    # ---- kernels
    def kernel_files(self):
        out = []
        for root, dirs, files in os.walk(self.xdir):
            rel = os.path.relpath(root, self.xdir)
            dirs[:] = sorted(d for d in dirs if not (rel == "." and d == "fat"))
            for f in sorted(files):
                if f.endswith(".as") or f.endswith(".asm"):
                    out.append(os.path.normpath(os.path.join(rel, f)))
        return out

    def build_kernels(self, files):
        deps = hashlib.sha256(RECIPE.encode())
        for d in ("config.m4", "mpn/asm-defs.m4", "mpn/x86_64/x86_64-defs.m4", "yasm_mac.inc", "mp_minv_tab.c"):
            deps.update(open(os.path.join(self.repo, d), "rb").read())
        deps.update(self.inchash.encode())
        dephash = deps.hexdigest()
        minv = os.path.join(self.work, "obj", "k_minv_tab.o")
        self.cc(os.path.join(self.repo, "mp_minv_tab.c"), minv)      # the only symbol a kernel may import: __gmp_modlimb_invert_table
        res = {}

        def one(rel):
            path = os.path.join(self.xdir, rel); name = os.path.basename(rel).rsplit(".", 1)[0]
            key = hkey(dephash, os.path.basename(rel), open(path, "rb").read())
            err = []

            def b(out):
                obj = os.path.join(self.work, "obj", key + ".o")
                if rel.endswith(".as"):     # recipe of mpn/Makefile .as.lo: yasm -I <builddir> -f elf64 (-D PIC via strip_fPIC.sh)
                    rc, _, e = sh(["yasm", "-I", self.repo, "-f", "elf64", "-D", "PIC", "-o", obj, path], env=self.env)
                    if rc:
                        err.append("yasm: " + e[-1500:]); raise Fault("asm")
                else:                       # .asm.lo: m4 -DPIC -DOPERATION_<name> file | gcc -c (run in <tree>/mpn: the files include `../config.m4')
                    rc, s, e = sh(["m4", "-DPIC", "-DOPERATION_" + name, os.path.join("x86_64", rel)], cwd=os.path.join(self.repo, "mpn"), env=self.env)
                    if rc:
                        err.append("m4: " + e[-1500:]); raise Fault("asm")
                    rc, _, e = sh(["gcc", "-c", "-x", "assembler", "-", "-o", obj], env=self.env, inp=s)
                    if rc:
                        err.append("as: " + e[-1500:]); raise Fault("asm")
                rc, _, e = sh(["gcc", "-shared", "-nostdlib", "-o", out, obj, minv, "-Wl,-z,defs", "-Wl,-z,noexecstack"], env=self.env)
                os.unlink(obj)
                if rc:
                    err.append("ld (unexpected undefined symbol?): " + e[-1500:]); raise Fault("ld")
            try:
                so = self.cached(key, ".k.so", b)
            except Fault:
                return rel, None, "; ".join(err) or "build failed", []
            rc, o, _ = sh(["nm", "-D", "--defined-only", so])
            syms = [l.split()[2] for l in o.decode().splitlines() if len(l.split()) == 3 and l.split()[1] == "T"]
            return rel, so, "", syms
        with ThreadPoolExecutor(self.jobs) as ex:
            for rel, so, err, syms in ex.map(one, files):
                res[rel] = (so, err, syms)
        return res

    # ---- largest n for which a build calls a given sqr_basecase kernel: n < SQR_KARATSUBA_THRESHOLD of every CPU directory
    # that resolves to this kernel (nearest ancestor-or-self directory holding a sqr_basecase file), and of the fat build.
    def sqr_limits(self, files):
        kdirs = {os.path.dirname(f) or "." for f in files if os.path.basename(f).startswith("sqr_basecase.")}
        lim = {d: 0 for d in kdirs}; fat = 0
        for root, _, fs in os.walk(self.xdir):
            if "gmp-mparam.h" not in fs:
                continue
            m = re.search(r"^\s*#\s*define\s+SQR_KARATSUBA_THRESHOLD\s+(\d+)", open(os.path.join(root, "gmp-mparam.h"), errors="replace").read(), re.M)
            if not m:
                continue
            rel = os.path.relpath(root, self.xdir)
            if rel.split(os.sep)[0] == "fat":
                fat = int(m.group(1)); continue
            d = rel
            while d not in kdirs and d not in (".", ""):
                d = os.path.dirname(d) or "."
            if d in kdirs:
                lim[d] = max(lim[d], int(m.group(1)))
        return {d: max(v, fat) - 1 for d, v in lim.items()}


def load_known():
    p = os.path.join(HERE, "known_findings.json")
    if not os.path.exists(p):
        return []
    return json.load(open(p)).get("findings", [])


def run_driver(b, rel, so, args, extra):
    d = os.path.dirname(rel) or "."
    cmd = [b.driver, "--kernel", so, "--ref", b.ref_so, "--kara", b.kara_so, "--label", rel, "--seed", str(args.seed), "--tier", args.tier,
           "--sqrgeneric", str(b.sqr_generic), "--sqrmax", str(b.sqrlim.get(d, b.sqr_generic)), "--known", b.known_arg] + extra
    t0 = time.time()
    try:
        p = subprocess.run(cmd, stdout=subprocess.PIPE, stderr=subprocess.PIPE, env=b.env, timeout=args.timeout)
        rc, out, err = p.returncode, p.stdout.decode(errors="replace"), p.stderr.decode(errors="replace")
    except subprocess.TimeoutExpired:
        return rel, -9, {"fault": "driver timeout"}, "", time.time() - t0
    js = None
    for line in out.splitlines():
        try:
            js = json.loads(line)
        except ValueError:
            pass
    return rel, rc, js, err, time.time() - t0


def write_replay(rel, entry, mm, repo):
    rdir = os.path.join(os.environ.get("VERIF_REPLAY_DIR", "/verif/replays"), "C14"); os.makedirs(rdir, exist_ok=True)
    case = dict(t.split("=", 1) for t in mm["case"].split())
    rec = {"property": "C14", "layer": "kernel-differential", "directory": os.path.dirname(rel) or ".", "file": os.path.basename(rel), "kernel": rel, "entry": entry,
           "n": mm["n"], "m": int(case.get("m", 0)), "alignments": case.get("al"), "overlap": int(case.get("ov", 0)), "overlap_offset": int(case.get("off", 0)),
           "scalars_hex": case.get("sc"), "operands_hex": {k: v for k, v in case.items() if re.fullmatch(r"v\d", k)},
           "reference": mm["reference"], "detail": mm["detail"], "expected": {k: v for k, v in mm.items() if k.startswith("expected")},
           "got": {k: v for k, v in mm.items() if k.startswith("got")}, "case": mm["case"], "repo": repo,
           "replay_cmd": "python3 %s --repo %s --replay <this file> --out /var/tmp/c14_replay.json" % (os.path.join(HERE, "kerneldiff.py"), repo)}
    path = os.path.join(rdir, "kd_%s_%s_n%d_%s.json" % (re.sub(r"[^A-Za-z0-9]+", "_", rel), entry.replace("+", "p"), mm["n"], hkey(mm["case"])[:8]))
    json.dump(rec, open(path, "w"), indent=1)
    return path


def main():
    ap = argparse.ArgumentParser()
    ap.add_argument("--repo", default="/repo"); ap.add_argument("--tier", default="quick", choices=["quick", "thorough"])
    ap.add_argument("--seed", type=int, default=1); ap.add_argument("--out", default=None); ap.add_argument("--replay", default=None)
    ap.add_argument("--workdir", default=None); ap.add_argument("--jobs", type=int, default=os.cpu_count() or 4)
    ap.add_argument("--only", default=None, help="test only kernels whose path contains this substring")
    ap.add_argument("--timeout", type=int, default=3600)
    args = ap.parse_args()
    t0 = time.time()
    work = args.workdir or "/var/tmp/c14_kd_%d" % os.getpid()
    res = {"status": "harness_fault", "property": "C14", "layer": 1, "tier": args.tier, "seed": args.seed, "repo": args.repo, "evaluations": 0, "distinct_nontrivial": 0,
           "kernels_assembled": 0, "kernels_tested": 0, "entry_points": [], "per_kernel_calls": {}, "not_assembled": [], "no_reference": [], "skipped_sigill": [],
           "known_findings": [], "labels": {}, "samples": [], "replay": None, "message": "", "wall_s": 0}
    code = 2
    try:
        os.makedirs(work, exist_ok=True)
        code = run(args, work, res)
    except Fault as e:
        res["status"], res["message"] = "harness_fault", str(e)
    except Exception as e:      # noqa
        import traceback
        res["status"], res["message"] = "harness_fault", traceback.format_exc()[-3000:]
    finally:
        if not args.workdir:
            shutil.rmtree(work, ignore_errors=True)
    res["wall_s"] = round(time.time() - t0, 2)
    if args.out:
        os.makedirs(os.path.dirname(os.path.abspath(args.out)), exist_ok=True)
        json.dump(res, open(args.out, "w"), indent=1, sort_keys=True)
    if code == 2:
        print("HARNESS-FAULT " + res["message"].strip().splitlines()[-1] if res["message"] else "HARNESS-FAULT")
    return code


def run(args, work, res):
    b = Builder(args.repo, work, args.jobs)
    b.make_inc(); b.build_driver(); b.build_refs()
    files = b.kernel_files()
    replay = None
    if args.replay:
        replay = json.load(open(args.replay)); files = [f for f in files if f == replay["kernel"]]
        if not files:
            raise Fault("replay kernel %s not present in %s" % (replay["kernel"], args.repo))
    elif args.only:
        files = [f for f in files if args.only in f]
    if not files:
        raise Fault("no kernel files selected under %s" % b.xdir)
    built = b.build_kernels(files)
    b.sqrlim = b.sqr_limits(b.kernel_files())
    known = load_known(); b.known_arg = ",".join("%s:%s" % (k["entry"], k["reference"]) for k in known)
    rc, o, _ = sh([b.driver, "--list-ops", "1"])
    ops = json.loads(o.decode()); bysym = {}
    for op in ops:
        bysym.setdefault(op["sym"], []).append(op)
    res["reference_map"] = {op["entry"]: {"generic": op["generic"] or None, "refmpn": op["refmpn"] or None, "own": op["own"], "own_predicate": op["predicate"], "domain": op["domain"]} for op in ops}
    if not b.kara_so:
        res["no_reference"].append({"entry": "karaadd/karasub", "reference": "generic (static in mul_n.c)", "reason": getattr(b, "kara_err", "")[:500]})
    todo = []
    for rel in files:
        so, err, syms = built[rel]
        if not so:
            res["not_assembled"].append({"kernel": rel, "error": err}); continue
        res["kernels_assembled"] += 1
        entry_syms = [s for s in syms if s.startswith("__gmpn_") or (s.startswith("mpn_") and "__g" + s not in syms)]
        for s in entry_syms:
            if s not in bysym:
                res["no_reference"].append({"kernel": rel, "entry": s, "reason": "no operation descriptor (semantics unknown to the checker)"})
        if any(s in bysym for s in entry_syms):
            todo.append((rel, so))
        elif not entry_syms:
            res["no_reference"].append({"kernel": rel, "entry": None, "reason": "object exports no mpn entry point"})
    extra = []
    if replay:
        cf = os.path.join(work, "replay.case"); open(cf, "w").write(replay["case"] + "\n"); extra = ["--entry", replay["entry"], "--replay-case", cf]
    results = []
    with ThreadPoolExecutor(args.jobs) as ex:
        for r in ex.map(lambda t: run_driver(b, t[0], t[1], args, extra), todo):
            results.append(r)
    # ---- ABI pass: shift-type entry points called with garbage in bits 32..63 of the register holding their int-typed count
    abi_ops = {"__gmpn_lshift", "__gmpn_rshift", "__gmpn_lshiftc", "__gmpn_rsh_divrem_hensel_qr_1_1", "__gmpn_rsh_divrem_hensel_qr_1_2"}
    abi_known = {(k["kernel"], k["entry"]) for k in json.load(open(os.path.join(HERE, "known_findings.json"))).get("abi_upper_bits", [])}
    abi_todo = [] if replay else [(rel, so) for rel, so in todo if abi_ops & set(built[rel][2])]
    abi_results = []
    with ThreadPoolExecutor(args.jobs) as ex:
        for r in ex.map(lambda t: run_driver(b, t[0], t[1], args, ["--abi-garbage", "1"]), abi_todo):
            abi_results.append(r)
    abi_mism, abi_hit = [], set()
    for rel, rc, js, err, dt in abi_results:
        if rc == 3 and js and "sigill" in js:
            continue
        if js and "crash" in js and js["crash"]["in_kernel"]:
            c = js["crash"]; ent = c["entry"].rstrip("+")
            if (rel, ent) in abi_known: abi_hit.add((rel, ent))
            else: abi_mism.append((rel, c["entry"], {"n": int(dict(t.split("=", 1) for t in c["case"].split()).get("n", 0)), "reference": "crash", "detail": "signal %d inside the kernel (count passed with non-zero upper register half)" % c["signal"], "case": c["case"]}))
            continue
        if js is None or "entries" not in js or rc not in (0, 1):
            res.setdefault("abi_pass_faults", []).append("%s: driver rc=%s %s" % (rel, rc, err[-200:])); continue
        for e in js["entries"]:
            ent = e["entry"].rstrip("+"); res["abi_pass_calls"] = res.get("abi_pass_calls", 0) + e["calls"]
            if "mismatch" in e:
                if (rel, ent) in abi_known: abi_hit.add((rel, ent))
                else:
                    mm = dict(e["mismatch"]); mm["detail"] = "count passed with non-zero bits 32..63 in its register (undefined by the ABI for an int argument): " + mm.get("detail", ""); abi_mism.append((rel, e["entry"], mm))
    res["abi_known_reproduced"] = sorted("%s:%s" % k for k in abi_hit)
    res["abi_known_not_reproduced"] = sorted("%s:%s" % k for k in abi_known - abi_hit) if not (args.only or replay) else []
    if abi_hit:
        res["abi_known_line"] = ("kernel-shift-count-upper-register-half: %d kernel entry points (mpn_lshift / mpn_rshift / mpn_lshiftc / mpn_rsh_divrem_hensel_qr_1_{1,2} of the k8, k10, bobcat, atom, sandybridge, haswell/avx, netburst, core2, nehalem directories) read their int-typed shift count from the full 64-bit register and return zeros when bits 32..63 of that register are not zero, which the SysV ABI allows a caller to leave there; the portable C routines use the low half only: %s" % (len(abi_hit), ", ".join(sorted("%s:%s" % k for k in abi_hit))))
    # ---- aggregate
    mism, faults, eps, labels, samples, largest = list(abi_mism), [], set(), {}, [], (0, None)
    for rel, rc, js, err, dt in results:
        if rc == 3 and js and "sigill" in js:
            res["skipped_sigill"].append({"kernel": rel, "entry": js["sigill"]}); continue
        if js and "crash" in js:
            c = js["crash"]
            if c["in_kernel"]:   # the kernel crashed on a legal input: that is a violation
                mism.append((rel, c["entry"], {"n": int(dict(t.split("=", 1) for t in c["case"].split()).get("n", 0)), "reference": "crash", "detail": "signal %d inside the kernel" % c["signal"], "case": c["case"]}))
            else:
                faults.append("%s: signal %d outside kernel (entry %s) %s" % (rel, c["signal"], c["entry"], err[-300:]))
            continue
        if js is None or "entries" not in js or rc not in (0, 1):
            faults.append("%s: driver rc=%s %s %s" % (rel, rc, (js or {}).get("fault", ""), err[-300:])); continue
        res["kernels_tested"] += 1
        for e in js["entries"]:
            name = e["entry"].rstrip("+"); eps.add(name)
            k = "%s:%s" % (rel, name)
            res["per_kernel_calls"][k] = res["per_kernel_calls"].get(k, 0) + e["calls"]
            res["evaluations"] += e["calls"]; res["distinct_nontrivial"] += e["distinct_nontrivial"]
            for m in e["missing_refs"]:
                res["no_reference"].append({"kernel": rel, "entry": name, "reason": "reference symbol not available: " + m})
            for kk, v in e["known_hits"].items():
                res["known_findings"].append({"kernel": rel, "entry": name, "reference": kk, "disagreements": v})
            for kk, v in e["labels"].items():
                labels[kk] = labels.get(kk, 0) + v
            if e["samples"] and len(samples) < 8 and hash(k) % 7 == 0:
                samples.append("%s %s" % (k, e["samples"][-1]))
            if e["largest_n"] > largest[0]:
                largest = (e["largest_n"], "LARGEST %s %s ..." % (k, e["largest_case"]))
            if "mismatch" in e:
                mism.append((rel, e["entry"], e["mismatch"]))
    for extra_s in [r for r in results if r[2] and "entries" in r[2]][:5]:
        if len(samples) < 5 and extra_s[2]["entries"] and extra_s[2]["entries"][0]["samples"]:
            samples.append("%s:%s %s" % (extra_s[0], extra_s[2]["entries"][0]["entry"], extra_s[2]["entries"][0]["samples"][0]))
    if largest[1]:
        samples.append(largest[1])
    res["entry_points"] = sorted(eps); res["labels"] = labels; res["samples"] = samples
    kn = {(k["entry"], k["reference"]) for k in known}
    hit = {(k["entry"], k["reference"]) for k in res["known_findings"]}
    res["known_findings_declared"] = known
    res["known_findings_not_reproduced"] = sorted("%s:%s" % k for k in kn - hit) if not (args.only or replay) else []
    if faults:
        res["status"], res["message"] = "harness_fault", "; ".join(faults)[:3000]
        return 2
    if mism:
        mism.sort(key=lambda m: (m[2]["n"], m[0]))
        lines = []
        for rel, entry, mm in mism:
            path = args.replay if replay else write_replay(rel, entry, mm, b.repo)
            lines.append("KERNEL-MISMATCH %s %s n=%d replay=%s" % (rel, entry.rstrip("+"), mm["n"], path))
            res.setdefault("mismatches", []).append({"kernel": rel, "entry": entry, "n": mm["n"], "reference": mm["reference"], "detail": mm["detail"], "replay": path})
        res["replay"] = res["mismatches"][0]["replay"]
        print(lines[0])
        for l in lines[1:]:
            print(l)
        res["status"], res["message"] = "violation", "%d kernel entry point(s) disagree with their reference; first: %s" % (len(mism), lines[0])
        return 1
    if res["not_assembled"] and not (args.only or replay):   # the quantifier "every shipped kernel" is no longer covered
        res["status"], res["message"] = "harness_fault", "%d kernel file(s) did not assemble: %s" % (len(res["not_assembled"]), ", ".join(x["kernel"] for x in res["not_assembled"])[:1000])
        return 2
    res["status"] = "ok"
    res["message"] = "%d kernels assembled, %d tested, %d entry points, %d calls compared, all agree" % (res["kernels_assembled"], res["kernels_tested"], len(eps), res["evaluations"])
    if replay:
        res["message"] = "replay case passes"
    return 0


if __name__ == "__main__":
    sys.exit(main())
