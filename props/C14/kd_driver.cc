// C14 layer 1 -- kernel differential test driver.
//
// One process tests ONE kernel shared object (one assembled mpn/x86_64/** file) against
//   (a) "generic": the portable C routine of the same name from <tree>/mpn/generic (in ref.so),
//       or the gmp-impl.h fallback macro / the static kara functions of mul_n.c (kd_stub.c),
//   (b) "refmpn" : the tree's own reference implementation tests/refmpn.c (in ref.so),
//   (c) "own"    : an independent restatement in plain C++ / unsigned __int128 (kd_ops.hpp).
// A kernel must agree with EVERY reference that exists for its entry point.
// The process prints one JSON object on stdout.  exit: 0 ok, 1 mismatch, 2 fault, 3 SIGILL.
//
// All randomness derives from splitmix64 keyed by (seed, hash("dir/file:entry"), case index).
#include <cstdio>
#include <cstdlib>
#include <cstring>
#include <cstdint>
#include <csignal>
#include <string>
#include <vector>
#include <map>
#include <unordered_set>
#include <functional>
#include <algorithm>
#include <dlfcn.h>
#include <unistd.h>

typedef uint64_t U;
typedef unsigned __int128 W;
typedef std::vector<U> V;
// Every kernel is called through this type: SysV x86-64 passes the first six integer
// arguments in registers and the rest on the stack, so surplus zero arguments are harmless.
typedef U (*F8)(U, U, U, U, U, U, U, U);

// The kernel is entered through a trampoline that leaves registers the ABI does not define at function entry in a
// hostile state: CF set or clear (alternating), rax/r10/r11 junk.  Arguments (registers and stack) are untouched.
extern "C" { void *c14_target; U c14_thunk_stc(U, U, U, U, U, U, U, U); U c14_thunk_clc(U, U, U, U, U, U, U, U); }
asm(".text\n.globl c14_thunk_stc\n.type c14_thunk_stc,@function\nc14_thunk_stc:\n movabs $0xDEADBEEFCAFEF00D,%rax\n mov %rax,%r10\n mov %rax,%r11\n stc\n jmp *c14_target(%rip)\n"
    ".globl c14_thunk_clc\n.type c14_thunk_clc,@function\nc14_thunk_clc:\n movabs $0x0123456789ABCDEF,%rax\n mov %rax,%r10\n mov %rax,%r11\n clc\n jmp *c14_target(%rip)\n");

// ------------------------------------------------------------------ rng
static inline U splitmix(U &s) { U z = (s += 0x9E3779B97F4A7C15ull); z = (z ^ (z >> 30)) * 0xBF58476D1CE4E5B9ull;
  z = (z ^ (z >> 27)) * 0x94D049BB133111EBull; return z ^ (z >> 31); }
static U fnv(const std::string &s) { U h = 1469598103934665603ull; for (unsigned char c : s) { h ^= c; h *= 1099511628211ull; } return h; }
struct Rng {
  U s;
  Rng(U seed, U key, U idx) { U t = seed * 0xD1342543DE82EF95ull + 1; t ^= splitmix(t) + key; t ^= splitmix(t) + idx * 0x2545F4914F6CDD1Dull; s = t; splitmix(s); }
  U next() { return splitmix(s); }
  U below(U n) { return n ? next() % n : 0; }                 // slight modulo bias is irrelevant here
  long range(long lo, long hi) { return lo + (long)below((U)(hi - lo + 1)); }
  bool coin() { return next() & 1; }
};
static const U PALETTE[8] = {0, 1, 2, 0x7FFFFFFFFFFFFFFFull, 0x8000000000000000ull, 0x8000000000000001ull, ~1ull, ~0ull};
enum { ST_RANDOM, ST_ONES, ST_ZERO, ST_ONEBIT, ST_RUNS, ST_PALETTE, ST_NSTYLES };
static const char *STYLE_NAME[] = {"random", "ones", "zero", "onebit", "runs", "palette"};
static void fill_style(V &v, long n, int style, Rng &r) {
  v.assign(n, 0);
  switch (style) {
  case ST_RANDOM: for (auto &x : v) x = r.next(); break;
  case ST_ONES: for (auto &x : v) x = ~0ull; break;
  case ST_ZERO: break;
  case ST_ONEBIT: if (n) { U b = r.below(64 * n); v[b / 64] = 1ull << (b % 64); } break;
  case ST_RUNS: { // long runs of 0/1 bits (like mpn_random2)
    long bit = 0, tot = 64 * n; int val = r.coin();
    while (bit < tot) { long len = 1 + (long)r.below(r.coin() ? 200 : 20); if (len > tot - bit) len = tot - bit;
      if (val) for (long b = bit; b < bit + len; b++) v[b / 64] |= 1ull << (b % 64);
      bit += len; val ^= 1; } break; }
  case ST_PALETTE: for (auto &x : v) x = PALETTE[r.below(8)]; break;
  }
}
static int pick_style(Rng &r) { U t = r.below(16); return t < 6 ? ST_RANDOM : t < 8 ? ST_RUNS : t < 10 ? ST_PALETTE : t < 12 ? ST_ONES : t < 14 ? ST_ONEBIT : ST_ZERO; }
static U pick_limb(Rng &r) { U t = r.below(4); return t == 0 ? PALETTE[r.below(8)] : t == 1 ? (r.next() >> r.below(64)) : r.next(); }

// ------------------------------------------------------------------ cases, layout, arena
enum { NOPD = 6, NSC = 6 };
struct Case {               // a fully explicit test case (this is what a replay file stores)
  long n = 0, m = 0;        // sizes (m: second size, e.g. vn / qxn)
  U sc[NSC] = {0, 0, 0, 0, 0, 0};  // scalars: shift, carry, multiplier, divisor, ...
  int al[NOPD] = {0, 0, 0, 0, 0, 0}; // alignment of each operand: pointer == 8*al (mod 16)
  int ov = 0; long off = 0; // overlap kind (per op) and offset in limbs for partial overlaps
  int style = 0;            // label only
  V v[NOPD];                // initial contents: v[0],v[1] destinations, v[2..5] sources
};
struct Opd { long size = -1; int alias = -1; long aoff = 0; long scr_lo = 0, scr_hi = 0; bool dst = false; };
// Opd.size<0: unused. alias>=0: this operand's pointer is operand[alias].ptr + aoff (overlap).
// [scr_lo,scr_hi): limbs whose final content is unspecified (scratch) and is not compared.
struct Op;
typedef std::function<void(const Case &, Opd *)> LayoutFn;
typedef std::function<void(Case &, Rng &, long)> GenFn;      // fills everything except v[] of plain operands
typedef std::function<U(F8, const Case &, U **)> CallFn;
// custom acceptance test (used instead of bitwise equality with "own"): returns "" when ok
typedef std::function<std::string(const Case &, const V &img, U ret, const std::vector<std::pair<long, long>> &pos)> CheckFn;
struct Op {
  std::string name;         // entry point without the __gmpn_ prefix
  std::string sym;          // kernel symbol
  long nmin = 1, nmax = 0;  // nmax 0: use tier default
  int quad = 0;             // 1: O(n^2) routine (smaller sizes)
  int ret = 1;              // 0 void, 1 limb, 2 int
  LayoutFn layout; GenFn gen; CallFn call;
  std::string generic;      // symbol in ref.so of the portable C routine ("" none)
  std::string refmpn;       // symbol in ref.so of tests/refmpn.c reference ("" none)
  void *own = nullptr;      // own restatement, same ABI
  CheckFn check;            // optional predicate on the kernel's result (own restatement as a predicate)
  bool generic_exact = true; // false: result not unique by spec; generic compared via `check` only
  std::vector<std::string> ovnames; // label for each ov value
  std::string domain;       // human readable domain / preconditions
  unsigned freemask = 0x3c; // source operands whose limbs the minimiser may edit (no invariants on them)
};

static const long GUARD = 16;
struct Arena {              // six reusable buffers, 16-byte aligned
  U *buf[NOPD]; long cap;
  Arena(long c) : cap(c) { for (auto &b : buf) if (posix_memalign((void **)&b, 64, cap * 8)) abort(); }
} *g_arena;

struct Placed { U *p[NOPD]; long base[NOPD], len[NOPD]; /* root buffers: offset of data, total used length */ };

// Place operands in the arena and initialise memory. Returns image positions of each operand
// (index into the concatenated image of all root buffers).
static void place(const Case &c, const Opd *o, Placed &pl, std::vector<std::pair<long, long>> &pos, long &imglen) {
  pos.assign(NOPD, {-1, 0}); imglen = 0;
  for (int k = 0; k < NOPD; k++) { pl.p[k] = nullptr; pl.len[k] = 0; }
  for (int k = 0; k < NOPD; k++) {
    if (o[k].size < 0 || o[k].alias >= 0) continue;
    long lo = 0, hi = o[k].size;
    for (int j = 0; j < NOPD; j++) if (o[j].size >= 0 && o[j].alias == k) { lo = std::min(lo, o[j].aoff); hi = std::max(hi, o[j].aoff + o[j].size); }
    long start = GUARD - lo;                       // data index inside buffer
    if ((((uintptr_t)(g_arena->buf[k] + start) >> 3) & 1) != (unsigned)c.al[k]) start++;
    long total = start + hi + GUARD;
    if (total > g_arena->cap) { fprintf(stderr, "arena overflow\n"); exit(2); }
    U *b = g_arena->buf[k];
    for (long i = 0; i < total; i++) b[i] = 0xDEADBEEFBADDCAFEull ^ (U)(i * 0x9E3779B97F4A7C15ull) ^ (U)k;
    // aliased destinations first (their "garbage" initial content), then the root data on top
    for (int j = 0; j < NOPD; j++) if (o[j].size >= 0 && o[j].alias == k)
      for (long i = 0; i < o[j].size && i < (long)c.v[j].size(); i++) b[start + o[j].aoff + i] = c.v[j][i];
    for (long i = 0; i < o[k].size; i++) b[start + i] = i < (long)c.v[k].size() ? c.v[k][i] : 0;
    pl.p[k] = b + start; pl.base[k] = start; pl.len[k] = total;
    pos[k] = {imglen + start, o[k].size};
    imglen += total;
  }
  for (int k = 0; k < NOPD; k++) if (o[k].size >= 0 && o[k].alias >= 0) {
    int a = o[k].alias; pl.p[k] = pl.p[a] + o[k].aoff; pos[k] = {pos[a].first + o[k].aoff, o[k].size};
  }
}
static void snapshot(const Opd *o, const Placed &pl, const std::vector<std::pair<long, long>> &pos, V &img) {
  img.clear();
  for (int k = 0; k < NOPD; k++) if (pl.len[k]) img.insert(img.end(), g_arena->buf[k], g_arena->buf[k] + pl.len[k]);
  for (int k = 0; k < NOPD; k++) if (o[k].size >= 0) for (long i = o[k].scr_lo; i < o[k].scr_hi; i++) img[pos[k].first + i] = 0;
}

// ------------------------------------------------------------------ crash / SIGILL handling
static volatile sig_atomic_t g_in_kernel = 0;
static int g_thunk = 1;
static unsigned g_watchdog = 120;      // seconds; env C14_WATCHDOG overrides
static std::string g_label, g_cur_entry;
static char g_cur_case[1 << 20];             // text form of the case being run (for crash reports)
static void on_signal(int sig) {
  // async-signal-safe enough: we only write() prepared buffers and _exit.
  char b[256]; int n;
  if (sig == SIGILL && g_in_kernel) { n = snprintf(b, sizeof b, "{\"label\":\"%s\",\"sigill\":\"%s\"}\n", g_label.c_str(), g_cur_entry.c_str()); if (write(1, b, n)) {} _exit(3); }
  if (sig == SIGALRM && !g_in_kernel) { n = snprintf(b, sizeof b, "{\"label\":\"%s\",\"fault\":\"watchdog outside kernel\"}\n", g_label.c_str()); if (write(1, b, n)) {} _exit(2); }
  n = snprintf(b, sizeof b, "{\"label\":\"%s\",\"crash\":{\"signal\":%d,\"in_kernel\":%d,\"entry\":\"%s\",\"case\":\"", g_label.c_str(), sig, (int)g_in_kernel, g_cur_entry.c_str());
  if (write(1, b, n)) {} if (write(1, g_cur_case, strlen(g_cur_case))) {} if (write(1, "\"}}\n", 4)) {}
  _exit(g_in_kernel ? 1 : 2);
}

// ------------------------------------------------------------------ case <-> text
static std::string hexv(const V &v) { std::string s; char b[20]; for (size_t i = 0; i < v.size(); i++) { snprintf(b, sizeof b, "%s%llx", i ? "," : "", (unsigned long long)v[i]); s += b; } return s; }
static std::string case_text(const Case &c) {
  char b[512]; std::string s;
  snprintf(b, sizeof b, "n=%ld m=%ld ov=%d off=%ld style=%d al=%d,%d,%d,%d,%d,%d sc=", c.n, c.m, c.ov, c.off, c.style, c.al[0], c.al[1], c.al[2], c.al[3], c.al[4], c.al[5]); s = b;
  for (int i = 0; i < NSC; i++) { snprintf(b, sizeof b, "%s%llx", i ? "," : "", (unsigned long long)c.sc[i]); s += b; }
  for (int k = 0; k < NOPD; k++) if (!c.v[k].empty()) { snprintf(b, sizeof b, " v%d=", k); s += b; s += hexv(c.v[k]); }
  return s;
}
static V parse_hexlist(const std::string &s) { V v; size_t i = 0; while (i < s.size()) { size_t j = s.find(',', i); if (j == std::string::npos) j = s.size(); v.push_back(strtoull(s.substr(i, j - i).c_str(), nullptr, 16)); i = j + 1; } return v; }
static bool parse_case(const std::string &t, Case &c) {
  size_t i = 0;
  while (i < t.size()) {
    while (i < t.size() && isspace((unsigned char)t[i])) i++;
    size_t j = t.find_first_of(" \n\t", i); if (j == std::string::npos) j = t.size();
    std::string tok = t.substr(i, j - i); i = j; if (tok.empty()) continue;
    size_t e = tok.find('='); if (e == std::string::npos) return false;
    std::string k = tok.substr(0, e), val = tok.substr(e + 1);
    if (k == "n") c.n = atol(val.c_str()); else if (k == "m") c.m = atol(val.c_str()); else if (k == "ov") c.ov = atoi(val.c_str());
    else if (k == "off") c.off = atol(val.c_str()); else if (k == "style") c.style = atoi(val.c_str());
    else if (k == "al") { V a; size_t p = 0; int q = 0; while (p < val.size() && q < NOPD) { c.al[q++] = atoi(val.c_str() + p); p = val.find(',', p); if (p == std::string::npos) break; p++; } }
    else if (k == "sc") { V a = parse_hexlist(val); for (size_t q = 0; q < a.size() && q < NSC; q++) c.sc[q] = a[q]; }
    else if (k[0] == 'v' && k.size() == 2) c.v[k[1] - '0'] = parse_hexlist(val);
    else return false;
  }
  return true;
}
static std::string jesc(const std::string &s) { std::string o; for (char ch : s) { if (ch == '"' || ch == '\\') { o += '\\'; o += ch; } else if (ch == '\n') o += "\\n"; else o += ch; } return o; }

#include "kd_ops.hpp"      // own restatements + the operation table (build_ops)

// ------------------------------------------------------------------ running one case
struct RefFn { std::string kind; void *fn; };
struct Outcome { bool ok = true; std::string which, detail; V exp_img, got_img; U exp_ret = 0, got_ret = 0; std::vector<std::pair<long, long>> pos; };

static U mask_ret(const Op &op, U r) { return op.ret == 0 ? 0 : op.ret == 2 ? (U)(uint32_t)r : r; }
static U run_fn(const Op &op, const Case &c, const Opd *o, void *fn, bool kernel, V &img, std::vector<std::pair<long, long>> &pos) {
  Placed pl; long il; place(c, o, pl, pos, il);
  F8 entry = (F8)fn;
  if (kernel && g_thunk) { c14_target = fn; entry = (c.n + c.al[2] + c.sc[0]) & 1 ? c14_thunk_stc : c14_thunk_clc; }
  if (kernel) g_in_kernel = 1;
  U r = op.call(entry, c, pl.p);
  g_in_kernel = 0;
  snapshot(o, pl, pos, img);
  return mask_ret(op, r);
}
// Run kernel + all references on a case. known: reference kinds whose disagreement with the kernel is a recorded
// finding about the REFERENCE (see known_findings.json); they are counted but do not fail the kernel.
static Outcome run_case(const Op &op, const Case &c, void *kfn, const std::vector<RefFn> &refs, const std::unordered_set<std::string> &known, std::map<std::string, long> &known_hits) {
  Outcome oc; Opd o[NOPD]; op.layout(c, o);
  std::string ct = case_text(c); if (ct.size() < sizeof g_cur_case) strcpy(g_cur_case, ct.c_str()); else g_cur_case[0] = 0;
  V kimg, rimg; std::vector<std::pair<long, long>> pos, pos2;
  static unsigned tick = 0; if ((tick++ & 255) == 0) alarm(g_watchdog);      // watchdog: a kernel that never returns is reported (signal 14 inside the kernel)
  U kret = run_fn(op, c, o, kfn, true, kimg, pos);
  oc.pos = pos; oc.got_img = kimg; oc.got_ret = kret;
  if (op.check) { std::string e = op.check(c, kimg, kret, pos); if (!e.empty()) { oc.ok = false; oc.which = "own-predicate"; oc.detail = e; oc.exp_img = kimg; oc.exp_ret = kret; return oc; } }
  for (auto &rf : refs) {
    U rret = run_fn(op, c, o, rf.fn, false, rimg, pos2);
    if (rf.kind == "generic" && !op.generic_exact) {   // spec leaves freedom: the portable C result must itself satisfy the predicate
      std::string e = op.check(c, rimg, rret, pos2);
      if (!e.empty()) { oc.ok = false; oc.which = "generic-violates-spec"; oc.detail = e; oc.exp_img = rimg; oc.exp_ret = rret; return oc; }
      continue;
    }
    if (rimg != kimg || rret != kret) {
      if (known.count(rf.kind)) { known_hits[rf.kind]++; continue; }
      oc.ok = false; oc.which = rf.kind; oc.exp_img = rimg; oc.exp_ret = rret;
      char b[200]; long d = -1; for (size_t i = 0; i < rimg.size() && i < kimg.size(); i++) if (rimg[i] != kimg[i]) { d = i; break; }
      std::string where = "return value only";
      if (d >= 0) { where = "memory outside operands (guard)"; for (int k = 0; k < NOPD; k++) if (pos[k].first >= 0 && d >= pos[k].first && d < pos[k].first + pos[k].second) { snprintf(b, sizeof b, "operand %d limb %ld", k, d - pos[k].first); where = b; if (o[k].dst) break; } }
      snprintf(b, sizeof b, "first difference: %s; ret expected %llx got %llx", where.c_str(), (unsigned long long)rret, (unsigned long long)kret);
      oc.detail = b; return oc;
    }
  }
  return oc;
}

// ------------------------------------------------------------------ case generation
static void fill_operands(const Op &op, Case &c, Rng &r) {     // fill v[] of every operand the op's gen did not set
  Opd o[NOPD]; op.layout(c, o);
  int common = pick_style(r); bool same = r.below(3) == 0; c.style = common;
  for (int k = 0; k < NOPD; k++) if (o[k].size >= 0 && c.v[k].empty() && o[k].size > 0) {
    int st = (o[k].dst && r.coin()) ? ST_RANDOM : same ? common : pick_style(r);   // destinations: initial garbage / in-out value
    if (k == 2) c.style = st;
    fill_style(c.v[k], o[k].size, st, r);
  }
}
// ABI pass (--abi-garbage 1): the int-typed scalar of the shift-type entry points (unsigned cnt / int s) is passed with non-zero bits 32..63 in its
// register, which the SysV x86-64 ABI leaves undefined for a 32-bit argument; the C references read the low half only.
static bool g_abi_garbage = false;
static bool abi_int_scalar_op(const std::string &n) { return n == "lshift" || n == "rshift" || n == "lshiftc" || n == "rsh_divrem_hensel_qr_1_1" || n == "rsh_divrem_hensel_qr_1_2"; }
static Case make_case(const Op &op, U seed, U key, U idx, long n) {
  Rng r(seed, key, idx); Case c; c.n = n;
  for (int k = 0; k < NOPD; k++) c.al[k] = r.coin();
  // gen may pre-fill some operands / scalars and choose overlap; it may call fill for operands needing structure
  op.gen(c, r, n);
  if (g_abi_garbage && abi_int_scalar_op(op.name)) c.sc[0] |= 0xDEADBEEF00000000ull;
  fill_operands(op, c, r);
  return c;
}
static U case_hash(const Case &c) { return fnv(case_text(c)); }

int main(int argc, char **argv) {
  std::map<std::string, std::string> a;
  for (int i = 1; i + 1 < argc; i += 2) a[argv[i]] = argv[i + 1];
  if (a.count("--list-ops")) { std::vector<Op> ops = build_ops(64, 64); printf("["); for (size_t i = 0; i < ops.size(); i++) printf("%s{\"entry\":\"%s\",\"sym\":\"%s\",\"generic\":\"%s\",\"refmpn\":\"%s\",\"own\":%s,\"predicate\":%s,\"nmin\":%ld,\"domain\":\"%s\"}", i ? ",\n" : "", ops[i].name.c_str(), ops[i].sym.c_str(), ops[i].generic.c_str(), ops[i].refmpn.c_str(), ops[i].own ? "true" : "false", ops[i].check ? "true" : "false", ops[i].nmin, jesc(ops[i].domain).c_str()); printf("]\n"); return 0; }
  if (getenv("C14_NOTHUNK")) g_thunk = 0;
  if (getenv("C14_WATCHDOG")) g_watchdog = atoi(getenv("C14_WATCHDOG"));
  g_label = a["--label"]; U seed = strtoull(a["--seed"].c_str(), nullptr, 0); bool thorough = a["--tier"] == "thorough";
  long sqrmax = a.count("--sqrmax") ? atol(a["--sqrmax"].c_str()) : 24, sqrgen = a.count("--sqrgeneric") ? atol(a["--sqrgeneric"].c_str()) : 24;
  double scale = a.count("--scale") ? atof(a["--scale"].c_str()) : 1.0;
  struct sigaction sa; memset(&sa, 0, sizeof sa); sa.sa_handler = on_signal; for (int s : {SIGILL, SIGSEGV, SIGBUS, SIGFPE, SIGABRT, SIGALRM}) sigaction(s, &sa, nullptr);
  void *hk = dlopen(a["--kernel"].c_str(), RTLD_NOW | RTLD_LOCAL); if (!hk) { printf("{\"label\":\"%s\",\"fault\":\"dlopen kernel: %s\"}\n", g_label.c_str(), jesc(dlerror()).c_str()); return 2; }
  void *hr = dlopen(a["--ref"].c_str(), RTLD_NOW | RTLD_LOCAL); if (!hr) { printf("{\"label\":\"%s\",\"fault\":\"dlopen ref: %s\"}\n", g_label.c_str(), jesc(dlerror()).c_str()); return 2; }
  void *hs = a.count("--kara") && !a["--kara"].empty() ? dlopen(a["--kara"].c_str(), RTLD_LAZY | RTLD_LOCAL) : nullptr;   // lazy: mul_n.c drags in unresolved toom/fft references that are never called
  long maxn = thorough ? 3000 : 600;
  g_arena = new Arena(4 * maxn + 4 * GUARD + 64);
  std::vector<Op> ops = build_ops(sqrmax, sqrgen);
  // known findings: "entry:refkind,entry:refkind"
  std::map<std::string, std::unordered_set<std::string>> known;
  { std::string k = a["--known"]; size_t i = 0; while (i < k.size()) { size_t j = k.find(',', i); if (j == std::string::npos) j = k.size(); std::string t = k.substr(i, j - i); size_t e = t.find(':'); if (e != std::string::npos) known[t.substr(0, e)].insert(t.substr(e + 1)); i = j + 1; } }
  std::string only = a["--entry"];
  bool replay = a.count("--replay-case"); g_abi_garbage = a.count("--abi-garbage") != 0;
  std::string out = "{\"label\":\"" + jesc(g_label) + "\",\"entries\":[";
  bool first = true, any_fail = false;
  for (auto &op : ops) {
    if (!only.empty() && op.name != only) continue;
    if (g_abi_garbage && !abi_int_scalar_op(op.name)) continue;
    void *kfn = dlsym(hk, op.sym.c_str()); if (!kfn) continue;
    g_cur_entry = op.name;
    std::vector<RefFn> refs; std::vector<std::string> missing;
    if (!op.generic.empty()) { void *f = dlsym(hr, op.generic.c_str()); if (!f && hs) f = dlsym(hs, op.generic.c_str()); if (f) refs.push_back({"generic", f}); else missing.push_back("generic:" + op.generic); }
    if (!op.refmpn.empty()) { void *f = dlsym(hr, op.refmpn.c_str()); if (f) refs.push_back({"refmpn", f}); else missing.push_back("refmpn:" + op.refmpn); }
    if (op.own) refs.push_back({"own", op.own});
    U key = fnv(g_label + ":" + op.name);
    std::map<std::string, long> known_hits; long calls = 0, largest = 0; std::unordered_set<U> distinct;
    std::map<std::string, long> lab; std::vector<std::string> samples; std::string largest_case; Outcome bad; Case badc; bool failed = false;
    auto &kn = known[op.name];
    auto tally = [&](const Case &c) {
      calls++; if (c.n >= 2) distinct.insert(case_hash(c)); if (c.n > largest) { largest = c.n; largest_case = case_text(c).substr(0, 240); }
      char b[64]; snprintf(b, sizeof b, "nmod16=%ld", c.n % 16); lab[b]++;
      lab["overlap=" + (c.ov < (int)op.ovnames.size() ? op.ovnames[c.ov] : std::to_string(c.ov))]++;
      snprintf(b, sizeof b, "align(dst,src0,src1)=%d%d%d", c.al[0], c.al[2], c.al[3]); lab[b]++;
      lab[std::string("style=") + STYLE_NAME[c.style % ST_NSTYLES]]++;
      lab[c.n <= 1 ? "size=1" : c.n <= 16 ? "size=2..16" : c.n <= 64 ? "size=17..64" : c.n <= 600 ? "size=65..600" : "size>600"]++;
    };
    if (replay) {
      FILE *f = fopen(a["--replay-case"].c_str(), "r"); if (!f) { printf("{\"fault\":\"cannot open replay case\"}\n"); return 2; }
      std::string t; char buf[4096]; size_t n; while ((n = fread(buf, 1, sizeof buf, f)) > 0) t.append(buf, n); fclose(f);
      Case c; if (!parse_case(t, c)) { printf("{\"fault\":\"bad replay case\"}\n"); return 2; }
      Outcome oc = run_case(op, c, kfn, refs, kn, known_hits); tally(c);
      if (!oc.ok) { failed = true; bad = oc; badc = c; }
    } else {
      long nmax = op.nmax ? op.nmax : maxn; if (op.quad && !op.nmax) nmax = thorough ? 400 : 150;
      long dense_hi = std::min(64L, nmax), reps = (long)((thorough ? 2400 : 120) * scale), nlog = (long)((thorough ? 40000 : 2000) * scale);
      if (op.quad) { reps = std::max(2L, reps / 3); nlog = nlog / 8; }
      if (reps < 1) reps = 1;
      std::vector<long> sizes;
      for (long n = op.nmin; n <= dense_hi; n++) for (long k = 0; k < reps; k++) sizes.push_back(n);
      if (nmax > dense_hi) { Rng rs(seed, key, ~0ull); for (long k = 0; k < nlog; k++) { double u = (double)(rs.next() >> 11) / 9007199254740992.0; long n = (long)(dense_hi * pow((double)nmax / dense_hi, u) + 0.5); if (n < op.nmin) n = op.nmin; if (n > nmax) n = nmax; sizes.push_back(n); }
        sizes.push_back(nmax); }
      for (size_t idx = 0; idx < sizes.size() && !failed; idx++) {
        Case c = make_case(op, seed, key, idx, sizes[idx]);
        Outcome oc = run_case(op, c, kfn, refs, kn, known_hits); tally(c);
        if (samples.size() < 3 && (idx % 997 == 7 || idx == 0)) samples.push_back(case_text(c).substr(0, 300));
        if (!oc.ok) { failed = true; bad = oc; badc = c; }
      }
      if (failed) {   // ---- minimise: (1) smaller n with fresh generated cases, (2) greedy simplification of source limbs
        for (long n = op.nmin; n < badc.n; n++) { bool hit = false;
          for (U t = 0; t < 300 && !hit; t++) { Case c = make_case(op, seed, key ^ 0x5bd1e995, (U)n * 1000 + t, n); if (c.n >= badc.n) continue; Outcome oc = run_case(op, c, kfn, refs, kn, known_hits); calls++; if (!oc.ok) { bad = oc; badc = c; hit = true; } }
          if (hit) break; }
        for (int round = 0; round < 3; round++) { bool prog = false;
          for (int k = 2; k < NOPD; k++) if (op.freemask >> k & 1) for (size_t i = 0; i < badc.v[k].size(); i++) {
            U old = badc.v[k][i]; if (old == 0) continue; badc.v[k][i] = 0; Outcome oc = run_case(op, badc, kfn, refs, kn, known_hits); calls++;
            if (!oc.ok) { bad = oc; prog = true; } else badc.v[k][i] = old; }
          if (!prog) break; }
      }
    }
    if (failed) any_fail = true;
    // ---- emit
    char b[256];
    out += first ? "" : ","; first = false;
    out += "{\"entry\":\"" + op.name + "\",\"calls\":" + std::to_string(calls) + ",\"distinct_nontrivial\":" + std::to_string(distinct.size()) + ",\"largest_n\":" + std::to_string(largest);
    out += ",\"refs\":["; for (size_t i = 0; i < refs.size(); i++) out += std::string(i ? "," : "") + "\"" + refs[i].kind + "\""; if (op.check) out += std::string(refs.empty() ? "" : ",") + "\"own-predicate\""; out += "]";
    out += ",\"missing_refs\":["; for (size_t i = 0; i < missing.size(); i++) out += std::string(i ? "," : "") + "\"" + missing[i] + "\""; out += "]";
    out += ",\"known_hits\":{"; { bool f2 = true; for (auto &kv : known_hits) { out += std::string(f2 ? "" : ",") + "\"" + kv.first + "\":" + std::to_string(kv.second); f2 = false; } } out += "}";
    out += ",\"labels\":{"; { bool f2 = true; for (auto &kv : lab) { out += std::string(f2 ? "" : ",") + "\"" + kv.first + "\":" + std::to_string(kv.second); f2 = false; } } out += "}";
    out += ",\"largest_case\":\"" + jesc(largest_case) + "\"";
    out += ",\"samples\":["; for (size_t i = 0; i < samples.size(); i++) out += std::string(i ? "," : "") + "\"" + jesc(samples[i]) + "\""; out += "]";
    if (failed) {
      Opd o[NOPD]; op.layout(badc, o);
      out += ",\"mismatch\":{\"n\":" + std::to_string(badc.n) + ",\"reference\":\"" + bad.which + "\",\"detail\":\"" + jesc(bad.detail) + "\",\"case\":\"" + jesc(case_text(badc)) + "\"";
      snprintf(b, sizeof b, ",\"expected_ret\":\"%llx\",\"got_ret\":\"%llx\"", (unsigned long long)bad.exp_ret, (unsigned long long)bad.got_ret); out += b;
      for (int k = 0; k < NOPD; k++) if (o[k].size >= 0 && o[k].dst && bad.pos.size() > (size_t)k && bad.pos[k].first >= 0) {
        V e(bad.exp_img.begin() + bad.pos[k].first, bad.exp_img.begin() + bad.pos[k].first + bad.pos[k].second), g(bad.got_img.begin() + bad.pos[k].first, bad.got_img.begin() + bad.pos[k].first + bad.pos[k].second);
        out += ",\"expected_op" + std::to_string(k) + "\":\"" + hexv(e) + "\",\"got_op" + std::to_string(k) + "\":\"" + hexv(g) + "\""; }
      out += "}";
    }
    out += "}";
  }
  out += "]}\n";
  fputs(out.c_str(), stdout);
  return any_fail ? 1 : 0;
}
