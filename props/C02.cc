// C02: division returns the exact quotient/remainder with the documented rounding
#include "../harness/gen.hpp"
#include "../harness/thresholds.hpp"
using namespace eng; using namespace gen; using ref::Int;

// ---- operand construction (backward: n = q*d + r) -----------------------------
struct DivCase { Int n, d, q, r; };   // all non-negative here; signs applied by the mpz layer
static size_t nn_cap(unsigned scale) { return expcap(scale, 6, 6000); }

// divisor of dn limbs with top limb non-zero; "norm" forces the top bit
static Limbs gen_divisor(ByteSource& in, size_t dn, bool norm, CaseInfo& ci) {
  Limbs d = limbs_nz(in, dn);
  unsigned k = in.pick({6, 2, 2, 2, 1});
  if (k == 1) { d.assign(dn, ~0ull); }                                   // B^dn - 1
  else if (k == 2) { d.assign(dn, 0); d[dn - 1] = 1ull << in.range(0, 63); }   // power of two
  else if (k == 3) { d[dn - 1] = in.flag() ? 0x8000000000000000ull : 0xffffffffffffffffull; if (dn > 1 && in.flag()) d[dn - 2] = in.flag() ? 0 : ~0ull; }
  else if (k == 4) { d[dn - 1] = 1; }                                     // tiny top limb (maximal normalisation shift)
  if (norm) d[dn - 1] |= 0x8000000000000000ull;
  if (!(d[dn - 1] >> 63)) ci.label("unnormalised_d");
  return d;
}
static DivCase gen_div(ByteSource& in, CaseInfo& ci, bool norm_d, size_t dn_fixed = 0, size_t cap_override = 0) {
  size_t cap = cap_override ? cap_override : nn_cap(in.scale);
  size_t dn, qn;
  if (dn_fixed) dn = dn_fixed;
  else dn = size_near(in, 1, std::max<size_t>(1, cap / 2), {DC_DIV_QR_THRESHOLD, DC_DIV_Q_THRESHOLD, DC_DIVAPPR_Q_THRESHOLD, INV_DIV_Q_THRESHOLD, INV_DIV_QR_THRESHOLD, 2, 3});
  unsigned shape = in.pick({4, 3, 3, 2, 2});
  size_t room = cap > dn ? cap - dn : 1;
  if (shape == 0) qn = (size_t)in.range(0, std::min<size_t>(room, 6));                       // short quotient (qn << dn): fix-up path
  else if (shape == 1) qn = std::min(room, dn > 3 ? dn - 2 + (size_t)in.range(0, 4) : (size_t)in.range(0, 5));   // nn ~ 2*dn boundary
  else if (shape == 2) qn = size_near(in, 0, room, {DC_DIV_QR_THRESHOLD, DC_DIV_Q_THRESHOLD, DC_DIVAPPR_Q_THRESHOLD, INV_DIV_Q_THRESHOLD, INV_DIV_QR_THRESHOLD});
  else if (shape == 3) qn = (size_t)in.logrange(0, room);
  else qn = std::min<size_t>(room, dn + (size_t)in.logrange(0, room));                       // long quotient
  if (qn > room) qn = room;
  DivCase c; Limbs dl = gen_divisor(in, dn, norm_d, ci); c.d = Int::from_limbs(dl.data(), dn);
  unsigned mode = in.pick({6, 3, 2, 2, 2});
  if (mode == 4 && (norm_d || qn == 0)) mode = 0;   // (the constructed divisor of mode 4 is not normalised)
  if (mode == 4) {
    // q*d straddles a power of two: n = 2^K - t with (mostly) K a multiple of 64, so that n's leading limbs are all ones, and
    // d = ceil(2^K / m) for a qn-limb m with a small top limb; the approximate quotient is then m.000 and the check product m*d of
    // the quotient-only division overflows the dividend's length by a carry
    Limbs ml = limbs(in, qn); unsigned top = in.pick({4, 1, 1, 2}); if (top < 3) ml[qn - 1] = top + 1; if (ml[qn - 1] == 0) ml[qn - 1] = 1;
    Int m = Int::from_limbs(ml.data(), qn);
    uint64_t K = 64 * (dn + qn - 1); unsigned ck = in.pick({4, 1, 1}); uint64_t cut = ck == 0 ? 0 : ck == 1 ? 64 : in.range(0, 130); if (K > cut + 64) K -= cut;
    Int B = ref::pow2(K), dq, dr; ref::tdivrem(B, m, dq, dr); if (!dr.is_zero() && in.pick({3, 1}) == 0) dq = dq + Int(1);
    if (dq.is_zero()) dq = Int(1);
    c.d = dq; unsigned nk = in.pick({3, 2, 1}); long long t = (long long)in.range(0, 3);
    c.n = nk == 0 ? B - Int(t) : nk == 1 ? m * c.d - Int(t) : m * c.d + Int(t); if (c.n.sgn() < 0) c.n = Int(0);
    ref::tdivrem(c.n, c.d, c.q, c.r); ci.label("qd_straddles_power_of_two");
  } else if (mode == 0 || qn == 0) {
    // chosen quotient and remainder
    Limbs ql = limbs(in, qn); unsigned qs = in.pick({5, 3, 2});
    if (qs == 1) ql.assign(qn, ~0ull);                                   // all-ones quotient limbs
    if (qs == 2 && qn) { ql.assign(qn, 0); ql[qn - 1] = 1; if (in.flag()) { ql.assign(qn, ~0ull); ql[qn - 1] = 0; } }
    c.q = Int::from_limbs(ql.data(), qn);
    unsigned rs = in.pick({4, 2, 2, 2});
    if (rs == 0) { Limbs rl = limbs(in, dn); c.r = ref::tmod(Int::from_limbs(rl.data(), dn), c.d); }
    else if (rs == 1) c.r = Int(0); else if (rs == 2) c.r = c.d - Int(1); else c.r = ref::tmod(Int((long long)in.range(0, 3)), c.d);
    c.n = c.q * c.d + c.r;
    if (c.r.is_zero()) ci.label("r_zero"); if (c.r == c.d - Int(1) && dn >= 1 && !(c.d == Int(1))) ci.label("r_eq_d_minus_1");
    for (auto x : c.q.m) if (x == ~0ull) { ci.label("q_limb_allones"); break; }
    if (qn + 3 < dn && qn > 0) ci.label("short_quotient");
  } else {
    // dividend whose leading limbs equal the divisor's (n1 == d1 paths), or arbitrary dividend
    size_t nn = dn + qn; Limbs nl = limbs(in, nn);
    if (mode == 1) { size_t k = (size_t)in.range(1, dn); for (size_t i = 0; i < k; i++) nl[nn - 1 - i] = dl[dn - 1 - i]; ci.label("n_prefix_equals_d");
                     if (in.flag() && nn > k) nl[nn - 1 - k] = in.flag() ? ~0ull : 0; }
    else if (mode == 2) { // several places where a window of n equals d's top limbs minus a little
      for (long pos = (long)nn; pos >= (long)dn && pos > 0; pos -= (long)in.range(1, 3)) { nl[pos - 1] = dl[dn - 1]; if (pos >= 2 && dn >= 2) nl[pos - 2] = dl[dn - 2] - (in.flag() ? 1 : 0); }
      ci.label("n_windows_equal_d"); }
    c.n = Int::from_limbs(nl.data(), nn);
    ref::tdivrem(c.n, c.d, c.q, c.r);
  }
  return c;
}

// ---- mpn layer -------------------------------------------------------------------
static void case_tdiv_qr(ByteSource& in, CaseInfo& ci) {
  DivCase c = gen_div(in, ci, false);
  size_t dn = c.d.size(), nn = std::max(c.n.size(), dn);
  if (in.chance(60)) nn += (size_t)in.range(1, 3);     // dividend with high zero limbs is allowed (only dp's top limb must be non-zero)
  Limbs np(nn, 0); std::copy(c.n.m.begin(), c.n.m.end(), np.begin()); Limbs dp = c.d.m;
  size_t qn = nn - dn + 1;
  ci.d("mpn_tdiv_qr nn=%zu dn=%zu ", nn, dn); DESC(ci, "n=" + show(c.n, 64) + " d=" + show(c.d, 64));
  ci.label("mpn_tdiv_qr"); if (nn > dn || dn >= 2) ci.nontrivial = true;
  if (dn >= INV_DIV_QR_THRESHOLD) ci.label("dn_ge_inv_div_qr"); else if (dn >= DC_DIV_QR_THRESHOLD) ci.label("dn_ge_dc_div_qr");
  Guarded q(qn), r(dn); Limbs n0 = np, d0 = dp;
  mpn_tdiv_qr(q.p(), r.p(), 0, np.data(), nn, dp.data(), dn);
  REQUIRE(q.intact() && r.intact(), "mpn_tdiv_qr(nn=%zu,dn=%zu): wrote outside quotient/remainder areas", nn, dn);
  REQUIRE(np == n0 && dp == d0, "mpn_tdiv_qr(nn=%zu,dn=%zu): a source operand was modified", nn, dn);
  Int Q = Int::from_limbs(q.p(), qn), R = Int::from_limbs(r.p(), dn);
  REQUIRE(R < c.d, "mpn_tdiv_qr(nn=%zu,dn=%zu): remainder >= divisor", nn, dn);
  REQUIRE(Q == c.q && R == c.r, "mpn_tdiv_qr(nn=%zu,dn=%zu): wrong %s", nn, dn, Q == c.q ? "remainder" : "quotient");
}
static void case_tdiv_q(ByteSource& in, CaseInfo& ci) {
  DivCase c = gen_div(in, ci, false);
  size_t dn = c.d.size(), nn = std::max(c.n.size(), dn);
  if (in.chance(60)) nn += (size_t)in.range(1, 3);
  Limbs np(nn, 0); std::copy(c.n.m.begin(), c.n.m.end(), np.begin()); Limbs dp = c.d.m; size_t qn = nn - dn + 1;
  ci.d("mpn_tdiv_q nn=%zu dn=%zu ", nn, dn); DESC(ci, "n=" + show(c.n, 64) + " d=" + show(c.d, 64));
  ci.label("mpn_tdiv_q"); if (nn > dn || dn >= 2) ci.nontrivial = true; if (qn + 5 < dn) ci.label("tdiv_q:short_quotient_branch"); else ci.label("tdiv_q:long_quotient_branch");
  Guarded q(qn); Limbs n0 = np, d0 = dp;
  mpn_tdiv_q(q.p(), np.data(), nn, dp.data(), dn);
  REQUIRE(q.intact(), "mpn_tdiv_q(nn=%zu,dn=%zu): wrote outside the %zu-limb quotient area", nn, dn, qn);
  REQUIRE(np == n0 && dp == d0, "mpn_tdiv_q(nn=%zu,dn=%zu): a source operand was modified", nn, dn);
  REQUIRE(Int::from_limbs(q.p(), qn) == c.q, "mpn_tdiv_q(nn=%zu,dn=%zu): wrong quotient", nn, dn);
}
static void case_divrem(ByteSource& in, CaseInfo& ci) {
  DivCase c = gen_div(in, ci, true, 0, std::min<size_t>(nn_cap(in.scale), 1200));
  size_t dn = c.d.size(), nn = std::max(c.n.size(), dn); size_t qxn = in.pick({5, 2, 1, 1});
  if (in.chance(40)) nn += 1;
  // qxn fraction limbs: quotient of n*B^qxn
  Int N = ref::shl(c.n, 64 * qxn), Q, R; ref::tdivrem(N, c.d, Q, R);
  Limbs np(nn, 0); std::copy(c.n.m.begin(), c.n.m.end(), np.begin()); Limbs dp = c.d.m;
  size_t qn = nn - dn + qxn;    // area at r1p; the most significant quotient limb is returned
  ci.d("mpn_divrem nn=%zu dn=%zu qxn=%zu ", nn, dn, qxn); DESC(ci, "n=" + show(c.n, 64) + " d=" + show(c.d, 64));
  ci.label("mpn_divrem"); ci.nontrivial = true; if (qxn) ci.label("divrem_qxn");
  Guarded q(qn); Guarded nb(nn); memcpy(nb.p(), np.data(), nn * 8); Limbs d0 = dp;
  uint64_t hi = mpn_divrem(q.p(), qxn, nb.p(), nn, dp.data(), dn);
  REQUIRE(q.intact() && nb.intact(), "mpn_divrem(nn=%zu,dn=%zu,qxn=%zu): wrote outside its areas", nn, dn, qxn);
  REQUIRE(dp == d0, "mpn_divrem: divisor modified");
  Int Qg = Int::from_limbs(q.p(), qn) + ref::shl(Int::from_u64(hi), 64 * qn), Rg = Int::from_limbs(nb.p(), dn);
  REQUIRE(hi <= 1, "mpn_divrem: returned high quotient limb %llu (must be 0 or 1)", (unsigned long long)hi);
  REQUIRE(Qg == Q, "mpn_divrem(nn=%zu,dn=%zu,qxn=%zu): wrong quotient", nn, dn, qxn);
  REQUIRE(Rg == R, "mpn_divrem(nn=%zu,dn=%zu,qxn=%zu): wrong remainder", nn, dn, qxn);
}
static uint64_t gen_limb_divisor(ByteSource& in, CaseInfo& ci) {
  unsigned k = in.pick({4, 2, 2, 2, 2, 2, 1});
  uint64_t d;
  switch (k) {
    default: d = in.u64(); break;
    case 1: d = 1ull << in.range(0, 63); ci.label("d1:pow2"); break;
    case 2: { unsigned b = (unsigned)in.range(1, 64); d = b == 64 ? ~0ull : (1ull << b) - 1; ci.label("d1:2^k-1"); break; }
    case 3: d = in.u64() | 0x8000000000000000ull; ci.label("d1:normalised"); break;
    case 4: d = in.u64() & 0xffffffffull; ci.label("d1:lt_2^32"); break;
    case 5: d = (in.u64() << 1) >> (unsigned)in.range(1, 40); ci.label("d1:even"); break;
    case 6: d = PALETTE[in.u8() & 7]; break;
  }
  if (d == 0) d = 3;
  return d;
}
static void case_divrem_1(ByteSource& in, CaseInfo& ci) {
  unsigned f = in.pick({3, 2});   // divrem_1, mod_1
  size_t cap = expcap(in.scale, 8, 3000);
  size_t n = in.pick({1, 12}) == 0 ? 0 : size_near(in, 1, cap, {MOD_1_1_THRESHOLD, MOD_1_2_THRESHOLD, MOD_1_3_THRESHOLD, DIVREM_HENSEL_QR_1_THRESHOLD, RSH_DIVREM_HENSEL_QR_1_THRESHOLD, DIVREM_EUCLID_HENSEL_THRESHOLD, 33});
  uint64_t d = gen_limb_divisor(in, ci); Limbs a = limbs(in, n);
  if (n && in.chance(60)) { a[n - 1] = in.flag() ? d : d - 1; }          // top limb == d / just below d
  if (n && in.chance(40)) { Int t = Int::from_limbs(a.data(), n); Int q, r; ref::tdivrem(t, Int::from_u64(d), q, r); Int m = q * Int::from_u64(d) + (in.flag() ? Int(0) : Int::from_u64(d - 1)); a.assign(n, 0); for (size_t i = 0; i < std::min(n, m.m.size()); i++) a[i] = m.m[i]; }
  Int A = Int::from_limbs(a.data(), n), D = Int::from_u64(d);
  if (f == 1) {
    ci.label("mpn_mod_1"); if (n >= 2) ci.nontrivial = true;
    ci.d("mpn_mod_1 n=%zu d=0x%llx ", n, (unsigned long long)d); DESC(ci, "a=" + show(a, 64));
    Limbs a0 = a; uint64_t r = mpn_mod_1(a.data(), n, d);
    REQUIRE(a == a0, "mpn_mod_1: source modified");
    REQUIRE(Int::from_u64(r) == ref::tmod(A, D), "mpn_mod_1(n=%zu, d=0x%llx): returned 0x%llx, expected 0x%llx", n, (unsigned long long)d, (unsigned long long)r, (unsigned long long)ref::tmod(A, D).low());
    return;
  }
  size_t qxn = in.pick({5, 2, 1, 1}); bool inplace = qxn == 0 && n > 0 && in.flag();
  ci.label("mpn_divrem_1"); if (n >= 2) ci.nontrivial = true; if (n == 0) ci.label("divrem_1:n0"); if (qxn) ci.label("divrem_1:qxn");
  ci.d("mpn_divrem_1 n=%zu qxn=%zu d=0x%llx inplace=%d ", n, qxn, (unsigned long long)d, (int)inplace); DESC(ci, "a=" + show(a, 64));
  Int N = ref::shl(A, 64 * qxn), Q, R; ref::tdivrem(N, D, Q, R);
  Guarded q(n + qxn), s(n); if (n) memcpy(s.p(), a.data(), n * 8);
  uint64_t* qp = inplace ? s.p() : q.p();
  uint64_t r = mpn_divrem_1(qp, qxn, s.p(), n, d);
  REQUIRE(q.intact() && s.intact(), "mpn_divrem_1(n=%zu,qxn=%zu): wrote outside the quotient area", n, qxn);
  if (!inplace && n) REQUIRE(memcmp(s.p(), a.data(), n * 8) == 0, "mpn_divrem_1: source modified");
  REQUIRE(Int::from_u64(r) == R, "mpn_divrem_1(n=%zu,qxn=%zu,d=0x%llx): returned remainder 0x%llx, expected 0x%llx", n, qxn, (unsigned long long)d, (unsigned long long)r, (unsigned long long)R.low());
  REQUIRE(Int::from_limbs(qp, n + qxn) == Q, "mpn_divrem_1(n=%zu,qxn=%zu,d=0x%llx): wrong quotient", n, qxn, (unsigned long long)d);
}
static void case_by3(ByteSource& in, CaseInfo& ci) {
  size_t n = size_near(in, 1, expcap(in.scale, 8, 2000), {4, 8, 16});
  Limbs a = limbs(in, n); uint64_t ci_ = in.range(0, 2); bool inplace = in.flag();
  if (in.flag()) { Int t = Int::from_limbs(a.data(), n); Int m = ref::tdiv(t, Int(3)) * Int(3) + Int::from_u64(ci_); a.assign(n, 0); for (size_t i = 0; i < std::min(n, m.m.size()); i++) a[i] = m.m[i]; }   // exact case
  ci.label("mpn_divexact_by3c"); if (n >= 2) ci.nontrivial = true;
  ci.d("mpn_divexact_by3c n=%zu carry=%llu inplace=%d ", n, (unsigned long long)ci_, (int)inplace); DESC(ci, "a=" + show(a, 64));
  Guarded q(n), s(n); memcpy(s.p(), a.data(), n * 8); uint64_t* qp = inplace ? s.p() : q.p();
  uint64_t c = mpn_divexact_by3c(qp, s.p(), n, ci_);
  REQUIRE(q.intact() && s.intact(), "mpn_divexact_by3c: wrote outside destination");
  REQUIRE(c <= 2, "mpn_divexact_by3c: returned %llu (must be 0,1,2)", (unsigned long long)c);
  // manual: c*b^n + a - i = 3*q
  Int lhs = ref::shl(Int::from_u64(c), 64 * n) + Int::from_limbs(a.data(), n) - Int::from_u64(ci_);
  REQUIRE(lhs == Int(3) * Int::from_limbs(qp, n), "mpn_divexact_by3c(n=%zu,carry=%llu): c*b^n + a - i != 3*q (returned c=%llu)", n, (unsigned long long)ci_, (unsigned long long)c);
  if (c == 0) ci.label("by3:exact");
}

// ---- internal division routines declared in mpir.h, called directly ----------------------------------------------
// (anchors: mpn/generic/{sb,dc,inv}_div_{q,qr}.c, *_divappr_q.c, *_bdiv_*.c, invert.c).  Domains are those of the tree's own tests
// tests/mpn/t-{sb,dc,inv}_*.c: normalised divisor, dn >= 3 (sb) / 6 (dc, inv), nn >= dn (sb) / dn+3 (dc, inv), nn = 2dn for the _n forms;
// Hensel forms: odd divisor, dinv = d^-1 mod B.  The public dispatch reaches each of them only in its own size window; called directly
// they see every operand class at every size.  Oracles: floor quotient and remainder (refint); approximate quotients: floor(n/d) or one more (the contract
// stated in the sources); Hensel: q*d = n mod B^qn and the documented remainder/borrow; mpn_invert: B^n + x = floor((B^2n-1)/a).
static uint64_t pi1_inverse(const Limbs& d) {   // floor((B^3-1)/(d1*B+d0)) - B, the definition of the "3/2" inverse
  size_t dn = d.size(); uint64_t two[2] = {d[dn - 2], d[dn - 1]}; Int D2 = Int::from_limbs(two, 2);
  Int v = ref::tdiv(ref::pow2(192) - Int(1), D2) - ref::pow2(64); return v.low();
}
static uint64_t limb_inverse(uint64_t d) { uint64_t x = d; for (int i = 0; i < 6; i++) x *= 2 - d * x; return x; }   // d odd
static Int low_limbs(const Int& a, size_t k) { return Int::from_limbs(a.m.data(), std::min(k, a.m.size())); }
static void case_internal(ByteSource& in, CaseInfo& ci) {
  unsigned fam = in.pick({3, 4, 4, 3, 1});   // sb, dc, inv, Hensel, mpn_invert
  size_t cap = nn_cap(in.scale);
  if (fam == 4) {
    size_t n = size_near(in, 1, std::max<size_t>(1, std::min<size_t>(cap / 2, 2600)), {INV_DIV_QR_THRESHOLD, 2, 3, 4, 8, 16, 32, 64, 128});
    Limbs a = limbs(in, n); a[n - 1] |= 0x8000000000000000ull; if (in.chance(30)) { a.assign(n, 0); a[n - 1] = 0x8000000000000000ull; } if (in.chance(30)) a.assign(n, ~0ull);
    ci.label("internal:mpn_invert"); ci.nontrivial = n >= 2; ci.d("mpn_invert n=%zu ", n); DESC(ci, "a=" + show(a, 64));
    Guarded x(n); Limbs a0 = a; mpn_invert(x.p(), a.data(), (mp_size_t)n);
    REQUIRE(x.intact(), "mpn_invert(n=%zu): wrote outside the result", n); REQUIRE(a == a0, "mpn_invert: source modified");
    Int A = Int::from_limbs(a.data(), n), E = ref::tdiv(ref::pow2(128 * n) - Int(1), A) - ref::pow2(64 * n);
    REQUIRE(Int::from_limbs(x.p(), n) == E, "mpn_invert(n=%zu): result is not floor((B^2n-1)/a) - B^n", n);
    return;
  }
  if (fam == 3) {   // Hensel
    unsigned f = in.pick({2, 3, 2, 3});   // sb_bdiv_q, dc_bdiv_q, sb_bdiv_qr, dc_bdiv_qr
    static const char* nm[] = {"mpn_sb_bdiv_q", "mpn_dc_bdiv_q", "mpn_sb_bdiv_qr", "mpn_dc_bdiv_qr"};
    bool sb = f == 0 || f == 2, qr = f >= 2;
    size_t dn = sb ? (size_t)in.range(3, std::min<size_t>(std::max<size_t>(cap / 2, 3), 70)) : size_near(in, f == 1 ? 6 : 3, std::max<size_t>(6, std::min<size_t>(cap / 2, 700)), {DC_BDIV_Q_THRESHOLD, DC_BDIV_QR_THRESHOLD, 2 * DC_BDIV_Q_THRESHOLD});
    size_t extra = in.pick({2, 2, 1}) == 0 ? (size_t)in.range(0, 6) : in.flag() ? (size_t)in.logrange(0, std::min<size_t>(sb ? 200 : 1500, std::max<size_t>(cap, 8))) : dn * (size_t)in.range(1, 5) + (size_t)in.range(0, 3);
    if (!sb && extra > 1500) extra = 1500; if (sb && extra > 200) extra = 200;
    size_t nn = dn + extra; if (qr && nn == dn) nn++;
    Limbs d = limbs(in, dn), n = limbs(in, nn); d[0] |= 1; if (in.chance(40)) for (size_t i = (size_t)in.range(0, nn - 1); i < nn; i++) n[i] = in.flag() ? 0 : ~0ull;
    uint64_t dinv = limb_inverse(d[0]); Int N = Int::from_limbs(n.data(), nn), D = Int::from_limbs(d.data(), dn);
    ci.label("internal:hensel"); ci.label(nm[f]); ci.nontrivial = true; ci.d("%s nn=%zu dn=%zu ", nm[f], nn, dn); DESC(ci, "n=" + show(n, 64) + " d=" + show(d, 64));
    Limbs d0 = d; Guarded np(nn); memcpy(np.p(), n.data(), nn * 8);
    if (!qr) {
      Guarded q(nn), w(2);
      if (f == 0) mpn_sb_bdiv_q(q.p(), w.p(), np.p(), (mp_size_t)nn, d.data(), (mp_size_t)dn, dinv); else mpn_dc_bdiv_q(q.p(), np.p(), (mp_size_t)nn, d.data(), (mp_size_t)dn, dinv);
      REQUIRE(q.intact() && np.intact() && w.intact(), "%s(nn=%zu,dn=%zu): wrote outside its areas", nm[f], nn, dn); REQUIRE(d == d0, "%s: divisor modified", nm[f]);
      Int Q = Int::from_limbs(q.p(), nn);
      REQUIRE(low_limbs(Q * D, nn) == N, "%s(nn=%zu,dn=%zu): q*d != n mod B^nn", nm[f], nn, dn);
      if (f == 0) {   // the two overflow limbs: floor(sum_j (q mod B^(nn-j)) * d_j * B^j / B^nn)   (tests/mpn/t-sb_bdiv_q.c)
        Int T(0); for (size_t j = 0; j < dn; j++) T = T + ref::shl(low_limbs(Q, nn - j) * Int::from_u64(d[j]), 64 * j);
        Int W = ref::tshr(T, 64 * nn); REQUIRE(Int::from_limbs(w.p(), 2) == W, "mpn_sb_bdiv_q(nn=%zu,dn=%zu): wrong overflow limbs", nn, dn); }
    } else {
      size_t qn = nn - dn; Guarded q(qn);
      uint64_t cy = f == 2 ? mpn_sb_bdiv_qr(q.p(), np.p(), (mp_size_t)nn, d.data(), (mp_size_t)dn, dinv) : mpn_dc_bdiv_qr(q.p(), np.p(), (mp_size_t)nn, d.data(), (mp_size_t)dn, dinv);
      REQUIRE(q.intact() && np.intact(), "%s(nn=%zu,dn=%zu): wrote outside its areas", nm[f], nn, dn); REQUIRE(d == d0, "%s: divisor modified", nm[f]);
      Int Q = Int::from_limbs(q.p(), qn), QD = Q * D;
      REQUIRE(low_limbs(QD, qn) == low_limbs(N, qn), "%s(nn=%zu,dn=%zu): q*d != n mod B^qn", nm[f], nn, dn);
      Int T = N - QD; uint64_t ecy = T.sgn() < 0; if (ecy) T = T + ref::pow2(64 * nn);
      REQUIRE(Int::from_limbs(np.p() + qn, dn) == ref::tshr(T, 64 * qn), "%s(nn=%zu,dn=%zu): wrong remainder limbs", nm[f], nn, dn);
      REQUIRE(cy == ecy, "%s(nn=%zu,dn=%zu): returned borrow %llu, expected %llu", nm[f], nn, dn, (unsigned long long)cy, (unsigned long long)ecy);
    }
    return;
  }
  // Euclidean families
  static const char* fn[3][5] = {{"mpn_sb_div_qr", "mpn_sb_div_q", "mpn_sb_divappr_q", "mpn_sb_div_qr", "mpn_sb_divappr_q"},
                                 {"mpn_dc_div_qr", "mpn_dc_div_q", "mpn_dc_divappr_q", "mpn_dc_div_qr_n", "mpn_dc_divappr_q"},
                                 {"mpn_inv_div_qr", "mpn_inv_div_q", "mpn_inv_divappr_q", "mpn_inv_div_qr_n", "mpn_inv_divappr_q_n"}};
  unsigned f = in.pick({3, 3, 3, 2, 2}); const char* name = fn[fam][f];
  bool is_n = (fam >= 1 && f == 3) || (fam == 2 && f == 4);
  size_t mind = fam == 0 ? 3 : 6, maxd = fam == 0 ? 90 : fam == 1 ? 900 : 2600;
  size_t dn = size_near(in, mind, std::max(mind, std::min(cap / 2, maxd)), {DC_DIV_QR_THRESHOLD, DC_DIV_Q_THRESHOLD, DC_DIVAPPR_Q_THRESHOLD, DC_DIVAPPR_Q_N_THRESHOLD, INV_DIV_QR_THRESHOLD, INV_DIVAPPR_Q_N_THRESHOLD, 2 * DC_DIV_QR_THRESHOLD, 2 * DC_DIVAPPR_Q_THRESHOLD});
  DivCase c = gen_div(in, ci, true, dn, is_n ? 2 * dn : std::max(cap, dn + 8));
  size_t nn = is_n ? 2 * dn : std::max(c.n.size(), dn + (fam == 0 ? ((f == 2 || f == 4) ? 1 : 0) : 3));   /* (mpn_sb_divappr_q with nn = dn stores a limb at qp[0] although the quotient is the returned limb alone; no caller in the tree passes nn = dn, so that is left out of the domain) */ if (!is_n && in.chance(50)) nn += (size_t)in.range(1, 2);
  Limbs dl = c.d.m; Guarded np(nn); memset(np.p(), 0, nn * 8); memcpy(np.p(), c.n.m.data(), c.n.m.size() * 8); size_t qn = nn - dn + 1;
  ci.label(fam == 0 ? "internal:sb" : fam == 1 ? "internal:dc" : "internal:inv"); ci.label(name); ci.nontrivial = true;
  ci.d("%s nn=%zu dn=%zu ", name, nn, dn); DESC(ci, "n=" + show(c.n, 64) + " d=" + show(c.d, 64));
  Limbs inv; uint64_t dip = 0;
  if (fam == 2) { Int X = ref::tdiv(ref::pow2(128 * dn) - Int(1), c.d) - ref::pow2(64 * dn); inv.assign(dn, 0); std::copy(X.m.begin(), X.m.end(), inv.begin()); } else dip = pi1_inverse(dl);
  Limbs d0 = dl, inv0 = inv; Guarded q(qn - 1), tp(fam == 1 && f == 3 ? 4 * dn + 64 : 0); uint64_t qh;
  mp_size_t NN = (mp_size_t)nn, DN = (mp_size_t)dn;
  if (fam == 0) qh = f == 1 ? mpn_sb_div_q(q.p(), np.p(), NN, dl.data(), DN, dip) : (f == 2 || f == 4) ? mpn_sb_divappr_q(q.p(), np.p(), NN, dl.data(), DN, dip) : mpn_sb_div_qr(q.p(), np.p(), NN, dl.data(), DN, dip);
  else if (fam == 1) qh = f == 0 ? mpn_dc_div_qr(q.p(), np.p(), NN, dl.data(), DN, dip) : f == 1 ? mpn_dc_div_q(q.p(), np.p(), NN, dl.data(), DN, dip) : f == 3 ? mpn_dc_div_qr_n(q.p(), np.p(), dl.data(), DN, dip, tp.p()) : mpn_dc_divappr_q(q.p(), np.p(), NN, dl.data(), DN, dip);
  else qh = f == 0 ? mpn_inv_div_qr(q.p(), np.p(), NN, dl.data(), DN, inv.data()) : f == 1 ? mpn_inv_div_q(q.p(), np.p(), NN, dl.data(), DN, inv.data()) : f == 2 ? mpn_inv_divappr_q(q.p(), np.p(), NN, dl.data(), DN, inv.data()) : f == 3 ? mpn_inv_div_qr_n(q.p(), np.p(), dl.data(), DN, inv.data()) : mpn_inv_divappr_q_n(q.p(), np.p(), dl.data(), DN, inv.data());
  REQUIRE(q.intact() && np.intact() && tp.intact(), "%s(nn=%zu,dn=%zu): wrote outside the quotient, dividend or scratch area", name, nn, dn);
  REQUIRE(dl == d0 && inv == inv0, "%s: divisor or inverse modified", name);
  Int Q = Int::from_limbs(q.p(), qn - 1) + ref::shl(Int::from_u64(qh), 64 * (qn - 1));
  bool appr = (f == 2 || f == 4) && !(fam == 1 && f == 3);
  if (appr) { REQUIRE(Q == c.q || Q == c.q + Int(1), "%s(nn=%zu,dn=%zu): approximate quotient is neither floor(n/d) nor one more (q - floor(n/d) = %s)", name, nn, dn, show(Q - c.q).c_str()); if (!(Q == c.q)) ci.label("internal:appr_q_plus_1"); }
  else REQUIRE(Q == c.q, "%s(nn=%zu,dn=%zu): wrong quotient", name, nn, dn);
  if (f == 0 || f == 3) REQUIRE(Int::from_limbs(np.p(), dn) == c.r, "%s(nn=%zu,dn=%zu): wrong remainder", name, nn, dn);
}

// ---- mpz layer ----------------------------------------------------------------------
enum Rnd { T, F, C };
static void expect_div(Rnd rnd, const Int& n, const Int& d, Int& q, Int& r) { if (rnd == T) ref::tdivrem(n, d, q, r); else if (rnd == F) ref::fdivrem(n, d, q, r); else ref::cdivrem(n, d, q, r); }
struct Z3 { mpz_t a, b, c, d; Z3() { mpz_init(a); mpz_init(b); mpz_init(c); mpz_init(d); } ~Z3() { mpz_clear(a); mpz_clear(b); mpz_clear(c); mpz_clear(d); } };
static void junk(ByteSource& in, mpz_ptr z) { Limbs j = limbs_nz(in, (size_t)in.range(0, 4)); mpz_from_limbs(z, j.data(), j.size(), in.flag()); }

static void case_mpz_div(ByteSource& in, CaseInfo& ci) {
  Rnd rnd = (Rnd)in.range(0, 2); unsigned form = in.pick({4, 3, 3});   // qr, q, r
  static const char* rn[] = {"tdiv", "fdiv", "cdiv"}; static const char* fm[] = {"qr", "q", "r"};
  DivCase c = gen_div(in, ci, false);
  Int N = in.flag() ? -c.n : c.n, D = in.flag() ? -c.d : c.d; if (in.chance(12)) N = Int(0);
  Int Q, R; expect_div(rnd, N, D, Q, R);
  Z3 z; mpz_from_int(z.a, N); mpz_from_int(z.b, D); junk(in, z.c); junk(in, z.d);
  char nm[32]; snprintf(nm, sizeof nm, "mpz_%s_%s", rn[rnd], fm[form]); ci.label(rnd == T ? "mpz_tdiv" : rnd == F ? "mpz_fdiv" : "mpz_cdiv");
  if (N.sgn() < 0 && D.sgn() < 0) ci.label("sign:--"); else if (N.sgn() < 0) ci.label("sign:-+"); else if (D.sgn() < 0) ci.label("sign:+-");
  if (c.n.size() > c.d.size() || c.d.size() >= 2) ci.nontrivial = true;
  // alias pattern: outputs may alias inputs (never each other)
  unsigned al = in.pick({4, 1, 1, 1, 1});
  ci.d("%s alias=%u ", nm, al); DESC(ci, "n=" + show(N, 64) + " d=" + show(D, 64));
  mpz_ptr qp = z.c, rp = z.d;
  if (form == 0) { if (al == 1) qp = z.a; else if (al == 2) qp = z.b; else if (al == 3) rp = z.a; else if (al == 4) rp = z.b; }
  else if (form == 1) { if (al == 1 || al == 3) qp = z.a; else if (al == 2 || al == 4) qp = z.b; }
  else { if (al == 1 || al == 3) rp = z.a; else if (al == 2 || al == 4) rp = z.b; }
  if (form == 0) { if (rnd == T) mpz_tdiv_qr(qp, rp, z.a, z.b); else if (rnd == F) mpz_fdiv_qr(qp, rp, z.a, z.b); else mpz_cdiv_qr(qp, rp, z.a, z.b); }
  else if (form == 1) { if (rnd == T) mpz_tdiv_q(qp, z.a, z.b); else if (rnd == F) mpz_fdiv_q(qp, z.a, z.b); else mpz_cdiv_q(qp, z.a, z.b); }
  else { if (rnd == T) mpz_tdiv_r(rp, z.a, z.b); else if (rnd == F) mpz_fdiv_r(rp, z.a, z.b); else mpz_cdiv_r(rp, z.a, z.b); }
  if (form != 2) { REQUIRE_WF(qp, nm); REQUIRE(int_from_mpz(qp) == Q, "%s (alias %u): wrong quotient", nm, al); }
  if (form != 1) { REQUIRE_WF(rp, nm); Int Rg = int_from_mpz(rp);
    REQUIRE(ref::cmpabs(Rg, D) < 0, "%s: |r| >= |d|", nm);
    REQUIRE(Rg == R, "%s (alias %u): wrong remainder (n=q*d+r with the documented sign fails)", nm, al); }
  if (qp != z.a && rp != z.a) REQUIRE(int_from_mpz(z.a) == N, "%s: dividend modified", nm);
  if (qp != z.b && rp != z.b) REQUIRE(int_from_mpz(z.b) == D, "%s: divisor modified", nm);
}
static void case_mpz_div_ui(ByteSource& in, CaseInfo& ci) {
  Rnd rnd = (Rnd)in.range(0, 2); unsigned form = in.pick({3, 3, 3, 3});   // qr_ui, q_ui, r_ui, ui
  static const char* rn[] = {"tdiv", "fdiv", "cdiv"}; static const char* fm[] = {"qr_ui", "q_ui", "r_ui", "ui"};
  uint64_t d = gen_limb_divisor(in, ci);
  Int A = gen_int(in, std::max<size_t>(1, expcap(in.scale, 4, 1500)));
  if (in.chance(70)) { Int q = ref::tdiv(A, Int::from_u64(d)); A = q * Int::from_u64(d) + (in.flag() ? Int(0) : (A.neg ? -Int::from_u64(d - 1) : Int::from_u64(d - 1))); }
  Int D = Int::from_u64(d), Q, R; expect_div(rnd, A, D, Q, R);
  char nm[32]; snprintf(nm, sizeof nm, "mpz_%s_%s", rn[rnd], fm[form]); ci.label("mpz_div_ui"); if (A.size() >= 2) ci.nontrivial = true;
  ci.d("%s d=%llu ", nm, (unsigned long long)d); DESC(ci, "n=" + show(A, 64));
  Z3 z; mpz_from_int(z.a, A); junk(in, z.c); junk(in, z.d); bool inplace = in.chance(70);
  mpz_ptr qp = z.c, rp = z.d; if (inplace) { if (form == 2) rp = z.a; else qp = z.a; }
  uint64_t ret;
  switch (form) {
    case 0: ret = rnd == T ? mpz_tdiv_qr_ui(qp, rp, z.a, d) : rnd == F ? mpz_fdiv_qr_ui(qp, rp, z.a, d) : mpz_cdiv_qr_ui(qp, rp, z.a, d); break;
    case 1: ret = rnd == T ? mpz_tdiv_q_ui(qp, z.a, d) : rnd == F ? mpz_fdiv_q_ui(qp, z.a, d) : mpz_cdiv_q_ui(qp, z.a, d); break;
    case 2: ret = rnd == T ? mpz_tdiv_r_ui(rp, z.a, d) : rnd == F ? mpz_fdiv_r_ui(rp, z.a, d) : mpz_cdiv_r_ui(rp, z.a, d); break;
    default: ret = rnd == T ? mpz_tdiv_ui(z.a, d) : rnd == F ? mpz_fdiv_ui(z.a, d) : mpz_cdiv_ui(z.a, d); break;
  }
  REQUIRE(Int::from_u64(ret) == R.abs(), "%s(d=%llu): returned %llu, expected |r| = %llu", nm, (unsigned long long)d, (unsigned long long)ret, (unsigned long long)R.abs().low());
  if (form <= 1) { REQUIRE_WF(qp, nm); REQUIRE(int_from_mpz(qp) == Q, "%s(d=%llu): wrong quotient", nm, (unsigned long long)d); }
  if (form == 0 || form == 2) { REQUIRE_WF(rp, nm); REQUIRE(int_from_mpz(rp) == R, "%s(d=%llu): wrong remainder", nm, (unsigned long long)d); }
  if (qp != z.a && rp != z.a) REQUIRE(int_from_mpz(z.a) == A, "%s: dividend modified", nm);
}
static void case_mpz_2exp(ByteSource& in, CaseInfo& ci) {
  Rnd rnd = (Rnd)in.range(0, 2); bool wantq = in.flag(); static const char* rn[] = {"tdiv", "fdiv", "cdiv"};
  Int A = gen_int(in, std::max<size_t>(1, expcap(in.scale, 4, 1500)));
  uint64_t b; unsigned k = in.pick({3, 3, 2, 2});
  if (k == 0) { static const uint64_t c[] = {0, 1, 63, 64, 65, 127, 128, 129}; b = c[in.range(0, 7)]; }
  else if (k == 1) b = in.range(0, 64 * A.size() + 70);
  else if (k == 2) b = 64 * in.range(0, A.size() + 1);
  else { b = A.bits() + (uint64_t)in.srange(-2, 2); if ((int64_t)b < 0) b = 0; }
  // low bits zero variants: exact division by 2^b
  if (in.chance(60) && !A.is_zero()) { A = ref::shl(ref::tshr(A, b), b); if (A.is_zero()) A = ref::shl(Int(1), b); }
  Int D = ref::pow2(b), Q, R; expect_div(rnd, A, D, Q, R);
  char nm[32]; snprintf(nm, sizeof nm, "mpz_%s_%s_2exp", rn[rnd], wantq ? "q" : "r"); ci.label("mpz_div_2exp"); if (A.size() >= 2) ci.nontrivial = true;
  ci.d("%s b=%llu ", nm, (unsigned long long)b); DESC(ci, "n=" + show(A, 64));
  Z3 z; mpz_from_int(z.a, A); junk(in, z.c); bool inplace = in.flag(); mpz_ptr o = inplace ? z.a : z.c;
  if (wantq) { if (rnd == T) mpz_tdiv_q_2exp(o, z.a, b); else if (rnd == F) mpz_fdiv_q_2exp(o, z.a, b); else mpz_cdiv_q_2exp(o, z.a, b); }
  else { if (rnd == T) mpz_tdiv_r_2exp(o, z.a, b); else if (rnd == F) mpz_fdiv_r_2exp(o, z.a, b); else mpz_cdiv_r_2exp(o, z.a, b); }
  REQUIRE_WF(o, nm); REQUIRE(int_from_mpz(o) == (wantq ? Q : R), "%s(b=%llu): wrong %s", nm, (unsigned long long)b, wantq ? "quotient" : "remainder");
  if (!inplace) REQUIRE(int_from_mpz(z.a) == A, "%s: input modified", nm);
  if (R.is_zero()) ci.label("2exp:exact"); if (A.neg && !R.is_zero()) ci.label("2exp:neg_inexact");
}
static void case_mpz_misc(ByteSource& in, CaseInfo& ci) {
  unsigned f = in.pick({4, 3, 4, 3, 3, 2, 2, 3, 2, 2});
  static const char* names[] = {"mpz_mod", "mpz_mod_ui", "mpz_divexact", "mpz_divexact_ui", "mpz_divisible_p", "mpz_divisible_ui_p", "mpz_divisible_2exp_p", "mpz_congruent_p", "mpz_congruent_ui_p", "mpz_congruent_2exp_p"};
  ci.label(names[f]); Z3 z; junk(in, z.c);
  switch (f) {
    case 0: { DivCase c = gen_div(in, ci, false); Int N = in.flag() ? -c.n : c.n, D = in.flag() ? -c.d : c.d; Int E = ref::emod(N, D);
      mpz_from_int(z.a, N); mpz_from_int(z.b, D); unsigned al = in.pick({3, 1, 1}); mpz_ptr o = al == 0 ? z.c : al == 1 ? z.a : z.b;
      ci.d("mpz_mod alias=%u ", al); DESC(ci, "n=" + show(N, 64) + " d=" + show(D, 64)); ci.nontrivial = c.n.size() >= 2;
      mpz_mod(o, z.a, z.b); REQUIRE_WF(o, "mpz_mod"); REQUIRE(int_from_mpz(o) == E, "mpz_mod (alias %u): wrong result (must be in [0,|d|))", al);
      if (al != 1) REQUIRE(int_from_mpz(z.a) == N, "mpz_mod: n modified"); if (al != 2) REQUIRE(int_from_mpz(z.b) == D, "mpz_mod: d modified"); break; }
    case 1: { uint64_t d = gen_limb_divisor(in, ci); Int A = gen_int(in, std::max<size_t>(1, expcap(in.scale, 4, 800))); Int E = ref::emod(A, Int::from_u64(d));
      mpz_from_int(z.a, A); bool inplace = in.flag(); mpz_ptr o = inplace ? z.a : z.c; ci.nontrivial = A.size() >= 2;
      ci.d("mpz_mod_ui d=%llu ", (unsigned long long)d); DESC(ci, "n=" + show(A, 64));
      uint64_t r = mpz_mod_ui(o, z.a, d); REQUIRE_WF(o, "mpz_mod_ui"); REQUIRE(int_from_mpz(o) == E && Int::from_u64(r) == E, "mpz_mod_ui(d=%llu): wrong result/return", (unsigned long long)d); break; }
    case 2: { DivCase c = gen_div(in, ci, false);
      if (in.chance(48)) {   // the inverse-based branch of mpn_divexact (quotient or divisor of INV_DIV_QR_THRESHOLD limbs and more, divisor above 6 limbs) with a quotient whose low limbs are zero
        bool bigd = in.flag(); size_t big = (size_t)INV_DIV_QR_THRESHOLD + (size_t)in.range(0, 60), small = (size_t)in.range(7, 24); if (big > 6000) big = 6000;
        Limbs dl = limbs_nz(in, bigd ? big : small), ql = limbs_nz(in, bigd ? (size_t)in.range(1, 8) : big); if (in.flag()) dl[0] |= 1; if (dl[0] == 0) dl[0] = 2;
        c.d = Int::from_limbs(dl.data(), dl.size()); c.q = Int::from_limbs(ql.data(), ql.size()); if (in.chance(170)) { c.q = ref::shl(c.q, 64 * (uint64_t)in.range(1, 3)); ci.label("divexact:inverse_branch_quotient_low_limbs_zero"); } else ci.label("divexact:inverse_branch"); }
      else if (in.chance(40)) {   // the Hensel branch of mpn_divexact with a quotient of several divisor-sized blocks (mpn_dc_bdiv_q: borrow between the blocks), divisor at the divide-and-conquer threshold and above
        size_t dn = (size_t)DC_BDIV_Q_THRESHOLD + (size_t)in.range(0, 40), qn = dn * (size_t)in.range(3, 30) + (size_t)in.range(0, dn - 1); if (qn > 1500) qn = 1500 - (size_t)in.range(0, 50);
        Limbs dl = limbs_nz(in, dn, in.flag() ? S_RUNS : S_UNIFORM), ql = limbs_nz(in, qn, (unsigned)in.pick({2, 2, 1}) == 0 ? S_UNIFORM : S_RUNS); if (in.flag()) dl[0] |= 1;
        if (in.chance(100)) { size_t a = (size_t)in.range(1, qn - 1), b2 = (size_t)in.range(a, qn - 1); for (size_t i = a; i < b2; i++) ql[i] = in.flag() ? 0 : ~0ull; }   /* a long run of zero or all-ones limbs inside the quotient */
        if (in.chance(110)) { size_t low = (size_t)in.range(1, std::min<size_t>(qn - 1, 2 * dn)); bool ones = in.flag(); for (size_t i = low; i + 1 < qn; i++) ql[i] = ones ? ~0ull : 0; ql[qn - 1] = ones ? ~0ull : (in.flag() ? 1 : ql[qn - 1]); ci.label("divexact:quotient_top_and_low_limbs_only"); }   /* B^k +- small: every block above the lowest ones is zero (or all ones) */
        c.d = Int::from_limbs(dl.data(), dn); c.q = Int::from_limbs(ql.data(), qn); ci.label("divexact:hensel_many_blocks"); }
      else if (in.chance(44)) {   // a dividend that is zero between its top few limbs and its lowest ones: N = T*B^h + L with L = -T*B^h mod D, so that D divides N; the limbs of N that a
        // Hensel (low to high) division has not reached yet are all zero, and a borrow from the processed part ripples through all of them
        size_t dn = (size_t)in.range(7, 60), t = (size_t)in.range(1, dn - 1), h = dn * (size_t)in.range(2, 34) + (size_t)in.range(0, dn); Limbs dl = limbs_nz(in, dn), tl = limbs_nz(in, t); if (in.flag()) dl[0] |= 1;
        Int Dd = Int::from_limbs(dl.data(), dn), T = ref::shl(Int::from_limbs(tl.data(), t), 64 * h); Int r = ref::tmod(T, Dd); Int Nn = r.is_zero() ? T : T + (Dd - r); Int qq, rr; ref::tdivrem(Nn, Dd, qq, rr);
        if (rr.is_zero()) { c.d = Dd; c.q = qq; ci.label("divexact:dividend_zero_between_top_and_low_limbs"); } }
      Int D = in.flag() ? -c.d : c.d; Int Q = in.flag() ? -c.q : c.q; Int N = Q * D;   // exact by construction
      mpz_from_int(z.a, N); mpz_from_int(z.b, D); unsigned al = in.pick({3, 1, 1}); mpz_ptr o = al == 0 ? z.c : al == 1 ? z.a : z.b; ci.nontrivial = c.d.size() >= 2 || c.q.size() >= 2;
      ci.d("mpz_divexact alias=%u ", al); DESC(ci, "n=" + show(N, 64) + " d=" + show(D, 64));
      mpz_divexact(o, z.a, z.b); REQUIRE_WF(o, "mpz_divexact"); REQUIRE(int_from_mpz(o) == Q, "mpz_divexact (alias %u, |n|=%zu, |d|=%zu limbs): wrong quotient", al, N.size(), D.size());
      if (al != 1) REQUIRE(int_from_mpz(z.a) == N, "mpz_divexact: n modified"); if (al != 2) REQUIRE(int_from_mpz(z.b) == D, "mpz_divexact: d modified"); break; }
    case 3: { uint64_t d = gen_limb_divisor(in, ci); Int Q = gen_int(in, std::max<size_t>(1, expcap(in.scale, 4, 800))); Int N = Q * Int::from_u64(d);
      mpz_from_int(z.a, N); bool inplace = in.flag(); mpz_ptr o = inplace ? z.a : z.c; ci.nontrivial = Q.size() >= 2;
      ci.d("mpz_divexact_ui d=%llu ", (unsigned long long)d); DESC(ci, "n=" + show(N, 64));
      mpz_divexact_ui(o, z.a, d); REQUIRE_WF(o, "mpz_divexact_ui"); REQUIRE(int_from_mpz(o) == Q, "mpz_divexact_ui(d=%llu): wrong quotient", (unsigned long long)d); break; }
    case 4: { DivCase c = gen_div(in, ci, false); Int N = in.flag() ? -c.n : c.n, D = in.flag() ? -c.d : c.d;
      unsigned k = in.pick({6, 1, 1}); if (k == 1) D = Int(0); if (k == 2) { D = Int(0); N = Int(0); }
      bool e = D.is_zero() ? N.is_zero() : ref::tmod(N, D).is_zero();
      mpz_from_int(z.a, N); mpz_from_int(z.b, D); ci.nontrivial = c.n.size() >= 2; if (D.is_zero()) ci.label("d_zero");
      ci.d("mpz_divisible_p "); DESC(ci, "n=" + show(N, 64) + " d=" + show(D, 64));
      int g = mpz_divisible_p(z.a, z.b); REQUIRE((g != 0) == e, "mpz_divisible_p: returned %d, expected %d", g, (int)e); break; }
    case 5: { uint64_t d = in.chance(20) ? 0 : gen_limb_divisor(in, ci); Int A = gen_int(in, std::max<size_t>(1, expcap(in.scale, 4, 800)));
      if (d && in.flag()) A = ref::tdiv(A, Int::from_u64(d)) * Int::from_u64(d); if (!d && in.flag()) A = Int(0);
      bool e = d == 0 ? A.is_zero() : ref::tmod(A, Int::from_u64(d)).is_zero(); mpz_from_int(z.a, A); ci.nontrivial = A.size() >= 2; if (!d) ci.label("d_zero");
      ci.d("mpz_divisible_ui_p d=%llu ", (unsigned long long)d); DESC(ci, "n=" + show(A, 64));
      int g = mpz_divisible_ui_p(z.a, d); REQUIRE((g != 0) == e, "mpz_divisible_ui_p(d=%llu): returned %d, expected %d", (unsigned long long)d, g, (int)e); break; }
    case 6: { Int A = gen_int(in, std::max<size_t>(1, expcap(in.scale, 4, 800))); uint64_t b = in.range(0, 64 * A.size() + 66);
      if (in.flag()) A = ref::shl(ref::tshr(A, b), b); if (in.chance(40) && !A.is_zero()) { uint64_t tz = 0; while (!ref::mtest(A.m, tz)) tz++; b = tz + (uint64_t)in.range(0, 1); }
      bool e = ref::tmod(A, ref::pow2(b)).is_zero(); mpz_from_int(z.a, A); ci.nontrivial = A.size() >= 2;
      ci.d("mpz_divisible_2exp_p b=%llu ", (unsigned long long)b); DESC(ci, "n=" + show(A, 64));
      int g = mpz_divisible_2exp_p(z.a, b); REQUIRE((g != 0) == e, "mpz_divisible_2exp_p(b=%llu): returned %d, expected %d", (unsigned long long)b, g, (int)e); break; }
    case 7: { DivCase c = gen_div(in, ci, false); Int D = in.flag() ? -c.d : c.d; Int Cc = gen_int(in, c.d.size() + 1); Int N;
      unsigned k = in.pick({3, 3, 1, 1});
      if (k == 0) N = in.flag() ? -c.n : c.n; else if (k == 1) N = Cc + (in.flag() ? -c.q : c.q) * D;   // congruent by construction
      else if (k == 2) { D = Int(0); N = Cc; } else { D = Int(0); N = Cc + Int(1); }
      bool e = D.is_zero() ? N == Cc : ref::tmod(N - Cc, D).is_zero();
      mpz_from_int(z.a, N); mpz_from_int(z.b, Cc); mpz_from_int(z.d, D); ci.nontrivial = N.size() >= 2; if (D.is_zero()) ci.label("d_zero"); if (e) ci.label("congruent:true");
      ci.d("mpz_congruent_p "); DESC(ci, "n=" + show(N, 64) + " c=" + show(Cc, 64) + " d=" + show(D, 64));
      int g = mpz_congruent_p(z.a, z.b, z.d); REQUIRE((g != 0) == e, "mpz_congruent_p: returned %d, expected %d", g, (int)e); break; }
    case 8: { uint64_t d = in.chance(20) ? 0 : gen_limb_divisor(in, ci); uint64_t cc = in.flag() ? in.u64() : in.range(0, 10); Int A = gen_int(in, std::max<size_t>(1, expcap(in.scale, 4, 800)));
      if (in.flag()) { A = d ? Int::from_u64(cc) + A * Int::from_u64(d) : Int::from_u64(cc); }
      bool e = d == 0 ? A == Int::from_u64(cc) : ref::tmod(A - Int::from_u64(cc), Int::from_u64(d)).is_zero();
      mpz_from_int(z.a, A); ci.nontrivial = A.size() >= 2; if (!d) ci.label("d_zero"); if (e) ci.label("congruent:true");
      ci.d("mpz_congruent_ui_p c=%llu d=%llu ", (unsigned long long)cc, (unsigned long long)d); DESC(ci, "n=" + show(A, 64));
      int g = mpz_congruent_ui_p(z.a, cc, d); REQUIRE((g != 0) == e, "mpz_congruent_ui_p(c=%llu,d=%llu): returned %d, expected %d", (unsigned long long)cc, (unsigned long long)d, g, (int)e); break; }
    default: { Int A = gen_int(in, std::max<size_t>(1, expcap(in.scale, 4, 800))), Cc = gen_int(in, A.size() + 1); uint64_t b = in.range(0, 64 * std::max(A.size(), Cc.size()) + 66);
      if (in.flag()) { Cc = A + ref::shl(gen_int(in, 2), b); }   // congruent by construction
      bool e = ref::tmod(A - Cc, ref::pow2(b)).is_zero(); mpz_from_int(z.a, A); mpz_from_int(z.b, Cc); ci.nontrivial = A.size() >= 2; if (e) ci.label("congruent:true");
      ci.d("mpz_congruent_2exp_p b=%llu ", (unsigned long long)b); DESC(ci, "n=" + show(A, 64) + " c=" + show(Cc, 64));
      int g = mpz_congruent_2exp_p(z.a, z.b, b); REQUIRE((g != 0) == e, "mpz_congruent_2exp_p(b=%llu): returned %d, expected %d", (unsigned long long)b, g, (int)e); break; }
  }
}


// ---- exhaustive sweep: every (n,d) in [-130,130]^2 through every mpz division entry point ----------------------
// second sweep domain: every dividend of up to four limbs and divisor of up to three limbs with limbs from the 6-value palette
// {0, 1, 2^63-1, 2^63, 2^64-2, 2^64-1} (1296 x 215 pairs), all four sign combinations: the q/r/qr functions of the three rounding
// modes, the _ui forms for one-limb divisors, the 2exp forms, mpz_mod, divisibility
static void sweep_palette(uint64_t i, CaseInfo& ci) {
  Int N0 = palette_int(i % 1296, 4), D0 = palette_int(1 + (i / 1296) % 215, 3); unsigned sg = (unsigned)(i / (1296 * 215));
  Int N = (sg & 1) ? -N0 : N0, D = (sg & 2) ? -D0 : D0; ci.d("palette n=%s d=%s", show(N).c_str(), show(D).c_str());
  Z3 z; mpz_from_int(z.a, N); mpz_from_int(z.b, D);
  for (int rnd = 0; rnd < 3; rnd++) { Int Q, R; expect_div((Rnd)rnd, N, D, Q, R); const char* rn = rnd == 0 ? "tdiv" : rnd == 1 ? "fdiv" : "cdiv";
    if (rnd == 0) mpz_tdiv_qr(z.c, z.d, z.a, z.b); else if (rnd == 1) mpz_fdiv_qr(z.c, z.d, z.a, z.b); else mpz_cdiv_qr(z.c, z.d, z.a, z.b); REQUIRE_WF(z.c, "qr"); REQUIRE_WF(z.d, "qr"); REQUIRE(int_from_mpz(z.c) == Q && int_from_mpz(z.d) == R, "mpz_%s_qr(%s, %s)", rn, show(N).c_str(), show(D).c_str());
    if (rnd == 0) mpz_tdiv_q(z.c, z.a, z.b); else if (rnd == 1) mpz_fdiv_q(z.c, z.a, z.b); else mpz_cdiv_q(z.c, z.a, z.b); REQUIRE_WF(z.c, "q"); REQUIRE(int_from_mpz(z.c) == Q, "mpz_%s_q(%s, %s)", rn, show(N).c_str(), show(D).c_str());
    if (rnd == 0) mpz_tdiv_r(z.d, z.a, z.b); else if (rnd == 1) mpz_fdiv_r(z.d, z.a, z.b); else mpz_cdiv_r(z.d, z.a, z.b); REQUIRE_WF(z.d, "r"); REQUIRE(int_from_mpz(z.d) == R, "mpz_%s_r(%s, %s)", rn, show(N).c_str(), show(D).c_str());
    if (!D.neg && D.size() == 1) { unsigned long u = D.low(), ret;
      ret = rnd == 0 ? mpz_tdiv_qr_ui(z.c, z.d, z.a, u) : rnd == 1 ? mpz_fdiv_qr_ui(z.c, z.d, z.a, u) : mpz_cdiv_qr_ui(z.c, z.d, z.a, u); REQUIRE_WF(z.c, "qr_ui"); REQUIRE_WF(z.d, "qr_ui"); REQUIRE(int_from_mpz(z.c) == Q && int_from_mpz(z.d) == R && Int::from_u64(ret) == R.abs(), "mpz_%s_qr_ui(%s, %lu)", rn, show(N).c_str(), u);
      ret = rnd == 0 ? mpz_tdiv_q_ui(z.c, z.a, u) : rnd == 1 ? mpz_fdiv_q_ui(z.c, z.a, u) : mpz_cdiv_q_ui(z.c, z.a, u); REQUIRE(int_from_mpz(z.c) == Q && Int::from_u64(ret) == R.abs(), "mpz_%s_q_ui(%s, %lu)", rn, show(N).c_str(), u);
      ret = rnd == 0 ? mpz_tdiv_r_ui(z.d, z.a, u) : rnd == 1 ? mpz_fdiv_r_ui(z.d, z.a, u) : mpz_cdiv_r_ui(z.d, z.a, u); REQUIRE(int_from_mpz(z.d) == R && Int::from_u64(ret) == R.abs(), "mpz_%s_r_ui(%s, %lu)", rn, show(N).c_str(), u);
      ret = rnd == 0 ? mpz_tdiv_ui(z.a, u) : rnd == 1 ? mpz_fdiv_ui(z.a, u) : mpz_cdiv_ui(z.a, u); REQUIRE(Int::from_u64(ret) == R.abs(), "mpz_%s_ui(%s, %lu)", rn, show(N).c_str(), u); }
    if (sg < 2 && i / 1296 % 215 < 8) { static const unsigned cn[] = {1, 2, 63, 64, 65, 127, 128, 129}; unsigned b = cn[(i / 1296) % 215]; Int P2 = ref::pow2(b), Q2, R2; expect_div((Rnd)rnd, N, P2, Q2, R2);   // the 2exp forms (the divisor index doubles as the bit count)
      if (rnd == 0) mpz_tdiv_q_2exp(z.c, z.a, b); else if (rnd == 1) mpz_fdiv_q_2exp(z.c, z.a, b); else mpz_cdiv_q_2exp(z.c, z.a, b); REQUIRE_WF(z.c, "q_2exp"); REQUIRE(int_from_mpz(z.c) == Q2, "mpz_%s_q_2exp(%s, %u)", rn, show(N).c_str(), b);
      if (rnd == 0) mpz_tdiv_r_2exp(z.d, z.a, b); else if (rnd == 1) mpz_fdiv_r_2exp(z.d, z.a, b); else mpz_cdiv_r_2exp(z.d, z.a, b); REQUIRE_WF(z.d, "r_2exp"); REQUIRE(int_from_mpz(z.d) == R2, "mpz_%s_r_2exp(%s, %u)", rn, show(N).c_str(), b); } }
  mpz_mod(z.c, z.a, z.b); REQUIRE(int_from_mpz(z.c) == ref::emod(N, D), "mpz_mod(%s, %s)", show(N).c_str(), show(D).c_str());
  { Int q, r; ref::tdivrem(N, D, q, r); REQUIRE((mpz_divisible_p(z.a, z.b) != 0) == r.is_zero(), "mpz_divisible_p(%s, %s)", show(N).c_str(), show(D).c_str()); if (r.is_zero()) { mpz_divexact(z.c, z.a, z.b); REQUIRE_WF(z.c, "divexact"); REQUIRE(int_from_mpz(z.c) == q, "mpz_divexact(%s, %s)", show(N).c_str(), show(D).c_str()); } }
}
static uint64_t sweep_count() { return 261ull * 261ull + 1296ull * 215 * 4; }
static void sweep_item(uint64_t i, CaseInfo& ci) {
  if (i >= 261ull * 261ull) { sweep_palette(i - 261ull * 261ull, ci); return; }
  long n = (long)(i / 261) - 130, d = (long)(i % 261) - 130; ci.d("n=%ld d=%ld", n, d); Int N((long long)n), D((long long)d);
  Z3 z; mpz_set_si(z.a, n); mpz_set_si(z.b, d);
  { bool e = d == 0 ? n == 0 : n % d == 0; REQUIRE((mpz_divisible_p(z.a, z.b) != 0) == e, "mpz_divisible_p(%ld,%ld)", n, d); if (d >= 0) REQUIRE((mpz_divisible_ui_p(z.a, (unsigned long)d) != 0) == e, "mpz_divisible_ui_p(%ld,%ld)", n, d); }
  for (long c = -3; c <= 3; c++) { bool e = d == 0 ? n == c : (n - c) % d == 0; mpz_set_si(z.c, c); REQUIRE((mpz_congruent_p(z.a, z.c, z.b) != 0) == e, "mpz_congruent_p(%ld,%ld,%ld)", n, c, d); if (c >= 0 && d >= 0) REQUIRE((mpz_congruent_ui_p(z.a, (unsigned long)c, (unsigned long)d) != 0) == e, "mpz_congruent_ui_p(%ld,%ld,%ld)", n, c, d); }
  if (d == 0) return;
  for (int rnd = 0; rnd < 3; rnd++) { Int Q, R; expect_div((Rnd)rnd, N, D, Q, R); const char* rn = rnd == 0 ? "tdiv" : rnd == 1 ? "fdiv" : "cdiv";
    if (rnd == 0) mpz_tdiv_qr(z.c, z.d, z.a, z.b); else if (rnd == 1) mpz_fdiv_qr(z.c, z.d, z.a, z.b); else mpz_cdiv_qr(z.c, z.d, z.a, z.b); REQUIRE(int_from_mpz(z.c) == Q && int_from_mpz(z.d) == R, "mpz_%s_qr(%ld,%ld)", rn, n, d);
    if (rnd == 0) mpz_tdiv_q(z.c, z.a, z.b); else if (rnd == 1) mpz_fdiv_q(z.c, z.a, z.b); else mpz_cdiv_q(z.c, z.a, z.b); REQUIRE(int_from_mpz(z.c) == Q, "mpz_%s_q(%ld,%ld)", rn, n, d);
    if (rnd == 0) mpz_tdiv_r(z.d, z.a, z.b); else if (rnd == 1) mpz_fdiv_r(z.d, z.a, z.b); else mpz_cdiv_r(z.d, z.a, z.b); REQUIRE(int_from_mpz(z.d) == R, "mpz_%s_r(%ld,%ld)", rn, n, d);
    if (d > 0) { unsigned long u = (unsigned long)d, ret;
      ret = rnd == 0 ? mpz_tdiv_qr_ui(z.c, z.d, z.a, u) : rnd == 1 ? mpz_fdiv_qr_ui(z.c, z.d, z.a, u) : mpz_cdiv_qr_ui(z.c, z.d, z.a, u); REQUIRE(int_from_mpz(z.c) == Q && int_from_mpz(z.d) == R && Int::from_u64(ret) == R.abs(), "mpz_%s_qr_ui(%ld,%ld)", rn, n, d);
      ret = rnd == 0 ? mpz_tdiv_q_ui(z.c, z.a, u) : rnd == 1 ? mpz_fdiv_q_ui(z.c, z.a, u) : mpz_cdiv_q_ui(z.c, z.a, u); REQUIRE(int_from_mpz(z.c) == Q && Int::from_u64(ret) == R.abs(), "mpz_%s_q_ui(%ld,%ld)", rn, n, d);
      ret = rnd == 0 ? mpz_tdiv_r_ui(z.d, z.a, u) : rnd == 1 ? mpz_fdiv_r_ui(z.d, z.a, u) : mpz_cdiv_r_ui(z.d, z.a, u); REQUIRE(int_from_mpz(z.d) == R && Int::from_u64(ret) == R.abs(), "mpz_%s_r_ui(%ld,%ld)", rn, n, d);
      ret = rnd == 0 ? mpz_tdiv_ui(z.a, u) : rnd == 1 ? mpz_fdiv_ui(z.a, u) : mpz_cdiv_ui(z.a, u); REQUIRE(Int::from_u64(ret) == R.abs(), "mpz_%s_ui(%ld,%ld)", rn, n, d); }
    if (d > 0 && (d & (d - 1)) == 0) { unsigned b = (unsigned)__builtin_ctzl((unsigned long)d);
      if (rnd == 0) mpz_tdiv_q_2exp(z.c, z.a, b); else if (rnd == 1) mpz_fdiv_q_2exp(z.c, z.a, b); else mpz_cdiv_q_2exp(z.c, z.a, b); REQUIRE(int_from_mpz(z.c) == Q, "mpz_%s_q_2exp(%ld,%u)", rn, n, b);
      if (rnd == 0) mpz_tdiv_r_2exp(z.d, z.a, b); else if (rnd == 1) mpz_fdiv_r_2exp(z.d, z.a, b); else mpz_cdiv_r_2exp(z.d, z.a, b); REQUIRE(int_from_mpz(z.d) == R, "mpz_%s_r_2exp(%ld,%u)", rn, n, b);
      REQUIRE((mpz_divisible_2exp_p(z.a, b) != 0) == (n % d == 0), "mpz_divisible_2exp_p(%ld,%u)", n, b); } }
  mpz_mod(z.c, z.a, z.b); REQUIRE(int_from_mpz(z.c) == ref::emod(N, D), "mpz_mod(%ld,%ld)", n, d);
  if (n % d == 0) { mpz_divexact(z.c, z.a, z.b); REQUIRE(int_from_mpz(z.c) == Int((long long)(n / d)), "mpz_divexact(%ld,%ld)", n, d); if (d > 0) { mpz_divexact_ui(z.c, z.a, (unsigned long)d); REQUIRE(int_from_mpz(z.c) == Int((long long)(n / d)), "mpz_divexact_ui(%ld,%ld)", n, d); } }
}
// rare class: divisors around INV_DIVAPPR_Q_THRESHOLD (14326 limbs in the pinned table; the approximate-quotient-by-inverse path of
// mpn_tdiv_q), far above the size cap of the ordinary cases
static void case_huge(ByteSource& in, CaseInfo& ci) {
  size_t T = std::min<size_t>(INV_DIVAPPR_Q_THRESHOLD, 20000); size_t dn = T - 3 + (size_t)in.range(0, T / 4 + 6);
  DivCase c = gen_div(in, ci, false, dn, 2 * dn + 40 + (size_t)in.range(0, dn / 2));
  Limbs dp = c.d.m; dn = dp.size();   /* (the constructed divisor of the straddling mode may be a limb longer or shorter than asked for) */
  size_t nn = std::max(c.n.size(), dn); Limbs np(nn, 0); std::copy(c.n.m.begin(), c.n.m.end(), np.begin()); size_t qn = nn - dn + 1;
  bool qonly = in.pick({3, 1}) == 0; ci.label("huge_inv_divappr"); ci.nontrivial = true; ci.d("%s nn=%zu dn=%zu ", qonly ? "mpn_tdiv_q" : "mpn_tdiv_qr", nn, dn); DESC(ci, "n=" + show(c.n, 64) + " d=" + show(c.d, 64));
  Guarded q(qn), r(dn); Limbs n0 = np, d0 = dp;
  if (qonly) mpn_tdiv_q(q.p(), np.data(), nn, dp.data(), dn); else mpn_tdiv_qr(q.p(), r.p(), 0, np.data(), nn, dp.data(), dn);
  REQUIRE(q.intact() && r.intact(), "%s(nn=%zu,dn=%zu): wrote outside its areas", qonly ? "mpn_tdiv_q" : "mpn_tdiv_qr", nn, dn); REQUIRE(np == n0 && dp == d0, "huge division: a source operand was modified");
  REQUIRE(Int::from_limbs(q.p(), qn) == c.q, "%s(nn=%zu,dn=%zu): wrong quotient", qonly ? "mpn_tdiv_q" : "mpn_tdiv_qr", nn, dn);
  if (!qonly) REQUIRE(Int::from_limbs(r.p(), dn) == c.r, "mpn_tdiv_qr(nn=%zu,dn=%zu): wrong remainder", nn, dn);
}
static void check(ByteSource& in, CaseInfo& ci) {
  if (in.scale >= 90 && (in.u8() ^ 0xA5u) < 2 && in.chance(64)) { case_huge(in, ci); return; }   // ~1 in 512 of the top size classes; never for an exhausted (all-zero) stream
  switch (in.pick({6, 2, 4, 1, 7, 4, 3, 6, 4, 5})) {
    case 9: case_internal(in, ci); break;
    case 8: case_tdiv_q(in, ci); break;
    case 0: case_tdiv_qr(in, ci); break; case 1: case_divrem(in, ci); break; case 2: case_divrem_1(in, ci); break; case 3: case_by3(in, ci); break;
    case 4: case_mpz_div(in, ci); break; case 5: case_mpz_div_ui(in, ci); break; case 6: case_mpz_2exp(in, ci); break; default: case_mpz_misc(in, ci); break;
  }
}
namespace eng {
PropDef g_prop = {"C02",
  "Cases: one call of mpn_tdiv_qr (qxn=0, top divisor limb non-zero, dividend may have high zero limbs), mpn_tdiv_q (quotient only), mpn_divrem (normalised divisor, qxn 0..3), mpn_divrem_1 (qxn 0..3, n=0 allowed, in place), mpn_mod_1, mpn_divexact_by3c, or of the mpz tdiv/fdiv/cdiv q/r/qr functions (all sign combinations, outputs aliasing inputs), their _ui and _2exp forms, mpz_mod(_ui), mpz_divexact(_ui) on exact inputs only, mpz_divisible_*/congruent_* incl. d=0. The internal routines declared in mpir.h are also called directly in the domains of the tree's own tests (mpn_{sb,dc,inv}_div_{q,qr}, *_divappr_q giving floor(n/d) or one more, the _n forms, mpn_{sb,dc}_bdiv_{q,qr} with q*d=n mod B^k and the documented remainder/borrow, mpn_invert = floor((B^2n-1)/a)-B^n). A rare class (~1 in 5000) divides by divisors around INV_DIVAPPR_Q_THRESHOLD (14326 limbs in the pinned table). Operands by backward construction n=q*d+r: divisor sizes around the schoolbook/divide-and-conquer/inverse thresholds, quotient shapes (short, nn~2dn, long), quotient limbs all-ones, r in {0,1,d-1,random}, dividends whose leading limbs (or several windows) equal the divisor's, products q*d straddling a power of two (n = 2^K - t with all-ones leading limbs, d = ceil(2^K/m)), divisor classes (power of two, B^k-1, top limb 1, normalised, single-limb classes). Oracle: refint: n=q*d+r, |r|<|d|, rounding direction and remainder sign per the manual, _ui return = |r|. Non-trivial: nn>dn or dn>=2 (mpn) / operand >= 2 limbs (mpz). Distinct = hash of all decoded choices.",
  check, nullptr, {"q_limb_allones", "r_eq_d_minus_1", "r_zero", "unnormalised_d", "short_quotient", "n_prefix_equals_d", "dn_ge_dc_div_qr", "dn_ge_inv_div_qr", "sign:--", "sign:-+", "sign:+-", "d_zero", "divrem_qxn", "mpn_tdiv_q", "qd_straddles_power_of_two", "tdiv_q:short_quotient_branch", "huge_inv_divappr", "internal:sb", "internal:dc", "internal:inv", "internal:hensel", "internal:mpn_invert"}, nullptr, sweep_count, sweep_item,
  "every (n,d) in [-130,130]^2 through mpz_{t,f,c}div_{q,r,qr}, their _ui forms (d>0), the _2exp forms (d a power of two), mpz_mod, mpz_divexact(_ui) when exact, mpz_divisible_p/_ui_p/_2exp_p and mpz_congruent_p/_ui_p for c in [-3,3], d = 0 included where the manual defines it; plus every dividend of up to 4 limbs and divisor of up to 3 limbs with limbs from {0,1,2^63-1,2^63,2^64-2,2^64-1} (278640 pairs x 4 sign combinations) through the q/r/qr, _ui, _2exp, mod, divisible and divexact functions"};
}
