// C06: radix conversion is exact in every base and round-trips
#include "../harness/gen.hpp"
#include "../harness/thresholds.hpp"
#include <cstdio>
using namespace eng; using namespace gen; using ref::Int;

static const char* ALPHA62 = "0123456789ABCDEFGHIJKLMNOPQRSTUVWXYZabcdefghijklmnopqrstuvwxyz";
static int digit_value(int base, unsigned char c) {   // the manual's rule; -1 = not a digit at all
  int v;
  if (c >= '0' && c <= '9') v = c - '0';
  else if (c >= 'A' && c <= 'Z') v = c - 'A' + 10;
  else if (c >= 'a' && c <= 'z') v = base > 36 ? c - 'a' + 36 : c - 'a' + 10;
  else return -1;
  return v;
}
static int pick_base(ByteSource& in) {   // 2..62
  unsigned k = in.pick({4, 2, 2, 1});
  if (k == 0) return (int)in.range(2, 62);
  if (k == 1) { static const int b[] = {2, 4, 8, 16, 32, 10, 3, 7}; return b[in.range(0, 7)]; }
  if (k == 2) return (int)in.range(37, 62);
  static const int b[] = {36, 37, 61, 62}; return b[in.range(0, 3)];
}
// values: by size (limbs) around GET_STR thresholds, or b^k, b^k +- 1, big_base^k +- 1
static Int gen_value(ByteSource& in, int base, CaseInfo& ci) {
  size_t cap = expcap(in.scale, 4, 2200);
  unsigned k = in.pick({8, 3, 2});
  if (k == 0) { size_t n = size_near(in, 0, cap, {GET_STR_DC_THRESHOLD, GET_STR_PRECOMPUTE_THRESHOLD, 2 * GET_STR_PRECOMPUTE_THRESHOLD, 35, 70, 140}); Limbs v = limbs(in, n); return Int::from_limbs(v.data(), n); }
  uint64_t maxdig = (uint64_t)(cap * 64 / std::log2((double)base));
  if (k == 1) { uint64_t e = in.logrange(0, std::max<uint64_t>(1, maxdig)); ci.label("value:base^k+-1"); Int p = ref::pow(Int(base), e) + Int((long long)in.srange(-1, 1)); return p.neg ? Int(0) : p; }
  // big_base = base^chars_per_limb (largest power of base in a limb)
  Int bb(base); while ((bb * Int(base)).size() <= 1) bb = bb * Int(base);
  uint64_t e = in.logrange(1, std::max<uint64_t>(1, cap)); ci.label("value:bigbase^k+-1"); Int p = ref::pow(bb, e) + Int((long long)in.srange(-1, 1)); return p;
}
static std::string render_digits(const std::vector<unsigned>& d, int base, ByteSource& in, bool mixcase) {
  std::string s; for (unsigned v : d) { char c = ALPHA62[v]; if (base <= 36 && v >= 10) { bool lower = mixcase ? in.flag() : true; c = lower ? (char)('a' + v - 10) : (char)('A' + v - 10); } s += c; } return s;
}
static std::vector<unsigned> digits_of(const Int& v, int base) {
  std::string s = ref::to_string(v.abs(), base); std::vector<unsigned> d; for (char c : s) d.push_back((unsigned)digit_value(base, (unsigned char)c)); return d;
}
struct Z { mpz_t z; Z() { mpz_init(z); } ~Z() { mpz_clear(z); } };

// ---- output side: get_str / out_str / sizeinbase -----------------------------------
static void case_get_str(ByteSource& in, CaseInfo& ci) {
  int base = pick_base(in); bool negbase = base <= 36 && in.chance(70); int b = negbase ? -base : base;
  Int V = gen_value(in, base, ci); if (in.flag()) V = -V;
  unsigned f = in.pick({5, 3, 2});   // get_str into exact buffer, get_str(NULL), out_str
  ci.d("%s base=%d ", f == 2 ? "mpz_out_str" : f == 1 ? "mpz_get_str(NULL)" : "mpz_get_str", b); DESC(ci, "v=" + show(V, 64));
  ci.label(f == 2 ? "mpz_out_str" : "mpz_get_str"); if (V.size() >= 2) ci.nontrivial = true; if (negbase) ci.label("negative_base");
  if (V.size() >= GET_STR_PRECOMPUTE_THRESHOLD) ci.label("get_str:precompute"); else if (V.size() >= GET_STR_DC_THRESHOLD) ci.label("get_str:dc");
  std::string e = ref::to_string(V, base, negbase);
  Z z; mpz_from_int(z.z, V);
  size_t sib = mpz_sizeinbase(z.z, base); size_t nd = e.size() - (V.neg ? 1 : 0);
  bool p2 = (base & (base - 1)) == 0;
  REQUIRE(sib == nd || (!p2 && sib == nd + 1), "mpz_sizeinbase(base=%d) = %zu but the value has %zu digits%s", base, sib, nd, p2 ? " (power-of-two base must be exact)" : "");
  if (sib == nd + 1) ci.label("sizeinbase_one_too_big");
  std::string got;
  if (f == 0) { char* buf = (char*)malloc(sib + 2); memset(buf, 0x55, sib + 2); char* r = mpz_get_str(buf, b, z.z); REQUIRE(r == buf, "mpz_get_str: did not return the given buffer"); got.assign(buf, strnlen(buf, sib + 2)); REQUIRE(got.size() < sib + 2, "mpz_get_str: no terminator within sizeinbase+2 bytes"); free(buf); }
  else if (f == 1) { char* r = mpz_get_str(nullptr, b, z.z); REQUIRE(r != nullptr, "mpz_get_str(NULL): returned NULL"); got = r; void (*fr)(void*, size_t); mp_get_memory_functions(nullptr, nullptr, &fr); fr(r, got.size() + 1); }
  else { char* mem = nullptr; size_t ml = 0; FILE* fp = open_memstream(&mem, &ml); size_t n = mpz_out_str(fp, b, z.z); fclose(fp); got.assign(mem, ml); free(mem);
         REQUIRE(n == got.size(), "mpz_out_str(base=%d): returned %zu but wrote %zu bytes", b, n, got.size()); }
  REQUIRE(got == e, "%s(base=%d): wrong digits: got \"%.60s%s\" (len %zu), expected \"%.60s%s\" (len %zu)", f == 2 ? "mpz_out_str" : "mpz_get_str", b, got.c_str(), got.size() > 60 ? "..." : "", got.size(), e.c_str(), e.size() > 60 ? "..." : "", e.size());
  REQUIRE(int_from_mpz(z.z) == V, "get_str/out_str: operand modified");
}
static size_t max_digits(size_t n, unsigned base) {   // digits of B^n - 1 in base, exact
  Int X = ref::pow2(64 * n) - Int(1); size_t k = (size_t)(64.0 * n / std::log2((double)base)); if (k > 2) k -= 2; else k = 0;
  Int P = ref::pow(Int::from_u64(base), k); while (P <= X) { P = P * Int::from_u64(base); k++; } return k;
}
static void case_mpn_get_str(ByteSource& in, CaseInfo& ci) {
  unsigned base = in.pick({3, 1}) == 0 ? (unsigned)pick_base(in) : (unsigned)in.range(2, 256);
  size_t n = size_near(in, 1, expcap(in.scale, 4, 600), {GET_STR_DC_THRESHOLD, GET_STR_PRECOMPUTE_THRESHOLD, 35});
  Limbs v = limbs_nz(in, n); Int V = Int::from_limbs(v.data(), n);
  ci.label("mpn_get_str"); if (n >= 2) ci.nontrivial = true; ci.d("mpn_get_str base=%u n=%zu ", base, n); DESC(ci, "v=" + show(V, 64));
  size_t room = max_digits(n, base) + 1;
  unsigned char* buf = (unsigned char*)malloc(room); memset(buf, 0xee, room); Limbs work = v; work.push_back(0);   // one spare limb is not documented as needed; keep exact: use n limbs only
  work.resize(n);
  size_t len = mpn_get_str(buf, (int)base, work.data(), n);
  bool ok = len >= 1 && len <= room; std::vector<unsigned> d; if (ok) for (size_t i = 0; i < len; i++) { if (buf[i] >= base) ok = false; d.push_back(buf[i]); }
  free(buf);
  REQUIRE(ok, "mpn_get_str(base=%u,n=%zu): length %zu outside [1,%zu] or a digit >= base", base, n, len, room);
  REQUIRE(ref::from_digits(d, base) == V, "mpn_get_str(base=%u,n=%zu): digits do not denote the operand", base, n);
  if ((base & (base - 1)) == 0) REQUIRE(work == v, "mpn_get_str(base=%u): input changed although the base is a power of 2", base);
  if (d[0] == 0 && len > 1) ci.label("mpn_get_str:leading_zero");
}
// ---- input side ----------------------------------------------------------------------
struct Str { std::string s; Int value; int status; };   // status 0 accept, -1 reject, 1 unspecified
static const char WS[] = " \t\n\v\f\r";
// a must-accept string for `base` (2..62 or 0); returns the value
static Str gen_valid(ByteSource& in, int base, CaseInfo& ci, bool allow_ws, size_t maxdigits) {
  Str r; r.status = 0; int eff = base; std::string prefix;
  if (base == 0) { unsigned k = in.pick({3, 2, 2, 2}); if (k == 0) eff = 10; else if (k == 1) { eff = 16; prefix = in.flag() ? "0x" : "0X"; } else if (k == 2) { eff = 2; prefix = in.flag() ? "0b" : "0B"; } else { eff = 8; prefix = "0"; } ci.label("base0"); }
  size_t nd = size_near(in, 1, std::max<size_t>(1, maxdigits), {SET_STR_DC_THRESHOLD, SET_STR_PRECOMPUTE_THRESHOLD, 20, 40});
  std::vector<unsigned> d(nd); unsigned st = in.pick({6, 2, 1, 1});
  if (nd <= 64) for (auto& x : d) x = (unsigned)in.range(0, eff - 1); else { uint64_t k = in.u64(); for (auto& x : d) { k = eng::mix64(k + 1); x = (unsigned)(k % eff); } }
  if (st == 1) for (auto& x : d) x = eff - 1;                       // maximal digits
  if (st == 2) { for (auto& x : d) x = 0; d[0] = 1; }               // base^k
  if (st == 3) { size_t z = (size_t)in.range(0, nd - 1); for (size_t i = 0; i < z; i++) d[i] = 0; ci.label("leading_zeros"); }   // leading zeros
  if (base == 0 && eff == 10 && d[0] == 0 && nd > 1) d[0] = 1 + (unsigned)in.range(0, 8);       // a leading 0 would mean octal
  r.value = ref::from_digits(d, eff);
  std::string digs = render_digits(d, eff, in, true);
  if (allow_ws && in.chance(90)) { // white space between digits
    std::string t; for (size_t i = 0; i < digs.size(); i++) { t += digs[i]; if (i + 1 < digs.size() && in.chance(24)) t += WS[in.range(0, 5)]; } digs = t; ci.label("embedded_whitespace"); }
  bool neg = in.flag(); if (neg) r.value = -r.value;
  std::string lead, trail; if (allow_ws && in.chance(60)) { lead.assign((size_t)in.range(1, 3), WS[in.range(0, 5)]); } if (allow_ws && in.chance(50)) trail.assign((size_t)in.range(1, 3), WS[in.range(0, 5)]);
  r.s = lead + (neg ? "-" : "") + prefix + digs + trail;
  return r;
}
static Str gen_string(ByteSource& in, int base, CaseInfo& ci, bool allow_ws, size_t maxdigits) {
  Str r = gen_valid(in, base, ci, allow_ws, maxdigits);
  unsigned k = in.pick({6, 4, 1});
  if (k == 0) return r;
  if (k == 1) {   // must-reject: put a character that can never be a digit (or a digit >= base) somewhere
    int eff = base; if (base == 0) eff = 10;
    static const char never[] = "!@#$%^&*_=,.;:?~()[]{}<>|\\\"'`/"; char bad;
    unsigned w = in.pick({3, 2, 2}); if (w == 1 && base != 0 && base < 62) { bad = ALPHA62[base <= 36 ? (unsigned)in.range(base, 35 < base ? base : 35) : (unsigned)in.range(base, 61)]; if (base <= 36 && digit_value(base, (unsigned char)bad) < base) bad = '!'; } else if (w == 2) { bad = (char)(unsigned char)in.range(0x80, 0xff); ci.label("invalid_char:high_bit_byte"); } else bad = never[in.range(0, sizeof never - 2)];
    // not at position 0 when it is '+' (a leading plus is left unspecified)
    size_t pos = (size_t)in.range(0, r.s.size());
    { size_t z = r.s.find('0'); if (z != std::string::npos && in.chance(100)) { while (z < r.s.size() && (r.s[z] == '0' || (allow_ws && strchr(WS, r.s[z]) && r.s[z]))) z++; pos = z; ci.label("invalid_char_after_leading_zeros"); } }   // right after a run of zeros (the parser's zero-skipping loop)
    r.s.insert(r.s.begin() + pos, bad); r.status = -1; ci.label("invalid_char"); (void)eff;
    if (pos == r.s.size() - 1) ci.label("invalid_char_at_end"); if (pos == 0) ci.label("invalid_char_at_start");
    return r; }
  // other must-reject shapes: empty, white space only, lone sign
  unsigned w = in.pick({1, 1, 1}); r.s = w == 0 ? "" : w == 1 ? "  \t" : "-"; r.status = -1; ci.label("empty_or_sign_only"); return r;
}
static void case_set_str(ByteSource& in, CaseInfo& ci) {
  int base = in.pick({5, 1}) == 0 ? pick_base(in) : 0; unsigned f = in.pick({5, 3});   // mpz_set_str, mpz_init_set_str
  size_t maxd = expcap(in.scale, 8, 42000);
  Str s = gen_string(in, base, ci, true, maxd);
  ci.label(f ? "mpz_init_set_str" : "mpz_set_str"); ci.nontrivial = s.s.size() >= 20;
  ci.d("%s base=%d status=%d len=%zu ", f ? "mpz_init_set_str" : "mpz_set_str", base, s.status, s.s.size()); DESC(ci, "str=\"" + s.s.substr(0, 120) + (s.s.size() > 120 ? "...\"" : "\""));
  size_t nd = s.s.size(); if (nd >= SET_STR_PRECOMPUTE_THRESHOLD) ci.label("set_str:precompute"); else if (nd >= SET_STR_DC_THRESHOLD) ci.label("set_str:dc");
  char* cs = (char*)malloc(s.s.size() + 1); memcpy(cs, s.s.c_str(), s.s.size() + 1);   // exact-size heap copy: over-reads are visible
  mpz_t z; int rc; Int before;
  if (f == 0) { mpz_init(z); Limbs j = limbs_nz(in, (size_t)in.range(0, 3)); mpz_from_limbs(z, j.data(), j.size(), in.flag()); before = int_from_mpz(z); rc = mpz_set_str(z, cs, base); }
  else rc = mpz_init_set_str(z, cs, base);
  free(cs);
  struct Clr { mpz_ptr z; ~Clr() { mpz_clear(z); } } clr{z};
  if (s.status == 0) { REQUIRE(rc == 0, "set_str(base=%d) rejected a valid number \"%.80s\"", base, s.s.c_str()); REQUIRE_WF(z, "mpz_set_str"); REQUIRE(int_from_mpz(z) == s.value, "set_str(base=%d): wrong value for \"%.80s\"", base, s.s.c_str()); }
  else if (s.status == -1) { REQUIRE(rc == -1, "set_str(base=%d) returned %d for the invalid string \"%.80s\" (must be -1)", base, rc, s.s.c_str()); REQUIRE_WF(z, "mpz_set_str(invalid)"); }
}
static void case_inp_str(ByteSource& in, CaseInfo& ci) {
  int base = in.pick({5, 1}) == 0 ? pick_base(in) : 0;
  Str s = gen_valid(in, base, ci, false, expcap(in.scale, 8, 6000));
  // stream: [white space] number [terminator + rest]
  std::string lead; if (in.flag()) lead.assign((size_t)in.range(1, 4), WS[in.range(0, 5)]);
  static const char term[] = "\n ;,)/!"; std::string tail; if (in.chance(190)) { tail += term[in.range(0, 6)]; if (in.flag()) tail += "17"; }
  bool bad = in.chance(30); std::string body = bad ? std::string(in.flag() ? "-" : "") + "!" : s.s;   // no digits at all -> error
  std::string all = lead + body + tail;
  ci.label("mpz_inp_str"); ci.nontrivial = s.s.size() >= 20; if (bad) ci.label("inp_str:no_digits");
  ci.d("mpz_inp_str base=%d bad=%d ", base, (int)bad); DESC(ci, "stream=\"" + all.substr(0, 120) + "\"");
  std::vector<char> mem(all.begin(), all.end()); if (mem.empty()) mem.push_back(0);
  FILE* fp = fmemopen(mem.data(), all.size() ? all.size() : 1, "r"); if (all.empty()) { fgetc(fp); }
  Z z; size_t n = mpz_inp_str(z.z, fp, base);
  if (bad) { REQUIRE(n == 0, "mpz_inp_str(base=%d): returned %zu for a stream without digits (must be 0)", base, n); fclose(fp); return; }
  REQUIRE(n == lead.size() + s.s.size(), "mpz_inp_str(base=%d): returned %zu, expected %zu bytes read", base, n, lead.size() + s.s.size());
  REQUIRE_WF(z.z, "mpz_inp_str"); REQUIRE(int_from_mpz(z.z) == s.value, "mpz_inp_str(base=%d): wrong value", base);
  int c = fgetc(fp); fclose(fp);
  if (!tail.empty()) REQUIRE(c == (unsigned char)tail[0], "mpz_inp_str: the character after the number was consumed (next char %d, expected '%c')", c, tail[0]);
}
static void case_roundtrip(ByteSource& in, CaseInfo& ci) {
  // what the output functions wrote converts back exactly
  int base = pick_base(in); bool negbase = base <= 36 && in.chance(60); Int V = gen_value(in, base, ci); if (in.flag()) V = -V;
  ci.label("roundtrip"); if (V.size() >= 2) ci.nontrivial = true; ci.d("roundtrip base=%d ", negbase ? -base : base); DESC(ci, "v=" + show(V, 64));
  Z a, b; mpz_from_int(a.z, V); char* s = mpz_get_str(nullptr, negbase ? -base : base, a.z);
  int rc = mpz_set_str(b.z, s, base); std::string keep = s; void (*fr)(void*, size_t); mp_get_memory_functions(nullptr, nullptr, &fr); fr(s, keep.size() + 1);
  REQUIRE(rc == 0 && int_from_mpz(b.z) == V, "mpz_set_str(mpz_get_str(x, %d), %d) != x", negbase ? -base : base, base);
  if (in.flag()) { std::vector<char> mem(keep.begin(), keep.end()); FILE* fp = fmemopen(mem.data(), mem.size(), "r"); Z c; size_t n = mpz_inp_str(c.z, fp, base); fclose(fp);
    REQUIRE(n == keep.size() && int_from_mpz(c.z) == V, "mpz_inp_str does not read back what mpz_get_str wrote (base %d)", base); }
}
static void case_mpn_set_str(ByteSource& in, CaseInfo& ci) {
  unsigned base = in.pick({3, 1}) == 0 ? (unsigned)pick_base(in) : (unsigned)in.range(2, 256);
  size_t nd = size_near(in, 1, expcap(in.scale, 8, 30000), {SET_STR_DC_THRESHOLD, SET_STR_PRECOMPUTE_THRESHOLD, 20, 40});
  std::vector<unsigned> d(nd); if (nd <= 64) for (auto& x : d) x = (unsigned)in.range(0, base - 1); else { uint64_t k = in.u64(); for (auto& x : d) { k = eng::mix64(k + 1); x = (unsigned)(k % base); } }
  unsigned st = in.pick({5, 2, 2}); if (st == 1) for (auto& x : d) x = base - 1; if (st == 2) { size_t z = (size_t)in.range(0, nd - 1); for (size_t i = 0; i < z; i++) d[i] = 0; }
  bool msb_nz = d[0] != 0; Int V = ref::from_digits(d, base);
  ci.label("mpn_set_str"); ci.nontrivial = nd >= 20; ci.d("mpn_set_str base=%u strsize=%zu msb_nonzero=%d ", base, nd, (int)msb_nz); DESC(ci, "v=" + show(V, 64));
  // room: the manual says the exact limb count suffices when the top digit is non-zero, but above
  // SET_STR_PRECOMPUTE_THRESHOLD digits the tree writes one (zero) limb more (observed: rp[rn], see DESIGN.md
  // "observations outside the listed properties"); C06 states only the value, so one spare limb is granted.
  size_t room = msb_nz ? V.size() + 1 : ref::pow(Int::from_u64(base), nd).size() + 1;
  unsigned char* str = (unsigned char*)malloc(nd); for (size_t i = 0; i < nd; i++) str[i] = (unsigned char)d[i];
  Guarded r(room); size_t rn = mpn_set_str(r.p(), str, nd, (int)base); free(str);
  REQUIRE(r.intact(), "mpn_set_str(base=%u,strsize=%zu): wrote outside %zu limbs (value size + 1)", base, nd, room);
  REQUIRE(rn <= room, "mpn_set_str: returned %zu limbs > %zu", rn, room);
  if (msb_nz) REQUIRE(rn == V.size() && r.p()[rn - 1] != 0, "mpn_set_str(base=%u): top digit non-zero but returned %zu limbs (value needs %zu) or a zero high limb", base, rn, V.size());
  REQUIRE(Int::from_limbs(r.p(), rn) == V, "mpn_set_str(base=%u,strsize=%zu): wrong value", base, nd);
}
static void case_mpq(ByteSource& in, CaseInfo& ci) {
  int base = in.pick({5, 1}) == 0 ? pick_base(in) : 0; unsigned f = in.pick({3, 2});
  mpq_t q; mpq_init(q); struct Clr { mpq_ptr q; ~Clr() { mpq_clear(q); } } clr{q};
  if (f == 0) {   // mpq_set_str: "num/den" or integer, each part parsed like mpz_set_str
    Str n = gen_string(in, base, ci, false, expcap(in.scale, 8, 3000)); bool has_den = in.chance(180); Str d; d.status = 0;
    if (has_den) { d = gen_string(in, base, ci, false, expcap(in.scale, 8, 3000)); if (d.status == 0 && d.value.is_zero()) { d.s = "1"; d.value = Int(1); } if (d.status == 0 && d.value.neg) { d.s.erase(d.s.find('-'), 1); d.value = -d.value; } }
    std::string s = n.s + (has_den ? "/" + d.s : ""); int status = (n.status == 0 && d.status == 0) ? 0 : -1;
    // '/' inserted as the invalid char inside the numerator would create another fraction: treat as unspecified
    if (n.s.find('/') != std::string::npos || (has_den && d.s.find('/') != std::string::npos)) status = 1;
    ci.label("mpq_set_str"); ci.nontrivial = s.size() >= 20; ci.d("mpq_set_str base=%d status=%d ", base, status); DESC(ci, "str=\"" + s.substr(0, 120) + "\"");
    int rc = mpq_set_str(q, s.c_str(), base);
    if (status == 0) { REQUIRE(rc == 0, "mpq_set_str(base=%d) rejected \"%.80s\"", base, s.c_str()); REQUIRE(int_from_mpz(mpq_numref(q)) == n.value, "mpq_set_str: wrong numerator"); REQUIRE(int_from_mpz(mpq_denref(q)) == (has_den ? d.value : Int(1)), "mpq_set_str: wrong denominator"); }
    else if (status == -1) REQUIRE(rc == -1, "mpq_set_str(base=%d) returned %d for invalid \"%.80s\"", base, rc, s.c_str());
  } else {        // mpq_get_str
    if (base == 0) base = 10; if (base > 36) base = 2 + base % 35;   /* manual: mpq_get_str base 2..36 (asserted with --enable-assert) */
    bool negbase = in.chance(60); Int N = gen_value(in, base, ci), D = gen_value(in, base, ci); if (D.is_zero()) D = Int(1); if (in.flag()) N = -N; if (in.chance(50)) D = Int(1);
    mpz_from_int(mpq_numref(q), N); mpz_from_int(mpq_denref(q), D);
    std::string e = ref::to_string(N, base, negbase); if (!(D == Int(1))) e += "/" + ref::to_string(D, base, negbase);
    ci.label("mpq_get_str"); ci.nontrivial = N.size() >= 2; ci.d("mpq_get_str base=%d ", negbase ? -base : base); DESC(ci, "n=" + show(N, 48) + " d=" + show(D, 48));
    size_t room = mpz_sizeinbase(mpq_numref(q), base) + mpz_sizeinbase(mpq_denref(q), base) + 3; std::string got;
    if (in.flag()) { char* buf = (char*)malloc(room); memset(buf, 0x55, room); mpq_get_str(buf, negbase ? -base : base, q); got.assign(buf, strnlen(buf, room)); REQUIRE(got.size() < room, "mpq_get_str: no terminator within the documented buffer"); free(buf); }
    else { char* r = mpq_get_str(nullptr, negbase ? -base : base, q); got = r; void (*fr)(void*, size_t); mp_get_memory_functions(nullptr, nullptr, &fr); fr(r, got.size() + 1); }
    REQUIRE(got == e, "mpq_get_str(base=%d): got \"%.60s\", expected \"%.60s\"", negbase ? -base : base, got.c_str(), e.c_str());
  }
}
static void check(ByteSource& in, CaseInfo& ci) {
  switch (in.pick({6, 3, 7, 3, 3, 3, 3})) { case 0: case_get_str(in, ci); break; case 1: case_mpn_get_str(in, ci); break; case 2: case_set_str(in, ci); break; case 3: case_inp_str(in, ci); break;
    case 4: case_roundtrip(in, ci); break; case 5: case_mpn_set_str(in, ci); break; default: case_mpq(in, ci); break; }
}
// ---- exhaustive sweep: every signed value of up to three limbs with limbs from {0,1,2^63-1,2^63,2^64-2,2^64-1} in every base 2..62 ----
static uint64_t sweep_count() { return 432ull * 61ull; }
static void sweep_item(uint64_t i, CaseInfo& ci) {
  uint64_t iv = i % 432; int base = 2 + (int)(i / 432); Int V = palette_int(iv % 216, 3); if (iv >= 216) V = -V; ci.d("v=%s base=%d", show(V).c_str(), base);
  Z z; mpz_from_int(z.z, V); std::string e = ref::to_string(V, base, false); size_t nd = e.size() - (V.neg ? 1 : 0); bool p2 = (base & (base - 1)) == 0;
  size_t sib = mpz_sizeinbase(z.z, base); REQUIRE(sib == nd || (!p2 && sib == nd + 1), "mpz_sizeinbase(%s, %d) = %zu, the value has %zu digits", show(V).c_str(), base, sib, nd);
  char* buf = (char*)malloc(sib + 2); memset(buf, 0x55, sib + 2); mpz_get_str(buf, base, z.z); std::string got(buf, strnlen(buf, sib + 2)); free(buf);
  REQUIRE(got == e, "mpz_get_str(%s, base %d) = \"%s\", expected \"%s\"", show(V).c_str(), base, got.c_str(), e.c_str());
  if (base <= 36) { std::string eu = ref::to_string(V, base, true); char* r = mpz_get_str(nullptr, -base, z.z); std::string g2 = r; void (*fr)(void*, size_t); mp_get_memory_functions(nullptr, nullptr, &fr); fr(r, g2.size() + 1); REQUIRE(g2 == eu, "mpz_get_str(%s, base %d) = \"%s\", expected \"%s\"", show(V).c_str(), -base, g2.c_str(), eu.c_str()); }
  Z y; int rc = mpz_set_str(y.z, e.c_str(), base); REQUIRE(rc == 0, "mpz_set_str(\"%s\", %d) returned %d", e.c_str(), base, rc); REQUIRE_WF(y.z, "mpz_set_str"); REQUIRE(int_from_mpz(y.z) == V, "mpz_set_str(\"%s\", %d): wrong value", e.c_str(), base);
  if (!V.neg && !V.is_zero()) { std::vector<uint64_t> cp(V.m.begin(), V.m.end()); cp.push_back(0); std::vector<unsigned char> out(max_digits(V.m.size(), (unsigned)base) + 2, 0x55); size_t n = mpn_get_str(out.data(), base, cp.data(), V.m.size());
    std::vector<unsigned> d = digits_of(V, base); size_t lead = n - d.size(); REQUIRE(n >= d.size() && n <= out.size() - 1, "mpn_get_str(%s, %d): returned %zu digits", show(V).c_str(), base, n); bool ok = true; for (size_t k = 0; k < lead; k++) if (out[k]) ok = false; for (size_t k = 0; k < d.size(); k++) if (out[lead + k] != d[k]) ok = false;
    REQUIRE(ok, "mpn_get_str(%s, %d): wrong digit values", show(V).c_str(), base);
    std::vector<unsigned char> dg(d.begin(), d.end()); std::vector<uint64_t> lim(V.m.size() + 2, 0x77); size_t rn = mpn_set_str(lim.data(), dg.data(), dg.size(), base); REQUIRE(rn == V.m.size() && Int::from_limbs(lim.data(), rn) == V, "mpn_set_str of the digits of %s in base %d: wrong value or limb count %zu", show(V).c_str(), base, rn); }
}
// deterministic cases: powers b^k whose bit count t makes t*log_b(2) an integer plus a fraction of less than 1e-8: the operands on which an estimate
// floor(t*c)+1 with c a hair below log_b(2) is one too SMALL (b^k has exactly k+1 digits, b^k-1 exactly k).  The list comes from a search with a 128-bit
// log_b(2) (first hits per base); no generated value lands on them.
static void fixed_case(unsigned k, CaseInfo& ci) {
  static const struct { int b; unsigned long k; bool str; } T[] = {{58, 3700209UL, true}, {58, 7400418UL, false}, {19, 22645744UL, false}, {60, 23682989UL, false}, {10, 59632978UL, false}};
  if (k != 0) return;
  ci.desc = "mpz_sizeinbase / mpz_get_str on 58^3700209, 58^7400418, 19^22645744, 60^23682989, 10^59632978 and each minus one (digit counts known by construction)";
  for (auto& t : T) {
    Z x; mpz_ui_pow_ui(x.z, (unsigned long)t.b, t.k); size_t s1 = mpz_sizeinbase(x.z, t.b);
    REQUIRE(s1 == t.k + 1 || s1 == t.k + 2, "mpz_sizeinbase(%d^%lu, %d) = %zu, but the value is 1 followed by %lu zeros: %lu digits (the result must be exact or one too large)", t.b, t.k, t.b, s1, t.k, t.k + 1);
    if (t.str) { Z y; mpz_neg(y.z, x.z); size_t room = mpz_sizeinbase(y.z, t.b) + 2; std::vector<char> buf(room + 8, 0x55); mpz_get_str(buf.data(), t.b, y.z); size_t len = strnlen(buf.data(), room + 8);
      REQUIRE(len + 1 <= room, "mpz_get_str(-%d^%lu, base %d) wrote %zu bytes into the documented mpz_sizeinbase+2 = %zu bytes", t.b, t.k, t.b, len + 1, room);
      bool ok = len == t.k + 2 && buf[0] == '-' && buf[1] == '1'; for (size_t i = 2; ok && i < len; i++) ok = buf[i] == '0'; REQUIRE(ok, "mpz_get_str(-%d^%lu): digits are not -1 followed by zeros", t.b, t.k);
      char* r = mpz_get_str(nullptr, t.b, y.z); REQUIRE(r && strlen(r) == len, "mpz_get_str(NULL, ...): wrong length"); void (*fr)(void*, size_t); mp_get_memory_functions(nullptr, nullptr, &fr); fr(r, len + 1); }
    mpz_sub_ui(x.z, x.z, 1); size_t s0 = mpz_sizeinbase(x.z, t.b);
    REQUIRE(s0 == t.k || s0 == t.k + 1, "mpz_sizeinbase(%d^%lu - 1, %d) = %zu, the value has %lu digits", t.b, t.k, t.b, s0, t.k);
  }
}
namespace eng {
PropDef g_prop = {"C06",
  "Cases: mpz_get_str (exact sizeinbase+2 buffer or NULL), mpz_out_str via open_memstream, mpz_sizeinbase; mpn_get_str (bases 2..256, exact 'largest possible + 1' buffer); mpz_set_str / mpz_init_set_str on must-accept strings from a grammar (optional white space, sign, base-0 prefixes 0x 0X 0b 0B 0, mixed case for bases <= 36, maximal digits, leading zeros, embedded and trailing white space) and must-reject strings (an impossible character or a digit >= base inserted at any position, empty / blank / lone sign); mpz_inp_str via fmemopen with leading white space and a terminator; get_str -> set_str / inp_str round trip; mpn_set_str (raw digits, exact room when the top digit is non-zero); mpq_set_str / mpq_get_str. Bases 2..62, -2..-36, 0. Values by limb count around GET_STR thresholds, digit counts around SET_STR thresholds, base^k, base^k+-1, big_base^k+-1. Oracle: refint radix conversion; manual's alphabets and return codes; strings whose status the manual leaves open (white space after a sign, lone prefix, leading '+') are not generated. Non-trivial: >= 2 limbs or >= 20 characters. Distinct = hash of all decoded choices.",
  check, nullptr, {"negative_base", "get_str:dc", "get_str:precompute", "set_str:dc", "set_str:precompute", "base0", "invalid_char", "invalid_char_at_end", "invalid_char_at_start", "invalid_char:high_bit_byte", "invalid_char_after_leading_zeros", "embedded_whitespace", "leading_zeros", "inp_str:no_digits", "sizeinbase_one_too_big"}, fixed_case, sweep_count, sweep_item,
  "every signed value of up to three limbs with limbs from {0,1,2^63-1,2^63,2^64-2,2^64-1} in every base 2..62: mpz_sizeinbase, mpz_get_str (and upper case for bases <= 36), mpz_set_str of the digits, mpn_get_str and mpn_set_str on the magnitude"};
}
