// C10: bitwise functions follow infinite two's-complement semantics
#include "../harness/gen.hpp"
using namespace eng; using namespace gen; using ref::Int;

static const uint64_t BITCNT_MAX = ~0ull;
// negative-friendly integer: sizes 0..cap, negatives with low zero limbs, -1, -2^k, all-ones magnitudes
static Int gen_bits_int(ByteSource& in, size_t cap, CaseInfo& ci) {
  unsigned k = in.pick({8, 3, 2, 2, 2, 1});
  size_t n = in.flag() ? (size_t)in.range(0, std::min<size_t>(cap, 6)) : (size_t)in.logrange(0, cap);
  Int r;
  switch (k) {
    default: { Limbs v = limbs(in, n); r = Int::from_limbs(v.data(), n); break; }
    case 1: { // low zero limbs
      if (n < 2) n = 2; size_t z = (size_t)in.range(1, std::min<size_t>(n - 1, 10)); Limbs v = limbs_nz(in, n); std::fill(v.begin(), v.begin() + z, 0); r = Int::from_limbs(v.data(), n); ci.label("low_zero_limbs"); break; }
    case 2: r = ref::pow2(in.range(0, 64 * std::max<size_t>(n, 1))); ci.label("pow2"); break;
    case 3: r = ref::pow2(in.range(1, 64 * std::max<size_t>(n, 1))) - Int(1); break;
    case 4: r = Int(1); break;
    case 5: r = Int(0); break;
  }
  if (in.flag()) r = -r;
  return r;
}
static uint64_t ref_popcount(const Int& a) { uint64_t c = 0; for (auto x : a.m) c += __builtin_popcountll(x); return c; }

static void case_mpz_logic(ByteSource& in, CaseInfo& ci) {
  unsigned f = in.pick({4, 4, 4, 2}); static const char* names[] = {"mpz_and", "mpz_ior", "mpz_xor", "mpz_com"};
  size_t cap = expcap(in.scale, 6, 3000);
  Int A = gen_bits_int(in, cap, ci), B = gen_bits_int(in, cap, ci);
  unsigned rel = in.pick({5, 1, 1, 1, 1});
  if (rel == 1) B = A; if (rel == 2) B = -A; if (rel == 3) B = -A - Int(1) /* ~A */; if (rel == 4) { size_t d = (size_t)in.range(0, 5); Limbs v = limbs_nz(in, A.size() + d); B = Int::from_limbs(v.data(), v.size(), in.flag()); }
  ci.label(names[f]); if (A.neg && B.neg) ci.label("signs:--"); else if (A.neg || B.neg) ci.label("signs:mixed");
  if (A.size() >= 2 || B.size() >= 2) ci.nontrivial = true;
  mpz_t a, b, r; mpz_init(a); mpz_init(b); mpz_init(r); struct Clr { mpz_ptr a, b, c; ~Clr() { mpz_clear(a); mpz_clear(b); mpz_clear(c); } } clr{a, b, r};
  mpz_from_int(a, A); mpz_from_int(b, B); { Limbs j = limbs_nz(in, (size_t)in.range(0, 3)); mpz_from_limbs(r, j.data(), j.size(), in.flag()); }
  unsigned al = in.pick({4, 2, 2, 1}); ci.d("%s alias=%u ", names[f], al); DESC(ci, "a=" + show(A, 64) + " b=" + show(B, 64));
  Int E; mpz_ptr o = r;
  if (f == 3) { E = -A - Int(1); o = (al & 1) ? a : r; mpz_com(o, a); }
  else {
    if (al == 3) B = A;
    E = f == 0 ? ref::bitop(A, B, [](uint64_t x, uint64_t y) { return x & y; }) : f == 1 ? ref::bitop(A, B, [](uint64_t x, uint64_t y) { return x | y; }) : ref::bitop(A, B, [](uint64_t x, uint64_t y) { return x ^ y; });
    mpz_srcptr s2 = b; if (al == 1) o = a; else if (al == 2) o = b; else if (al == 3) { o = a; s2 = a; }
    if (f == 0) mpz_and(o, a, s2); else if (f == 1) mpz_ior(o, a, s2); else mpz_xor(o, a, s2);
  }
  REQUIRE_WF(o, names[f]); REQUIRE(int_from_mpz(o) == E, "%s (alias %u): wrong value", names[f], al);
  if (E.size() > std::max(A.size(), B.size())) ci.label("result_grew_a_limb");
  if (o != a) REQUIRE(int_from_mpz(a) == A, "%s: input a modified", names[f]);
  if (o != b && f != 3 && al != 3) REQUIRE(int_from_mpz(b) == B, "%s: input b modified", names[f]);
}
static uint64_t gen_bitidx(ByteSource& in, const Int& A) {
  uint64_t top = 64 * (uint64_t)A.size(); unsigned k = in.pick({3, 3, 2, 1, 1});
  if (k == 0) { static const uint64_t c[] = {0, 1, 62, 63, 64, 65, 127, 128}; return c[in.range(0, 7)]; }
  if (k == 1) return in.range(0, top + 2);
  if (k == 2) { uint64_t b = top + (uint64_t)in.srange(-2, 2); return (int64_t)b < 0 ? 0 : b; }
  if (k == 3) return top + in.range(3, 5000);
  if (!A.is_zero()) { uint64_t tz = 0; while (!ref::mtest(A.m, tz)) tz++; return tz + (uint64_t)in.srange(tz ? -1 : 0, 1); }   // around the lowest set bit
  return 0;
}
static void case_mpz_bit(ByteSource& in, CaseInfo& ci) {
  unsigned f = in.pick({3, 3, 3, 3, 3, 3, 2, 2}); static const char* names[] = {"mpz_setbit", "mpz_clrbit", "mpz_combit", "mpz_tstbit", "mpz_scan0", "mpz_scan1", "mpz_popcount", "mpz_hamdist"};
  size_t cap = expcap(in.scale, 6, 2000); Int A = gen_bits_int(in, cap, ci); uint64_t bit = gen_bitidx(in, A);
  ci.label(names[f]); if (A.neg) ci.label("negative_operand"); if (A.size() >= 2) ci.nontrivial = true;
  ci.d("%s bit=%llu ", names[f], (unsigned long long)bit); DESC(ci, "a=" + show(A, 64));
  mpz_t a, b; mpz_init(a); mpz_init(b); struct Clr { mpz_ptr a, b; ~Clr() { mpz_clear(a); mpz_clear(b); } } clr{a, b}; mpz_from_int(a, A);
  if (bit >= 64 * (uint64_t)A.size()) ci.label("bit_above_top");
  if (f <= 2) {
    bool cur = ref::tc_bit(A, bit); Int P = ref::pow2(bit), E;
    if (f == 0) E = cur ? A : A + P; else if (f == 1) E = cur ? A - P : A; else E = cur ? A - P : A + P;   // two's complement: setting/clearing bit k adds/subtracts 2^k
    if (f == 0) mpz_setbit(a, bit); else if (f == 1) mpz_clrbit(a, bit); else mpz_combit(a, bit);
    REQUIRE_WF(a, names[f]); REQUIRE(int_from_mpz(a) == E, "%s(bit=%llu): wrong value", names[f], (unsigned long long)bit);
    if (E.size() != A.size()) ci.label("size_changed");
  } else if (f == 3) {
    int g = mpz_tstbit(a, bit); REQUIRE(g == (int)ref::tc_bit(A, bit), "mpz_tstbit(bit=%llu): returned %d", (unsigned long long)bit, g);
  } else if (f == 4 || f == 5) {
    bool want = f == 5; uint64_t e;
    // scan from 'bit' upward in the infinite two's-complement string
    bool inf_bits = A.neg;   // bits above the top are all 'inf_bits'
    uint64_t lim = 64 * (uint64_t)A.size() + 1; e = BITCNT_MAX;
    if (bit >= lim) { e = (inf_bits == want) ? bit : BITCNT_MAX; }
    else { for (uint64_t i = bit; i <= lim; i++) if (ref::tc_bit(A, i) == want) { e = i; break; } }
    uint64_t g = f == 4 ? mpz_scan0(a, bit) : mpz_scan1(a, bit);
    if (e == BITCNT_MAX) ci.label("scan_none_found");
    REQUIRE(g == e, "%s(start=%llu): returned %llu, expected %llu", names[f], (unsigned long long)bit, (unsigned long long)g, (unsigned long long)e);
  } else if (f == 6) {
    uint64_t e = A.neg ? BITCNT_MAX : ref_popcount(A); uint64_t g = mpz_popcount(a);
    REQUIRE(g == e, "mpz_popcount: returned %llu, expected %llu", (unsigned long long)g, (unsigned long long)e);
  } else {
    Int B = gen_bits_int(in, cap, ci); unsigned rel = in.pick({3, 1, 1}); if (rel == 1) B = A; if (rel == 2 && !A.is_zero()) { B = A; B.m[(size_t)in.range(0, B.m.size() - 1)] ^= 1ull << in.range(0, 63); B.fix(); }
    mpz_from_int(b, B); DESC(ci, " b=" + show(B, 64));
    uint64_t e; if (A.neg != B.neg) e = BITCNT_MAX; else { Int X = ref::bitop(A, B, [](uint64_t x, uint64_t y) { return x ^ y; }); e = ref_popcount(X); }   // same sign => xor is non-negative
    if (A.neg && B.neg) ci.label("hamdist_both_negative");
    uint64_t g = mpz_hamdist(a, b); REQUIRE(g == e, "mpz_hamdist: returned %llu, expected %llu", (unsigned long long)g, (unsigned long long)e);
    REQUIRE(int_from_mpz(b) == B, "mpz_hamdist: input modified");
  }
  if (f >= 3) REQUIRE(int_from_mpz(a) == A, "%s: input modified", names[f]);
}
static void case_mpn(ByteSource& in, CaseInfo& ci) {
  unsigned f = in.pick({2, 2, 2, 2, 2, 2, 2, 2, 2, 2, 2, 2, 2});
  static const char* names[] = {"mpn_and_n", "mpn_andn_n", "mpn_ior_n", "mpn_iorn_n", "mpn_nand_n", "mpn_nior_n", "mpn_xor_n", "mpn_xnor_n", "mpn_com", "mpn_popcount", "mpn_hamdist", "mpn_scan0", "mpn_scan1"};
  size_t cap = expcap(in.scale, 8, 4000); size_t n = in.flag() ? (size_t)in.range(1, std::min<size_t>(cap, 40)) : (size_t)in.logrange(1, cap);
  Limbs a = limbs(in, n), b = limbs(in, n); ci.label(names[f]); if (n >= 2) ci.nontrivial = true;
  // rare long operands for the linear-time counters: 4096..20000 limbs, all ones / one limb value repeated (whole bit columns set or clear in every limb,
  // which is what a blocked or packed accumulation in a counting loop is sensitive to) / such a repeated value with a few random limbs / random
  if ((f == 9 || f == 10) && in.scale >= 30 && in.chance(10)) { n = (size_t)in.range(4096, 20000); unsigned st = in.pick({2, 3, 2, 1}); uint64_t v = st == 0 ? ~0ull : in.u64() | (in.flag() ? 0xffffull << (16 * in.range(0, 3)) : 0);
    a.assign(n, v); if (st == 3) a = limbs(in, n, S_UNIFORM); if (st == 2) for (int k = 0; k < 5; k++) a[in.range(0, n - 1)] = in.u64(); b.assign(n, f == 10 && in.flag() ? ~v : 0); if (in.flag()) b[in.range(0, n - 1)] ^= in.u64(); ci.label("counting:4096_to_20000_limbs"); }
  ci.d("%s n=%zu ", names[f], n); DESC(ci, "a=" + show(a, 64) + " b=" + show(b, 64));
  if (f <= 8) {
    unsigned ov = f == 8 ? in.pick({2, 1}) : in.pick({3, 1, 1}); Guarded r(n), s1(n), s2(n); memcpy(s1.p(), a.data(), n * 8); memcpy(s2.p(), b.data(), n * 8);
    uint64_t* rp = ov == 0 ? r.p() : ov == 1 ? s1.p() : s2.p();
    switch (f) { case 0: mpn_and_n(rp, s1.p(), s2.p(), n); break; case 1: mpn_andn_n(rp, s1.p(), s2.p(), n); break; case 2: mpn_ior_n(rp, s1.p(), s2.p(), n); break; case 3: mpn_iorn_n(rp, s1.p(), s2.p(), n); break;
      case 4: mpn_nand_n(rp, s1.p(), s2.p(), n); break; case 5: mpn_nior_n(rp, s1.p(), s2.p(), n); break; case 6: mpn_xor_n(rp, s1.p(), s2.p(), n); break; case 7: mpn_xnor_n(rp, s1.p(), s2.p(), n); break; default: mpn_com(rp, s1.p(), n); break; }
    for (size_t i = 0; i < n; i++) {
      uint64_t x = a[i], y = b[i], e;
      switch (f) { case 0: e = x & y; break; case 1: e = x & ~y; break; case 2: e = x | y; break; case 3: e = x | ~y; break; case 4: e = ~(x & y); break; case 5: e = ~(x | y); break; case 6: e = x ^ y; break; case 7: e = ~(x ^ y); break; default: e = ~x; break; }
      REQUIRE(rp[i] == e, "%s(n=%zu, overlap=%u): limb %zu is 0x%llx, expected 0x%llx", names[f], n, ov, i, (unsigned long long)rp[i], (unsigned long long)e);
    }
    REQUIRE(r.intact() && s1.intact() && s2.intact(), "%s: wrote outside the destination", names[f]);
    if (ov != 1) REQUIRE(memcmp(s1.p(), a.data(), n * 8) == 0, "%s: source 1 modified", names[f]);
    if (ov != 2) REQUIRE(memcmp(s2.p(), b.data(), n * 8) == 0, "%s: source 2 modified", names[f]);
  } else if (f == 9) {
    uint64_t e = 0; for (auto x : a) e += __builtin_popcountll(x); uint64_t g = mpn_popcount(a.data(), n); REQUIRE(g == e, "mpn_popcount(n=%zu): returned %llu, expected %llu", n, (unsigned long long)g, (unsigned long long)e);
  } else if (f == 10) {
    if (n < 4096 && in.chance(60)) b = a; uint64_t e = 0; for (size_t i = 0; i < n; i++) e += __builtin_popcountll(a[i] ^ b[i]); uint64_t g = mpn_hamdist(a.data(), b.data(), n);
    REQUIRE(g == e, "mpn_hamdist(n=%zu): returned %llu, expected %llu", n, (unsigned long long)g, (unsigned long long)e);
  } else {
    // mpn_scan0/1: "it is required that there be a clear/set bit within the area at or beyond bit position"
    bool want = f == 12; uint64_t tb = in.range(0, n * 64 - 1), start = in.range(0, tb);
    if (in.chance(100)) { for (auto& x : a) x = want ? 0 : ~0ull; }     // long run before the target
    if (want) a[tb / 64] |= 1ull << (tb % 64); else a[tb / 64] &= ~(1ull << (tb % 64));
    uint64_t e = start; while (((a[e / 64] >> (e % 64)) & 1) != (uint64_t)want) e++;
    uint64_t g = want ? mpn_scan1(a.data(), start) : mpn_scan0(a.data(), start);
    REQUIRE(g == e, "%s(start=%llu): returned %llu, expected %llu", names[f], (unsigned long long)start, (unsigned long long)g, (unsigned long long)e);
  }
}
static void check(ByteSource& in, CaseInfo& ci) { switch (in.pick({5, 6, 3})) { case 0: case_mpz_logic(in, ci); break; case 1: case_mpz_bit(in, ci); break; default: case_mpn(in, ci); break; } }
// ---- exhaustive sweep: every pair of signed values of up to three limbs with limbs from {0,1,2^63-1,2^63,2^64-2,2^64-1} ----------
static uint64_t sweep_count() { return 432ull * 432ull; }
static void sweep_item(uint64_t i, CaseInfo& ci) {
  uint64_t ia = i % 432, ib = i / 432; Int A = palette_int(ia % 216, 3), B = palette_int(ib % 216, 3); if (ia >= 216) A = -A; if (ib >= 216) B = -B;
  ci.d("a=%s b=%s", show(A).c_str(), show(B).c_str());
  mpz_t a, b, r; mpz_init(a); mpz_init(b); mpz_init(r); struct Clr { mpz_ptr x, y, z; ~Clr() { mpz_clear(x); mpz_clear(y); mpz_clear(z); } } clr{a, b, r}; mpz_from_int(a, A); mpz_from_int(b, B);
  Int EA = ref::bitop(A, B, [](uint64_t x, uint64_t y) { return x & y; }), EO = ref::bitop(A, B, [](uint64_t x, uint64_t y) { return x | y; }), EX = ref::bitop(A, B, [](uint64_t x, uint64_t y) { return x ^ y; });
  mpz_and(r, a, b); REQUIRE_WF(r, "mpz_and"); REQUIRE(int_from_mpz(r) == EA, "mpz_and(%s, %s)", show(A).c_str(), show(B).c_str());
  mpz_ior(r, a, b); REQUIRE_WF(r, "mpz_ior"); REQUIRE(int_from_mpz(r) == EO, "mpz_ior(%s, %s)", show(A).c_str(), show(B).c_str());
  mpz_xor(r, a, b); REQUIRE_WF(r, "mpz_xor"); REQUIRE(int_from_mpz(r) == EX, "mpz_xor(%s, %s)", show(A).c_str(), show(B).c_str());
  { mpz_set(r, a); mpz_and(r, r, b); REQUIRE(int_from_mpz(r) == EA, "mpz_and in place (%s, %s)", show(A).c_str(), show(B).c_str()); mpz_set(r, b); mpz_ior(r, a, r); REQUIRE(int_from_mpz(r) == EO, "mpz_ior in place (%s, %s)", show(A).c_str(), show(B).c_str()); mpz_set(r, a); mpz_xor(r, r, b); REQUIRE(int_from_mpz(r) == EX, "mpz_xor in place (%s, %s)", show(A).c_str(), show(B).c_str()); }
  { uint64_t e = A.neg != B.neg ? BITCNT_MAX : ref_popcount(EX); uint64_t g = mpz_hamdist(a, b); REQUIRE(g == e, "mpz_hamdist(%s, %s) = %llu, expected %llu", show(A).c_str(), show(B).c_str(), (unsigned long long)g, (unsigned long long)e); }
  if (ib < 12) {   // single-operand functions at a set of bit positions (the second index selects the position)
    static const uint64_t pos[12] = {0, 1, 62, 63, 64, 65, 127, 128, 129, 191, 192, 300}; uint64_t bit = pos[ib]; bool cur = ref::tc_bit(A, bit); Int P = ref::pow2(bit);
    mpz_com(r, a); REQUIRE_WF(r, "mpz_com"); REQUIRE(int_from_mpz(r) == -A - Int(1), "mpz_com(%s)", show(A).c_str());
    REQUIRE(mpz_tstbit(a, bit) == (int)cur, "mpz_tstbit(%s, %llu)", show(A).c_str(), (unsigned long long)bit);
    mpz_set(r, a); mpz_setbit(r, bit); REQUIRE_WF(r, "mpz_setbit"); REQUIRE(int_from_mpz(r) == (cur ? A : A + P), "mpz_setbit(%s, %llu)", show(A).c_str(), (unsigned long long)bit);
    mpz_set(r, a); mpz_clrbit(r, bit); REQUIRE_WF(r, "mpz_clrbit"); REQUIRE(int_from_mpz(r) == (cur ? A - P : A), "mpz_clrbit(%s, %llu)", show(A).c_str(), (unsigned long long)bit);
    mpz_set(r, a); mpz_combit(r, bit); REQUIRE_WF(r, "mpz_combit"); REQUIRE(int_from_mpz(r) == (cur ? A - P : A + P), "mpz_combit(%s, %llu)", show(A).c_str(), (unsigned long long)bit);
    for (int want = 0; want < 2; want++) { uint64_t e = BITCNT_MAX, lim = 64 * (uint64_t)A.size() + 1; if (bit >= lim) e = (A.neg == (bool)want) ? bit : BITCNT_MAX; else for (uint64_t k = bit; k <= lim; k++) if (ref::tc_bit(A, k) == (bool)want) { e = k; break; }
      uint64_t g = want ? mpz_scan1(a, bit) : mpz_scan0(a, bit); REQUIRE(g == e, "mpz_scan%d(%s, %llu) = %llu, expected %llu", want, show(A).c_str(), (unsigned long long)bit, (unsigned long long)g, (unsigned long long)e); }
    { uint64_t e = A.neg ? BITCNT_MAX : ref_popcount(A); REQUIRE(mpz_popcount(a) == e, "mpz_popcount(%s)", show(A).c_str()); }
  }
}
namespace eng {
PropDef g_prop = {"C10",
  "Cases: one call of mpz_and/ior/xor/com (all sign combinations, operands equal / negated / complemented / of different lengths, negatives with 1..10 low zero limbs, +-2^k, 2^k-1, -1, 0; outputs aliasing inputs), mpz_setbit/clrbit/combit/tstbit/scan0/scan1/popcount/hamdist (bit indices 0,63,64,.., at the top +-2, far above, around the lowest set bit), or of the mpn logical functions and_n..xnor_n/com (in place too), popcount, hamdist, scan0/scan1 (with the required bit present). Oracle: refint's infinitely sign-extended two's-complement view; ~0 where the manual says infinite/absent. Non-trivial: an operand of >= 2 limbs. Distinct = hash of all decoded choices.",
  check, nullptr, {"signs:--", "signs:mixed", "low_zero_limbs", "bit_above_top", "scan_none_found", "result_grew_a_limb", "hamdist_both_negative", "size_changed"}, nullptr, sweep_count, sweep_item,
  "every pair of signed values of up to three limbs with limbs from {0,1,2^63-1,2^63,2^64-2,2^64-1} (432 x 432): mpz_and/ior/xor (also in place), mpz_hamdist; for every value and bit position in {0,1,62..65,127..129,191,192,300}: mpz_com, tstbit, setbit, clrbit, combit, scan0, scan1, popcount"};
}
