// C16: factorial, binomial, Fibonacci/Lucas, factor removal and primality
#include "../harness/gen.hpp"
#include "../harness/thresholds.hpp"
using namespace eng; using namespace gen; using ref::Int;
struct Z { mpz_t z; Z() { mpz_init(z); } ~Z() { mpz_clear(z); } operator mpz_ptr() { return z; } };
struct RS { gmp_randstate_t s; RS(uint64_t seed) { gmp_randinit_default(s); gmp_randseed_ui(s, seed); } ~RS() { gmp_randclear(s); } };

// product of lo, lo+step, ..., <= hi by a balanced tree
static Int prod_range(uint64_t lo, uint64_t hi, uint64_t step) {
  if (lo > hi) return Int(1);
  uint64_t cnt = (hi - lo) / step + 1;
  if (cnt <= 8) { Int r(1); for (uint64_t v = lo, i = 0; i < cnt; i++, v += step) r = r * Int::from_u64(v); return r; }
  uint64_t h = cnt / 2; return prod_range(lo, lo + (h - 1) * step, step) * prod_range(lo + h * step, hi, step);
}
static Int ref_mfac(uint64_t n, uint64_t m) { if (n == 0) return Int(1); uint64_t lo = n % m; if (lo == 0) lo = m; return prod_range(lo, n, m); }
static Int ref_primorial(uint64_t n) { Int r(1); std::vector<uint64_t> ps; for (uint64_t p = 2; p <= n; p++) if (ref::is_prime_u64(p)) ps.push_back(p);
  struct T { static Int go(const std::vector<uint64_t>& v, size_t a, size_t b) { if (b - a <= 4) { Int r(1); for (size_t i = a; i < b; i++) r = r * Int::from_u64(v[i]); return r; } size_t m = (a + b) / 2; return go(v, a, m) * go(v, m, b); } };
  return T::go(ps, 0, ps.size()); }
static void ref_fib2(uint64_t n, Int& fn, Int& fn1) {   // F(n), F(n-1); F(-1) = 1
  if (n == 0) { fn = Int(0); fn1 = Int(1); return; }
  // fast doubling on (F(k), F(k+1))
  Int a(0), b(1); int top = 63 - __builtin_clzll(n);
  for (int i = top; i >= 0; i--) { Int c = a * (b + b - a), d = a * a + b * b; if ((n >> i) & 1) { a = d; b = c + d; } else { a = c; b = d; } }
  fn = a; fn1 = b - a;
}
static uint64_t gen_n(ByteSource& in, uint64_t dense, uint64_t cap, std::initializer_list<uint64_t> marks) {
  unsigned k = in.pick({4, 3, 3}); if (k == 0) return in.range(0, std::min(dense, cap));
  if (k == 1) { std::vector<uint64_t> t; for (auto x : marks) if (x <= cap) t.push_back(x); if (!t.empty()) { uint64_t T = t[in.range(0, t.size() - 1)]; uint64_t v = T + (uint64_t)in.range(0, 4); return v >= 2 ? std::min(cap, v - 2) : v; } }
  return in.logrange(0, cap);
}
static void case_fac(ByteSource& in, CaseInfo& ci) {
  unsigned f = in.pick({4, 3, 3, 3}); static const char* names[] = {"mpz_fac_ui", "mpz_2fac_ui", "mpz_mfac_uiui", "mpz_primorial_ui"};
  uint64_t cap = (uint64_t)expcap(in.scale, 30, 6000);
  uint64_t n = gen_n(in, 120, cap, {20, 21, 25, 33, 34, 64, 65, FAC_DSC_THRESHOLD, FAC_ODD_THRESHOLD, 1000, 2 * FAC_DSC_THRESHOLD}); uint64_t m = 1;
  Int e;
  if (f == 0) e = ref_mfac(n, 1); else if (f == 1) e = ref_mfac(n, 2);
  else if (f == 2) { unsigned k = in.pick({6, 4, 4, 3}); m = k == 0 ? in.range(1, 12) : k == 1 ? (n ? n - 1 + in.range(0, 2) : 1) : in.logrange(1, 2 * n + 5);
    if (k == 3) {   // steps (and arguments) at the ends of the unsigned long range: the product has at most a handful of factors, every comparison in the size shortcuts is at its limit
      static const uint64_t MB[] = {~0ull, ~0ull - 1, ~0ull - 2, 1ull << 63, (1ull << 63) - 1, (1ull << 63) + 1, 1ull << 32, (1ull << 32) - 1}; m = MB[in.range(0, 7)]; ci.label("mfac:step_at_type_boundary");
      if (in.flag()) { n = in.flag() ? ~0ull - in.range(0, 6) : (1ull << 63) + (uint64_t)in.srange(-3, 3); uint64_t dv = in.range(1, 5); m = n / dv + (uint64_t)in.srange(-2, 2); if (m < n / 6 || m == 0) m = n / dv; ci.label("mfac:argument_at_type_boundary"); } }
    if (m == 0) m = 1; e = ref_mfac(n, m); }
  else e = ref_primorial(n);
  ci.label(names[f]); ci.nontrivial = e.size() >= 2; ci.d("%s n=%llu m=%llu", names[f], (unsigned long long)n, (unsigned long long)m);
  if (f == 2 && m > n) ci.label("mfac:m_gt_n"); if (n >= FAC_DSC_THRESHOLD) ci.label("fac:ge_dsc_threshold");
  Z r; { Limbs j = limbs_nz(in, (size_t)in.range(0, 2)); mpz_from_limbs(r, j.data(), j.size(), in.flag()); }
  if (f == 0) mpz_fac_ui(r, n); else if (f == 1) mpz_2fac_ui(r, n); else if (f == 2) mpz_mfac_uiui(r, n, m); else mpz_primorial_ui(r, n);
  REQUIRE_WF(r, names[f]); REQUIRE(int_from_mpz(r) == e, "%s(n=%llu, m=%llu): wrong value", names[f], (unsigned long long)n, (unsigned long long)m);
}
static void case_bin(ByteSource& in, CaseInfo& ci) {
  bool uiui = in.flag(); Int N; uint64_t n = 0, k;
  if (uiui) {
    unsigned sh = in.pick({4, 3, 2, 2, 1});
    if (sh == 0) { n = in.range(0, 200); k = in.range(0, n + 3); }
    else if (sh == 1) { n = in.logrange(0, 1ull << 20); k = in.logrange(0, std::min<uint64_t>(n, 3000)); if (in.flag()) k = n - std::min(n, k); }   // k near 0 or near n (symmetry)
    else if (sh == 2) { n = in.logrange(64, 40000); k = n / 2 + (uint64_t)in.range(0, 4) - 2; }                     // central: largest results
    else if (sh == 3) { n = in.flag() ? in.u64() : (1ull << in.range(20, 63)) + in.range(0, 3) - 1; k = in.range(0, 40); }  // huge n, small k
    else { n = in.range(0, 100); k = n + in.range(1, 1000); }                                                        // k > n -> 0
    if (k > n) ci.label("bin:k_gt_n");
    N = Int::from_u64(n);
  } else { N = gen_int(in, 4); if (in.chance(100)) N = Int((long long)in.srange(-60, 60)); k = in.flag() ? in.range(0, 30) : in.logrange(0, 400); if (N.neg) ci.label("bin_ui:negative_n"); if (N.size() >= 2) ci.label("bin_ui:multi_limb_n"); }
  // exact: prod_{i<k} (N - i) / k!   (an integer for every integer N); for 0 <= N < k the product contains 0
  Int e;
  if (!N.neg && N.fits_u64() && k > N.low()) e = Int(0);
  else { uint64_t kk = k; if (!N.neg && N.fits_u64() && N.low() - k < k) kk = N.low() - k;   // symmetry keeps the reference cheap
    Int num(1); if (kk == 0) num = Int(1); else if (!N.neg && N.fits_u64()) num = prod_range(N.low() - kk + 1, N.low(), 1); else { struct T { static Int go(const Int& N, uint64_t a, uint64_t b) { if (b - a <= 6) { Int r(1); for (uint64_t i = a; i < b; i++) r = r * (N - Int::from_u64(i)); return r; } uint64_t m = (a + b) / 2; return go(N, a, m) * go(N, m, b); } }; num = T::go(N, 0, kk); }
    Int q, r; ref::tdivrem(num, ref_mfac(kk, 1), q, r); REQUIRE(r.is_zero(), "harness: reference binomial not an integer"); e = q; }
  ci.label(uiui ? "mpz_bin_uiui" : "mpz_bin_ui"); ci.nontrivial = e.size() >= 2; ci.d("%s k=%llu ", uiui ? "mpz_bin_uiui" : "mpz_bin_ui", (unsigned long long)k); DESC(ci, "n=" + show(N, 40));
  Z r, nz; mpz_from_int(nz, N); { Limbs j = limbs_nz(in, (size_t)in.range(0, 2)); mpz_from_limbs(r, j.data(), j.size(), in.flag()); }
  bool inplace = !uiui && in.flag(); mpz_ptr o = inplace ? nz.z : r.z;
  if (uiui) mpz_bin_uiui(o, n, k); else mpz_bin_ui(o, nz, k);
  REQUIRE_WF(o, "mpz_bin"); REQUIRE(int_from_mpz(o) == e, "%s(k=%llu): wrong value", uiui ? "mpz_bin_uiui" : "mpz_bin_ui", (unsigned long long)k);
}
static void case_fib(ByteSource& in, CaseInfo& ci) {
  unsigned f = in.pick({3, 3, 3, 3}); static const char* names[] = {"mpz_fib_ui", "mpz_fib2_ui", "mpz_lucnum_ui", "mpz_lucnum2_ui"};
  uint64_t cap = (uint64_t)expcap(in.scale, 100, 120000); uint64_t n = gen_n(in, 200, cap, {91, 92, 93, 94, 95, 185, 186, 187, 188, 500, 1000});
  Int fn, fn1; ref_fib2(n, fn, fn1); Int fn2 = fn - fn1 /* F(n-2) */; Int ln = fn + fn1 + fn1 /* L(n) = F(n+1)+F(n-1) = F(n)+2F(n-1) */, ln1 = fn1 + fn2 + fn2 /* L(n-1) = F(n-1) + 2F(n-2) */;
  ci.label(names[f]); ci.nontrivial = fn.size() >= 2; ci.d("%s n=%llu", names[f], (unsigned long long)n); if (n == 0) ci.label("fib:n0");
  Z a, b; { Limbs j = limbs_nz(in, (size_t)in.range(0, 2)); mpz_from_limbs(a, j.data(), j.size(), in.flag()); }
  if (f == 0) { mpz_fib_ui(a, n); REQUIRE_WF(a, names[f]); REQUIRE(int_from_mpz(a) == fn, "mpz_fib_ui(%llu): wrong value", (unsigned long long)n); }
  else if (f == 1) { mpz_fib2_ui(a, b, n); REQUIRE_WF(a, names[f]); REQUIRE_WF(b, names[f]); REQUIRE(int_from_mpz(a) == fn, "mpz_fib2_ui(%llu): wrong F[n]", (unsigned long long)n); REQUIRE(int_from_mpz(b) == fn1, "mpz_fib2_ui(%llu): wrong F[n-1]", (unsigned long long)n); }
  else if (f == 2) { mpz_lucnum_ui(a, n); REQUIRE_WF(a, names[f]); REQUIRE(int_from_mpz(a) == ln, "mpz_lucnum_ui(%llu): wrong value", (unsigned long long)n); }
  else { mpz_lucnum2_ui(a, b, n); REQUIRE_WF(a, names[f]); REQUIRE_WF(b, names[f]); REQUIRE(int_from_mpz(a) == ln, "mpz_lucnum2_ui(%llu): wrong L[n]", (unsigned long long)n); REQUIRE(int_from_mpz(b) == ln1, "mpz_lucnum2_ui(%llu): wrong L[n-1]", (unsigned long long)n); }
}
static void case_remove(ByteSource& in, CaseInfo& ci) {
  // domain: |f| >= 2 (f = 0, +-1 have no finite count; the function raises DIVIDE_BY_ZERO for them). Negative factors are part of "every argument": -72 = (-3)^2 * (-8)
  Int F; unsigned fk = in.pick({3, 3, 2, 2}); if (fk == 0) F = Int(2); else if (fk == 1) F = Int::from_u64(in.range(3, 1000)); else if (fk == 2) F = ref::pow2(in.range(1, 130)); else { Limbs v = limbs_nz(in, (size_t)in.range(1, 4)); F = Int::from_limbs(v.data(), v.size()); if (F < Int(2)) F = Int(6); }
  if (in.chance(64)) { F = -F; ci.label("remove:negative_factor"); }
  uint64_t mult = in.pick({2, 3, 2}) == 0 ? 0 : in.flag() ? in.range(0, 20) : in.logrange(0, 4096 / std::max<uint64_t>(1, F.bits()) + 40);
  Int cof = gen_int(in, 4); if (cof.is_zero() && in.chance(200)) cof = Int(1);
  // make the cofactor not divisible by F
  if (!cof.is_zero()) { for (int i = 0; i < 200 && ref::tmod(cof, F).is_zero(); i++) cof = cof + Int(1); if (ref::tmod(cof, F).is_zero()) cof = Int(1); }
  Int OP = cof * ref::pow(F, mult); uint64_t ecount = cof.is_zero() ? 0 : mult; Int eres = cof.is_zero() ? Int(0) : cof;
  ci.label("mpz_remove"); ci.nontrivial = OP.size() >= 2; ci.d("mpz_remove mult=%llu ", (unsigned long long)mult); DESC(ci, "f=" + show(F, 40) + " cofactor=" + show(cof, 40)); if (OP.neg) ci.label("remove:negative_op");
  Z op, fz, r; mpz_from_int(op, OP); mpz_from_int(fz, F); unsigned al = in.pick({3, 1, 1}); mpz_ptr o = al == 0 ? r.z : al == 1 ? op.z : fz.z;
  uint64_t cnt = mpz_remove(o, op, fz);
  REQUIRE(cnt == ecount, "mpz_remove: returned %llu, expected %llu", (unsigned long long)cnt, (unsigned long long)ecount); REQUIRE_WF(o, "mpz_remove"); REQUIRE(int_from_mpz(o) == eres, "mpz_remove (alias %u): wrong cofactor", al);
}
// ---- primality -------------------------------------------------------------------------
static std::vector<Int> g_bigprimes;
static void setup_primes() {   // special-form primes, each re-validated by 13-base Miller-Rabin in refint before use
  if (!g_bigprimes.empty()) return;
  static const unsigned MERS[] = {61, 89, 107, 127, 521, 607, 1279};
  static const struct { unsigned e; long c; } P[] = {{64, 13}, {64, -59}, {80, -65}, {96, -17}, {128, -159}, {128, 51}, {192, -237}, {256, -189}, {256, 297}};
  for (unsigned m : MERS) { Int p = ref::pow2(m) - Int(1); if (ref::is_prime_small(p)) g_bigprimes.push_back(p); }
  for (auto& q : P) { Int p = ref::pow2(q.e) + Int((long long)q.c); if (ref::is_prime_small(p)) g_bigprimes.push_back(p); }
  if (g_bigprimes.size() < 8) { fprintf(stderr, "C16 harness: too few validated special-form primes\n"); exit(2); }
}
static Int big_prime(ByteSource& in) { return g_bigprimes[in.range(0, g_bigprimes.size() - 1)]; }
// n with known primality.  returns 1 prime, 0 composite
static int gen_prime_candidate(ByteSource& in, Int& n, CaseInfo& ci) {
  unsigned k = in.pick({6, 4, 3, 3, 3, 3, 2, 2, 6});
  switch (k) {
    case 8: { uint64_t v = in.flag() ? in.range(2, 70000) : (in.u64() >> in.range(0, 50)); v |= 1; if (v > ~0ull - 2000) v -= 4000; while (!ref::is_prime_u64(v)) v += 2; n = Int::from_u64(v); ci.label("random_prime"); return 1; }
    case 0: { uint64_t v = in.range(0, 70000); n = Int::from_u64(v); return ref::is_prime_u64(v); }
    case 1: { static const int ks[] = {16, 31, 32, 53, 63, 64}; int kk = ks[in.range(0, 5)]; uint64_t v = (kk == 64 ? 0 : (1ull << kk)) + (uint64_t)in.srange(-3000, 3000); n = Int::from_u64(v); ci.label("near_2^k"); return ref::is_prime_u64(v); }
    case 2: { uint64_t v = in.u64() >> in.range(0, 40); n = Int::from_u64(v); return ref::is_prime_u64(v); }
    case 3: { // Carmichael (Chernick): (6k+1)(12k+1)(18k+1) with all three prime
      uint64_t kk = in.range(1, 3000); for (int i = 0; i < 5000; i++, kk++) if (ref::is_prime_u64(6 * kk + 1) && ref::is_prime_u64(12 * kk + 1) && ref::is_prime_u64(18 * kk + 1)) break;
      n = Int::from_u64(6 * kk + 1) * Int::from_u64(12 * kk + 1) * Int::from_u64(18 * kk + 1); bool ok = ref::is_prime_u64(6 * kk + 1) && ref::is_prime_u64(12 * kk + 1) && ref::is_prime_u64(18 * kk + 1); if (ok) ci.label("carmichael"); return 0; }
    case 4: { // strong pseudoprimes to several bases (psi values) and other classic traps
      static const char* S[] = {"2047", "1373653", "25326001", "3215031751", "2152302898747", "3474749660383", "341550071728321", "3825123056546413051", "318665857834031151167461", "3317044064679887385961981"};
      const char* s = S[in.range(0, 9)]; std::vector<unsigned> d; for (const char* p = s; *p; p++) d.push_back(*p - '0'); n = ref::from_digits(d, 10); ci.label("strong_pseudoprime"); return 0; }
    case 5: { // square of a prime / product of two close primes
      uint64_t p = in.u64() >> in.range(32, 50); p |= 1; while (!ref::is_prime_u64(p)) p += 2; uint64_t q = p; if (in.flag()) { q = p + 2; while (!ref::is_prime_u64(q)) q += 2; } n = Int::from_u64(p) * Int::from_u64(q); ci.label("semiprime_close"); return 0; }
    case 6: { n = big_prime(in); ci.label("large_prime_special_form"); return 1; }
    default: { Int a = big_prime(in), b = in.flag() ? big_prime(in) : Int::from_u64(in.range(1009, 100000) | 1); n = a * b; ci.label("large_composite_special_form"); return 0; }
  }
}
static void case_prime(ByteSource& in, CaseInfo& ci) {
  Int N; int isp = gen_prime_candidate(in, N, ci);
  if (N.size() <= 1) isp = ref::is_prime_u64(N.low()); else if (N < ref::pow2(81)) isp = ref::is_prime_small(N);
  unsigned f = in.pick({4, 3, 3, 3}); static const char* names[] = {"mpz_probab_prime_p", "mpz_probable_prime_p", "mpz_likely_prime_p", "mpz_miller_rabin"};
  ci.label(names[f]); ci.label(isp ? "prime" : "composite"); ci.nontrivial = N.size() >= 1 && N.low() > 3; ci.d("%s ", names[f]); DESC(ci, "n=" + ref::to_string(N, 10).substr(0, 80));
  Z n; mpz_from_int(n, N); RS rs(in.u64());
  if (f == 0) { int reps = in.flag() ? 25 + (int)in.range(0, 10) : (int)in.range(1, 24); int g = mpz_probab_prime_p(n, reps);
    if (isp) REQUIRE(g != 0, "mpz_probab_prime_p(reps=%d): returned 0 for a prime", reps); else { REQUIRE(g != 2, "mpz_probab_prime_p(reps=%d): returned 2 (definitely prime) for a composite", reps); if (reps >= 25) REQUIRE(g == 0, "mpz_probab_prime_p(reps=%d): composite reported as prime (%d)", reps, g); } }
  else if (f == 1) { int prob = in.flag() ? 50 + (int)in.range(0, 30) : (int)in.range(1, 49); int g = mpz_probable_prime_p(n, rs.s, prob, 0);
    if (isp) REQUIRE(g != 0, "mpz_probable_prime_p(prob=%d): returned 0 for a prime", prob); else { REQUIRE(g != 2, "mpz_probable_prime_p: returned 2 for a composite"); if (prob >= 50) REQUIRE(g == 0, "mpz_probable_prime_p(prob=%d): composite reported as prime", prob); } }
  else if (f == 2) { int g = mpz_likely_prime_p(n, rs.s, 0); if (isp) REQUIRE(g != 0, "mpz_likely_prime_p: returned 0 for a prime"); else REQUIRE(g != 2, "mpz_likely_prime_p: returned 2 for a composite"); }
  else { // domain (DESIGN.md S2): odd n >= 11, as its callers establish
    int reps = (int)in.range(1, 30); int g = mpz_miller_rabin(n, reps, rs.s); if (isp) REQUIRE(g != 0, "mpz_miller_rabin(reps=%d): returned 0 for a prime", reps); else REQUIRE(g != 2, "mpz_miller_rabin: returned 2 for a composite"); }
  REQUIRE(int_from_mpz(n) == N, "%s: operand modified", names[f]);
}
static void case_nextprime(ByteSource& in, CaseInfo& ci) {
  bool cand = in.flag(); uint64_t v; unsigned k = in.pick({4, 3, 3, 1});
  if (k == 0) v = in.range(0, 70000); else if (k == 1) { static const int ks[] = {16, 31, 32, 53, 63}; v = (1ull << ks[in.range(0, 4)]) + (uint64_t)in.srange(-2000, 2000); } else if (k == 2) v = in.u64() >> in.range(1, 40); else v = ~0ull - in.range(0, 3000);
  if (in.chance(60)) { // start just below / at a prime, or at the start of a large gap
    static const uint64_t gaps[] = {1327, 31397, 370261, 2010733, 20831323, 1693182318746371ull, 18361375334787046697ull}; v = gaps[in.range(0, 6)] + (uint64_t)in.srange(-1, 1); ci.label("large_gap_start"); }
  Int N = Int::from_u64(v); Z n, r; mpz_from_int(n, N); RS rs(in.u64()); bool inplace = in.flag(); mpz_ptr o = inplace ? n.z : r.z;
  ci.label(cand ? "mpz_next_prime_candidate" : "mpz_nextprime"); ci.nontrivial = v > 3; ci.d("%s n=%llu", cand ? "mpz_next_prime_candidate" : "mpz_nextprime", (unsigned long long)v);
  if (cand) mpz_next_prime_candidate(o, n, rs.s); else mpz_nextprime(o, n);
  REQUIRE_WF(o, "nextprime"); Int R = int_from_mpz(o);
  REQUIRE(R > N, "%s: result is not greater than the argument", cand ? "mpz_next_prime_candidate" : "mpz_nextprime");
  Int gap = R - N; REQUIRE(gap.fits_u64() && gap.low() < 5000, "%s: result is %s beyond the argument (a prime must lie in between)", cand ? "mpz_next_prime_candidate" : "mpz_nextprime", ref::to_string(gap, 10).c_str());
  for (uint64_t i = 1; i < gap.low(); i++) { Int c = N + Int::from_u64(i); bool p = c.fits_u64() ? ref::is_prime_u64(c.low()) : ref::is_prime_small(c); REQUIRE(!p, "%s(%llu): skipped the prime %s", cand ? "mpz_next_prime_candidate" : "mpz_nextprime", (unsigned long long)v, ref::to_string(c, 10).c_str()); }
  if (!cand) { bool p = R.fits_u64() ? ref::is_prime_u64(R.low()) : ref::is_prime_small(R); if (!p) ci.label("nextprime:result_composite(allowed)"); }
}

// ---- exhaustive sweep: every n in [0, 2^16) through the primality functions, small n through the combinatorial ones ----------
static const uint64_t HP[4] = {2305843009213693951ull, 2305843009213693921ull, 2305843009213693907ull, 2305843009213693723ull};
static uint64_t mod_limbs(const uint64_t* p, size_t n, uint64_t m) { ref::u128 r = 0; for (size_t i = n; i-- > 0;) r = ((r << 64) | p[i]) % m; return (uint64_t)r; }
// third sweep domain: starts just below composites c = p*(m(p-1)+1), p and m(p-1)+1 prime, m = 2..7 (products with many Miller-Rabin
// liars: the kind of composite that survives the two rounds of mpz_next_prime_candidate) for which c + 2 is prime: mpz_nextprime(c - 1)
// must then be exactly c + 2
static const std::vector<uint64_t>& np_cands() {
  static std::vector<uint64_t> v; if (!v.empty()) return v;
  const uint32_t L = 3000000; std::vector<bool> comp(L + 1, false); for (uint64_t a = 2; a * a <= L; a++) if (!comp[a]) for (uint64_t b = a * a; b <= L; b += a) comp[b] = true;
  for (uint64_t p = 10007; p <= L; p++) { if (comp[p]) continue; for (uint64_t m = 2; m <= 7; m++) { uint64_t q = m * (p - 1) + 1; if (!ref::is_prime_u64(q)) continue; uint64_t c = p * q; if (ref::is_prime_u64(c + 2)) v.push_back(c); } }
  return v;
}
static void sweep_pseudoprime_start(uint64_t i, CaseInfo& ci) {
  uint64_t c = np_cands()[i]; ci.d("mpz_nextprime(%llu): the argument + 1 is a product of two primes p, m(p-1)+1 and argument + 3 is prime", (unsigned long long)(c - 1));
  Z n, r; mpz_set_ui(n, c - 1); mpz_nextprime(r, n); REQUIRE(int_from_mpz(r) == Int::from_u64(c + 2), "mpz_nextprime(%llu) = %s: skipped the prime %llu", (unsigned long long)(c - 1), ref::to_string(int_from_mpz(r), 10).c_str(), (unsigned long long)(c + 2));
  mpz_set_ui(n, c - 2); mpz_nextprime(n, n); REQUIRE(int_from_mpz(n) == Int::from_u64(c + 2) || ref::is_prime_u64(c - 1), "mpz_nextprime(%llu) in place: wrong", (unsigned long long)(c - 2));
}
// fourth sweep domain: mpz_primorial_ui(n) for n = p^2 and p^2 + 1, p prime with 786432 < p^2 < 2.6*10^6 (the blocked sieve is in use and its
// limit falls exactly on a prime square), compared modulo four 61-bit primes with an own sieve
static const std::vector<uint64_t>& sq_ns() { static std::vector<uint64_t> v; if (v.empty()) for (uint64_t p = 887; p * p < 2600000; p++) if (ref::is_prime_u64(p)) { v.push_back(p * p); v.push_back(p * p + 1); } return v; }
static void sweep_prime_square_limit(uint64_t i, CaseInfo& ci) {
  uint64_t n = sq_ns()[i]; ci.d("mpz_primorial_ui(%llu) (a prime square or its successor)", (unsigned long long)n);
  uint64_t e[4] = {1, 1, 1, 1}; std::vector<bool> comp(n + 1, false); for (uint64_t p = 2; p <= n; p++) { if (comp[p]) continue; for (int j = 0; j < 4; j++) e[j] = ref::mulmod64(e[j], p, HP[j]); for (uint64_t q = p * p; q <= n; q += p) comp[q] = true; }
  Z r; mpz_primorial_ui(r, n); for (int j = 0; j < 4; j++) REQUIRE(mod_limbs((const uint64_t*)r.z->_mp_d, (size_t)r.z->_mp_size, HP[j]) == e[j], "mpz_primorial_ui(%llu): wrong value modulo %llu", (unsigned long long)n, (unsigned long long)HP[j]);
}
static uint64_t sweep_count() { return 65536 + np_cands().size() + sq_ns().size(); }
static void sweep_item(uint64_t i, CaseInfo& ci) {
  if (i >= 65536 + np_cands().size()) { sweep_prime_square_limit(i - 65536 - np_cands().size(), ci); return; }
  if (i >= 65536) { sweep_pseudoprime_start(i - 65536, ci); return; }
  ci.d("n=%llu", (unsigned long long)i); Z n, r; mpz_set_ui(n, i); bool p = ref::is_prime_u64(i); RS rs(i * 2654435761u + 1);
  int g = mpz_probab_prime_p(n, 25); REQUIRE(p ? g != 0 : g == 0, "mpz_probab_prime_p(%llu, 25) = %d, %s", (unsigned long long)i, g, p ? "prime" : "composite");
  g = mpz_probable_prime_p(n, rs.s, 50, 0); REQUIRE(p ? g != 0 : g == 0, "mpz_probable_prime_p(%llu, prob 50) = %d, %s", (unsigned long long)i, g, p ? "prime" : "composite");
  g = mpz_likely_prime_p(n, rs.s, 0); REQUIRE(!(p && g == 0) && !(!p && g == 2), "mpz_likely_prime_p(%llu) = %d, %s", (unsigned long long)i, g, p ? "prime" : "composite");
  { g = mpz_miller_rabin(n, 10, rs.s); REQUIRE(!(p && g == 0) && !(!p && g == 2), "mpz_miller_rabin(%llu) = %d", (unsigned long long)i, g); }
  uint64_t nx = i + 1; while (!ref::is_prime_u64(nx)) nx++; mpz_nextprime(r, n); REQUIRE(int_from_mpz(r) == Int::from_u64(nx), "mpz_nextprime(%llu): expected %llu", (unsigned long long)i, (unsigned long long)nx);
  mpz_next_prime_candidate(r, n, rs.s); { Int R = int_from_mpz(r); REQUIRE(R > Int::from_u64(i) && R <= Int::from_u64(nx), "mpz_next_prime_candidate(%llu): result skips the prime %llu or is not greater than the argument", (unsigned long long)i, (unsigned long long)nx); }
  if (i <= 1500) { mpz_fac_ui(r, i); REQUIRE(int_from_mpz(r) == ref_mfac(i, 1), "mpz_fac_ui(%llu)", (unsigned long long)i); mpz_2fac_ui(r, i); REQUIRE(int_from_mpz(r) == ref_mfac(i, 2), "mpz_2fac_ui(%llu)", (unsigned long long)i); mpz_primorial_ui(r, i); REQUIRE(int_from_mpz(r) == ref_primorial(i), "mpz_primorial_ui(%llu)", (unsigned long long)i);
    Int fn, fn1; ref_fib2(i, fn, fn1); Z r2; mpz_fib2_ui(r, r2, i); REQUIRE(int_from_mpz(r) == fn && int_from_mpz(r2) == fn1, "mpz_fib2_ui(%llu)", (unsigned long long)i); mpz_fib_ui(r, i); REQUIRE(int_from_mpz(r) == fn, "mpz_fib_ui(%llu)", (unsigned long long)i);
    mpz_lucnum2_ui(r, r2, i); REQUIRE(int_from_mpz(r) == fn + fn1 + fn1 && int_from_mpz(r2) == fn1 + (fn - fn1) + (fn - fn1), "mpz_lucnum2_ui(%llu)", (unsigned long long)i); mpz_lucnum_ui(r, i); REQUIRE(int_from_mpz(r) == fn + fn1 + fn1, "mpz_lucnum_ui(%llu)", (unsigned long long)i);
    for (unsigned m = 3; m <= 5; m++) { mpz_mfac_uiui(r, i, m); REQUIRE(int_from_mpz(r) == ref_mfac(i, m), "mpz_mfac_uiui(%llu,%u)", (unsigned long long)i, m); } }
  if (i < 90 * 95) { uint64_t nn = i / 95, k = i % 95; Int e = k > nn ? Int(0) : ref::tdiv(prod_range(nn - k + 1, nn, 1), ref_mfac(k, 1)); if (k == 0) e = Int(1); mpz_bin_uiui(r, nn, k); REQUIRE(int_from_mpz(r) == e, "mpz_bin_uiui(%llu,%llu)", (unsigned long long)nn, (unsigned long long)k); Z nz; mpz_set_ui(nz, nn); mpz_bin_ui(r, nz, k); REQUIRE(int_from_mpz(r) == e, "mpz_bin_ui(%llu,%llu)", (unsigned long long)nn, (unsigned long long)k); }
}
// rare class: arguments in the millions (several blocks of the prime sieve behind primorial / factorial / binomial); the exact value
// is out of reach for the reference, so the result is compared modulo four 61-bit primes (all > n) and modulo 2^64 is left to the
// exact tiers: n! = prod i, primorial = prod of primes from an own sieve, bin(n,k) = n!/(k!(n-k)!) with Fermat inverses
static void case_huge(ByteSource& in, CaseInfo& ci) {
  unsigned f = in.pick({4, 1, 2}); uint64_t hi = in.scale >= 120 ? 30000000ull : 4000000ull; uint64_t n = in.logrange(100000, f == 1 ? hi / 3 : hi), k = 0;
  if (f == 2) { k = in.flag() ? n / 2 - in.range(0, n / 8) : in.logrange(1000, n / 2); }
  ci.label("huge_sieve_argument"); ci.nontrivial = true; ci.d("%s n=%llu k=%llu", f == 0 ? "mpz_primorial_ui" : f == 1 ? "mpz_fac_ui" : "mpz_bin_uiui", (unsigned long long)n, (unsigned long long)k);
  uint64_t e[4];
  if (f == 0) { std::vector<bool> comp(n + 1, false); for (int j = 0; j < 4; j++) e[j] = 1; for (uint64_t p = 2; p <= n; p++) { if (comp[p]) continue; for (int j = 0; j < 4; j++) e[j] = ref::mulmod64(e[j], p, HP[j]); for (uint64_t q = p * p; q <= n; q += p) comp[q] = true; } }
  else { auto fact = [&](uint64_t a, uint64_t m) { uint64_t r = 1; for (uint64_t i = 2; i <= a; i++) r = ref::mulmod64(r, i, m); return r; };
    for (int j = 0; j < 4; j++) { uint64_t m = HP[j]; if (f == 1) e[j] = fact(n, m); else { uint64_t d = ref::mulmod64(fact(k, m), fact(n - k, m), m); e[j] = ref::mulmod64(fact(n, m), ref::powmod64(d, m - 2, m), m); } } }
  Z r; if (f == 0) mpz_primorial_ui(r, n); else if (f == 1) mpz_fac_ui(r, n); else mpz_bin_uiui(r, n, k);
  REQUIRE_WF(r, "huge"); REQUIRE(r.z->_mp_size > 0, "result not positive");
  for (int j = 0; j < 4; j++) REQUIRE(mod_limbs((const uint64_t*)r.z->_mp_d, (size_t)r.z->_mp_size, HP[j]) == e[j], "%s(n=%llu%s): wrong value modulo %llu", f == 0 ? "mpz_primorial_ui" : f == 1 ? "mpz_fac_ui" : "mpz_bin_uiui", (unsigned long long)n, f == 2 ? (", k=" + std::to_string(k)).c_str() : "", (unsigned long long)HP[j]);
}
static void check(ByteSource& in, CaseInfo& ci) { if (in.scale >= 90 && (in.u8() ^ 0xA5u) < 4 && in.chance(128)) { case_huge(in, ci); return; }
 switch (in.pick({5, 5, 4, 3, 8, 3})) { case 0: case_fac(in, ci); break; case 1: case_bin(in, ci); break; case 2: case_fib(in, ci); break; case 3: case_remove(in, ci); break; case 4: case_prime(in, ci); break; default: case_nextprime(in, ci); break; } }
namespace eng {
PropDef g_prop = {"C16",
  "Cases: a rare class (~1 in 1300) of mpz_primorial_ui / mpz_fac_ui / mpz_bin_uiui with arguments 10^5..4*10^6 (thorough: 3*10^7; several blocks of the prime sieve) compared modulo four 61-bit primes with an own sieve / modular factorials; mpz_fac_ui/2fac_ui/mfac_uiui/primorial_ui (n dense to 120, around table ends and FAC thresholds, log-uniform to the scale cap; m in {1..12, n-1, n, n+1, > n}); mpz_bin_uiui on (n,k) shapes for each algorithm region (small, k near 0 or n, central, huge n with small k, k>n) and mpz_bin_ui with negative and multi-limb n; mpz_fib_ui/fib2_ui/lucnum_ui/lucnum2_ui (dense to 200, around 93/186 table limits, log-uniform beyond, n=0); mpz_remove (f>=2 only: 2, small, 2^j, multi-limb; multiplicity 0..thousands; negative op; aliasing); primality: all n < 70000, n near 2^16/2^31/2^32/2^53/2^63/2^64, random 64-bit, Chernick Carmichael numbers, strong pseudoprimes (psi values), squares and products of close primes, large primes of special form (Mersenne, 2^k+-c) and composites built from them; nextprime / next_prime_candidate incl. starts of large prime gaps and arguments next to 2^64. Oracle: refint by definition (product trees, multiplicative binomial with verified exact division, fast-doubling Fibonacci); deterministic Miller-Rabin for n < 2^81, construction knowledge beyond; checks: never 0 for a prime, never 2 for a composite, 0 for composites at reps>=25 / prob>=50, result > n with no prime strictly between. mpz_miller_rabin only on odd n >= 11. Non-trivial: result >= 2 limbs / n > 3. Distinct = hash of all decoded choices.",
  check, setup_primes, {"huge_sieve_argument", "carmichael", "strong_pseudoprime", "semiprime_close", "large_prime_special_form", "large_composite_special_form", "near_2^k", "bin:k_gt_n", "bin_ui:negative_n", "bin_ui:multi_limb_n", "mfac:m_gt_n", "fac:ge_dsc_threshold", "fib:n0", "large_gap_start", "remove:negative_op"}, nullptr, sweep_count, sweep_item,
  "every n in [0,2^16): mpz_probab_prime_p (25 reps), mpz_probable_prime_p (prob 50), mpz_likely_prime_p, mpz_miller_rabin, mpz_nextprime (exact next prime), mpz_next_prime_candidate; every n <= 1500: fac, 2fac, mfac m=3..5, primorial, fib, fib2, lucnum, lucnum2; every (n,k) in [0,89]x[0,94]: bin_uiui, bin_ui; plus mpz_nextprime started just below every composite p*(m(p-1)+1) (p prime in [10007, 3*10^6], m = 2..7, second factor prime) whose successor + 2 is prime; plus mpz_primorial_ui at every prime square p^2 and p^2+1 with 786432 < p^2 < 2.6*10^6 (limit of the blocked sieve exactly on a prime square), modulo four 61-bit primes"};
}
