"""C20 runner: generated C++ programs (cxxgen/) against the tree's mpirxx.h + cxx/*.cc, differential vs explicit C calls."""
import os, sys, json, subprocess, time, shutil

def run(chk, pid, tier, seed, replay):
    t0 = time.time()
    vdir = chk.variant_dir("san")
    if not vdir: print("HARNESS-FAULT: cannot build variant san"); return 2
    known = [k for k in chk.load_known() if k["property"] == pid and k["status"] == "known"]
    env = dict(os.environ, CXXGEN_KNOWN=",".join(k["id"] for k in known), VERIF_JOBS=str(chk.NPROC))
    env.setdefault("VERIF_REPLAY_DIR", os.path.join(chk.ROOT, "replays"))
    runpy = os.path.join(chk.ROOT, "cxxgen", "run.py")
    base = [sys.executable, runpy, "--repo", chk.REPO, "--lib", vdir]
    out = f"/var/tmp/verif-c20.{os.getpid()}.json"
    if replay:
        r = subprocess.run(base + ["--tier", tier, "--seed", str(seed), "--out", out, "--replay", replay], env=env)
        try: os.remove(out)
        except OSError: pass
        return r.returncode
    # known findings: each stored program is rebuilt against the tree; still failing => KNOWN-FINDING line
    for k in known:
        r = subprocess.run(base + ["--tier", "quick", "--seed", "1", "--out", out, "--replay", os.path.join(chk.ROOT, k["replay"])], env=env, capture_output=True, text=True)
        if r.returncode == 1: print(f"KNOWN-FINDING: property={pid} {k['what']}")
        else: print(f"NOTE: known finding {k['id']} no longer reproduces from {k['replay']} (exit {r.returncode})")
    # repaired findings: their stored programs are regression inputs that must pass
    for k in [k for k in chk.load_known() if k["property"] == pid and k["status"] == "fixed" and k.get("regress")]:
        rp = os.path.join(chk.ROOT, k["regress"])
        r = subprocess.run(base + ["--tier", "quick", "--seed", "1", "--out", out, "--replay", rp], env=env, capture_output=True, text=True)
        if r.returncode == 1:
            print(f"VIOLATION property={pid} replay={rp}"); print(f"  regression program of repaired finding {k['id']} fails again: {k['what']}"[:500])
            chk.write_evidence(pid, tier, seed, time.time() - t0, {"evaluations": 1, "distinct_nontrivial": 0, "rule": "regression programs of repaired findings", "samples": [k["id"]]}, 1, []); return 1
    r = subprocess.run(base + ["--tier", tier, "--seed", str(seed), "--out", out], env=env, capture_output=True, text=True)
    sys.stdout.write("".join(l + "\n" for l in r.stdout.splitlines() if l.startswith("CXX-MISMATCH"))[:3000])
    try: res = json.load(open(out)); os.remove(out)
    except Exception as e: print(f"HARNESS-FAULT property={pid}: no result ({e}) {r.stderr[-500:]}"); return 2
    rule = ("Programs: translation units of 150 generated test functions; a function is one random well-typed expression tree (depth<=4, thorough 5) over mpz_class/mpq_class/mpf_class "
            "variables, sub-expressions and int/unsigned/long/unsigned long/double operands on either side, with an assignment target that occurs in the tree in >=30% of the functions, "
            "compound assignments, ++/--, comparisons, abs/sqrt/gcd/lcm/sgn/cmp/floor/ceil/trunc, explicit class conversions, plus conversion and stream insertion/extraction tests; "
            "each is compiled next to its reference evaluation (every node into its own temporary with the documented C function) and run on value tuples drawn at run time (quick 100, thorough 400 per function). "
            "evaluations = function x tuple comparisons executed; distinct_nontrivial = distinct expression trees (hash of source text) with >= 2 operators.")
    cov = {"evaluations": res.get("evaluations", 0), "distinct_nontrivial": res.get("distinct_nontrivial", 0), "programs": res.get("programs", 0), "functions": res.get("functions", 0),
           "rule": rule, "samples": res.get("samples", [])[:10], "labels": res.get("labels", {}), "excluded_known": res.get("excluded_shapes", {}),
           "skipped_div_by_zero": res.get("skipped_div_by_zero"), "compile_failures": res.get("compile_failures", []), "compiler": res.get("compiler"), "exhaustive": False}
    assume = ["the operator -> C function table in cxxgen/gen.py (written from the manual, cxxgen/README.md) is the documented meaning of each operator",
              "the C functions used by the reference evaluation are themselves checked by C01..C13", "compiler and libstdc++ are correct"]
    st = res.get("status")
    if st == "violation":
        rp = res.get("replay")
        print(f"VIOLATION property={pid} replay={rp}")
        print("  " + str(res.get("message", ""))[:500])
        cov["samples"] = [str(res.get("message", ""))[:500]] + cov["samples"][:3]
        chk.write_evidence(pid, tier, seed, time.time() - t0, cov, 1, assume); return 1
    if st != "ok":
        print(f"HARNESS-FAULT/INCONCLUSIVE property={pid}: {st}: {res.get('message')}"); return 2
    chk.write_evidence(pid, tier, seed, time.time() - t0, cov, 0, assume)
    print(f"OK property={pid} tier={tier} seed={seed} programs={cov['programs']} evaluations={cov['evaluations']} distinct_nontrivial={cov['distinct_nontrivial']} wall={time.time()-t0:.0f}s")
    return 0
