// C15: concurrent use from several threads is race-free and gives sequential results
// Built against the ThreadSanitizer variant of the library: a data race inside libmpir aborts the case (exit code 3).
#include "../harness/api_table.hpp"
#include <pthread.h>
#include <atomic>
using namespace eng; using namespace gen; using ref::Int; using namespace api;

static const int NZ = 4, NQ = 2, NF = 2;          // private variables per thread
static const int SZ = 4, SQ = 2, SF = 2;          // shared read-only sources
struct Shared { mpz_t z[SZ]; mpq_t q[SQ]; mpf_t f[SF]; gmp_randstate_t r; };   // r: a template state that threads only copy with gmp_randinit_set
struct Priv { mpz_t z[NZ]; mpq_t q[NQ]; mpf_t f[NF]; gmp_randstate_t r; };
struct Step { const Op* op; int zi[5], qi[4], fi[4]; Args sc; };       // indices: >= 0 private, < 0 shared (-1-k)
struct Plan { std::vector<Step> steps; uint64_t seed; unsigned skew; };

static void priv_init(Priv& p, uint64_t seed) { for (auto& x : p.z) mpz_init_set_ui(x, 12345); for (auto& x : p.q) { mpq_init(x); mpq_set_ui(x, 22, 7); } static const unsigned pr[NF] = {64, 192}; for (int i = 0; i < NF; i++) { mpf_init2(p.f[i], pr[i]); mpf_set_ui(p.f[i], 3); } gmp_randinit_default(p.r); gmp_randseed_ui(p.r, seed); }
static void priv_clear(Priv& p) { for (auto& x : p.z) mpz_clear(x); for (auto& x : p.q) mpq_clear(x); for (auto& x : p.f) mpf_clear(x); gmp_randclear(p.r); }
static uint64_t fold(uint64_t h, const void* d, size_t n) { const unsigned char* p = (const unsigned char*)d; for (size_t i = 0; i < n; i++) h = (h ^ p[i]) * 0x100000001b3ull; return h; }
static uint64_t digest_priv(uint64_t h, const Priv& p) { for (auto& x : p.z) { h = fold(h, &x->_mp_size, 4); h = fold(h, x->_mp_d, zl(x) * 8); } for (auto& x : p.q) { h = fold(h, mpq_numref(x)->_mp_d, zl(mpq_numref(x)) * 8); h = fold(h, mpq_denref(x)->_mp_d, zl(mpq_denref(x)) * 8); h = fold(h, &mpq_numref(x)->_mp_size, 4); }
  for (auto& x : p.f) { h = fold(h, &x->_mp_size, 4); h = fold(h, &x->_mp_exp, 8); h = fold(h, x->_mp_d, (size_t)std::abs(x->_mp_size) * 8); } return h; }
static uint64_t run_plan(const Plan& pl, const Shared& sh) {
  Priv p; priv_init(p, pl.seed); uint64_t h = 1469598103934665603ull;
  for (volatile unsigned i = 0; i < pl.skew; i++) { }
  for (const Step& s : pl.steps) {
    if (!s.op) {   // copy the shared template state (read-only use of a random state) and draw from the private copy
      gmp_randstate_t t; gmp_randinit_set(t, sh.r); mpz_urandomb(p.z[0], t, 200); uint64_t v = gmp_urandomb_ui(t, 64); gmp_randclear(t); h = fold(h, &v, 8); h = digest_priv(h, p); continue; }
    Args a = s.sc; Sig g = parse_sig(s.op->sig); int nzz = g.zo + g.zi, nqq = g.qo + g.qi, nff = g.fo + g.fi;
    for (int k = 0; k < nzz; k++) a.z[k] = s.zi[k] >= 0 ? p.z[s.zi[k]] : (mpz_ptr)sh.z[-1 - s.zi[k]];
    for (int k = 0; k < nqq; k++) a.q[k] = s.qi[k] >= 0 ? p.q[s.qi[k]] : (mpq_ptr)sh.q[-1 - s.qi[k]];
    for (int k = 0; k < nff; k++) a.f[k] = s.fi[k] >= 0 ? p.f[s.fi[k]] : (mpf_ptr)sh.f[-1 - s.fi[k]];
    a.r = p.r;
    if (!s.op->pre(a)) { h = fold(h, "skip", 4); continue; }
    Res r; s.op->run(a, r);
    for (auto v : r.iv) h = fold(h, &v, 8); for (auto& v : r.sv) h = fold(h, v.data(), v.size()); for (auto v : r.dv) h = fold(h, &v, 8);
    for (int i = 0; i < NZ; i++) if (zl(p.z[i]) > 3000) mpz_tdiv_r_2exp(p.z[i], p.z[i], 640);
    for (int i = 0; i < NQ; i++) if (zl(mpq_numref(p.q[i])) + zl(mpq_denref(p.q[i])) > 100) mpq_set_si(p.q[i], 22, 7);
    for (int i = 0; i < NF; i++) if (std::abs((long)p.f[i]->_mp_exp) > 300) mpf_set_ui(p.f[i], 3);
    h = digest_priv(h, p);
  }
  priv_clear(p); return h;
}
struct TArg { const Plan* pl; const Shared* sh; uint64_t out; std::atomic<int>* go; };
static void* thread_main(void* v) { TArg* t = (TArg*)v; while (!t->go->load(std::memory_order_acquire)) { } t->out = run_plan(*t->pl, *t->sh); return nullptr; }

// functions whose first use initialises tables or that use large temporaries: generated first so they race on a cold library
static const char* FIRST[] = {"mpz_fac_ui", "mpz_fib_ui", "mpz_nextprime", "mpz_probab_prime_p", "mpz_get_str", "mpz_set_str", "mpz_mul", "mpz_gcdext", "mpz_bin_uiui", "mpz_primorial_ui", "mpz_powm", "mpf_get_str", "mpz_urandomb", "mpz_likely_prime_p", "gmp_asprintf_Z", "gmp_sscanf_Z", "mpz_lucnum_ui", "mpz_next_prime_candidate"};
static const Op* find_op(const char* n) { for (size_t i = 0; i < NOPS; i++) if (!strcmp(OPS[i].name, n)) return &OPS[i]; return &OPS[0]; }

static void check(ByteSource& in, CaseInfo& ci) {
  Shared sh; size_t big = in.chance(40) ? (size_t)in.range(3600, 4200) : 0;   // FFT-size shared operand: heap temporaries
  for (int i = 0; i < SZ; i++) { mpz_init(sh.z[i]); Int v = gen_int(in, (size_t)expcap(in.scale, 2, 60)); if (i == 0 && big) { Limbs l = limbs_nz(in, big); v = Int::from_limbs(l.data(), big); } mpz_from_int(sh.z[i], v); }
  // shared modulus of odd limb count in the REDC_n range (101..255 limbs): every thread starts with mpz_powm / mpz_powm_ui modulo it (the "many threads, one modulus" use)
  bool redc = !big && in.chance(40); if (redc) { size_t n = 101 + 2 * (size_t)in.range(0, 77); Limbs l = limbs_nz(in, n); l[0] |= 1; mpz_from_int(sh.z[1], Int::from_limbs(l.data(), n)); ci.label("shared_modulus_redc_n_odd_size"); }
  for (int i = 0; i < SQ; i++) { mpq_init(sh.q[i]); mpq_set_si(sh.q[i], in.srange(-1000, 1000), in.range(1, 1000)); mpq_canonicalize(sh.q[i]); } for (int i = 0; i < SF; i++) { mpf_init2(sh.f[i], 128); mpf_set_d(sh.f[i], std::ldexp((double)in.srange(-100000, 100000), (int)in.srange(-10, 10))); }
  { gmp_randinit_mt(sh.r); gmp_randseed_ui(sh.r, in.range(0, 1000)); static const unsigned pre[] = {0, 248, 247, 249, 560, 1}; unsigned k = in.flag() ? pre[in.range(0, 5)] : (unsigned)in.range(0, 700); mpz_t t; mpz_init(t); if (k) mpz_urandomb(t, sh.r, 64ull * k); mpz_clear(t); if (k == 248 || k == 560) ci.label("shared_mt_template_buffer_exhausted"); }
  unsigned nt = (unsigned[]){2, 4, 8}[in.range(0, 2)]; size_t len = (size_t)in.range(1, 6 + in.scale / 8); bool same_plan = in.flag();
  std::vector<Plan> plans(nt);
  auto gen_plan = [&](Plan& pl) { pl.seed = in.u64(); pl.skew = (unsigned)in.range(0, 20000);
    for (size_t s = 0; s < len; s++) { Step st; if (in.chance(24)) { st.op = nullptr; pl.steps.push_back(st); continue; } st.op = (s == 0 && in.chance(180)) ? find_op(FIRST[in.range(0, sizeof FIRST / sizeof FIRST[0] - 1)]) : &OPS[in.range(0, NOPS - 1)]; Sig g = parse_sig(st.op->sig);
      auto idx = [&](int* v, int nout, int ntot, int npriv, int nsh) { for (int k = 0; k < ntot; k++) { if (k < nout) { int x; int tr = 0; bool ok; do { x = (int)in.range(0, npriv - 1); ok = true; for (int j = 0; j < k; j++) if (v[j] == x) ok = false; } while (!ok && ++tr < 40); if (!ok) for (x = 0; x < npriv; x++) { ok = true; for (int j = 0; j < k; j++) if (v[j] == x) ok = false; if (ok) break; } v[k] = x; } else v[k] = in.chance(150) ? -1 - (int)in.range(0, nsh - 1) : (int)in.range(0, npriv - 1); } };
      idx(st.zi, g.zo, g.zo + g.zi, NZ, SZ); idx(st.qi, g.qo, g.qo + g.qi, NQ, SQ); idx(st.fi, g.fo, g.fo + g.fi, NF, SF);
      st.sc.u[0] = in.flag() ? in.range(0, 300) : in.u64(); st.sc.u[1] = in.flag() ? in.range(0, 200) : in.u64(); st.sc.u[2] = in.range(0, 40); st.sc.s[0] = in.srange(-300, 300); st.sc.s[1] = 0; st.sc.d = (double)in.srange(-1000, 1000) / 8.0; st.sc.base = (int)in.range(0, 255); st.sc.str = gen_string(in);
      pl.steps.push_back(st); } };
  gen_plan(plans[0]); for (unsigned t = 1; t < nt; t++) { if (same_plan) { plans[t] = plans[0]; plans[t].skew = (unsigned)in.range(0, 20000); } else gen_plan(plans[t]); }
  if (redc) for (unsigned t = 0; t < nt; t++) { Step st; bool ui = (t & 1) != 0; st.op = find_op(ui ? "mpz_powm_ui" : "mpz_powm"); for (int& x : st.zi) x = 0; for (int& x : st.qi) x = 0; for (int& x : st.fi) x = 0;
      st.zi[0] = 0; st.zi[1] = 1; if (ui) st.zi[2] = -2; else { st.zi[2] = 2; st.zi[3] = -2; }   /* r = private 0, base = private 1 (12345), exponent = private 2 (12345) or U0 >> 20, modulus = shared 1 */
      st.sc.u[0] = (uint64_t)in.range(2, 4000) << 20; st.sc.u[1] = st.sc.u[2] = 0; st.sc.s[0] = st.sc.s[1] = 0; st.sc.d = 0; st.sc.base = 10; plans[t].steps.insert(plans[t].steps.begin(), st); }
  ci.label(nt == 2 ? "threads:2" : nt == 4 ? "threads:4" : "threads:8"); if (same_plan) ci.label("same_sequence_in_all_threads"); if (big) ci.label("fft_size_shared_operand"); ci.nontrivial = true;
  ci.d("%u threads x %zu steps%s:", nt, len, same_plan ? " (same plan)" : ""); for (auto& s : plans[0].steps) { ci.d(" %s", s.op ? s.op->name : "gmp_randinit_set(shared template)"); ci.label(s.op ? s.op->name : "gmp_randinit_set_from_shared_template"); }
  // concurrent run first (cold tables), three start skews; then the serial reference
  std::vector<uint64_t> conc(nt);
  for (int rep = 0; rep < 3; rep++) {
    std::atomic<int> go(0); std::vector<TArg> ta(nt); std::vector<pthread_t> th(nt);
    for (unsigned t = 0; t < nt; t++) { ta[t] = TArg{&plans[t], &sh, 0, &go}; plans[t].skew = (plans[t].skew * 7 + rep * 1237) % 30000; pthread_create(&th[t], nullptr, thread_main, &ta[t]); }
    go.store(1, std::memory_order_release); for (unsigned t = 0; t < nt; t++) pthread_join(th[t], nullptr);
    for (unsigned t = 0; t < nt; t++) { if (rep == 0) conc[t] = ta[t].out; else REQUIRE(conc[t] == ta[t].out, "thread %u obtained different results in repetition %d of the same concurrent run", t, rep); }
  }
  for (unsigned t = 0; t < nt; t++) { uint64_t serial = run_plan(plans[t], sh); REQUIRE(serial == conc[t], "thread %u (of %u) obtained results that differ from the single-threaded execution of the same call sequence", t, nt); }
  for (auto& x : sh.z) mpz_clear(x); for (auto& x : sh.q) mpq_clear(x); for (auto& x : sh.f) mpf_clear(x); gmp_randclear(sh.r);
}
namespace eng {
PropDef g_prop = {"C15",
  "Cases: 2, 4 or 8 threads, each executing a generated sequence of 1..18 operations from the API table (all reentrant public mpz/mpq/mpf/random/printf/scanf entry points; not mp_set_memory_functions, not the default-precision functions, not the obsolete global-state random functions) on private destinations and a private random state, with inputs taken from private variables or from SHARED read-only sources (including a shared Mersenne Twister template state, advanced by 0, 247..249, 560 or a random number of limbs, that threads copy with gmp_randinit_set) (one of them of FFT size in 1 of 6 cases, so heap temporaries are used); the first operation is preferably one with lazily used tables or large temporaries (fac, fib, nextprime, probab_prime, get_str/set_str, mul, gcdext, bin, primorial, powm, printf/scanf); all threads may run the same sequence; every thread set is started three times with different start skews. Oracle: (1) ThreadSanitizer on a TSan build of the library (happens-before race detection: any race aborts the case); (2) each thread's digest of all returned values and all private variables after every step equals the digest of the same sequence executed single-threaded, and is the same in all three repetitions. Non-trivial: every case (>= 2 threads share sources). Distinct = hash of all decoded choices.",
  check, nullptr, {"threads:2", "threads:8", "same_sequence_in_all_threads", "fft_size_shared_operand", "mpz_fac_ui", "mpz_nextprime", "mpz_get_str", "mpz_mul", "mpz_urandomb", "gmp_randinit_set_from_shared_template", "shared_mt_template_buffer_exhausted"}};
}
