// C04: no call sequence corrupts memory, breaks the allocator contract or leaves an ill-formed variable
// Stateful: a pool of variables, histories of operations from the API table, a shadow pool that is never shrunk.
#include "../harness/api_table.hpp"
#include <dlfcn.h>
#include <map>
using namespace eng; using namespace gen; using ref::Int; using namespace api;

// ---- recording allocator ------------------------------------------------------------------------------
static std::map<void*, size_t>* g_live; static std::string g_alloc_err; static int g_in_alloc = 0; static uint64_t g_allocs = 0, g_reallocs = 0;
static void* rec_alloc(size_t n) { g_in_alloc++; void* p = malloc(n ? n : 1); (*g_live)[p] = n; g_allocs++; g_in_alloc--; if (n == 0) g_alloc_err = "allocate called with size 0"; return p; }
static void* rec_realloc(void* p, size_t o, size_t n) { g_in_alloc++; auto it = g_live->find(p); if (it == g_live->end()) g_alloc_err = "reallocate of a block the allocator never returned"; else { if (it->second != o) g_alloc_err = "reallocate called with old size " + std::to_string(o) + " for a block of " + std::to_string(it->second) + " bytes"; g_live->erase(it); } void* q = realloc(p, n ? n : 1); (*g_live)[q] = n; g_reallocs++; g_in_alloc--; return q; }
static void rec_free(void* p, size_t n) { g_in_alloc++; auto it = g_live->find(p); if (it == g_live->end()) g_alloc_err = "free of a block the allocator never returned"; else { if (it->second != n) g_alloc_err = "free called with size " + std::to_string(n) + " for a block of " + std::to_string(it->second) + " bytes"; g_live->erase(it); } free(p); g_in_alloc--; }
// direct malloc/calloc/realloc from library code while custom functions are installed (link: -Wl,--wrap=malloc,--wrap=calloc,--wrap=realloc -rdynamic)
static int g_armed = 0; static std::string g_direct;
extern "C" void* __real_malloc(size_t); extern "C" void* __real_calloc(size_t, size_t); extern "C" void* __real_realloc(void*, size_t);
static void note_direct(void* ra, const char* what) { if (!g_armed || g_in_alloc) return; Dl_info di; if (dladdr(ra, &di) && di.dli_sname && !strncmp(di.dli_sname, "__gmp", 5)) { if (g_direct.empty()) g_direct = std::string(what) + " called directly from " + di.dli_sname; } }
extern "C" void* __wrap_malloc(size_t n) { note_direct(__builtin_return_address(0), "malloc"); return __real_malloc(n); }
extern "C" void* __wrap_calloc(size_t a, size_t b) { note_direct(__builtin_return_address(0), "calloc"); return __real_calloc(a, b); }
extern "C" void* __wrap_realloc(void* p, size_t n) { note_direct(__builtin_return_address(0), "realloc"); return __real_realloc(p, n); }
static void setup() { if (!g_live) { g_live = new std::map<void*, size_t>(); mp_set_memory_functions(rec_alloc, rec_realloc, rec_free); } }

// ---- pools ------------------------------------------------------------------------------------------------------
static const int NZ = 6, NQ = 3, NF = 3, NR = 2;
struct Pool { mpz_t z[NZ]; mpq_t q[NQ]; mpf_t f[NF]; gmp_randstate_t r[NR]; bool rinit[NR]; };
static const unsigned FPREC[NF] = {64, 128, 320};
static void pool_init(Pool& p) { for (auto& x : p.z) mpz_init(x); for (auto& x : p.q) mpq_init(x); for (int i = 0; i < NF; i++) mpf_init2(p.f[i], FPREC[i]); for (int i = 0; i < NR; i++) { gmp_randinit_default(p.r[i]); gmp_randseed_ui(p.r[i], 42 + i); p.rinit[i] = true; } }
static void pool_clear(Pool& p) { for (auto& x : p.z) mpz_clear(x); for (auto& x : p.q) mpq_clear(x); for (auto& x : p.f) mpf_clear(x); for (int i = 0; i < NR; i++) if (p.rinit[i]) gmp_randclear(p.r[i]); }
static const char* mpf_bad(mpf_srcptr f) { int s = f->_mp_size; size_t n = s < 0 ? -s : s; if (n > (size_t)f->_mp_prec + 1) return "more than prec+1 limbs"; if (n && f->_mp_d[n - 1] == 0) return "top limb zero"; if (!n && f->_mp_exp) return "zero with non-zero exponent"; return nullptr; }
static bool zeq(mpz_srcptr a, mpz_srcptr b) { return a->_mp_size == b->_mp_size && memcmp(a->_mp_d, b->_mp_d, zl(a) * 8) == 0; }
static bool feq(mpf_srcptr a, mpf_srcptr b) { int n = std::abs(a->_mp_size); return a->_mp_size == b->_mp_size && a->_mp_exp == b->_mp_exp && a->_mp_prec == b->_mp_prec && memcmp(a->_mp_d, b->_mp_d, n * 8) == 0; }
static void compare_pools(const Pool& P, const Pool& S, const char* after) {
  for (int i = 0; i < NZ; i++) { const char* e = mpz_illformed(P.z[i]); REQUIRE(!e, "after %s: mpz variable z%d is ill-formed: %s", after, i, e); REQUIRE(zeq(P.z[i], S.z[i]), "after %s: z%d differs between the pool whose variables are shrunk/regrown and the shadow pool that never is (value depends on allocation history)", after, i); }
  for (int i = 0; i < NQ; i++) { const char* e = mpz_illformed(mpq_numref(P.q[i])); if (!e) e = mpz_illformed(mpq_denref(P.q[i])); REQUIRE(!e, "after %s: mpq variable q%d is ill-formed: %s", after, i, e); REQUIRE(mpq_denref(P.q[i])->_mp_size > 0, "after %s: q%d has a non-positive denominator", after, i);
    REQUIRE(zeq(mpq_numref(P.q[i]), mpq_numref(S.q[i])) && zeq(mpq_denref(P.q[i]), mpq_denref(S.q[i])), "after %s: q%d differs between the shrunk pool and the shadow pool", after, i); }
  for (int i = 0; i < NF; i++) { const char* e = mpf_bad(P.f[i]); REQUIRE(!e, "after %s: mpf variable f%d violates the format rules: %s", after, i, e); REQUIRE(feq(P.f[i], S.f[i]), "after %s: f%d differs between the two pools", after, i); }
}
static void set_value(Pool& P, Pool& S, int i, const Int& v) { mpz_from_int(P.z[i], v); mpz_from_int(S.z[i], v); }

static void check(ByteSource& in, CaseInfo& ci) {
  size_t live0 = g_live->size(); g_alloc_err.clear(); g_direct.clear();
  Pool P, S; pool_init(P); pool_init(S);
  size_t steps = (size_t)in.range(1, 8 + in.scale * 2 / 3); bool any_forced = false; ci.d("history of %zu steps:", steps);
  try {
    // seed the pools with values
    for (int i = 0; i < NZ; i++) { Int v = gen_int(in, (size_t)expcap(in.scale, 2, 120)); if (in.chance(60)) { v = gen_special(in); ci.label("boundary_value_operand"); } if (i < 2 && in.scale > 40 && in.chance(20)) { Limbs l = limbs_nz(in, (size_t)in.range(2500, 5000)); v = Int::from_limbs(l.data(), l.size(), in.flag()); ci.label("huge_operand_for_heap_temporaries"); } set_value(P, S, i, v); }
    for (int i = 0; i < NQ; i++) { Int n = gen_int(in, 3), d = gen_int(in, 3, false); if (d.is_zero()) d = Int(1); Int g = ref::gcd(n, d); if (!g.is_zero() && !n.is_zero()) { n = ref::tdiv(n, g); d = ref::tdiv(d, g); } if (n.is_zero()) d = Int(1); for (Pool* p : {&P, &S}) { mpz_from_int(mpq_numref(p->q[i]), n); mpz_from_int(mpq_denref(p->q[i]), d); } }
    for (int i = 0; i < NF; i++) { double d = std::ldexp((double)in.srange(-100000, 100000), (int)in.srange(-20, 20)); mpf_set_d(P.f[i], d); mpf_set_d(S.f[i], d); }
    if (in.chance(85)) {   // every mpf variable uses all its prec+1 limbs (top bit set, equal exponents): any read beyond the size is then a read beyond the block
      for (int i = 0; i < NF; i++) { size_t n = (size_t)P.f[i]->_mp_prec + 1; Limbs v = limbs(in, n, S_UNIFORM); v[n - 1] |= 1ull << 63; bool ng = in.flag(); for (Pool* pp : {&P, &S}) { memcpy(pp->f[i]->_mp_d, v.data(), n * 8); pp->f[i]->_mp_size = ng ? -(int)n : (int)n; pp->f[i]->_mp_exp = 1; } }
      ci.label("mpf_pool_uses_all_limbs"); }
    for (size_t st = 0; st < steps; st++) {
      unsigned act = in.pick({70, 8, 5, 6, 5, 3});
      const char* what = "?";
      if (act == 0) {
        const Op& op = OPS[in.range(0, NOPS - 1)]; Sig g = parse_sig(op.sig); what = op.name;
        int zi[5], qi[4], fi[4]; int nzz = g.zo + g.zi, nqq = g.qo + g.qi, nff = g.fo + g.fi; int ri = (int)in.range(0, NR - 1);
        auto pick_idx = [&](int* idx, int nout, int ntot, int pooln) { for (int k = 0; k < ntot; k++) { int v; bool ok; int tries = 0; do { v = (int)in.range(0, pooln - 1); ok = true; if (k < nout) for (int j = 0; j < k; j++) if (idx[j] == v) ok = false; if (k >= nout && tries < 3 && false) ok = true; tries++; } while (!ok && tries < 50); if (!ok) { for (v = 0; v < pooln; v++) { ok = true; for (int j = 0; j < k && j < nout; j++) if (idx[j] == v) ok = false; if (ok) break; } } idx[k] = v; } };
        pick_idx(zi, g.zo, nzz, NZ); pick_idx(qi, g.qo, nqq, NQ); pick_idx(fi, g.fo, nff, NF);
        // outputs may alias inputs (never each other): inputs were drawn freely, so they coincide with outputs now and then; an input equal to an output of a *different* op output slot is fine too
        Args aP, aS; for (Args* a : {&aP, &aS}) { Pool& p = a == &aP ? P : S; for (int k = 0; k < nzz; k++) a->z[k] = p.z[zi[k]]; for (int k = 0; k < nqq; k++) a->q[k] = p.q[qi[k]]; for (int k = 0; k < nff; k++) a->f[k] = p.f[fi[k]]; a->r = p.r[ri]; }
        aP.u[0] = in.pick({3, 2, 2}) == 0 ? in.u64() : in.flag() ? in.range(0, 300) : PALETTE[in.u8() & 7]; aP.u[1] = in.flag() ? in.range(0, 200) : in.u64(); aP.u[2] = in.flag() ? in.range(0, 40) : in.u64(); aP.s[0] = (int64_t)(in.flag() ? in.u64() : (uint64_t)in.srange(-300, 300)); aP.s[1] = in.srange(-5, 5);
        { uint64_t b = in.u64(); if (in.flag()) b = (b & 0x800fffffffffffffull) | ((uint64_t)in.range(900, 1200) << 52); memcpy(&aP.d, &b, 8); if (std::isnan(aP.d)) aP.d = 1.5; } aP.base = (int)in.range(0, 255); aP.str = gen_string(in);
        aS.u[0] = aP.u[0]; aS.u[1] = aP.u[1]; aS.u[2] = aP.u[2]; aS.s[0] = aP.s[0]; aS.s[1] = aP.s[1]; aS.d = aP.d; aS.base = aP.base; aS.str = aP.str;
        if ((op.flags & F_RAND) && (!P.rinit[ri])) continue;
        bool okP = op.pre(aP), okS = op.pre(aS); REQUIRE(okP == okS, "precondition of %s evaluates differently on the two pools", op.name);
        if (!okP) { ci.label("op_skipped_precondition"); continue; }
        // shrink every mpz output (and mpq parts) of pool P to the smallest legal allocation, or give it a fresh variable, sometimes grow it
        size_t alloc_before[5] = {0};
        for (int k = 0; k < g.zo; k++) { mpz_ptr z = aP.z[k]; unsigned sh = in.pick({5, 3, 1, 1}); bool is_input = false; for (int j = g.zo; j < nzz; j++) if (zi[j] == zi[k]) is_input = true;
          if (sh == 1) mpz_realloc2(z, mpz_sizeinbase(z, 2)); else if (sh == 2 && !is_input) { mpz_clear(z); mpz_init(z); mpz_set(z, aS.z[k]); mpz_realloc2(z, mpz_sizeinbase(z, 2)); } else if (sh == 3) mpz_realloc2(z, 64 * (zl(z) + (size_t)in.range(1, 40)));
          alloc_before[k] = (size_t)z->_mp_alloc; }
        for (int k = 0; k < g.qo; k++) { mpq_ptr q = aP.q[k]; if (in.flag()) { mpz_realloc2(mpq_numref(q), mpz_sizeinbase(mpq_numref(q), 2)); mpz_realloc2(mpq_denref(q), mpz_sizeinbase(mpq_denref(q), 2)); } }
        ci.d(" %s(", op.name); for (int k = 0; k < nzz; k++) ci.d("%sz%d", k == g.zo ? "; " : k ? "," : "", zi[k]); for (int k = 0; k < nqq; k++) ci.d("%sq%d", k == g.qo ? "; " : ",", qi[k]); for (int k = 0; k < nff; k++) ci.d("%sf%d", k == g.fo ? "; " : ",", fi[k]); ci.d(")");
        Res rP, rS; g_armed = 1; op.run(aP, rP); g_armed = 0; op.run(aS, rS);   // callers inside libc (stdio buffers) are not "__gmp" symbols and are ignored
        for (auto& sv : rP.sv) REQUIRE(sv.compare(0, 10, "ILL-FORMED") != 0, "%s: %s", op.name, sv.c_str());
        REQUIRE(g_direct.empty(), "%s: %s although custom memory functions are installed", op.name, g_direct.c_str());
        REQUIRE(g_alloc_err.empty(), "%s: allocator contract broken: %s", op.name, g_alloc_err.c_str());
        REQUIRE(rP == rS, "%s: returned values / strings differ between the shrunk pool and the shadow pool", op.name);
        for (int k = 0; k < g.zo; k++) if (zl(aP.z[k]) > alloc_before[k]) { any_forced = true; ci.label("realloc_forced"); }
        ci.label(op.name); if (op.flags & F_STDIO) ci.label("stdio_op"); if (!rP.sv.empty()) ci.label("string_alloc");
        for (int k = 0; k < nzz; k++) if (zl(aP.z[k]) > 64) { ci.label("heap_tmp_size_operand"); break; }
        // keep sizes bounded
        for (int i = 0; i < NZ; i++) if (zl(P.z[i]) > (i < 2 ? 6000u : 700u)) { mpz_tdiv_r_2exp(P.z[i], P.z[i], 640); mpz_tdiv_r_2exp(S.z[i], S.z[i], 640); }
        for (int i = 0; i < NQ; i++) if (zl(mpq_numref(P.q[i])) + zl(mpq_denref(P.q[i])) > 120) { mpq_set_si(P.q[i], 22, 7); mpq_set_si(S.q[i], 22, 7); }
        for (int i = 0; i < NF; i++) if (std::abs((long)P.f[i]->_mp_exp) > 400) { mpf_set_ui(P.f[i], 3); mpf_set_ui(S.f[i], 3); }
      } else if (act == 1) { int i = (int)in.range(0, NZ - 1); unsigned k = in.pick({3, 2, 2}); what = "mpz_realloc2"; if (k == 0) mpz_realloc2(P.z[i], mpz_sizeinbase(P.z[i], 2)); else if (k == 1) mpz_realloc2(P.z[i], 64 * (zl(P.z[i]) + (size_t)in.range(0, 50))); else { _mpz_realloc(P.z[i], (mp_size_t)(zl(P.z[i]) + (size_t)in.range(0, 9))); what = "_mpz_realloc"; } ci.label("explicit_realloc"); ci.d(" %s(z%d)", what, i); }
      else if (act == 2) { int i = (int)in.range(0, NZ - 1); what = "clear+init"; Int v = int_from_mpz(P.z[i]); mpz_clear(P.z[i]); unsigned k = in.pick({2, 2, 2}); if (k == 0) mpz_init(P.z[i]); else if (k == 1) mpz_init2(P.z[i], in.range(0, 3000)); else { mpz_init_set_ui(P.z[i], 7); } mpz_from_int(P.z[i], v); ci.label("clear_init"); ci.d(" clear+init(z%d)", i); }
      else if (act == 3) { int i = (int)in.range(0, NF - 1); unsigned k = in.pick({2, 2}); uint64_t np = in.range(1, 600);
        if (k == 0) { what = "mpf_set_prec"; mpf_set_prec(P.f[i], np); mpf_set_prec(S.f[i], np); ci.label("mpf_set_prec"); }
        else { what = "mpf_set_prec_raw"; uint64_t orig = mpf_get_prec(P.f[i]); uint64_t low = 1 + np % orig; mpf_set_prec_raw(P.f[i], low); mpf_set_prec_raw(S.f[i], low); int j = (int)in.range(0, NF - 1); int l = (int)in.range(0, NF - 1); if (j != i && l != i) { mpf_mul(P.f[i], P.f[j], P.f[l]); mpf_mul(S.f[i], S.f[j], S.f[l]); } mpf_set_prec_raw(P.f[i], orig); mpf_set_prec_raw(S.f[i], orig); ci.label("mpf_set_prec_raw"); }
        ci.d(" %s(f%d,%llu)", what, i, (unsigned long long)np); }
      else if (act == 4) { int i = (int)in.range(0, NR - 1); unsigned k = in.pick({2, 2, 2, 2}); what = "randstate";
        for (Pool* p : {&P, &S}) { if (k == 0) gmp_randseed_ui(p->r[i], 1234567 + st); else if (k == 1) gmp_randseed(p->r[i], p->z[0]); else if (k == 2) { gmp_randclear(p->r[i]); int kind = (int)(st % 3); if (kind == 0) gmp_randinit_mt(p->r[i]); else if (kind == 1) gmp_randinit_lc_2exp_size(p->r[i], 32 + (st % 90)); else { mpz_t a; mpz_init_set_ui(a, 1103515245); gmp_randinit_lc_2exp(p->r[i], a, 12345, 64); mpz_clear(a); } gmp_randseed_ui(p->r[i], 99); }
          else { int j = 1 - i; gmp_randclear(p->r[i]); gmp_randinit_set(p->r[i], p->r[j]); } } ci.label(k == 3 ? "randstate_copy" : "randstate_reseed_or_reinit"); ci.d(" randstate(%d,%u)", i, k); }
      else { int i = (int)in.range(0, NZ - 1), j = (int)in.range(0, NZ - 1); what = "mpz_swap/inits"; mpz_swap(P.z[i], P.z[j]); mpz_swap(S.z[i], S.z[j]); mpz_t t1, t2; mpz_inits(t1, t2, NULL); mpz_set(t1, P.z[i]); mpz_clears(t1, t2, NULL); ci.d(" swap(z%d,z%d)", i, j); }
      REQUIRE(g_alloc_err.empty(), "%s: allocator contract broken: %s", what, g_alloc_err.c_str());
      compare_pools(P, S, what);
    }
  } catch (...) { pool_clear(P); pool_clear(S); throw; }
  pool_clear(P); pool_clear(S);
  REQUIRE(g_alloc_err.empty(), "clearing the pools: allocator contract broken: %s", g_alloc_err.c_str());
  REQUIRE(g_live->size() == live0, "%zu block(s) still held after every object was cleared (leak)", g_live->size() - live0);
  if (any_forced) ci.nontrivial = true;
}
// deterministic case: a request for 2^31 limbs, one more than the int fields _mp_alloc / _mp_size can record.  The only acceptable outcomes are a clean
// failure ("gmp: overflow in mpz type" and abort, as for an allocation that fails) or a well-formed object; returning normally with a negative
// allocation is an ill-formed object.  Each call runs in a forked child with a lazily mapped allocator (the 16 GiB are address space, never touched).
#include <sys/mman.h>
#include <sys/wait.h>
#include <unistd.h>
static void* lazy_alloc(size_t n) { void* p = mmap(nullptr, n ? n : 1, PROT_READ | PROT_WRITE, MAP_PRIVATE | MAP_ANONYMOUS | MAP_NORESERVE, -1, 0); return p == MAP_FAILED ? nullptr : p; }
static void* lazy_realloc(void* o, size_t on, size_t nn) { void* p = lazy_alloc(nn); if (p && o) { memcpy(p, o, std::min<size_t>(std::min(on, nn), 4096)); munmap(o, on ? on : 1); } return p; }
static void lazy_free(void* p, size_t n) { munmap(p, n ? n : 1); }
// runs f in a forked child with stderr captured; exit codes of f: 0 = returned normally with an acceptable state, 7 = returned normally with an unacceptable state, 8 = no verdict
struct ChildOut { int st = 0; std::string err; bool clean_abort() const { bool msg = err.find("overflow in mp") != std::string::npos || err.find("Cannot allocate memory") != std::string::npos || err.find("cannot allocate memory") != std::string::npos;
    return msg && ((WIFSIGNALED(st) && WTERMSIG(st) == SIGABRT) || (WIFEXITED(st) && WEXITSTATUS(st) == 3)); }
  bool exited(int c) const { return WIFEXITED(st) && WEXITSTATUS(st) == c; } };
template <class F> static ChildOut run_child(F f) {
  ChildOut o; int pfd[2]; if (pipe(pfd) != 0) { o.st = 8 << 8; return o; } fflush(nullptr); pid_t pid = fork(); if (pid < 0) { close(pfd[0]); close(pfd[1]); o.st = 8 << 8; return o; }
  if (pid == 0) { close(pfd[0]); dup2(pfd[1], 2); _exit(f()); }
  close(pfd[1]); char b[512]; ssize_t r; while ((r = read(pfd[0], b, sizeof b)) > 0) o.err.append(b, (size_t)r); close(pfd[0]); waitpid(pid, &o.st, 0); return o; }
static void fixed_case(unsigned k, CaseInfo& ci) {
  if (k == 0) {
    ci.desc = "mpz_init2(z, 2^37), mpz_realloc2(z, 2^37), _mpz_realloc(z, 2^31), mpf_init2 / mpf_set_prec / mpf_set_prec_raw / mpf_set_default_prec with 2^38 bits on lazily mapped memory: overflow abort or a well-formed object";
    static const char* nm[3] = {"mpz_init2(z, 2^37)", "mpz_realloc2(z, 2^37)", "_mpz_realloc(z, 2^31)"};
    for (int which = 0; which < 3; which++) {
      ChildOut o = run_child([&]() -> int { mp_set_memory_functions(lazy_alloc, lazy_realloc, lazy_free); mpz_t z; const mp_bitcnt_t bits = (mp_bitcnt_t)1 << 37;
        if (which == 0) mpz_init2(z, bits); else { mpz_init(z); if (which == 1) mpz_realloc2(z, bits); else _mpz_realloc(z, (mp_size_t)1 << 31); }
        if (z->_mp_d == nullptr) return 8; return (long)z->_mp_alloc >= ((long)1 << 31) && z->_mp_size == 0 ? 0 : 7; });
      REQUIRE(o.clean_abort() || o.exited(0) || o.exited(8), "%s returned normally with an ill-formed object (_mp_alloc cannot hold 2^31: it is negative), or died otherwise (wait status 0x%x, stderr \"%.120s\"); acceptable: the overflow abort, or a well-formed object", nm[which], o.st, o.err.c_str());
    }
    // the same for mpf: a precision of 2^32 limbs and more does not fit the int field _mp_prec
    static const char* fm[4] = {"mpf_init2(f, 2^38)", "mpf_set_prec(f, 2^38)", "mpf_set_prec_raw(f, 2^38)", "mpf_set_default_prec(2^38); mpf_init(f)"};
    for (int which = 0; which < 4; which++) {
      ChildOut o = run_child([&]() -> int { mp_set_memory_functions(lazy_alloc, lazy_realloc, lazy_free); mpf_t f; const mp_bitcnt_t bits = (mp_bitcnt_t)1 << 38;
        if (which == 0) mpf_init2(f, bits); else if (which == 3) { mpf_set_default_prec(bits); mpf_init(f); } else { mpf_init2(f, 128); if (which == 1) mpf_set_prec(f, bits); else mpf_set_prec_raw(f, bits); }
        if (f->_mp_d == nullptr) return 8; return (long)f->_mp_prec >= (long)(bits / 64) ? 0 : 7; });
      REQUIRE(o.clean_abort() || o.exited(0) || o.exited(8), "%s returned normally with _mp_prec too small for the request (the int field cannot hold 2^32 limbs), or died otherwise (wait status 0x%x, stderr \"%.120s\"); acceptable: the overflow abort, or a precision at least as large as requested", fm[which], o.st, o.err.c_str());
    }
  }
  if (k == 1) {
    // bit counts and exponents near the largest unsigned long: the result cannot be represented, so the only acceptable outcomes are a clean failure (the
    // library's overflow / out-of-memory abort) or - for the allocation functions - an object that is well formed and keeps its value; never a
    // wrapped-around size computation followed by a normal return or by writes outside the block
    ci.desc = "mpz_realloc2 / mpz_init2 / mpf_init2 / mpz_urandomb / mpz_rrandomb with bit counts ULONG_MAX-10 and ULONG_MAX-62, mpz_ui_pow_ui(3, 11574427654092267712), (2^32)^(2^59+1): clean failure, or (allocation functions) a well-formed object with its value";
    static const unsigned long BC[3] = {~0ul - 10, ~0ul - 62, ~0ul};
    for (int which = 0; which < 7; which++) for (int bi = 0; bi < (which >= 5 ? 1 : 3); bi++) {
      unsigned long bits = BC[bi]; static const char* nm[7] = {"mpz_realloc2(x = 5, bits)", "mpz_init2(x, bits)", "mpf_init2(f, bits)", "mpz_urandomb(r, state, bits)", "mpz_rrandomb(r, state, bits)", "mpz_ui_pow_ui(r, 3, 11574427654092267712)", "mpz_pow_ui(r, 2^32, 2^59+1)"};
      ChildOut o = run_child([&]() -> int { mp_set_memory_functions(nullptr, nullptr, nullptr);
        if (which == 0) { mpz_t x; mpz_init_set_ui(x, 5); mpz_realloc2(x, bits); return (mpz_cmp_ui(x, 5) == 0 && x->_mp_alloc >= 1) ? 0 : 7; }
        if (which == 1) { mpz_t x; mpz_init2(x, bits); return 7; }                       /* 2^58 limbs cannot be recorded in the int field: a normal return is never right */
        if (which == 2) { mpf_t f; mpf_init2(f, bits); return mpf_get_prec(f) >= 53 ? 7 : 7; }   /* nor can 2^58 limbs be allocated */
        if (which == 3 || which == 4) { gmp_randstate_t st; gmp_randinit_default(st); mpz_t r; mpz_init(r); if (which == 3) mpz_urandomb(r, st, bits); else mpz_rrandomb(r, st, bits); return 7; }
        if (which == 5) { mpz_t r; mpz_init(r); mpz_ui_pow_ui(r, 3, 11574427654092267712UL); return 7; }
        mpz_t r, b; mpz_init(r); mpz_init_set_ui(b, 1); mpz_mul_2exp(b, b, 32); mpz_pow_ui(r, b, ((unsigned long)1 << 59) + 1); return 7; });
      REQUIRE(o.clean_abort() || o.exited(0) || o.exited(8), "%s with bits = ULONG_MAX-%lu: neither a clean failure nor an acceptable object (wait status 0x%x: %s; stderr \"%.160s\")", nm[which], ~0ul - bits, o.st,
              o.exited(7) ? "returned normally with a wrong value / unrepresentable request accepted" : "died without the library's overflow or out-of-memory message: memory error", o.err.c_str());
    }
  }
}
namespace eng {
PropDef g_prop = {"C04",
  "Cases: histories of 1..70 operations over a pool of 6 mpz, 3 mpq, 3 mpf (precisions 64/128/320, changed by mpf_set_prec and mpf_set_prec_raw+restore) and 2 random states. Operations come from the API table (harness/api_table.hpp, ~200 public mpz/mpq/mpf/random/printf/scanf entry points with their documented preconditions; outputs distinct from each other, inputs drawn freely so that outputs alias inputs), plus mpz_realloc2/_mpz_realloc (shrink to the smallest legal size, grow), clear+init/init2/init_set, inits/clears, swap, reseeding/re-initialising/copying random states, parsing functions fed valid, near-valid and arbitrary byte strings. Before each call every mpz/mpq destination of the working pool is (with probability 1/2) shrunk to the smallest legal allocation or replaced by a fresh variable. Invariants after every step: recording allocator (exact old size passed to reallocate/free, no unknown pointers, non-zero sizes), no direct malloc/calloc/realloc from library code (link-time wrap + dladdr of the caller), ASan/UBSan silent, every variable well formed (size within allocation, top limb non-zero, denominator positive, mpf format rules), and every value and every returned number/string identical to a shadow pool on which the same history runs without ever shrinking anything; at the end nothing is live after clearing every object. Non-trivial: a history in which some call had to grow a shrunk destination. Distinct = hash of all decoded choices.",
  check, setup, {"realloc_forced", "heap_tmp_size_operand", "string_alloc", "explicit_realloc", "clear_init", "mpf_set_prec", "mpf_set_prec_raw", "randstate_copy", "stdio_op", "op_skipped_precondition"}, fixed_case};
}
