// C12: rational arithmetic is exact and every result is canonical
#include "../harness/gen.hpp"
#include <cmath>
using namespace eng; using namespace gen; using ref::Int;

struct Frac { Int n, d; };   // d > 0, coprime, 0 = 0/1 when canonical
static Frac canon(Int n, Int d) { if (d.neg) { n = -n; d = -d; } if (n.is_zero()) return {Int(0), Int(1)}; Int g = ref::gcd(n, d); return {ref::tdiv(n, g), ref::tdiv(d, g)}; }
struct Q { mpq_t q; Q() { mpq_init(q); } ~Q() { mpq_clear(q); } operator mpq_ptr() { return q; } };
static void set_q(mpq_ptr q, const Frac& f) { mpz_from_int(mpq_numref(q), f.n); mpz_from_int(mpq_denref(q), f.d); }
static Frac get_q(mpq_srcptr q) { return {int_from_mpz(mpq_numref(q)), int_from_mpz(mpq_denref(q))}; }
static void require_canonical_eq(const char* what, mpq_srcptr q, const Frac& e) {
  REQUIRE_WF(mpq_numref(q), what); REQUIRE_WF(mpq_denref(q), what);
  Frac g = get_q(q);
  REQUIRE(g.d.sgn() > 0, "%s: denominator not positive", what);
  REQUIRE(g.n == e.n && g.d == e.d, "%s: result %s/%s differs from the canonical exact result %s/%s", what, show(g.n, 40).c_str(), show(g.d, 40).c_str(), show(e.n, 40).c_str(), show(e.d, 40).c_str());
}
// canonical rational with planted structure
static Frac gen_frac(ByteSource& in, size_t cap, const Int* f1, const Int* f2) {
  unsigned k = in.pick({8, 2, 1, 1, 2, 2});
  Int n = gen_int(in, cap), d = gen_int(in, cap, false);
  if (k == 1) d = Int(1);                                        // integer
  if (k == 2) n = Int(0);
  if (k == 3) { n = Int(in.flag() ? 1 : -1); }
  if (k == 4) { d = ref::pow2(in.range(0, 64 * std::min<size_t>(cap, 6))); }     // power of two denominator
  if (k == 5) { n = ref::shl(n, in.range(0, 200)); }                              // power of two in the numerator
  if (f1 && in.flag()) n = n * *f1; if (f2 && in.flag()) d = d * *f2;
  if (d.is_zero()) d = Int(1);
  return canon(n, d);
}
static void case_arith(ByteSource& in, CaseInfo& ci) {
  unsigned f = in.pick({4, 4, 4, 4}); static const char* names[] = {"mpq_add", "mpq_sub", "mpq_mul", "mpq_div"};
  size_t cap = std::max<size_t>(1, expcap(in.scale, 2, 120));
  // shared factors between the cross terms: g between denominators, h1 between num1 and den2, h2 between num2 and den1
  auto fac = [&]() { unsigned k = in.pick({2, 2, 2}); if (k == 0) return Int(1); if (k == 1) return Int::from_u64(in.range(2, 1000)); Limbs v = limbs_nz(in, (size_t)in.range(1, std::max<size_t>(1, cap / 2))); return Int::from_limbs(v.data(), v.size()); };
  Int g = fac(), h1 = fac(), h2 = fac();
  Frac x = gen_frac(in, cap, &h1, &g), y = gen_frac(in, cap, &h2, &g);
  { Frac x2 = canon(x.n, x.d * h2), y2 = canon(y.n, y.d * h1); if (in.flag()) { x = x2; y = y2; } }
  if (f == 3 && y.n.is_zero()) y = {Int(1), y.d};
  unsigned rel = in.pick({6, 1, 1, 1}); if (rel == 1) y = x; if (rel == 2) y = {-x.n, x.d}; if (rel == 3 && !x.n.is_zero()) y = canon(x.d, x.n);
  if (f == 3 && y.n.is_zero()) y = {Int(1), Int(1)};
  Frac e;
  switch (f) { case 0: e = canon(x.n * y.d + y.n * x.d, x.d * y.d); break; case 1: e = canon(x.n * y.d - y.n * x.d, x.d * y.d); break; case 2: e = canon(x.n * y.n, x.d * y.d); break; default: e = canon(x.n * y.d, x.d * y.n); break; }
  ci.label(names[f]); if (!(x.d == Int(1)) && !(y.d == Int(1))) ci.nontrivial = true;
  if (!(ref::gcd(x.d, y.d) == Int(1))) ci.label("gcd(den1,den2)>1"); if (!x.n.is_zero() && !(ref::gcd(x.n, y.d) == Int(1))) ci.label("gcd(num1,den2)>1"); if (!y.n.is_zero() && !(ref::gcd(y.n, x.d) == Int(1))) ci.label("gcd(num2,den1)>1");
  if (e.n.is_zero()) ci.label("result_zero"); if (e.d == Int(1)) ci.label("result_integer");
  Q a, b, r; set_q(a, x); set_q(b, y); { Frac j = gen_frac(in, 2, nullptr, nullptr); set_q(r, j); }
  unsigned al = in.pick({4, 2, 2, 1, 1});   // distinct; r==a; r==b; a==b (same object, y:=x); r==a==b
  ci.d("%s alias=%u ", names[f], al); DESC(ci, "x=" + show(x.n, 40) + "/" + show(x.d, 40) + " y=" + show(y.n, 40) + "/" + show(y.d, 40));
  mpq_ptr o = r; mpq_srcptr s1 = a, s2 = b;
  if (al == 1) o = a; else if (al == 2) o = b; else if (al >= 3) { if (f == 3 && x.n.is_zero()) return; s2 = a; y = x; if (al == 4) o = a;
    switch (f) { case 0: e = canon(x.n + x.n, x.d); break; case 1: e = {Int(0), Int(1)}; break; case 2: e = canon(x.n * x.n, x.d * x.d); break; default: e = {Int(1), Int(1)}; break; } }
  switch (f) { case 0: mpq_add(o, s1, s2); break; case 1: mpq_sub(o, s1, s2); break; case 2: mpq_mul(o, s1, s2); break; default: mpq_div(o, s1, s2); break; }
  char what[64]; snprintf(what, sizeof what, "%s (alias %u)", names[f], al); require_canonical_eq(what, o, e);
  if (o != a.q) { Frac t = get_q(a); REQUIRE(t.n == x.n && t.d == x.d, "%s: first operand modified", names[f]); }
  if (o != b.q && al < 3) { Frac t = get_q(b); REQUIRE(t.n == y.n && t.d == y.d, "%s: second operand modified", names[f]); }
}
static void case_unary(ByteSource& in, CaseInfo& ci) {
  unsigned f = in.pick({3, 2, 2, 4, 4, 2, 2}); static const char* names[] = {"mpq_inv", "mpq_neg", "mpq_abs", "mpq_mul_2exp", "mpq_div_2exp", "mpq_set", "mpq_swap"};
  size_t cap = std::max<size_t>(1, expcap(in.scale, 2, 150)); Frac x = gen_frac(in, cap, nullptr, nullptr);
  if (f == 0 && x.n.is_zero()) x = {Int(-3), Int(7)};
  uint64_t sh = 0; if (f == 3 || f == 4) { unsigned k = in.pick({3, 3, 2}); sh = k == 0 ? (uint64_t[]){0, 1, 63, 64, 65, 128, 192}[in.range(0, 6)] : k == 1 ? in.range(0, 300) : in.logrange(0, 64 * cap + 100); }
  Frac e; switch (f) { case 0: e = canon(x.d, x.n); break; case 1: e = {-x.n, x.d}; break; case 2: e = {x.n.abs(), x.d}; break; case 3: e = canon(ref::shl(x.n, sh), x.d); break; case 4: e = canon(x.n, ref::shl(x.d, sh)); break; default: e = x; break; }
  ci.label(names[f]); if (x.n.size() >= 2 || x.d.size() >= 2) ci.nontrivial = true; if (x.n.neg) ci.label("negative");
  if ((f == 3 || f == 4) && sh >= 64) { const Int& part = f == 3 ? x.d : x.n; if (!part.is_zero() && part.m[0] == 0) ci.label("2exp:shift>=64_with_zero_low_limb"); }
  Q a, r; set_q(a, x); { Frac j = gen_frac(in, 2, nullptr, nullptr); set_q(r, j); } bool inplace = in.flag(); mpq_ptr o = inplace ? a.q : r.q;
  ci.d("%s shift=%llu inplace=%d ", names[f], (unsigned long long)sh, (int)inplace); DESC(ci, "x=" + show(x.n, 40) + "/" + show(x.d, 40));
  if (inplace) ci.label("inplace");
  if (f == 6) { Frac y = get_q(r); if (inplace) { mpq_swap(a, a); require_canonical_eq("mpq_swap(x,x)", a, x); } else { mpq_swap(a, r); require_canonical_eq("mpq_swap", a, y); require_canonical_eq("mpq_swap", r, x); } return; }
  switch (f) { case 0: mpq_inv(o, a); break; case 1: mpq_neg(o, a); break; case 2: mpq_abs(o, a); break; case 3: mpq_mul_2exp(o, a, sh); break; case 4: mpq_div_2exp(o, a, sh); break; default: mpq_set(o, a); break; }
  char what[64]; snprintf(what, sizeof what, "%s%s", names[f], inplace ? " (in place)" : ""); require_canonical_eq(what, o, e);
  if (!inplace) { Frac t = get_q(a); REQUIRE(t.n == x.n && t.d == x.d, "%s: operand modified", names[f]); }
}
static void case_convert(ByteSource& in, CaseInfo& ci) {
  unsigned f = in.pick({4, 3, 3, 2, 2, 2, 2, 2});
  static const char* names[] = {"mpq_canonicalize", "mpq_set_d", "mpq_set_f", "mpq_set_z", "mpq_set_si", "mpq_set_ui", "mpq_set_num/den", "mpq_get_num/den"};
  ci.label(names[f]); size_t cap = std::max<size_t>(1, expcap(in.scale, 2, 150)); Q q; { Frac j = gen_frac(in, 2, nullptr, nullptr); set_q(q, j); }
  switch (f) {
    case 0: { Int n = gen_int(in, cap), d = gen_int(in, cap); if (d.is_zero()) d = Int(-5); Int g = gen_int(in, std::max<size_t>(1, cap / 2), false); if (!g.is_zero() && in.chance(170)) { n = n * g; d = d * g; }
      if (in.chance(40)) n = Int(0); ci.nontrivial = n.size() >= 2; if (d.neg) ci.label("canonicalize:den_negative");
      ci.d("mpq_canonicalize "); DESC(ci, "n=" + show(n, 40) + " d=" + show(d, 40));
      mpz_from_int(mpq_numref(q.q), n); mpz_from_int(mpq_denref(q.q), d); mpq_canonicalize(q); require_canonical_eq("mpq_canonicalize", q, canon(n, d)); break; }
    case 1: { uint64_t bits = in.u64(); unsigned k = in.pick({4, 2, 2, 2}); if (k == 1) bits &= 0x800fffffffffffffull; /* subnormal */ if (k == 2) bits = (bits & 0x8000000000000000ull) | ((uint64_t)in.range(1, 2046) << 52) | (in.flag() ? 0 : (bits & 0xfffff00000000ull));
      if (k == 3) { double dd = (double)(int64_t)in.srange(-1000, 1000) / (double)(1 << in.range(0, 10)); memcpy(&bits, &dd, 8); }
      if (((bits >> 52) & 0x7ff) == 0x7ff) bits &= ~(1ull << 62);   // finite only
      double d; memcpy(&d, &bits, 8); int ex; double m = std::frexp(d, &ex); Int mant((long long)std::ldexp(m, 53)); ex -= 53; Frac e = ex >= 0 ? canon(ref::shl(mant, ex), Int(1)) : canon(mant, ref::pow2(-ex));
      ci.nontrivial = d != 0.0; ci.d("mpq_set_d d=%a ", d); if (((bits >> 52) & 0x7ff) == 0) ci.label("set_d:subnormal_or_zero");
      mpq_set_d(q, d); require_canonical_eq("mpq_set_d", q, e); break; }
    case 2: { // mpf built by hand: value = mantissa * 2^(64*(exp-size))
      size_t n = (size_t)in.range(0, std::min<size_t>(cap, 20)); Limbs v = limbs_nz(in, n); if (n && in.flag()) { size_t z = (size_t)in.range(0, n - 1); std::fill(v.begin(), v.begin() + z, 0); }
      long ex = (long)in.srange(-30, 30); bool neg = in.flag(); mpf_t fl; mpf_init2(fl, 64 * std::max<size_t>(n, 1));
      struct Clr { mpf_ptr f; ~Clr() { mpf_clear(f); } } clr{fl};
      for (size_t i = 0; i < n; i++) fl->_mp_d[i] = v[i]; fl->_mp_size = neg ? -(int)n : (int)n; fl->_mp_exp = n ? ex : 0;
      Int mant = Int::from_limbs(v.data(), n, neg); long e2 = 64 * (ex - (long)n); Frac e = n == 0 ? Frac{Int(0), Int(1)} : e2 >= 0 ? canon(ref::shl(mant, e2), Int(1)) : canon(mant, ref::pow2(-e2));
      ci.nontrivial = n >= 2; ci.d("mpq_set_f size=%zu exp=%ld ", n, ex); DESC(ci, "mant=" + show(mant, 40)); if (e2 < 0 && n && v[0] == 0) ci.label("set_f:low_zero_limbs");
      mpq_set_f(q, fl); require_canonical_eq("mpq_set_f", q, e); break; }
    case 3: { Int z = gen_int(in, cap); mpz_t zz; mpz_init(zz); mpz_from_int(zz, z); mpq_set_z(q, zz); mpz_clear(zz); ci.nontrivial = z.size() >= 2; DESC(ci, "mpq_set_z z=" + show(z, 40)); require_canonical_eq("mpq_set_z", q, {z, Int(1)}); break; }
    case 4: case 5: { uint64_t d = in.flag() ? in.range(1, 1000) : in.u64(); if (!d) d = 1; Int n; if (f == 4) { int64_t s = in.flag() ? (int64_t)in.u64() : in.srange(-1000, 1000); if (in.chance(30)) s = in.flag() ? INT64_MIN : INT64_MAX; n = Int((long long)s); mpq_set_si(q, s, d); } else { uint64_t u = in.flag() ? in.u64() : in.range(0, 1000); n = Int::from_u64(u); mpq_set_ui(q, u, d); }
      Frac g = get_q(q); ci.nontrivial = true; DESC(ci, std::string(names[f]) + " n=" + show(n, 40) + " d=" + std::to_string(d));
      REQUIRE(g.n == n && (g.d == Int::from_u64(d) || (n.is_zero() && g.d == Int(1))), "%s: numerator/denominator not stored exactly (0/d may be stored as 0/1)", names[f]);
      mpq_canonicalize(q); require_canonical_eq(f == 4 ? "mpq_set_si + canonicalize" : "mpq_set_ui + canonicalize", q, canon(n, Int::from_u64(d))); break; }
    case 6: { Int n = gen_int(in, cap), d = gen_int(in, cap, false); if (d.is_zero()) d = Int(1); mpz_t zn, zd; mpz_init(zn); mpz_init(zd); mpz_from_int(zn, n); mpz_from_int(zd, d); mpq_set_num(q, zn); mpq_set_den(q, zd); mpz_clear(zn); mpz_clear(zd);
      Frac g = get_q(q); ci.nontrivial = n.size() >= 2; DESC(ci, "mpq_set_num/den n=" + show(n, 40) + " d=" + show(d, 40)); REQUIRE(g.n == n && g.d == d, "mpq_set_num/mpq_set_den: value not stored exactly"); break; }
    default: { Frac x = gen_frac(in, cap, nullptr, nullptr); set_q(q, x); mpz_t zn, zd; mpz_init(zn); mpz_init(zd); mpq_get_num(zn, q); mpq_get_den(zd, q); Int n = int_from_mpz(zn), d = int_from_mpz(zd); mpz_clear(zn); mpz_clear(zd);
      ci.nontrivial = x.n.size() >= 2; DESC(ci, "mpq_get_num/den x=" + show(x.n, 40) + "/" + show(x.d, 40)); REQUIRE(n == x.n && d == x.d, "mpq_get_num/mpq_get_den: wrong value"); break; }
  }
}
static void check(ByteSource& in, CaseInfo& ci) { switch (in.pick({6, 4, 3})) { case 0: case_arith(in, ci); break; case 1: case_unary(in, ci); break; default: case_convert(in, ci); break; } }
// ---- exhaustive sweep: x = n1/d1 with n1 a signed and d1 a positive two-limb palette value, y from a set of 48 small and boundary rationals ----
struct QQ { mpq_t q; QQ() { mpq_init(q); } ~QQ() { mpq_clear(q); } };
static std::vector<Frac> sweep_ys() { std::vector<Frac> v; static const long long N[] = {0, 1, -1, 2, -3, 6}; static const long long D[] = {1, 2, 3, 6}; for (long long n : N) for (long long d : D) v.push_back(canon(Int(n), Int(d)));
  static const uint64_t L[] = {0x7fffffffffffffffull, 0x8000000000000000ull, 0xffffffffffffffffull}; for (uint64_t a : L) for (uint64_t b : L) { v.push_back(canon(Int::from_u64(a), Int::from_u64(b) + Int(1))); v.push_back(canon(-(ref::pow2(64) + Int::from_u64(a)), Int::from_u64(b))); }
  v.push_back(canon(ref::pow2(64), Int(3))); v.push_back(canon(Int(3), ref::pow2(64))); v.push_back(canon(ref::pow2(128) - Int(1), ref::pow2(64) - Int(1))); v.push_back(canon(Int(-1), ref::pow2(127))); v.push_back(canon(ref::pow2(64) + Int(1), ref::pow2(64) - Int(1))); v.push_back(canon(Int(5), ref::pow2(64) + Int(1))); return v; }
static uint64_t sweep_count() { return 72ull * 35ull * 48ull; }
static void sweep_item(uint64_t i, CaseInfo& ci) {
  static const std::vector<Frac> YS = sweep_ys(); uint64_t in_ = i % 72, id = (i / 72) % 35, iy = i / (72 * 35);
  Int n = palette_int(in_ % 36, 2); if (in_ >= 36) n = -n; Int d = palette_int(1 + id, 2); Frac x = canon(n, d), y = YS[iy % YS.size()];
  ci.d("x=%s/%s y=%s/%s", show(x.n).c_str(), show(x.d).c_str(), show(y.n).c_str(), show(y.d).c_str());
  QQ a, b, r; set_q(a.q, x); set_q(b.q, y);
  mpq_add(r.q, a.q, b.q); require_canonical_eq("mpq_add", r.q, canon(x.n * y.d + y.n * x.d, x.d * y.d)); mpq_sub(r.q, a.q, b.q); require_canonical_eq("mpq_sub", r.q, canon(x.n * y.d - y.n * x.d, x.d * y.d));
  mpq_mul(r.q, a.q, b.q); require_canonical_eq("mpq_mul", r.q, canon(x.n * y.n, x.d * y.d)); if (!y.n.is_zero()) { mpq_div(r.q, a.q, b.q); require_canonical_eq("mpq_div", r.q, canon(x.n * y.d, x.d * y.n)); }
  { mpq_set(r.q, a.q); mpq_add(r.q, r.q, b.q); require_canonical_eq("mpq_add in place (rop = op1)", r.q, canon(x.n * y.d + y.n * x.d, x.d * y.d)); mpq_set(r.q, b.q); mpq_sub(r.q, a.q, r.q); require_canonical_eq("mpq_sub in place (rop = op2)", r.q, canon(x.n * y.d - y.n * x.d, x.d * y.d));
    mpq_set(r.q, b.q); mpq_mul(r.q, a.q, r.q); require_canonical_eq("mpq_mul in place (rop = op2)", r.q, canon(x.n * y.n, x.d * y.d)); }
  int c = ref::cmp(x.n * y.d, y.n * x.d); REQUIRE(((mpq_cmp(a.q, b.q) > 0) - (mpq_cmp(a.q, b.q) < 0)) == ((c > 0) - (c < 0)), "mpq_cmp"); REQUIRE((mpq_equal(a.q, b.q) != 0) == (c == 0), "mpq_equal");
  if (iy == 0) { mpq_neg(r.q, a.q); require_canonical_eq("mpq_neg", r.q, Frac{-x.n, x.d}); mpq_abs(r.q, a.q); require_canonical_eq("mpq_abs", r.q, Frac{x.n.abs(), x.d}); if (!x.n.is_zero()) { mpq_inv(r.q, a.q); require_canonical_eq("mpq_inv", r.q, canon(x.d, x.n)); mpq_set(r.q, a.q); mpq_inv(r.q, r.q); require_canonical_eq("mpq_inv in place", r.q, canon(x.d, x.n)); }
    static const unsigned SH[] = {0, 1, 63, 64, 65, 128}; for (unsigned sh : SH) { mpq_mul_2exp(r.q, a.q, sh); require_canonical_eq("mpq_mul_2exp", r.q, canon(ref::shl(x.n, sh), x.d)); mpq_div_2exp(r.q, a.q, sh); require_canonical_eq("mpq_div_2exp", r.q, canon(x.n, ref::shl(x.d, sh))); mpq_set(r.q, a.q); mpq_div_2exp(r.q, r.q, sh); require_canonical_eq("mpq_div_2exp in place", r.q, canon(x.n, ref::shl(x.d, sh))); } }
}
namespace eng {
PropDef g_prop = {"C12",
  "Cases: mpq_add/sub/mul/div on canonical operands with planted common factors between the denominators and between the cross terms (each gcd trivial / small / multi-limb), integers, zero, +-1, powers of two, y=x, y=-x, y=1/x, every alias pattern incl. all three the same object; mpq_inv/neg/abs/mul_2exp/div_2exp/set/swap out of place and in place (shift counts 0,1,63,64,65,128,.., beyond the operand); mpq_canonicalize on arbitrary num/den (den<0, common factors, zero numerator); mpq_set_d (finite doubles incl. subnormals), mpq_set_f (hand-built mpf incl. low zero limbs), mpq_set_z, mpq_set_si/ui (+canonicalize), mpq_set_num/den, mpq_get_num/den. Oracle: refint fraction arithmetic reduced with refint gcd; the result must equal it as a PAIR (den>0, coprime, 0=0/1) and be limb-wise well formed. Non-trivial: both operands non-integers / an operand >= 2 limbs. Distinct = hash of all decoded choices.",
  check, nullptr, {"gcd(den1,den2)>1", "gcd(num1,den2)>1", "gcd(num2,den1)>1", "result_zero", "result_integer", "inplace", "2exp:shift>=64_with_zero_low_limb", "canonicalize:den_negative", "set_d:subnormal_or_zero", "set_f:low_zero_limbs"}, nullptr, sweep_count, sweep_item,
  "x = n/d for every signed two-limb numerator and positive two-limb denominator with limbs from {0,1,2^63-1,2^63,2^64-2,2^64-1} (2520 fractions, canonicalised) against 48 small and limb-boundary rationals: mpq_add/sub/mul/div (also in place on either operand), mpq_cmp, mpq_equal; per x: neg, abs, inv (also in place), mul_2exp/div_2exp by 0,1,63,64,65,128"};
}
