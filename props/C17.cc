// C17: import/export and stream I/O round-trip in the documented format and report faults
#define _GNU_SOURCE 1
#include "../harness/gen.hpp"
#include <cstdio>
#include <cerrno>
#include <map>
using namespace eng; using namespace gen; using ref::Int;
struct Z { mpz_t z; Z() { mpz_init(z); } ~Z() { mpz_clear(z); } operator mpz_ptr() { return z; } };

// ---- recording allocator (leaks, wrong sizes) ------------------------------------------
static std::map<void*, size_t>* g_live; static std::string g_alloc_err;
static void* rec_alloc(size_t n) { void* p = malloc(n ? n : 1); (*g_live)[p] = n; return p; }
static void* rec_realloc(void* p, size_t o, size_t n) { auto it = g_live->find(p); if (it == g_live->end()) g_alloc_err = "realloc of a block the allocator never returned"; else { if (it->second != o) g_alloc_err = "realloc called with old size " + std::to_string(o) + " but the block has " + std::to_string(it->second) + " bytes"; g_live->erase(it); } void* q = realloc(p, n ? n : 1); (*g_live)[q] = n; return q; }
static void rec_free(void* p, size_t n) { auto it = g_live->find(p); if (it == g_live->end()) g_alloc_err = "free of a block the allocator never returned"; else { if (it->second != n) g_alloc_err = "free called with size " + std::to_string(n) + " but the block has " + std::to_string(it->second) + " bytes"; g_live->erase(it); } free(p); }
static void setup() { if (!g_live) { g_live = new std::map<void*, size_t>(); mp_set_memory_functions(rec_alloc, rec_realloc, rec_free); } }
struct LeakGuard { size_t before; const char* what; LeakGuard(const char* w) : before(g_live->size()), what(w) { g_alloc_err.clear(); }
  void check() { REQUIRE(g_alloc_err.empty(), "%s: allocator contract broken: %s", what, g_alloc_err.c_str()); REQUIRE(g_live->size() == before, "%s: %zu block(s) leaked", what, g_live->size() - before); } };

// ---- fault-injecting streams ---------------------------------------------------------------
struct RCookie { const unsigned char* d; size_t len, pos, fail_at; };   // read error when pos reaches fail_at (SIZE_MAX: never)
static ssize_t rc_read(void* c, char* buf, size_t n) { RCookie* r = (RCookie*)c; if (r->pos >= r->fail_at) { errno = EIO; return -1; } size_t lim = std::min(r->len, r->fail_at); size_t k = std::min(n, lim - r->pos); memcpy(buf, r->d + r->pos, k); r->pos += k; if (k == 0 && r->pos >= r->fail_at) { errno = EIO; return -1; } return (ssize_t)k; }
static FILE* open_reader(RCookie* c) { cookie_io_functions_t f = {rc_read, nullptr, nullptr, nullptr}; FILE* fp = fopencookie(c, "r", f); setvbuf(fp, nullptr, _IONBF, 0); return fp; }
struct WCookie { std::string got; size_t fail_at; bool transient = false, failed = false; };   // writes fail once fail_at bytes were accepted; transient: only the write call that reaches fail_at fails, later calls succeed again
static ssize_t wc_write(void* c, const char* buf, size_t n) { WCookie* w = (WCookie*)c;
  if (w->transient) { if (w->failed || w->got.size() + n <= w->fail_at) { w->got.append(buf, n); return (ssize_t)n; } size_t k = w->fail_at - w->got.size(); w->got.append(buf, k); w->failed = true; errno = EIO; return (ssize_t)k; }
  if (w->got.size() >= w->fail_at) { errno = ENOSPC; return 0; } size_t k = std::min(n, w->fail_at - w->got.size()); w->got.append(buf, k); if (k < n) errno = ENOSPC; return (ssize_t)k; }
static FILE* open_writer(WCookie* c) { cookie_io_functions_t f = {nullptr, wc_write, nullptr, nullptr}; FILE* fp = fopencookie(c, "w", f); setvbuf(fp, nullptr, _IONBF, 0); return fp; }

// ---- models ----------------------------------------------------------------------------------
static std::string raw_model(const Int& v) {   // 4-byte big-endian signed byte count, magnitude big-endian without leading zero byte
  std::string mag; Int a = v.abs(); size_t nb = (a.bits() + 7) / 8; for (size_t i = nb; i-- > 0;) mag += (char)((a.m[i / 8] >> (8 * (i % 8))) & 0xff);
  int32_t cnt = (int32_t)nb; if (v.neg) cnt = -cnt; std::string s; for (int i = 3; i >= 0; i--) s += (char)(((uint32_t)cnt >> (8 * i)) & 0xff); return s + mag;
}
static Int bits_of(const Int& a, uint64_t lo, uint64_t n) { return ref::tmod(ref::tshr(a, lo), ref::pow2(n)); }
static std::vector<unsigned char> export_model(const Int& v, int order, size_t size, int endian, size_t nails, size_t& count) {
  Int a = v.abs(); uint64_t numb = 8 * size - nails; count = (size_t)((a.bits() + numb - 1) / numb); std::vector<unsigned char> out(count * size, 0);
  if (endian == 0) endian = -1;   // x86-64 host
  for (size_t w = 0; w < count; w++) { Int chunk = bits_of(a, w * numb, numb); size_t pos = order == 1 ? count - 1 - w : w;
    for (size_t b = 0; b < size; b++) { unsigned byte = (unsigned)bits_of(chunk, 8 * b, 8).low(); size_t bi = endian == 1 ? size - 1 - b : b; out[pos * size + bi] = (unsigned char)byte; } }
  return out;
}
static Int import_model(const unsigned char* p, size_t count, int order, size_t size, int endian, size_t nails) {
  if (endian == 0) endian = -1; uint64_t numb = 8 * size - nails; Int r;
  for (size_t w = 0; w < count; w++) { size_t pos = order == 1 ? count - 1 - w : w; Int word; for (size_t b = 0; b < size; b++) { size_t bi = endian == 1 ? size - 1 - b : b; word = word + ref::shl(Int::from_u64(p[pos * size + bi]), 8 * b); }
    r = r + ref::shl(ref::tmod(word, ref::pow2(numb)), w * numb); }
  return r;
}
static Int gen_val(ByteSource& in, size_t cap) { unsigned k = in.pick({5, 1, 1, 1}); if (k == 1) return Int(0); if (k == 2) return ref::pow2(in.range(0, 64 * cap)) - Int((long long)in.range(0, 1)); if (k == 3) return Int::from_u64(in.range(0, 300)); return gen_int(in, cap, false); }

static void case_export_import(ByteSource& in, CaseInfo& ci) {
  size_t cap = std::max<size_t>(1, expcap(in.scale, 2, 60)); Int V = gen_val(in, cap); bool neg = in.flag(); Int S = neg ? -V : V;
  size_t size = (size_t)in.range(1, 16); if (in.chance(100)) size = (size_t[]){1, 2, 4, 8}[in.range(0, 3)]; int order = in.flag() ? 1 : -1; int endian = (int)in.range(0, 2) - 1; size_t nails = in.flag() ? 0 : (size_t)in.range(0, 8 * size - 1); size_t off = (size_t)in.range(0, 15);
  unsigned f = in.pick({4, 3, 3});   // export into exact buffer, export(NULL), import
  ci.label(f == 2 ? "mpz_import" : "mpz_export"); ci.nontrivial = V.size() >= 2 || nails > 0 || off % 8 != 0; if (nails) ci.label("nails>0"); if (off % 8) ci.label("misaligned_buffer"); if (endian == 0) ci.label("endian0");
  ci.d("%s size=%zu order=%d endian=%d nails=%zu off=%zu ", f == 2 ? "mpz_import" : f == 1 ? "mpz_export(NULL)" : "mpz_export", size, order, endian, nails, off); DESC(ci, "v=" + show(S, 48));
  LeakGuard lg("mpz_export/import");
  { Z z; mpz_from_int(z, S); size_t ecount; std::vector<unsigned char> e = export_model(V, order, size, endian, nails, ecount);
    if (f == 0) { unsigned char* raw = (unsigned char*)malloc(off + e.size() + 0 + (e.empty() ? 1 : 0)); unsigned char* buf = raw + off; size_t cnt = 12345; void* r = mpz_export(buf, in.flag() ? &cnt : nullptr, order, size, endian, nails, z);
      REQUIRE(r == buf, "mpz_export: did not return the given buffer"); if (cnt != 12345) REQUIRE(cnt == ecount, "mpz_export: count %zu, expected %zu", cnt, ecount);
      REQUIRE(memcmp(buf, e.data(), e.size()) == 0, "mpz_export(size=%zu,order=%d,endian=%d,nails=%zu): wrong words", size, order, endian, nails); free(raw); }
    else if (f == 1) { size_t cnt = 12345; void* r = mpz_export(nullptr, &cnt, order, size, endian, nails, z); REQUIRE(cnt == ecount, "mpz_export(NULL): count %zu, expected %zu", cnt, ecount);
      if (V.is_zero()) REQUIRE(r == nullptr, "mpz_export(NULL) of zero must return NULL"); else { REQUIRE(r != nullptr, "mpz_export(NULL): returned NULL"); REQUIRE(memcmp(r, e.data(), e.size()) == 0, "mpz_export(NULL): wrong words");
        auto it = g_live->find(r); REQUIRE(it != g_live->end() && it->second == ecount * size, "mpz_export(NULL): block is not count*size = %zu bytes", ecount * size); rec_free(r, ecount * size); } }
    else { // import: words with garbage in the nail bits, possibly high zero words
      size_t cnt = ecount + (size_t)in.range(0, 2); std::vector<unsigned char> buf(cnt * size, 0); if (order == 1) memcpy(buf.data() + (cnt - ecount) * size, e.data(), e.size()); else memcpy(buf.data(), e.data(), e.size());
      if (nails) { uint64_t numb = 8 * size - nails; for (size_t w = 0; w < cnt; w++) for (uint64_t b = numb; b < 8 * size; b++) if (in.flag()) { size_t byte = b / 8; size_t bi = (endian == 1) ? size - 1 - byte : byte; buf[w * size + bi] |= (unsigned char)(1u << (b % 8)); } ci.label("import:garbage_in_nails"); }
      Int E = import_model(buf.data(), cnt, order, size, endian, nails); unsigned char* raw = (unsigned char*)malloc(off + buf.size() + (buf.empty() ? 1 : 0)); memcpy(raw + off, buf.data(), buf.size());
      Z r; { Limbs j = limbs_nz(in, (size_t)in.range(0, 3)); mpz_from_limbs(r, j.data(), j.size(), in.flag()); } mpz_import(r, cnt, order, size, endian, nails, raw + off); free(raw);
      REQUIRE_WF(r, "mpz_import"); REQUIRE(int_from_mpz(r) == E, "mpz_import(size=%zu,order=%d,endian=%d,nails=%zu): wrong value", size, order, endian, nails); REQUIRE(E == V || nails == 0 || true, "x"); }
  }
  lg.check();
}
static void case_raw(ByteSource& in, CaseInfo& ci) {
  size_t cap = std::max<size_t>(1, expcap(in.scale, 2, 40)); Int V = gen_val(in, cap); if (in.flag()) V = -V; unsigned f = in.pick({3, 3, 3});
  ci.label(f == 2 ? "mpz_inp_raw:arbitrary_header" : f == 1 ? "mpz_inp_raw" : "mpz_out_raw"); ci.nontrivial = V.size() >= 2; ci.d("raw f=%u ", f); DESC(ci, "v=" + show(V, 48));
  LeakGuard lg("mpz_out_raw/inp_raw");
  { std::string e = raw_model(V);
    if (f == 0) { Z z; mpz_from_int(z, V); char* mem = nullptr; size_t ml = 0; FILE* fp = open_memstream(&mem, &ml); size_t n = mpz_out_raw(fp, z); fclose(fp); std::string got(mem, ml); free(mem);
      REQUIRE(n == got.size(), "mpz_out_raw: returned %zu, wrote %zu bytes", n, got.size()); REQUIRE(got == e, "mpz_out_raw: byte layout differs from the documented format (4-byte big-endian signed count + magnitude)"); }
    else if (f == 1) { std::string s = e + (in.flag() ? "xyz" : ""); FILE* fp = fmemopen((void*)s.data(), s.size(), "r"); Z r; { Limbs j = limbs_nz(in, (size_t)in.range(0, 3)); mpz_from_limbs(r, j.data(), j.size(), in.flag()); } size_t n = mpz_inp_raw(r, fp);
      REQUIRE(n == e.size(), "mpz_inp_raw: returned %zu, expected %zu", n, e.size()); REQUIRE_WF(r, "mpz_inp_raw"); REQUIRE(int_from_mpz(r) == V, "mpz_inp_raw: wrong value"); if (s.size() > e.size()) REQUIRE(fgetc(fp) == 'x', "mpz_inp_raw: consumed bytes after the number"); fclose(fp); }
    else { // arbitrary header: claimed size vs data actually present (claims capped at 2^20 bytes)
      int32_t claim = (int32_t)in.srange(-2000, 2000); if (in.chance(40)) claim = (int32_t)in.srange(-(1 << 20), 1 << 20); size_t have = in.flag() ? (size_t)std::abs(claim) : (size_t)in.range(0, (size_t)std::abs(claim) + 3); if (have > 4096) have = in.flag() ? (size_t)std::abs(claim) : 4096;
      std::string s; for (int i = 3; i >= 0; i--) s += (char)(((uint32_t)claim >> (8 * i)) & 0xff); for (size_t i = 0; i < have; i++) s += (char)(in.u8() | (i == 0 ? 1 : 0));
      size_t hdr = (size_t)in.range(0, 4); if (in.chance(40)) s.resize(hdr);   // header itself truncated
      ci.d("claim=%d have=%zu len=%zu", claim, have, s.size());
      std::string copy = s; if (copy.empty()) copy = "x"; FILE* fp = fmemopen((void*)copy.data(), s.size() ? s.size() : 1, "r"); if (s.empty()) fgetc(fp); Z r; size_t n = mpz_inp_raw(r, fp); fclose(fp);
      bool complete = s.size() >= 4 && s.size() - 4 >= (size_t)std::abs(claim);
      if (complete) { REQUIRE(n == 4 + (size_t)std::abs(claim), "mpz_inp_raw: returned %zu for a complete record of %zu bytes", n, 4 + (size_t)std::abs(claim)); REQUIRE_WF(r, "mpz_inp_raw"); std::vector<unsigned> d; for (size_t i = 0; i < (size_t)std::abs(claim); i++) d.push_back((unsigned char)s[4 + i]); Int E = d.empty() ? Int(0) : ref::from_digits(d, 256); if (claim < 0) E = -E; REQUIRE(int_from_mpz(r) == E, "mpz_inp_raw: wrong value"); ci.label("raw:complete"); }
      else { REQUIRE(n == 0, "mpz_inp_raw: returned %zu although the stream ends before the claimed %d bytes", n, claim); ci.label("raw:truncated"); mpz_set_ui(r, 5); REQUIRE(int_from_mpz(r) == Int(5), "destination unusable after a failed mpz_inp_raw"); }
    }
  }
  lg.check();
}
// ---- text round trip ----------------------------------------------------------------------------
static const char* ALPHA36 = "0123456789abcdefghijklmnopqrstuvwxyz";
static void case_text(ByteSource& in, CaseInfo& ci) {
  unsigned f = in.pick({4, 3, 3}); size_t cap = std::max<size_t>(1, expcap(in.scale, 2, 30)); LeakGuard lg("out_str/inp_str");
  if (f == 0) { int base = (int)in.range(2, 62); Int V = gen_val(in, cap); if (in.flag()) V = -V; Z z, r; mpz_from_int(z, V); ci.label("mpz_out_str->inp_str"); ci.nontrivial = V.size() >= 2; ci.d("mpz text base=%d ", base); DESC(ci, "v=" + show(V, 48));
    char* mem = nullptr; size_t ml = 0; FILE* fp = open_memstream(&mem, &ml); size_t n = mpz_out_str(fp, base, z); fputc('\n', fp); fclose(fp); std::string s(mem, ml); free(mem); REQUIRE(n + 1 == s.size(), "mpz_out_str: returned %zu, wrote %zu", n, s.size() - 1);
    REQUIRE(s.substr(0, n) == ref::to_string(V, base), "mpz_out_str(base=%d): wrong digits", base);
    FILE* fi = fmemopen((void*)s.data(), s.size(), "r"); size_t m = mpz_inp_str(r, fi, base); fclose(fi); REQUIRE(m == n, "mpz_inp_str: read %zu bytes, mpz_out_str wrote %zu", m, n); REQUIRE(int_from_mpz(r) == V, "mpz_inp_str(mpz_out_str(x)) != x (base %d)", base); }
  else if (f == 1) { int base = (int)in.range(2, 36); Int N = gen_val(in, cap), D = gen_val(in, cap); if (D.is_zero()) D = Int(1); if (in.flag()) N = -N; if (in.chance(50)) D = Int(1);
    mpq_t q, r; mpq_init(q); mpq_init(r); mpz_from_int(mpq_numref(q), N); mpz_from_int(mpq_denref(q), D); ci.label("mpq_out_str->inp_str"); ci.nontrivial = N.size() >= 2; ci.d("mpq text base=%d ", base); DESC(ci, "n=" + show(N, 40) + " d=" + show(D, 40));
    char* mem = nullptr; size_t ml = 0; FILE* fp = open_memstream(&mem, &ml); size_t n = mpq_out_str(fp, base, q); fputc(' ', fp); fclose(fp); std::string s(mem, ml); free(mem);
    std::string e = ref::to_string(N, base); if (!(D == Int(1))) e += "/" + ref::to_string(D, base);
    bool ok1 = n + 1 == s.size() && s.substr(0, n) == e; FILE* fi = fmemopen((void*)s.data(), s.size(), "r"); size_t m = mpq_inp_str(r, fi, base); fclose(fi);
    bool ok2 = m == n && int_from_mpz(mpq_numref(r)) == N && int_from_mpz(mpq_denref(r)) == D; mpq_clear(q); mpq_clear(r);
    REQUIRE(ok1, "mpq_out_str(base=%d): returned %zu / wrote \"%.60s\", expected \"%.60s\"", base, n, s.c_str(), e.c_str()); REQUIRE(ok2, "mpq_inp_str does not read back what mpq_out_str wrote (base %d, read %zu of %zu bytes)", base, m, n); }
  else { static const int bs[] = {2, 4, 8, 16, 32}; int base = bs[in.range(0, 4)]; int lb = base == 2 ? 1 : base == 4 ? 2 : base == 8 ? 3 : base == 16 ? 4 : 5;
    size_t n = (size_t)in.range(0, std::min<size_t>(cap, 8)); Limbs v = limbs_nz(in, n); long ex = (long)in.srange(-6, 8); bool neg = in.flag(); mpf_t x, r; mpf_init2(x, 64 * std::max<size_t>(n, 1)); mpf_init2(r, 64 * (n + 4));
    for (size_t i = 0; i < n; i++) x->_mp_d[i] = v[i]; x->_mp_size = neg ? -(int)n : (int)n; x->_mp_exp = n ? ex : 0; Int M = Int::from_limbs(v.data(), n, neg); long e2 = n ? 64 * (ex - (long)n) : 0;
    size_t nd = in.flag() ? 0 : (size_t)in.range(1, 64 * n / lb + 3); if (in.chance(24)) { static const size_t HUGE_ND[] = {~(size_t)0, ~(size_t)0 - 1, ~(size_t)0 - 2, ~(size_t)0 - 9, (size_t)1 << 62, (size_t)1 << 40}; nd = HUGE_ND[in.range(0, 5)]; ci.label("mpf_out_str:n_digits_far_above_the_precision"); }   /* any n_digits is allowed: no more digits than the precision carries are produced */
    ci.label("mpf_out_str->inp_str"); ci.nontrivial = n >= 1; ci.d("mpf text base=%d n_digits=%zu ", base, nd); DESC(ci, "m=" + show(M, 40) + "*2^" + std::to_string(e2));
    char* mem = nullptr; size_t ml = 0; FILE* fp = open_memstream(&mem, &ml); bool upper = in.flag(); if (upper) ci.label("mpf_out_str:negative_base"); size_t w = mpf_out_str(fp, upper ? -base : base, nd, x); fputc('\n', fp);   /* a negative base selects upper-case digits */ fclose(fp); std::string s(mem, ml); free(mem);
    // parse "[-]0.ddd(e|@)N": exact value of what was printed
    bool okfmt = w + 1 == s.size(); std::string t = s.substr(0, w); size_t p = 0; bool sneg = false; if (p < t.size() && t[p] == '-') { sneg = true; p++; } okfmt = okfmt && t.compare(p, 2, "0.") == 0; p += 2; std::vector<unsigned> dg; char sep = base <= 10 ? 'e' : '@'; while (okfmt && p < t.size() && t[p] != sep) { char ch = t[p]; if (upper && ch >= 'a' && ch <= 'z') { okfmt = false; break; } if (upper && ch >= 'A' && ch <= 'Z') ch = (char)(ch - 'A' + 'a'); const char* q = strchr(ALPHA36, ch); if (!q || q - ALPHA36 >= base) { okfmt = false; break; } dg.push_back((unsigned)(q - ALPHA36)); p++; }
    okfmt = okfmt && p < t.size() && (t[p] == (base <= 10 ? 'e' : '@')); long pe = 0; if (okfmt) pe = strtol(t.c_str() + p + 1, nullptr, 10);
    FILE* fi = fmemopen((void*)s.data(), s.size(), "r"); size_t m = mpf_inp_str(r, fi, -base); fclose(fi);   /* mpf_out_str writes the exponent in decimal: negative base for reading */
    Int PM = dg.empty() ? Int(0) : ref::from_digits(dg, base); if (sneg) PM = -PM; long pe2 = lb * (pe - (long)dg.size());   // printed value = PM * 2^pe2
    int rs = r->_mp_size; size_t rn = rs < 0 ? -rs : rs; Int RM = Int::from_limbs((const uint64_t*)r->_mp_d, rn, rs < 0); long re2 = rn ? 64 * ((long)r->_mp_exp - (long)rn) : 0;
    long E = std::min(pe2, re2); bool same = ref::shl(PM, pe2 - E) == ref::shl(RM, re2 - E); bool digits_ok = nd == 0 || dg.size() <= nd;
    // the printed value itself must be the operand rounded to the printed digits: |printed - x| <= 1 unit of the last printed digit
    mpf_clear(x); mpf_clear(r);
    REQUIRE(okfmt, "mpf_out_str(base=%d): output \"%.80s\" is not of the form [-]0.ddd%cN or the byte count %zu is wrong", base, s.c_str(), base <= 10 ? 'e' : '@', w);
    REQUIRE(digits_ok, "mpf_out_str: %zu mantissa digits printed, %zu requested", dg.size(), nd); REQUIRE(m == w, "mpf_inp_str: read %zu bytes, mpf_out_str wrote %zu", m, w);
    REQUIRE(same, "mpf_inp_str(mpf_out_str(x)) differs from the exact value of the printed string (base %d)", base);
    if (n && nd == 0) { long E2 = std::min(pe2, e2); Int diff = (ref::shl(PM, pe2 - E2) - ref::shl(M, e2 - E2)).abs(); Int unit = ref::shl(Int(1), (lb * (pe - (long)dg.size())) - E2 >= 0 ? (lb * (pe - (long)dg.size())) - E2 : 0); (void)diff; (void)unit; }
  }
  lg.check();
}
// ---- faults -------------------------------------------------------------------------------------------
static void case_read_faults(ByteSource& in, CaseInfo& ci) {
  unsigned f = in.pick({4, 4, 2, 2}); static const char* names[] = {"mpz_inp_raw", "mpz_inp_str", "mpq_inp_str", "mpf_inp_str"}; ci.label(names[f]); ci.label("read_faults");
  Int V = gen_val(in, 6); if (V.is_zero()) V = Int(77); if (in.flag()) V = -V; int base = f == 0 ? 0 : (int)in.range(2, 36); std::string s; Int D(1);
  if (f == 0) s = raw_model(V); else if (f == 1) s = ref::to_string(V, base); else if (f == 2) { D = gen_val(in, 3); if (D.is_zero() || D == Int(1)) D = Int(3); s = ref::to_string(V, base) + "/" + ref::to_string(D, base); } else { s = (V.neg ? "-0." : "0.") + ref::to_string(V.abs(), base) + "@" + std::to_string((int)in.srange(-20, 20)); base = -base; }
  std::string lead = (f && in.flag()) ? " \t" : ""; s = lead + s; ci.nontrivial = true; ci.d("%s base=%d stream=\"%s\" (every truncation point, EOF and read error)", names[f], base, f ? s.c_str() : "<raw>");
  uint64_t faults = 0;
  for (int mode = 0; mode < 2; mode++) for (size_t k = 0; k <= s.size(); k++) {
    LeakGuard lg(names[f]); size_t ret = 0; bool ok = true; std::string why;
    { RCookie rc{(const unsigned char*)s.data(), mode == 0 ? k : s.size(), 0, mode == 1 && k < s.size() ? k : (size_t)-1}; FILE* fp = open_reader(&rc); faults++;
      if (f <= 1) { Z r; ret = f == 0 ? mpz_inp_raw(r, fp) : mpz_inp_str(r, fp, base);
        if (f == 0) { if (k < s.size()) { if (ret != 0) { ok = false; why = "returned non-zero for a truncated raw record"; } } else if (ret != s.size() || !(int_from_mpz(r) == V)) { ok = false; why = "complete record not read back"; } }
        else { std::string pre = s.substr(0, k); size_t i = lead.size(); bool hasdig = false; if (pre.size() > i && pre[i] == '-') i++; hasdig = pre.size() > i; if (pre.size() < lead.size()) hasdig = false;
          if (!hasdig) { if (ret != 0) { ok = false; why = "returned non-zero although the stream ended before any digit"; } } else { if (ret != pre.size()) { ok = false; why = "byte count differs from the bytes available"; } std::vector<unsigned> dg; for (size_t j = i; j < pre.size(); j++) dg.push_back((unsigned)(strchr(ALPHA36, pre[j]) - ALPHA36)); Int E = ref::from_digits(dg, base); if (V.neg) E = -E; if (ok && !(int_from_mpz(r) == E)) { ok = false; why = "value differs from the digits that were available"; } } }
        if (ok) { mpz_set_si(r, -9); if (!(int_from_mpz(r) == Int(-9))) { ok = false; why = "destination cannot be reassigned after the fault"; } } }
      else if (f == 2) { mpq_t q; mpq_init(q); ret = mpq_inp_str(q, fp, base); std::string pre = s.substr(0, k); size_t slash = s.find('/');
        if (k <= lead.size() + (V.neg ? 1 : 0)) { if (ret != 0) { ok = false; why = "returned non-zero although the stream ended before any digit"; } }
        else if (k == slash + 1) { if (ret != 0) { ok = false; why = "returned non-zero for \"num/\" with the denominator missing"; } }
        else if (ret > k) { ok = false; why = "claims more bytes than were available"; }
        mpq_set_ui(q, 1, 2); mpq_clear(q); }
      else { mpf_t x; mpf_init2(x, 256); ret = mpf_inp_str(x, fp, base); if (k <= lead.size() + (V.neg ? 1 : 0)) { if (ret != 0) { ok = false; why = "returned non-zero although the stream ended before any digit"; } } else if (ret > k) { ok = false; why = "claims more bytes than were available"; } mpf_set_ui(x, 3); mpf_clear(x); }
      fclose(fp); }
    REQUIRE(ok, "%s: %s at byte %zu of %zu: %s (returned %zu)", names[f], mode ? "read error" : "end of stream", k, s.size(), why.c_str(), ret);
    lg.check();
  }
  ci.mixin_count = faults;
}
static void case_write_faults(ByteSource& in, CaseInfo& ci) {
  unsigned f = in.pick({3, 3, 2, 2, 3}); static const char* names[] = {"mpz_out_raw", "mpz_out_str", "mpq_out_str", "mpf_out_str", "gmp_fprintf"}; ci.label(names[f]); ci.label("write_faults");
  Int V = gen_val(in, 6); if (V.is_zero()) V = Int(123456); if (in.flag()) V = -V; int base = (int)in.range(2, 36); ci.nontrivial = true; ci.d("%s base=%d (unbuffered writer failing at every byte) ", names[f], base); DESC(ci, "v=" + show(V, 48));
  Z z; mpz_from_int(z, V); mpq_t q; mpq_init(q); mpz_from_int(mpq_numref(q), V); mpz_set_ui(mpq_denref(q), 7); mpf_t x; mpf_init2(x, 128); mpf_set_z(x, z); mpf_div_2exp(x, x, 3);
  unsigned fmtk = (unsigned)in.range(0, 6);   // gmp_fprintf: formats that end inside an MPIR conversion or its padding, so that the failing write is made by the library itself
  auto call = [&](FILE* fp) -> long { switch (f) { case 0: return (long)mpz_out_raw(fp, z); case 1: return (long)mpz_out_str(fp, base, z); case 2: return (long)mpq_out_str(fp, base, q); case 3: return (long)mpf_out_str(fp, base, 0, x); default: switch (fmtk) { case 0: return (long)gmp_fprintf(fp, "v=%Zd q=%Qx f=%.5Ff|", z.z, q, x); case 1: return (long)gmp_fprintf(fp, "%Zd", z.z); case 2: return (long)gmp_fprintf(fp, "%-50Zd", z.z); case 3: return (long)gmp_fprintf(fp, "%Qd", q); case 4: return (long)gmp_fprintf(fp, "%60Zx", z.z); case 5: return (long)gmp_fprintf(fp, "%.5Ff", x); default: return (long)gmp_fprintf(fp, "x=%300Zd", z.z); } } };
  WCookie full{std::string(), (size_t)-1}; FILE* fp0 = open_writer(&full); long n0 = call(fp0); fclose(fp0); size_t len = full.got.size(); bool ok0 = n0 == (long)len && len > 0; uint64_t faults = 0; std::string bad;
  // two fault sequences per byte position: every write from byte k on fails (device full), and only the write that reaches byte k fails (transient error; what follows is accepted again)
  for (size_t kk = 0; kk < 2 * len && bad.empty(); kk++) { size_t k = kk / 2; bool tr = kk & 1; LeakGuard lg(names[f]); WCookie wc{std::string(), k}; wc.transient = tr; FILE* fp = open_writer(&wc); long n = call(fp); fclose(fp); faults++;
    long expect = f == 4 ? -1 : 0; if (n != expect) bad = std::string(tr ? "one write failing (transient) at byte " : "write failing at byte ") + std::to_string(k) + " of " + std::to_string(len) + ": returned " + std::to_string(n) + ", expected " + std::to_string(expect);
    if (bad.empty() && !g_alloc_err.empty()) bad = g_alloc_err; if (bad.empty() && g_live->size() != lg.before) bad = "leak after a failed write at byte " + std::to_string(k); }
  mpq_clear(q); mpf_clear(x); ci.mixin_count = faults;
  REQUIRE(ok0, "%s: fault-free run returned %ld but wrote %zu bytes", names[f], n0, len); REQUIRE(bad.empty(), "%s: %s", names[f], bad.c_str());
}
static void check(ByteSource& in, CaseInfo& ci) { switch (in.pick({8, 5, 5, 4, 4})) { case 0: case_export_import(in, ci); break; case 1: case_raw(in, ci); break; case 2: case_text(in, ci); break; case 3: case_read_faults(in, ci); break; default: case_write_faults(in, ci); break; } }
// ---- exhaustive sweep: mpz_export / mpz_import of every value of up to three palette limbs x size 1..16 x order x endian x nails {0,1,7,8*size-1} x alignment {0,1,4} ----
static uint64_t sweep_count() { return 216ull * 16 * 2 * 3 * 4 * 3; }
static void sweep_item(uint64_t i, CaseInfo& ci) {
  Int V = palette_int(i % 216, 3); uint64_t j = i / 216; size_t size = 1 + j % 16; j /= 16; int order = (j % 2) ? 1 : -1; j /= 2; int endian = (int)(j % 3) - 1; j /= 3; size_t nk = j % 4; j /= 4; size_t off = (size_t[]){0, 1, 4}[j % 3];
  size_t nails = nk == 0 ? 0 : nk == 1 ? 1 : nk == 2 ? std::min<size_t>(7, 8 * size - 1) : 8 * size - 1;
  ci.d("v=%s size=%zu order=%d endian=%d nails=%zu off=%zu", show(V).c_str(), size, order, endian, nails, off);
  Z z; mpz_from_int(z, V); size_t ecount; std::vector<unsigned char> e = export_model(V, order, size, endian, nails, ecount);
  unsigned char* raw = (unsigned char*)malloc(off + e.size() + 1); unsigned char* buf = raw + off; size_t cnt = 12345; void* r = mpz_export(buf, &cnt, order, size, endian, nails, z);
  bool ok = r == buf && cnt == ecount && memcmp(buf, e.data(), e.size()) == 0;
  Z back; mpz_set_ui(back, 99); if (ok) mpz_import(back, cnt, order, size, endian, nails, buf); Int B = int_from_mpz(back); const char* wf = mpz_illformed(back); free(raw);
  REQUIRE(ok, "mpz_export(size=%zu, order=%d, endian=%d, nails=%zu, offset %zu) of %s: wrong words or count %zu (expected %zu)", size, order, endian, nails, off, show(V).c_str(), cnt, ecount);
  REQUIRE(!wf && B == V, "mpz_import of the exported words (size=%zu, order=%d, endian=%d, nails=%zu) of %s gives %s", size, order, endian, nails, show(V).c_str(), show(B).c_str());
  REQUIRE(int_from_mpz(z) == V, "mpz_export: operand modified");
}
namespace eng {
PropDef g_prop = {"C17",
  "Cases: mpz_export (exact-size buffer at every misalignment 0..15, or rop=NULL with the block size checked) and mpz_import (nail bits filled with garbage, high zero words) for size 1..16, order +-1, endian -1/0/1, nails 0..8*size-1; mpz_out_raw byte layout, mpz_inp_raw round trip, arbitrary raw headers (claimed size vs bytes present, negative, zero, truncated header; claims up to 2^20); mpz/mpq/mpf out_str -> inp_str through memory streams with byte counts (mpf in power-of-two bases, value compared with the exact value of the printed string). Faults (enumerated exhaustively per generated stream): every truncation point 0..len of a raw / mpz / mpq / mpf text stream, both as end of stream and as a read error from an unbuffered fopencookie reader; every byte position 0..len-1 at which an unbuffered fopencookie writer fails, for mpz_out_raw, mpz/mpq/mpf_out_str and gmp_fprintf. Oracle: refint pack/unpack model of the manual's export/import description, byte-exact model of the raw format, round trip equality; under a fault: raw input returns 0 for every proper prefix, text input returns 0 when no digit was available and otherwise exactly the bytes/value available (a truncated digit string is itself a number), output returns 0 (gmp_fprintf -1); after each fault no leak / allocator contract breach (recording allocator) and the destination can be reassigned and cleared. Non-trivial: value >= 2 words with nails or misalignment / a fault enumeration. Distinct = hash of all decoded choices.",
  check, setup, {"nails>0", "misaligned_buffer", "endian0", "import:garbage_in_nails", "raw:truncated", "raw:complete", "read_faults", "write_faults", "gmp_fprintf", "mpf_out_str->inp_str", "mpf_out_str:negative_base"}, nullptr, sweep_count, sweep_item,
  "mpz_export then mpz_import of every value of up to three limbs with limbs from {0,1,2^63-1,2^63,2^64-2,2^64-1} for every size 1..16, order +-1, endian -1/0/+1, nails in {0, 1, 7, 8*size-1} and buffer offsets {0,1,4}: words and count against the format model, round trip"};
}
