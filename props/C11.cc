// C11: comparisons and conversions to and from C types agree with exact arithmetic
#include "../harness/gen.hpp"
#include <cmath>
#include <climits>
#include <cstdint>
using namespace eng; using namespace gen; using ref::Int;
struct Z { mpz_t z; Z() { mpz_init(z); } ~Z() { mpz_clear(z); } operator mpz_ptr() { return z; } };
struct Q { mpq_t q; Q() { mpq_init(q); } ~Q() { mpq_clear(q); } operator mpq_ptr() { return q; } };

// ---- exact values --------------------------------------------------------------------
struct Dy { Int m; long e; };                         // m * 2^e (dyadic rational)
static Dy dy_of_double(double d) { int ex; double f = std::frexp(d, &ex); Dy r; r.m = Int((long long)std::ldexp(f, 53)); r.e = ex - 53; if (r.m.is_zero()) r.e = 0; return r; }
static int cmp_dy(const Dy& a, const Dy& b) { long e = std::min(a.e, b.e); return ref::cmp(ref::shl(a.m, a.e - e), ref::shl(b.m, b.e - e)); }
static int sgn3(int c) { return (c > 0) - (c < 0); }
// exact truncation toward zero of n/d (d>0) to double; zone: 0 normal, +1 overflow (expect inf), -1 below the normal range
static double trunc_to_double(const Int& n, const Int& d, int& zone) {
  zone = 0; if (n.is_zero()) return 0.0;
  Int a = n.abs(); long E = (long)a.bits() - (long)d.bits();      // 2^(E-1) < a/d < 2^(E+1)
  // find E with 2^(E-1) <= a/d < 2^E
  { Int lhs = E >= 0 ? a : ref::shl(a, -E), rhs = E >= 0 ? ref::shl(d, E) : d; if (ref::cmp(lhs, rhs) >= 0) E++; }
  long k = 53 - E; Int mant = k >= 0 ? ref::tdiv(ref::shl(a, k), d) : ref::tdiv(a, ref::shl(d, -k));   // floor(a/d * 2^k), 53 bits
  if (E > 1024) { zone = 1; return n.neg ? -INFINITY : INFINITY; }
  if (E < -1021) { zone = -1; long sh = -1021 - E; mant = ref::tshr(mant, sh); k -= sh; }   // subnormal grid: fewer bits
  double r = std::ldexp((double)(long long)mant.low(), (int)-k); return n.neg ? -r : r;
}
static double gen_double(ByteSource& in, CaseInfo& ci) {
  uint64_t bits = in.u64(); unsigned k = in.pick({4, 2, 2, 2, 2, 1, 1});
  if (k == 1) { bits &= 0x800fffffffffffffull; ci.label("double:subnormal"); }
  if (k == 2) { static const int ks[] = {15, 16, 31, 32, 52, 53, 54, 63, 64, 65, 1023}; double d = std::ldexp(1.0, ks[in.range(0, 10)]) + (double)in.srange(-2, 2); if (in.flag()) d = -d; memcpy(&bits, &d, 8); ci.label("double:near_2^k"); }
  if (k == 3) { double d = (double)in.srange(-70000, 70000) + (in.flag() ? 0.5 : 0.0); memcpy(&bits, &d, 8); }
  if (k == 4) { bits = (bits & 0x800fffffffffffffull) | ((uint64_t)in.range(1, 2046) << 52); }
  if (k == 5) { bits = in.flag() ? 0x7ff0000000000000ull : 0xfff0000000000000ull; ci.label("double:inf"); }
  if (k == 6) bits &= 0x8000000000000000ull;     // +-0
  if (((bits >> 52) & 0x7ff) == 0x7ff && (bits & 0xfffffffffffffull)) bits &= 0xfff0000000000000ull;   // never NaN
  double d; memcpy(&d, &bits, 8); return d;
}
// integers around every C type boundary
static Int gen_boundary_int(ByteSource& in, size_t cap) {
  unsigned k = in.pick({5, 5, 2});
  if (k == 0) { static const int ks[] = {0, 1, 7, 8, 15, 16, 31, 32, 52, 53, 54, 62, 63, 64, 65, 127, 128, 1023, 1024, 1074}; Int v = ref::pow2(ks[in.range(0, 19)]) + Int((long long)in.srange(-2, 2)); return in.flag() ? -v : v; }
  if (k == 1) return gen_int(in, cap);
  return Int((long long)in.srange(-3, 3));
}
// hand-built mpf (no library arithmetic): value = mant * 2^(64*(exp-size))
struct F { mpf_t f; Dy v; F() { mpf_init2(f, 64); } ~F() { mpf_clear(f); } };
static void gen_mpf(ByteSource& in, F& x, size_t maxlimbs, CaseInfo& ci) {
  size_t n = (size_t)in.range(0, maxlimbs); Limbs v = limbs_nz(in, n); bool neg = in.flag(); long ex;
  unsigned k = in.pick({4, 3, 2});
  if (k == 0) ex = (long)in.srange(-3, 5); else if (k == 1) ex = (long)n + (long)in.srange(-1, 1); else ex = (long)in.srange(-20, 20);
  if (n && in.chance(60)) { // integer-valued around a type boundary, possibly with a fraction limb
    static const int ks[] = {15, 16, 31, 32, 63, 64}; Int t = ref::pow2(ks[in.range(0, 5)]) + Int((long long)in.srange(-1, 1)); bool frac = in.flag();
    Int m = frac ? ref::shl(t, 64) + Int::from_u64(in.u64() | 1) : t; Limbs w = m.m; while (w.size() > 1 && w[0] == 0 && !frac) break; v = w; n = v.size(); ex = (long)n - (frac ? 1 : 0); ci.label("mpf:near_boundary"); }
  mpf_set_prec(x.f, 64 * std::max<size_t>(n, 1));
  for (size_t i = 0; i < n; i++) x.f->_mp_d[i] = v[i]; x.f->_mp_size = neg ? -(int)n : (int)n; x.f->_mp_exp = n ? ex : 0; for (size_t i = n; i < (size_t)x.f->_mp_prec + 1; i++) x.f->_mp_d[i] = 0xdeadbeefdeadbeefull;   // stale limbs above the size are unspecified: poison
  x.v.m = Int::from_limbs(v.data(), n, neg); x.v.e = n ? 64 * (ex - (long)n) : 0;
}
// hand-built mpf holding exactly m * 2^e
static void set_mpf_from_dy(F& x, const Dy& v) {
  if (v.m.is_zero()) { x.f->_mp_size = 0; x.f->_mp_exp = 0; x.v = Dy{Int(0), 0}; return; }
  long s = ((v.e % 64) + 64) % 64; Int M = ref::shl(v.m.abs(), (uint64_t)s); long E = v.e - s; size_t n = M.m.size();
  mpf_set_prec(x.f, 64 * std::max<size_t>(n, 1)); for (size_t i = 0; i < n; i++) x.f->_mp_d[i] = M.m[i]; x.f->_mp_size = v.m.neg ? -(int)n : (int)n; x.f->_mp_exp = E / 64 + (long)n;
  for (size_t i = n; i < (size_t)x.f->_mp_prec + 1; i++) x.f->_mp_d[i] = 0xdeadbeefdeadbeefull; x.v = v;
}
static Int trunc_int(const Dy& v) { return v.e >= 0 ? ref::shl(v.m, v.e) : ref::tshr(v.m, -v.e); }

// ---- cases -------------------------------------------------------------------------------
static void case_z_cmp(ByteSource& in, CaseInfo& ci) {
  size_t cap = std::max<size_t>(1, expcap(in.scale, 2, 300)); Int A = gen_boundary_int(in, cap), B = gen_boundary_int(in, cap);
  unsigned rel = in.pick({4, 2, 2, 1}); if (rel == 1) B = A; if (rel == 2) B = -A; if (rel == 3) B = A + Int((long long)in.srange(-1, 1));
  Z a, b; mpz_from_int(a, A); mpz_from_int(b, B);
  unsigned f = in.pick({4, 3, 3, 3, 4, 2, 3, 2}); static const char* names[] = {"mpz_cmp", "mpz_cmpabs", "mpz_cmp_ui", "mpz_cmp_si", "mpz_cmp_d", "mpz_cmpabs_ui", "mpz_cmpabs_d", "mpz_sgn"};
  ci.label(names[f]); ci.nontrivial = A.size() >= 1; ci.d("%s ", names[f]); DESC(ci, "a=" + show(A, 48));
  int g, e;
  switch (f) {
    case 0: g = mpz_cmp(a, b); e = ref::cmp(A, B); REQUIRE(sgn3(mpz_cmp(b, a)) == -sgn3(g), "mpz_cmp not antisymmetric"); DESC(ci, " b=" + show(B, 48)); break;
    case 1: g = mpz_cmpabs(a, b); e = ref::cmpabs(A, B); DESC(ci, " b=" + show(B, 48)); break;
    case 2: { uint64_t v = in.flag() ? B.abs().low() : PALETTE[in.u8() & 7]; g = mpz_cmp_ui(a.z, v); e = ref::cmp(A, Int::from_u64(v)); ci.d(" ui=%llu", (unsigned long long)v); break; }
    case 3: { int64_t v = in.flag() ? (int64_t)B.low() * (B.neg ? -1 : 1) : (int64_t)PALETTE[in.u8() & 7]; if (in.chance(30)) v = in.flag() ? INT64_MIN : INT64_MAX; g = mpz_cmp_si(a.z, v); e = ref::cmp(A, Int((long long)v)); ci.d(" si=%lld", (long long)v); break; }
    case 4: case 6: { double d = gen_double(in, ci); if (in.chance(100) && A.size() <= 16) { int z; d = trunc_to_double(A, Int(1), z); if (in.flag()) d = std::nextafter(d, in.flag() ? INFINITY : -INFINITY); }   // d next to a
      ci.d(" d=%a", d);
      if (std::isinf(d)) e = f == 4 ? (d > 0 ? -1 : 1) : -1; else { Dy dd = dy_of_double(d); Dy aa{f == 4 ? A : A.abs(), 0}; if (f == 6) dd.m = dd.m.abs(); e = cmp_dy(aa, dd); }
      g = f == 4 ? mpz_cmp_d(a, d) : mpz_cmpabs_d(a, d); if (A.bits() > 53) ci.label("cmp_d:more_than_53_bits"); break; }
    case 5: { uint64_t v = in.flag() ? B.abs().low() : PALETTE[in.u8() & 7]; g = mpz_cmpabs_ui(a, v); e = ref::cmpabs(A, Int::from_u64(v)); ci.d(" ui=%llu", (unsigned long long)v); break; }
    default: g = mpz_sgn(a.z); e = A.sgn(); break;
  }
  REQUIRE(sgn3(g) == sgn3(e), "%s: returned %d, sign of the exact difference is %d", names[f], g, e);
}
static void case_z_conv(ByteSource& in, CaseInfo& ci) {
  unsigned f = in.pick({3, 3, 3, 3, 3, 4, 4, 3, 3, 3, 3, 4});
  static const char* names[] = {"mpz_set_ui", "mpz_set_si", "mpz_set_ux", "mpz_set_sx", "mpz_set_d", "mpz_get_d", "mpz_get_d_2exp", "mpz_get_ui", "mpz_get_si", "mpz_get_ux", "mpz_get_sx", "mpz_fits"};
  ci.label(names[f]); size_t cap = std::max<size_t>(1, expcap(in.scale, 2, 60)); Z a; { Limbs j = limbs_nz(in, (size_t)in.range(0, 3)); mpz_from_limbs(a, j.data(), j.size(), in.flag()); }
  auto gu = [&]() { return in.flag() ? in.u64() : PALETTE[in.u8() & 7]; };
  ci.d("%s ", names[f]);
  if (f <= 3) { uint64_t v = gu(); Int e = (f & 1) ? Int((long long)(int64_t)v) : Int::from_u64(v); ci.nontrivial = true; ci.d("v=%llx", (unsigned long long)v);
    if (f == 0) mpz_set_ui(a, v); else if (f == 1) mpz_set_si(a, (int64_t)v); else if (f == 2) mpz_set_ux(a, (uintmax_t)v); else mpz_set_sx(a, (intmax_t)(int64_t)v);
    REQUIRE_WF(a, names[f]); REQUIRE(int_from_mpz(a) == e, "%s(0x%llx): wrong value", names[f], (unsigned long long)v); return; }
  if (f == 4) { double d = gen_double(in, ci); if (std::isinf(d)) d = 1e300; Dy dd = dy_of_double(d); Int e = trunc_int(dd); ci.nontrivial = true; ci.d("d=%a", d);
    mpz_set_d(a, d); REQUIRE_WF(a, "mpz_set_d"); REQUIRE(int_from_mpz(a) == e, "mpz_set_d(%a): wrong value (must truncate toward zero)", d); if (std::fabs(d) < 1 && d != 0) ci.label("set_d:fraction"); return; }
  Int A = gen_boundary_int(in, cap); if (in.chance(80) && f <= 6) { // more than 53 significant bits with the discarded part > 1/2 ulp
    A = ref::shl(Int::from_u64(in.u64() | (1ull << 63)), in.range(0, 1200)) + ref::shl(Int::from_u64(in.u64() | 0x400), 0); if (in.flag()) A = -A; ci.label("more_than_53_bits"); }
  mpz_from_int(a, A); DESC(ci, "a=" + show(A, 48)); ci.nontrivial = true;
  if (f == 5) { int zone; double e = trunc_to_double(A, Int(1), zone); double g = mpz_get_d(a); if (zone == 1) ci.label("get_d:overflow");
    REQUIRE(g == e, "mpz_get_d: returned %a, exact truncation toward zero is %a", g, e); return; }
  if (f == 6) { mpir_si ex = 777; double g = mpz_get_d_2exp(&ex, a);
    if (A.is_zero()) { REQUIRE(g == 0.0 && ex == 0, "mpz_get_d_2exp(0): returned %a, exp %ld", g, (long)ex); return; }
    REQUIRE(std::fabs(g) >= 0.5 && std::fabs(g) < 1.0, "mpz_get_d_2exp: |d| = %a outside [0.5,1)", g); REQUIRE((long)ex == (long)A.bits(), "mpz_get_d_2exp: exponent %ld, expected %llu", (long)ex, (unsigned long long)A.bits());
    Int mant = ref::tshr(A.abs(), A.bits() > 53 ? A.bits() - 53 : 0); if (A.bits() < 53) mant = ref::shl(mant, 53 - A.bits()); double e = std::ldexp((double)(long long)mant.low(), -53); if (A.neg) e = -e;
    REQUIRE(g == e, "mpz_get_d_2exp: mantissa %a, exact truncation is %a", g, e); return; }
  if (f == 7 || f == 9) { uint64_t g = f == 7 ? mpz_get_ui(a) : (uint64_t)mpz_get_ux(a); REQUIRE(g == A.low(), "%s: returned 0x%llx, least significant limb of |a| is 0x%llx", names[f], (unsigned long long)g, (unsigned long long)A.low()); return; }
  if (f == 8 || f == 10) { bool fits = A >= Int((long long)INT64_MIN) && A <= Int((long long)INT64_MAX); if (!fits) { ci.label("get_si:out_of_range"); int64_t g = f == 8 ? (int64_t)mpz_get_si(a) : (int64_t)mpz_get_sx(a);  /* documented: the least significant part, with the same sign as op */
      uint64_t mag = g < 0 ? (uint64_t)0 - (uint64_t)g : (uint64_t)g; REQUIRE((g == 0 || (g < 0) == A.neg) && ((mag ^ A.low()) & 0x7fffffffffffffffULL) == 0, "%s(%s): returned %lld for a value that does not fit; documented is the least significant part with the sign of the operand", names[f], show(A).c_str(), (long long)g); return; }
    int64_t g = f == 8 ? (int64_t)mpz_get_si(a) : (int64_t)mpz_get_sx(a); REQUIRE(Int((long long)g) == A, "%s: returned %lld for a value that fits", names[f], (long long)g); return; }
  // fits predicates
  struct R { const char* n; int (*fn)(mpz_srcptr); Int lo, hi; };
  R rs[] = {{"mpz_fits_ulong_p", mpz_fits_ulong_p, Int(0), Int::from_u64(ULONG_MAX)}, {"mpz_fits_slong_p", mpz_fits_slong_p, Int((long long)LONG_MIN), Int((long long)LONG_MAX)}, {"mpz_fits_uint_p", mpz_fits_uint_p, Int(0), Int::from_u64(UINT_MAX)},
            {"mpz_fits_sint_p", mpz_fits_sint_p, Int(INT_MIN), Int(INT_MAX)}, {"mpz_fits_ushort_p", mpz_fits_ushort_p, Int(0), Int(USHRT_MAX)}, {"mpz_fits_sshort_p", mpz_fits_sshort_p, Int(SHRT_MIN), Int(SHRT_MAX)},
            {"mpz_fits_ui_p", mpz_fits_ui_p, Int(0), Int::from_u64(ULONG_MAX)}, {"mpz_fits_si_p", mpz_fits_si_p, Int((long long)LONG_MIN), Int((long long)LONG_MAX)}};
  for (auto& r : rs) { bool e = A >= r.lo && A <= r.hi; int g = r.fn(a); REQUIRE((g != 0) == e, "%s: returned %d, expected %d", r.n, g, (int)e); }
}
static void case_q(ByteSource& in, CaseInfo& ci) {
  size_t cap = std::max<size_t>(1, expcap(in.scale, 2, 80));
  auto gq = [&](Int& n, Int& d) { n = gen_boundary_int(in, cap); d = gen_int(in, cap, false); if (d.is_zero()) d = Int(1); if (in.chance(60)) d = ref::pow2(in.range(0, 1100)); Int g = ref::gcd(n, d); if (!g.is_zero()) { n = ref::tdiv(n, g); d = ref::tdiv(d, g); } if (n.is_zero()) d = Int(1); };
  Int n1, d1, n2, d2; gq(n1, d1); gq(n2, d2); unsigned rel = in.pick({4, 2, 1, 2}); if (rel == 1) { n2 = n1; d2 = d1; } if (rel == 2) { n2 = -n1; d2 = d1; } if (rel == 3) { n2 = n1 + Int((long long)in.srange(-1, 1)); d2 = d1; Int g = ref::gcd(n2, d2); if (!g.is_zero()) { n2 = ref::tdiv(n2, g); d2 = ref::tdiv(d2, g); } if (n2.is_zero()) d2 = Int(1); }
  Q a, b; mpz_from_int(mpq_numref(a.q), n1); mpz_from_int(mpq_denref(a.q), d1); mpz_from_int(mpq_numref(b.q), n2); mpz_from_int(mpq_denref(b.q), d2);
  unsigned f = in.pick({4, 3, 3, 3, 3, 4}); static const char* names[] = {"mpq_cmp", "mpq_cmp_ui", "mpq_cmp_si", "mpq_cmp_z", "mpq_equal", "mpq_get_d"};
  ci.label(names[f]); ci.nontrivial = !(d1 == Int(1)); ci.d("%s ", names[f]); DESC(ci, "a=" + show(n1, 40) + "/" + show(d1, 40));
  if (f == 0) { int g = mpq_cmp(a, b), e = ref::cmp(n1 * d2, n2 * d1); DESC(ci, " b=" + show(n2, 40) + "/" + show(d2, 40)); REQUIRE(sgn3(g) == sgn3(e), "mpq_cmp: returned %d, exact sign %d", g, e); REQUIRE(sgn3(mpq_cmp(b, a)) == -sgn3(g), "mpq_cmp not antisymmetric"); }
  else if (f == 1 || f == 2) { // num2/den2 may have common factors
    uint64_t dd = in.flag() ? in.range(1, 1000) : (in.u64() | 1); uint64_t k = in.range(1, 1000); Int N2;
    if (f == 1) { uint64_t nn = in.flag() ? in.range(0, 1000) : in.u64(); if (in.flag() && nn <= ~0ull / k && dd <= ~0ull / k) { nn *= k; dd *= k; ci.label("cmp_ui:common_factor"); }
      if (in.chance(60) && n1.fits_u64() && d1.fits_u64() && !d1.is_zero()) { nn = n1.low(); dd = d1.low(); if (nn <= ~0ull / k && dd <= ~0ull / k) { nn *= k; dd *= k; } }   // equal value, non-canonical
      N2 = Int::from_u64(nn); ci.d(" n2=%llu d2=%llu", (unsigned long long)nn, (unsigned long long)dd); int g = mpq_cmp_ui(a.q, nn, dd), e = ref::cmp(n1 * Int::from_u64(dd), N2 * d1); REQUIRE(sgn3(g) == sgn3(e), "mpq_cmp_ui: returned %d, exact sign %d", g, e); }
    else { int64_t nn = in.flag() ? in.srange(-1000, 1000) : (int64_t)in.u64(); if (in.chance(30)) nn = in.flag() ? INT64_MIN : INT64_MAX; if (in.flag() && std::llabs(nn / 2) < (int64_t)(INT64_MAX / 2 / (int64_t)k) && dd <= ~0ull / k && nn != INT64_MIN) { nn *= (int64_t)k; dd *= k; ci.label("cmp_ui:common_factor"); }
      N2 = Int((long long)nn); ci.d(" n2=%lld d2=%llu", (long long)nn, (unsigned long long)dd); int g = mpq_cmp_si(a.q, nn, dd), e = ref::cmp(n1 * Int::from_u64(dd), N2 * d1); REQUIRE(sgn3(g) == sgn3(e), "mpq_cmp_si: returned %d, exact sign %d", g, e); } }
  else if (f == 3) { Z z; Int zz = in.flag() ? ref::tdiv(n1, d1) + Int((long long)in.srange(-1, 1)) : gen_boundary_int(in, cap); mpz_from_int(z, zz); int g = mpq_cmp_z(a, z), e = ref::cmp(n1, zz * d1); REQUIRE(sgn3(g) == sgn3(e), "mpq_cmp_z: returned %d, exact sign %d", g, e); }
  else if (f == 4) { int g = mpq_equal(a, b); bool e = n1 == n2 && d1 == d2; REQUIRE((g != 0) == e, "mpq_equal: returned %d, expected %d", g, (int)e); }
  else { int zone; double e = trunc_to_double(n1, d1, zone); double g = mpq_get_d(a); ci.label(zone == 1 ? "get_d:overflow" : zone == -1 ? "get_d:below_normal_range" : "get_d:normal");
    if (zone == -1) REQUIRE(g == e || g == 0.0, "mpq_get_d: returned %a for a value below the normal range (exact truncation %a or 0.0 accepted)", g, e);
    else REQUIRE(g == e, "mpq_get_d: returned %a, exact truncation toward zero is %a", g, e); }
}
static void case_f(ByteSource& in, CaseInfo& ci) {
  F a, b; gen_mpf(in, a, std::max<size_t>(1, (size_t)expcap(in.scale, 2, 30)), ci); gen_mpf(in, b, std::max<size_t>(1, (size_t)expcap(in.scale, 2, 30)), ci);
  unsigned f = in.pick({4, 3, 3, 3, 3, 4, 3, 3, 3, 2, 3}); static const char* names[] = {"mpf_cmp", "mpf_cmp_d", "mpf_cmp_ui", "mpf_cmp_si", "mpf_cmp_z", "mpf_get_d", "mpf_get_d_2exp", "mpf_get_si", "mpf_get_ui", "mpf_integer_p", "mpf_fits"};
  ci.label(names[f]); ci.nontrivial = !a.v.m.is_zero(); ci.d("%s ", names[f]); DESC(ci, "a=" + show(a.v.m, 40) + "*2^" + std::to_string(a.v.e));
  Int T = trunc_int(a.v);
  switch (f) {
    case 0: { unsigned rel = in.pick({3, 1}); if (rel == 1) { // same value, different representation (extra low zero limb)
        size_t n = std::abs(a.f->_mp_size); if (n) { mpf_set_prec(b.f, 64 * (n + 1)); b.f->_mp_d[0] = 0; for (size_t i = 0; i < n; i++) b.f->_mp_d[i + 1] = a.f->_mp_d[i]; b.f->_mp_size = a.f->_mp_size < 0 ? -(int)(n + 1) : (int)(n + 1); b.f->_mp_exp = a.f->_mp_exp; b.v = a.v; ci.label("mpf_cmp:equal_different_repr"); } }
      int g = mpf_cmp(a.f, b.f), e = cmp_dy(a.v, b.v); DESC(ci, " b=" + show(b.v.m, 40) + "*2^" + std::to_string(b.v.e)); REQUIRE(sgn3(g) == sgn3(e), "mpf_cmp: returned %d, exact sign %d", g, e); REQUIRE(sgn3(mpf_cmp(b.f, a.f)) == -sgn3(g), "mpf_cmp not antisymmetric"); break; }
    case 1: { double d = gen_double(in, ci);
      if (std::isfinite(d) && d != 0.0 && in.chance(128)) {   // a next to d in value: equal, between d and 2d, a hair above or below (the only way a wrong decoding of d by a factor near 1 shows)
        Dy dd = dy_of_double(d); unsigned k = in.pick({2, 2, 2, 2, 1}); Dy av = dd;
        if (k == 1) av = Dy{dd.m * Int(3), dd.e - 1}; else if (k == 2) av = Dy{ref::shl(dd.m, 70) + Int(1), dd.e - 70}; else if (k == 3) av = Dy{ref::shl(dd.m, 70) - Int(1), dd.e - 70}; else if (k == 4) av = Dy{dd.m * Int(3), dd.e - 2};
        set_mpf_from_dy(a, av); ci.label("mpf_cmp_d:a_next_to_d"); DESC(ci, " (a replaced by a value next to d: " + show(a.v.m, 40) + "*2^" + std::to_string(a.v.e) + ")"); }
      ci.d(" d=%a", d); int e; if (std::isinf(d)) e = d > 0 ? -1 : 1; else e = cmp_dy(a.v, dy_of_double(d)); int g = mpf_cmp_d(a.f, d); REQUIRE(sgn3(g) == sgn3(e), "mpf_cmp_d: returned %d, exact sign %d", g, e); break; }
    case 2: { uint64_t v = in.flag() ? T.abs().low() + (uint64_t)in.range(0, 1) : PALETTE[in.u8() & 7]; ci.d(" ui=%llu", (unsigned long long)v); int g = mpf_cmp_ui(a.f, v), e = cmp_dy(a.v, Dy{Int::from_u64(v), 0}); REQUIRE(sgn3(g) == sgn3(e), "mpf_cmp_ui: returned %d, exact sign %d", g, e); break; }
    case 3: { int64_t v = in.flag() ? (int64_t)T.low() * (T.neg ? -1 : 1) : (int64_t)PALETTE[in.u8() & 7]; if (in.chance(30)) v = in.flag() ? INT64_MIN : INT64_MAX; ci.d(" si=%lld", (long long)v); int g = mpf_cmp_si(a.f, v), e = cmp_dy(a.v, Dy{Int((long long)v), 0}); REQUIRE(sgn3(g) == sgn3(e), "mpf_cmp_si: returned %d, exact sign %d", g, e); break; }
    case 4: { Z z; Int zz = in.flag() ? T + Int((long long)in.srange(-1, 1)) : gen_boundary_int(in, 6); mpz_from_int(z, zz); int g = mpf_cmp_z(a.f, z), e = cmp_dy(a.v, Dy{zz, 0}); REQUIRE(sgn3(g) == sgn3(e), "mpf_cmp_z: returned %d, exact sign %d", g, e); break; }
    case 5: { if (!a.v.m.is_zero() && in.chance(50)) {   // exponents far outside the double range, up to what an mp_exp_t holds: infinity / zero (truncation) expected
        static const long HE[] = {1L << 57, (1L << 57) + 1, 1L << 58, (1L << 58) - 1, 1L << 60, (1L << 62), 20, 17, 100000, LONG_MAX, LONG_MAX - 1, LONG_MAX - 3, LONG_MAX / 64, LONG_MAX / 64 + 1, LONG_MAX / 64 - 2}; long he = HE[in.range(0, 14)]; bool up = in.flag(); a.f->_mp_exp = up ? he : -he; if (!up && he == LONG_MAX && in.flag()) a.f->_mp_exp = LONG_MIN;   /* every exponent an mp_exp_t holds */ double g = mpf_get_d(a.f);
        double want = up ? (a.v.m.neg ? -INFINITY : INFINITY) : (a.v.m.neg ? -0.0 : 0.0); ci.label("mpf_get_d:huge_exponent"); ci.d(" exponent set to %s%ld limbs", up ? "" : "-", he);
        REQUIRE(g == want, "mpf_get_d of a value with exponent %s%ld limbs: returned %a, expected %a", up ? "" : "-", he, g, want); break; }
      int zone; double e = a.v.e >= 0 ? trunc_to_double(ref::shl(a.v.m, a.v.e), Int(1), zone) : trunc_to_double(a.v.m, ref::pow2(-a.v.e), zone); double g = mpf_get_d(a.f);
      if (zone == -1) REQUIRE(g == e || g == 0.0, "mpf_get_d: returned %a below the normal range (exact %a or 0 accepted)", g, e); else REQUIRE(g == e, "mpf_get_d: returned %a, exact truncation toward zero is %a", g, e); break; }
    case 6: { mpir_si ex = 777; double g = mpf_get_d_2exp(&ex, a.f); if (a.v.m.is_zero()) { REQUIRE(g == 0.0 && ex == 0, "mpf_get_d_2exp(0)"); break; }
      long E = (long)a.v.m.bits() + a.v.e; REQUIRE(std::fabs(g) >= 0.5 && std::fabs(g) < 1.0, "mpf_get_d_2exp: |d| = %a outside [0.5,1)", g); REQUIRE((long)ex == E, "mpf_get_d_2exp: exponent %ld, expected %ld", (long)ex, E);
      Int A = a.v.m.abs(); Int mant = A.bits() > 53 ? ref::tshr(A, A.bits() - 53) : ref::shl(A, 53 - A.bits()); double e = std::ldexp((double)(long long)mant.low(), -53); if (a.v.m.neg) e = -e; REQUIRE(g == e, "mpf_get_d_2exp: mantissa %a, exact truncation %a", g, e); break; }
    case 7: { if (T >= Int((long long)LONG_MIN) && T <= Int((long long)LONG_MAX)) { long g = mpf_get_si(a.f); REQUIRE(Int((long long)g) == T, "mpf_get_si: returned %ld, truncated value differs", g); } else ci.label("get_si:out_of_range_not_asserted"); break; }
    case 8: { if (!T.neg && T.fits_u64()) { unsigned long g = mpf_get_ui(a.f); REQUIRE(Int::from_u64(g) == T, "mpf_get_ui: returned %lu, truncated value differs", g); } else ci.label("get_ui:out_of_range_not_asserted"); break; }
    case 9: { bool e = a.v.e >= 0 || ref::tmod(a.v.m, ref::pow2(-a.v.e)).is_zero(); int g = mpf_integer_p(a.f); REQUIRE((g != 0) == e, "mpf_integer_p: returned %d, expected %d", g, (int)e); break; }
    default: { struct R { const char* n; int (*fn)(mpf_srcptr); Int lo, hi; };
      R rs[] = {{"mpf_fits_ulong_p", mpf_fits_ulong_p, Int(0), Int::from_u64(ULONG_MAX)}, {"mpf_fits_slong_p", mpf_fits_slong_p, Int((long long)LONG_MIN), Int((long long)LONG_MAX)}, {"mpf_fits_uint_p", mpf_fits_uint_p, Int(0), Int::from_u64(UINT_MAX)},
                {"mpf_fits_sint_p", mpf_fits_sint_p, Int(INT_MIN), Int(INT_MAX)}, {"mpf_fits_ushort_p", mpf_fits_ushort_p, Int(0), Int(USHRT_MAX)}, {"mpf_fits_sshort_p", mpf_fits_sshort_p, Int(SHRT_MIN), Int(SHRT_MAX)},
                {"mpf_fits_ui_p", mpf_fits_ui_p, Int(0), Int::from_u64(ULONG_MAX)}, {"mpf_fits_si_p", mpf_fits_si_p, Int((long long)LONG_MIN), Int((long long)LONG_MAX)}};   // mpir_ui / mpir_si are 64 bits wide on this platform
      // "would fit when truncated to an integer"
      if (T.is_zero() && a.v.m.neg) ci.label("fits:negative_fraction");
      for (auto& r : rs) { bool e = T >= r.lo && T <= r.hi; int g = r.fn(a.f);
        REQUIRE((g != 0) == e, "%s: returned %d, expected %d (value truncates to %s)", r.n, g, (int)e, show(T, 40).c_str()); }
      break; }
  }
}
static void check(ByteSource& in, CaseInfo& ci) { switch (in.pick({5, 6, 5, 6})) { case 0: case_z_cmp(in, ci); break; case 1: case_z_conv(in, ci); break; case 2: case_q(in, ci); break; default: case_f(in, ci); break; } }
// ---- exhaustive sweep: every pair of signed values of up to three limbs with limbs from {0,1,2^63-1,2^63,2^64-2,2^64-1} ----------
static uint64_t sweep_count() { return 432ull * 432ull; }
static void sweep_item(uint64_t i, CaseInfo& ci) {
  uint64_t ia = i % 432, ib = i / 432; Int A = palette_int(ia % 216, 3), B = palette_int(ib % 216, 3); if (ia >= 216) A = -A; if (ib >= 216) B = -B;
  ci.d("a=%s b=%s", show(A).c_str(), show(B).c_str()); Z za, zb; mpz_ptr a = za.z, b = zb.z; mpz_from_int(a, A); mpz_from_int(b, B);
  REQUIRE(sgn3(mpz_cmp(a, b)) == sgn3(ref::cmp(A, B)), "mpz_cmp(%s, %s)", show(A).c_str(), show(B).c_str()); REQUIRE(sgn3(mpz_cmpabs(a, b)) == sgn3(ref::cmpabs(A, B)), "mpz_cmpabs(%s, %s)", show(A).c_str(), show(B).c_str());
  uint64_t u = B.low(); int64_t sv = (int64_t)u;
  REQUIRE(sgn3(mpz_cmp_ui(a, u)) == sgn3(ref::cmp(A, Int::from_u64(u))), "mpz_cmp_ui(%s, %llu)", show(A).c_str(), (unsigned long long)u); REQUIRE(sgn3(mpz_cmp_si(a, sv)) == sgn3(ref::cmp(A, Int((long long)sv))), "mpz_cmp_si(%s, %lld)", show(A).c_str(), (long long)sv);
  REQUIRE(sgn3(mpz_cmpabs_ui(a, u)) == sgn3(ref::cmpabs(A, Int::from_u64(u))), "mpz_cmpabs_ui(%s, %llu)", show(A).c_str(), (unsigned long long)u);
  { int zone; double d = trunc_to_double(B, Int(1), zone); if (zone == 0) { Dy dd = dy_of_double(d); REQUIRE(sgn3(mpz_cmp_d(a, d)) == sgn3(cmp_dy(Dy{A, 0}, dd)), "mpz_cmp_d(%s, %a)", show(A).c_str(), d); REQUIRE(sgn3(mpz_cmpabs_d(a, d)) == sgn3(cmp_dy(Dy{A.abs(), 0}, Dy{dd.m.abs(), dd.e})), "mpz_cmpabs_d(%s, %a)", show(A).c_str(), d); } }
  if (ib == 0) {   // single-operand conversions and predicates
    REQUIRE(mpz_sgn(a) == A.sgn(), "mpz_sgn(%s)", show(A).c_str()); REQUIRE(mpz_get_ui(a) == A.low(), "mpz_get_ui(%s)", show(A).c_str());
    auto inr = [&](const Int& lo, const Int& hi) { return A >= lo && A <= hi; };
    REQUIRE((mpz_fits_ulong_p(a) != 0) == inr(Int(0), Int::from_u64(~0ull)), "mpz_fits_ulong_p(%s)", show(A).c_str()); REQUIRE((mpz_fits_slong_p(a) != 0) == inr(Int((long long)INT64_MIN), Int((long long)INT64_MAX)), "mpz_fits_slong_p(%s)", show(A).c_str());
    REQUIRE((mpz_fits_uint_p(a) != 0) == inr(Int(0), Int::from_u64(UINT_MAX)), "mpz_fits_uint_p(%s)", show(A).c_str()); REQUIRE((mpz_fits_sint_p(a) != 0) == inr(Int((long long)INT_MIN), Int((long long)INT_MAX)), "mpz_fits_sint_p(%s)", show(A).c_str());
    REQUIRE((mpz_fits_ushort_p(a) != 0) == inr(Int(0), Int(65535)), "mpz_fits_ushort_p(%s)", show(A).c_str()); REQUIRE((mpz_fits_sshort_p(a) != 0) == inr(Int(-32768), Int(32767)), "mpz_fits_sshort_p(%s)", show(A).c_str());
    if (inr(Int((long long)INT64_MIN), Int((long long)INT64_MAX))) REQUIRE(Int((long long)mpz_get_si(a)) == A, "mpz_get_si(%s)", show(A).c_str());
    int zone; double e = trunc_to_double(A, Int(1), zone); double g = mpz_get_d(a); REQUIRE(g == e, "mpz_get_d(%s) = %a, exact truncation %a", show(A).c_str(), g, e);
  }
}
// deterministic case: operands whose limb counts differ by 2^31 (a = 2^(64*(2^30-1)), b = -a): the sign of mpz_cmp must not depend on the size difference fitting an int.
// The 8 GiB limb arrays come from a lazily mapped allocator installed for the duration of the case, so only the pages that are touched cost memory.
#include <sys/mman.h>
static void* lazy_alloc(size_t n) { void* p = mmap(nullptr, n ? n : 1, PROT_READ | PROT_WRITE, MAP_PRIVATE | MAP_ANONYMOUS | MAP_NORESERVE, -1, 0); return p == MAP_FAILED ? nullptr : p; }
static void* lazy_realloc(void* o, size_t on, size_t nn) { void* p = lazy_alloc(nn); if (p && o) { memcpy(p, o, std::min(on, nn) < 4096 ? std::min(on, nn) : 4096); munmap(o, on ? on : 1); } return p; }
static void lazy_free(void* p, size_t n) { munmap(p, n ? n : 1); }
static void fixed_case(unsigned k, CaseInfo& ci) {
  if (k != 0) return;
  void* (*oa)(size_t); void* (*orl)(void*, size_t, size_t); void (*ofr)(void*, size_t); mp_get_memory_functions(&oa, &orl, &ofr); mp_set_memory_functions(lazy_alloc, lazy_realloc, lazy_free);
  ci.desc = "a = 2^(64*(2^30-1)) (2^30 limbs, lazily mapped), b = -a: mpz_cmp(a,b), mpz_cmp(b,a), mpz_cmp_si(a,-5), mpz_cmp(a,-1)";
  const mp_size_t N = (mp_size_t)1 << 30; mpz_t a, b, m1; mpz_init(a); mpz_init(b); mpz_init(m1); bool ok = true; int r1 = 0, r2 = 0, r3 = 0, r4 = 0;
  mp_limb_t* ap = mpz_limbs_write(a, N); mp_limb_t* bp = mpz_limbs_write(b, N);
  if (ap && bp) { ap[N - 1] = 1; bp[N - 1] = 1; mpz_limbs_finish(a, N); mpz_limbs_finish(b, -N); mpz_set_si(m1, -1);
    r1 = mpz_cmp(a, b); r2 = mpz_cmp(b, a); r3 = mpz_cmp_si(a, -5L); r4 = mpz_cmp(a, m1); ok = r1 > 0 && r2 < 0 && r3 > 0 && r4 > 0; }
  mpz_clear(a); mpz_clear(b); mpz_clear(m1); mp_set_memory_functions(oa, orl, ofr);
  if (!(ap && bp)) { ci.label("fixed0:address_space_refused_no_verdict"); return; }   /* 2 x 8 GiB of address space not available here: no verdict, never an alarm */
  REQUIRE(ok, "operands of 2^30 limbs with opposite signs: mpz_cmp(a,b) = %d (want > 0), mpz_cmp(b,a) = %d (want < 0), mpz_cmp_si(a,-5) = %d (want > 0), mpz_cmp(a,-1) = %d (want > 0)", r1, r2, r3, r4);
}
namespace eng {
PropDef g_prop = {"C11",
  "Cases: integers / rationals / hand-built mpf values at 0, +-1, +-2^k, +-2^k+-1,2 for k in {7,8,15,16,31,32,52,53,54,62,63,64,65,127,128,1023,1024,1074} and random; doubles from bit patterns (subnormals, 2^k neighbourhoods, halves, huge exponents, +-inf, +-0; never NaN) and doubles adjacent to the integer operand; values with more than 53 significant bits whose discarded part exceeds half an ulp; mpq_cmp_ui/si with common factors in num2/den2 and with the non-canonical equal value; mpf values in a different representation of the same number. Functions: mpz_cmp/cmpabs/_ui/_si/_d/sgn, mpz_set_ui/si/ux/sx/d, mpz_get_ui/si/ux/sx/d/d_2exp, the eight mpz_fits_*_p, mpq_cmp/_ui/_si/_z/equal/get_d, mpf_cmp/_d/_ui/_si/_z, mpf_get_d/d_2exp/si/ui, mpf_integer_p, the six mpf_fits_*_p. Oracle: refint exact rational comparison and exact IEEE truncation toward zero (infinity on overflow; below the normal range the exact subnormal truncation or 0.0 is accepted because the manual calls that range system dependent); get_si/get_ui outside the representable range is not asserted. Non-trivial: non-zero operand. Distinct = hash of all decoded choices.",
  check, nullptr, {"mpf_cmp_d:a_next_to_d", "mpf_get_d:huge_exponent", "double:subnormal", "double:near_2^k", "double:inf", "more_than_53_bits", "cmp_d:more_than_53_bits", "get_d:overflow", "get_d:below_normal_range", "cmp_ui:common_factor", "mpf:near_boundary", "mpf_cmp:equal_different_repr", "set_d:fraction"}, fixed_case, sweep_count, sweep_item,
  "every pair of signed values of up to three limbs with limbs from {0,1,2^63-1,2^63,2^64-2,2^64-1} (432 x 432): mpz_cmp, mpz_cmpabs, mpz_cmp_ui/_si/cmpabs_ui with the low limb of b, mpz_cmp_d/cmpabs_d with b as a double when exactly representable; for every value: mpz_sgn, get_ui, get_si (in range), the six fits predicates, mpz_get_d"};
}
