// C13: float results are accurate to the destination precision, exact if representable; format rules
#include <climits>
#include "../harness/gen.hpp"
#include <cmath>
using namespace eng; using namespace gen; using ref::Int;

struct Dy { Int m; long e; };                                   // m * 2^e
static Dy dnorm(Dy a) { if (a.m.is_zero()) { a.e = 0; return a; } uint64_t tz = 0; while (!ref::mtest(a.m.m, tz)) tz++; if (tz) { a.m = ref::tshr(a.m, tz); a.e += (long)tz; } return a; }
static Dy dadd(const Dy& a, const Dy& b) { long e = std::min(a.e, b.e); return Dy{ref::shl(a.m, a.e - e) + ref::shl(b.m, b.e - e), e}; }
static Dy dneg(Dy a) { a.m = -a.m; return a; }
static Dy dmul(const Dy& a, const Dy& b) { return Dy{a.m * b.m, a.e + b.e}; }
static int dcmpabs(const Dy& a, const Dy& b) { long e = std::min(a.e, b.e); return ref::cmpabs(ref::shl(a.m, a.e - e), ref::shl(b.m, b.e - e)); }
static bool deq(const Dy& a, const Dy& b) { Dy d = dadd(a, dneg(b)); return d.m.is_zero(); }
static uint64_t sigbits(const Dy& a) { Dy n = dnorm(a); return n.m.bits(); }
static std::string dshow(const Dy& a) { return show(a.m, 40) + "*2^" + std::to_string(a.e); }

// exact value as a rational N/D * 2^ex (D > 0)
struct Ex { Int n, d; long ex; };
// |r - X| < 2^(2-p) |X| ?   and r == X ?
static bool close_enough(const Dy& r, const Ex& X, uint64_t p) {
  if (X.n.is_zero()) return r.m.is_zero();
  long E = std::min(r.e, X.ex); Int A = ref::shl(r.m * X.d, r.e - E), B = ref::shl(X.n, X.ex - E);   // compare A/D' with B/D' (same positive denominator X.d)
  Int diff = (A - B).abs(); return ref::cmp(ref::shl(diff, p - 2), B.abs()) < 0;
}
static bool exactly(const Dy& r, const Ex& X) { long E = std::min(r.e, X.ex); return ref::shl(r.m * X.d, r.e - E) == ref::shl(X.n, X.ex - E); }
// is X a dyadic number whose odd part has <= p bits?
static bool ex_fits(const Ex& X, uint64_t p, Dy* out = nullptr) {
  if (X.n.is_zero()) { if (out) *out = Dy{Int(0), 0}; return true; }
  Int q, rem; ref::tdivrem(X.n, X.d, q, rem);
  if (rem.is_zero()) { Dy v = dnorm(Dy{q, X.ex}); if (out) *out = v; return v.m.bits() <= p; }
  // d must be a power of two times something dividing n: reduce
  Int g = ref::gcd(X.n, X.d); Int n = ref::tdiv(X.n, g), d = ref::tdiv(X.d, g); if (d.bits() == 0) return false;
  if (!(ref::pow2(d.bits() - 1) == d)) return false;
  Dy v = dnorm(Dy{n, X.ex - (long)(d.bits() - 1)}); if (out) *out = v; return v.m.bits() <= p;
}

struct F { mpf_t f; Dy v; bool init = false; unsigned long raw0 = 0; F() {} ~F() { if (init) { if (raw0) mpf_set_prec_raw(f, raw0); mpf_clear(f); } } void mk(uint64_t bits) { mpf_init2(f, bits); init = true; }
  // lower the precision with mpf_set_prec_raw after the value was stored: the value keeps its limbs (possibly more than the new prec+1), as the manual describes
  void lower_raw(uint64_t bits) { if (!raw0) raw0 = mpf_get_prec(f); mpf_set_prec_raw(f, bits); } };
static bool g_allow_excess = false;   // set while judging an in-place result on a raw-lowered variable (it may legitimately keep more than prec+1 limbs)
static Dy read_mpf(mpf_srcptr f) { int s = f->_mp_size; size_t n = s < 0 ? -s : s; Dy r; r.m = Int::from_limbs((const uint64_t*)f->_mp_d, n, s < 0); r.e = n ? 64 * ((long)f->_mp_exp - (long)n) : 0; return r; }
static const char* mpf_illformed(mpf_srcptr f) {
  int s = f->_mp_size; size_t n = s < 0 ? -s : s;
  if (n > (size_t)f->_mp_prec + 1 && !g_allow_excess) return "more than prec+1 limbs";
  if (n && f->_mp_d[n - 1] == 0) return "top limb is zero";
  if (n == 0 && f->_mp_exp != 0) return "zero with non-zero exponent";
  return nullptr;
}
#define REQUIRE_FWF(f, what) do { const char* _e = mpf_illformed(f); REQUIRE(!_e, "%s: result violates the mpf format rules: %s", what, _e); } while (0)
static uint64_t gen_prec(ByteSource& in) { unsigned k = in.pick({3, 3, 2}); if (k == 0) return in.range(1, 200); if (k == 1) return 64 * in.range(1, 12) + (uint64_t)in.srange(-1, 1); return in.logrange(1, expcap(in.scale, 128, 2000)); }
// operand built by hand: n limbs (n <= prec+1), exponent, patterns
static void gen_operand(ByteSource& in, F& x, uint64_t precbits, long exp_center, CaseInfo& ci) {
  x.mk(precbits); size_t maxn = (size_t)x.f->_mp_prec + 1; size_t n = in.chance(24) ? 0 : (in.flag() ? maxn - (size_t)in.range(0, std::min<size_t>(maxn - 1, 2)) : (size_t)in.range(1, maxn));
  Limbs v = limbs_nz(in, n); unsigned k = in.pick({5, 2, 2, 1});
  if (n && k == 1) { size_t z = (size_t)in.range(0, n - 1); std::fill(v.begin(), v.begin() + z, 0); if (z) ci.label("low_zero_limbs"); }
  if (n && k == 2) { std::fill(v.begin(), v.end(), ~0ull); }
  if (n && k == 3) { std::fill(v.begin(), v.end(), 0); v[n - 1] = 1ull << in.range(0, 63); }
  long ex = exp_center + (long)in.srange(-2, 2); if (in.chance(40)) ex = (long)in.srange(-40, 40);
  bool neg = in.flag();
  for (size_t i = 0; i < n; i++) x.f->_mp_d[i] = v[i]; x.f->_mp_size = neg ? -(int)n : (int)n; x.f->_mp_exp = n ? ex : 0; for (size_t i = n; i < (size_t)x.f->_mp_prec + 1; i++) x.f->_mp_d[i] = 0xdeadbeefdeadbeefull;   // stale limbs above the size are unspecified: poison
  x.v = read_mpf(x.f);
}
// destination: own precision, garbage value; optional precision history (set_prec / set_prec_raw)
struct Dest { F r; uint64_t p; bool raw = false; uint64_t orig = 0; };
static void gen_dest(ByteSource& in, Dest& d, CaseInfo& ci) {
  uint64_t want = gen_prec(in); unsigned hist = in.pick({5, 2, 2});
  if (hist == 0) d.r.mk(want);
  else if (hist == 1) { d.r.mk(gen_prec(in)); mpf_set_ui(d.r.f, 12345); mpf_set_prec(d.r.f, want); ci.label("dest:set_prec"); }
  else { uint64_t big = want + 64 * in.range(1, 6); d.r.mk(big); d.orig = mpf_get_prec(d.r.f); mpf_set_prec_raw(d.r.f, want); d.raw = true; ci.label("dest:set_prec_raw"); }
  if (in.flag()) { size_t n = std::min<size_t>((size_t)d.r.f->_mp_prec + 1, (size_t)in.range(1, 3)); for (size_t i = 0; i < n; i++) d.r.f->_mp_d[i] = in.u64() | 1; d.r.f->_mp_d[n - 1] |= 1ull << 63; d.r.f->_mp_size = in.flag() ? (int)n : -(int)n; d.r.f->_mp_exp = in.srange(-3, 3); }
  d.p = mpf_get_prec(d.r.f);
}
static void finish_dest(Dest& d) { if (d.raw) mpf_set_prec_raw(d.r.f, d.orig); }

static void judge(const char* what, mpf_srcptr r, const Ex& X, uint64_t p, bool operands_fit, CaseInfo& ci) {
  REQUIRE_FWF(r, what); Dy got = read_mpf(r);
  Dy xv; bool fits = ex_fits(X, p, &xv);
  if (operands_fit && fits) { ci.label("exact_clause"); REQUIRE(exactly(got, X), "%s: operands and the exact result fit in p=%llu bits but the result is not exact: got %s, exact %s", what, (unsigned long long)p, dshow(got).c_str(), dshow(xv).c_str()); }
  else { ci.label("bound_clause"); REQUIRE(close_enough(got, X, p), "%s: error >= 2^(2-p)*|exact| with p=%llu: got %s", what, (unsigned long long)p, dshow(got).c_str()); }
  if (exactly(got, X)) ci.label("result_exact"); else ci.label("result_truncated");
}
static bool fitsp(const Dy& a, uint64_t p) { return a.m.is_zero() || sigbits(a) <= p; }

static void case_arith(ByteSource& in, CaseInfo& ci) {
  unsigned f = in.pick({6, 6, 5, 5, 4, 2, 2, 2, 2, 2, 2, 2}); static const char* names[] = {"mpf_add", "mpf_sub", "mpf_mul", "mpf_div", "mpf_sqrt", "mpf_add_ui", "mpf_sub_ui", "mpf_ui_sub", "mpf_mul_ui", "mpf_div_ui", "mpf_ui_div", "mpf_sqrt_ui"};
  ci.label(names[f]); Dest d; gen_dest(in, d, ci); uint64_t p = d.p;
  F a, b; uint64_t pa = gen_prec(in), pb = gen_prec(in); unsigned sh = in.pick({4, 2, 2});   // operand precisions: free / shorter than dest / so that exactness is likely
  if (sh == 1) { pa = std::max<uint64_t>(1, p / 2); pb = std::max<uint64_t>(1, p / 2); } if (sh == 2) { pa = std::max<uint64_t>(1, p / 3); pb = std::max<uint64_t>(1, p / 3); }
  gen_operand(in, a, pa, 0, ci);
  // exponent relation of b to a: no overlap / partial / full
  long ea = a.f->_mp_exp; unsigned rel = in.pick({4, 3, 2, 3}); long eb = rel == 0 ? ea : rel == 1 ? ea + (long)in.srange(-3, 3) : rel == 2 ? ea + (in.flag() ? 1 : -1) * (long)in.range(4, 60) : ea;
  gen_operand(in, b, pb, eb, ci); if (rel == 2) ci.label("exponents_far_apart");
  if (rel == 3 && (f == 0 || f == 1) && a.f->_mp_size != 0) {   // nearly cancelling: b = +-a with the low part perturbed
    mpf_set_prec(b.f, std::max(pa, pb)); size_t n = std::min<size_t>(std::abs(a.f->_mp_size), (size_t)b.f->_mp_prec + 1); size_t off = std::abs(a.f->_mp_size) - n;
    for (size_t i = 0; i < n; i++) b.f->_mp_d[i] = a.f->_mp_d[i + off]; unsigned pk = in.pick({2, 2, 2}); if (pk == 0) b.f->_mp_d[0] ^= 1ull << in.range(0, 63); else if (pk == 1 && n > 1) { b.f->_mp_d[0] = ~0ull; } else if (n > 1) { b.f->_mp_d[n - 1] ^= 1; if (!b.f->_mp_d[n - 1]) b.f->_mp_d[n - 1] = 1; }
    while (n && b.f->_mp_d[n - 1] == 0) n--;
    int sa = a.f->_mp_size < 0 ? -1 : 1; int sb = (f == 0) ? -sa : sa;     // add: b ~ -a ; sub: b ~ a
    b.f->_mp_size = sb * (int)n; b.f->_mp_exp = n ? a.f->_mp_exp : 0; b.v = read_mpf(b.f); ci.label("near_cancellation"); }
  if ((f == 0 || f == 1) && in.chance(50)) {   // the "x+1 000.. minus x fff.." patterns (special path of mpf_sub): same exponent, or exponents differing by one limb
    size_t na = (size_t)in.range(1, (size_t)a.f->_mp_prec + 1), nb = (size_t)in.range(1, (size_t)b.f->_mp_prec + 1); bool onelimb = in.flag(); uint64_t t = in.u64() >> 1; if (t == 0) t = 5;
    for (size_t i = 0; i < na; i++) a.f->_mp_d[i] = 0; size_t ones = (size_t)in.range(0, nb - 1);
    for (size_t i = 0; i < nb; i++) b.f->_mp_d[i] = (i + 1 + ones >= nb) ? ~0ull : in.u64();
    if (!onelimb) { a.f->_mp_d[na - 1] = t + 1; b.f->_mp_d[nb - 1] = t; if (ones && nb >= 2) for (size_t i = nb - 1 - std::min(ones, nb - 1); i < nb - 1; i++) b.f->_mp_d[i] = ~0ull; a.f->_mp_exp = 3; b.f->_mp_exp = 3; }
    else { a.f->_mp_d[na - 1] = 1; a.f->_mp_exp = 4; b.f->_mp_exp = 3; }
    if (in.flag() && na >= 2) a.f->_mp_d[0] = in.u64();     // low limb of a not zero
    int sa = in.flag() ? 1 : -1; int sb = (f == 0) ? -sa : sa; a.f->_mp_size = sa * (int)na; b.f->_mp_size = sb * (int)nb;
    if (in.flag()) { std::swap(a.f->_mp_d, b.f->_mp_d); std::swap(a.f->_mp_size, b.f->_mp_size); std::swap(a.f->_mp_exp, b.f->_mp_exp); std::swap(a.f->_mp_prec, b.f->_mp_prec); if (f == 0) {} }
    a.v = read_mpf(a.f); b.v = read_mpf(b.f); ci.label("x+1|000_minus_x|fff"); }
  bool rawa = false; if (in.chance(40) && mpf_get_prec(a.f) > 64) { a.lower_raw(64 * in.range(1, (mpf_get_prec(a.f) + 63) / 64 - 1)); rawa = true; ci.label("operand_longer_than_prec_raw"); }
  if (in.chance(25) && mpf_get_prec(b.f) > 64) { b.lower_raw(64 * in.range(1, (mpf_get_prec(b.f) + 63) / 64 - 1)); ci.label("operand_longer_than_prec_raw"); }
  uint64_t u = in.pick({3, 1, 1, 1}) == 0 ? in.u64() : in.flag() ? in.range(0, 100) : PALETTE[in.u8() & 7];
  if (f >= 5 && f <= 7 && u >= 1 && in.chance(90)) {   // the operand nearly (or exactly) cancels against the unsigned long: a = +-u, +-(u + tiny), +-(u - tiny), possibly stored with low zero limbs
    size_t n = (size_t)in.range(1, (size_t)a.f->_mp_prec + 1); unsigned k = n == 1 ? 0 : in.pick({2, 3, 3}); for (size_t i = 0; i < n; i++) a.f->_mp_d[i] = 0; a.f->_mp_d[n - 1] = u;
    if (k == 1) { size_t j = (size_t)in.range(0, n - 2); a.f->_mp_d[j] = in.flag() ? in.u64() | 1 : 1ull << in.range(0, 63); if (in.flag()) for (size_t i = 0; i < j; i++) a.f->_mp_d[i] = in.u64(); }   // u + tiny
    else if (k == 2) { a.f->_mp_d[n - 1] = u - 1; for (size_t i = 0; i + 1 < n; i++) a.f->_mp_d[i] = ~0ull; if (in.flag()) a.f->_mp_d[0] = in.u64(); }   // u - tiny = (u-1).fff...
    size_t m = n; while (m && a.f->_mp_d[m - 1] == 0) m--; bool negv = (f == 5); if (in.chance(30)) negv = !negv;
    a.f->_mp_size = negv ? -(int)m : (int)m; a.f->_mp_exp = m ? 1 - (long)(n - m) : 0; a.v = read_mpf(a.f); ci.label("ui_operand_nearly_cancels");
  }
  Dy U{Int::from_u64(u), 0}; Ex X; bool opfit = true; ci.nontrivial = !a.v.m.is_zero();
  ci.d("%s p=%llu ", names[f], (unsigned long long)p); DESC(ci, "a=" + dshow(a.v) + " b=" + dshow(b.v) + " ui=" + std::to_string(u));
  // aliasing of the destination with an operand (precision then is the operand's)
  unsigned al = in.pick({5, 1, 1}); mpf_ptr o = d.r.f; if (al == 1) { o = a.f; p = mpf_get_prec(a.f); } else if (al == 2 && f <= 3) { o = b.f; p = mpf_get_prec(b.f); } if (o != d.r.f) ci.label("dest_aliases_operand");
  struct AE { ~AE() { g_allow_excess = false; } } ae; g_allow_excess = (o == a.f && a.raw0) || (o == b.f && b.raw0); (void)rawa;
  auto setX = [&](const Dy& v) { X = Ex{v.m, Int(1), v.e}; };
  switch (f) {
    case 0: setX(dadd(a.v, b.v)); opfit = fitsp(a.v, p) && fitsp(b.v, p); mpf_add(o, a.f, b.f); break;
    case 1: setX(dadd(a.v, dneg(b.v))); opfit = fitsp(a.v, p) && fitsp(b.v, p); mpf_sub(o, a.f, b.f); break;
    case 2: setX(dmul(a.v, b.v)); opfit = fitsp(a.v, p) && fitsp(b.v, p); mpf_mul(o, a.f, b.f); break;
    case 3: { if (b.v.m.is_zero()) { b.f->_mp_d[0] = 3; b.f->_mp_size = 1; b.f->_mp_exp = 1; b.v = read_mpf(b.f); } if (in.chance(80)) { /* exact quotient: a := b * small */ }
      Int n = a.v.m, dd = b.v.m; if (dd.neg) { n = -n; dd = -dd; } X = Ex{n, dd, a.v.e - b.v.e}; opfit = fitsp(a.v, p) && fitsp(b.v, p); mpf_div(o, a.f, b.f); break; }
    case 4: { if (a.v.m.neg) { a.f->_mp_size = -a.f->_mp_size; a.v = read_mpf(a.f); } opfit = fitsp(a.v, p); mpf_sqrt(o, a.f); REQUIRE_FWF(o, "mpf_sqrt"); Dy r = read_mpf(o);
      // |r - s| < eps*s  <=>  r^2 K^2 < x (K+1)^2  and  x (K-1)^2 < r^2 K^2   (K = 2^(p-2)), or exactness
      if (a.v.m.is_zero()) { REQUIRE(r.m.is_zero(), "mpf_sqrt(0) != 0"); break; }
      REQUIRE(!r.m.neg && !r.m.is_zero(), "mpf_sqrt: non-positive root of a positive value");
      Dy r2 = dmul(r, r); bool ex = deq(r2, a.v); Int K = ref::pow2(p - 2); Dy lhs = dmul(r2, Dy{K * K, 0}); Dy up = dmul(a.v, Dy{(K + Int(1)) * (K + Int(1)), 0}), lo = dmul(a.v, Dy{(K - Int(1)) * (K - Int(1)), 0});
      bool within = dcmpabs(lhs, up) < 0 && dcmpabs(lo, lhs) < 0;
      // exactness clause: x a perfect square of a p-bit dyadic number
      Dy xn = dnorm(a.v); bool sq = false; if ((xn.e & 1) == 0) { Int s = ref::isqrt(xn.m); sq = s * s == xn.m && s.bits() <= p; }
      if (opfit && sq) { ci.label("exact_clause"); REQUIRE(ex, "mpf_sqrt: operand and exact root fit in p=%llu bits but the result is not exact", (unsigned long long)p); } else { ci.label("bound_clause"); REQUIRE(within || ex, "mpf_sqrt: error >= 2^(2-p)*sqrt(x), p=%llu", (unsigned long long)p); }
      if (o != a.f) REQUIRE(deq(read_mpf(a.f), a.v), "mpf_sqrt: operand modified"); finish_dest(d); return; }
    case 5: setX(dadd(a.v, U)); opfit = fitsp(a.v, p) && fitsp(U, p); mpf_add_ui(o, a.f, u); break;
    case 6: setX(dadd(a.v, dneg(U))); opfit = fitsp(a.v, p) && fitsp(U, p); mpf_sub_ui(o, a.f, u); break;
    case 7: setX(dadd(U, dneg(a.v))); opfit = fitsp(a.v, p) && fitsp(U, p); mpf_ui_sub(o, u, a.f); break;
    case 8: setX(dmul(a.v, U)); opfit = fitsp(a.v, p) && fitsp(U, p); mpf_mul_ui(o, a.f, u); break;
    case 9: { if (!u) u = 7; U.m = Int::from_u64(u); X = Ex{a.v.m, Int::from_u64(u), a.v.e}; opfit = fitsp(a.v, p); mpf_div_ui(o, a.f, u); break; }
    case 10: { if (a.v.m.is_zero()) { a.f->_mp_d[0] = 5; a.f->_mp_size = 1; a.f->_mp_exp = 1; a.v = read_mpf(a.f); } Int n = Int::from_u64(u), dd = a.v.m; if (dd.neg) { n = -n; dd = -dd; } X = Ex{n, dd, -a.v.e}; opfit = fitsp(a.v, p); mpf_ui_div(o, u, a.f); break; }
    default: { // sqrt_ui
      mpf_sqrt_ui(o, u); REQUIRE_FWF(o, "mpf_sqrt_ui"); Dy r = read_mpf(o); if (!u) { REQUIRE(r.m.is_zero(), "mpf_sqrt_ui(0) != 0"); break; }
      Dy x{Int::from_u64(u), 0}, r2 = dmul(r, r); bool ex = deq(r2, x); Int K = ref::pow2(p - 2); Dy lhs = dmul(r2, Dy{K * K, 0}); bool within = dcmpabs(lhs, dmul(x, Dy{(K + Int(1)) * (K + Int(1)), 0})) < 0 && dcmpabs(dmul(x, Dy{(K - Int(1)) * (K - Int(1)), 0}), lhs) < 0;
      Int s = ref::isqrt(x.m); if (s * s == x.m) { ci.label("exact_clause"); REQUIRE(ex, "mpf_sqrt_ui(%llu): perfect square but result not exact", (unsigned long long)u); } else { ci.label("bound_clause"); REQUIRE(within, "mpf_sqrt_ui(%llu): error >= 2^(2-p)*sqrt(u)", (unsigned long long)u); }
      finish_dest(d); return; }
  }
  judge(names[f], o, X, p, opfit, ci);
  if (o != a.f) REQUIRE(deq(read_mpf(a.f), a.v), "%s: first operand modified", names[f]);
  if (o != b.f && f <= 3) REQUIRE(deq(read_mpf(b.f), b.v), "%s: second operand modified", names[f]);
  finish_dest(d);
}
static void case_set(ByteSource& in, CaseInfo& ci) {
  unsigned f = in.pick({4, 3, 3}); static const char* names[] = {"mpf_set_q", "mpf_set_z", "mpf_set_d"}; ci.label(names[f]); Dest d; gen_dest(in, d, ci); uint64_t p = d.p; Ex X; bool opfit = true;
  size_t cap = std::max<size_t>(1, expcap(in.scale, 2, 40));
  if (f == 0) { Int n = gen_int(in, cap), dd = gen_int(in, cap, false); if (dd.is_zero()) dd = Int(1); unsigned k = in.pick({3, 2, 2}); if (k == 1) dd = ref::pow2(in.range(0, 300)); if (k == 2) { n = ref::shl(n, in.range(0, 300)); }   // huge / tiny quotients
    Int g = ref::gcd(n, dd); if (!g.is_zero()) { n = ref::tdiv(n, g); dd = ref::tdiv(dd, g); } if (n.is_zero()) dd = Int(1);
    mpq_t q; mpq_init(q); mpz_from_int(mpq_numref(q), n); mpz_from_int(mpq_denref(q), dd); X = Ex{n, dd, 0}; opfit = n.bits() <= p && dd.bits() <= p; ci.nontrivial = !n.is_zero(); DESC(ci, "mpf_set_q q=" + show(n, 40) + "/" + show(dd, 40)); mpf_set_q(d.r.f, q); mpq_clear(q); }
  else if (f == 1) { Int z = gen_int(in, cap); if (in.flag()) z = ref::shl(z, 64 * in.range(0, 5)); mpz_t zz; mpz_init(zz); mpz_from_int(zz, z); X = Ex{z, Int(1), 0}; opfit = true; ci.nontrivial = !z.is_zero(); DESC(ci, "mpf_set_z z=" + show(z, 40)); mpf_set_z(d.r.f, zz); mpz_clear(zz); }
  else { uint64_t bits = in.u64(); unsigned dk = in.pick({3, 3, 2}); if (dk == 1) bits = (bits & 0x800fffffffffffffull) | ((uint64_t)in.range(1, 2046) << 52); if (dk == 2) { bits &= 0x800fffffffffffffull; if (in.flag()) bits &= ~0ull << in.range(0, 51); ci.label("set_d:subnormal"); } if (((bits >> 52) & 0x7ff) == 0x7ff) bits &= ~(1ull << 62); double dv; memcpy(&dv, &bits, 8); int ex; double m = std::frexp(dv, &ex); Int mant((long long)std::ldexp(m, 53)); X = Ex{mant, Int(1), (long)ex - 53}; if (mant.is_zero()) X.ex = 0; ci.nontrivial = dv != 0; ci.d("mpf_set_d d=%a ", dv); mpf_set_d(d.r.f, dv); }
  judge(names[f], d.r.f, X, p, opfit, ci); finish_dest(d);
}
// default-precision family: mpf_set_default_prec + mpf_init / mpf_init_set / _ui / _si / _d / _str / mpf_inits: the new variable gets
// at least the default precision and the value obeys the same accuracy / exactness rules
static void case_init_set(ByteSource& in, CaseInfo& ci) {
  unsigned f = in.pick({2, 2, 2, 2, 2, 1}); static const char* names[] = {"mpf_init_set", "mpf_init_set_ui", "mpf_init_set_si", "mpf_init_set_d", "mpf_init_set_str", "mpf_inits"}; ci.label(names[f]); ci.label("default_precision_family");
  uint64_t want = gen_prec(in); mpf_set_default_prec(want); uint64_t dp = mpf_get_default_prec(); REQUIRE(dp >= want, "mpf_get_default_prec() = %llu after mpf_set_default_prec(%llu)", (unsigned long long)dp, (unsigned long long)want);
  mpf_t x; Ex X; bool opfit = true; ci.nontrivial = true; ci.d("%s default_prec=%llu ", names[f], (unsigned long long)want);
  if (f == 0) { F a; uint64_t pa = gen_prec(in); gen_operand(in, a, pa, (long)in.srange(-2, 3), ci); X = Ex{a.v.m, Int(1), a.v.e}; opfit = fitsp(a.v, dp); mpf_init_set(x, a.f); }
  else if (f == 1) { uint64_t u = in.flag() ? in.u64() : in.range(0, 100); X = Ex{Int::from_u64(u), Int(1), 0}; mpf_init_set_ui(x, u); }
  else if (f == 2) { int64_t v = in.flag() ? (int64_t)in.u64() : in.srange(-100, 100); if (in.chance(20)) v = INT64_MIN; X = Ex{Int((long long)v), Int(1), 0}; mpf_init_set_si(x, v); }
  else if (f == 3) { uint64_t bits = in.u64(); if (in.chance(60)) bits &= 0x800fffffffffffffull; /* subnormal */ if (((bits >> 52) & 0x7ff) == 0x7ff) bits &= ~(1ull << 62); double dv; memcpy(&dv, &bits, 8); int ex; double m = std::frexp(dv, &ex); Int mant((long long)std::ldexp(m, 53)); X = Ex{mant, Int(1), (long)ex - 53}; if (mant.is_zero()) X.ex = 0; ci.d("d=%a ", dv); mpf_init_set_d(x, dv); }
  else if (f == 4) { long long iv = (long long)in.srange(-1000000000000ll, 1000000000000ll); unsigned sh = (unsigned)in.range(0, 40); std::string t = std::to_string(iv) + "e" + std::to_string(sh); Int num = Int(iv); for (unsigned i = 0; i < sh; i++) num = num * Int(10); X = Ex{num, Int(1), 0};
    int rc = mpf_init_set_str(x, t.c_str(), 10); REQUIRE(rc == 0, "mpf_init_set_str(\"%s\") returned %d", t.c_str(), rc); ci.d("str=%s ", t.c_str()); }
  else { mpf_t y; mpf_inits(x, y, (mpf_ptr)0); REQUIRE(mpf_get_prec(y) >= want && y->_mp_size == 0, "mpf_inits: second variable has precision %llu (default %llu) or is not zero", (unsigned long long)mpf_get_prec(y), (unsigned long long)want); mpf_clears(y, (mpf_ptr)0); X = Ex{Int(0), Int(1), 0}; }
  struct Clr { mpf_ptr p; ~Clr() { mpf_clear(p); } } clr{x};
  uint64_t p = mpf_get_prec(x); REQUIRE(p >= want, "%s: new variable has precision %llu, default precision is %llu", names[f], (unsigned long long)p, (unsigned long long)want);
  judge(names[f], x, X, p, opfit, ci);
}
static void case_exactfn(ByteSource& in, CaseInfo& ci) {
  unsigned f = in.pick({3, 3, 3, 2, 2, 3, 3}); static const char* names[] = {"mpf_floor", "mpf_ceil", "mpf_trunc", "mpf_neg", "mpf_abs", "mpf_mul_2exp", "mpf_div_2exp"}; ci.label(names[f]);
  F a, r; uint64_t pa = gen_prec(in); gen_operand(in, a, pa, (long)in.srange(-1, 4), ci);
  bool raw = pa > 64 && in.chance(50); if (raw) { uint64_t low = 64 * in.range(1, (pa + 63) / 64 - 1); a.lower_raw(low); r.mk(low); ci.label("operand_longer_than_prec_raw"); }
  else r.mk(pa);   // destination with the operand's precision: the result is then exactly representable
  bool inplace = in.flag(); struct AE { ~AE() { g_allow_excess = false; } } ae; g_allow_excess = raw && inplace; mpf_ptr o = inplace ? a.f : r.f; uint64_t sh = in.flag() ? in.range(0, 200) : (uint64_t[]){0, 1, 63, 64, 65, 128}[in.range(0, 5)];
  Dy e; const Dy& x = a.v; ci.nontrivial = !x.m.is_zero(); ci.d("%s shift=%llu ", names[f], (unsigned long long)sh); DESC(ci, "a=" + dshow(x));
  auto ipart = [&](int mode) { if (x.e >= 0) return Dy{x.m, x.e}; Int q = mode == 0 ? ref::fshr(x.m, -x.e) : mode == 2 ? ref::tshr(x.m, -x.e) : -ref::fshr(-x.m, -x.e); return Dy{q, 0}; };
  switch (f) { case 0: e = ipart(0); mpf_floor(o, a.f); break; case 1: e = ipart(1); mpf_ceil(o, a.f); break; case 2: e = ipart(2); mpf_trunc(o, a.f); break; case 3: e = dneg(x); mpf_neg(o, a.f); break; case 4: e = Dy{x.m.abs(), x.e}; mpf_abs(o, a.f); break;
    case 5: e = Dy{x.m, x.e + (long)sh}; mpf_mul_2exp(o, a.f, sh); break; default: e = Dy{x.m, x.e - (long)sh}; mpf_div_2exp(o, a.f, sh); break; }
  REQUIRE_FWF(o, names[f]); Dy g = read_mpf(o);
  if (raw) { Ex X{e.m, Int(1), e.e}; REQUIRE(close_enough(g, X, mpf_get_prec(o)), "%s (operand longer than the precision after mpf_set_prec_raw%s): error beyond the precision bound: got %s, exact %s", names[f], inplace ? ", in place" : "", dshow(g).c_str(), dshow(e).c_str()); if (!inplace) REQUIRE(deq(read_mpf(a.f), x), "%s: operand modified", names[f]); return; }
  // the exact result may need one bit more than prec+1 limbs hold only for *_2exp with a bit shift: compare after truncating the expectation to the limbs the destination may hold
  size_t maxlimbs = (size_t)o->_mp_prec + 1; Dy en = dnorm(e); if ((f == 5 || f == 6) && en.m.bits() > 64 * (maxlimbs - 1)) { ci.label("2exp:may_truncate"); Ex X{e.m, Int(1), e.e}; REQUIRE(close_enough(g, X, mpf_get_prec(o)), "%s: error beyond the precision bound", names[f]); }
  else if (!deq(g, e)) {
    // known finding: with a shift that is not a multiple of 64 only prec limbs of a (prec+1)-limb operand are used (by design, see the
    // comment in mpf/mul_2exp.c), so the lowest limb is dropped although the result would be representable
    bool kf = (f == 5 || f == 6) && sh % 64 != 0 && (size_t)std::abs(a.f->_mp_size == 0 ? 0 : (int)x.m.size()) > 0 && x.m.size() == maxlimbs && close_enough(g, Ex{e.m, Int(1), e.e}, mpf_get_prec(o));
    if (kf && is_known("mpf_2exp-drops-low-limb")) { ci.excluded.push_back("mpf_2exp-drops-low-limb"); return; }
    fail("%s: not exact on the stored value: got %s, expected %s", names[f], dshow(g).c_str(), dshow(e).c_str()); }
  if (!inplace) REQUIRE(deq(read_mpf(a.f), x), "%s: operand modified", names[f]);
}
static const char* ALPHA62 = "0123456789ABCDEFGHIJKLMNOPQRSTUVWXYZabcdefghijklmnopqrstuvwxyz";
static void case_set_str(ByteSource& in, CaseInfo& ci) {
  int base = (int)in.range(2, 62); if (in.chance(100)) base = in.flag() ? 10 : 16; bool decexp = in.chance(90); Dest d; gen_dest(in, d, ci); uint64_t p = d.p;
  size_t nint = (size_t)in.range(1, 30), nfr = in.flag() ? 0 : (size_t)in.range(1, 30); if (in.chance(40)) { nint = (size_t)in.range(1, 200); }
  bool tz = in.chance(50); if (tz) { nint = (size_t)in.range(1, 6); nfr = (size_t)in.range(1, 400); }   // a short number followed by a long fraction of zeros ("7.000...0"): the value is a small integer
  std::vector<unsigned> dig(nint + nfr); for (auto& x : dig) x = (unsigned)in.range(0, base - 1); if (in.chance(60)) for (size_t i = 0; i + 1 < nint; i++) dig[i] = 0;   // leading zeros
  if (tz) { size_t keep = in.flag() ? 0 : (size_t)in.range(0, std::min<size_t>(nfr, 3)); for (size_t i = nint + keep; i < nint + nfr; i++) dig[i] = 0; ci.label("set_str:long_zero_fraction"); }
  bool neg = in.flag(); long N = in.flag() ? 0 : (long)in.srange(-60, 60); bool hasexp = N != 0 || in.flag();
  auto dch = [&](unsigned v) { char c = ALPHA62[v]; if (base <= 36 && v >= 10) c = in.flag() ? (char)('a' + v - 10) : (char)('A' + v - 10); return c; };
  std::string s; if (in.chance(60)) s += ' '; if (neg) s += '-'; for (size_t i = 0; i < nint; i++) s += dch(dig[i]); if (nfr) { s += '.'; for (size_t i = 0; i < nfr; i++) s += dch(dig[nint + i]); }
  if (hasexp) { s += (base <= 10 && in.flag()) ? 'e' : '@'; long a = std::labs(N); std::string es; if (decexp) es = std::to_string(a); else { if (a == 0) es = "0"; while (a) { es.insert(es.begin(), dch((unsigned)(a % base))); a /= base; } } if (N < 0) s += '-'; s += es; }
  Int D = ref::from_digits(dig, base); if (neg) D = -D; long k = N - (long)nfr; Ex X; if (k >= 0) X = Ex{D * ref::pow(Int(base), k), Int(1), 0}; else X = Ex{D, ref::pow(Int(base), -k), 0};
  ci.label("mpf_set_str"); ci.nontrivial = !D.is_zero(); ci.d("mpf_set_str base=%d p=%llu str=\"%s\"", decexp ? -base : base, (unsigned long long)p, s.c_str());
  int rc = mpf_set_str(d.r.f, s.c_str(), decexp ? -base : base);
  REQUIRE(rc == 0, "mpf_set_str(base=%d) rejected the valid number \"%s\"", decexp ? -base : base, s.c_str());
  judge("mpf_set_str", d.r.f, X, p, true, ci); finish_dest(d);
}
static void case_get_str(ByteSource& in, CaseInfo& ci) {
  F a; uint64_t pa = gen_prec(in); long ec = (long)in.srange(-3, 4); if (in.chance(50)) { ec = (long)in.srange(-400, 400); ci.label("get_str:large_exponent"); } gen_operand(in, a, pa, ec, ci); if (in.chance(40) && a.f->_mp_size) { a.f->_mp_exp = ec; a.v = read_mpf(a.f); }   /* exponents of hundreds of limbs now and then: the error of the power computation grows with the exponent */
  int base = (int)in.range(2, 62); bool negb = base <= 36 && in.flag(); int b = negb ? -base : base;
  uint64_t carried = mpf_get_prec(a.f); size_t maxd = (size_t)std::floor((double)carried / std::log2((double)base)); if (maxd < 1) maxd = 1;
  size_t nd = in.chance(30) ? 0 : (size_t)in.range(1, maxd);      // never more digits than the precision carries
  if (nd && base == 10 && in.chance(60)) { static const size_t crit[] = {19, 38, 57, 77, 96}; size_t c = crit[in.range(0, 4)]; if (c <= maxd) nd = c; }   /* digit counts that need just under a whole number of limbs */
  ci.label("mpf_get_str"); ci.nontrivial = !a.v.m.is_zero(); ci.d("mpf_get_str base=%d n_digits=%zu ", b, nd); DESC(ci, "a=" + dshow(a.v));
  mp_exp_t ex = 777; std::string got; bool usebuf = nd > 0 && in.flag();
  if (usebuf) { char* buf = (char*)malloc(nd + 2); memset(buf, 0x55, nd + 2); char* r = mpf_get_str(buf, &ex, b, nd, a.f); REQUIRE(r == buf, "mpf_get_str: did not return the buffer"); got.assign(buf, strnlen(buf, nd + 2)); REQUIRE(got.size() < nd + 2, "mpf_get_str: no terminator within n_digits+2 bytes"); free(buf); }
  else { char* r = mpf_get_str(nullptr, &ex, b, nd, a.f); got = r; void (*fr)(void*, size_t); mp_get_memory_functions(nullptr, nullptr, &fr); fr(r, got.size() + 1); }
  REQUIRE(deq(read_mpf(a.f), a.v), "mpf_get_str: operand modified");
  if (a.v.m.is_zero()) { REQUIRE(got.empty() && ex == 0, "mpf_get_str(0): expected empty string and exponent 0, got \"%s\", %ld", got.c_str(), (long)ex); return; }
  bool neg = !got.empty() && got[0] == '-'; REQUIRE(neg == a.v.m.neg, "mpf_get_str: wrong sign"); std::string ds = got.substr(neg ? 1 : 0);
  REQUIRE(!ds.empty(), "mpf_get_str: no digits for a non-zero value"); if (nd) REQUIRE(ds.size() <= nd, "mpf_get_str: %zu digits produced, %zu requested", ds.size(), nd);
  REQUIRE(ds.back() != '0', "mpf_get_str: trailing zero returned");
  std::vector<unsigned> dv; for (char c : ds) { int v = (c >= '0' && c <= '9') ? c - '0' : (c >= 'A' && c <= 'Z') ? c - 'A' + 10 : (c >= 'a' && c <= 'z') ? (base > 36 ? c - 'a' + 36 : c - 'a' + 10) : 99; REQUIRE(v < base, "mpf_get_str: character '%c' is not a digit in base %d", c, base);
    if (base <= 36 && v >= 10) REQUIRE(negb ? (c >= 'A' && c <= 'Z') : (c >= 'a' && c <= 'z'), "mpf_get_str: wrong letter case for base %d", b); dv.push_back((unsigned)v); }
  if (nd == 0) { ci.label("get_str:all_digits"); return; }
  // |0.d1..dm * b^ex - x| <= b^(ex - nd): one unit of the last requested digit
  Int Dp = ref::from_digits(dv, base) * ref::pow(Int(base), nd - ds.size()); if (neg) Dp = -Dp; long s = (long)ex - (long)nd; Int L = ref::pow(Int(base), std::labs(s));
  Dy err, unit; if (s >= 0) { err = dadd(Dy{Dp * L, 0}, dneg(a.v)); unit = Dy{L, 0}; } else { err = dadd(Dy{Dp, 0}, dneg(Dy{a.v.m * L, a.v.e})); unit = Dy{Int(1), 0}; }
  if (dcmpabs(err, unit) > 0) {
    bool within2 = dcmpabs(err, Dy{unit.m + unit.m, unit.e}) <= 0;   // (the former known finding mpf_get_str-more-than-one-unit is repaired: nothing is excluded any more)
    fail("mpf_get_str(base=%d, n_digits=%zu): value of \"%s\" exp %ld is more than one unit of the last requested digit away from the operand%s", b, nd, got.c_str(), (long)ex, within2 ? " (error in (1,2] units)" : " (error > 2 units)");
  }
  if (ds.size() < nd) ci.label("get_str:fewer_digits_than_requested");
}
// deterministic reproductions of recorded findings
static void fixed_case(unsigned k, CaseInfo& ci) {
  if (k == 0) {   // mpf_mul_2exp by 1 bit of a (prec+1)-limb operand: exact result would be representable
    F a, r; a.mk(64); r.mk(64); a.f->_mp_d[0] = 2; a.f->_mp_d[1] = 0; a.f->_mp_d[2] = 1; a.f->_mp_size = 3; a.f->_mp_exp = -3; a.v = read_mpf(a.f);
    ci.desc = "mpf_mul_2exp(r, a, 1), prec 64 bits, a = " + dshow(a.v);
    mpf_mul_2exp(r.f, a.f, 1); Dy e{a.v.m, a.v.e + 1}, g = read_mpf(r.f);
    REQUIRE(deq(g, e), "mpf_mul_2exp: not exact on the stored value: got %s, expected %s", dshow(g).c_str(), dshow(e).c_str());
  }
  if (k == 1) {   // mpf_get_str: 22 digits in base 53 of (1 + 2^-63) * 2^-64: more than one unit of the last requested digit off
    F a; a.mk(640); for (int i = 0; i < 11; i++) a.f->_mp_d[i] = 0; a.f->_mp_d[10] = 1; a.f->_mp_d[9] = 2; a.f->_mp_d[7] = 0x7fffffffffffffffull; a.f->_mp_size = 11; a.f->_mp_exp = 0; a.v = read_mpf(a.f);
    ci.desc = "mpf_get_str(NULL, &e, 53, 22, a), a = " + dshow(a.v);
    mp_exp_t ex; char* r = mpf_get_str(nullptr, &ex, 53, 22, a.f); std::string ds = r; void (*fr)(void*, size_t); mp_get_memory_functions(nullptr, nullptr, &fr); fr(r, ds.size() + 1);
    std::vector<unsigned> dv; for (char c : ds) dv.push_back((c >= '0' && c <= '9') ? c - '0' : (c >= 'A' && c <= 'Z') ? c - 'A' + 10 : c - 'a' + 36);
    Int Dp = ref::from_digits(dv, 53) * ref::pow(Int(53), 22 - ds.size()); long s = (long)ex - 22; Int L = ref::pow(Int(53), std::labs(s));
    Dy err, unit; if (s >= 0) { err = dadd(Dy{Dp * L, 0}, dneg(a.v)); unit = Dy{L, 0}; } else { err = dadd(Dy{Dp, 0}, dneg(Dy{a.v.m * L, a.v.e})); unit = Dy{Int(1), 0}; }
    REQUIRE(dcmpabs(err, unit) <= 0, "mpf_get_str(base=53, n_digits=22): \"%s\" exp %ld is more than one unit of the last requested digit away from the operand", ds.c_str(), (long)ex);
  }
}
// mpf_sqrt at the ends of the exponent range: sqrt(u * B^(2k)) = sqrt(u) * B^k, and both computed roots are within the accuracy bound of the true one, so
// the root of the shifted operand, shifted back, must agree with the root of the unshifted one to 2^(3-p). The exponent field takes every value an mp_exp_t holds.
static void case_sqrt_exponent_extremes(ByteSource& in, CaseInfo& ci) {
  unsigned long prec = 64 * (unsigned long)in.range(1, 5); size_t n = (size_t)in.range(1, 6); Limbs l = limbs_nz(in, n); long e0 = (long)in.srange(-3, 3);
  static const long TG[] = {LONG_MAX, LONG_MAX - 1, LONG_MAX - 2, LONG_MIN, LONG_MIN + 1, LONG_MIN + 2, 1L << 62, -(1L << 62), (1L << 62) + 1, 1L << 40}; long target = TG[in.range(0, 9)];
  if (((target - e0) & 1) != 0) e0 += (e0 < 3) ? 1 : -1;   /* the shift must be an even number of limbs */
  long k = target / 2 - e0 / 2 + ((target % 2) - (e0 % 2)) / 2;   /* (target - e0) / 2 without overflow: both have the same parity */
  mpf_t u, r0, r1; mpf_init2(u, 64 * n); mpf_init2(r0, prec); mpf_init2(r1, prec); for (size_t i = 0; i < n; i++) u->_mp_d[i] = l[i]; u->_mp_size = (int)n; u->_mp_exp = e0;
  mpf_sqrt(r0, u); u->_mp_exp = target; mpf_sqrt(r1, u); ci.label("mpf_sqrt:exponent_extreme"); ci.nontrivial = true; ci.d("mpf_sqrt of %zu limbs with exponent %ld (and %ld), dest %lu bits", n, target, e0, prec);
  auto done = [&]() { mpf_clear(u); mpf_clear(r0); mpf_clear(r1); };
  int s0 = r0->_mp_size, s1 = r1->_mp_size; bool wf = s0 > 0 && s1 > 0 && r0->_mp_d[s0 - 1] != 0 && r1->_mp_d[s1 - 1] != 0 && s1 <= r1->_mp_prec + 1; long x0 = r0->_mp_exp, x1 = r1->_mp_exp;
  Int m0 = Int::from_limbs((const uint64_t*)r0->_mp_d, (size_t)std::max(s0, 0)), m1 = Int::from_limbs((const uint64_t*)r1->_mp_d, (size_t)std::max(s1, 0)); done();
  REQUIRE(wf, "mpf_sqrt(exponent %ld): result ill-formed or not positive (sizes %d, %d)", target, s0, s1);
  // value0 = m0 * B^(x0 - s0), value1 shifted back = m1 * B^(x1 - k - s1); x1 - k is near x0 when the exponent is right
  __int128 q0 = (__int128)x0 - s0, q1 = (__int128)x1 - k - s1; __int128 d = q1 - q0;
  REQUIRE(d > -40 && d < 40, "mpf_sqrt of a value with exponent %ld limbs: the root has exponent %ld, expected about %ld (root of the same mantissa with exponent %ld has %ld)", target, x1, x0 + k, e0, x0);
  Int a = d < 0 ? ref::shl(m0, 64 * (uint64_t)(-d)) : m0, b = d > 0 ? ref::shl(m1, 64 * (uint64_t)d) : m1; Int diff = (a - b).abs();
  REQUIRE(ref::shl(diff, prec > 3 ? prec - 3 : 0) <= a, "mpf_sqrt: the root of the operand with exponent %ld, shifted back, differs from the root with exponent %ld by more than 2^(3-p)", target, e0);
}
static void check(ByteSource& in, CaseInfo& ci) { if (in.chance(12)) { if (in.chance(100)) case_sqrt_exponent_extremes(in, ci); else case_init_set(in, ci); return; }   /* (the extra draw sits inside this branch so that saved regression inputs of the other classes keep their meaning) */ switch (in.pick({10, 3, 4, 4, 5})) { case 0: case_arith(in, ci); break; case 1: case_set(in, ci); break; case 2: case_exactfn(in, ci); break; case 3: case_set_str(in, ci); break; default: case_get_str(in, ci); break; } }
// ---- exhaustive sweep: operands of up to two limbs from {0,1,2^63-1,2^63,2^64-2,2^64-1} x exponents {-1,0,1,3} x signs, destination 64 or 128 bits ----
static void sweep_put(F& x, uint64_t idx, uint64_t prec_bits) {   // idx in [0, 36*4*2)
  Int m = palette_int(idx % 36, 2); long ex = (long[]){-1, 0, 1, 3}[(idx / 36) % 4]; bool neg = idx >= 144; x.mk(prec_bits); size_t n = m.m.size();
  for (size_t i = 0; i < n; i++) x.f->_mp_d[i] = m.m[i]; x.f->_mp_size = neg ? -(int)n : (int)n; x.f->_mp_exp = n ? ex : 0; for (size_t i = n; i < (size_t)x.f->_mp_prec + 1; i++) x.f->_mp_d[i] = 0xdeadbeefdeadbeefull; x.v = read_mpf(x.f);
}
static const uint64_t SWEEP_PAL = 288ull * 288ull * 2ull, SWEEP_DIVX = 7 * 3 * 5 * 2 * 4;
static uint64_t sweep_count() { return SWEEP_PAL + SWEEP_DIVX; }
// exact division on a dividend that is longer than its precision (legal after mpf_set_prec_raw): every relation between the dividend's size, the divisor's
// size and the precision around the point where mpf_div chops the dividend (usize = 2*prec + vsize + -2..2), in place and with a distinct destination;
// all operands and the quotient fit the precision, so the result must be exact
static void sweep_divx(uint64_t j, CaseInfo& ci) {
  uint64_t P = 2 + j % 7; j /= 7; size_t vn = 1 + (size_t)(j % 3); j /= 3; long dl = (long)(j % 5) - 2; j /= 5; bool inplace = j % 2; j /= 2; unsigned var = (unsigned)(j % 4);
  uint64_t pbits = 64 * (P - 1); size_t xn = (size_t)((long)(2 * P + vn) + dl);
  uint64_t v0 = var == 1 ? 0xfffffull : var == 2 ? 3 : 0x10001ull; Int q = var == 0 ? Int::from_u64((3ull << 32) + 1) : var == 1 ? ref::pow2(pbits - 22) + Int(1) : var == 2 ? ref::pow2(pbits - 2) - Int(1) : ref::pow2(pbits - 20) - ref::pow2(pbits / 2) + Int(7);
  if (P == 2 && var == 0) q = Int(0x30001);   // keep q*v0 within 64 bits
  Int xi = q * Int::from_u64(v0); size_t xl = xi.m.size(); if (xl > xn) return; F x, v, r; x.mk(64 * (xn + 1)); v.mk(64 * (vn + 1));
  for (size_t k = 0; k < xn; k++) x.f->_mp_d[k] = k < xn - xl ? 0 : xi.m[k - (xn - xl)]; x.f->_mp_size = (var & 1) ? -(int)xn : (int)xn; x.f->_mp_exp = 2;
  for (size_t k = 0; k < vn; k++) v.f->_mp_d[k] = k + 1 < vn ? 0 : v0; v.f->_mp_size = (int)vn; v.f->_mp_exp = 1;
  x.v = read_mpf(x.f); v.v = read_mpf(v.f); x.lower_raw(pbits); r.mk(pbits); REQUIRE((uint64_t)x.f->_mp_prec == P, "harness: precision after mpf_set_prec_raw is %d limbs, expected %llu", x.f->_mp_prec, (unsigned long long)P);
  ci.d("mpf_div(%s) prec %llu limbs, dividend %zu limbs (low %zu zero), divisor %zu limbs: x=%s v=%s", inplace ? "x,x,v" : "r,x,v", (unsigned long long)P, xn, xn - xl, vn, dshow(x.v).c_str(), dshow(v.v).c_str());
  mpf_ptr o = inplace ? x.f : r.f; Dy x0 = x.v; mpf_div(o, x.f, v.f); REQUIRE_FWF(o, "mpf_div"); Dy g = read_mpf(o);
  REQUIRE(deq(dmul(g, v.v), x0), "mpf_div (%s, dividend of %zu limbs at a precision of %llu limbs, divisor of %zu limbs): operands and quotient fit the precision but the result is not exact: got %s", inplace ? "in place" : "distinct destination", xn, (unsigned long long)P, vn, dshow(g).c_str());
  if (!inplace) REQUIRE(deq(read_mpf(x.f), x0), "mpf_div: dividend modified");
}
static void sweep_item(uint64_t i, CaseInfo& ci) {
  if (i >= SWEEP_PAL) { sweep_divx(i - SWEEP_PAL, ci); return; }
  uint64_t ia = i % 288, ib = (i / 288) % 288; uint64_t p = (i / (288 * 288)) ? 128 : 64; F a, b, r; sweep_put(a, ia, 128); sweep_put(b, ib, 128); r.mk(p); uint64_t pp = mpf_get_prec(r.f);
  ci.d("a=%s b=%s dest %llu bits", dshow(a.v).c_str(), dshow(b.v).c_str(), (unsigned long long)p); bool fit = fitsp(a.v, pp) && fitsp(b.v, pp);
  { Dy e = dadd(a.v, b.v); mpf_add(r.f, a.f, b.f); judge("mpf_add", r.f, Ex{e.m, Int(1), e.e}, pp, fit, ci); }
  { Dy e = dadd(a.v, dneg(b.v)); mpf_sub(r.f, a.f, b.f); judge("mpf_sub", r.f, Ex{e.m, Int(1), e.e}, pp, fit, ci); }
  { Dy e = dmul(a.v, b.v); mpf_mul(r.f, a.f, b.f); judge("mpf_mul", r.f, Ex{e.m, Int(1), e.e}, pp, fit, ci); }
  if (!b.v.m.is_zero()) { Int n = a.v.m, d = b.v.m; if (d.neg) { n = -n; d = -d; } mpf_div(r.f, a.f, b.f); judge("mpf_div", r.f, Ex{n, d, a.v.e - b.v.e}, pp, fit, ci); }
  if (ib < 6) { uint64_t u = PAL6[ib]; Dy U{Int::from_u64(u), 0}; bool f2 = fitsp(a.v, pp) && fitsp(U, pp);
    { Dy e = dadd(a.v, U); mpf_add_ui(r.f, a.f, u); judge("mpf_add_ui", r.f, Ex{e.m, Int(1), e.e}, pp, f2, ci); } { Dy e = dadd(a.v, dneg(U)); mpf_sub_ui(r.f, a.f, u); judge("mpf_sub_ui", r.f, Ex{e.m, Int(1), e.e}, pp, f2, ci); }
    { Dy e = dadd(U, dneg(a.v)); mpf_ui_sub(r.f, u, a.f); judge("mpf_ui_sub", r.f, Ex{e.m, Int(1), e.e}, pp, f2, ci); } { Dy e = dmul(a.v, U); mpf_mul_ui(r.f, a.f, u); judge("mpf_mul_ui", r.f, Ex{e.m, Int(1), e.e}, pp, f2, ci); }
    if (u) { mpf_div_ui(r.f, a.f, u); judge("mpf_div_ui", r.f, Ex{a.v.m, Int::from_u64(u), a.v.e}, pp, f2, ci); } if (!a.v.m.is_zero()) { Int n = Int::from_u64(u), d = a.v.m; if (d.neg) { n = -n; d = -d; } mpf_ui_div(r.f, u, a.f); judge("mpf_ui_div", r.f, Ex{n, d, -a.v.e}, pp, f2, ci); } }
}
namespace eng {
PropDef g_prop = {"C13",
  "Cases: one call of mpf_add/sub/mul/div/sqrt and their _ui forms, mpf_set_q/set_z/set_d, mpf_set_str, the default-precision family (mpf_set_default_prec then mpf_init_set/_ui/_si/_d/_str, mpf_inits: precision >= default, same value rules), mpf_floor/ceil/trunc/neg/abs/mul_2exp/div_2exp, mpf_get_str. Destination precision 1..2000 bits chosen independently of the operand precisions (shorter and longer), reached directly, through mpf_set_prec after another value, or through mpf_set_prec_raw (restored afterwards); the destination may alias an operand; operands are built limb by limb (up to prec+1 limbs, low zero limbs, all ones, single bit), with exponent relations no overlap / partial / full / far apart and nearly cancelling pairs for add/sub. Oracle: an mpf value is the exact dyadic rational mantissa*2^(64*(exp-size)) in refint; with p = mpf_get_prec(rop): |result-exact| < 2^(2-p)*|exact| (sqrt by squaring both bounds), result == exact whenever the operands and the exact value each fit in p bits, exact functions compared exactly, mpf_get_str: at most n_digits digits, no trailing zeros, right alphabet, value within one unit of the last requested digit (n_digits never exceeds what the precision carries); the format rules (|size| <= prec+1, top limb non-zero, zero has exponent 0) after every call. Non-trivial: non-zero first operand. Distinct = hash of all decoded choices.",
  check, nullptr, {"exact_clause", "bound_clause", "result_truncated", "near_cancellation", "ui_operand_nearly_cancels", "x+1|000_minus_x|fff", "exponents_far_apart", "low_zero_limbs", "set_str:long_zero_fraction", "operand_longer_than_prec_raw", "dest:set_prec", "dest:set_prec_raw", "dest_aliases_operand", "get_str:fewer_digits_than_requested", "get_str:large_exponent"}, fixed_case, sweep_count, sweep_item,
  "every pair of mpf operands with a mantissa of up to two limbs from {0,1,2^63-1,2^63,2^64-2,2^64-1}, exponent in {-1,0,1,3} limbs and either sign (288 x 288), into a 64-bit and a 128-bit destination: mpf_add, sub, mul, div; with the six palette values as unsigned long: add_ui, sub_ui, ui_sub, mul_ui, div_ui, ui_div (2^(2-p) bound, exactness clause, format rules)"};
}
