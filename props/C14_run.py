"""C14 runner: results independent of CPU-specific kernels, tuning tables and build options.
 layer 1  kernel differential (props/C14/kerneldiff.py): every mpn/x86_64/** kernel vs the portable C routine
 layer 2  tuning tables: the numeric battery (C01 C02 C03 C06 C07 C08 C09 C10 check functions, refint oracle) against
          builds of the tree compiled with each shipped gmp-mparam.h
 layer 3  build options / CPU paths: the same battery against real configure runs (--enable-fat, --enable-alloca=...,
          --enable-assert, --build=<cpu>-unknown-linux-gnu)
"""
import os, sys, json, subprocess, time, shutil, glob, hashlib, re
from concurrent.futures import ThreadPoolExecutor

BATTERY = ["C01", "C02", "C03", "C06", "C07", "C08", "C09", "C10"]
# configure variants (assertions, temporary-memory modes, fat, per-CPU builds) change every function, not only the mpn layer: they also run the
# rational / float / number-theory / conversion / formatted-I/O properties (an --enable-assert build must not abort where the default build is right)
BATTERY_CFG = BATTERY + ["C11", "C12", "C13", "C16", "C17", "C18"]
CPUS = ["k8", "k10", "k102", "bulldozer", "piledriver", "bobcat", "core2", "penryn", "nehalem", "westmere", "sandybridge", "ivybridge", "haswell", "broadwell", "skylake", "atom", "netburst"]

def tables(repo):
    t = []
    for f in sorted(glob.glob(os.path.join(repo, "mpn/x86_64/**/gmp-mparam.h"), recursive=True)):
        d = os.path.relpath(os.path.dirname(f), os.path.join(repo, "mpn/x86_64"))
        if d == "fat": continue          # the fat table is exercised by the cfg-fat build itself
        t.append("mparam-" + ("base" if d == "." else d.replace("/", "_")))
    return t

def build_variant(chk, v, jobs):
    env = dict(os.environ, VERIF_REPO=chk.REPO, VERIF_JOBS=str(jobs))
    r = subprocess.run([os.path.join(chk.ROOT, "build/mkvariant.sh"), v], capture_output=True, text=True, env=env)
    if r.returncode != 0: return v, None, (r.stdout + r.stderr)[-1500:]
    return v, r.stdout.strip().splitlines()[-1], ""

def link_flags(v): return "-no-pie" if v == "cfg-fat" else ""

def battery(chk, v, vdir, props, seed, cases, scale, tag):
    """run the battery against one variant; returns (rc, stats, replay_path, message)"""
    stats = {"evaluations": 0, "distinct_nontrivial": 0, "per_property": {}}
    def bld(p): return p, chk.build_prop(p, vdir, "plain", extra_flags=link_flags(v))
    with ThreadPoolExecutor(max_workers=8) as ex: exes = dict(ex.map(bld, props))
    for p in props:
        if not exes[p]: return 2, stats, None, f"cannot build {p} against {v}"
    for p in props:
        rd = f"/var/tmp/verif-c14.{os.getpid()}.{v}.{p}"
        shutil.rmtree(rd, ignore_errors=True)
        known = [k["id"] for k in chk.load_known() if k["property"] == p and k["status"] == "known"]
        cmd = [exes[p], "--seed", str(seed), "--cases", str(cases), "--workers", str(chk.NPROC), "--max-scale", str(scale), "--rundir", rd, "--timeout", "3000"]
        if known: cmd += ["--known", ",".join(known)]
        subprocess.run(cmd, env=chk.run_env(), capture_output=True, text=True)
        try: res = json.load(open(os.path.join(rd, "result.json")))
        except Exception as e: res = {"status": "harness_fault", "reason": str(e)}
        if res.get("status") == "violation":
            d = os.path.join(os.environ.get("VERIF_REPLAY_DIR", os.path.join(chk.ROOT, "replays")), "C14"); os.makedirs(d, exist_ok=True)
            dst = os.path.join(d, f"{v}__{p}__{tag}.bin"); shutil.copyfile(os.path.join(rd, "replay.bin"), dst)
            if os.path.exists(os.path.join(rd, "replay.txt")): shutil.copyfile(os.path.join(rd, "replay.txt"), dst[:-4] + ".txt")
            shutil.rmtree(rd, ignore_errors=True)
            return 1, stats, dst, f"build variant {v}: {p} check failed: {res.get('message', '')[:400]}"
        if res.get("status") not in ("ok", "generator_fault"):   # missing required labels are irrelevant for the reduced battery
            shutil.rmtree(rd, ignore_errors=True)
            return 2, stats, None, f"build variant {v}: {p}: {res.get('status')} {res.get('reason', '')}"
        stats["evaluations"] += res["evaluations"]; stats["distinct_nontrivial"] += res["distinct_nontrivial"]
        stats["per_property"][p] = res["evaluations"]
        stats.setdefault("sample", res["samples"][:1])
        shutil.rmtree(rd, ignore_errors=True)
    return 0, stats, None, ""

def host_path_suffixes(chk):
    """kernel-directory suffixes allowed on this host: path_64 that the tree's configure.ac gives for the CPU
    name printed by the tree's config.guess (independent of mpn/x86_64/fat/fat.c's run-time choice)"""
    g = subprocess.run([os.path.join(chk.REPO, "config.guess")], capture_output=True, text=True).stdout.strip()
    cpu = g.split("-")[0]
    txt = open(os.path.join(chk.REPO, "configure.ac")).read().splitlines()
    path = None
    for i, l in enumerate(txt):
        if re.match(r"\s*%s-\*-\*\)" % re.escape(cpu), l):
            m = re.search(r'path_64="([^"]*)"', txt[i + 1]) if i + 1 < len(txt) else None
            if m and "x86_64w" not in m.group(1): path = m.group(1).split()
    if path is None: path = ["x86_64"]
    suf = set()
    for d in path:
        rest = d[len("x86_64"):].strip("/")
        suf.add(rest.replace("/", "_") if rest else "x86_64")
    # independent necessary condition from /proc/cpuinfo (config.guess shares cpuid.c with the fat dispatcher):
    # an Intel host never gets AMD kernel directories and vice versa; AVX directories need the avx2 flag
    amd = {"k8", "k8_k8only", "k8_k10", "k8_k10_k102", "bulldozer", "bulldozer_piledriver", "bobcat"}
    intel = {"core2", "core2_penryn", "nehalem", "nehalem_westmere", "sandybridge", "sandybridge_ivybridge", "haswell", "haswell_avx", "haswell_broadwell", "skylake", "skylake_avx", "atom", "netburst"}
    try:
        ci = open("/proc/cpuinfo").read(); vendor = re.search(r"vendor_id\s*:\s*(\S+)", ci).group(1); flags = set(re.search(r"flags\s*:\s*(.*)", ci).group(1).split())
        if vendor == "GenuineIntel": suf -= amd
        elif vendor == "AuthenticAMD": suf -= intel
        if "avx2" not in flags: suf -= {"haswell_avx", "skylake_avx"}
        if "adx" not in flags: suf -= {"haswell_broadwell", "skylake_avx"}
    except Exception: pass
    return cpu, suf | {"fat", "x86_64"}

def fat_dispatch_check(chk, vdir):
    """fat build: after initialisation every entry of __gmpn_cpuvec must point to a kernel of a directory on the host CPU's path."""
    src = os.path.join(chk.ROOT, "props", "C14", "fatvec.c")
    exe = os.path.join(vdir, "bin", "fatvec"); os.makedirs(os.path.dirname(exe), exist_ok=True)
    r = subprocess.run(f"gcc -O1 -no-pie -I{vdir} -o {exe} {src} {vdir}/libmpir.a", shell=True, capture_output=True, text=True)
    if r.returncode: return {"status": "harness_fault", "msg": r.stderr[-400:]}
    nm = subprocess.run(["nm", "-S", exe], capture_output=True, text=True).stdout
    syms = {}; size = 0
    for l in nm.splitlines():
        f = l.split()
        if len(f) == 4 and f[3] == "__gmpn_cpuvec": size = int(f[1], 16)
        if len(f) >= 3 and f[-2] in "Tt": syms.setdefault(int(f[0], 16), []).append(f[-1])
    if not size: return {"status": "harness_fault", "msg": "no __gmpn_cpuvec symbol"}
    out = subprocess.run([exe, str(size)], capture_output=True, text=True).stdout
    cpu, allowed = host_path_suffixes(chk)
    chosen = {}; bad = []
    for l in out.splitlines():
        idx, ptr = l.split(); a = int(ptr, 16) if ptr != "(nil)" else 0
        names = [n for n in syms.get(a, []) if n.startswith("__gmpn_")]
        if not names: continue
        # __gmpn_<func>_<suffix>; the suffix is the directory (with '/' -> '_')
        ok = False; desc = names[0]
        for n in names:
            for sfx in sorted(allowed, key=len, reverse=True):
                if n.endswith("_" + sfx): ok = True; chosen[sfx] = chosen.get(sfx, 0) + 1; break
            if ok: break
        if not ok: bad.append(desc)
    msg = f"host cpu (config.guess) = {cpu}; allowed directory suffixes = {sorted(allowed)}; entries by suffix = {chosen}; entries outside the host path = {bad}"
    return {"status": "violation" if bad else "ok", "msg": msg, "entries_resolved": sum(chosen.values())}

def run(chk, pid, tier, seed, replay):
    t0 = time.time()
    kd = os.path.join(chk.ROOT, "props", "C14", "kerneldiff.py")
    env = dict(os.environ); env.setdefault("VERIF_REPLAY_DIR", os.path.join(chk.ROOT, "replays"))
    if replay:
        if replay.endswith(".json"):
            return subprocess.run([sys.executable, kd, "--repo", chk.REPO, "--tier", tier, "--seed", str(seed), "--out", "/var/tmp/c14-replay.json", "--replay", replay], env=env).returncode
        m = re.match(r"(.+?)__(C\d+)__", os.path.basename(replay))
        if not m: print("cannot tell variant/property from the replay file name"); return 2
        v, p = m.group(1), m.group(2)
        _, vdir, err = build_variant(chk, v, 16)
        if not vdir: print("HARNESS-FAULT:", err); return 2
        exe = chk.build_prop(p, vdir, "plain", extra_flags=link_flags(v))
        return subprocess.run([exe, "--replay", replay], env=chk.run_env()).returncode
    props = [p for p in BATTERY if os.path.exists(os.path.join(chk.ROOT, "props", p + ".cc"))]
    cov = {"layers": {}}; total_eval = 0; total_distinct = 0; samples = []
    # ---- layer 1 -------------------------------------------------------------------------------------
    out = f"/var/tmp/verif-c14.{os.getpid()}.kern.json"
    r = subprocess.run([sys.executable, kd, "--repo", chk.REPO, "--tier", tier, "--seed", str(seed), "--out", out], env=env, capture_output=True, text=True)
    try: kres = json.load(open(out)); os.remove(out)
    except Exception as e: print(f"HARNESS-FAULT property={pid}: kernel differential produced no result ({e}) {r.stderr[-400:]}"); return 2
    for f in kres.get("known_findings", []) if isinstance(kres.get("known_findings"), list) else []:
        print(f"KNOWN-FINDING: property={pid} {f}")
    if kres.get("abi_known_line"): print(f"KNOWN-FINDING: property={pid} {kres['abi_known_line']}")
    if kres.get("abi_known_not_reproduced"): print(f"NOTE: declared ABI finding no longer reproduces for {kres['abi_known_not_reproduced']}")
    if kres.get("status") == "violation":
        print(f"VIOLATION property={pid} replay={kres.get('replay')}"); print("  " + str(kres.get("message"))[:500])
        chk.write_evidence(pid, tier, seed, time.time() - t0, {"evaluations": max(1, kres.get("evaluations", 1)), "distinct_nontrivial": kres.get("distinct_nontrivial", 0), "rule": "kernel differential stopped at a mismatch", "samples": [str(kres.get("message"))[:500]]}, 1, ASSUME)
        return 1
    if kres.get("status") != "ok":
        print(f"HARNESS-FAULT property={pid}: kernel differential: {kres.get('status')} {str(kres.get('message'))[:400]} not_assembled={kres.get('not_assembled')}"); return 2
    cov["layers"]["kernel_differential"] = {k: kres.get(k) for k in ("evaluations", "distinct_nontrivial", "kernels_assembled", "kernels_tested", "entry_points", "not_assembled", "no_reference", "skipped_sigill", "labels", "known_findings", "known_findings_not_reproduced", "abi_pass_calls", "abi_known_reproduced", "abi_known_not_reproduced")}
    total_eval += kres["evaluations"]; total_distinct += kres["distinct_nontrivial"]; samples += kres.get("samples", [])[:4]
    # ---- layers 2 and 3 ---------------------------------------------------------------------------------
    tabs = tables(chk.REPO)
    if tier == "quick":
        h = int(hashlib.sha1(str(seed).encode()).hexdigest(), 16)
        # the two tables with the lowest crossovers (netburst: HGCD_REDUCE 45, tiny Toom/FFT/division thresholds; haswell: HGCD_REDUCE 772) make the
        # code behind the large thresholds reachable at quick-tier sizes; a third table rotates with the seed
        fixed = [t for t in ("mparam-netburst", "mparam-haswell") if t in tabs]; rest = [t for t in tabs if t not in fixed]
        tabs = fixed + ([rest[h % len(rest)]] if rest else [])
        cfgs = ["cfg-fat", "cfg-alloca-debug-assert"]
        cases, scale = 15000, 100
    else:
        cfgs = ["cfg-fat", "cfg-alloca-debug-assert", "cfg-alloca-malloc-reentrant", "cfg-alloca-alloca"] + ["cfg-cpu-" + c for c in CPUS]
        cases, scale = 30000, 110
    variants = tabs + cfgs
    built = {}
    with ThreadPoolExecutor(max_workers=3) as ex:
        for v, vdir, err in ex.map(lambda v: build_variant(chk, v, 6), variants):
            if not vdir:
                print(f"HARNESS-FAULT property={pid}: cannot build {v} from {chk.REPO}: {err[-600:]}"); return 2
            built[v] = vdir
    cov["layers"]["tuning_tables"] = {"tables_total_in_tree": len(tables(chk.REPO)), "tables_run": tabs, "battery": props, "cases_per_property": cases}
    cov["layers"]["build_options"] = {"configure_variants_run": cfgs, "battery": BATTERY_CFG, "cases_per_property": cases}
    per_variant = {}
    for v in variants:
        vprops = [p for p in (BATTERY_CFG if v.startswith("cfg-") else BATTERY) if os.path.exists(os.path.join(chk.ROOT, "props", p + ".cc"))]
        rc, st, rp, msg = battery(chk, v, built[v], vprops, seed, cases, scale, f"{tier}-seed{seed}")
        if rc == 1:
            print(f"VIOLATION property={pid} replay={rp}"); print("  " + msg)
            chk.write_evidence(pid, tier, seed, time.time() - t0, {"evaluations": total_eval + st["evaluations"] + 1, "distinct_nontrivial": total_distinct, "rule": "stopped at the first violation", "samples": [msg]}, 1, ASSUME)
            return 1
        if rc != 0: print(f"HARNESS-FAULT property={pid}: {msg}"); return 2
        per_variant[v] = st["per_property"]; total_eval += st["evaluations"]; total_distinct += st["distinct_nontrivial"]
        if len(samples) < 8 and st.get("sample"): samples.append(f"[{v}] " + st["sample"][0])
    cov["layers"]["battery_evaluations_per_variant"] = per_variant
    if "cfg-fat" in built:
        fv = fat_dispatch_check(chk, built["cfg-fat"])
        if fv is not None:
            cov["layers"]["fat_dispatch"] = fv
            if fv["status"] == "violation":
                print(f"VIOLATION property={pid} replay={os.path.join(chk.ROOT, 'props/C14/fatvec.c')}"); print("  fat dispatch: " + fv["msg"][-400:])
                chk.write_evidence(pid, tier, seed, time.time() - t0, {"evaluations": total_eval, "distinct_nontrivial": total_distinct, "rule": "fat dispatch table check failed", "samples": [fv["msg"][-400:]]}, 1, ASSUME); return 1
    rule = ("Layer 1: every assembly file under mpn/x86_64/** is assembled standalone and each exported entry point is called on generated operands (all n up to 64 densely, log-uniform beyond, both 16-byte alignments, permitted overlaps, carry-in variants, limb styles) "
            "and compared bitwise with the portable C routine of the same name compiled from the tree (and with tests/refmpn.c and an independent __int128 restatement). "
            "Layers 2/3: the numeric battery (the C01 C02 C03 C06 C07 C08 C09 C10 check functions with the refint oracle) is run against builds of the tree with each selected shipped gmp-mparam.h and against real configure runs with the listed options. "
            "evaluations = kernel calls compared + battery cases; distinct_nontrivial = distinct (kernel, n>=2, input hash) cases + distinct non-trivial battery cases (hash of decoded case) summed over variants.")
    cov.update({"evaluations": total_eval, "distinct_nontrivial": total_distinct, "rule": rule, "samples": samples, "exhaustive": False})
    chk.write_evidence(pid, tier, seed, time.time() - t0, cov, 0, ASSUME)
    print(f"OK property={pid} tier={tier} seed={seed} kernels={kres.get('kernels_tested')} tables={len(tabs)} configure_variants={len(cfgs)} evaluations={total_eval} wall={time.time()-t0:.0f}s")
    return 0

ASSUME = ["kernels are executed on this host's micro-architecture only (a kernel that misbehaves only on its native CPU is out of reach)",
          "refint / tests/refmpn.c restatements are correct (cross-checked with each other and with the generic C)",
          "only the shipped threshold vectors are used (random vectors would need validity constraints known only to tune/tuneup.c)"]
