// C07: GCD, extended GCD, LCM, modular inverse and Jacobi/Kronecker symbols
#include "../harness/gen.hpp"
#include "../harness/thresholds.hpp"
using namespace eng; using namespace gen; using ref::Int;

struct Z { mpz_t z; Z() { mpz_init(z); } ~Z() { mpz_clear(z); } operator mpz_ptr() { return z; } };
static size_t cap_limbs(unsigned scale) { return expcap(scale, 4, 3000); }

// Coprime pair (x >= y >= 0) with a chosen quotient sequence, by running the Euclidean
// recurrence backwards from (1,0): r[i-1] = q[i]*r[i] + r[i+1].
static void coprime_by_quotients(ByteSource& in, size_t target_limbs, Int& x, Int& y, CaseInfo& ci) {
  unsigned style = in.pick({4, 3, 2, 2});   // mixed, fibonacci-like (all ones), one huge partial quotient, small quotients
  if ((style == 1 || style == 3) && target_limbs > 260) style = 0;   // cost O(steps * limbs)
  Int hi(1), lo(0); uint64_t k = in.u64(); size_t steps = 0; bool huge_done = false;
  while (hi.size() < target_limbs || steps == 0) {
    k = eng::mix64(k + steps); Int q;
    if (style == 1) q = Int(1 + (int)((k & 63) == 0));                     // long runs of quotient 1
    else if (style == 3) q = Int(1 + (long long)(k % 5));
    else if (style == 2 && !huge_done && hi.size() * 2 >= target_limbs) { size_t n = (size_t)in.range(1, 4); Limbs v = limbs_nz(in, n, in.flag() ? S_ALLONES : S_UNIFORM); q = Int::from_limbs(v.data(), n); huge_done = true; ci.label("huge_partial_quotient"); }
    else { unsigned b = 1 + (unsigned)(eng::mix64(k) % 64); uint64_t v = b == 64 ? k : (k & ((1ull << b) - 1)); if ((k >> 60) == 0) v = ~0ull >> (k & 7); if (v == 0) v = 1; q = Int::from_u64(v); }
    Int nx = q * hi + lo; lo = hi; hi = nx; steps++;
    if (steps > 400000) break;
  }
  if (style == 1) ci.label("fib_like");
  x = hi; y = lo;
}
struct Pair { Int a, b, g; bool g_known; };
static Pair gen_pair(ByteSource& in, CaseInfo& ci, size_t cap = 0) {
  if (!cap) cap = cap_limbs(in.scale);
  Pair p; p.g_known = true;
  size_t n = size_near(in, 1, cap, {HGCD_THRESHOLD, HGCD_APPR_THRESHOLD, GCDEXT_DC_THRESHOLD, GCD_DC_THRESHOLD, 2, 3, 2 * HGCD_THRESHOLD});
  unsigned k = in.pick({6, 4, 2, 2, 2, 1, 1, 2, 2});
  Int g(1);
  { unsigned gk = in.pick({4, 2, 2, 2}); if (gk == 1) g = ref::pow2(in.range(0, 64 * std::min<size_t>(n, 8))); else if (gk == 2) { Limbs v = limbs_nz(in, (size_t)in.logrange(1, std::max<size_t>(1, n / 2))); g = Int::from_limbs(v.data(), v.size()); ci.label("planted_big_g"); } else if (gk == 3) g = Int::from_u64(in.range(1, 1000)); }
  switch (k) {
    case 0: { size_t t = n > g.size() ? n - g.size() + 1 : 1; Int x, y; coprime_by_quotients(in, t, x, y, ci); p.a = x * g; p.b = y * g; p.g = g; if (in.flag()) std::swap(p.a, p.b); break; }
    case 1: { // arbitrary operands of (possibly) very different sizes; gcd by refint Euclid when affordable
      size_t n2 = in.flag() ? n : (size_t)in.logrange(1, n); Limbs u = limbs_nz(in, n), v = limbs_nz(in, n2); p.a = Int::from_limbs(u.data(), n) * g; p.b = Int::from_limbs(v.data(), n2) * g;
      if (std::max(p.a.size(), p.b.size()) <= 260) p.g = ref::gcd(p.a, p.b); else p.g_known = false; if (in.flag()) std::swap(p.a, p.b); ci.label("random_pair"); break; }
    case 2: { Limbs u = limbs_nz(in, n); p.a = Int::from_limbs(u.data(), n); p.b = p.a; p.g = p.a; ci.label("a_eq_b"); break; }
    case 3: { Limbs u = limbs_nz(in, (size_t)in.logrange(1, n)); Int d = Int::from_limbs(u.data(), u.size()); Int m = gen_int(in, std::max<size_t>(1, n / 2), false); if (m.is_zero()) m = Int(3); p.b = d; p.a = d * m; p.g = d; ci.label("b_divides_a"); if (in.flag()) std::swap(p.a, p.b); break; }
    case 4: { Limbs u = limbs_nz(in, (size_t)in.logrange(1, n)); Int d = Int::from_limbs(u.data(), u.size()); Int m = gen_int(in, std::max<size_t>(1, n / 2), false); m = m + m + Int(1); p.b = d + d; p.a = d * m; p.g = d; ci.label("b_eq_2g"); if (in.flag()) std::swap(p.a, p.b); break; }   // |b| = 2g, a odd multiple of g
    case 5: { Limbs u = limbs(in, n); p.a = Int::from_limbs(u.data(), n); p.b = Int(0); p.g = p.a; ci.label("one_zero"); if (in.flag()) std::swap(p.a, p.b); if (in.chance(40)) { p.a = Int(0); p.b = Int(0); p.g = Int(0); } break; }
    case 7: { // congruent modulo B^j: equal low limbs, so that subtraction steps leave whole zero limbs
      Limbs u = limbs_nz(in, n); p.a = Int::from_limbs(u.data(), n); size_t j = in.flag() ? 1 : (size_t)in.range(1, n); Int c = in.flag() ? Int::from_u64(in.range(1, 40)) : gen_int(in, std::max<size_t>(1, n - j + 1), false); if (c.is_zero()) c = Int(2);
      p.b = p.a + ref::shl(c, 64 * j); if (std::max(p.a.size(), p.b.size()) <= 260) p.g = ref::gcd(p.a, p.b); else p.g_known = false; if (in.flag()) std::swap(p.a, p.b); ci.label("equal_low_limbs"); break; }
    case 8: { // one big quotient followed by a remainder that is a limb shorter than the divisor: a = B^(an-1) + low (top limb 1, then zeros), r just below B^(an-1), b = q*a + r;
      // optionally presented as (b*B^j + a, b), whose first division step is exact up to a
      size_t qn = std::max<size_t>(1, in.flag() ? n / 7 + (size_t)in.range(0, 3) : (size_t)in.range(1, std::max<size_t>(1, n / 2))); size_t an = n > qn + 2 ? n - qn : 3;
      Int low = gen_int(in, std::max<size_t>(1, an / 2), false), low2 = gen_int(in, std::max<size_t>(1, an / 2), false); Int a = ref::pow2(64 * (an - 1)) + low, r = ref::pow2(64 * (an - 1)) - Int(1) - low2; if (r.neg) r = Int(1);
      Limbs qv = limbs_nz(in, qn); Int q = Int::from_limbs(qv.data(), qn); Int b = q * a + r; bool gk8 = false; Int e8;
      if (an >= 10 && in.flag()) {   // the same shape with a huge common factor e (so that the remainder sequence ends at once): a = e*(y+1), r = e*y, y = floor((B^(an-1) - 1)/e) a few limbs long
        size_t en = an - 1 - (in.flag() ? (size_t)in.range(1, std::min<size_t>(4, an - 3)) : (size_t)in.range(1, std::max<size_t>(1, std::min<size_t>(an / 6 + 1, an - 3)))); if (en < 2 || en > an - 2) en = an - 2; /* y = (an-1-en) limbs: a few, or up to a sixth of the operand */ Limbs ev = limbs_nz(in, en); ev[0] |= 1; ev[en - 1] |= 1ull << 63; e8 = Int::from_limbs(ev.data(), en);
        Int y = ref::tdiv(ref::pow2(64 * (an - 1)) - Int(1), e8); if (y.is_odd()) y = y - Int(1); if (y.sgn() > 0) { r = e8 * y; a = r + e8; q.m[0] |= 1; b = q * a + r; gk8 = true; ci.label("big_quotient_then_short_remainder:huge_gcd"); } }
      if (in.flag()) { p.a = ref::shl(b, 64 * (size_t)in.range(1, 3)) + a; p.b = b; } else { p.a = b; p.b = a; }
      if (gk8) p.g = e8; else if (std::max(p.a.size(), p.b.size()) <= 260) p.g = ref::gcd(p.a, p.b); else p.g_known = false; if (in.flag()) std::swap(p.a, p.b); ci.label("big_quotient_then_short_remainder"); break; }
    default: { // neighbours: a, a+-small
      Limbs u = limbs_nz(in, n); p.a = Int::from_limbs(u.data(), n); p.b = p.a + Int((long long)in.srange(-3, 3)); if (p.b.neg) p.b = -p.b; p.g = ref::gcd(p.a - p.b, p.b); ci.label("neighbours"); break; }
  }
  if (std::max(p.a.size(), p.b.size()) >= GCD_DC_THRESHOLD) ci.label("above_gcd_dc_threshold"); else if (std::max(p.a.size(), p.b.size()) >= HGCD_THRESHOLD) ci.label("above_hgcd_threshold");
  return p;
}
static int sgn(const Int& x) { return x.sgn(); }

// certificate: g >= 0, g | a, g | b, a*s + b*t = g  ==> g = gcd(a,b)
static void certify(const char* what, const Int& A, const Int& B, const Int& G, const Int& S, const Int& T) {
  REQUIRE(!G.neg, "%s: g is negative", what);
  REQUIRE(A * S + B * T == G, "%s: a*s + b*t != g", what);
  if (G.is_zero()) { REQUIRE(A.is_zero() && B.is_zero(), "%s: g = 0 but an operand is non-zero", what); return; }
  REQUIRE(ref::tmod(A, G).is_zero() && ref::tmod(B, G).is_zero(), "%s: g does not divide both operands", what);
}
static void check_cofactor_rules(const Int& A, const Int& B, const Int& G, const Int& S, const Int& T, CaseInfo& ci) {
  Int twoG = G + G;
  if (ref::cmpabs(A, B) == 0) { ci.label("rule:|a|=|b|"); REQUIRE(S.is_zero() && T == Int(sgn(B)), "mpz_gcdext: |a| = |b| requires s = 0, t = sgn(b)"); return; }
  if (B.is_zero() || ref::cmpabs(B, twoG) == 0) { ci.label("rule:s=sgn(a)"); REQUIRE(S == Int(sgn(A)), "mpz_gcdext: b = 0 or |b| = 2g requires s = sgn(a)"); }
  else REQUIRE(ref::cmpabs(twoG * S, B) < 0, "mpz_gcdext: |s| < |b|/(2g) violated");
  if (A.is_zero() || ref::cmpabs(A, twoG) == 0) { ci.label("rule:t=sgn(b)"); REQUIRE(T == Int(sgn(B)), "mpz_gcdext: a = 0 or |a| = 2g requires t = sgn(b)"); }
  else REQUIRE(ref::cmpabs(twoG * T, A) < 0, "mpz_gcdext: |t| < |a|/(2g) violated");
  REQUIRE(S.is_zero() == (ref::cmpabs(G, B) == 0), "mpz_gcdext: s = 0 must hold exactly when g = |b|");
}

static void case_mpz_gcd(ByteSource& in, CaseInfo& ci) {
  Pair p = gen_pair(in, ci); Int A = in.flag() ? -p.a : p.a, B = in.flag() ? -p.b : p.b;
  unsigned f = in.pick({5, 6, 3, 3});   // gcd, gcdext, lcm, gcdext with NULL t
  static const char* names[] = {"mpz_gcd", "mpz_gcdext", "mpz_lcm", "mpz_gcdext(t=NULL)"}; ci.label(names[f]);
  if (p.a.size() >= 2 && p.b.size() >= 2) ci.nontrivial = true; if (A.neg || B.neg) ci.label("negative_operand");
  Z a, b, g, s, t; mpz_from_int(a, A); mpz_from_int(b, B);
  ci.d("%s ", names[f]); DESC(ci, "a=" + show(A, 64) + " b=" + show(B, 64));
  // the certified gcd: from construction, else from a certificate supplied by gcdext
  Int G = p.g;
  if (!p.g_known) { Z g2, s2, t2; mpz_gcdext(g2, s2, t2, a, b); G = int_from_mpz(g2); certify("mpz_gcdext(certificate)", A, B, G, int_from_mpz(s2), int_from_mpz(t2)); ci.label("gcd_by_certificate"); }
  if (f == 0) {
    unsigned al = in.pick({4, 2, 2, 1}); mpz_ptr o = al == 0 ? g.z : al == 1 ? a.z : b.z; if (al == 3) { mpz_gcd(a, a, a); REQUIRE_WF(a, "mpz_gcd"); REQUIRE(int_from_mpz(a) == A.abs(), "mpz_gcd(x,x,x) != |x|"); return; }
    mpz_gcd(o, a, b); REQUIRE_WF(o, "mpz_gcd"); REQUIRE(int_from_mpz(o) == G, "mpz_gcd (alias %u): wrong gcd", al);
    if (o != a.z) REQUIRE(int_from_mpz(a) == A, "mpz_gcd: a modified"); if (o != b.z) REQUIRE(int_from_mpz(b) == B, "mpz_gcd: b modified");
  } else if (f == 1 || f == 3) {
    unsigned al = in.pick({5, 1, 1, 1, 1});   // g,s,t fresh; g==a; g==b; s==a; t==b  (outputs never alias each other)
    mpz_ptr go = g, so = s, to = t; if (al == 1) go = a; else if (al == 2) go = b; else if (al == 3) so = a; else if (al == 4 && f == 1) to = b;
    mpz_gcdext(go, so, f == 3 ? nullptr : to, a, b);
    REQUIRE_WF(go, "mpz_gcdext g"); REQUIRE_WF(so, "mpz_gcdext s"); if (f == 1) REQUIRE_WF(to, "mpz_gcdext t");
    Int Gg = int_from_mpz(go), S = int_from_mpz(so);
    REQUIRE(Gg == G, "mpz_gcdext (alias %u): wrong gcd", al);
    Int T; if (f == 1) T = int_from_mpz(to); else { if (B.is_zero()) T = Int(0); else { Int q, r; ref::tdivrem(Gg - A * S, B, q, r); REQUIRE(r.is_zero(), "mpz_gcdext(t=NULL): g - a*s not divisible by b"); T = q; } }
    if (f == 1) { certify("mpz_gcdext", A, B, Gg, S, T); check_cofactor_rules(A, B, Gg, S, T, ci); }
    if (go != a.z && so != a.z) REQUIRE(int_from_mpz(a) == A, "mpz_gcdext: a modified"); if (go != b.z && to != b.z) REQUIRE(int_from_mpz(b) == B, "mpz_gcdext: b modified");
  } else {
    if (A.size() + B.size() > 3000) return;
    unsigned al = in.pick({3, 1, 1}); mpz_ptr o = al == 0 ? g.z : al == 1 ? a.z : b.z; mpz_lcm(o, a, b); REQUIRE_WF(o, "mpz_lcm");
    Int E = (A.is_zero() || B.is_zero()) ? Int(0) : ref::tdiv((A * B).abs(), G); REQUIRE(int_from_mpz(o) == E, "mpz_lcm: wrong value");
  }
}
static void case_ui(ByteSource& in, CaseInfo& ci) {
  unsigned f = in.pick({3, 2}); Int A = gen_int(in, std::max<size_t>(1, expcap(in.scale, 3, 400))); uint64_t v = in.pick({3, 1, 1, 1}) == 0 ? in.u64() : in.flag() ? in.range(0, 100) : PALETTE[in.u8() & 7];
  if (in.chance(80) && v) A = A * Int::from_u64(ref::gcd(Int::from_u64(v), Int::from_u64(in.range(1, 1000000))).low());
  Z a, r; mpz_from_int(a, A); Int G = ref::gcd(A, Int::from_u64(v)); ci.nontrivial = A.size() >= 2;
  if (f == 0) { ci.label("mpz_gcd_ui"); bool nul = in.chance(70); bool inplace = !nul && in.flag(); ci.d("mpz_gcd_ui v=%llu rop=%s ", (unsigned long long)v, nul ? "NULL" : "set"); DESC(ci, "a=" + show(A, 64));
    uint64_t ret = mpz_gcd_ui(nul ? nullptr : inplace ? a.z : r.z, a, v);
    uint64_t e = G.fits_u64() ? G.low() : 0; if (!G.fits_u64()) ci.label("gcd_ui:does_not_fit");
    REQUIRE(ret == e, "mpz_gcd_ui(v=%llu): returned %llu, expected %llu", (unsigned long long)v, (unsigned long long)ret, (unsigned long long)e);
    if (!nul) { mpz_ptr o = inplace ? a.z : r.z; REQUIRE_WF(o, "mpz_gcd_ui"); REQUIRE(int_from_mpz(o) == G, "mpz_gcd_ui: wrong value stored"); } }
  else { ci.label("mpz_lcm_ui"); ci.d("mpz_lcm_ui v=%llu ", (unsigned long long)v); DESC(ci, "a=" + show(A, 64)); bool inplace = in.flag(); mpz_ptr o = inplace ? a.z : r.z; mpz_lcm_ui(o, a, v);
    Int E = (A.is_zero() || v == 0) ? Int(0) : ref::tdiv((A * Int::from_u64(v)).abs(), G); REQUIRE_WF(o, "mpz_lcm_ui"); REQUIRE(int_from_mpz(o) == E, "mpz_lcm_ui(v=%llu): wrong value", (unsigned long long)v); }
}
static void case_invert(ByteSource& in, CaseInfo& ci) {
  Pair p = gen_pair(in, ci, std::min<size_t>(cap_limbs(in.scale), 600)); Int A = in.flag() ? -p.a : p.a, M = in.flag() ? -p.b : p.b;
  if (ref::cmpabs(M, Int(1)) <= 0) M = Int(in.flag() ? 7 : -10);   // property: |m| > 1
  if (in.chance(60)) A = A + M * gen_int(in, 2);                      // a outside [0,|m|)
  Int G = ref::gcd(A, M); ci.label("mpz_invert"); ci.nontrivial = M.size() >= 2; bool exists = G == Int(1); ci.label(exists ? "invert:exists" : "invert:none");
  Z a, m, r; mpz_from_int(a, A); mpz_from_int(m, M); unsigned al = in.pick({3, 1, 1}); mpz_ptr o = al == 0 ? r.z : al == 1 ? a.z : m.z;
  ci.d("mpz_invert alias=%u ", al); DESC(ci, "a=" + show(A, 64) + " m=" + show(M, 64));
  int rc = mpz_invert(o, a, m);
  REQUIRE((rc != 0) == exists, "mpz_invert: returned %d but gcd(a,m) %s 1", rc, exists ? "==" : "!=");
  if (exists) { REQUIRE_WF(o, "mpz_invert"); Int R = int_from_mpz(o); REQUIRE(!R.neg && ref::cmpabs(R, M) < 0, "mpz_invert: result outside [0,|m|)"); REQUIRE(ref::emod(A * R, M) == Int(1), "mpz_invert: a*r != 1 (mod m)"); }
  if (o != a.z) REQUIRE(int_from_mpz(a) == A, "mpz_invert: a modified"); if (o != m.z) REQUIRE(int_from_mpz(m) == M, "mpz_invert: m modified");
}
static void case_mpn(ByteSource& in, CaseInfo& ci) {
  unsigned f = in.pick({4, 4, 2});
  if (f == 2) { // mpn_gcd_1: both operands non-zero
    size_t n = (size_t)in.logrange(1, expcap(in.scale, 4, 400)); Limbs u = limbs_nz(in, n); uint64_t v = in.flag() ? in.u64() : in.range(1, 1000); if (!v) v = 1; if (in.flag()) { uint64_t c = in.range(1, 255); Int t = Int::from_limbs(u.data(), n) * Int::from_u64(c); if (t.size() == n) u = t.m; if (v <= ~0ull / c) v *= c; }
    Int U = Int::from_limbs(u.data(), n); if (U.is_zero()) { u[0] = 1; U = Int(1); }
    ci.label("mpn_gcd_1"); ci.nontrivial = n >= 2; ci.d("mpn_gcd_1 n=%zu v=%llu ", n, (unsigned long long)v); DESC(ci, "u=" + show(U, 64));
    uint64_t g = mpn_gcd_1(u.data(), n, v); REQUIRE(Int::from_u64(g) == ref::gcd(U, Int::from_u64(v)), "mpn_gcd_1(n=%zu,v=%llu): returned %llu", n, (unsigned long long)v, (unsigned long long)g); return; }
  Pair p = gen_pair(in, ci); Int U = p.a, V = p.b; if (U < V) std::swap(U, V);
  if (V.is_zero()) { V = Int(1); if (U.is_zero()) U = Int(1); p.g = Int(1); p.g_known = true; }
  if (f == 0) { // mpn_gcd: s2 odd, s1 >= s2 in bits, sources destroyed; result up to s2n limbs
    while (!V.is_odd()) V = ref::tshr(V, 1);
    if (U.bits() < V.bits()) std::swap(U, V); if (!V.is_odd()) { V = V + Int(1); }
    if (U.bits() < V.bits()) U = U + ref::pow2(V.bits());
    Int G;
    // gcd: by certificate from refint's gcdext when small, else from mpz_gcdext + certificate
    if (U.size() <= 200) G = ref::gcd(U, V); else { Z a, b, g, s, t; mpz_from_int(a, U); mpz_from_int(b, V); mpz_gcdext(g, s, t, a, b); G = int_from_mpz(g); certify("mpz_gcdext(certificate)", U, V, G, int_from_mpz(s), int_from_mpz(t)); }
    size_t un = U.size(), vn = V.size(); Limbs up = U.m, vp = V.m; Guarded r(vn);
    ci.label("mpn_gcd"); ci.nontrivial = vn >= 2; ci.d("mpn_gcd un=%zu vn=%zu ", un, vn); DESC(ci, "u=" + show(U, 64) + " v=" + show(V, 64));
    size_t gn = mpn_gcd(r.p(), up.data(), un, vp.data(), vn);
    REQUIRE(r.intact(), "mpn_gcd: wrote outside the s2n-limb result area"); REQUIRE(gn >= 1 && gn <= vn, "mpn_gcd: returned size %zu outside [1,%zu]", gn, vn);
    REQUIRE(Int::from_limbs(r.p(), gn) == G, "mpn_gcd(un=%zu,vn=%zu): wrong gcd", un, vn); REQUIRE(r.p()[gn - 1] != 0, "mpn_gcd: high limb of the result is zero");
  } else {      // mpn_gcdext: U >= V > 0; gp, sp room xn+1; {xp,xn+1} {yp,yn+1} destroyed
    size_t un = U.size(), vn = V.size(); std::vector<uint64_t> up(un + 1, 0), vp(vn + 1, 0); std::copy(U.m.begin(), U.m.end(), up.begin()); std::copy(V.m.begin(), V.m.end(), vp.begin());
    Guarded g(un + 1), s(un + 1); mp_size_t sn = 12345;
    ci.label("mpn_gcdext"); ci.nontrivial = vn >= 2; ci.d("mpn_gcdext un=%zu vn=%zu ", un, vn); DESC(ci, "u=" + show(U, 64) + " v=" + show(V, 64));
    size_t gn = mpn_gcdext(g.p(), s.p(), &sn, up.data(), un, vp.data(), vn);
    REQUIRE(g.intact() && s.intact(), "mpn_gcdext: wrote outside the xn+1 limb areas"); REQUIRE(gn >= 1 && gn <= vn, "mpn_gcdext: gcd size %zu outside [1,%zu]", gn, vn);
    size_t sl = sn < 0 ? -sn : sn; REQUIRE(sl <= un + 1, "mpn_gcdext: |*sn| too large");
    Int G = Int::from_limbs(g.p(), gn), S = Int::from_limbs(s.p(), sl, sn < 0); REQUIRE(sl == 0 || s.p()[sl - 1] != 0, "mpn_gcdext: cofactor not normalised");
    Int q, r; ref::tdivrem(G - U * S, V, q, r); REQUIRE(r.is_zero(), "mpn_gcdext: G - U*S is not divisible by V"); certify("mpn_gcdext", U, V, G, S, q);
    REQUIRE(S == Int(1) || ref::cmpabs(G * S * Int(2), V) < 0, "mpn_gcdext: S must be 1 or |S| < V/(2G)");
    REQUIRE(S.is_zero() == (G == V), "mpn_gcdext: S = 0 must hold exactly when V divides U");
  }
}
static bool small_prime(uint64_t& p, ByteSource& in) { p = in.flag() ? in.range(3, 2000) : (in.u64() >> in.range(1, 40)); p |= 1; if (p < 3) p = 3; for (int i = 0; i < 2000; i++, p += 2) if (ref::is_prime_u64(p)) return true; return false; }
static void case_kron(ByteSource& in, CaseInfo& ci) {
  unsigned f = in.pick({4, 2, 3, 3, 3, 3}); static const char* names[] = {"mpz_jacobi", "mpz_legendre", "mpz_kronecker_si", "mpz_kronecker_ui", "mpz_si_kronecker", "mpz_ui_kronecker"};
  ci.label(names[f]); size_t cap = expcap(in.scale, 3, 1200);
  auto gz = [&](bool allow_even) { Int x = gen_int(in, cap); unsigned k = in.pick({5, 1, 1, 1, 2}); if (k == 1) x = Int(0); if (k == 2) x = Int(in.flag() ? 1 : -1); if (k == 3) x = Int(in.flag() ? 2 : -2);
    if (k == 4) { uint64_t tz = in.range(0, 200); x = ref::shl(x, tz); }   // 2-adic valuation crossing limbs
    if (!allow_even && !x.is_odd()) x = x + Int(1); return x; };
  Z a, b; int got, e; Int A, B;
  if (f == 0) { A = gz(true); B = gz(true); unsigned k = in.pick({5, 3}); if (k == 1) { Pair p = gen_pair(in, ci, in.flag() ? 3 : std::min<size_t>(cap, 500)); A = in.flag() ? -p.a : p.a; B = in.flag() ? -p.b : p.b; }   // shared factors => symbol 0
    mpz_from_int(a, A); mpz_from_int(b, B); got = mpz_jacobi(a, b); }   // mpz_jacobi is also mpz_kronecker (alias): all b
  else if (f == 1) { uint64_t p; if (!small_prime(p, in)) p = 3; B = Int::from_u64(p); A = gz(true); if (in.flag()) A = A * A; mpz_from_int(a, A); mpz_from_int(b, B); got = mpz_legendre(a, b); }
  else if (f == 2) { A = gz(true); int64_t v = in.flag() ? (int64_t)in.u64() : in.srange(-20, 20); if (in.chance(30)) v = in.flag() ? INT64_MIN : INT64_MAX; B = Int((long long)v); mpz_from_int(a, A); got = mpz_kronecker_si(a, v); }
  else if (f == 3) { A = gz(true); uint64_t v = in.flag() ? in.u64() : in.range(0, 40); if (in.chance(30)) v = PALETTE[in.u8() & 7]; B = Int::from_u64(v); mpz_from_int(a, A); got = mpz_kronecker_ui(a, v); }
  else if (f == 4) { B = gz(true); int64_t v = in.flag() ? (int64_t)in.u64() : in.srange(-20, 20); if (in.chance(30)) v = in.flag() ? INT64_MIN : INT64_MAX; A = Int((long long)v); mpz_from_int(b, B); got = mpz_si_kronecker(v, b); }
  else { B = gz(true); uint64_t v = in.flag() ? in.u64() : in.range(0, 40); if (in.chance(30)) v = PALETTE[in.u8() & 7]; A = Int::from_u64(v); mpz_from_int(b, B); got = mpz_ui_kronecker(v, b); }
  e = ref::kronecker(A, B);
  ci.d("%s ", names[f]); DESC(ci, "a=" + show(A, 64) + " b=" + show(B, 64)); ci.nontrivial = A.size() >= 2 || B.size() >= 2;
  if (!B.is_odd()) ci.label("kron:b_even"); if (B.neg) ci.label("kron:b_negative"); if (B.is_zero()) ci.label("kron:b_zero"); if (e == 0) ci.label("kron:zero"); if (A.neg && B.neg) ci.label("kron:both_negative");
  REQUIRE(got == e, "%s: returned %d, expected %d", names[f], got, e);
}

// ---- exhaustive sweep: every (a,b) in [-64,64]^2 ------------------------------------------------------------------
// second sweep domain: all pairs of two-limb values whose limbs come from a 12-value palette (equal / zero / all-ones / boundary limbs in every position)
static const uint64_t SWP[12] = {0, 1, 2, 3, 5, 7, 0x8000000000000000ull, 0x8000000000000001ull, 0xffffffffffffffffull, 0xfffffffffffffffdull, 0x100000000ull, 0xaaaaaaaaaaaaaaabull};
static void sweep_palette(uint64_t i, CaseInfo& ci) {
  uint64_t l[4]; for (int k = 0; k < 4; k++) { l[k] = SWP[i % 12]; i /= 12; }
  uint64_t al[2] = {l[0], l[1]}, bl[2] = {l[2], l[3]}; Int A0 = Int::from_limbs(al, 2), B0 = Int::from_limbs(bl, 2);
  ci.d("palette pair a=%s b=%s", show(A0).c_str(), show(B0).c_str());
  Int G = ref::gcd(A0, B0);
  for (int sg = 0; sg < 4; sg++) {
    Int A = (sg & 1) ? -A0 : A0, B = (sg & 2) ? -B0 : B0; Z a, b, g, s, t; mpz_from_int(a, A); mpz_from_int(b, B);
    int e = ref::kronecker(A, B); int got = mpz_jacobi(a, b); REQUIRE(got == e, "mpz_jacobi(%s, %s) = %d, expected %d", show(A).c_str(), show(B).c_str(), got, e);
    if (sg == 0 || sg == 3) { mpz_gcd(g, a, b); REQUIRE(int_from_mpz(g) == G, "mpz_gcd(%s, %s): wrong", show(A).c_str(), show(B).c_str());
      mpz_gcdext(g, s, t, a, b); certify("mpz_gcdext", A, B, int_from_mpz(g), int_from_mpz(s), int_from_mpz(t)); REQUIRE(int_from_mpz(g) == G, "mpz_gcdext(%s, %s): gcd", show(A).c_str(), show(B).c_str()); check_cofactor_rules(A, B, G, int_from_mpz(s), int_from_mpz(t), ci); }
    if (B0.size() > 1 || (B0.size() == 1 && B0.m[0] > 1)) { int rc = mpz_invert(g, a, b); bool ex = G == Int(1); REQUIRE((rc != 0) == ex, "mpz_invert(%s, %s): existence", show(A).c_str(), show(B).c_str()); if (ex) { Int R = int_from_mpz(g); REQUIRE(!R.neg && ref::cmpabs(R, B) < 0 && ref::emod(A * R, B) == Int(1), "mpz_invert(%s, %s): value", show(A).c_str(), show(B).c_str()); } }
  }
}
static uint64_t sweep_count() { return 129ull * 129ull + 12ull * 12 * 12 * 12; }
static void sweep_item(uint64_t i, CaseInfo& ci) {
  if (i >= 129ull * 129ull) { sweep_palette(i - 129ull * 129ull, ci); return; }
  long av = (long)(i / 129) - 64, bv = (long)(i % 129) - 64; ci.d("a=%ld b=%ld", av, bv); Int A((long long)av), B((long long)bv); Int G = ref::gcd(A, B);
  Z a, b, g, s, t; mpz_set_si(a, av); mpz_set_si(b, bv);
  mpz_gcd(g, a, b); REQUIRE(int_from_mpz(g) == G, "mpz_gcd(%ld,%ld)", av, bv);
  mpz_gcdext(g, s, t, a, b); certify("mpz_gcdext", A, B, int_from_mpz(g), int_from_mpz(s), int_from_mpz(t)); REQUIRE(int_from_mpz(g) == G, "mpz_gcdext(%ld,%ld): gcd", av, bv); check_cofactor_rules(A, B, G, int_from_mpz(s), int_from_mpz(t), ci);
  mpz_lcm(g, a, b); REQUIRE(int_from_mpz(g) == ((av == 0 || bv == 0) ? Int(0) : ref::tdiv((A * B).abs(), G)), "mpz_lcm(%ld,%ld)", av, bv);
  if (bv >= 0) { unsigned long r = mpz_gcd_ui(g, a, (unsigned long)bv); REQUIRE(int_from_mpz(g) == G && Int::from_u64(r) == G, "mpz_gcd_ui(%ld,%ld)", av, bv); mpz_lcm_ui(g, a, (unsigned long)bv); REQUIRE(int_from_mpz(g) == ((av == 0 || bv == 0) ? Int(0) : ref::tdiv((A * B).abs(), G)), "mpz_lcm_ui(%ld,%ld)", av, bv); }
  if (std::labs(bv) > 1) { int rc = mpz_invert(g, a, b); bool ex = G == Int(1); REQUIRE((rc != 0) == ex, "mpz_invert(%ld,%ld): existence", av, bv); if (ex) { Int R = int_from_mpz(g); REQUIRE(!R.neg && ref::cmpabs(R, B) < 0 && ref::emod(A * R, B) == Int(1), "mpz_invert(%ld,%ld): value", av, bv); } }
  int e = ref::kronecker(A, B);
  REQUIRE(mpz_jacobi(a, b) == e, "mpz_kronecker(%ld,%ld): expected %d", av, bv, e); REQUIRE(mpz_kronecker_si(a, bv) == e, "mpz_kronecker_si(%ld,%ld)", av, bv); REQUIRE(mpz_si_kronecker(av, b) == e, "mpz_si_kronecker(%ld,%ld)", av, bv);
  if (bv >= 0) REQUIRE(mpz_kronecker_ui(a, (unsigned long)bv) == e, "mpz_kronecker_ui(%ld,%ld)", av, bv); if (av >= 0) REQUIRE(mpz_ui_kronecker((unsigned long)av, b) == e, "mpz_ui_kronecker(%ld,%ld)", av, bv);
  if (bv > 2 && (bv & 1) && ref::is_prime_u64((uint64_t)bv)) REQUIRE(mpz_legendre(a, b) == e, "mpz_legendre(%ld,%ld)", av, bv);
  if (av != 0 && bv > 0) { mp_limb_t one_limb[1] = {(mp_limb_t)std::labs(av)}; unsigned long r = mpn_gcd_1(one_limb, 1, (mp_limb_t)bv); REQUIRE(Int::from_u64(r) == G, "mpn_gcd_1(%ld,%ld)", av, bv); }
}
// rare class: operands of 13800..30000 limbs (above HGCD_REDUCE_THRESHOLD for the hgcd calls of gcd and gcdext), random or with a long
// run of all-ones limbs in the upper half of the smaller operand, both multiples of a planted G; gcd certified by gcdext's cofactors
static void case_huge(ByteSource& in, CaseInfo& ci) {
  size_t n = (size_t)in.range(13800, in.scale >= 120 ? 60000 : 30000); unsigned st = in.pick({2, 5, 1});   // random; run of ones in b; runs-style operands
  Limbs al = limbs_nz(in, n, st == 2 ? S_RUNS : S_UNIFORM), bl = limbs_nz(in, n, st == 2 ? S_RUNS : S_UNIFORM);
  al[n - 1] |= 1ull << 63; bl[n - 1] &= ~(1ull << 63); if (bl[n - 1] == 0) bl[n - 1] = 1;   // a > b, same limb count
  if (st == 1) { size_t s0 = n / 2 + (size_t)in.range(0, n / 3), e0 = in.flag() ? n - 1 - (size_t)in.range(0, n / 8) : s0 + (size_t)in.range(0, n - 1 - s0); for (size_t i = s0; i < e0 && i < n - 1; i++) bl[i] = ~0ull; ci.d("ones[%zu,%zu) ", s0, e0); }
  Int G = Int::from_limbs(limbs_nz(in, (size_t)in.range(1, 12)).data(), 1); { Limbs gl = limbs_nz(in, (size_t)in.range(1, 12)); gl[0] |= 1; G = Int::from_limbs(gl.data(), gl.size()); }
  Int A = Int::from_limbs(al.data(), n), B = Int::from_limbs(bl.data(), n); A = A - ref::tmod(A, G); B = B - ref::tmod(B, G);   // round down to multiples of G: touches only the lowest limbs
  if (A.is_zero() || B.is_zero()) return;
  ci.label("huge_hgcd_reduce"); ci.nontrivial = true; ci.d("huge gcd/gcdext n=%zu style=%u ", n, st); DESC(ci, "a=" + show(A, 64) + " b=" + show(B, 64) + " planted G=" + show(G, 64));
  Z a, b, g, g2, s, t; mpz_from_int(a, A); mpz_from_int(b, B); if (in.flag()) { mpz_gcdext(g2, s, t, a, b); } else { mpz_gcdext(g2, s, t, b, a); mpz_swap(s, t); }
  Int Gg = int_from_mpz(g2); certify("mpz_gcdext(huge)", A, B, Gg, int_from_mpz(s), int_from_mpz(t)); REQUIRE(ref::tmod(Gg, G).is_zero(), "mpz_gcdext(huge): g is not a multiple of the planted common factor");
  if (in.flag()) mpz_gcd(g, a, b); else mpz_gcd(g, b, a); REQUIRE_WF(g, "mpz_gcd"); REQUIRE(int_from_mpz(g) == Gg, "mpz_gcd(huge, n=%zu): differs from the gcd certified by cofactors", n);
}
// class aimed at the size bookkeeping of the hgcd_reduce regime (n >= HGCD_REDUCE_THRESHOLD: hgcd_appr on the high part, then hgcd_matrix_apply): sizes a little
// above 3 * HGCD_REDUCE_THRESHOLD of THIS build's table, one big quotient of about n/20 limbs, and a reduced operand that comes out one limb SHORTER than the
// unchanged one (a = e(y+1) just above B^t, b - k a = e y just below it).  gcd(a, b) = e gcd(y+1, y) = e by construction, whatever y is, so the library may
// be used to build the operands; presented as (b B^2 + a, b), (b, a) and (a, b).
static void case_straddle(ByteSource& in, CaseInfo& ci) {
  size_t T = HGCD_REDUCE_THRESHOLD; size_t N = 3 * T + T * (size_t)in.range(10, 70) / 100; if (N < 40) N = 40 + (size_t)in.range(0, 40); if (N > 45000) return;
  size_t J1 = std::max<size_t>(1, N / (size_t)in.range(16, 24)), EN = N * (size_t)in.range(86, 93) / 100, t = N - J1 - 1; if (EN + 2 >= t) EN = t - 2;
  Z e, y, k, a, b, c, U, G, Bt; Limbs el = limbs_nz(in, 2), kl = limbs_nz(in, 2);
  mpz_set_ui(Bt.z, 1); mpz_mul_2exp(Bt.z, Bt.z, 64 * t); mpz_sub_ui(Bt.z, Bt.z, 1);
  // e: EN limbs, odd, top bit set, pseudo-random middle derived from two generated limbs (a long LCG-free fill: powers of a generated odd value)
  mpz_set_ui(e.z, el[0] | 1); mpz_mul_2exp(e.z, e.z, 64); mpz_add_ui(e.z, e.z, el[1] | 1); mpz_pow_ui(e.z, e.z, (unsigned long)(EN / 2 + 1)); mpz_tdiv_r_2exp(e.z, e.z, 64 * EN); mpz_setbit(e.z, 64 * EN - 1); mpz_setbit(e.z, 0);
  for (int tries = 0; tries < 40; tries++) { mpz_fdiv_q(y.z, Bt.z, e.z); if (mpz_even_p(y.z)) break; mpz_add_ui(e.z, e.z, 2 * (el[1] % 1000003) + 2); }
  if (!mpz_even_p(y.z)) return;
  mpz_mul(c.z, e.z, y.z); mpz_add(a.z, c.z, e.z);
  mpz_set_ui(k.z, kl[0] | 1); mpz_mul_2exp(k.z, k.z, 64); mpz_add_ui(k.z, k.z, kl[1] | 1); mpz_pow_ui(k.z, k.z, (unsigned long)(J1 / 2 + 1)); mpz_tdiv_r_2exp(k.z, k.z, 64 * J1); mpz_setbit(k.z, 64 * J1 - 1); mpz_setbit(k.z, 0);
  mpz_mul(b.z, k.z, a.z); mpz_add(b.z, b.z, c.z); mpz_mul_2exp(U.z, b.z, 128); mpz_add(U.z, U.z, a.z);
  ci.label("hgcd_reduce_straddle"); ci.nontrivial = true; ci.d("straddle N=%zu J1=%zu EN=%zu: a=%zu limbs, b=%zu, b-k*a=%zu, gcd=%zu ", N, J1, EN, mpz_size(a.z), mpz_size(b.z), mpz_size(c.z), mpz_size(e.z));
  unsigned form = in.pick({3, 1, 1});
  if (form == 0) mpz_gcd(G.z, U.z, b.z); else if (form == 1) mpz_gcd(G.z, b.z, a.z); else mpz_gcd(G.z, a.z, b.z);
  REQUIRE_WF(G.z, "mpz_gcd"); REQUIRE(mpz_cmp(G.z, e.z) == 0, "mpz_gcd(straddle form %u, N=%zu J1=%zu EN=%zu): returned a %zu-limb value, the gcd by construction (e) has %zu limbs and differs", form, N, J1, EN, mpz_size(G.z), mpz_size(e.z));
  if (in.chance(64)) { Z s, tt, g2; mpz_gcdext(g2.z, s.z, tt.z, b.z, a.z); REQUIRE(mpz_cmp(g2.z, e.z) == 0, "mpz_gcdext(straddle N=%zu): g differs from the gcd by construction", N);
    Z chk, tmp; mpz_mul(chk.z, s.z, b.z); mpz_mul(tmp.z, tt.z, a.z); mpz_add(chk.z, chk.z, tmp.z); REQUIRE(mpz_cmp(chk.z, g2.z) == 0, "mpz_gcdext(straddle N=%zu): s*b + t*a != g", N); }
}
static void check(ByteSource& in, CaseInfo& ci) {
  if (in.scale >= 90 && (in.u8() ^ 0xA5u) < 4 && in.chance(128)) { if (in.pick({2, 1}) == 0) case_huge(in, ci); else case_straddle(in, ci); return; }
  if (3 * (size_t)HGCD_REDUCE_THRESHOLD <= 4000 && in.scale >= 40 && in.chance(3 * (size_t)HGCD_REDUCE_THRESHOLD <= 400 ? 60 : 8)) { case_straddle(in, ci); return; }   /* tables with a low crossover: the class is cheap, make it common */   // ~1 in 128 of the top size classes; never for an exhausted (all-zero) stream
  switch (in.pick({8, 2, 3, 5, 6})) { case 0: case_mpz_gcd(in, ci); break; case 1: case_ui(in, ci); break; case 2: case_invert(in, ci); break; case 3: case_mpn(in, ci); break; default: case_kron(in, ci); break; }
}
namespace eng {
PropDef g_prop = {"C07",
  "Cases: mpz_gcd / mpz_gcdext (incl. t=NULL, outputs aliasing inputs) / mpz_lcm / mpz_gcd_ui / mpz_lcm_ui / mpz_invert (|m|>1, both signs, a outside [0,|m|)) / mpn_gcd (s2 odd, s1 >= s2 in bits, copies passed) / mpn_gcdext (U>=V>0, xn+1 limb areas) / mpn_gcd_1 / mpz_jacobi (=kronecker), mpz_legendre (odd primes), the four mixed kronecker entry points (all sign and parity combinations, b=0,+-1,+-2, 2-adic valuations crossing limbs). Operand pairs: g*(x,y) with (x,y) coprime built backwards from a chosen quotient sequence (mixed sizes, runs of 1 = Fibonacci-like, one huge partial quotient), planted g (1, 2^k, multi-limb), random pairs of different sizes, a=b, b|a, |b|=2g, zero operands, neighbours, pairs congruent modulo B^j (equal low limbs); a rare class (~1 in 1300 cases) of 13800..30000-limb operands (hgcd_reduce regime) with long all-ones runs; sizes around HGCD/GCDEXT_DC/GCD_DC thresholds up to the scale cap. Oracle: refint: g>=0, g|a, g|b, a*s+b*t=g (certificate), the manual's cofactor bounds and exceptional cases, lcm=|ab|/g, inverse in [0,|m|) with a*r=1 mod m, textbook Kronecker recursion; gcd of large random pairs is taken from a refint-verified certificate. Non-trivial: both operands >= 2 limbs. Distinct = hash of all decoded choices.",
  check, nullptr, {"a_eq_b", "b_divides_a", "b_eq_2g", "fib_like", "huge_partial_quotient", "above_hgcd_threshold", "above_gcd_dc_threshold", "rule:|a|=|b|", "rule:s=sgn(a)", "rule:t=sgn(b)", "kron:b_even", "kron:b_negative", "kron:b_zero", "kron:zero", "invert:none", "planted_big_g", "equal_low_limbs", "huge_hgcd_reduce", "big_quotient_then_short_remainder"}, nullptr, sweep_count, sweep_item,
  "every (a,b) in [-64,64]^2: mpz_gcd, mpz_gcdext (certificate, cofactor bounds and all exceptional cases of the manual), mpz_lcm, mpz_gcd_ui/lcm_ui (b>=0), mpz_invert (|b|>1), mpz_jacobi/kronecker and the four mixed kronecker entry points, mpz_legendre for odd prime b, mpn_gcd_1; plus every pair of two-limb values with limbs from a 12-value palette {0,1,2,3,5,7,2^63,2^63+1,2^64-1,2^64-3,2^32,0xaaa..ab} (20736 pairs x 4 sign combinations): mpz_jacobi, mpz_gcd, mpz_gcdext, mpz_invert"};
}
