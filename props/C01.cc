// C01: multiplication is exact for every operand shape, content and algorithm regime
#include "../harness/gen.hpp"
#include "../harness/thresholds.hpp"
using namespace eng; using namespace gen; using ref::Int;

#ifndef MUL_FFT_FULL_THRESHOLD
#define MUL_FFT_FULL_THRESHOLD 3520
#endif
#ifndef SQR_FFT_FULL_THRESHOLD
#define SQR_FFT_FULL_THRESHOLD 2016
#endif

// ---- oracle ---------------------------------------------------------------
// exact product via refint up to EXACT_LIMIT limbs in total; above that, modular
// fingerprints (documented assumption: an error escapes only if it vanishes
// modulo four 61-bit primes, 2^64 and 2^64-1 simultaneously).
static const size_t EXACT_LIMIT = 24000;
static const uint64_t FP_PRIMES[4] = {2305843009213693951ull /*2^61-1*/, 2305843009213693921ull, 2305843009213693907ull, 2305843009213693723ull};
static uint64_t mod_limbs(const uint64_t* p, size_t n, uint64_t m) {
  ref::u128 r = 0; for (size_t i = n; i-- > 0;) { r = ((r << 64) | p[i]) % m; } return (uint64_t)r;
}
static uint64_t mod_ones(const uint64_t* p, size_t n) {  // mod 2^64-1
  ref::u128 s = 0; for (size_t i = 0; i < n; i++) s += p[i]; while (s >> 64) s = (s & ~0ull) + (s >> 64); uint64_t r = (uint64_t)s; return r == ~0ull ? 0 : r;
}
static void check_product(const char* what, const uint64_t* rp, const uint64_t* up, size_t un, const uint64_t* vp, size_t vn, CaseInfo& ci) {
  size_t rn = un + vn;
  if (rn <= EXACT_LIMIT) {
    Int P = Int::from_limbs(up, un) * Int::from_limbs(vp, vn);
    for (size_t i = 0; i < rn; i++) {
      uint64_t e = i < P.m.size() ? P.m[i] : 0;
      REQUIRE(rp[i] == e, "%s(un=%zu,vn=%zu): product limb %zu is 0x%016llx, expected 0x%016llx", what, un, vn, i, (unsigned long long)rp[i], (unsigned long long)e);
    }
  } else {
    ci.label("oracle_fingerprint");
    for (uint64_t m : FP_PRIMES) {
      uint64_t e = ref::mulmod64(mod_limbs(up, un, m), mod_limbs(vp, vn, m), m);
      REQUIRE(mod_limbs(rp, rn, m) == e, "%s(un=%zu,vn=%zu): product wrong modulo %llu", what, un, vn, (unsigned long long)m);
    }
    REQUIRE(rp[0] == up[0] * vp[0], "%s(un=%zu,vn=%zu): low product limb wrong", what, un, vn);
    uint64_t e1 = ref::mulmod64(mod_ones(up, un), mod_ones(vp, vn), ~0ull);
    REQUIRE(mod_ones(rp, rn) == e1, "%s(un=%zu,vn=%zu): product wrong modulo 2^64-1", what, un, vn);
  }
}

// ---- regime labels (labels only; replicate the dispatch of mpn/generic/mul.c) ----
static const char* regime_mul(size_t un, size_t vn) {
  if (un == vn) return nullptr;
  if (vn < MUL_KARATSUBA_THRESHOLD) return un <= 500 ? "mul:basecase" : "mul:basecase_chunked";
  if (un + vn >= 2 * MUL_FFT_FULL_THRESHOLD && 3 * vn >= MUL_FFT_FULL_THRESHOLD) return "mul:fft";
  size_t k = (un + 3) / 4, l;
  if (un + vn >= 2 * MUL_TOOM8H_THRESHOLD && vn >= 86 && 4 * un <= 13 * vn) return "mul:toom8h";
  if (un + vn >= 2 * MUL_TOOM4_THRESHOLD) {
    if (vn > 3 * k) return "mul:toom4";
    l = (un + 4) / 5;
    if ((((vn > 9 * k / 4) && (un + vn <= 6 * MUL_TOOM4_THRESHOLD)) || ((vn > 2 * l) && (un + vn > 6 * MUL_TOOM4_THRESHOLD))) && (vn <= 3 * l)) return "mul:toom53";
  }
  if (un + vn >= 2 * MUL_TOOM3_THRESHOLD && vn > k) {
    if (vn < 2 * k) return "mul:toom42";
    l = (un + 2) / 3; return vn > 2 * l ? "mul:toom3_unbal" : "mul:toom32";
  }
  return "mul:mul_n_plus_tail";
}
static const char* regime_mul_n(size_t n) {
  if (n < MUL_KARATSUBA_THRESHOLD) return "mul_n:basecase";
  if (n < MUL_TOOM3_THRESHOLD) return "mul_n:karatsuba";
  if (n < MUL_TOOM4_THRESHOLD) return "mul_n:toom3";
  if (n < MUL_TOOM8H_THRESHOLD) return "mul_n:toom4";
  if (n < MUL_FFT_FULL_THRESHOLD) return "mul_n:toom8h";
  return "mul_n:fft";
}
static const char* regime_sqr(size_t n) {
  if (n < SQR_KARATSUBA_THRESHOLD) return "sqr:basecase";
  if (n < SQR_TOOM3_THRESHOLD) return "sqr:karatsuba";
  if (n < SQR_TOOM4_THRESHOLD) return "sqr:toom3";
  if (n < SQR_TOOM8_THRESHOLD) return "sqr:toom4";
  if (n < SQR_FFT_FULL_THRESHOLD) return "sqr:toom8";
  return "sqr:fft";
}
static const char* fft_depth_label(size_t n1, size_t n2) {
  long depth = 6, w = 1, n = 64; long bits = (n * w - (depth + 1)) / 2; long b1 = n1 * 64, b2 = n2 * 64;
  long j1 = (b1 - 1) / bits + 1, j2 = (b2 - 1) / bits + 1;
  while (j1 + j2 - 1 > 4 * n) { if (w == 1) w = 2; else { depth++; w = 1; n *= 2; } bits = (n * w - (depth + 1)) / 2; j1 = (b1 - 1) / bits + 1; j2 = (b2 - 1) / bits + 1; }
  static const char* L[] = {"fft:depth6", "fft:depth7", "fft:depth8", "fft:depth9", "fft:depth10", "fft:depth11_mfa", "fft:depth12_mfa", "fft:depth13plus_mfa"};
  long i = depth - 6; if (i > 7) i = 7; return w == 1 ? L[i] : (i == 0 ? "fft:depth6_w2" : i == 1 ? "fft:depth7_w2" : i == 2 ? "fft:depth8_w2" : i == 3 ? "fft:depth9_w2" : i == 4 ? "fft:depth10_w2" : "fft:depth11plus_w2_mfa");
}
static bool fft_main_ok(size_t n1, size_t n2) {   // ASSERT(j1 + j2 - 1 > 2*n) at depth 6, w 1 (bits = 28)
  long j1 = ((long)n1 * 64 - 1) / 28 + 1, j2 = ((long)n2 * 64 - 1) / 28 + 1; return j1 + j2 - 1 > 128;
}

// ---- size generation --------------------------------------------------------
static size_t total_cap(unsigned scale) { return expcap(scale, 6, 18000); }   // cap on un+vn
// (un,vn) pair with un >= vn >= 1, region-targeted
static void gen_shape(ByteSource& in, size_t& un, size_t& vn) {
  size_t cap = std::max<size_t>(2, total_cap(in.scale));
  unsigned w = in.pick({4, 4, 3, 3, 3, 2});
  switch (w) {
    case 0: vn = (size_t)in.range(1, std::min<size_t>(cap / 2, 24)); un = vn + (size_t)in.range(0, std::min<size_t>(cap - 2 * vn, 40)); break;   // tiny
    case 1: {  // balanced-ish around thresholds
      vn = size_near(in, 1, cap / 2, {MUL_KARATSUBA_THRESHOLD, MUL_TOOM3_THRESHOLD, MUL_TOOM4_THRESHOLD, MUL_TOOM8H_THRESHOLD, MUL_FFT_FULL_THRESHOLD, 86});
      un = vn + (size_t)in.range(0, std::min<size_t>(cap - 2 * vn, 6)); break; }
    case 2: {  // ratio-targeted: un/vn near the dispatch boundaries 1, 13/4, 4/3, 5/3, 3/2, 2, 3, 4
      static const double R[] = {1.0, 1.02, 1.3333, 1.5, 1.6667, 1.7, 1.75, 1.8, 2.0, 2.25, 2.5, 3.0, 3.25, 3.3, 4.0, 4.1, 5.0, 8.0};
      double r = R[in.range(0, 17)];
      size_t vmax = std::max<size_t>(1, (size_t)(cap / (1 + r)));
      vn = size_near(in, 1, vmax, {MUL_KARATSUBA_THRESHOLD, 86, MUL_TOOM3_THRESHOLD, MUL_TOOM4_THRESHOLD, MUL_TOOM8H_THRESHOLD});
      long u = (long)(vn * r) + (long)in.srange(-3, 3); if (u < (long)vn) u = vn; un = (size_t)u; if (un + vn > cap && un > vn) un = std::max(vn, cap - vn); break; }
    case 3: {  // sum around 2*threshold with free ratio
      static const size_t T[] = {2 * MUL_TOOM3_THRESHOLD, 2 * MUL_TOOM4_THRESHOLD, 6 * MUL_TOOM4_THRESHOLD, 2 * MUL_TOOM8H_THRESHOLD, 2 * MUL_FFT_FULL_THRESHOLD};
      size_t t = T[in.range(0, 4)]; if (t + 3 > cap) { vn = (size_t)in.logrange(1, cap / 2); un = (size_t)in.range(vn, cap - vn); break; }
      size_t s = t - 3 + (size_t)in.range(0, 6); vn = (size_t)in.range(1, s / 2); if (in.flag() && s / 2 > 8) vn = s / 2 - (size_t)in.range(0, s / 4); un = s - vn; break; }
    case 4: {  // very unbalanced (chunked basecase needs un > 500 with vn < KARATSUBA)
      vn = (size_t)in.range(1, std::min<size_t>(cap / 2, 40)); un = (size_t)in.logrange(vn, cap - vn);
      if (in.flag() && cap > 520 + vn) un = 498 + (size_t)in.range(0, std::min<size_t>(cap - vn - 498, 1200)); break; }
    default: vn = (size_t)in.logrange(1, cap / 2); un = (size_t)in.logrange(vn, cap - vn); break;
  }
  if (vn < 1) vn = 1; if (un < vn) un = vn;
}
static void gen_operands(ByteSource& in, Limbs& u, Limbs& v, size_t un, size_t vn) {
  unsigned k = in.pick({10, 2, 1, 1});
  if (k == 1) { u.assign(un, ~0ull); v.assign(vn, ~0ull); }                       // maximal convolution coefficients
  else if (k == 2 && vn <= un) { u = limbs(in, un); v.assign(u.begin(), u.begin() + vn); }    // v is a prefix of u (equal when un==vn)
  else if (k == 3) { u.assign(un, ~0ull); v = limbs(in, vn); }
  else { u = limbs(in, un); v = limbs(in, vn); }
  // top piece of a d-way Toom split all zero (high zero limbs are legal at the mpn level), limb below it large
  unsigned z = in.pick({12, 2, 1, 1});
  if (z) {
    static const size_t D[] = {2, 3, 4, 5, 8, 4, 5, 4}; size_t d = D[in.range(0, 7)];
    auto zap = [&](Limbs& w) { size_t n = w.size(), piece = (n + d - 1) / d, keep = (d - 1) * piece; if (keep >= n || keep == 0) return; std::fill(w.begin() + keep, w.end(), 0); if (in.flag()) w[keep - 1] |= 3ull << 62; };
    if (z == 1 || z == 3) zap(u); if (z == 2 || z == 3) zap(v);
  }
}

static void case_mpn_mul(ByteSource& in, CaseInfo& ci) {
  size_t un, vn; gen_shape(in, un, vn); Limbs u, v; gen_operands(in, u, v, un, vn);
  bool same_obj = (un == vn) && in.chance(40); if (same_obj) v = u;
  // the same pointer for both sources with a shorter second length (v is then the low part of u): sources may overlap each other freely
  bool same_ptr_prefix = !same_obj && vn < un && in.chance(24); if (same_ptr_prefix) { v.assign(u.begin(), u.begin() + vn); ci.label("mul:same_pointer_shorter_second_operand"); }
  ci.d("mpn_mul un=%zu vn=%zu%s ", un, vn, same_obj ? " up==vp" : same_ptr_prefix ? " vp==up (prefix)" : ""); DESC(ci, "u=" + show(u, 64) + " v=" + show(v, 64));
  if (const char* r = regime_mul(un, vn)) { ci.label(r); if (!strcmp(r, "mul:fft")) ci.label(fft_depth_label(un, vn)); }
  else { ci.label(same_obj ? regime_sqr(un) : regime_mul_n(un)); if (same_obj) ci.label("mul:same_object"); }
  if (vn >= 2) ci.nontrivial = true;
  Guarded r(un + vn); Limbs u0 = u, v0 = v;
  uint64_t hi = (same_obj || same_ptr_prefix) ? mpn_mul(r.p(), u.data(), un, u.data(), vn) : mpn_mul(r.p(), u.data(), un, v.data(), vn);
  REQUIRE(r.intact(), "mpn_mul(un=%zu,vn=%zu): wrote outside the %zu-limb destination", un, vn, un + vn);
  REQUIRE(u == u0 && (same_obj || v == v0), "mpn_mul(un=%zu,vn=%zu): a source operand was modified", un, vn);
  check_product("mpn_mul", r.p(), u.data(), un, v.data(), vn, ci);
  REQUIRE(hi == r.p()[un + vn - 1], "mpn_mul(un=%zu,vn=%zu): returned high limb 0x%llx differs from the stored one", un, vn, (unsigned long long)hi);
}
static void case_mul_n_sqr(ByteSource& in, CaseInfo& ci) {
  bool sq = in.flag();
  size_t cap = std::max<size_t>(1, total_cap(in.scale) / 2);
  size_t n = sq ? size_near(in, 1, cap, {SQR_KARATSUBA_THRESHOLD, SQR_TOOM3_THRESHOLD, SQR_TOOM4_THRESHOLD, SQR_TOOM8_THRESHOLD, SQR_FFT_FULL_THRESHOLD})
                : size_near(in, 1, cap, {MUL_KARATSUBA_THRESHOLD, MUL_TOOM3_THRESHOLD, MUL_TOOM4_THRESHOLD, MUL_TOOM8H_THRESHOLD, MUL_FFT_FULL_THRESHOLD});
  Limbs u, v; gen_operands(in, u, v, n, n);
  bool same_obj = !sq && in.chance(30);
  ci.d("%s n=%zu%s ", sq ? "mpn_sqr" : "mpn_mul_n", n, same_obj ? " up==vp" : ""); DESC(ci, "u=" + show(u, 64) + (sq ? "" : " v=" + show(v, 64)));
  ci.label(sq ? regime_sqr(n) : regime_mul_n(n)); if (n >= 2) ci.nontrivial = true;
  Guarded r(2 * n); Limbs u0 = u, v0 = v;
  if (sq) mpn_sqr(r.p(), u.data(), n); else if (same_obj) mpn_mul_n(r.p(), u.data(), u.data(), n); else mpn_mul_n(r.p(), u.data(), v.data(), n);
  REQUIRE(r.intact(), "%s(n=%zu): wrote outside the destination", sq ? "mpn_sqr" : "mpn_mul_n", n);
  REQUIRE(u == u0 && v == v0, "%s(n=%zu): a source operand was modified", sq ? "mpn_sqr" : "mpn_mul_n", n);
  check_product(sq ? "mpn_sqr" : "mpn_mul_n", r.p(), u.data(), n, (sq || same_obj) ? u.data() : v.data(), n, ci);
}
static void case_mul_1(ByteSource& in, CaseInfo& ci) {
  unsigned f = (unsigned)in.range(0, 2); static const char* names[] = {"mpn_mul_1", "mpn_addmul_1", "mpn_submul_1"};
  size_t cap = expcap(in.scale, 8, 4000); size_t n = in.flag() ? (size_t)in.range(1, std::min<size_t>(cap, 70)) : (size_t)in.logrange(1, cap);
  Limbs u = limbs(in, n), r0 = limbs(in, n); uint64_t v = in.pick({3, 2}) == 0 ? in.u64() : PALETTE[in.u8() & 7];
  if (in.chance(50)) { u.assign(n, ~0ull); if (f) r0.assign(n, f == 1 ? ~0ull : 0ull); }
  // overlap: mul_1 allows rp <= s1p (we use rp == s1p and rp = s1p - k); addmul/submul: rp distinct or identical
  unsigned ov = f == 0 ? in.pick({3, 2, 2}) : in.pick({3, 2});
  size_t k = ov == 2 ? (size_t)in.range(1, 4) : 0;
  ci.label(names[f]); if (n >= 2) ci.nontrivial = true; if (ov) ci.label("mul_1:overlap");
  ci.d("%s n=%zu v=0x%llx overlap=%u k=%zu ", names[f], n, (unsigned long long)v, ov, k); DESC(ci, "u=" + show(u, 64));
  size_t G = 4; std::vector<uint64_t> arena(G + k + n + G + n + G, 0x77);
  uint64_t *rp, *up;
  if (ov == 0) { up = &arena[G]; rp = &arena[G + n + G]; } else if (ov == 1) { up = rp = &arena[G]; } else { rp = &arena[G]; up = &arena[G + k]; }
  if (ov == 1 && f) r0 = u;
  memcpy(up, u.data(), n * 8); if (f && ov == 0) memcpy(rp, r0.data(), n * 8);
  std::vector<uint64_t> before = arena;
  Int U = Int::from_limbs(u.data(), n), V = Int::from_u64(v), R0 = Int::from_limbs(r0.data(), n), B = ref::pow2(64 * n), E; uint64_t ecy;
  if (f == 0) E = U * V; else if (f == 1) E = R0 + U * V; else { E = R0 - U * V; }
  if (f == 2) { Int q, r; ref::fdivrem(E, B, q, r); ecy = (-q).low(); E = r; } else { Int q, r; ref::fdivrem(E, B, q, r); ecy = q.low(); E = r; }
  uint64_t cy = f == 0 ? mpn_mul_1(rp, up, n, v) : f == 1 ? mpn_addmul_1(rp, up, n, v) : mpn_submul_1(rp, up, n, v);
  REQUIRE(cy == ecy, "%s(n=%zu): returned limb 0x%llx, expected 0x%llx", names[f], n, (unsigned long long)cy, (unsigned long long)ecy);
  REQUIRE(Int::from_limbs(rp, n) == E, "%s(n=%zu,overlap=%u): wrong result limbs", names[f], n, ov);
  for (size_t i = 0; i < arena.size(); i++) if (!(&arena[i] >= rp && &arena[i] < rp + n)) REQUIRE(arena[i] == before[i], "%s(n=%zu): limb outside the destination changed", names[f], n);
}
static void case_fft_direct(ByteSource& in, CaseInfo& ci) {
  // mpn_mul_fft_main called directly the way tests/fft/t-mul_fft_main.c does: n1 >= n2, both operands a sizeable
  // share of the transform (n2 >= n1/6), total above the function's minimum (ASSERT j1+j2-1 > 2n at depth 6).
  size_t cap = std::max<size_t>(140, expcap(in.scale, 140, 12000));
  size_t tot = (size_t)in.logrange(80, cap); size_t n2 = (size_t)in.range(std::max<size_t>(1, tot / 7), tot / 2), n1 = tot - n2;
  if (n1 < n2) std::swap(n1, n2);
  if (!fft_main_ok(n1, n2)) { n1 = 40; n2 = 30; }
  Limbs u, v; gen_operands(in, u, v, n1, n2);
  ci.label("fft_direct"); ci.label(fft_depth_label(n1, n2)); ci.nontrivial = true;
  ci.d("mpn_mul_fft_main n1=%zu n2=%zu ", n1, n2); DESC(ci, "u=" + show(u, 64) + " v=" + show(v, 64));
  bool same_ptr = n2 <= n1 && in.chance(30); if (same_ptr) { v.assign(u.begin(), u.begin() + n2); ci.label("mul:same_pointer_shorter_second_operand"); }
  Guarded r(n1 + n2); Limbs u0 = u, v0 = v;
  mpn_mul_fft_main(r.p(), u.data(), n1, same_ptr ? u.data() : v.data(), n2);
  REQUIRE(r.intact(), "mpn_mul_fft_main(%zu,%zu): wrote outside the destination", n1, n2);
  REQUIRE(u == u0 && v == v0, "mpn_mul_fft_main(%zu,%zu): a source operand was modified", n1, n2);
  check_product("mpn_mul_fft_main", r.p(), u.data(), n1, v.data(), n2, ci);
}
static void case_mpz(ByteSource& in, CaseInfo& ci) {
  unsigned f = in.pick({10, 3, 3, 5, 5, 3, 3}); static const char* names[] = {"mpz_mul", "mpz_mul_ui", "mpz_mul_si", "mpz_addmul", "mpz_submul", "mpz_addmul_ui", "mpz_submul_ui"};
  ci.label(names[f]);
  size_t un, vn; gen_shape(in, un, vn); if (in.chance(30)) vn = 0; if (in.chance(20)) un = 0;
  if (f >= 3 && un + vn > 3000) { un = un % 1500; vn = vn % 1500; }
  if (un + vn > EXACT_LIMIT) { un = un % (EXACT_LIMIT / 2); vn = vn % (EXACT_LIMIT / 2); }   // the mpz layer is compared with the exact refint product only
  Limbs ul, vl; gen_operands(in, ul, vl, std::max<size_t>(un, 1), std::max<size_t>(vn, 1)); ul.resize(un); vl.resize(vn);
  Int U = Int::from_limbs(ul.data(), un, in.flag()), V = Int::from_limbs(vl.data(), vn, in.flag());
  if (in.flag()) std::swap(U, V);
  mpz_t u, v, w; mpz_init(u); mpz_init(v); mpz_init(w);
  struct Clr { mpz_ptr a, b, c; ~Clr() { mpz_clear(a); mpz_clear(b); mpz_clear(c); } } clr{u, v, w};
  mpz_from_int(u, U); mpz_from_int(v, V);
  if (U.size() >= 2 && (f == 1 || f == 2 || f >= 5 || V.size() >= 2)) ci.nontrivial = true;
  if (f == 0) {
    unsigned al = in.pick({4, 2, 2, 2, 1});   // distinct, w==u, w==v, u==v (same object), w==u==v
    Int E; mpz_ptr rp = w; { Limbs junk = limbs_nz(in, (size_t)in.range(0, 3)); mpz_from_limbs(w, junk.data(), junk.size(), in.flag()); }
    if (al == 0) { E = U * V; mpz_mul(w, u, v); }
    else if (al == 1) { E = U * V; mpz_mul(u, u, v); rp = u; }
    else if (al == 2) { E = U * V; mpz_mul(v, u, v); rp = v; }
    else if (al == 3) { E = U * U; mpz_mul(w, u, u); }
    else { E = U * U; mpz_mul(u, u, u); rp = u; }
    ci.d("mpz_mul alias=%u ", al); DESC(ci, "u=" + show(U, 64) + " v=" + show(V, 64));
    if (al) ci.label("mpz_mul:aliased"); if (al >= 3) ci.label("mul:same_object");
    if (U.size() && V.size() && al < 3) { if (const char* r = regime_mul(std::max(U.size(), V.size()), std::min(U.size(), V.size()))) ci.label(r); }
    REQUIRE_WF(rp, "mpz_mul"); REQUIRE(int_from_mpz(rp) == E, "mpz_mul (alias pattern %u, |u|=%zu limbs, |v|=%zu limbs): wrong product", al, U.size(), V.size());
    if (al != 1 && al != 4) REQUIRE(int_from_mpz(u) == U, "mpz_mul: input u modified");
    if (al != 2) REQUIRE(int_from_mpz(v) == V, "mpz_mul: input v modified");
  } else if (f == 1 || f == 2) {
    uint64_t x = in.pick({3, 2}) == 0 ? in.u64() : PALETTE[in.u8() & 7]; bool inplace = in.flag(); mpz_ptr rp = inplace ? u : w;
    Int E = f == 1 ? U * Int::from_u64(x) : U * Int((long long)(int64_t)x);
    if (f == 1) mpz_mul_ui(rp, u, x); else mpz_mul_si(rp, u, (int64_t)x);
    ci.d("%s x=%lld inplace=%d ", names[f], (long long)x, (int)inplace); DESC(ci, "u=" + show(U, 64));
    REQUIRE_WF(rp, names[f]); REQUIRE(int_from_mpz(rp) == E, "%s: wrong product", names[f]);
    if (!inplace) REQUIRE(int_from_mpz(u) == U, "%s: input modified", names[f]);
  } else {
    // accumulator: sizes/signs related to the product so that every branch (grow, shrink, sign change, cancel) occurs
    bool ui = f >= 5; uint64_t x = in.pick({3, 2}) == 0 ? in.u64() : PALETTE[in.u8() & 7];
    Int P = ui ? U * Int::from_u64(x) : U * V; Int W;
    unsigned rel = in.pick({3, 2, 2, 2, 2});
    if (rel == 0) W = gen_int(in, std::max<size_t>(1, P.size() + 2));
    else if (rel == 1) W = P; else if (rel == 2) W = -P;
    else if (rel == 3) W = (in.flag() ? P : -P) + Int((long long)in.srange(-3, 3));
    else { W = P; if (!W.is_zero()) { W.m[W.m.size() - 1] ^= 1ull << in.range(0, 63); W.fix(); } if (in.flag()) W = -W; }
    bool add = (f == 3 || f == 5); Int E = add ? W + P : W - P;
    mpz_from_int(w, W);
    unsigned al = ui ? in.pick({3, 1}) : in.pick({4, 1, 1, 1});   // distinct; w==u; w==v; u==v
    ci.d("%s x=%llu alias=%u rel=%u ", names[f], (unsigned long long)x, al, rel); DESC(ci, "w=" + show(W, 64) + " u=" + show(U, 64) + (ui ? "" : " v=" + show(V, 64)));
    if (E.sgn() * W.sgn() < 0) ci.label("aorsmul:sign_change"); if (E.is_zero() && !W.is_zero()) ci.label("aorsmul:cancel_to_zero");
    mpz_ptr rp = w;
    if (al == 0) { if (ui) { if (add) mpz_addmul_ui(w, u, x); else mpz_submul_ui(w, u, x); } else { if (add) mpz_addmul(w, u, v); else mpz_submul(w, u, v); } }
    else if (al == 1) { // w is u
      Int PP = ui ? U * Int::from_u64(x) : U * V; E = add ? U + PP : U - PP; rp = u;
      if (ui) { if (add) mpz_addmul_ui(u, u, x); else mpz_submul_ui(u, u, x); } else { if (add) mpz_addmul(u, u, v); else mpz_submul(u, u, v); } }
    else if (al == 2) { Int PP = U * V; E = add ? V + PP : V - PP; rp = v; if (add) mpz_addmul(v, u, v); else mpz_submul(v, u, v); }
    else { Int PP = U * U; E = add ? W + PP : W - PP; if (add) mpz_addmul(w, u, u); else mpz_submul(w, u, u); }
    if (al) ci.label("aorsmul:aliased");
    REQUIRE_WF(rp, names[f]); REQUIRE(int_from_mpz(rp) == E, "%s (alias pattern %u, accumulator relation %u): wrong result", names[f], al, rel);
    if (al != 1) REQUIRE(int_from_mpz(u) == U, "%s: input u modified", names[f]);
    if (!ui && al != 2) REQUIRE(int_from_mpz(v) == V, "%s: input v modified", names[f]);
  }
}

static void case_huge(ByteSource& in, CaseInfo& ci) {
  // MFA regime of the FFT multiplier (mpn_mul_fft_main depth >= 11: un+vn above ~65000 limbs): rare class, fingerprint oracle
  size_t tot = (size_t)in.logrange(66000, in.scale >= 120 ? 600000 : 150000); size_t vn = (size_t)in.range(tot / 4, tot / 2), un = tot - vn;
  unsigned st = in.pick({3, 3, 2, 2, 2});   // random; u power of two; v power of two; all ones; sparse
  Limbs u, v;
  if (st == 0) { u = limbs(in, un, S_UNIFORM); v = limbs(in, vn, S_UNIFORM); } else if (st == 1) { u = limbs(in, un, S_SINGLEBIT); v = limbs(in, vn); }
  else if (st == 2) { u = limbs(in, un); v = limbs(in, vn, S_SINGLEBIT); } else if (st == 3) { u.assign(un, ~0ull); v.assign(vn, ~0ull); } else { u = limbs(in, un, S_SPARSE); v = limbs(in, vn, S_RUNS); }
  bool sq = in.chance(40);
  ci.label("huge_mfa"); ci.label(fft_depth_label(un, sq ? un : vn)); ci.nontrivial = true; static const char* SN[] = {"random", "u=2^k", "v=2^k", "all-ones", "sparse x runs"};
  ci.d("%s un=%zu vn=%zu operands %s ", sq ? "mpn_sqr" : "mpn_mul", un, sq ? un : vn, SN[st]); DESC(ci, "u=" + show(u, 64) + " v=" + show(v, 64));
  if (sq) { Guarded r(2 * un); mpn_sqr(r.p(), u.data(), un); REQUIRE(r.intact(), "mpn_sqr(n=%zu): wrote outside the destination", un); check_product("mpn_sqr", r.p(), u.data(), un, u.data(), un, ci); }
  else { Guarded r(un + vn); mpn_mul(r.p(), u.data(), un, v.data(), vn); REQUIRE(r.intact(), "mpn_mul(un=%zu,vn=%zu): wrote outside the destination", un, vn); check_product("mpn_mul", r.p(), u.data(), un, v.data(), vn, ci); }
}
static void check(ByteSource& in, CaseInfo& ci) {
  if (in.scale >= 90 && (in.u8() ^ 0xA5u) < 4 && in.chance(128)) { case_huge(in, ci); return; }   // ~1 in 128 of the top size classes; never for an exhausted (all-zero) stream
  switch (in.pick({8, 4, 3, 2, 5})) {
    case 0: case_mpn_mul(in, ci); break; case 1: case_mul_n_sqr(in, ci); break; case 2: case_mul_1(in, ci); break;
    case 3: case_fft_direct(in, ci); break; default: case_mpz(in, ci); break;
  }
}
namespace eng {
PropDef g_prop = {"C01",
  "Cases: one call of mpn_mul (un>=vn>=1; (un,vn) region-targeted for every branch of the size dispatch: tiny, thresholds +-2, un/vn ratios at the Toom dispatch boundaries, un+vn around 2*threshold, very unbalanced incl. chunked basecase un>500, log-uniform to the scale cap), mpn_mul_n / mpn_sqr (n around every threshold), mpn_mul_1/addmul_1/submul_1 (incl. in-place and rp=s1p-k overlap for mul_1), mpn_mul_fft_main called directly (n2>=n1/7), mpz_mul (signs, zero, all alias patterns incl. same object), mpz_mul_ui/si, mpz_addmul/submul(_ui) with accumulators equal/opposite/near the product. Limb styles uniform/runs/palette/all-ones/single-bit/low-zero, all-ones x all-ones, v a prefix of u (also as the same pointer with a shorter length), top piece of a 2/3/4/5/8-way split zero; a rare class (about 1 in 128 cases at scale >= 90, i.e. ~1 in 1300 overall) multiplies 66000..150000-limb (thorough: ..600000) operands in the MFA regime of the FFT with random, power-of-two, all-ones and sparse operands. Oracle: refint product limb by limb (un+vn <= 24000 limbs), above that fingerprints modulo four 61-bit primes, 2^64 and 2^64-1; guard limbs; sources unchanged. Non-trivial: vn >= 2 (mpn) / operands >= 2 limbs (mpz). Distinct = hash of all decoded choices.",
  check, nullptr, {"mul:basecase", "mul:basecase_chunked", "mul:toom42", "mul:toom32", "mul:toom3_unbal", "mul:toom53", "mul:toom4", "mul:toom8h", "mul:fft", "mul:mul_n_plus_tail", "mul_n:fft", "sqr:fft", "sqr:toom8", "fft_direct", "aorsmul:sign_change", "mul:same_object", "mul:same_pointer_shorter_second_operand", "huge_mfa"}};
}
