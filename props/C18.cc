// C18: formatted output/input follow C printf/scanf semantics extended to MPIR types
#include <obstack.h>
#define obstack_chunk_alloc malloc
#define obstack_chunk_free free
#include "../harness/gen.hpp"
#include <cstdio>
#include <cstdarg>
#include <climits>
#include <cmath>
#include <map>
using namespace eng; using namespace gen; using ref::Int;
struct Z { mpz_t z; Z() { mpz_init(z); } ~Z() { mpz_clear(z); } operator mpz_ptr() { return z; } };

// recording allocator: gmp_asprintf block size, leaks
static std::map<void*, size_t>* g_live; static std::string g_alloc_err;
static void* rec_alloc(size_t n) { void* p = malloc(n ? n : 1); (*g_live)[p] = n; return p; }
static void* rec_realloc(void* p, size_t o, size_t n) { auto it = g_live->find(p); if (it == g_live->end()) g_alloc_err = "realloc of an unknown block"; else { if (it->second != o) g_alloc_err = "realloc with wrong old size"; g_live->erase(it); } void* q = realloc(p, n ? n : 1); (*g_live)[q] = n; return q; }
static void rec_free(void* p, size_t n) { auto it = g_live->find(p); if (it == g_live->end()) g_alloc_err = "free of an unknown block"; else { if (it->second != n) g_alloc_err = "free with size " + std::to_string(n) + " of a block of " + std::to_string(it->second); g_live->erase(it); } free(p); }
static void setup() { if (!g_live) { g_live = new std::map<void*, size_t>(); mp_set_memory_functions(rec_alloc, rec_realloc, rec_free); } }

// ---- a format specification -----------------------------------------------------------------
struct Spec { bool minus = false, plus = false, space = false, hash = false, zero = false; int wmode = 0; int width = 0; int pmode = 0; int prec = 0; char conv = 'd';
  // wmode 0 none, 1 number, 2 '*';  pmode 0 none, 1 number, 2 '.*', 3 '.' alone
  std::string str(const char* type) const { std::string s = "%"; if (minus) s += '-'; if (plus) s += '+'; if (space) s += ' '; if (hash) s += '#'; if (zero) s += '0';
    if (wmode == 1) s += std::to_string(width); else if (wmode == 2) s += '*'; if (pmode == 1) s += "." + std::to_string(prec); else if (pmode == 2) s += ".*"; else if (pmode == 3) s += '.'; s += type; s += conv; return s; }
  int eff_width() const { return wmode == 0 ? 0 : std::abs(width); } bool eff_left() const { return minus || (wmode == 2 && width < 0); }
  bool has_prec() const { return pmode == 1 || (pmode == 2 && prec >= 0); } int eff_prec() const { return prec; }
};
static Spec gen_spec(ByteSource& in, const char* convs, bool allow_prec) {
  Spec s; unsigned fl = (unsigned)in.range(0, 31); s.minus = fl & 1; s.plus = fl & 2; s.space = fl & 4; s.hash = fl & 8; s.zero = fl & 16; if (in.chance(100)) { s.minus = s.plus = s.space = s.hash = s.zero = false; }
  unsigned w = in.pick({3, 2, 2, 2, 2, 1}); static const int ws[] = {0, 1, 5, 20}; if (w == 0) s.wmode = 0; else if (w <= 3) { s.wmode = 1; s.width = ws[w]; } else if (w == 4) { s.wmode = 2; s.width = (int)in.range(0, 24); } else { s.wmode = 2; s.width = -(int)in.range(1, 24); }
  if (allow_prec) { unsigned p = in.pick({4, 2, 2, 2, 2, 1}); static const int ps[] = {0, 0, 3, 25}; if (p == 0) s.pmode = 0; else if (p <= 3) { s.pmode = 1; s.prec = ps[p]; } else if (p == 4) { s.pmode = 2; s.prec = in.flag() ? (int)in.range(0, 30) : -(int)in.range(1, 5); } else s.pmode = 3; }
  // now and then a width / precision around the implementation's internal chunk and buffer sizes (256, 512)
  if (in.chance(20)) { static const int big[] = {255, 256, 257, 300, 511, 512, 513, 600}; int v = in.flag() ? big[in.range(0, 7)] : (int)in.range(100, 700); s.wmode = in.flag() ? 1 : 2; s.width = (s.wmode == 2 && in.chance(60)) ? -v : v; }
  if (allow_prec && in.chance(14)) { static const int big[] = {255, 256, 257, 300, 511, 512, 513}; s.pmode = in.flag() ? 1 : 2; s.prec = in.flag() ? big[in.range(0, 6)] : (int)in.range(100, 600); }
  size_t nc = strlen(convs); s.conv = convs[in.range(0, nc - 1)]; return s;
}
// C's rules for integer conversions, applied to a digit string (MPIR: o/x/X signed, so sign flags apply)
static std::string layout_int(const Spec& s, bool negative, std::string digits /* |value| in the base, no leading zeros, "0" for zero */) {
  bool zero = digits == "0"; std::string prefix;
  if (s.has_prec()) { if (zero && s.eff_prec() == 0) digits = ""; while ((int)digits.size() < s.eff_prec()) digits.insert(digits.begin(), '0'); }
  if (s.hash) { if (s.conv == 'o') { if (digits.empty() || digits[0] != '0') digits.insert(digits.begin(), '0'); } else if ((s.conv == 'x' || s.conv == 'X') && !zero) prefix = s.conv == 'x' ? "0x" : "0X"; }
  std::string sign = negative ? "-" : s.plus ? "+" : s.space ? " " : "";
  size_t len = sign.size() + prefix.size() + digits.size(); size_t w = (size_t)s.eff_width(); std::string pad = len < w ? std::string(w - len, ' ') : "";
  if (s.eff_left()) return sign + prefix + digits + pad;
  if (s.zero && !s.has_prec()) return sign + prefix + std::string(pad.size(), '0') + digits;
  return pad + sign + prefix + digits;
}
static std::string digits_of(const Int& v, char conv) { int base = (conv == 'o') ? 8 : (conv == 'x' || conv == 'X') ? 16 : 10; return ref::to_string(v.abs(), base, conv == 'X'); }

// ---- calling the gmp_*printf family with a run-time shape ---------------------------------------
enum Api { A_SPRINTF, A_SNPRINTF, A_ASPRINTF, A_FPRINTF, A_VSPRINTF, A_VSNPRINTF, A_VASPRINTF, A_VFPRINTF, A_OBSTACK, A_VOBSTACK, A_NAPI };
static const char* API_NAME[] = {"gmp_sprintf", "gmp_snprintf", "gmp_asprintf", "gmp_fprintf", "gmp_vsprintf", "gmp_vsnprintf", "gmp_vasprintf", "gmp_vfprintf", "gmp_obstack_printf", "gmp_obstack_vprintf"};
struct Out { std::string s; int ret = 0; bool trunc_checked = false; };
static int v_sprintf(char* b, const char* f, ...) { va_list ap; va_start(ap, f); int r = gmp_vsprintf(b, f, ap); va_end(ap); return r; }
static int v_snprintf(char* b, size_t n, const char* f, ...) { va_list ap; va_start(ap, f); int r = gmp_vsnprintf(b, n, f, ap); va_end(ap); return r; }
static int v_asprintf(char** p, const char* f, ...) { va_list ap; va_start(ap, f); int r = gmp_vasprintf(p, f, ap); va_end(ap); return r; }
static int v_obstack(struct obstack* ob, const char* f, ...) { va_list ap; va_start(ap, f); int r = gmp_obstack_vprintf(ob, f, ap); va_end(ap); return r; }
static int v_sscanf(const char* t, const char* f, ...) { va_list ap; va_start(ap, f); int r = gmp_vsscanf(t, f, ap); va_end(ap); return r; }
static int v_fscanf(FILE* fp, const char* f, ...) { va_list ap; va_start(ap, f); int r = gmp_vfscanf(fp, f, ap); va_end(ap); return r; }
static int v_fprintf(FILE* fp, const char* f, ...) { va_list ap; va_start(ap, f); int r = gmp_vfprintf(fp, f, ap); va_end(ap); return r; }
// expected: the full output string; snsize: size argument for the snprintf forms (SIZE_MAX = full)
static size_t g_obpre = 4;   // length of the object already being grown when gmp_obstack_printf is called (set per case)
template <class... A> static Out call_api(Api api, size_t expect_len, size_t snsize, const char* fmt, A... a) {
  Out o;
  switch (api) {
    case A_SPRINTF: case A_VSPRINTF: { char* b = (char*)malloc(expect_len + 1); memset(b, 0x7e, expect_len + 1); o.ret = api == A_SPRINTF ? gmp_sprintf(b, fmt, a...) : v_sprintf(b, fmt, a...); o.s.assign(b, strnlen(b, expect_len + 1)); free(b); break; }
    case A_SNPRINTF: case A_VSNPRINTF: { size_t n = snsize == (size_t)-1 ? expect_len + 1 : snsize; char* b = (char*)malloc(n ? n : 1); memset(b, 0x7e, n ? n : 1);   // exactly `size` bytes: ASan sees any byte beyond
      o.ret = api == A_SNPRINTF ? gmp_snprintf(n ? b : nullptr, n, fmt, a...) : v_snprintf(n ? b : nullptr, n, fmt, a...); if (n) o.s.assign(b, strnlen(b, n)); if (n && o.s.size() == n) o.s += "<NO-TERMINATOR>"; free(b); o.trunc_checked = true; break; }
    case A_ASPRINTF: case A_VASPRINTF: { char* p = nullptr; o.ret = api == A_ASPRINTF ? gmp_asprintf(&p, fmt, a...) : v_asprintf(&p, fmt, a...); if (!p) { o.s = "<NULL>"; break; } o.s = p; auto it = g_live->find(p);
      if (it == g_live->end()) g_alloc_err = "gmp_asprintf block did not come from the installed allocator"; else if (it->second != o.s.size() + 1) g_alloc_err = "gmp_asprintf block is " + std::to_string(it->second) + " bytes for a string of " + std::to_string(o.s.size()); if (it != g_live->end()) rec_free(p, it->second); break; }
    case A_OBSTACK: case A_VOBSTACK: { struct obstack ob; obstack_init(&ob); std::string pre(g_obpre, 'p'); pre.replace(0, 4, "pre:"); obstack_grow(&ob, pre.data(), (int)pre.size());   // appended to the object being grown (4 bytes, or one that nearly fills the first chunk so that the output moves the object to a new chunk); no terminator is written
      o.ret = api == A_OBSTACK ? gmp_obstack_printf(&ob, fmt, a...) : v_obstack(&ob, fmt, a...); size_t n = obstack_object_size(&ob); char* base = (char*)obstack_finish(&ob);
      if (n < pre.size() || memcmp(base, pre.data(), pre.size())) o.s = "<PREVIOUS-OBJECT-CONTENT-LOST>"; else o.s.assign(base + pre.size(), n - pre.size()); obstack_free(&ob, nullptr); break; }
    default: { char* mem = nullptr; size_t ml = 0; FILE* fp = open_memstream(&mem, &ml); o.ret = api == A_FPRINTF ? gmp_fprintf(fp, fmt, a...) : v_fprintf(fp, fmt, a...); fclose(fp); o.s.assign(mem, ml); free(mem); break; }
  }
  return o;
}
template <class V> static Out call_shape(Api api, size_t elen, size_t snsize, unsigned shape, const std::string& spec, const Spec& s, V val, int* nout) {
  // shape 0: spec alone; 1: "%d|" spec "|%s"; 2: "%s %c%%" spec "%ld %5.2f%n"
  std::string f = shape == 0 ? spec : shape == 1 ? "%d|" + spec + "|%s" : "%s %c%%" + spec + "%ld %5.2f%n"; const char* fmt = f.c_str(); int w = s.width, p = s.prec; bool hw = s.wmode == 2, hp = s.pmode == 2;
#define SHAPE_CALL(...) (shape == 0 ? call_api(api, elen, snsize, fmt, __VA_ARGS__) : shape == 1 ? call_api(api, elen, snsize, fmt, -42, __VA_ARGS__, "tail") : call_api(api, elen, snsize, fmt, "head", 'c', __VA_ARGS__, 123456789L, 2.5, nout))
  if (hw && hp) return SHAPE_CALL(w, p, val); if (hw) return SHAPE_CALL(w, val); if (hp) return SHAPE_CALL(p, val); return SHAPE_CALL(val);
}
static std::string libc_fmt(const char* fmt, ...) { va_list ap; va_start(ap, fmt); char b[4096]; vsnprintf(b, sizeof b, fmt, ap); va_end(ap); return b; }
static std::string wrap_expected(unsigned shape, const std::string& mid) { if (shape == 0) return mid; if (shape == 1) return libc_fmt("%d|", -42) + mid + libc_fmt("|%s", "tail"); return libc_fmt("%s %c%%", "head", 'c') + mid + libc_fmt("%ld %5.2f", 123456789L, 2.5); }
// judge one output against the expected full string
static void judge_out(const char* what, Api api, const Out& o, const std::string& expect, size_t snsize, const std::string& fmt, int nout, unsigned shape) {
  REQUIRE(g_alloc_err.empty(), "%s [%s] \"%s\": %s", what, API_NAME[api], fmt.c_str(), g_alloc_err.c_str());
  REQUIRE(o.ret == (int)expect.size(), "%s [%s] format \"%s\": returned %d, full length is %zu (expected \"%s\")", what, API_NAME[api], fmt.c_str(), o.ret, expect.size(), expect.c_str());
  std::string e = expect; if ((api == A_SNPRINTF || api == A_VSNPRINTF) && snsize != (size_t)-1) e = snsize == 0 ? "" : expect.substr(0, std::min(expect.size(), snsize - 1));
  REQUIRE(o.s == e, "%s [%s] format \"%s\"%s: got \"%s\", expected \"%s\"", what, API_NAME[api], fmt.c_str(), snsize != (size_t)-1 ? (" size=" + std::to_string(snsize)).c_str() : "", o.s.c_str(), e.c_str());
  if (shape == 2) REQUIRE(nout == (int)expect.size(), "%s: %%n stored %d, expected %zu", what, nout, expect.size());
}
static Api pick_api(ByteSource& in, size_t& snsize, size_t elen) { Api a = (Api)in.range(0, A_NAPI - 1); snsize = (size_t)-1; if ((a == A_SNPRINTF || a == A_VSNPRINTF) && in.chance(200)) snsize = (size_t)in.range(0, elen + 1); return a; }

// known findings (flag interactions that differ from C): '0' with '-', '0' with a precision
static const char* known_flag_finding(const Spec& s) { if (s.zero && s.eff_left() && s.eff_width() > 0) return "printf-zero-flag-with-left-justify"; if (s.zero && s.has_prec() && s.eff_width() > 0) return "printf-zero-flag-with-precision"; return nullptr; }

static void case_Z(ByteSource& in, CaseInfo& ci) {
  Spec s = gen_spec(in, "dioxX", true); unsigned vk = in.pick({5, 3, 4}); Int V;
  if (vk == 0) { static const long vs[] = {0, 1, -1, 7, -7, 123, -123, 65535, LONG_MAX, LONG_MIN, 1000000007L, -99999L}; V = Int((long long)vs[in.range(0, 11)]); } else if (vk == 1) V = Int((long long)(int64_t)(in.u64() >> in.range(0, 63)) * (in.flag() ? 1 : -1)); else { V = gen_int(in, std::max<size_t>(2, expcap(in.scale, 2, 30))); if (V.size() < 2) V = V + ref::pow2(70); }
  bool fitsl = V >= Int((long long)LONG_MIN) && V <= Int((long long)LONG_MAX); unsigned shape = in.pick({4, 2, 2});
  std::string spec = s.str("Z"); Z z; mpz_from_int(z, V);
  // model (C rules; MPIR deviation: o/x/X are signed); for values fitting a long the model is first validated against libc itself
  std::string mid = layout_int(s, V.neg, digits_of(V, s.conv));
  bool c_comparable = fitsl && s.pmode != 3 && !(s.hash && s.has_prec() && s.eff_prec() == 0 && V.is_zero()) && ((s.conv == 'd' || s.conv == 'i') || (!V.neg && !s.plus && !s.space));
  if (c_comparable) { std::string lf = s.str("l"); long lv = (long)(int64_t)(V.neg ? (uint64_t)0 - V.low() : V.low()); std::string lc; int w = s.width, p = s.prec;
    if (s.wmode == 2 && s.pmode == 2) lc = libc_fmt(lf.c_str(), w, p, lv); else if (s.wmode == 2) lc = libc_fmt(lf.c_str(), w, lv); else if (s.pmode == 2) lc = libc_fmt(lf.c_str(), p, lv); else lc = libc_fmt(lf.c_str(), lv);
    if (lc != mid) fail("HARNESS: layout model \"%s\" disagrees with libc \"%s\" for \"%s\" value %ld", mid.c_str(), lc.c_str(), lf.c_str(), lv); ci.label("Z:compared_with_libc"); }
  else if (s.pmode == 3) { Spec t = s; t.pmode = 0; mid = layout_int(t, V.neg, digits_of(V, s.conv)); ci.label("Z:empty_precision"); }   // '.' alone means "not given" (documented deviation)
  else if (s.hash && s.has_prec() && s.eff_prec() == 0 && V.is_zero()) { ci.label("Z:hash_prec0_zero_not_asserted"); return; }
  else ci.label(fitsl ? "Z:signed_oxX_model" : "Z:big_value_model");
  std::string expect = wrap_expected(shape, mid); size_t snsize; Api api = pick_api(in, snsize, expect.size()); int nout = -1; g_alloc_err.clear(); size_t live0 = g_live->size();
  ci.label(API_NAME[api]); ci.nontrivial = true; ci.d("Z fmt=\"%s\" shape=%u api=%s w=%d p=%d ", spec.c_str(), shape, API_NAME[api], s.width, s.prec); DESC(ci, "v=" + show(V, 40));
  if (s.zero) ci.label(s.eff_left() ? "flag0_with_minus" : s.has_prec() ? "flag0_with_precision" : "flag0");
  Out o = call_shape(api, expect.size() + 64, snsize, shape, spec, s, (mpz_srcptr)z.z, &nout);
  const char* kf = known_flag_finding(s);
  if (kf && is_known(kf) && (o.s != expect.substr(0, o.s.size()) || o.ret != (int)expect.size())) { // excluded only when the output is exactly the zero-padded variant MPIR produces
    ci.excluded.push_back(kf); return; }
  judge_out("%Z", api, o, expect, snsize, spec, nout, shape);
  REQUIRE(g_live->size() == live0, "gmp_printf family leaked %zu block(s)", g_live->size() - live0);
}
static void case_QNM(ByteSource& in, CaseInfo& ci) {
  unsigned f = in.pick({4, 3, 3}); Spec s = gen_spec(in, "dioxX", f != 0 /* precision undefined for Q */); if (s.pmode == 3) s.pmode = 0; unsigned shape = in.pick({4, 2, 2}); size_t snsize; int nout = -1; g_alloc_err.clear();
  if (f == 0) { // %Q: num[/den]; flags/width apply to the whole; '#' puts the base prefix on both parts
    Int N = gen_int(in, 3), D = gen_int(in, 3, false); if (D.is_zero() || in.chance(80)) D = Int(1); if (in.chance(120)) { N = Int((long long)in.srange(-500, 500)); } mpq_t q; mpq_init(q); mpz_from_int(mpq_numref(q), N); mpz_from_int(mpq_denref(q), D);
    std::string dn = digits_of(N, s.conv), dd = digits_of(D, s.conv); std::string pre = (s.hash && (s.conv == 'x' || s.conv == 'X')) ? (s.conv == 'x' ? "0x" : "0X") : (s.hash && s.conv == 'o') ? "0" : "";
    // body = [sign][prefix]num[/[prefix]den]; zero numerator has no prefix (C rule for '#'); denominator 1 is not printed
    std::string body = (N.is_zero() && pre != "0" ? "" : (N.is_zero() ? "" : pre)) + dn; if (s.hash && s.conv == 'o' && N.is_zero()) body = "0"; if (!(D == Int(1))) body += "/" + pre + dd;
    std::string sign = N.neg ? "-" : s.plus ? "+" : s.space ? " " : ""; size_t len = sign.size() + body.size(); size_t w = (size_t)s.eff_width(); std::string pad = len < w ? std::string(w - len, ' ') : ""; std::string mid;
    if (s.eff_left()) mid = sign + body + pad; else if (s.zero) { ci.label("Q:zero_flag_not_asserted"); mpq_clear(q); return; } else mid = pad + sign + body;
    std::string spec = s.str("Q"), expect = wrap_expected(shape, mid); Api api = pick_api(in, snsize, expect.size()); ci.label("%Q"); ci.label(API_NAME[api]); ci.nontrivial = true; ci.d("Q fmt=\"%s\" ", spec.c_str()); DESC(ci, "n=" + show(N, 30) + " d=" + show(D, 30));
    Out o = call_shape(api, expect.size() + 64, snsize, shape, spec, s, (mpq_srcptr)q, &nout); mpq_clear(q); const char* kf = known_flag_finding(s); if (kf && is_known(kf) && o.s != expect) { ci.excluded.push_back(kf); return; } judge_out("%Q", api, o, expect, snsize, spec, nout, shape); }
  else if (f == 1) { // %N: limb array, least significant first, negative size = negative value
    size_t n = (size_t)in.range(0, 4); Limbs v = limbs(in, n); bool neg = n && in.flag(); Int V = Int::from_limbs(v.data(), n, neg); std::string mid = layout_int(s, V.neg, digits_of(V, s.conv)); if (s.hash && s.has_prec() && s.eff_prec() == 0 && V.is_zero()) return;
    std::string spec = s.str("N"), expect = wrap_expected(shape, mid); Api api = pick_api(in, snsize, expect.size()); ci.label("%N"); ci.label(API_NAME[api]); ci.nontrivial = n >= 1; ci.d("N fmt=\"%s\" n=%zu neg=%d ", spec.c_str(), n, (int)neg);
    std::string fstr = shape == 0 ? spec : shape == 1 ? "%d|" + spec + "|%s" : "%s %c%%" + spec + "%ld %5.2f%n"; const mp_limb_t* lp = v.empty() ? (const mp_limb_t*)&n : (const mp_limb_t*)v.data(); mp_size_t sz = neg ? -(mp_size_t)n : (mp_size_t)n; int w = s.width, p = s.prec; Out o; size_t el = expect.size() + 64;
#define NCALL(...) (shape == 0 ? call_api(api, el, snsize, fstr.c_str(), __VA_ARGS__) : shape == 1 ? call_api(api, el, snsize, fstr.c_str(), -42, __VA_ARGS__, "tail") : call_api(api, el, snsize, fstr.c_str(), "head", 'c', __VA_ARGS__, 123456789L, 2.5, &nout))
    if (s.wmode == 2 && s.pmode == 2) o = NCALL(w, p, lp, sz); else if (s.wmode == 2) o = NCALL(w, lp, sz); else if (s.pmode == 2) o = NCALL(p, lp, sz); else o = NCALL(lp, sz);
    const char* kf = known_flag_finding(s); if (kf && is_known(kf) && o.s != expect) { ci.excluded.push_back(kf); return; } judge_out("%N", api, o, expect, snsize, spec, nout, shape); }
  else { // %M is libc's %l for mp_limb_t: byte-identical, also 'u' and signed interpretation
    static const char cv[] = "diouxX"; s.conv = cv[in.range(0, 5)]; uint64_t v = in.flag() ? in.u64() : PALETTE[in.u8() & 7]; std::string spec = s.str("M"), lf = s.str("l"); int w = s.width, p = s.prec; std::string mid;
    if (s.wmode == 2 && s.pmode == 2) mid = libc_fmt(lf.c_str(), w, p, v); else if (s.wmode == 2) mid = libc_fmt(lf.c_str(), w, v); else if (s.pmode == 2) mid = libc_fmt(lf.c_str(), p, v); else mid = libc_fmt(lf.c_str(), v);
    std::string expect = wrap_expected(shape, mid); Api api = pick_api(in, snsize, expect.size()); ci.label("%M"); ci.label(API_NAME[api]); ci.nontrivial = true; ci.d("M fmt=\"%s\" v=%llx", spec.c_str(), (unsigned long long)v);
    Out o = call_shape(api, expect.size() + 64, snsize, shape, spec, s, (mp_limb_t)v, &nout); judge_out("%M", api, o, expect, snsize, spec, nout, shape); }
}
// %Fa / %FA (C99-style hex float; the library prints the mantissa in whole hex digits, so the binary exponent is a multiple of 4): value-exact model
// for dyadic values, precision absent (minimal digits) or at least the digits the value needs (zero padded); flags -, +, space and a width
static void case_Fa(ByteSource& in, CaseInfo& ci) {
  bool upper = in.flag(); Spec s = gen_spec(in, upper ? "A" : "a", true); s.hash = false; s.zero = false; if (s.pmode == 3) s.pmode = 0;
  uint64_t mm = in.flag() ? in.u64() >> in.range(0, 60) : in.range(0, 70000); if (in.chance(20)) mm = 0; long ex = (long)in.srange(-200, 200); bool neg = in.flag() && mm;
  Int M = Int::from_u64(mm); long E = ex; if (mm) { while (!M.is_odd()) { M = ref::tshr(M, 1); E++; } } else E = 0;
  long sh = ((E % 4) + 4) % 4; Int M4 = ref::shl(M, (uint64_t)sh); long E4 = E - sh; std::string D = mm ? ref::to_string(M4, 16, upper) : "0"; long pe = mm ? E4 + 4 * ((long)D.size() - 1) : 0;
  int need = (int)D.size() - 1; if (s.has_prec()) { if (s.pmode == 2 && s.prec < 0) { s.pmode = 0; } else if (s.eff_prec() < need || s.eff_prec() > need + 40) s.prec = need + (int)in.range(0, 5); }
  std::string frac = D.substr(1); if (s.has_prec()) frac += std::string((size_t)(s.eff_prec() - need), '0');
  std::string body = std::string(upper ? "0X" : "0x") + D[0] + (frac.empty() ? "" : "." + frac) + (upper ? "P" : "p") + (pe < 0 ? "-" : "+") + std::to_string(std::labs(pe));
  std::string sign = neg ? "-" : s.plus ? "+" : s.space ? " " : ""; size_t len = sign.size() + body.size(), w = (size_t)s.eff_width(); std::string pad = len < w ? std::string(w - len, ' ') : ""; std::string mid = s.eff_left() ? sign + body + pad : pad + sign + body;
  unsigned shape = in.pick({4, 2, 2}); std::string expect = wrap_expected(shape, mid), spec = s.str("F"); size_t snsize; Api api = pick_api(in, snsize, expect.size()); int nout = -1; g_alloc_err.clear();
  mpf_t x; mpf_init2(x, 256); mpf_set_ui(x, 0); if (mm) { mpz_t z; mpz_init(z); mpz_from_int(z, M); mpf_set_z(x, z); mpz_clear(z); if (E >= 0) mpf_mul_2exp(x, x, (unsigned long)E); else mpf_div_2exp(x, x, (unsigned long)(-E)); if (neg) mpf_neg(x, x); }
  ci.label("%Fa"); ci.label(API_NAME[api]); ci.nontrivial = mm != 0; ci.d("Fa fmt=\"%s\" value=%s%llu*2^%ld w=%d p=%d", spec.c_str(), neg ? "-" : "", (unsigned long long)mm, ex, s.width, s.prec);
  Out o = call_shape(api, expect.size() + 64, snsize, shape, spec, s, (mpf_srcptr)x, &nout); mpf_clear(x);
  judge_out("%Fa", api, o, expect, snsize, spec, nout, shape);
}
// %Ff / %Fe with a precision SHORTER than the value's digits: the digits must be correctly rounded (one rounding of the exact value); compared with libc,
// whose rounding is exact; exact ties are skipped (libc rounds them to even, the library upwards, the manual promises neither)
static void case_F_rounded(ByteSource& in, CaseInfo& ci) {
  uint64_t bits = in.u64(); bits = (bits & 0x800fffffffffffffull) | ((uint64_t)in.range(1023 - 60, 1023 + 60) << 52); double d; memcpy(&d, &bits, 8); if (in.chance(60)) d = (double)in.srange(-99999, 99999) / (double)(1 << in.range(1, 12)) + (in.flag() ? 1e-9 : 0);
  bool sci = in.flag(); int p = (int)in.range(0, 14);
  if (in.flag()) {   // just below a rounding boundary at the requested precision: ...d 4 9 9 .. x (a first rounding to a few more digits produces ...d 5, a second one then rounds up wrongly)
    std::string t = in.flag() ? "0." : std::to_string(in.range(1, 99999)) + "."; if (sci) t = std::to_string(in.range(1, 9)) + "."; for (int i = 0; i < p; i++) t += (char)('0' + in.range(0, 9)); t += '4'; int nines = (int)in.range(1, 4); t.append((size_t)nines, '9'); t += (char)('0' + in.range(0, 9)); if (t.size() > 17) t.resize(17);
    d = strtod(t.c_str(), nullptr); if (in.flag()) d = -d; ci.label("F:rounded:just_below_boundary"); }
  int ex2; double fr = std::frexp(std::fabs(d), &ex2); Int M((long long)std::ldexp(fr, 53)); long e = (long)ex2 - 53; if (M.is_zero()) { ci.label("F:rounded:zero"); return; }
  // exact decimal digits: |d| = S * 10^-k  (k >= 0)
  long k = e < 0 ? -e : 0; Int Sx = e < 0 ? M * ref::pow(Int(5), (uint64_t)k) : ref::shl(M, (uint64_t)e); std::string S = ref::to_string(Sx, 10); long intdigits = (long)S.size() - k;   // digits before the point (may be <= 0)
  long cut = sci ? p + 1 : intdigits + p;   // number of leading digits of S that are kept
  if (cut >= 0 && cut < (long)S.size()) { bool tie = S[(size_t)cut] == '5'; for (size_t i = (size_t)cut + 1; i < S.size() && tie; i++) if (S[i] != '0') tie = false; if (tie) { ci.label("F:rounded:exact_tie_skipped"); return; } }
  char fmtl[32], fmtg[32]; snprintf(fmtl, sizeof fmtl, "%%.%d%c", p, sci ? 'e' : 'f'); snprintf(fmtg, sizeof fmtg, "%%.%dF%c", p, sci ? 'e' : 'f'); std::string expect = libc_fmt(fmtl, d);
  mpf_t x; mpf_init2(x, 640 + 64 * (unsigned)in.range(0, 4)); mpf_set_d(x, d); char* q = nullptr; int ret = gmp_asprintf(&q, fmtg, x);   /* enough precision to carry every decimal digit of the double (at most ~130): digits beyond what the precision carries are padding by design */ std::string got = q; rec_free(q, got.size() + 1); mpf_clear(x);
  ci.label("%F"); ci.label("F:rounded_to_fewer_digits"); ci.nontrivial = true; ci.d("F(rounded) fmt=\"%s\" d=%a", fmtg, d);
  if (d == 0.0 || (expect.size() && expect[0] == '-' && got.size() && got[0] != '-' && expect.find_first_not_of("-0.e+") == std::string::npos)) return;   // an mpf has no negative zero
  REQUIRE(got == expect && ret == (int)got.size(), "%s of %a (exact digits %s x 10^-%ld): got \"%s\", the correctly rounded output is \"%s\"", fmtg, d, S.c_str(), k, got.c_str(), expect.c_str());
}
// a standard "%c" conversion of 0 next to an MPIR conversion: the NUL is an output character like any other (C semantics), for every sink
static void case_nul_char(ByteSource& in, CaseInfo& ci) {
  Int V = gen_int(in, 2); Z z; mpz_from_int(z, V); std::string dg = ref::to_string(V, 10); bool after = in.flag(); std::string e = after ? std::string("a") + '\0' + "b" + dg + "c" : dg + std::string("x") + '\0' + "y"; const char* fmt = after ? "a%cb%Zdc" : "%Zdx%cy";
  Api api = (Api)in.range(0, A_NAPI - 1); ci.label("nul_char_in_output"); ci.label(API_NAME[api]); ci.nontrivial = true; ci.d("format \"%s\" with %%c = 0, api %s ", fmt, API_NAME[api]); DESC(ci, "v=" + show(V, 30));
  std::vector<char> buf(e.size() + 16, 0x7e); int ret = -2; std::string got; g_alloc_err.clear();
  auto call2 = [&](auto fn) { return after ? fn(fmt, 0, z.z) : fn(fmt, z.z, 0); };
  switch (api) {
    case A_SPRINTF: ret = call2([&](const char* f, auto x, auto y) { return gmp_sprintf(buf.data(), f, x, y); }); break; case A_VSPRINTF: ret = call2([&](const char* f, auto x, auto y) { return v_sprintf(buf.data(), f, x, y); }); break;
    case A_SNPRINTF: ret = call2([&](const char* f, auto x, auto y) { return gmp_snprintf(buf.data(), e.size() + 1, f, x, y); }); break; case A_VSNPRINTF: ret = call2([&](const char* f, auto x, auto y) { return v_snprintf(buf.data(), e.size() + 1, f, x, y); }); break;
    case A_ASPRINTF: case A_VASPRINTF: { char* p = nullptr; ret = call2([&](const char* f, auto x, auto y) { return api == A_ASPRINTF ? gmp_asprintf(&p, f, x, y) : v_asprintf(&p, f, x, y); }); if (p) { auto it = g_live->find(p); size_t n = it != g_live->end() ? it->second : 0; if (n) memcpy(buf.data(), p, std::min(n, buf.size())); if (it != g_live->end()) rec_free(p, n); REQUIRE(n == e.size() + 1, "gmp_asprintf: block of %zu bytes for an output of %zu characters (one of them NUL)", n, e.size()); } break; }
    case A_OBSTACK: case A_VOBSTACK: { struct obstack ob; obstack_init(&ob); ret = call2([&](const char* f, auto x, auto y) { return api == A_OBSTACK ? gmp_obstack_printf(&ob, f, x, y) : v_obstack(&ob, f, x, y); }); size_t n = obstack_object_size(&ob); char* b = (char*)obstack_finish(&ob); memcpy(buf.data(), b, std::min(n, buf.size())); obstack_free(&ob, nullptr); REQUIRE(n == e.size(), "gmp_obstack_printf: object grew by %zu bytes, expected %zu", n, e.size()); break; }
    default: { char* mem = nullptr; size_t ml = 0; FILE* fp = open_memstream(&mem, &ml); ret = call2([&](const char* f, auto x, auto y) { return api == A_FPRINTF ? gmp_fprintf(fp, f, x, y) : v_fprintf(fp, f, x, y); }); fclose(fp); memcpy(buf.data(), mem, std::min(ml, buf.size())); REQUIRE(ml == e.size(), "gmp_fprintf: wrote %zu bytes, expected %zu", ml, e.size()); free(mem); break; }
  }
  REQUIRE(ret == (int)e.size(), "[%s] format \"%s\" with a %%c of 0: returned %d, the output has %zu characters", API_NAME[api], fmt, ret, e.size());
  REQUIRE(memcmp(buf.data(), e.data(), e.size()) == 0, "[%s] format \"%s\" with a %%c of 0: output bytes differ from C's (the text after the NUL character is lost or misplaced)", API_NAME[api], fmt);
}
// "%.Fg" (empty precision = all significant digits): the fixed / scientific choice must follow C's rule for the number of significant digits the
// variable carries. (a) a value with a decimal exponent far above what a 64..192-bit variable carries must come out in scientific form with the leading
// digits right; (b) an integer or dyadic fraction far below the digit capacity of a variable of 1000..20000 bits must come out in full, in fixed form.
static void case_Fg_alldigits(ByteSource& in, CaseInfo& ci) {
  bool big = in.flag(); bool neg = in.flag(); std::string got; int ret; ci.label("%.Fg"); ci.nontrivial = true;
  if (!big) { uint64_t m = in.range(1, 1u << 20) | 1; unsigned k = (unsigned)in.range(700, 1500); uint64_t prec = 64 * in.range(1, 3); Int V = ref::shl(Int::from_u64(m), k); std::string dg = ref::to_string(V, 10); long E = (long)dg.size() - 1;
    mpf_t x; mpf_init2(x, prec); mpf_set_ui(x, m); mpf_mul_2exp(x, x, k); if (neg) mpf_neg(x, x); ci.d("%%.Fg of %s%llu*2^%u in a %llu-bit mpf", neg ? "-" : "", (unsigned long long)m, k, (unsigned long long)prec);
    char* p = nullptr; ret = gmp_asprintf(&p, "%.Fg", x); got = p; rec_free(p, got.size() + 1); mpf_clear(x);
    // expected form: [-]d.ddd...e+E with the first 12 digits those of V
    std::string t = got; if (neg) { REQUIRE(!t.empty() && t[0] == '-', "%%.Fg: sign missing in \"%s\"", got.c_str()); t = t.substr(1); } size_t epos = t.find("e+"); REQUIRE(epos != std::string::npos, "%%.Fg of a value with decimal exponent %ld in a %llu-bit variable is not in scientific form: \"%.80s\"", E, (unsigned long long)prec, got.c_str());
    REQUIRE(atol(t.c_str() + epos + 2) == E, "%%.Fg: exponent in \"%.80s\", expected %ld", got.c_str(), E); std::string md; for (size_t i = 0; i < epos; i++) if (t[i] != '.') md += t[i]; REQUIRE(md.size() >= 12 && md.compare(0, 12, dg, 0, 12) == 0 && t[1] == '.', "%%.Fg: mantissa digits in \"%.80s\" do not start with %.12s", got.c_str(), dg.c_str());
    REQUIRE(ret == (int)got.size(), "%%.Fg: returned %d for %zu characters", ret, got.size()); }
  else { uint64_t prec = 64 * in.range(16, 320); unsigned fk = (unsigned)in.range(0, 2); Int N = gen_int(in, 2, false); if (N.is_zero()) N = Int(7); unsigned k = fk ? (unsigned)in.range(1, 20) : 0; while (k && !N.is_odd()) N = N + Int(1);   // value N / 2^k
    mpf_t x; mpf_init2(x, prec); mpz_t z; mpz_init(z); mpz_from_int(z, N); mpf_set_z(x, z); mpz_clear(z); if (k) mpf_div_2exp(x, x, k); if (neg) mpf_neg(x, x); ci.d("%%.Fg of %s%s/2^%u in a %llu-bit mpf", neg ? "-" : "", show(N).c_str(), k, (unsigned long long)prec);
    // exact decimal expansion of N/2^k: integer part, then (N mod 2^k) * 5^k padded to k digits, trailing zeros stripped
    Int ip = ref::tshr(N, k), fp = N - ref::shl(ip, k); std::string e = ref::to_string(ip, 10); if (k) { std::string fr = ref::to_string(fp * ref::pow(Int(5), k), 10); fr = std::string(k - fr.size(), '0') + fr; while (!fr.empty() && fr.back() == '0') fr.pop_back(); if (!fr.empty()) e += "." + fr; } if (neg) e = "-" + e;
    bool tiny = ip.is_zero() && k >= 14;   // below 1e-4 C's rule chooses the scientific form: only the fixed-form cases are asserted
    char* p = nullptr; ret = gmp_asprintf(&p, "%.Fg", x); got = p; rec_free(p, got.size() + 1); mpf_clear(x); if (tiny) { ci.label("%.Fg:tiny_not_asserted"); return; }
    REQUIRE(got == e, "%%.Fg of a value with %zu significant digits in a %llu-bit variable: got \"%.80s\", expected \"%.80s\"", e.size(), (unsigned long long)prec, got.c_str(), e.c_str()); REQUIRE(ret == (int)got.size(), "%%.Fg: returned %d for %zu characters", ret, got.size()); }
}
// %Ff of integer-valued mpf numbers of many limbs held with more precision than they need: every digit of the integer is exact
static void case_F_big(ByteSource& in, CaseInfo& ci) {
  size_t n = in.flag() ? (size_t)in.range(1, 6) : (size_t)in.range(6, 40); Limbs v = limbs_nz(in, n); if (in.chance(60)) v.assign(n, ~0ull); bool neg = in.flag(); Int N = Int::from_limbs(v.data(), n, neg);
  Spec s = gen_spec(in, "f", true); s.hash = false; if (s.pmode == 3) s.pmode = 0; if (s.has_prec() && s.prec > 40) s.prec = (int)in.range(0, 12); if (s.pmode == 2 && s.prec < 0) s.prec = 2;
  int fp = s.has_prec() ? s.eff_prec() : 6; std::string digits = ref::to_string(N.abs(), 10); std::string body = digits + (fp > 0 ? "." + std::string((size_t)fp, '0') : "");
  std::string sign = N.neg ? "-" : s.plus ? "+" : s.space ? " " : ""; size_t len = sign.size() + body.size(), w = (size_t)s.eff_width(); std::string pad = len < w ? std::string(w - len, ' ') : "", mid;
  if (s.eff_left()) mid = sign + body + pad; else if (s.zero) mid = sign + std::string(pad.size(), '0') + body; else mid = pad + sign + body;
  unsigned shape = in.pick({4, 2, 2}); std::string expect = wrap_expected(shape, mid), spec = s.str("F"); size_t snsize; Api api = pick_api(in, snsize, expect.size()); int nout = -1; g_alloc_err.clear();
  mpf_t x; mpf_init2(x, 64 * n + 192); mpz_t z; mpz_init(z); mpz_from_int(z, N); mpf_set_z(x, z); mpz_clear(z);
  ci.label("%F"); ci.label("F:integer_valued_many_limbs"); ci.label(API_NAME[api]); ci.nontrivial = true; ci.d("F(big) fmt=\"%s\" limbs=%zu w=%d p=%d ", spec.c_str(), n, s.width, s.prec); DESC(ci, "v=" + show(N, 40));
  Out o = call_shape(api, expect.size() + 64, snsize, shape, spec, s, (mpf_srcptr)x, &nout); mpf_clear(x);
  const char* kf = (s.zero && s.eff_left() && s.eff_width() > 0) ? "printf-zero-flag-with-left-justify" : nullptr;
  if (kf && is_known(kf) && o.s != expect) { ci.excluded.push_back(kf); return; }
  judge_out("%F of an integer-valued mpf", api, o, expect, snsize, spec, nout, shape);
}
static void case_F(ByteSource& in, CaseInfo& ci) {
  if (in.chance(70)) { case_F_big(in, ci); return; }
  if (in.chance(50)) { case_Fa(in, ci); return; }
  if (in.chance(40)) { case_Fg_alldigits(in, ci); return; }
  if (in.chance(60)) { case_F_rounded(in, ci); return; }
  // dyadic value m/2^k whose decimal expansion is exact within the requested precision: libc prints it exactly, byte-identical output expected
  static const char cv[] = "feEgG"; Spec s = gen_spec(in, cv, false); if (s.hash) ci.label("F:hash_flag");   /* '#' is C's: always a point, and for g the trailing zeros are kept (doprnt.c: showpoint + showtrailing) */
  long m = (long)in.srange(-(1 << 20), 1 << 20); if (in.chance(40)) m = 0; int k = (int)in.range(0, 10); double d = std::ldexp((double)m, -k);
  // significant decimal digits of |m|/2^k = digits of |m|*5^k: the requested precision always holds all of them (no rounding, so no
  // dependence on the tie-breaking rule, which the manual does not specify)
  auto sigdig = [&](long mm, int kk) { std::string t = ref::to_string(Int((long long)std::labs(mm)) * ref::pow(Int(5), kk), 10); return (int)t.size(); };
  unsigned pk = in.pick({2, 3, 2});
  if (pk == 0) { s.pmode = 0; if (s.conv == 'f') { if (k > 6) k = 6; } else { m = (long)in.srange(-999, 999); k = (int)in.range(0, 2); while (sigdig(m, k) > 6) k--; } d = std::ldexp((double)m, -k); }
  else { int need = s.conv == 'f' ? k : sigdig(m, k) + 1; s.pmode = pk == 1 ? 1 : 2; s.prec = need + (int)in.range(0, 6); }
  std::string lf = s.str(""), spec = s.str("F"); int w = s.width, p = s.prec; std::string mid; if (s.wmode == 2 && s.pmode == 2) mid = libc_fmt(lf.c_str(), w, p, d); else if (s.wmode == 2) mid = libc_fmt(lf.c_str(), w, d); else if (s.pmode == 2) mid = libc_fmt(lf.c_str(), p, d); else mid = libc_fmt(lf.c_str(), d);
  unsigned shape = in.pick({4, 2, 2}); std::string expect = wrap_expected(shape, mid); size_t snsize; Api api = pick_api(in, snsize, expect.size()); int nout = -1; g_alloc_err.clear();
  mpf_t x; mpf_init2(x, 128); mpf_set_d(x, d); ci.label("%F"); ci.label(API_NAME[api]); ci.nontrivial = m != 0; ci.d("F fmt=\"%s\" d=%a w=%d p=%d", spec.c_str(), d, w, p);
  Out o = call_shape(api, expect.size() + 64, snsize, shape, spec, s, (mpf_srcptr)x, &nout); mpf_clear(x);
  const char* kf = (s.zero && s.eff_left() && s.eff_width() > 0) ? "printf-zero-flag-with-left-justify" : nullptr;   // for floats C honours '0' together with a precision
  if (d == 0.0 && std::signbit(d)) return;
  if (kf && is_known(kf) && o.s != expect) { ci.excluded.push_back(kf); return; }
  judge_out("%F", api, o, expect, snsize, spec, nout, shape);
}
static void case_scan(ByteSource& in, CaseInfo& ci) {
  // print values with the output functions, read them back; return = C-style count of assigned fields
  unsigned f = in.pick({4, 3, 3, 2}); bool file = in.flag(); ci.label(file ? "gmp_fscanf" : "gmp_sscanf"); ci.nontrivial = true;
  bool vform = in.flag(); if (vform) ci.label(file ? "gmp_vfscanf" : "gmp_vsscanf");
  auto scan = [&](const std::string& text, const char* fmt, auto... a) -> int { if (!file) return vform ? v_sscanf(text.c_str(), fmt, a...) : gmp_sscanf(text.c_str(), fmt, a...); std::string t = text; if (t.empty()) { FILE* fp = fopen("/dev/null", "r"); int r = vform ? v_fscanf(fp, fmt, a...) : gmp_fscanf(fp, fmt, a...); fclose(fp); return r; } FILE* fp = fmemopen((void*)t.data(), t.size(), "r"); int r = vform ? v_fscanf(fp, fmt, a...) : gmp_fscanf(fp, fmt, a...); fclose(fp); return r; };
  if (f == 0) { static const char* cvs[] = {"d", "i", "x", "o", "X"}; unsigned c = (unsigned)in.range(0, 4); Int A = gen_int(in, 4), B = gen_int(in, 4);
    if (in.chance(40)) {   // a field whose token is about as long as the scanner's internal buffer sizes (512 and its multiples), both signs, every conversion
      size_t L = (size_t)(512 * in.range(1, 3)) + (size_t)in.srange(-3, 3); int base = c == 3 ? 8 : (c == 0) ? 10 : 16; Int t = ref::pow(Int(base), L - 1) + gen_int(in, 2).abs(); if (in.flag()) t = t * ref::pow(Int(base), 0) + ref::pow(Int(base), L - 2); if (in.flag()) t = Int(0) - t; (in.flag() ? A : B) = t; ci.label("scan:token_of_about_512k_characters"); }
    Z a, b, ra, rb; mpz_from_int(a, A); mpz_from_int(b, B); bool hash = c == 1; std::string pf = std::string("%") + (hash ? "#" : "") + "Z" + (c == 1 ? "x" : cvs[c]);
    // literal text between the fields, in a third of the cases with bytes >= 0x80 (UTF-8 / Latin-1 text): it must match itself when read back
    std::string lit = "text"; if (in.chance(85)) { static const char* L[] = {"\xe9t\xe9", "\xc3\xa9", "\xff", "x\x80y", "\xa0"}; lit = L[in.range(0, 4)]; ci.label("scan:literal_high_bit_bytes"); }
    char* p1 = nullptr; gmp_asprintf(&p1, (pf + " " + lit + " %d " + pf).c_str(), a.z, 77, b.z); std::string text = p1; rec_free(p1, text.size() + 1); std::string sf = std::string("%Z") + cvs[c] + " " + lit + " %d %Z" + cvs[c] + "%n"; int mid = 0, n = -1;
    ci.d("scan Z text=\"%.100s\" fmt=\"%s\"", text.c_str(), sf.c_str()); int r = scan(text, sf.c_str(), ra.z, &mid, rb.z, &n);
    REQUIRE(r == 3, "gmp_%sscanf(\"%.60s\", \"%s\"): returned %d, expected 3 assigned fields", file ? "f" : "s", text.c_str(), sf.c_str(), r); REQUIRE(int_from_mpz(ra) == A && int_from_mpz(rb) == B && mid == 77, "gmp_sscanf does not read back what gmp_asprintf wrote (%s)", sf.c_str()); REQUIRE(n == (int)text.size(), "%%n after the last field: %d, text length %zu", n, text.size()); }
  else if (f == 1) { Int N = gen_int(in, 3), D = gen_int(in, 3, false); if (D.is_zero()) D = Int(1); mpq_t q, r; mpq_init(q); mpq_init(r); mpz_from_int(mpq_numref(q), N); mpz_from_int(mpq_denref(q), D); bool hex = in.flag(); char* p1 = nullptr; gmp_asprintf(&p1, hex ? "%#Qx;" : "%Qd;", q); std::string text = p1; rec_free(p1, text.size() + 1);
    char c = 0; int rr = scan(text, hex ? "%Qi%c" : "%Qd%c", r, &c); bool ok = rr == 2 && c == ';' && int_from_mpz(mpq_numref(r)) == N && int_from_mpz(mpq_denref(r)) == D; ci.d("scan Q text=\"%.100s\"", text.c_str()); mpq_clear(q); mpq_clear(r);
    REQUIRE(ok, "gmp_sscanf(%s) does not read back \"%.60s\" (returned %d)", hex ? "%Qi" : "%Qd", text.c_str(), rr); }
  else if (f == 2) { long m = (long)in.srange(-(1 << 24), 1 << 24); int k = (int)in.range(0, 12); double d = std::ldexp((double)m, -k); mpf_t x, r; mpf_init2(x, 128); mpf_init2(r, 128); mpf_set_d(x, d); static const char* pfs[] = {"%.15Ff", "%.20Fe", "%.25Fg", "%Fa"}; unsigned c = (unsigned)in.range(0, 3);
    char* p1 = nullptr; gmp_asprintf(&p1, pfs[c], x); std::string text = p1; rec_free(p1, text.size() + 1); static const char* sfs[] = {"%Ff", "%Fe", "%Fg", "%Ff"}; int rr = scan(text + " rest", sfs[c], r); bool ok = rr == 1 && mpf_cmp(r, x) == 0; ci.d("scan F text=\"%s\"", text.c_str()); mpf_clear(x); mpf_clear(r);
    REQUIRE(ok, "gmp_sscanf(%s) does not read back \"%s\" exactly (returned %d)", sfs[c], text.c_str(), rr); }
  else { // EOF / matching-failure rules and suppression
    Z a; int v = 5; unsigned k = in.pick({2, 2, 2, 2});
    if (k == 0) { int r = scan("", "%Zd", a.z); REQUIRE(r == EOF, "gmp_sscanf on empty input: returned %d, expected EOF", r); ci.label("scan:eof"); }
    else if (k == 1) { int r = scan("   ", "%Zd", a.z); REQUIRE(r == EOF, "gmp_sscanf on blank input: returned %d, expected EOF", r); ci.label("scan:eof"); }
    else if (k == 2) { int r = scan("xyz", "%Zd", a.z); REQUIRE(r == 0, "gmp_sscanf matching failure: returned %d, expected 0", r); ci.label("scan:match_failure"); }
    else if (in.chance(100)) {   // a field width that ends inside a float: the count must say whether the destination was assigned
      static const char* T[] = {"1e5", "12e3", "1.5e2", "7E9", "1e+5", "0x1p3"}; unsigned ti = (unsigned)in.range(0, 5); std::string t = T[ti]; size_t epos = t.find_first_of("eEp"); int w = (int)(epos + (size_t)in.range(0, 2)); if (w < 1) w = 1;
      std::string fm = "%" + std::to_string(w) + "Ff"; mpf_t fl; mpf_init2(fl, 128); mpf_set_si(fl, -777); int r = scan(t, fm.c_str(), fl); bool untouched = mpf_cmp_si(fl, -777) == 0; mpf_clear(fl); ci.label("scan:width_ends_inside_float"); ci.d("scan \"%s\" with \"%s\"", t.c_str(), fm.c_str());
      REQUIRE((r == 1 && !untouched) || (r == 0 && untouched), "gmp_sscanf(\"%s\", \"%s\", f): returned %d but the destination was %s: the return value is the count of assigned fields", t.c_str(), fm.c_str(), r, untouched ? "not assigned" : "assigned"); }
    else { int r = scan("123 456 789", "%*Zd %Zd %d", a.z, &v); REQUIRE(r == 2 && int_from_mpz(a) == Int(456) && v == 789, "gmp_sscanf with %%*Zd: returned %d", r); ci.label("scan:suppression"); }
  }
}

// ---- exhaustive sweep: the full cross product flags x width x precision x conversion x 12 values for %Z ------------------------
static const long SWV[12] = {0, 1, -1, 7, -7, 123, -123, 65535, LONG_MAX, LONG_MIN, 1000000007L, -99999L};
static uint64_t sweep_count() { return 32ull * 6 * 7 * 5 * 12; }
static void sweep_item(uint64_t i, CaseInfo& ci) {
  unsigned vi = i % 12; i /= 12; unsigned cv = i % 5; i /= 5; unsigned pi = i % 7; i /= 7; unsigned wi = i % 6; i /= 6; unsigned fl = (unsigned)i;
  Spec s; s.minus = fl & 1; s.plus = fl & 2; s.space = fl & 4; s.hash = fl & 8; s.zero = fl & 16; s.conv = "dioxX"[cv];
  static const int ws[] = {0, 1, 5, 20}; if (wi == 0) s.wmode = 0; else if (wi <= 3) { s.wmode = 1; s.width = ws[wi]; } else { s.wmode = 2; s.width = wi == 4 ? 9 : -9; }
  static const int ps[] = {0, 0, 3, 25}; if (pi == 0) s.pmode = 0; else if (pi <= 3) { s.pmode = 1; s.prec = ps[pi]; } else if (pi == 4) { s.pmode = 2; s.prec = 4; } else if (pi == 5) { s.pmode = 2; s.prec = -2; } else s.pmode = 3;
  long lv = SWV[vi]; Int V((long long)lv); std::string spec = s.str("Z"); ci.d("\"%s\" of %ld (w=%d p=%d)", spec.c_str(), lv, s.width, s.prec);
  std::string mid = layout_int(s, V.neg, digits_of(V, s.conv));
  bool c_comparable = s.pmode != 3 && !(s.hash && s.has_prec() && s.eff_prec() == 0 && lv == 0) && ((s.conv == 'd' || s.conv == 'i') || (lv >= 0 && !s.plus && !s.space));
  if (c_comparable) { std::string lf = s.str("l"), lc; int w = s.width, p = s.prec; if (s.wmode == 2 && s.pmode == 2) lc = libc_fmt(lf.c_str(), w, p, lv); else if (s.wmode == 2) lc = libc_fmt(lf.c_str(), w, lv); else if (s.pmode == 2) lc = libc_fmt(lf.c_str(), p, lv); else lc = libc_fmt(lf.c_str(), lv); if (lc != mid) fail("HARNESS: layout model \"%s\" disagrees with libc \"%s\" for \"%s\" of %ld", mid.c_str(), lc.c_str(), lf.c_str(), lv); }
  else if (s.pmode == 3) { Spec t = s; t.pmode = 0; mid = layout_int(t, V.neg, digits_of(V, s.conv)); }
  else if (s.hash && s.has_prec() && s.eff_prec() == 0 && lv == 0) return;
  Z z; mpz_set_si(z, lv); char buf[128]; int w = s.width, p = s.prec, n;
  if (s.wmode == 2 && s.pmode == 2) n = gmp_snprintf(buf, sizeof buf, spec.c_str(), w, p, z.z); else if (s.wmode == 2) n = gmp_snprintf(buf, sizeof buf, spec.c_str(), w, z.z); else if (s.pmode == 2) n = gmp_snprintf(buf, sizeof buf, spec.c_str(), p, z.z); else n = gmp_snprintf(buf, sizeof buf, spec.c_str(), z.z);
  REQUIRE(n == (int)mid.size() && mid == buf, "gmp_snprintf \"%s\" of %ld: got \"%s\" (returned %d), expected \"%s\"", spec.c_str(), lv, buf, n, mid.c_str());
}
// deterministic regression cases for the repaired flag handling (compared with libc on the equal long value)
#include <sys/mman.h>
static void fixed_case(unsigned k, CaseInfo& ci) {
  struct T { const char* g; const char* c; long v; int star; } t[] = {{"%+ Zd", "%+ ld", 5, 0}, {"%-05Zd", "%-05ld", 5, 0}, {"%08.3Zd", "%08.3ld", 5, 0}, {"%.*Zd", "%.*ld", 0, -1}, {"%#.5Zo", "%#.5lo", 8, 0}, {"%0*Zd", "%0*ld", 7, -6}};
  if (k == 6) {   // a buffer of more than INT_MAX bytes (lazily mapped: only the first page is touched): standard conversions mixed into the format must still be written
    size_t size = ((size_t)1 << 31) + 4096; char* big = (char*)mmap(nullptr, size, PROT_READ | PROT_WRITE, MAP_PRIVATE | MAP_ANONYMOUS | MAP_NORESERVE, -1, 0);
    ci.desc = "gmp_snprintf(buf, 2^31+4096, \"a=%d z=%Zd b=%s.\", 5, -42, \"str\") into a lazily mapped buffer"; if (big == (char*)MAP_FAILED) { ci.label("fixed6:address_space_refused_no_verdict"); return; }
    Z z; mpz_set_si(z, -42); int r = gmp_snprintf(big, size, "a=%d z=%Zd b=%s.", 5, z.z, "str"); std::string got(big, strnlen(big, 64)); munmap(big, size);
    REQUIRE(r == 16 && got == "a=5 z=-42 b=str.", "gmp_snprintf with size 2^31+4096: returned %d and wrote \"%s\", expected 16 and \"a=5 z=-42 b=str.\" (the text of the standard conversions is missing when the size does not fit an int)", r, got.c_str()); return; }
  if (k >= sizeof t / sizeof t[0]) return; Z z; mpz_set_si(z, t[k].v); char a[64], b[64];
  if (t[k].star) { gmp_snprintf(a, sizeof a, t[k].g, t[k].star, z.z); snprintf(b, sizeof b, t[k].c, t[k].star, t[k].v); } else { gmp_snprintf(a, sizeof a, t[k].g, z.z); snprintf(b, sizeof b, t[k].c, t[k].v); }
  ci.desc = std::string("gmp_snprintf \"") + t[k].g + "\" of " + std::to_string(t[k].v); REQUIRE(!strcmp(a, b), "\"%s\" of %ld: got \"%s\", C gives \"%s\"", t[k].g, t[k].v, a, b);
}
static void check(ByteSource& in, CaseInfo& ci) { { unsigned t = in.u8(); g_obpre = t < 48 ? 3880 + (size_t)in.range(0, 230) : 4; if (t < 48) ci.label("obstack_object_near_chunk_end"); } if (in.chance(8)) { case_nul_char(in, ci); return; } switch (in.pick({10, 5, 4, 4})) { case 0: case_Z(in, ci); break; case 1: case_QNM(in, ci); break; case 2: case_F(in, ci); break; default: case_scan(in, ci); break; } }
namespace eng {
PropDef g_prop = {"C18",
  "Cases: one call of a member of the gmp_printf family (sprintf, snprintf with size 0..len+1 into a buffer of exactly that many bytes, asprintf, fprintf, obstack_printf appended to an object being grown, and the five va_list forms) on a format made of flags subset of {-,+,space,#,0} x width {none,1,5,20,* positive,* negative} x precision {none,.0,.3,.25,.* (also negative),'.' alone} x conversion d,i,o,x,X for %Z (values 0,+-1,..,LONG_MIN/MAX, random longs, multi-limb), %Q, %N (negative size), %M (d,i,o,u,x,X), and e,f,g,E,G for %F, alone or embedded between standard conversions (%d %s %c %% %ld %5.2f %n). Oracle: libc snprintf with %l and the equal long value (byte-identical) wherever C gives the conversion a meaning; a layout model of C's padding/sign/prefix/precision rules, validated against libc in the same run, for signed o/x/X and values that do not fit a long; libc %l for %M; libc double output for %F on dyadic values whose expansion is exact at the requested precision; return value = full length, truncation = first size-1 bytes + NUL, asprintf block = length+1 (recording allocator), %n. Input: gmp_sscanf / gmp_fscanf read back what the output functions printed (%Zd %Zi %Zx %Zo %Qd %Qi %Ff %Fe %Fg %Fa, %n, %*Zd), C-style count, EOF and matching failure. Not asserted: '#' with precision 0 on zero, '0' flag with %Q. Non-trivial: every case. Distinct = hash of all decoded choices.",
  check, setup, {"Z:compared_with_libc", "Z:big_value_model", "Z:signed_oxX_model", "Z:empty_precision", "%Q", "%N", "%M", "%F", "%Fa", "%.Fg", "nul_char_in_output", "F:rounded_to_fewer_digits", "F:integer_valued_many_limbs", "gmp_snprintf", "gmp_asprintf", "gmp_vsnprintf", "gmp_fprintf", "gmp_obstack_printf", "gmp_sscanf", "gmp_fscanf", "gmp_vsscanf", "gmp_vfscanf", "scan:eof", "flag0_with_minus", "flag0_with_precision"}, fixed_case, sweep_count, sweep_item,
  "the full cross product of the 32 flag subsets of {-,+,space,#,0} x width {none,1,5,20,* = 9,* = -9} x precision {none,.0,.3,.25,.* = 4,.* = -2,'.' alone} x conversion {d,i,o,x,X} x 12 long values (0,+-1,+-7,+-123,65535,LONG_MAX,LONG_MIN,1000000007,-99999) through gmp_snprintf %Z: compared with libc where C gives the conversion a meaning, with the libc-validated layout model otherwise (80,640 format/value pairs)"};
}
