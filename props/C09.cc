// C09: integer roots, remainders and perfect-power tests are exact
#include "../harness/gen.hpp"
#include "../harness/thresholds.hpp"
using namespace eng; using namespace gen; using ref::Int;
struct Z { mpz_t z; Z() { mpz_init(z); } ~Z() { mpz_clear(z); } operator mpz_ptr() { return z; } };

// u = k^n + delta, built for a target size; returns (u, n)
static Int gen_base(ByteSource& in, size_t limbs) {   // k with long runs of ones etc.
  Limbs v = limbs_nz(in, std::max<size_t>(1, limbs)); Int k = Int::from_limbs(v.data(), v.size());
  if (in.chance(50)) k = ref::pow2(in.range(0, 64 * limbs)) - Int((long long)in.range(0, 1));
  if (in.chance(40)) k = Int::from_u64(in.range(0, 40));
  return k;
}
static void gen_power_neighbour(ByteSource& in, size_t cap, Int& u, uint64_t& n, CaseInfo& ci, bool sq_only) {
  unsigned nk = sq_only ? 0 : in.pick({3, 3, 2, 2, 1});
  n = nk == 0 ? 2 : nk == 1 ? in.range(3, 7) : nk == 2 ? in.range(8, 70) : nk == 3 ? in.range(1, 3) : in.logrange(1, 64 * cap + 100);
  size_t kl = std::max<size_t>(1, cap / std::max<uint64_t>(1, n)); if (n > 64 * cap) kl = 1;
  kl = (size_t)in.logrange(1, kl);
  Int k = gen_base(in, kl);
  if (n * k.bits() > 64 * cap + 64) { k = Int::from_u64(in.range(0, 3)); }     // keep the power affordable
  Int p = ref::pow(k, n);
  unsigned dk = in.pick({3, 2, 2, 1, 1, 2});
  Int d; if (dk == 0) { d = Int(0); ci.label("exact_power"); } else if (dk == 1) { d = Int(-1); ci.label("power_minus_1"); } else if (dk == 2) { d = Int(1); ci.label("power_plus_1"); } else if (dk == 3) d = Int(2); else if (dk == 4) d = Int(-2); else d = gen_int(in, std::max<size_t>(1, p.size() / 2));
  u = p + d; if (u.neg) u = Int(0);
  if (n > u.bits() && !u.is_zero()) ci.label("n_gt_bits");
}
static Int gen_u(ByteSource& in, size_t cap, uint64_t& n, CaseInfo& ci, bool sq_only = false) {
  Int u;
  if (in.pick({3, 1}) == 0) gen_power_neighbour(in, cap, u, n, ci, sq_only);
  else { u = gen_int(in, cap, false); n = sq_only ? 2 : (in.flag() ? in.range(1, 9) : in.logrange(1, 64 * cap + 100));
    if (!sq_only && in.chance(24)) { static const uint64_t big[] = {1ull << 31, (1ull << 32) - 1, 1ull << 32, (1ull << 32) + 1, 1ull << 40, 1ull << 62, (1ull << 63) - 1, 1ull << 63, ~0ull - 1, ~0ull}; n = in.flag() ? big[in.range(0, 9)] : (in.u64() | (1ull << in.range(20, 63))); ci.label("huge_root_index"); }   /* root indices up to the largest unsigned long */ if (n > u.bits() && !u.is_zero()) ci.label("n_gt_bits"); ci.label("random_u"); }
  return u;
}
static void case_sqrt(ByteSource& in, CaseInfo& ci) {
  size_t cap = std::max<size_t>(1, expcap(in.scale, 2, 700)); uint64_t n; Int U = gen_u(in, cap, n, ci, true);
  Int S = ref::isqrt(U), R = U - S * S;
  unsigned f = in.pick({3, 4, 4, 3, 3}); static const char* names[] = {"mpz_sqrt", "mpz_sqrtrem", "mpn_sqrtrem", "mpz_perfect_square_p", "mpn_perfect_square_p"};
  ci.label(names[f]); if (U.size() >= 2) ci.nontrivial = true; if (U.size() & 1) ci.label("odd_limb_count");
  ci.d("%s ", names[f]); DESC(ci, "u=" + show(U, 64));
  Z u, s, r; mpz_from_int(u, U);
  if (f == 0) { bool ip = in.flag(); mpz_ptr o = ip ? u.z : s.z; mpz_sqrt(o, u); REQUIRE_WF(o, "mpz_sqrt"); REQUIRE(int_from_mpz(o) == S, "mpz_sqrt: wrong root"); if (!ip) REQUIRE(int_from_mpz(u) == U, "mpz_sqrt: operand modified"); }
  else if (f == 1) { unsigned al = in.pick({3, 1, 1}); mpz_ptr so = al == 1 ? u.z : s.z, ro = al == 2 ? u.z : r.z; mpz_sqrtrem(so, ro, u); REQUIRE_WF(so, "mpz_sqrtrem"); REQUIRE_WF(ro, "mpz_sqrtrem");
    REQUIRE(int_from_mpz(so) == S, "mpz_sqrtrem (alias %u): wrong root", al); REQUIRE(int_from_mpz(ro) == R, "mpz_sqrtrem (alias %u): wrong remainder", al); }
  else if (f == 2) { if (U.is_zero()) return; size_t un = U.size(), sn = (un + 1) / 2; unsigned mode = in.pick({3, 2, 2});   // separate r2p, r2p == sp, r2p NULL
    Guarded sg(sn), rg(un), ug(un); memcpy(ug.p(), U.m.data(), un * 8);
    size_t rn = mpn_sqrtrem(sg.p(), mode == 0 ? rg.p() : mode == 1 ? ug.p() : nullptr, ug.p(), un);
    REQUIRE(sg.intact() && rg.intact() && ug.intact(), "mpn_sqrtrem(n=%zu): wrote outside its areas", un);
    REQUIRE(Int::from_limbs(sg.p(), sn) == S, "mpn_sqrtrem(n=%zu, mode %u): wrong root", un, mode);
    if (mode == 2) REQUIRE((rn != 0) == !R.is_zero(), "mpn_sqrtrem(r2p=NULL): returned %zu but remainder is %s", rn, R.is_zero() ? "zero" : "non-zero");
    else { REQUIRE(rn <= un, "mpn_sqrtrem: remainder size %zu > n", rn); REQUIRE(Int::from_limbs(mode == 0 ? rg.p() : ug.p(), rn) == R, "mpn_sqrtrem(n=%zu, mode %u): wrong remainder", un, mode); REQUIRE(rn == R.size(), "mpn_sqrtrem: returned remainder size %zu, actual %zu (zero return must mean perfect square)", rn, R.size()); }
    if (mode != 1) REQUIRE(memcmp(ug.p(), U.m.data(), un * 8) == 0, "mpn_sqrtrem: source modified"); ci.label(mode == 1 ? "sqrtrem:r2p==sp" : mode == 2 ? "sqrtrem:r2p==NULL" : "sqrtrem:separate"); }
  else if (f == 3) { if (in.chance(40)) { U = -U; mpz_from_int(u, U); } bool e = !U.neg && R.is_zero(); if (U.neg) e = false; int g = mpz_perfect_square_p(u); REQUIRE((g != 0) == e, "mpz_perfect_square_p: returned %d, expected %d", g, (int)e); }
  else { // the manual states no most-significant-limb condition for this function ({0} is the only way to ask about 0): high zero limbs now and then
    std::vector<uint64_t> pl(U.m.begin(), U.m.end()); size_t hz = in.chance(70) ? (size_t)in.range(1, 4) : 0; if (pl.empty() && !hz) hz = 1; pl.resize(pl.size() + hz, 0); if (hz) ci.label("mpn_perfect_square_p:high_zero_limbs");
    int g = mpn_perfect_square_p(pl.data(), (mp_size_t)pl.size()); REQUIRE((g != 0) == R.is_zero(), "mpn_perfect_square_p(n=%zu): returned %d, expected %d", U.size(), g, (int)R.is_zero()); }
}
static void case_root(ByteSource& in, CaseInfo& ci) {
  size_t cap = std::max<size_t>(1, expcap(in.scale, 2, 500)); uint64_t n; Int U = gen_u(in, cap, n, ci);
  bool neg = (n & 1) && in.chance(80); Int Uabs = U; if (neg) U = -U;
  Int Rt = ref::iroot(Uabs, n); if (neg) Rt = -Rt; Int Rem = U - ref::pow(Rt, n);
  unsigned f = in.pick({4, 3, 4}); static const char* names[] = {"mpz_root", "mpz_nthroot", "mpz_rootrem"};
  ci.label(names[f]); if (U.size() >= 2 || n > U.bits()) ci.nontrivial = true; if (neg) ci.label("negative_odd_root"); if (U.size() >= ROOTREM_THRESHOLD) ci.label("ge_rootrem_threshold");
  ci.d("%s n=%llu ", names[f], (unsigned long long)n); DESC(ci, "u=" + show(U, 64));
  Z u, r, m; mpz_from_int(u, U);
  if (f == 0) { bool ip = in.flag(); mpz_ptr o = ip ? u.z : r.z; int ex = mpz_root(o, u, n); REQUIRE_WF(o, "mpz_root"); REQUIRE(int_from_mpz(o) == Rt, "mpz_root(n=%llu): wrong root", (unsigned long long)n);
    REQUIRE((ex != 0) == Rem.is_zero(), "mpz_root(n=%llu): exactness flag %d but remainder is %s", (unsigned long long)n, ex, Rem.is_zero() ? "zero" : "non-zero"); }
  else if (f == 1) { bool ip = in.flag(); mpz_ptr o = ip ? u.z : r.z; mpz_nthroot(o, u, n); REQUIRE_WF(o, "mpz_nthroot"); REQUIRE(int_from_mpz(o) == Rt, "mpz_nthroot(n=%llu): wrong root", (unsigned long long)n); }
  else { unsigned al = in.pick({3, 1, 1}); mpz_ptr ro = al == 1 ? u.z : r.z, mo = al == 2 ? u.z : m.z; mpz_rootrem(ro, mo, u, n); REQUIRE_WF(ro, "mpz_rootrem"); REQUIRE_WF(mo, "mpz_rootrem");
    REQUIRE(int_from_mpz(ro) == Rt, "mpz_rootrem(n=%llu, alias %u): wrong root", (unsigned long long)n, al); REQUIRE(int_from_mpz(mo) == Rem, "mpz_rootrem(n=%llu, alias %u): wrong remainder", (unsigned long long)n, al); }
}
// is |u| = a^b for some b > 1 (b prime suffices); negative u only odd b
static bool ref_perfect_power(const Int& u) {
  if (u.is_zero() || ref::cmpabs(u, Int(1)) == 0) { return !(u.neg && false) ; }
  Int a = u.abs(); uint64_t bits = a.bits();
  for (uint64_t b = 2; b <= bits; b++) { bool prime = true; for (uint64_t d = 2; d * d <= b; d++) if (b % d == 0) { prime = false; break; } if (!prime) continue; if (u.neg && b == 2) continue;
    Int r = ref::iroot(a, b); if (ref::pow(r, b) == a) return true; }
  return false;
}
static void case_perfpow(ByteSource& in, CaseInfo& ci) {
  size_t cap = std::max<size_t>(1, expcap(in.scale, 2, 60)); Int U; uint64_t n;
  unsigned k = in.pick({4, 2, 2, 2});
  if (k == 0) gen_power_neighbour(in, cap, U, n, ci, false);
  else if (k == 1) { U = Int((long long)in.srange(-70000, 70000)); }
  else if (k == 2) { // p^2 * q^3 near-misses, and true powers of composite exponents
    Int p = Int::from_u64(in.range(2, 1000)), q = Int::from_u64(in.range(2, 1000)), t = Int::from_u64(in.flag() ? 1 : in.range(2, 60));
    static const unsigned ex[] = {1, 2, 3, 4, 5, 6, 6, 9, 10, 10, 12, 14, 15}; U = ref::pow(p, ex[in.range(0, 12)]) * ref::pow(q, ex[in.range(0, 12)]) * ref::pow(t, ex[in.range(0, 12)]);
    if (in.chance(110)) {   // smooth numbers: 1..3 small primes with multiplicities g*m sharing a common factor g (powers of two, odd, mixed): the decision then rests on the gcd of the multiplicities and, for negative u, on its odd part
      static const unsigned sp[] = {2, 3, 5, 7, 11, 13, 17, 1009, 1013}; static const unsigned gs[] = {1, 2, 3, 4, 4, 5, 6, 8, 8, 9, 12, 16}; unsigned g = gs[in.range(0, 11)], np = (unsigned)in.range(1, 3); U = Int(1);
      for (unsigned i = 0; i < np; i++) { unsigned m = (unsigned)in.range(1, 7); U = U * ref::pow(Int::from_u64(sp[in.range(0, 8)]), g * m); if (U.bits() > 900) break; } ci.label("perfpow:smooth_common_multiplicity"); } }
  else U = gen_int(in, cap, false);
  if (in.chance(90)) U = -U;
  bool e = ref_perfect_power(U);
  ci.label("mpz_perfect_power_p"); if (U.size() >= 2) ci.nontrivial = true; if (U.neg) ci.label(e ? "perfpow:negative_true" : "perfpow:negative_false"); if (e) ci.label("perfpow:true");
  ci.d("mpz_perfect_power_p "); DESC(ci, "u=" + show(U, 64));
  Z u; mpz_from_int(u, U); int g = mpz_perfect_power_p(u); REQUIRE((g != 0) == e, "mpz_perfect_power_p: returned %d, expected %d", g, (int)e);
  REQUIRE(int_from_mpz(u) == U, "mpz_perfect_power_p: operand modified");
}

// ---- exhaustive sweep: every u in [0, 2^16) (and -u for odd root indices) -----------------------------------------------
// second sweep domain: every value of up to four limbs with limbs from {0,1,2^63-1,2^63,2^64-2,2^64-1} (1296 values: k*B^j, B^j-1, all-ones ...)
static void sweep_palette(uint64_t i, CaseInfo& ci) {
  Int U = palette_int(i, 4); ci.d("palette u=%s", show(U).c_str()); Z u, r, m; mpz_from_int(u, U); Int S = ref::isqrt(U);
  mpz_sqrt(r, u); REQUIRE_WF(r, "mpz_sqrt"); REQUIRE(int_from_mpz(r) == S, "mpz_sqrt(%s)", show(U).c_str()); mpz_sqrtrem(r, m, u); REQUIRE_WF(m, "mpz_sqrtrem"); REQUIRE(int_from_mpz(r) == S && int_from_mpz(m) == U - S * S, "mpz_sqrtrem(%s)", show(U).c_str());
  REQUIRE((mpz_perfect_square_p(u) != 0) == (S * S == U), "mpz_perfect_square_p(%s)", show(U).c_str());
  if (!U.is_zero()) { size_t n = U.m.size(); std::vector<uint64_t> sq((n + 1) / 2 + 1), rm(n + 1); mp_size_t rn = mpn_sqrtrem(sq.data(), rm.data(), U.m.data(), (mp_size_t)n); REQUIRE(Int::from_limbs(sq.data(), (n + 1) / 2) == S && Int::from_limbs(rm.data(), (size_t)rn) == U - S * S, "mpn_sqrtrem(%s)", show(U).c_str());
    REQUIRE((mpn_perfect_square_p(U.m.data(), (mp_size_t)n) != 0) == (S * S == U), "mpn_perfect_square_p(%s)", show(U).c_str()); }
  { std::vector<uint64_t> pl(U.m.begin(), U.m.end()); pl.push_back(0); pl.push_back(0); for (size_t k = pl.size() - 2 + (U.is_zero() ? 1 : 0); k <= pl.size(); k++) if (k) REQUIRE((mpn_perfect_square_p(pl.data(), (mp_size_t)k) != 0) == (S * S == U), "mpn_perfect_square_p(%s stored in %zu limbs)", show(U).c_str(), k); }
  REQUIRE((mpz_perfect_power_p(u) != 0) == ref_perfect_power(U), "mpz_perfect_power_p(%s)", show(U).c_str()); mpz_neg(m, u); REQUIRE((mpz_perfect_power_p(m) != 0) == ref_perfect_power(-U), "mpz_perfect_power_p(-%s)", show(U).c_str());
  static const uint64_t NS[] = {1, 2, 3, 4, 5, 7, 8, 63, 64, 65, 127, 128, 129, 192, 255, 256, 257, 1ull << 32, ~0ull};
  for (uint64_t n : NS) { Int R = ref::iroot(U, n), Rem = U - ref::pow(R, n); int ex = mpz_root(r, u, n); REQUIRE_WF(r, "mpz_root"); REQUIRE(int_from_mpz(r) == R && (ex != 0) == Rem.is_zero(), "mpz_root(%s, %llu)", show(U).c_str(), (unsigned long long)n);
    mpz_rootrem(r, m, u, n); REQUIRE_WF(m, "mpz_rootrem"); REQUIRE(int_from_mpz(r) == R && int_from_mpz(m) == Rem, "mpz_rootrem(%s, %llu)", show(U).c_str(), (unsigned long long)n); mpz_nthroot(r, u, n); REQUIRE(int_from_mpz(r) == R, "mpz_nthroot(%s, %llu)", show(U).c_str(), (unsigned long long)n);
    if (n & 1) { Z nu; mpz_neg(nu, u); ex = mpz_root(r, nu, n); REQUIRE(int_from_mpz(r) == -R && (ex != 0) == Rem.is_zero(), "mpz_root(-%s, %llu)", show(U).c_str(), (unsigned long long)n); mpz_rootrem(r, m, nu, n); REQUIRE(int_from_mpz(r) == -R && int_from_mpz(m) == -Rem, "mpz_rootrem(-%s, %llu)", show(U).c_str(), (unsigned long long)n); } }
}
static uint64_t sweep_count() { return 65536 + 1296; }
static void sweep_item(uint64_t i, CaseInfo& ci) {
  if (i >= 65536) { sweep_palette(i - 65536, ci); return; }
  ci.d("u=%llu", (unsigned long long)i); Int U = Int::from_u64(i); Z u, r, m; mpz_set_ui(u, i); Int S = ref::isqrt(U);
  mpz_sqrt(r, u); REQUIRE(int_from_mpz(r) == S, "mpz_sqrt(%llu)", (unsigned long long)i); mpz_sqrtrem(r, m, u); REQUIRE(int_from_mpz(r) == S && int_from_mpz(m) == U - S * S, "mpz_sqrtrem(%llu)", (unsigned long long)i);
  REQUIRE((mpz_perfect_square_p(u) != 0) == (S * S == U), "mpz_perfect_square_p(%llu)", (unsigned long long)i);
  if (i) { mp_limb_t l = i, sq, rm; mp_size_t rn = mpn_sqrtrem(&sq, &rm, &l, 1); REQUIRE(Int::from_u64(sq) == S && (rn ? Int::from_u64(rm) : Int(0)) == U - S * S, "mpn_sqrtrem(%llu)", (unsigned long long)i); REQUIRE((mpn_perfect_square_p(&l, 1) != 0) == (S * S == U), "mpn_perfect_square_p(%llu)", (unsigned long long)i); }
  REQUIRE((mpz_perfect_power_p(u) != 0) == ref_perfect_power(U), "mpz_perfect_power_p(%llu)", (unsigned long long)i); mpz_neg(m, u); REQUIRE((mpz_perfect_power_p(m) != 0) == ref_perfect_power(-U), "mpz_perfect_power_p(-%llu)", (unsigned long long)i);
  for (unsigned n = 1; n <= 18; n++) { Int R = ref::iroot(U, n), Rem = U - ref::pow(R, n); int ex = mpz_root(r, u, n); REQUIRE(int_from_mpz(r) == R && (ex != 0) == Rem.is_zero(), "mpz_root(%llu,%u)", (unsigned long long)i, n);
    mpz_rootrem(r, m, u, n); REQUIRE(int_from_mpz(r) == R && int_from_mpz(m) == Rem, "mpz_rootrem(%llu,%u)", (unsigned long long)i, n); mpz_nthroot(r, u, n); REQUIRE(int_from_mpz(r) == R, "mpz_nthroot(%llu,%u)", (unsigned long long)i, n);
    if (n & 1) { Z nu; mpz_neg(nu, u); ex = mpz_root(r, nu, n); REQUIRE(int_from_mpz(r) == -R && (ex != 0) == Rem.is_zero(), "mpz_root(-%llu,%u)", (unsigned long long)i, n); mpz_rootrem(r, m, nu, n); REQUIRE(int_from_mpz(r) == -R && int_from_mpz(m) == -Rem, "mpz_rootrem(-%llu,%u)", (unsigned long long)i, n); } }
}
static void check(ByteSource& in, CaseInfo& ci) { switch (in.pick({5, 5, 3})) { case 0: case_sqrt(in, ci); break; case 1: case_root(in, ci); break; default: case_perfpow(in, ci); break; } }
// deterministic case: perfect squares of about 400 000 limbs, far above the generated sizes, written limb by limb from (B^L - 1)^2 = B^(2L) - 2 B^L + 1 (no multiplication is
// needed to build them), with 2t zero limbs below: the residue filters of mpn_perfect_square_p accumulate over every limb, and their carry counters only grow with the length
static void fixed_case(unsigned k, CaseInfo& ci) {
  if (k != 0) return;
  ci.desc = "mpn_perfect_square_p / mpz_perfect_square_p on (B^L-1)^2 * B^(2t), L = 196700 and 210001, t = 0 and 3 (about 400 000 limbs), and on the same values plus 2 (not squares)";
  static const size_t LS[2] = {196700, 210001};
  for (size_t L : LS) for (size_t t : {(size_t)0, (size_t)3}) {
    size_t n = 2 * L + 2 * t; std::vector<mp_limb_t> v(n, 0); v[2 * t] = 1; v[2 * t + L] = ~(mp_limb_t)1; for (size_t i = L + 1; i < 2 * L; i++) v[2 * t + i] = ~(mp_limb_t)0;
    int g = mpn_perfect_square_p(v.data(), (mp_size_t)n); REQUIRE(g != 0, "mpn_perfect_square_p reports (B^%zu - 1)^2 * B^%zu (%zu limbs) as a non-square", L, 2 * t, n);
    mpz_t ro; int gz = mpz_perfect_square_p(mpz_roinit_n(ro, v.data(), (mp_size_t)n)); REQUIRE(gz != 0, "mpz_perfect_square_p reports (B^%zu - 1)^2 * B^%zu (%zu limbs) as a non-square", L, 2 * t, n);
    v[2 * t] = 3; g = mpn_perfect_square_p(v.data(), (mp_size_t)n); REQUIRE(g == 0, "mpn_perfect_square_p reports ((B^%zu - 1)^2 + 2) * B^%zu as a square", L, 2 * t);
  }
}
namespace eng {
PropDef g_prop = {"C09",
  "Cases: u = k^n + delta (delta in {0,+-1,+-2,random}; k with long runs of ones, 2^j, 2^j-1, small k; n = 2, 3..7, 8..70, up to beyond the bit length of u, and now and then up to the largest unsigned long) or random u; mpz_sqrt / mpz_sqrtrem (outputs aliasing the operand) / mpn_sqrtrem (r2p separate, == sp, NULL; odd and even limb counts) / mpz_perfect_square_p (also negative) / mpn_perfect_square_p; mpz_root / mpz_nthroot / mpz_rootrem for n>=1 and negative u with odd n; mpz_perfect_power_p on powers, near-misses, p^i*q^j, all |u| <= 70000, negative values. Oracle: refint integer roots (Newton, verified by s^2<=u<(s+1)^2 in the self-test), remainder u - root^n, exactness flag <=> remainder 0, perfect power by root extraction over all prime exponents. Non-trivial: u >= 2 limbs or n beyond the bit length. Distinct = hash of all decoded choices.",
  check, nullptr, {"exact_power", "power_minus_1", "power_plus_1", "n_gt_bits", "huge_root_index", "negative_odd_root", "odd_limb_count", "sqrtrem:r2p==sp", "sqrtrem:r2p==NULL", "perfpow:true", "perfpow:smooth_common_multiplicity", "perfpow:negative_true", "ge_rootrem_threshold", "mpn_perfect_square_p:high_zero_limbs"}, fixed_case, sweep_count, sweep_item,
  "every u in [0,2^16): mpz_sqrt, mpz_sqrtrem, mpn_sqrtrem, mpz/mpn_perfect_square_p, mpz_perfect_power_p of u and -u, mpz_root/rootrem/nthroot for n = 1..18 (and of -u for odd n); plus every value of up to four limbs with limbs from {0,1,2^63-1,2^63,2^64-2,2^64-1} (1296 values): sqrt, sqrtrem, mpn_sqrtrem, perfect_square_p, perfect_power_p (also negated), root/rootrem/nthroot for n in {1..5,7,8,63..65,127..129,192,255..257,2^32,2^64-1} (and of -u for odd n)"};
}
