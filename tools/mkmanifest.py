#!/usr/bin/env python3
"""Regenerates MANIFEST.json from the table below (run after adding a check)."""
import json, os
ROOT = os.path.dirname(os.path.dirname(os.path.abspath(__file__)))
ids = [json.loads(l)["id"] for l in open(os.path.join(ROOT, "properties.jsonl"))]

NOTE_STD = ("Trusted base: refint (self-written reference bignum, cross-checked against CPython ints at setup), the sandbox compilers/sanitizers/libc. "
            "Nothing is proved: the claim is 'held on every generated case'; evidence lists counts, labels and samples.")
# property -> (technique, level text, design_ref, level category)
T = {
 "C01": ("property-based testing (byte-stream PBT, region-targeted (un,vn) shapes, refint exact-product oracle) + libFuzzer in thorough",
         "Generated-input search over every multiplication entry point with (un,vn) shapes aimed at each branch of the size dispatch (basecase, chunked basecase, Toom-42/32/3/53/4/8h, FFT incl. direct mpn_mul_fft_main calls) and limb contents incl. all-ones; each product is compared limb by limb with an independent reference bignum (modular fingerprints above 24000 limbs), under ASan/UBSan with guard limbs. Exploration: the property is a universally quantified functional equation with an exact executable oracle.",
         "DESIGN.md section 5 C01"),
 "C02": ("property-based testing (byte-stream PBT, backward-constructed dividends n=q*d+r, refint oracle) + libFuzzer in thorough",
         "Generated-input search over the mpn and mpz division families: dividends are constructed backwards from chosen quotients/remainders (all-ones quotient limbs, r in {0,d-1}, dividend prefixes equal to the divisor) with divisor sizes on both sides of the schoolbook/divide-and-conquer/inverse crossovers; q, r, rounding direction, remainder sign, _ui return values and the divisibility/congruence predicates (incl. d=0) are decided by an independent reference bignum under ASan/UBSan. Exploration: universally quantified functional equation with an exact executable oracle.",
         "DESIGN.md section 5 C02"),
 "C03": ("property-based testing (byte-stream PBT, refint oracle, guard limbs) + libFuzzer in thorough",
         "Generated-input search: every mpn/mpz add/sub/neg/shift/copy entry point is called on generated lengths, limb styles, constructed carry chains and every permitted overlap; results, returned carries and untouched guard limbs are compared with an independent reference bignum under ASan/UBSan. Exploration is the right level: the property quantifies over all inputs and an executable exact oracle exists.",
         "DESIGN.md section 5 C03"),
 "C10": ("property-based testing (byte-stream PBT, refint two's-complement model) + libFuzzer in thorough",
         "Generated-input search over the mpz bit functions (all sign combinations, negatives with low zero limbs, -2^k, bit indices at/above the top) and the mpn logical functions; every result is compared with an independent model of the infinitely sign-extended two's-complement string, incl. the 'largest mp_bitcnt_t' answers. Exploration: exact executable oracle for a universally quantified property.",
         "DESIGN.md section 5 C10"),
 "C06": ("property-based testing (byte-stream PBT, string grammar with must-accept / must-reject classes, refint radix oracle) + libFuzzer in thorough",
         "Generated-input search over get_str/out_str/sizeinbase/mpn_get_str (every base 2..62, -2..-36, mpn up to 256; exact-size buffers under ASan) and set_str/init_set_str/inp_str/mpn_set_str/mpq_set_str on strings produced by a grammar (prefixes, case rules, white space, leading zeros) and on mutations that must be rejected; values and digit strings are decided by an independent reference conversion, plus the get_str->set_str/inp_str round trip. Exploration: exact executable oracle; strings whose status the manual leaves open are not asserted.",
         "DESIGN.md section 5 C06"),
 "C07": ("property-based testing (byte-stream PBT, operands built backwards from quotient sequences, refint certificates) + libFuzzer in thorough",
         "Generated-input search over gcd/gcdext/lcm/invert/mpn_gcd/mpn_gcdext/mpn_gcd_1 and the Jacobi/Kronecker entry points: operand pairs are g*(x,y) with coprime (x,y) constructed from chosen quotient sequences (Fibonacci-like runs, huge partial quotients), special relations (a=b, b|a, |b|=2g, zero) and sizes around the Lehmer/HGCD/sub-quadratic crossovers; results are decided by refint certificates (g|a, g|b, a*s+b*t=g), the manual's cofactor rules, and a textbook Kronecker recursion. Exploration: executable exact oracle for a universally quantified property.",
         "DESIGN.md section 5 C07"),
 "C08": ("property-based testing (byte-stream PBT, refint square-and-multiply oracle) + libFuzzer in thorough",
         "Generated-input search over mpz_powm/powm_ui (bases of every sign and size, exponent bit patterns for every window width, moduli odd / even with any 2-adic valuation incl. zero low limbs / powers of two / +-1, sizes around the REDC and POWM crossovers, negative exponents with invertible base) and mpz_pow_ui/ui_pow_ui (0^0, +-1, +-2^k, negative bases); results are compared with an independent square-and-multiply on the reference bignum. Exploration with an exact executable oracle.",
         "DESIGN.md section 5 C08"),
 "C12": ("property-based testing (byte-stream PBT, planted common factors, refint fraction oracle compared as a pair) + libFuzzer in thorough",
         "Generated-input search over mpq arithmetic (add/sub/mul/div/inv/neg/abs/mul_2exp/div_2exp, every alias pattern), canonicalize and the exact conversions (set_d/set_f/set_z/set_si/set_ui): canonical operands with planted common factors between denominators and cross terms so every gcd branch is taken; each result must equal the refint-reduced exact fraction as a pair (positive denominator, coprime, 0/1). Both the inline functions of mpir.h and the out-of-line library copies are exercised. Exploration with an exact executable oracle.",
         "DESIGN.md section 5 C12"),
 "C20": ("generated-program differential testing (random well-typed C++ expression programs vs explicit C calls, tree-level shrinking)",
         "Generated programs: a generator emits translation units of random well-typed expression trees over mpz_class/mpq_class/mpf_class and built-in operands (assignment targets occurring inside the tree, compound assignments, comparisons, named functions, conversions, stream I/O) together with the reference evaluation of every node into its own temporary with the documented C function; programs are compiled against the tree's mpirxx.h and cxx/*.cc (ASan build) and run on run-time value tuples; any mismatch is shrunk at tree level to a one-function replay program. Exploration over programs x inputs with a differential oracle taken from the manual.",
         "DESIGN.md section 5 C20 and cxxgen/README.md"),
 "C14": ("differential testing of every assembly kernel against the portable C routine + the property battery re-run against builds with each tuning table / configure option",
         "Three generated-input layers: (1) all 351 assembly files under mpn/x86_64/** are assembled standalone and every exported entry point is compared bitwise (outputs, return value, guard limbs) with the portable C routine of the same name built from the tree, with tests/refmpn.c and with an independent __int128 restatement, on generated lengths/alignments/overlaps/limb styles; (2) the numeric battery (C01 C02 C03 C06 C07 C08 C09 C10 check functions, refint oracle) runs against builds of the tree with the shipped gmp-mparam.h tables (3 per quick run chosen by seed, all 20 in thorough); (3) the same battery runs against real configure runs (--enable-fat, --enable-alloca=debug --enable-assert; thorough adds malloc-reentrant, alloca and one build per CPU name) and the fat build's dispatch table is checked against the configure.ac path of the host CPU. Exploration over configurations x inputs.",
         "DESIGN.md section 5 C14 and props/C14/README.md"),
 "C09": ("property-based testing (byte-stream PBT, u = k^n + delta constructions, refint root oracle) + libFuzzer in thorough",
         "Generated-input search over sqrt/sqrtrem/mpn_sqrtrem/root/nthroot/rootrem and the perfect-square/perfect-power predicates with u built as k^n, k^n+-1, k^n+-2 (k with long runs of ones, n from 1 to beyond the bit length, negative u with odd n), odd and even limb counts and all permitted aliasings; results are decided by refint integer roots, remainders u - root^n and the exactness equivalence. Exploration with an exact executable oracle.",
         "DESIGN.md section 5 C09"),
 "C11": ("property-based testing (byte-stream PBT, boundary-value generators, exact rational / IEEE-truncation oracle) + libFuzzer in thorough",
         "Generated-input search over the comparison functions (mpz/mpq/mpf, incl. _ui/_si/_d/_z forms, doubles taken from bit patterns incl. subnormals and infinities) and the conversions to/from C types (set/get ui/si/ux/sx/d, d_2exp, fits predicates) with operands concentrated around every C type boundary and values with more than 53 significant bits; the sign of the exact difference and the exact truncation toward zero are computed with the reference bignum. Where the manual calls the result system dependent (below the normal double range, get_si out of range) nothing stricter is asserted. Exploration with an exact oracle.",
         "DESIGN.md section 5 C11"),
 "C16": ("property-based testing (byte-stream PBT, definition-based refint oracle, constructed primes/pseudoprimes) + libFuzzer in thorough",
         "Generated-input search over fac/2fac/mfac/primorial, bin_ui/bin_uiui (each algorithm region, negative and multi-limb n), fib/fib2/lucnum/lucnum2, remove, and the primality family on all small n, type-boundary neighbourhoods, Carmichael numbers, strong pseudoprimes, close semiprimes and special-form large primes/composites; values are decided by definition in the reference bignum and primality by deterministic Miller-Rabin (n < 2^81) or construction. Checks are exactly the stated ones (never 0 for a prime, never 2 for a composite, 0 at >=25 reps, nextprime result > n with no prime between). Exploration with an exact oracle.",
         "DESIGN.md section 5 C16"),
 "C13": ("property-based testing (byte-stream PBT, hand-built mpf operands, exact dyadic/rational oracle for the 2^(2-p) bound and the exactness clause) + libFuzzer in thorough",
         "Generated-input search over the mpf arithmetic, assignment, string and exact functions with destination precision chosen independently of the operand precisions (directly, via mpf_set_prec, via mpf_set_prec_raw), operands built limb by limb incl. prec+1 limbs, low zero limbs, all exponent relations and the nearly-cancelling 'x+1|000.. minus x|fff..' patterns; every result is read as an exact dyadic rational and compared with the exact value in the reference bignum: error < 2^(2-p)|exact|, equality when operands and value fit in p bits, exactness of floor/ceil/trunc/neg/abs/2exp, mpf_get_str within one unit of the last requested digit, and the format rules after every call. Two recorded known findings are excluded by predicate and replayed on every run. Exploration with an exact oracle.",
         "DESIGN.md section 5 C13"),
 "C17": ("property-based testing with exhaustive fault enumeration per generated stream (fopencookie fault-injecting streams, recording allocator, refint format models)",
         "Generated values and parameters for mpz_export/import (size 1..16, order, endian, nails, every misalignment, exact-size buffers under ASan) and the raw/text stream functions, decided by byte-exact models of the documented formats and round trips; for every generated stream ALL truncation points (as end of stream and as read error) and ALL positions at which an unbuffered writer fails are enumerated: input returns 0 / the available prefix, output returns 0 (gmp_fprintf -1), no leak or allocator contract breach, destination reusable. Fault enumeration is exhaustive per stream; streams and values are sampled.",
         "DESIGN.md section 5 C17", "fault_enumeration"),
 "C18": ("property-based differential testing against libc printf/scanf (byte-stream PBT over the flag x width x precision x conversion cross product, validated layout model for big values, recording allocator)",
         "Generated formats (every subset of the flags - + space # 0, widths incl. * positive/negative, precisions incl. .* negative and the empty '.', conversions d i o x X for Z/Q/N/M and e f g E G for F, alone or between standard conversions) are passed to all eight members of the gmp_printf family; output, return value, truncation behaviour of snprintf into exact-size buffers, asprintf block size and %n are compared byte for byte with libc on the equal long/double value, and with a layout model validated against libc in the same run where C has no counterpart (signed o/x/X, multi-limb values); gmp_sscanf/gmp_fscanf must read back what was printed with the C-style field count. Exploration with a differential oracle.",
         "DESIGN.md section 5 C18"),
 "C19": ("stateful property-based testing (twin-state histories, refint range checks) + fixed-threshold statistical batteries",
         "Generated histories over all three generator kinds and every lc_2exp_size table entry with special and multi-limb seeds: interleaved draws of every random function are range-checked and replayed on a twin state (same algorithm and seed, or a gmp_randinit_set copy taken at a generated point) which must produce identical values; statistics batches (chi-square of top/low bytes, per-bit frequencies, binned urandomm, and absence of short periods in the 1-bit stream of the linear congruential kinds) use fixed acceptance regions with false-alarm probability below 1e-12. Exploration over histories; detects gross bias only, as the property asks.",
         "DESIGN.md section 5 C19"),
}
built = [i for i in ids if i in T and (os.path.exists(os.path.join(ROOT, "props", i + ".cc")) or os.path.exists(os.path.join(ROOT, "props", i + "_run.py")))]
checks = []
for i in built:
    tech, text, ref = T[i][:3]
    cat = T[i][3] if len(T[i]) > 3 else "exploration"
    checks.append({"property_id": i, "quick_cmd": f"./check {i} --tier quick", "thorough_cmd": f"./check {i} --tier thorough",
                   "evidence_file": f"evidence/{i}.json", "replay_cmd_template": f"./check {i} --replay {{path}}",
                   "engine": "byte-stream PBT engine", "level_claimed": {"category": cat, "text": text, "design_ref": ref},
                   "level_note": NOTE_STD, "technique": tech})
na = [{"property_id": i, "reason": "check not built yet in this session (work in progress; the design in DESIGN.md section 5 applies the same technique)"} for i in ids if i not in built]
m = {"version": 1, "setup_cmd": "./setup.sh",
     "hooks": {"guard": "WBHART_MPIR_VERIF",
               "enable": "no hooks are needed: checks build the unmodified sources of /repo's working tree in scratch copies (build/mkvariant.sh) with sanitizer/compiler flags only",
               "baseline_off_cmd": "make -C /repo check", "source_commits": [], "add_only": True},
     "engines": [{"name": "byte-stream PBT engine", "path": "harness/", "serves_properties": built,
                  "kind_free_text": "Hypothesis-style byte-stream property engine in C++ (16 forked workers, byte-level shrinking to a replay file); the same decode-and-check function is also built as a libFuzzer target (thorough tier); oracle = refint reference bignum / libc / metamorphic relations"}],
     "checks": checks, "not_applicable": na,
     "notes": "Every check rebuilds the library variant it needs from /repo's current working tree (cached by content hash under /verif/.cache). VERIF_SEED selects the generated cases; replay files are raw byte strings decoded by the property."}
json.dump(m, open(os.path.join(ROOT, "MANIFEST.json"), "w"), indent=1)
print("claimed:", built, "not_applicable:", [x["property_id"] for x in na])
