/* Build and run:
     cc -O1 -g -I/tmp/hunt4-C19 demo.c /tmp/hunt4-C19/.libs/libmpir.a -o demo && ./demo
   Exits 0 if every draw returns; exits 1 (after a 3 second watchdog) when a
   draw from a generator made with gmp_randinit_lc_2exp (state, a, c, 1) never
   returns.  On the unmodified tree all four draws below hang.  */
#include <stdio.h>
#include <stdlib.h>
#include <signal.h>
#include <unistd.h>
#include <sys/wait.h>
#include "mpir.h"

static int
try_draw (int which)
{
  pid_t pid = fork ();
  if (pid == 0)
    {
      gmp_randstate_t st;
      mpz_t a, z, n;
      mpz_init_set_ui (a, 1);
      mpz_init (z);
      mpz_init_set_ui (n, 1);
      gmp_randinit_lc_2exp (st, a, 1, 1);	/* X = (X + 1) mod 2^1 : accepted */
      alarm (3);
      switch (which)
	{
	case 0: mpz_urandomb (z, st, 1); break;		/* one bit */
	case 1: mpz_urandomb (z, st, 0); break;		/* even zero bits */
	case 2: (void) gmp_urandomm_ui (st, 1); break;	/* modulus 1: zero bits */
	case 3: mpz_urandomm (z, st, a /* == 1 */); mpz_set_ui (n, 5); mpz_urandomm (z, st, n); break;
	}
      _exit (0);
    }
  else
    {
      int status;
      waitpid (pid, &status, 0);
      return WIFSIGNALED (status) && WTERMSIG (status) == SIGALRM;
    }
}

int
main (void)
{
  static const char *name[] = {
    "mpz_urandomb (z, state, 1)", "mpz_urandomb (z, state, 0)",
    "gmp_urandomm_ui (state, 1)", "mpz_urandomm (z, state, 5)" };
  int i, bad = 0;
  for (i = 0; i < 4; i++)
    if (try_draw (i))
      {
	printf ("gmp_randinit_lc_2exp (state, 1, 1, m2exp=1): %s never returns "
		"(killed by the 3 s watchdog)\n", name[i]);
	bad = 1;
      }
  if (!bad)
    printf ("all draws returned\n");
  return bad;
}
