/* C04 finding 1: mpz_ui_pow_ui / mpz_pow_ui overrun the destination (heap) and their
   scratch block (stack) when the size estimate  bits(base) * e  wraps around 2^64.

   Build and run:
     gcc -O1 -g -I/tmp/hunt-C04 demo.c /tmp/hunt-C04/.libs/libmpir.a -o demo && ./demo
   Exits 0 if the library fails cleanly (abort with "gmp: overflow in mpz type" or an
   allocation failure), non-zero if it writes outside its blocks.

   The call is made in a child process.  A recording allocator installed with
   mp_set_memory_functions puts a 4096-byte guard area behind every block; after every
   allocator call, and from a SIGSEGV/SIGALRM handler, the guard areas are inspected.
   The oracle is therefore independent of any MPIR arithmetic.  */
#include <stdio.h>
#include <stdlib.h>
#include <string.h>
#include <signal.h>
#include <unistd.h>
#include <sys/wait.h>
#include "mpir.h"

#define GUARD 4096
#define MAXB 64
static struct { unsigned char *p; size_t n; } blk[MAXB];
static int nblk;

static int check_guards (const char *when)
{
  int bad = 0;
  for (int i = 0; i < nblk; i++)
    if (blk[i].p)
      for (size_t j = 0; j < GUARD; j++)
        if (blk[i].p[blk[i].n + j] != 0x5A)
          {
            char msg[200];
            int l = snprintf (msg, sizeof msg,
              "VIOLATION (%s): block of %zu bytes (%zu limbs) overwritten at byte +%zu past its end\n",
              when, blk[i].n, blk[i].n / sizeof (mp_limb_t), j);
            write (1, msg, l);
            bad = 1;
            break;
          }
  return bad;
}
static void *my_alloc (size_t n)
{
  if (check_guards ("seen at next allocate")) _exit (10);
  unsigned char *p = malloc (n + GUARD);
  if (!p) { fprintf (stderr, "allocator: out of memory (clean failure)\n"); abort (); }
  memset (p + n, 0x5A, GUARD);
  blk[nblk].p = p; blk[nblk].n = n; nblk++;
  return p;
}
static void my_free (void *q, size_t n)
{
  if (check_guards ("seen at free")) _exit (10);
  for (int i = 0; i < nblk; i++) if (blk[i].p == q) blk[i].p = 0;
  free (q);
}
static void *my_realloc (void *q, size_t on, size_t nn)
{
  void *p = my_alloc (nn);
  memcpy (p, q, on < nn ? on : nn);
  my_free (q, on);
  return p;
}
static void on_fault (int sig)
{
  int bad = check_guards (sig == SIGSEGV ? "seen after SIGSEGV" : "seen at timeout");
  _exit (bad ? 10 : (sig == SIGSEGV ? 11 : 12));
}

static int try_pow (unsigned long b, unsigned long e)
{
  printf ("mpz_ui_pow_ui (r, %lu, %lu): ", b, e); fflush (stdout);
  pid_t pid = fork ();
  if (pid == 0)
    {
      static char altstack[1 << 16];
      stack_t ss = { altstack, 0, sizeof altstack };
      sigaltstack (&ss, 0);
      struct sigaction sa; memset (&sa, 0, sizeof sa);
      sa.sa_handler = on_fault; sa.sa_flags = SA_ONSTACK;
      sigaction (SIGSEGV, &sa, 0); sigaction (SIGBUS, &sa, 0); sigaction (SIGALRM, &sa, 0);
      alarm (20);
      mp_set_memory_functions (my_alloc, my_realloc, my_free);
      mpz_t r;
      mpz_init (r);
      mpz_ui_pow_ui (r, b, e);
      if (check_guards ("seen after return")) _exit (10);
      printf ("returned, size=%d alloc=%d\n", r->_mp_size, r->_mp_alloc); fflush (stdout);
      _exit (r->_mp_alloc >= abs (r->_mp_size) ? 0 : 10);
    }
  int st;
  waitpid (pid, &st, 0);
  if (WIFSIGNALED (st) && WTERMSIG (st) == SIGABRT)
    { printf ("library aborted: clean failure, fine\n"); return 0; }
  if (WIFEXITED (st) && WEXITSTATUS (st) == 0)
    return 0;
  if (WIFEXITED (st) && WEXITSTATUS (st) == 10)
    return 1;
  printf ("child ended abnormally (status 0x%x) without a clean library failure\n", st);
  return 1;
}

int main (void)
{
  int bad = 0;
  /* control: 3^(2^63) cannot be represented; the estimate does not wrap and the library
     stops with "gmp: overflow in mpz type" */
  bad += try_pow (3, 1UL << 63);
  /* 3 is first powered up to 3^32 (51 bits), leaving e' = e/32 = 361700864190383366;
     51 * e' = 2^64 + 34 wraps to 34, so the result is given 34/64 + 5 = 5 limbs and the
     scratch block 2 limbs, and the squaring loop runs over both */
  bad += try_pow (3, 11574427654092267712UL);
  /* 63 -> 63^8 (48 bits), e' = 2^60, 48 * 2^60 = 3 * 2^64 wraps to 0 */
  bad += try_pow (63, 1UL << 63);
  if (bad)
    printf ("FAIL: %d call(s) wrote outside the blocks the library owns\n", bad);
  else
    printf ("ok\n");
  return bad != 0;
}
