/* C04 finding 3: mpz_urandomb and mpz_rrandomb with nbits in [ULONG_MAX-62, ULONG_MAX] compute a
   limb count of 0 (nbits + 63 wraps), skip the reallocation and then write 2^58 limbs through the
   one-limb block of the destination.

   Build and run:
     gcc -O1 -g -I/tmp/hunt-C04 demo.c /tmp/hunt-C04/.libs/libmpir.a -o demo && ./demo
   Exits 0 if each call fails cleanly (library abort) or stays inside its blocks, non-zero otherwise.
   Oracle: recording allocator with guard areas before and behind every block, inspected at every allocator
   call, after return and from the SIGSEGV/SIGBUS handler; each call runs in a child process. */
#include <stdio.h>
#include <stdlib.h>
#include <string.h>
#include <signal.h>
#include <limits.h>
#include <unistd.h>
#include <sys/wait.h>
#include "mpir.h"

#define GUARD 4096
#define MAXB 256
static struct { unsigned char *p; size_t n; } blk[MAXB];
static int nblk;
static int check_guards (const char *when)
{
  int bad = 0;
  for (int i = 0; i < nblk; i++)
    if (blk[i].p)
      for (size_t j = 0; j < GUARD; j++)
        if (blk[i].p[blk[i].n + j] != 0x5A || blk[i].p[-1 - (long) j] != 0x5A)
          {
            char msg[200];
            int after = blk[i].p[blk[i].n + j] != 0x5A;
            int l = snprintf (msg, sizeof msg,
              "VIOLATION (%s): block of %zu bytes overwritten at byte %s%zu %s\n", when, blk[i].n,
              after ? "+" : "-", after ? j : j + 1, after ? "past its end" : "before its start");
            write (1, msg, l); bad = 1; break;
          }
  return bad;
}
static void *my_alloc (size_t n)
{
  if (check_guards ("seen at next allocate")) _exit (10);
  unsigned char *p = malloc (n + 2 * GUARD);
  if (!p) abort ();
  memset (p, 0x5A, GUARD); p += GUARD;
  memset (p + n, 0x5A, GUARD);
  blk[nblk].p = p; blk[nblk].n = n; nblk++;
  return p;
}
static void my_free (void *q, size_t n)
{
  if (check_guards ("seen at free")) _exit (10);
  for (int i = 0; i < nblk; i++) if (blk[i].p == q) blk[i].p = 0;
  free ((unsigned char *) q - GUARD);
}
static void *my_realloc (void *q, size_t on, size_t nn)
{ void *p = my_alloc (nn); memcpy (p, q, on < nn ? on : nn); my_free (q, on); return p; }
static void on_fault (int sig)
{ int bad = check_guards ("seen after SIGSEGV/SIGBUS"); _exit (bad ? 10 : 11); }

static int try_call (int which, unsigned long nbits)
{
  printf ("%s (r, state, %lu): ", which ? "mpz_rrandomb" : "mpz_urandomb", nbits); fflush (stdout);
  pid_t pid = fork ();
  if (pid == 0)
    {
      static char altstack[1 << 16];
      stack_t ss = { altstack, 0, sizeof altstack };
      sigaltstack (&ss, 0);
      struct sigaction sa; memset (&sa, 0, sizeof sa);
      sa.sa_handler = on_fault; sa.sa_flags = SA_ONSTACK;
      sigaction (SIGSEGV, &sa, 0); sigaction (SIGBUS, &sa, 0); sigaction (SIGALRM, &sa, 0);
      alarm (30);
      mp_set_memory_functions (my_alloc, my_realloc, my_free);
      gmp_randstate_t st; mpz_t r;
      gmp_randinit_default (st);
      mpz_init (r);
      if (which) mpz_rrandomb (r, st, nbits); else mpz_urandomb (r, st, nbits);
      if (check_guards ("seen after return")) _exit (10);
      printf ("returned, size=%d alloc=%d\n", r->_mp_size, r->_mp_alloc); fflush (stdout);
      _exit (abs (r->_mp_size) <= r->_mp_alloc ? 0 : 10);
    }
  int st; waitpid (pid, &st, 0);
  if (WIFSIGNALED (st) && WTERMSIG (st) == SIGABRT) { printf ("library aborted: clean failure, fine\n"); return 0; }
  if (WIFEXITED (st) && WEXITSTATUS (st) == 0) return 0;
  if (!(WIFEXITED (st) && WEXITSTATUS (st) == 10))
    printf ("child ended abnormally (status 0x%x) without a clean library failure\n", st);
  return 1;
}

int main (void)
{
  int bad = 0;
  bad += try_call (0, 1000);                 /* control */
  bad += try_call (0, ULONG_MAX - 63);       /* control: 2^58 limbs, no wrap -> "gmp: overflow in mpz type" */
  bad += try_call (1, ULONG_MAX - 63);
  bad += try_call (0, ULONG_MAX - 62);       /* wraps */
  bad += try_call (0, ULONG_MAX);
  bad += try_call (1, ULONG_MAX);
  if (bad) printf ("FAIL: %d call(s) wrote outside the destination's block instead of failing cleanly\n", bad);
  else printf ("ok\n");
  return bad != 0;
}
