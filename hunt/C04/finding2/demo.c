/* C04 finding 2: mpz_realloc2 (x, bits) with bits in [ULONG_MAX-62, ULONG_MAX] does not grow x
   (and does not fail): it shrinks x to ONE limb and sets its value to 0.

   Build and run:
     gcc -O1 -g -I/tmp/hunt-C04 demo.c /tmp/hunt-C04/.libs/libmpir.a -o demo && ./demo
   Exits 0 if every call either keeps the value (oracle: a private copy of the limbs made with
   memcpy before the call) or fails cleanly (abort, observed in a child process); non-zero otherwise. */
#include <stdio.h>
#include <stdlib.h>
#include <string.h>
#include <limits.h>
#include <unistd.h>
#include <sys/wait.h>
#include "mpir.h"

static int try_bits (unsigned long bits)
{
  printf ("mpz_realloc2 (x = 2^100+7, %lu): ", bits); fflush (stdout);
  pid_t pid = fork ();
  if (pid == 0)
    {
      mpz_t x;
      mp_limb_t before[2];
      mpz_init (x);
      mpz_set_ui (x, 1); mpz_mul_2exp (x, x, 100); mpz_add_ui (x, x, 7);   /* 2 limbs */
      memcpy (before, x->_mp_d, sizeof before);
      mpz_realloc2 (x, bits);         /* "The value in x is preserved if it fits" -- 101 bits fit */
      if (x->_mp_size != 2 || memcmp (before, x->_mp_d, sizeof before) != 0)
        {
          printf ("VALUE LOST: size=%d alloc=%d (was size=2), x is now %s\n",
                  x->_mp_size, x->_mp_alloc, x->_mp_size == 0 ? "0" : "something else");
          fflush (stdout); _exit (10);
        }
      printf ("value kept, alloc=%d\n", x->_mp_alloc);
      fflush (stdout); _exit (0);
    }
  int st; waitpid (pid, &st, 0);
  if (WIFSIGNALED (st) && WTERMSIG (st) == SIGABRT) { printf ("library aborted: clean failure, fine\n"); return 0; }
  return !(WIFEXITED (st) && WEXITSTATUS (st) == 0);
}

int main (void)
{
  int bad = 0;
  bad += try_bits (200);                  /* control: grows */
  bad += try_bits (1UL << 40);            /* control: 2^34 limbs > INT_MAX, clean abort */
  bad += try_bits (ULONG_MAX - 63);       /* control: no wrap, clean abort */
  bad += try_bits (ULONG_MAX - 62);       /* bits + 63 wraps to 0 */
  bad += try_bits (ULONG_MAX);            /* bits + 63 wraps to 62 */
  if (bad) printf ("FAIL: %d call(s) destroyed the value of a variable that was asked to GROW\n", bad);
  else printf ("ok\n");
  return bad != 0;
}
