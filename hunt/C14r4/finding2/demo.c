/* C14 finding 2: on a Skylake CPU WITHOUT AVX (Pentium G4400 / Celeron G39xx: family 6 model 94, CPUID
   reports no AVX, no AVX2) the fat binary -- and a "skylake-*-*" build -- run mpn_add_n / mpn_sub_n from
   mpn/x86_64/skylake/{add_n,sub_n}.as, whose main loop contains the AVX2 instruction
   "vpblendd ymm0,ymm0,ymm0,0".  On such a CPU that instruction raises #UD (SIGILL) for every n >= 8.

   The host used for the evaluation does have AVX2, so the instruction cannot be made to trap here.
   Instead this program shows, on the UNMODIFIED library:
     1. CPUID is emulated (Linux CPUID faulting, arch_prctl(ARCH_SET_CPUID,0) + SIGSEGV handler) to answer
        like a Pentium G4400: GenuineIntel, family 6, model 94, leaf 1 ECX bit 28 (AVX) = 0, leaf 7 EBX = 0;
     2. the fat dispatcher (cpuid.c / mpn/x86_64/fat/fat.c, unmodified) then installs __gmpn_add_n_skylake
        and __gmpn_sub_n_skylake in __gmpn_cpuvec;
     3. mpn_add_n / mpn_sub_n with n = 16 are executed under single-step (EFLAGS.TF + SIGTRAP) and every
        executed instruction that starts with a VEX prefix (0xC4 / 0xC5, i.e. an AVX-class instruction) is
        reported.  A CPU that reports no AVX must never be given such an instruction.

   Build (fat build of an unmodified copy of the tree, then this file):
     cp -a /tmp/hunt4-C14 /tmp/c14-fat && cd /tmp/c14-fat && (make distclean; ./configure --enable-fat --disable-shared && make -j4)
     gcc -O1 -mno-red-zone -no-pie -I/tmp/c14-fat demo.c /tmp/c14-fat/.libs/libmpir.a -o demo && ./demo
   (a ready build of the unmodified HEAD is in /tmp/hunt4-C14-out/fat-unmod:
     gcc -O1 -mno-red-zone -no-pie -I/tmp/hunt4-C14-out/fat-unmod demo.c /tmp/hunt4-C14-out/fat-unmod/.libs/libmpir.a -o demo && ./demo )

   Exit status 1 and "WRONG: ..." lines on the unmodified tree; 0 if no VEX instruction is executed.  */
#define _GNU_SOURCE
#include <stdio.h>
#include <stdlib.h>
#include <string.h>
#include <signal.h>
#include <unistd.h>
#include <ucontext.h>
#include <sys/syscall.h>
#include "mpir.h"
#include "gmp-impl.h"

#ifndef ARCH_SET_CPUID
#define ARCH_SET_CPUID 0x1012
#endif

static volatile long n_cpuid_emulated;

/* CPUID of a Pentium G4400 (Skylake-S, no AVX/AVX2/BMI), reduced to what matters */
static void segv (int sig, siginfo_t *si, void *ucv)
{
  ucontext_t *uc = ucv;
  greg_t *g = uc->uc_mcontext.gregs;
  unsigned char *ip = (unsigned char *) g[REG_RIP];
  if (ip[0] == 0x0f && ip[1] == 0xa2)
    {
      unsigned leaf = (unsigned) g[REG_RAX];
      unsigned a = 0, b = 0, c = 0, d = 0;
      switch (leaf)
        {
        case 0: a = 0x16; b = 0x756e6547; d = 0x49656e69; c = 0x6c65746e; break;   /* "GenuineIntel" */
        case 1: a = 0x000506E3;        /* family 6, model 0x5E = 94, stepping 3 */
                b = 0x00100800;
                c = 0x4FDAEBBF & ~((1u << 28) | (1u << 12) | (1u << 29) | (1u << 26) | (1u << 27)); /* no AVX, FMA, F16C, XSAVE, OSXSAVE */
                d = 0xBFEBFBFF; break;
        case 7: a = 0; b = 0; c = 0; d = 0; break;   /* no AVX2, BMI1, BMI2, ADX */
        case 0x80000000u: a = 0x80000008u; break;
        case 0x80000001u: c = 0x121; d = 0x2C100800; break;
        default: break;
        }
      g[REG_RAX] = a; g[REG_RBX] = b; g[REG_RCX] = c; g[REG_RDX] = d;
      g[REG_RIP] += 2;
      n_cpuid_emulated++;
      return;
    }
  _exit (99);
}

static volatile long steps, vex_steps;
static volatile unsigned long vex_ip[8];

static void trap (int sig, siginfo_t *si, void *ucv)
{
  ucontext_t *uc = ucv;
  unsigned char *ip = (unsigned char *) uc->uc_mcontext.gregs[REG_RIP];
  steps++;
  if (ip[0] == 0xC4 || ip[0] == 0xC5)     /* VEX prefix: always an AVX-class instruction in 64-bit mode */
    {
      if (vex_steps < 8) vex_ip[vex_steps] = (unsigned long) ip;
      vex_steps++;
    }
}

#define TF_ON()   __asm__ volatile ("pushfq\n\torq $0x100,(%%rsp)\n\tpopfq" ::: "cc", "memory")
#define TF_OFF()  __asm__ volatile ("pushfq\n\tandq $0xfffffffffffffeff,(%%rsp)\n\tpopfq" ::: "cc", "memory")

#define N 16

int main (void)
{
  struct sigaction sa;
  mp_limb_t a[N], b[N], r[N], want[N], cy, wcy;
  int i, bad = 0, op;

  memset (&sa, 0, sizeof sa);
  sa.sa_sigaction = segv; sa.sa_flags = SA_SIGINFO; sigaction (SIGSEGV, &sa, NULL);
  sa.sa_sigaction = trap; sigaction (SIGTRAP, &sa, NULL);

  if (syscall (SYS_arch_prctl, ARCH_SET_CPUID, 0) != 0)
    {
      printf ("note: CPUID faulting not available; installing the vector of the \"skylake\" CPU by hand\n");
      { struct cpuvec_t decided_cpuvec; memset (&decided_cpuvec, 0, sizeof decided_cpuvec);
        CPUVEC_SETUP_fat; CPUVEC_SETUP_x86_64; CPUVEC_SETUP_skylake;
        CPUVEC_INSTALL (decided_cpuvec); __gmpn_cpuvec.initialized = 1; }
    }

  for (i = 0; i < N; i++) { a[i] = 0x0123456789abcdefUL * (i + 1) + i; b[i] = ~a[i] + (i & 1); }

  /* first call: runs __gmpn_cpuvec_init under the emulated CPUID (n = 1 does not enter the 8-limb loop) */
  mpn_add_n (r, a, b, 1);
  printf ("CPUID instructions emulated as Pentium G4400 (model 94, AVX=0): %ld\n", n_cpuid_emulated);
  printf ("dispatcher chose for mpn_add_n: %s, for mpn_sub_n: %s\n",
          __gmpn_cpuvec.add_n == __gmpn_add_n_skylake ? "__gmpn_add_n_skylake (mpn/x86_64/skylake/add_n.as)" : "another kernel",
          __gmpn_cpuvec.sub_n == __gmpn_sub_n_skylake ? "__gmpn_sub_n_skylake (mpn/x86_64/skylake/sub_n.as)" : "another kernel");

  for (op = 0; op < 2; op++)
    {
      /* reference result, schoolbook */
      wcy = 0;
      for (i = 0; i < N; i++)
        {
          if (op == 0) { mp_limb_t s = a[i] + b[i], c1 = s < a[i]; want[i] = s + wcy; wcy = c1 | (want[i] < s); }
          else         { mp_limb_t s = a[i] - b[i], c1 = a[i] < b[i]; want[i] = s - wcy; wcy = c1 | (s < wcy); }
        }
      steps = vex_steps = 0;
      TF_ON ();
      cy = op == 0 ? mpn_add_n (r, a, b, N) : mpn_sub_n (r, a, b, N);
      TF_OFF ();
      printf ("%s (n=%d): %ld instructions single-stepped, %ld of them VEX-encoded (AVX class)\n",
              op == 0 ? "mpn_add_n" : "mpn_sub_n", N, steps, vex_steps);
      if (cy != wcy || memcmp (r, want, sizeof r) != 0)
        { printf ("WRONG: value differs from the schoolbook reference\n"); bad = 1; }
      if (vex_steps != 0)
        {
          unsigned char *p = (unsigned char *) vex_ip[0];
          unsigned long base = (unsigned long) (op == 0 ? (void *) __gmpn_add_n_skylake : (void *) __gmpn_sub_n_skylake);
          printf ("WRONG: the emulated CPU reports no AVX/AVX2 (CPUID.1:ECX.28 = 0, CPUID.7:EBX = 0), but the kernel executed\n"
                  "       an AVX instruction at %s+0x%lx: bytes %02x %02x %02x %02x %02x %02x (c4 e3 7d 02 c0 00 = vpblendd ymm0,ymm0,ymm0,0);\n"
                  "       a real Skylake Pentium/Celeron raises SIGILL here for every n >= 8\n",
                  op == 0 ? "__gmpn_add_n_skylake" : "__gmpn_sub_n_skylake", vex_ip[0] - base, p[0], p[1], p[2], p[3], p[4], p[5]);
          bad = 1;
        }
    }
  if (!bad) printf ("ok: no AVX instruction executed\n");
  return bad;
}
