/* C14 finding 3 (low severity, no shipped table reaches it): with MUL_TOOM3_THRESHOLD at its documented
   minimum (MPN_TOOM3_MUL_N_MINSIZE = 17, which is also where tune/tuneup.c starts its search) mpn_mul enters
   mpn_toom3_mul with an = 18 or 19, below the minimum that function asserts (ASSERT (an >= 20),
   mpn/generic/toom3_mul.c:257).  Default build: correct product.  --enable-assert build: abort.

   Build/run against the unmodified tree built the default way:
     T=/tmp/hunt4-C14
     gcc -O1 -I$T -DHAVE_CONFIG_H -D__GMP_WITHIN_GMP -DWANT_ASSERT=1 -c mul_t17.c -o mul_t17_assert.o
     gcc -O1 -I$T -DHAVE_CONFIG_H -D__GMP_WITHIN_GMP -DWANT_ASSERT=1 -c $T/mpn/generic/toom3_mul.c -o toom3_mul_assert.o
     gcc -O1 -I$T demo.c mul_t17_assert.o toom3_mul_assert.o $T/.libs/libmpir.a -o demo && ./demo      -> exit 1
   (-DWANT_ASSERT=1 is what configure --enable-assert puts into config.h; the two objects replace the archive
   members mul.o and toom3_mul.o.)  For contrast, the same threshold without assertions:
     gcc -O1 -I$T -DHAVE_CONFIG_H -D__GMP_WITHIN_GMP -c mul_t17.c -o mul_t17.o
     gcc -O1 -I$T demo.c mul_t17.o $T/.libs/libmpir.a -o demo-noassert && ./demo-noassert               -> exit 0
   The same abort was seen in a complete build: configure --enable-assert with gmp-mparam.h edited to
   "#define MUL_TOOM3_THRESHOLD 17" (toom3_mul.c:257: GNU MP assertion failed: an >= 20).  */
#include <stdio.h>
#include <string.h>
#include <signal.h>
#include <unistd.h>
#include <sys/wait.h>
#include "mpir.h"

static void ref_mul (mp_limb_t *r, const mp_limb_t *a, int an, const mp_limb_t *b, int bn)
{
  int i, j;
  memset (r, 0, (an + bn) * sizeof (mp_limb_t));
  for (j = 0; j < bn; j++)
    {
      unsigned __int128 c = 0;
      for (i = 0; i < an; i++)
        { c += (unsigned __int128) a[i] * b[j] + r[i + j]; r[i + j] = (mp_limb_t) c; c >>= 64; }
      r[an + j] = (mp_limb_t) c;
    }
}

static int try (int an, int bn)
{
  mp_limb_t a[32], b[32], r[64], w[64];
  int i, st;
  pid_t pid;
  for (i = 0; i < an; i++) a[i] = 0x9e3779b97f4a7c15UL * (i + 3) ^ (a[i ? i - 1 : 0] >> 7);
  for (i = 0; i < bn; i++) b[i] = 0xd1b54a32d192ed03UL * (i + 5) + i;
  ref_mul (w, a, an, b, bn);
  fflush (stdout);
  pid = fork ();
  if (pid == 0)
    {
      mpn_mul (r, a, an, b, bn);
      _exit (memcmp (r, w, (an + bn) * sizeof (mp_limb_t)) == 0 ? 0 : 1);
    }
  waitpid (pid, &st, 0);
  if (WIFSIGNALED (st))
    { printf ("WRONG: mpn_mul (%d limbs x %d limbs) killed by signal %d%s\n", an, bn, WTERMSIG (st), WTERMSIG (st) == SIGABRT ? " (SIGABRT: failed ASSERT)" : ""); return 1; }
  if (WEXITSTATUS (st) != 0)
    { printf ("WRONG: mpn_mul (%d limbs x %d limbs) differs from the schoolbook product\n", an, bn); return 1; }
  printf ("ok: mpn_mul (%d limbs x %d limbs) equals the schoolbook product\n", an, bn);
  return 0;
}

int main (void)
{
  int bad = 0;
  bad |= try (18, 16);
  bad |= try (18, 17);
  bad |= try (19, 15);
  bad |= try (19, 18);
  bad |= try (20, 15);   /* an = 20 is fine */
  bad |= try (17, 17);   /* balanced: mpn_mul_n / mpn_toom3_mul_n, fine */
  return bad;
}
