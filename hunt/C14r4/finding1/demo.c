/* C14 finding 1: gmp_printf / gmp_sprintf / gmp_snprintf / gmp_asprintf with "%.<n>Ff" abort in an
   --enable-assert build (stale ASSERT in printf/doprntf.c:131), while the default build prints the value.

   Build/run against the UNMODIFIED tree, built the default way (./configure && make):

     gcc -O1 -I/tmp/hunt4-C14 -DHAVE_CONFIG_H -D__GMP_WITHIN_GMP -DWANT_ASSERT=1 \
         -c /tmp/hunt4-C14/printf/doprntf.c -o doprntf_assert.o
     gcc -O1 -I/tmp/hunt4-C14 demo.c doprntf_assert.o /tmp/hunt4-C14/.libs/libmpir.a -o demo && ./demo

   The first command compiles the one library file concerned exactly as "configure --enable-assert" does
   (that option only puts "#define WANT_ASSERT 1" into config.h); linking it in front of libmpir.a replaces
   the archive member.  The same happens with a complete assertion build:

     mkdir b && cd b && <tree>/configure --enable-assert && make && make check
       -> FAIL: t-printf, FAIL: t-locale  (../printf/doprntf.c:132: GNU MP assertion failed ...)
     and this demo.c linked only against b/.libs/libmpir.a fails in the same way.

   Without the first object (plain default library) the demo prints "ok" and exits 0 -- i.e. the result
   of a public function depends on the assertion build option.  */
#include <stdio.h>
#include <string.h>
#include <signal.h>
#include <unistd.h>
#include <sys/wait.h>
#include "mpir.h"

static int try (const char *fmt, double d, const char *want)
{
  pid_t pid;
  int st, fd[2];
  char got[128];
  ssize_t k;

  if (pipe (fd) != 0) return 2;
  fflush (stdout);
  pid = fork ();
  if (pid == 0)
    {
      mpf_t f;
      char buf[128];
      close (fd[0]);
      mpf_init2 (f, 128);
      mpf_set_d (f, d);
      gmp_snprintf (buf, sizeof buf, fmt, f);
      if (write (fd[1], buf, strlen (buf) + 1) < 0) _exit (3);
      _exit (0);
    }
  close (fd[1]);
  memset (got, 0, sizeof got);
  k = read (fd[0], got, sizeof got - 1);
  close (fd[0]);
  waitpid (pid, &st, 0);
  if (WIFSIGNALED (st))
    {
      printf ("WRONG: gmp_snprintf (\"%s\", %g) was killed by signal %d (%s); expected output \"%s\"\n",
              fmt, d, WTERMSIG (st), WTERMSIG (st) == SIGABRT ? "SIGABRT, failed ASSERT" : "?", want);
      return 1;
    }
  if (k <= 0 || strcmp (got, want) != 0)
    {
      printf ("WRONG: gmp_snprintf (\"%s\", %g) gave \"%s\", expected \"%s\"\n", fmt, d, got, want);
      return 1;
    }
  printf ("ok: gmp_snprintf (\"%s\", %g) = \"%s\"\n", fmt, d, got);
  return 0;
}

int main (void)
{
  int bad = 0;
  char want[64];
  /* oracle: libc printf on the same double (all values exactly representable, no ties) */
  snprintf (want, sizeof want, "%.2f", 1.5);      bad |= try ("%.2Ff", 1.5, want);
  snprintf (want, sizeof want, "%.0f", 123.25);   bad |= try ("%.0Ff", 123.25, want);
  snprintf (want, sizeof want, "%.2f", 0.0625);   bad |= try ("%.2Ff", 0.0625, want);
  snprintf (want, sizeof want, "%.1f", -1024.0);  bad |= try ("%.1Ff", -1024.0, want);
  snprintf (want, sizeof want, "%.4f", 0.0);      bad |= try ("%.4Ff", 0.0, want);
  /* conversions that do not go through the stale assertion, for contrast */
  snprintf (want, sizeof want, "%.2e", 123.25);   bad |= try ("%.2Fe", 123.25, want);
  if (bad)
    printf ("FAIL: a fixed-point mpf conversion with an explicit precision aborts when the library is built with assertions\n");
  return bad;
}
