/* Build/run (needs ~17 GB of free RAM; about 30-60 s, mostly page faults):

     gcc -O1 -I/tmp/hunt-C10 /tmp/hunt-C10-out/finding1/demo.c \
         /tmp/hunt-C10/.libs/libmpir.a -o /tmp/hunt-C10-out/finding1/demo \
       && /tmp/hunt-C10-out/finding1/demo

   mpz_setbit / mpz_combit (and mpz_clrbit on a negative) with a bit index "far
   above the operand length" whose limb index + 1 no longer fits the 'int'
   _mp_size/_mp_alloc fields silently produce a WRONG VALUE: setting one bit in
   0 yields a NEGATIVE number with infinitely many 1 bits.  Nothing aborts, no
   error is reported; _mpz_realloc has no overflow check in this tree.

   Oracle: pure two's-complement reasoning.  0 with bit k set is 2^k, i.e.
   positive, exactly one 1 bit, bit k is 1, every bit above k is 0, the lowest
   1 bit is k.  5 with bit k complemented (k > 2) is 2^k + 5 > 0.            */
#include <stdio.h>
#include <stdlib.h>
#include "mpir.h"

int main(void)
{
  int bad = 0;
  /* limb index 2^31-1, so the result needs 2^31 limbs (16 GiB) */
  mp_bitcnt_t k = ((mp_bitcnt_t)1 << 37) - 64;
  mpz_t z;

  mpz_init(z);
  mpz_setbit(z, k);
  printf("z = 0; mpz_setbit(z, %lu)  ->  _mp_size=%d _mp_alloc=%d mpz_sgn=%d\n",
         (unsigned long)k, z->_mp_size, z->_mp_alloc, mpz_sgn(z));
  if (mpz_sgn(z) != 1)
    { printf("  WRONG: 0 with one bit set must be positive, library says sgn=%d\n", mpz_sgn(z)); bad = 1; }
  if (mpz_tstbit(z, k) != 1)
    { printf("  WRONG: mpz_tstbit(z,k)=0 right after mpz_setbit(z,k)\n"); bad = 1; }
  if (mpz_tstbit(z, k + 64) != 0)
    { printf("  WRONG: mpz_tstbit(z,k+64)=%d, must be 0 (value must be exactly 2^k)\n", mpz_tstbit(z, k + 64)); bad = 1; }
  if (mpz_popcount(z) != 1)
    { printf("  WRONG: mpz_popcount(z)=%lu, must be 1\n", (unsigned long)mpz_popcount(z)); bad = 1; }
  if (mpz_scan1(z, 0) != k)
    { printf("  WRONG: mpz_scan1(z,0)=%lu, must be k\n", (unsigned long)mpz_scan1(z, 0)); bad = 1; }
  if (mpz_scan0(z, k) != k + 1)
    { printf("  WRONG: mpz_scan0(z,k)=%lu, must be k+1\n", (unsigned long)mpz_scan0(z, k)); bad = 1; }
  free(z->_mp_d);               /* object is corrupt (alloc<0); release the 16 GiB by hand */

  {
    mpz_t y;
    mpz_init_set_ui(y, 5);
    mpz_combit(y, k);
    printf("y = 5; mpz_combit(y, %lu)  ->  _mp_size=%d _mp_alloc=%d mpz_sgn=%d\n",
           (unsigned long)k, y->_mp_size, y->_mp_alloc, mpz_sgn(y));
    if (mpz_sgn(y) != 1)
      { printf("  WRONG: 5 xor 2^k must be positive, library says sgn=%d\n", mpz_sgn(y)); bad = 1; }
    free(y->_mp_d);
  }

  if (!bad) printf("ok (no violation observed)\n");
  return bad;
}
