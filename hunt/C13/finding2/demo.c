/* mpf_set_str: a small integer written with trailing fractional zeros ("7.000...0") is
   not converted exactly -- the result is 7 - 2^-128 (so its integer part is 6) or
   7 + 3*2^-128, although 7 fits in any precision.

   Build/run:
     gcc -O1 -g demo.c -I/tmp/hunt-C13 /tmp/hunt-C13/.libs/libmpir.a -o demo && ./demo

   Oracle: the string denotes the one-digit integer d, so the only correct result is the
   mpf value d: _mp_exp == 1, most significant limb == d, every lower limb zero.  The
   limbs are inspected directly (no MPIR function is used to judge the result).  */
#include <stdio.h>
#include <stdlib.h>
#include <string.h>
#include "mpir.h"

static int check(int d, int zeros, unsigned long prec)
{
  char str[4096], *p = str;
  *p++ = '0' + d; *p++ = '.'; memset(p, '0', zeros); p[zeros] = 0;
  mpf_t r; mpf_init2(r, prec);
  int rc = mpf_set_str(r, str, 10);
  long n = labs(r->_mp_size), i;
  int ok = rc == 0 && n >= 1 && r->_mp_size > 0 && r->_mp_exp == 1 && r->_mp_d[n - 1] == (mp_limb_t) d;
  for (i = 0; ok && i < n - 1; i++) if (r->_mp_d[i] != 0) ok = 0;
  printf("prec %lu: \"%d.\" + %d zeros -> rc=%d exp=%ld limbs(msb first):", mpf_get_prec(r), d, zeros, rc, (long) r->_mp_exp);
  for (i = n - 1; i >= 0; i--) printf(" %016lx", (unsigned long) r->_mp_d[i]);
  printf("  %s\n", ok ? "ok (== d)" : "WRONG (value is not the integer d)");
  if (!ok && n >= 1 && r->_mp_exp == 1 && r->_mp_d[n - 1] != (mp_limb_t) d)
    printf("      integer part is %lu, mpf_get_ui = %lu, mpf_integer_p = %d\n",
           (unsigned long) r->_mp_d[n - 1], (unsigned long) mpf_get_ui(r), mpf_integer_p(r));
  mpf_clear(r);
  return !ok;
}

int main(void)
{
  int bad = 0;
  bad += check(7, 10, 64);    /* fine */
  bad += check(7, 57, 64);    /* 6.ffff... */
  bad += check(9, 57, 64);    /* 8.ffff...fffc */
  bad += check(3, 58, 64);    /* 3.000...0001 */
  bad += check(7, 154, 256);  /* 6.ffff... with a 256-bit destination */
  if (bad) { printf("FAIL: %d conversions of an exactly representable one-digit integer are inexact\n", bad); return 1; }
  printf("all ok\n");
  return 0;
}
