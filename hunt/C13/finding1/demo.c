/* mpf_get_str: requested digits are wrong by many units of the last requested digit.

   Build/run:
     gcc -O1 -g demo.c -I/tmp/hunt-C13 /tmp/hunt-C13/.libs/libmpir.a -o demo && ./demo

   Oracle: the operand is an exact power of ten, 10^k, built here with a schoolbook
   multiply-by-10 loop on a limb array (no MPIR arithmetic), stored exactly in an mpf
   whose precision is larger than the number.  The only correct n-digit base-10
   rendering of 10^k is mantissa "1" (trailing zeros stripped), exponent k+1.  The
   property allows one unit of the last requested digit, so "100...001" (exp k+1)
   and "99...99" (exp k) are tolerated; anything else is a violation.  */
#include <stdio.h>
#include <stdlib.h>
#include <string.h>
#include "mpir.h"

typedef unsigned long long u64;
static u64 a[4096];

static int check(int k, int nd)
{
  long n = 1, i; int j;
  memset(a, 0, sizeof a); a[0] = 1;
  for (j = 0; j < k; j++) {
    u64 cy = 0;
    for (i = 0; i < n; i++) {
      unsigned __int128 t = (unsigned __int128) a[i] * 10 + cy;
      a[i] = (u64) t; cy = (u64) (t >> 64);
    }
    if (cy) a[n++] = cy;
  }
  mpf_t u;
  mpf_init2(u, (n + 1) * 64);          /* precision exceeds the size of 10^k: stored exactly */
  memcpy(u->_mp_d, a, n * 8);
  u->_mp_size = n; u->_mp_exp = n;      /* integer of n limbs */

  char buf[256], tol1[256], tol2[256];
  mp_exp_t ex = 0;
  mpf_get_str(buf, &ex, 10, nd, u);

  /* tolerated neighbours: 1 unit of the nd-th digit either side */
  memset(tol1, '0', nd); tol1[0] = '1'; tol1[nd - 1] = '1'; tol1[nd] = 0;   /* 10^k + 1 unit */
  memset(tol2, '9', nd); tol2[nd] = 0;                                       /* 10^k - 1 unit (exp k) */

  int ok = (!strcmp(buf, "1") && ex == k + 1) || (!strcmp(buf, tol1) && ex == k + 1)
        || (!strcmp(buf, tol2) && ex == k);
  printf("10^%d, %d digits requested (mpf prec %lu bits): got 0.%s * 10^%ld  %s\n",
         k, nd, (unsigned long) mpf_get_prec(u), buf, (long) ex,
         ok ? "ok" : "WRONG (expected 0.1 * 10^k+1, tolerance one unit of the last requested digit)");
  mpf_clear(u);
  return !ok;
}

/* Second oracle: u = 2^N held in a 128-bit precision mpf as one limb
   "1" with limb exponent E (N = 64*(E-1)).  2^N is computed in decimal here by N
   schoolbook doublings of a base-10^9 array; T = its leading 19 digits (truncated),
   so the true value lies in [T, T+1) units of the 19th digit and a result within one
   unit must satisfy T-1 <= D <= T+2.  */
static unsigned dec[4000];
static int check_pow2(long E)
{
  long N = 64 * (E - 1), n = 1, i, j;
  memset(dec, 0, sizeof dec); dec[0] = 1;
  for (j = 0; j < N; j++) {
    unsigned cy = 0;
    for (i = 0; i < n; i++) { unsigned t = dec[i] * 2 + cy; cy = t >= 1000000000u; dec[i] = cy ? t - 1000000000u : t; }
    if (cy) dec[n++] = 1;
  }
  char all[40000], *p = all;
  p += sprintf(p, "%u", dec[n - 1]);
  for (i = n - 2; i >= 0; i--) p += sprintf(p, "%09u", dec[i]);
  long ndig = p - all;
  char T[20]; memcpy(T, all, 19); T[19] = 0;

  mpf_t u; mpf_init2(u, 128);
  u->_mp_d[0] = 1; u->_mp_size = 1; u->_mp_exp = E;
  char buf[64]; mp_exp_t ex = 0;
  mpf_get_str(buf, &ex, 10, 19, u);
  char D[20]; memset(D, '0', 19); D[19] = 0; memcpy(D, buf, strlen(buf));
  long long d = (long long) (strtoull(D, 0, 10) - strtoull(T, 0, 10));
  int ok = ex == ndig && d >= -1 && d <= 2;
  printf("2^%ld, 19 digits requested (mpf prec %lu bits): got 0.%s * 10^%ld, true 0.%s... * 10^%ld, off by %lld units  %s\n",
         N, (unsigned long) mpf_get_prec(u), buf, (long) ex, T, ndig, d, ok ? "ok" : "WRONG");
  mpf_clear(u);
  return !ok;
}

int main(void)
{
  int bad = 0;
  bad += check_pow2(392);    /* 2^25024: about 20 units off */
  bad += check_pow2(196);    /* 2^12480: about 8 units off */
  bad += check(6878, 77);    /* -> ...0002 : 2 units off  */
  bad += check(59820, 19);   /* -> 1000000000000000019 : 19 units off */
  bad += check(59820, 38);   /* -> ...0022 : 22 units off */
  bad += check(54835, 77);   /* -> ...0007 */
  if (bad) { printf("FAIL: %d of 6 conversions are off by more than one unit of the last requested digit\n", bad); return 1; }
  printf("all ok\n");
  return 0;
}
