/* gmp_sscanf / gmp_fscanf: a literal byte >= 0x80 in the format string never
   matches the same byte in the input.

   build/run:
     gcc -O1 -I/tmp/hunt3-C18 demo.c /tmp/hunt3-C18/.libs/libmpir.a -o demo && ./demo
   exits non-zero on the unmodified tree.  Oracle: C library sscanf/fscanf with
   the same format (%ld instead of %Zd).  */
#include <stdio.h>
#include <string.h>
#include "mpir.h"

int main (void)
{
  int bad = 0;
  mpz_t z;
  mpz_init (z);

  /* each row: input, MPIR format, libc format */
  static const char *t[][3] = {
    { "\xe9" "5",        "\xe9%Zd%n",          "\xe9%ld%n" },          /* Latin-1 e-acute  */
    { "\xc3\xa9=5",      "\xc3\xa9=%Zd%n",     "\xc3\xa9=%ld%n" },     /* UTF-8 e-acute    */
    { "\xe2\x82\xac 17", "\xe2\x82\xac %Zd%n", "\xe2\x82\xac %ld%n" }, /* UTF-8 euro sign  */
    { "5\xff",           "%Zd\xff%n",          "%ld\xff%n" },          /* literal after a field */
    { "a5",              "a%Zd%n",             "a%ld%n" },             /* control: ASCII works */
  };
  for (unsigned i = 0; i < sizeof t / sizeof *t; i++)
    {
      long l = -9; int n1 = -9, n2 = -9;
      mpz_set_si (z, -9);
      int r1 = gmp_sscanf (t[i][0], t[i][1], z, &n1);
      int r2 = sscanf (t[i][0], t[i][2], &l, &n2);
      int ok = (r1 == r2 && n1 == n2 && mpz_get_si (z) == l);
      printf ("%s sscanf row %u: gmp ret=%d value=%ld chars=%d | libc ret=%d value=%ld chars=%d\n",
              ok ? "ok  " : "FAIL", i, r1, mpz_get_si (z), n1, r2, l, n2);
      bad += !ok;
    }

  /* same through a FILE */
  {
    FILE *a = tmpfile (), *b = tmpfile ();
    long l = -9;
    fputs ("\xe9" "5", a); rewind (a);
    fputs ("\xe9" "5", b); rewind (b);
    mpz_set_si (z, -9);
    int r1 = gmp_fscanf (a, "\xe9%Zd", z);
    int r2 = fscanf (b, "\xe9%ld", &l);
    int ok = (r1 == r2 && mpz_get_si (z) == l);
    printf ("%s fscanf: gmp ret=%d value=%ld | libc ret=%d value=%ld\n",
            ok ? "ok  " : "FAIL", r1, mpz_get_si (z), r2, l);
    bad += !ok;
  }
  return bad != 0;
}
