/* gmp_snprintf with a buffer size above INT_MAX loses the output of the
   standard (non-MPIR) parts of the format.

   build/run:
     gcc -O1 -I/tmp/hunt3-C18 demo.c /tmp/hunt3-C18/.libs/libmpir.a -o demo && ./demo
   exits non-zero on the unmodified tree.

   The buffer really is as large as the size passed (an anonymous MAP_NORESERVE
   mapping, only the first page is ever touched).  Oracle: C snprintf with "%s" of
   the known digit string in place of %Zd.  */
#include <stdio.h>
#include <string.h>
#include <limits.h>
#include <sys/mman.h>
#include "mpir.h"

int main (void)
{
  int bad = 0;
  mpz_t z;
  mpz_init_set_si (z, -42);

  size_t big = (size_t) INT_MAX + 2 + 4096;
  char *buf = mmap (NULL, big, PROT_READ | PROT_WRITE,
                    MAP_PRIVATE | MAP_ANONYMOUS | MAP_NORESERVE, -1, 0);
  if (buf == MAP_FAILED) { perror ("mmap"); return 2; }

  size_t sizes[] = { 100, (size_t) INT_MAX, (size_t) INT_MAX + 1, (size_t) INT_MAX + 2, big };
  for (int i = 0; i < 5; i++)
    {
      char want[64];
      int r2 = snprintf (want, sizeof want, "a=%d z=%s b=%s.", 5, "-42", "str");
      memset (buf, '#', 64);
      int r = gmp_snprintf (buf, sizes[i], "a=%d z=%Zd b=%s.", 5, z, "str");
      int ok = (r == r2 && memchr (buf, 0, 64) != NULL && strcmp (buf, want) == 0);
      printf ("%s size=%zu: gmp ret=%d buf=\"%.40s\" | want ret=%d \"%s\"\n",
              ok ? "ok  " : "FAIL", sizes[i], r, buf, r2, want);
      bad += !ok;
    }
  return bad != 0;
}
