/* gmp_sscanf "%<w>Ff": when the field width runs out directly after the
   exponent letter, the field is counted as assigned but nothing is stored.

   build/run:
     gcc -O1 -I/tmp/hunt3-C18 demo.c /tmp/hunt3-C18/.libs/libmpir.a -o demo && ./demo
   exits non-zero on the unmodified tree.

   Oracle: the return value promises "fields successfully parsed and stored", so
   after a return of 1 the variable must hold the value of the characters that were
   consumed (per %n); we recompute that with strtod on exactly those characters and
   also show what C sscanf ("%<w>lf") does.  A return of 0 with the variable
   untouched (MPIR's documented strict reading of "1e") would be accepted too.  */
#include <stdio.h>
#include <stdlib.h>
#include <string.h>
#include "mpir.h"

int main (void)
{
  static const struct { const char *in, *ff, *fl; } t[] = {
    { "1e5",     "%2Ff%n", "%2lf%n" },
    { "12e3",    "%3Ff%n", "%3lf%n" },
    { "1.5e3x",  "%4Ff%n", "%4lf%n" },
    { "5.e1",    "%3Ff%n", "%3lf%n" },
    { "-2.5E+7", "%5Ff%n", "%5lf%n" },
    { "1e5",     "%3Ff%n", "%3lf%n" },   /* control: width covers the exponent */
    { "1e+5",    "%3Ff%n", "%3lf%n" },   /* control: ends after the exponent sign -> MPIR says 0 */
  };
  int bad = 0;
  mpf_t f;
  mpf_init2 (f, 128);
  for (unsigned i = 0; i < sizeof t / sizeof *t; i++)
    {
      double d = -777; int n1 = -1, n2 = -1;
      mpf_set_si (f, -777);                     /* sentinel */
      int r1 = gmp_sscanf (t[i].in, t[i].ff, f, &n1);
      int r2 = sscanf (t[i].in, t[i].fl, &d, &n2);
      double got = mpf_get_d (f);
      int ok;
      if (r1 == 1)
        {
          char tmp[32];
          memcpy (tmp, t[i].in, n1); tmp[n1] = 0;
          ok = (got == strtod (tmp, NULL));      /* value of the consumed characters */
        }
      else
        ok = (r1 == 0 && got == -777);           /* rejected and untouched */
      printf ("%s in=\"%s\" fmt=%s: gmp ret=%d chars=%d value=%g | libc ret=%d chars=%d value=%g\n",
              ok ? "ok  " : "FAIL", t[i].in, t[i].ff, r1, n1, got, r2, n2, d);
      bad += !ok;
    }
  /* consequence: the count says two variables were set, one still has its old contents */
  {
    mpz_t z; mpz_init (z);
    mpf_set_si (f, -777);
    int r = gmp_sscanf ("1e5", "%2Ff%Zd", f, z);
    printf ("gmp_sscanf (\"1e5\", \"%%2Ff%%Zd\") = %d, f = %g (sentinel was -777), z = %ld\n",
            r, mpf_get_d (f), mpz_get_si (z));
    if (r == 2 && mpf_get_d (f) == -777) bad++;
  }
  return bad != 0;
}
