/* gmp_sscanf "%Zx" / "%ZX" / "%Qx" do not accept the "0x"/"0X" prefix that C's
   "%x" accepts, so they cannot read back what gmp_printf "%#Zx" / "%#Qx" printed.

   build/run:
     gcc -O1 -I/tmp/hunt3-C18 demo.c /tmp/hunt3-C18/.libs/libmpir.a -o demo && ./demo
   exits non-zero on the unmodified tree.  Oracle: C sscanf "%lx" on the same text.  */
#include <stdio.h>
#include <string.h>
#include "mpir.h"

int main (void)
{
  int bad = 0;
  mpz_t z; mpq_t q;
  mpz_init (z); mpq_init (q);

  static const char *in[] = { "0x1f", "0X1F", "-0x1f", "+0x1F", "  0x10 ", "0x7fffffffffffffff", "1f" };
  for (unsigned i = 0; i < sizeof in / sizeof *in; i++)
    {
      long l = -9; int n1 = -9, n2 = -9;
      mpz_set_si (z, -9);
      int r1 = gmp_sscanf (in[i], "%Zx%n", z, &n1);
      int r2 = sscanf (in[i], "%lx%n", &l, &n2);
      int ok = (r1 == r2 && n1 == n2 && mpz_fits_slong_p (z) && mpz_get_si (z) == l);
      printf ("%s \"%s\" %%Zx: gmp ret=%d value=%ld chars=%d | libc %%lx ret=%d value=%ld chars=%d\n",
              ok ? "ok  " : "FAIL", in[i], r1, mpz_get_si (z), n1, r2, l, n2);
      bad += !ok;
    }

  /* round trip with the same conversion letter */
  {
    char buf[64]; mpz_t back; mpz_init (back);
    mpz_set_ui (z, 48879);
    gmp_sprintf (buf, "%#Zx", z);
    int r = gmp_sscanf (buf, "%Zx", back);
    int ok = (r == 1 && mpz_cmp (z, back) == 0);
    printf ("%s gmp_sprintf \"%%#Zx\" -> \"%s\" -> gmp_sscanf \"%%Zx\": ret=%d value=%ld (want 48879)\n",
            ok ? "ok  " : "FAIL", buf, r, mpz_get_si (back));
    bad += !ok;

    mpq_set_si (q, -31, 2);
    gmp_sprintf (buf, "%#Qx", q);
    mpq_t qb; mpq_init (qb);
    r = gmp_sscanf (buf, "%Qx", qb);
    ok = (r == 1 && mpq_equal (q, qb));
    printf ("%s gmp_sprintf \"%%#Qx\" -> \"%s\" -> gmp_sscanf \"%%Qx\": ret=%d value=%ld/%ld (want -31/2)\n",
            ok ? "ok  " : "FAIL", buf, r, mpz_get_si (mpq_numref (qb)), mpz_get_si (mpq_denref (qb)));
    bad += !ok;
  }
  return bad != 0;
}
