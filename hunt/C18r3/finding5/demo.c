/* gmp_sscanf / gmp_fscanf: the "%%" directive does not skip leading white space
   in the input, C's does (C99 7.19.6.2p8: white space is skipped before every
   conversion specification except %[, %c and %n).

   build/run:
     gcc -O1 -I/tmp/hunt3-C18 demo.c /tmp/hunt3-C18/.libs/libmpir.a -o demo && ./demo
   exits non-zero on the unmodified tree.  Oracle: C sscanf with %ld for %Zd.  */
#include <stdio.h>
#include <string.h>
#include "mpir.h"

int main (void)
{
  int bad = 0;
  mpz_t a, b;
  mpz_init (a); mpz_init (b);
  static const struct { const char *in, *fz, *fl; } t[] = {
    { "50 % 7",   "%Zd%%%Zd%n",  "%ld%%%ld%n" },    /* "50 % 7": blank before the percent sign */
    { " %5",      "%%%Zd%Zd%n",  "%%%ld%ld%n" },
    { "12\n%34",  "%Zd%%%Zd%n",  "%ld%%%ld%n" },
    { " ",        "%%%Zd%Zd%n",  "%%%ld%ld%n" },    /* only blanks, then end of input: EOF in C */
    { "50%7",     "%Zd%%%Zd%n",  "%ld%%%ld%n" },    /* control */
  };
  for (unsigned i = 0; i < sizeof t / sizeof *t; i++)
    {
      long la = -9, lb = -9; int n1 = -9, n2 = -9;
      mpz_set_si (a, -9); mpz_set_si (b, -9);
      int r1 = gmp_sscanf (t[i].in, t[i].fz, a, b, &n1);
      int r2 = sscanf (t[i].in, t[i].fl, &la, &lb, &n2);
      int ok = (r1 == r2 && n1 == n2 && mpz_get_si (a) == la && mpz_get_si (b) == lb);
      printf ("%s row %u fmt=\"%s\": gmp ret=%d (%ld,%ld) chars=%d | libc ret=%d (%ld,%ld) chars=%d\n",
              ok ? "ok  " : "FAIL", i, t[i].fz, r1, mpz_get_si (a), mpz_get_si (b), n1, r2, la, lb, n2);
      bad += !ok;
    }
  return bad != 0;
}
