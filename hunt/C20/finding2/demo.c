/* finding2: compound assignment with a right-hand side of a "larger" class
 * (mpz_class op= mpq/mpf expression, mpq_class op= mpf expression) does not
 * behave like its expanded form  x = x op rhs:  the right-hand side is
 * converted (truncated) to the type of the target BEFORE the operation.
 *   z *= q  (z=10, q=1/2)  gives 0, expanded form gives 5;
 *   z /= q  (z=10, q=1/2)  divides by zero (SIGFPE), expanded form gives 20.
 *
 * NOTE: this is C++ source (the property is about mpirxx.h).  The file is
 * named demo.c as requested, so tell the compiler the language explicitly:
 *
 *   g++ -O0 -I/tmp/hunt-C20 -x c++ /tmp/hunt-C20-out/finding2/demo.c -x none \
 *       /tmp/hunt-C20/.libs/libmpirxx.a /tmp/hunt-C20/.libs/libmpir.a \
 *       -o /tmp/hunt-C20-out/finding2/demo && /tmp/hunt-C20-out/finding2/demo
 *
 * (library configured with ./configure --enable-cxx).  Exits non-zero on the
 * unmodified tree and prints what is wrong.
 *
 * Oracle: the explicit C call sequence of the expanded form, every
 * sub-expression in its own temporary:
 *     z op= q   ==   z = z op q   ==   mpq_set_z (t1, z); mpq_op (t2, t1, q); mpz_set_q (z, t2);
 * plus the literal expected values (10 * 1/2 = 5, 10 / (1/2) = 20, trunc(1 - 1/2) = 0).
 */
#include <iostream>
#include <csignal>
#include <csetjmp>
#include "mpirxx.h"

static sigjmp_buf jb;
static void on_fpe (int) { siglongjmp (jb, 1); }
static int bad = 0;

/* reference for  z = z op q  with C functions only */
static void ref_zq (mpz_t res, const char *zs, const char *qs, char op)
{
  mpz_t z; mpq_t q, t1, t2;
  mpz_init_set_str (z, zs, 10);
  mpq_init (q); mpq_set_str (q, qs, 10); mpq_canonicalize (q);
  mpq_init (t1); mpq_init (t2);
  mpq_set_z (t1, z);
  switch (op)
    {
    case '+': mpq_add (t2, t1, q); break;
    case '-': mpq_sub (t2, t1, q); break;
    case '*': mpq_mul (t2, t1, q); break;
    case '/': mpq_div (t2, t1, q); break;
    }
  mpz_set_q (res, t2);
  mpz_clear (z); mpq_clear (q); mpq_clear (t1); mpq_clear (t2);
}

static void check_zq (const char *zs, const char *qs, char op, const char *want_literal)
{
  mpz_t ref; mpz_init (ref);
  ref_zq (ref, zs, qs, op);
  mpz_class want (want_literal);
  if (mpz_cmp (ref, want.get_mpz_t ()) != 0)
    { std::cout << "reference disagrees with literal expectation?!\n"; bad += 100; }

  mpz_class z (zs), e (zs);
  mpq_class q (qs); q.canonicalize ();

  /* expanded form through the C++ layer */
  switch (op)
    {
    case '+': e = e + q; break;
    case '-': e = e - q; break;
    case '*': e = e * q; break;
    case '/': e = e / q; break;
    }

  if (sigsetjmp (jb, 1) == 0)
    {
      switch (op)
        {
        case '+': z += q; break;
        case '-': z -= q; break;
        case '*': z *= q; break;
        case '/': z /= q; break;
        }
      if (z != want)
        {
          bad++;
          std::cout << "WRONG: z=" << zs << "; z " << op << "= mpq_class(" << qs << ")  gives " << z
                    << ";  expanded form z = z " << op << " q gives " << e
                    << ";  C sequence gives " << want << "\n";
        }
      else
        std::cout << "ok:    z=" << zs << "; z " << op << "= mpq_class(" << qs << ") = " << z << "\n";
    }
  else
    {
      bad++;
      std::cout << "WRONG: z=" << zs << "; z " << op << "= mpq_class(" << qs
                << ")  raised SIGFPE (division by zero);  expanded form z = z " << op
                << " q gives " << e << ";  C sequence gives " << want << "\n";
    }
  if (e != want)
    { bad++; std::cout << "WRONG (expanded form): " << e << " want " << want << "\n"; }
  mpz_clear (ref);
}

int main ()
{
  signal (SIGFPE, on_fpe);

  check_zq ("10", "1/2", '*', "5");
  check_zq ("1", "-1/2", '+', "0");
  check_zq ("1", "1/2", '-', "0");
  check_zq ("7", "3/2", '*', "10");
  check_zq ("10", "1/2", '/', "20");      /* crashes: divides by trunc(1/2) == 0 */

  /* same pattern with an mpf right-hand side:  z += f  versus  z = z + f */
  {
    mpz_class z (1), e (1); mpf_class f (-0.5);
    e = e + f;                         /* mpf_set_z, mpf_add, mpz_set_f  ->  trunc(0.5) = 0 */
    z += f;
    mpf_t t1, t2; mpz_t r; mpf_init (t1); mpf_init (t2); mpz_init (r);
    mpf_set_si (t1, 1); mpf_add (t2, t1, f.get_mpf_t ()); mpz_set_f (r, t2);
    if (mpz_cmp (z.get_mpz_t (), r) != 0)
      { bad++; std::cout << "WRONG: z=1; z += mpf_class(-0.5)  gives " << z << ";  expanded form gives " << e << ";  C sequence gives " << mpz_class (r) << "\n"; }
  }
  /* and  q += f  versus  q = q + f  (q exact rational, f float) */
  {
    mpq_class q (1, 3), e (1, 3); mpf_class f (0.5);
    e = e + f;                         /* mpf_set_q, mpf_add, mpq_set_f */
    q += f;
    mpf_t t1, t2; mpq_t r, third; mpf_init (t1); mpf_init (t2); mpq_init (r); mpq_init (third);
    mpq_set_ui (third, 1, 3); mpf_set_q (t1, third); mpf_add (t2, t1, f.get_mpf_t ()); mpq_set_f (r, t2);
    if (!mpq_equal (q.get_mpq_t (), r))
      { bad++; std::cout << "WRONG: q=1/3; q += mpf_class(0.5)  gives " << q << ";  expanded form gives " << e << ";  C sequence gives " << mpq_class (r) << "\n"; }
  }

  std::cout << (bad ? "FAIL" : "PASS") << ": " << bad << " problem(s)\n";
  return bad != 0;
}
