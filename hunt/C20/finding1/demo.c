/* finding1: LONG_MIN / mpz_class(-1) and LONG_MIN % mpz_class(-1) die with SIGFPE
 *
 * NOTE: this is C++ source (the property is about mpirxx.h).  The file is
 * named demo.c as requested, so tell the compiler the language explicitly:
 *
 *   g++ -O0 -I/tmp/hunt-C20 -x c++ /tmp/hunt-C20-out/finding1/demo.c -x none \
 *       /tmp/hunt-C20/.libs/libmpirxx.a /tmp/hunt-C20/.libs/libmpir.a \
 *       -o /tmp/hunt-C20-out/finding1/demo && /tmp/hunt-C20-out/finding1/demo
 *
 * (library configured with ./configure --enable-cxx; x86-64 Linux, where
 * mpir_si is a 64-bit long).  Exits non-zero on the unmodified tree and prints
 * what is wrong.
 *
 * Oracle: the explicit C call sequence the expression stands for,
 *     mpz_set_si (t, l);  mpz_tdiv_q (z, t, w);      resp.  mpz_tdiv_r (z, t, w);
 * cross-checked against the literal mathematical values
 *     -2^63 / -1 = 9223372036854775808,     -2^63 % -1 = 0.
 */
#include <iostream>
#include <climits>
#include <csignal>
#include <csetjmp>
#include <cstring>
#include "mpirxx.h"

static sigjmp_buf jb;
static void on_fpe (int) { siglongjmp (jb, 1); }

int main ()
{
  int bad = 0;
  signal (SIGFPE, on_fpe);

  volatile long vl = LONG_MIN;      /* run-time value */
  long l = vl;
  mpz_class w (-1), z;

  /* reference: every operand in its own temporary, plain C functions */
  mpz_t t, rq, rr;
  mpz_init (t); mpz_init (rq); mpz_init (rr);
  mpz_set_si (t, l);
  mpz_tdiv_q (rq, t, w.get_mpz_t ());
  mpz_tdiv_r (rr, t, w.get_mpz_t ());
  char *sq = mpz_get_str (0, 10, rq), *sr = mpz_get_str (0, 10, rr);
  std::cout << "C reference:  LONG_MIN / -1 = " << sq << "   LONG_MIN % -1 = " << sr << "\n";
  if (strcmp (sq, "9223372036854775808") != 0 || strcmp (sr, "0") != 0)
    { std::cout << "reference itself is off?!\n"; return 99; }

  /* 1. quotient */
  if (sigsetjmp (jb, 1) == 0)
    {
      z = l / w;                                   /* mpir_si / mpz_class */
      if (mpz_cmp (z.get_mpz_t (), rq) != 0)
        { bad++; std::cout << "WRONG: l / w = " << z << ", want " << sq << "\n"; }
      else
        std::cout << "ok:    l / w = " << z << "\n";
    }
  else
    { bad++; std::cout << "WRONG: z = LONG_MIN / mpz_class(-1) raised SIGFPE (want " << sq << ")\n"; }

  /* 2. remainder */
  if (sigsetjmp (jb, 1) == 0)
    {
      z = l % w;                                   /* mpir_si % mpz_class */
      if (mpz_cmp (z.get_mpz_t (), rr) != 0)
        { bad++; std::cout << "WRONG: l % w = " << z << ", want " << sr << "\n"; }
      else
        std::cout << "ok:    l % w = " << z << "\n";
    }
  else
    { bad++; std::cout << "WRONG: z = LONG_MIN % mpz_class(-1) raised SIGFPE (want " << sr << ")\n"; }

  /* 3. the same through a sub-expression on the right (built-in op expression) */
  if (sigsetjmp (jb, 1) == 0)
    {
      mpz_class a (1), b (2);
      z = l / (a - b);
      if (mpz_cmp (z.get_mpz_t (), rq) != 0)
        { bad++; std::cout << "WRONG: l / (a-b) = " << z << ", want " << sq << "\n"; }
      else
        std::cout << "ok:    l / (a-b) = " << z << "\n";
    }
  else
    { bad++; std::cout << "WRONG: z = LONG_MIN / (a - b) with a-b == -1 raised SIGFPE (want " << sq << ")\n"; }

  /* the neighbours work, showing that only this corner is affected */
  z = (l + 1) / w;
  if (z != mpz_class ("9223372036854775807")) { bad++; std::cout << "WRONG: (LONG_MIN+1) / -1 = " << z << "\n"; }
  z = l / mpz_class (1);
  if (z != mpz_class ("-9223372036854775808")) { bad++; std::cout << "WRONG: LONG_MIN / 1 = " << z << "\n"; }
  z = l / mpz_class ("9223372036854775808");      /* the case the source comment does handle */
  if (z != -1) { bad++; std::cout << "WRONG: LONG_MIN / 2^63 = " << z << "\n"; }

  std::cout << (bad ? "FAIL" : "PASS") << ": " << bad << " problem(s)\n";
  return bad != 0;
}
