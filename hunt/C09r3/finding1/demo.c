/* mpf_sqrt: exponent of the result is wrong (sign flipped) when the operand's
   exponent is the largest mp_exp_t value.

   build/run:
     gcc -O2 -I/tmp/hunt3-C09 demo.c /tmp/hunt3-C09/.libs/libmpir.a -o demo && ./demo

   The operand is built with documented calls only (mpf_set_ui, mpf_mul_2exp).
   Oracle: sqrt(4 * B^(2m)) = 2 * B^m exactly (B = 2^64), so the expected root
   is built independently with mpf_set_ui + mpf_mul_2exp and compared with
   mpf_cmp; in addition the root of a number > 1 must be > 1.  */
#include <stdio.h>
#include <limits.h>
#include "mpir.h"

int main (void)
{
  mpf_t u, r, want;
  int i, bad = 0;

  mpf_init2 (u, 128);
  mpf_init2 (r, 128);
  mpf_init2 (want, 128);

  /* u = 4 * B^(LONG_MAX-1): one limb, value 4, exponent field LONG_MAX.
     1 + 32*(2^58-1) + 30 = 2^63 - 1 */
  mpf_set_ui (u, 4);
  for (i = 0; i < 32; i++)
    mpf_mul_2exp (u, u, 64UL * ((1UL << 58) - 1));
  mpf_mul_2exp (u, u, 64UL * 30);

  /* want = 2 * B^((LONG_MAX-1)/2) = 2 * B^(2^62-1): exponent field 2^62.
     1 + 16*(2^58-1) + 15 = 2^62 */
  mpf_set_ui (want, 2);
  for (i = 0; i < 16; i++)
    mpf_mul_2exp (want, want, 64UL * ((1UL << 58) - 1));
  mpf_mul_2exp (want, want, 64UL * 15);

  mpf_sqrt (r, u);

  printf ("operand : 1 limb (4), exponent field %ld (LONG_MAX = %ld)\n",
          (long) u->_mp_exp, LONG_MAX);
  printf ("expected: high limb 2, exponent field %ld\n", (long) want->_mp_exp);
  printf ("got     : high limb %lu, exponent field %ld\n",
          (unsigned long) r->_mp_d[r->_mp_size - 1], (long) r->_mp_exp);

  if (mpf_cmp (r, want) != 0)
    {
      printf ("WRONG: mpf_sqrt (4*B^(2^63-2)) != 2*B^(2^62-1)\n");
      bad = 1;
    }
  if (mpf_cmp_ui (u, 1) > 0 && mpf_cmp_ui (r, 1) <= 0)
    {
      printf ("WRONG: operand > 1 but its square root is <= 1\n");
      bad = 1;
    }

  /* control: the neighbouring even exponent is handled correctly */
  mpf_div_2exp (u, u, 64);          /* exponent LONG_MAX-1, value 4*B^(2^63-3) */
  mpf_sqrt (r, u);                  /* = 2^33 * B^(2^62-2), still > 1 */
  if (mpf_cmp_ui (r, 1) <= 0)
    {
      printf ("control failed too (unexpected)\n");
      bad = 1;
    }
  else
    printf ("control (exponent LONG_MAX-1): root > 1 as it must be, exponent field %ld\n",
            (long) r->_mp_exp);

  if (!bad)
    printf ("ok\n");
  return bad;
}
