/* mpf_inp_str (and mpf_set_str underneath) accept strings whose exponent part
 * is not a number: junk after the exponent digits is silently dropped, and with
 * a zero mantissa the exponent is not looked at at all.
 *
 * build: gcc -O1 -g -I/tmp/hunt3-C17 demo.c /tmp/hunt3-C17/.libs/libmpir.a -o demo
 * run:   ./demo          (exit status 1 on the unmodified tree)
 *
 * Manual: mpf_inp_str "Return the number of bytes read, or if an error
 * occurred, return 0"; the string "is of the form M@N or ... MeN"; mpf_set_str
 * "returns 0 if the entire string is a valid number in base base.  Otherwise
 * it returns -1."
 *
 * Oracle: a 30-line recogniser of the documented grammar
 *      [-] digits [ . digits ] [ (@|e|E) [+-] digits ]      (e/E only if base <= 10)
 * with at least one mantissa digit, exponent digits in the base (decimal for a
 * negative base); for base 10 libc strtod must also consume the whole token.
 */
#include <stdio.h>
#include <stdlib.h>
#include <string.h>
#include "mpir.h"

static int dv (int c, int b)
{
  int v = c >= '0' && c <= '9' ? c - '0' : c >= 'a' && c <= 'z' ? c - 'a' + 10
        : c >= 'A' && c <= 'Z' ? c - 'A' + 10 : 99;
  return v < b ? v : -1;
}

static int valid (const char *t, int base)
{
  int b = base < 0 ? -base : base, eb = base < 0 ? 10 : base, nd = 0, ne = 0;
  if (*t == '-') t++;
  while (dv (*t, b) >= 0) t++, nd++;
  if (*t == '.') { t++; while (dv (*t, b) >= 0) t++, nd++; }
  if (nd == 0) return 0;
  if (*t == '@' || (b <= 10 && (*t == 'e' || *t == 'E')))
    {
      t++;
      if (*t == '-' || *t == '+') t++;
      while (dv (*t, eb) >= 0) t++, ne++;
      if (ne == 0) return 0;
    }
  return *t == 0;
}

int main (void)
{
  static const struct { const char *s; int base; } c[] = {
    { "1e5", 10 }, { "1.5e-3", 10 }, { "1@a", 16 }, { "0e0", 10 },   /* valid controls */
    { "1e5x", 10 }, { "1e5.5", 10 }, { "1e5-3", 10 }, { "1e5,000", 10 },
    { "1e19", 8 },          /* 9 is not an octal digit: read as 1e1 = 8 */
    { "1@1g", 16 }, { "1@12", -2 },
    { "0e", 10 }, { "0.e", 10 }, { "0e+", 10 }, { "0@-", 16 }, { "0.0e-x", 10 },
  };
  size_t i;
  int bad = 0;
  mpf_t f;
  mpf_init2 (f, 128);
  for (i = 0; i < sizeof c / sizeof *c; i++)
    {
      FILE  *fp = fmemopen ((void *) c[i].s, strlen (c[i].s), "r");
      int    ok = valid (c[i].s, c[i].base), rs;
      size_t ret;
      if (c[i].base == 10)
        { char *e; strtod (c[i].s, &e); if ((*e == 0) != ok) { printf ("oracle disagreement on %s\n", c[i].s); return 2; } }
      mpf_set_d (f, -77.0);
      ret = mpf_inp_str (f, fp, c[i].base);
      fclose (fp);
      rs = mpf_set_str (f, c[i].s, c[i].base);
      if ((ret != 0) != ok || (ok && ret != strlen (c[i].s)) || (rs == 0) != ok)
        {
          printf ("\"%s\" base %d: %s number, but mpf_inp_str returned %lu (value read: %g), mpf_set_str returned %d\n",
                  c[i].s, c[i].base, ok ? "a valid" : "NOT a valid", (unsigned long) ret, mpf_get_d (f), rs);
          bad = 1;
        }
    }
  mpf_clear (f);
  if (bad) printf ("FAIL: malformed exponents are accepted\n");
  return bad;
}
