/* C19 finding 2: mpz_urandomm, mpn_urandomm (and mpn_randomb) reject-and-retry
   without any iteration limit, so on a linear congruential state whose period
   divides the number of recurrence steps one attempt consumes, every attempt
   draws the same value and the call never returns.  gmp_urandomm_ui has a limit
   (MAX_URANDOMM_ITER = 80, randmui.c) for exactly this situation and returns a
   value in range from the same state and modulus.

   build: gcc -O1 -g -I/tmp/hunt-C19 demo.c /tmp/hunt-C19/.libs/libmpir.a -o demo
   run:   ./demo      (exit status 1 and "HANG" lines on the unmodified tree)

   Generator: X = 5X + 1 mod 2^4 (a = 1 mod 4, c odd: full period 16 by the
   Hull-Dobell theorem, i.e. as good as a 4-bit LCG can be).  The library uses
   the high 2 bits of each X, so a 32-bit request consumes exactly 16 steps =
   one full period, and the state is back where it started after each attempt.
   Modulus n = 2^31 + 1 needs 32 bits.

   Oracle: own simulation of the 4-bit recurrence predicts the (constant) 32-bit
   candidate; a watchdog (alarm(3) in a child process) detects the non-return. */
#include <stdio.h>
#include <stdlib.h>
#include <signal.h>
#include <unistd.h>
#include <sys/wait.h>
#include "mpir.h"

static void mkstate (gmp_randstate_t st, unsigned long seed)
{
  mpz_t a;
  mpz_init_set_ui (a, 5);
  gmp_randinit_lc_2exp (st, a, 1, 4);
  gmp_randseed_ui (st, seed);
  mpz_clear (a);
}

/* own model: 16 steps, high 2 bits of each 4-bit X, low chunk first */
static unsigned long model32 (unsigned x)
{
  unsigned long v = 0;
  int i;
  for (i = 0; i < 16; i++)
    {
      x = (5 * x + 1) & 15;
      v |= (unsigned long) (x >> 2) << (2 * i);
    }
  return v;
}

static int run (int what, unsigned long seed)
{
  pid_t pid = fork ();
  if (pid == 0)
    {
      gmp_randstate_t st;
      alarm (3);
      mkstate (st, seed);
      if (what == 0)
        {
          mpz_t n, z;
          mpz_init_set_ui (n, 1); mpz_mul_2exp (n, n, 31); mpz_add_ui (n, n, 1);
          mpz_init (z);
          mpz_urandomm (z, st, n);
          _exit (mpz_cmp (z, n) < 0 ? 0 : 3);
        }
      else if (what == 1)
        {
          mp_limb_t m[1] = { ((mp_limb_t) 1 << 31) + 1 }, r[1];
          mpn_urandomm (r, st, m, 1);
          _exit (r[0] < m[0] ? 0 : 3);
        }
      else
        {
          unsigned long r = gmp_urandomm_ui (st, (1UL << 31) + 1);
          _exit (r < (1UL << 31) + 1 ? 0 : 3);
        }
    }
  else
    {
      int status;
      waitpid (pid, &status, 0);
      if (WIFSIGNALED (status) && WTERMSIG (status) == SIGALRM) return 1;
      if (WIFEXITED (status)) return WEXITSTATUS (status) == 0 ? 0 : 2;
      return 2;
    }
}

int main (void)
{
  unsigned long seed;
  int bad = 0;
  const unsigned long n = (1UL << 31) + 1;

  for (seed = 0; seed < 16; seed++)
    {
      unsigned long cand = model32 ((unsigned) seed);
      gmp_randstate_t st;
      unsigned long got;
      int r0, r1, r2;

      /* check the model against the library for one plain draw */
      mkstate (st, seed);
      got = gmp_urandomb_ui (st, 32);
      gmp_randclear (st);
      if (got != cand)
        { printf ("model mismatch seed %lu: %lx vs %lx\n", seed, got, cand); return 2; }
      if (cand < n)
        continue;                 /* first attempt is accepted, nothing to see */

      r0 = run (0, seed); r1 = run (1, seed); r2 = run (2, seed);
      if (r0 == 1)
        { bad++; printf ("HANG: seed %lu: mpz_urandomm (z, st, 2^31+1) never returns: every attempt draws 0x%lx >= n\n", seed, cand); }
      if (r1 == 1)
        { bad++; printf ("HANG: seed %lu: mpn_urandomm (r, st, {2^31+1}, 1) never returns\n", seed); }
      if (r0 == 2 || r1 == 2)
        { bad++; printf ("seed %lu: out of range result (%d %d)\n", seed, r0, r1); }
      printf ("      seed %lu: gmp_urandomm_ui (st, 2^31+1) on the same state: %s\n", seed,
              r2 == 0 ? "returns a value in range" : r2 == 1 ? "HANGS too" : "out of range");
      if (r2 != 0) bad++;
    }
  if (!bad) printf ("ok\n");
  return bad != 0;
}
