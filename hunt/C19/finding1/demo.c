/* C19 finding 1: a linear congruential state with m2exp == 1 is accepted by
   gmp_randinit_lc_2exp, but every later draw from it -- even a draw of 0 bits --
   never returns.

   build: gcc -O1 -g -I/tmp/hunt-C19 demo.c /tmp/hunt-C19/.libs/libmpir.a -o demo
   run:   ./demo          (exit status 1 and a "HANG" line per case on the unmodified tree)

   Oracle: none needed beyond a watchdog.  Each call runs in a child process
   with alarm(3); a child killed by SIGALRM never returned.  m2exp == 2 (the
   next value) is run the same way as a control and returns at once.  */
#include <stdio.h>
#include <stdlib.h>
#include <signal.h>
#include <unistd.h>
#include <sys/wait.h>
#include "mpir.h"

static int run (int m2exp, int what)
{
  pid_t pid = fork ();
  if (pid == 0)
    {
      gmp_randstate_t st;
      mpz_t a, z, n;
      alarm (3);
      mpz_init_set_ui (a, 5);
      mpz_init (z);
      mpz_init_set_ui (n, 1);
      gmp_randinit_lc_2exp (st, a, 1, m2exp);   /* X = 5X+1 mod 2^m2exp: full period */
      gmp_randseed_ui (st, 0);
      switch (what)
        {
        case 0: (void) gmp_urandomb_ui (st, 1); break;   /* one bit */
        case 1: (void) gmp_urandomb_ui (st, 0); break;   /* zero bits */
        case 2: mpz_urandomb (z, st, 64); break;
        case 3: (void) gmp_urandomm_ui (st, 1); break;   /* range [0,0], asks for 0 bits */
        case 4: mpz_urandomm (z, st, a); break;
        }
      _exit (0);
    }
  else
    {
      int status;
      waitpid (pid, &status, 0);
      if (WIFSIGNALED (status) && WTERMSIG (status) == SIGALRM)
        return 1;                     /* hang */
      if (WIFEXITED (status) && WEXITSTATUS (status) == 0)
        return 0;
      return 2;                       /* some other failure */
    }
}

int main (void)
{
  static const char *name[] = {
    "gmp_urandomb_ui (st, 1)", "gmp_urandomb_ui (st, 0)", "mpz_urandomb (z, st, 64)",
    "gmp_urandomm_ui (st, 1)", "mpz_urandomm (z, st, 5)" };
  int what, bad = 0;

  for (what = 0; what < 5; what++)
    {
      int c = run (2, what);          /* control */
      int r = run (1, what);
      if (c != 0)
        printf ("control m2exp=2: %s did not return normally (%d)\n", name[what], c);
      if (r == 1)
        {
          printf ("HANG: gmp_randinit_lc_2exp (st, 5, 1, m2exp=1); %s  never returns "
                  "(killed by the 3 s watchdog); with m2exp=2 it returns at once\n", name[what]);
          bad++;
        }
      else if (r != 0)
        {
          printf ("m2exp=1: %s failed in another way (%d)\n", name[what], r);
          bad++;
        }
    }
  if (bad == 0)
    printf ("ok: all draws from an m2exp=1 generator returned\n");
  return bad != 0;
}
