/* finding2: base 0: a bare prefix "0x" / "0X" / "0b" / "0B" with NO digits after it is accepted
   as the number 0 by mpz_set_str, mpz_init_set_str, mpq_set_str and mpz_inp_str/mpq_inp_str.

   Build/run:
     gcc -O2 -I/tmp/hunt-C06 demo.c -o demo /tmp/hunt-C06/.libs/libmpir.a && ./demo
   Exits non-zero and prints every string that should have been rejected.

   Oracle: the C library.  strtol(s,&end,0) does not consume the whole string "0x"
   (it parses "0" and stops at 'x'): "0x" is not a number in C syntax, which is the syntax the
   manual refers to for base 0.  */
#include <stdio.h>
#include <stdlib.h>
#include <string.h>
#include "mpir.h"

int main (void)
{
  int bad = 0;
  const char *S[] = { "0x", "0X", "0b", "0B", "-0x", " 0x", "0x ", "-0b \t" };
  mpz_t x; mpz_init (x);
  for (unsigned i = 0; i < sizeof S / sizeof S[0]; i++)
    {
      char *end; long v = strtol (S[i], &end, 0);
      while (*end == ' ' || *end == '\t') end++;
      int c_whole = (*end == 0);            /* does libc take the entire string as a number? */
      mpz_set_si (x, -4242);
      int rc = mpz_set_str (x, S[i], 0);
      printf ("mpz_set_str (x, \"%s\", 0) = %d (x = %ld)   libc strtol: value %ld, entire string %s\n",
              S[i], rc, mpz_get_si (x), v, c_whole ? "consumed" : "NOT consumed -> not a number");
      if (rc == 0 && !c_whole) bad++;
    }
  { mpz_t y; int rc = mpz_init_set_str (y, "0x", 0); printf ("mpz_init_set_str (y, \"0x\", 0) = %d\n", rc); if (rc == 0) bad++; mpz_clear (y); }
  { mpq_t q; mpq_init (q); int rc = mpq_set_str (q, "3/0x", 0);
    printf ("mpq_set_str (q, \"3/0x\", 0) = %d  (q = %ld/%ld)\n", rc, mpz_get_si (mpq_numref (q)), mpz_get_si (mpq_denref (q))); if (rc == 0) bad++;
    rc = mpq_set_str (q, "0x/3", 0); printf ("mpq_set_str (q, \"0x/3\", 0) = %d\n", rc); if (rc == 0) bad++; mpq_clear (q); }
  /* stream input: "0xg" - strtol takes the 1-character number "0" and stops AT the 'x';
     mpz_inp_str reports a 2-byte number "0x" (value 0), having eaten the 'x'.  */
  { char *e; const char *src = "0xg"; strtol (src, &e, 0); int n = (int) (e - src);
    FILE *f = tmpfile (); fputs ("0xg", f); rewind (f);
    mpz_set_si (x, -4242); size_t r = mpz_inp_str (x, f, 0); int next = getc (f);
    printf ("mpz_inp_str on \"0xg\", base 0: returned %zu, value %ld, next char '%c'   libc strtol: number is %d byte(s) long\n",
            r, mpz_get_si (x), next, n);
    if (r != 0) bad++;
    fclose (f); }
  { FILE *f = tmpfile (); fputs ("0b", f); rewind (f); mpz_set_si (x, -4242); size_t r = mpz_inp_str (x, f, 0);
    printf ("mpz_inp_str on \"0b\"<EOF>, base 0: returned %zu, value %ld\n", r, mpz_get_si (x)); if (r != 0) bad++; fclose (f); }
  printf ("%d non-numbers accepted\n", bad);
  return bad != 0;
}
