/* finding1: mpz_sizeinbase returns one LESS than the true digit count
   (and mpz_get_str overruns both its own allocation and the documented buffer size).

   Build/run:
     gcc -O2 -I/tmp/hunt-C06 demo.c -o demo /tmp/hunt-C06/.libs/libmpir.a && ./demo
   (about 5 seconds, ~100 MB).  Exits non-zero and prints what is wrong.

   Oracle: x = b^k (computed with mpz_ui_pow_ui, which shares no code with the
   radix conversion) is by definition the smallest integer with k+1 digits in
   base b, i.e. "1" followed by k zeros.  */
#include <stdio.h>
#include <stdlib.h>
#include <string.h>
#include "mpir.h"

#define GUARD 16
static int overrun = 0;
static void *A (size_t n) { unsigned char *p = malloc (n + GUARD); memset (p + n, 0xA5, GUARD); return p; }
static void chk (void *p, size_t n, const char *who)
{ for (int i = 0; i < GUARD; i++) if (((unsigned char *) p)[n + i] != 0xA5)
    { if (n > 1000000) { printf ("  %s: byte %d past the end of a %zu-byte block was overwritten with 0x%02x\n", who, i, n, ((unsigned char *) p)[n + i]); overrun++; } break; } }
static void *R (void *p, size_t o, size_t n) { chk (p, o, "realloc"); unsigned char *q = realloc (p, n + GUARD); memset (q + n, 0xA5, GUARD); return q; }
static void F (void *p, size_t n) { chk (p, n, "free"); free (p); }

static int one (int b, unsigned long k, int full)
{
  int bad = 0;
  mpz_t x; mpz_init (x);
  mpz_ui_pow_ui (x, b, k);
  size_t sib = mpz_sizeinbase (x, b);
  printf ("x = %d^%lu  (%zu bits): true number of base-%d digits = %lu, mpz_sizeinbase = %zu\n",
          b, k, mpz_sizeinbase (x, 2), b, k + 1, sib);
  if (sib != k + 1 && sib != k + 2) { printf ("  WRONG: result is neither exact nor 1 too big (it is 1 too SMALL)\n"); bad = 1; }
  if (full)
    {
      /* documented buffer size for mpz_get_str: mpz_sizeinbase(op,base)+2 */
      mpz_neg (x, x);
      size_t n = mpz_sizeinbase (x, b) + 2;
      char *buf = malloc (n + GUARD); memset (buf, 0x5A, n + GUARD);
      mpz_get_str (buf, b, x);
      size_t used = strlen (buf) + 1;
      printf ("  mpz_get_str(buf,%d,-x): wrote %zu bytes into the documented %zu-byte buffer\n", b, used, n);
      if (used > n) { printf ("  WRONG: buffer of the documented size overrun (guard byte now 0x%02x)\n", (unsigned char) buf[n]); bad = 1; }
      /* the digits themselves are right: '-', '1', k zeros */
      int ok = buf[0] == '-' && buf[1] == '1' && used == k + 3;
      for (size_t i = 2; ok && i < k + 2; i++) ok = buf[i] == '0';
      printf ("  digits produced are %s\n", ok ? "correct ('-1' followed by k zeros)" : "WRONG");
      free (buf);
      /* str == NULL: library allocates sizeinbase+1+sign bytes and writes one more */
      overrun = 0;
      char *r = mpz_get_str (NULL, b, x);
      F (r, strlen (r) + 1);
      if (overrun) { printf ("  WRONG: mpz_get_str(NULL,...) wrote past the block it allocated itself\n"); bad = 1; }
    }
  mpz_clear (x);
  return bad;
}

int main (void)
{
  int bad = 0;
  mp_set_memory_functions (A, R, F);
  bad |= one (58, 3700209UL, 1);      /* smallest case found: 21675754 bits = 2.6 MiB */
  bad |= one (19, 22645744UL, 0);
  bad |= one (10, 59632978UL, 0);     /* 10^59632978, 198096465 bits = 23.6 MiB */
  if (bad) puts ("FAIL"); else puts ("ok");
  return bad;
}
