/* search for t (bit count) where (size_t)(t*cpbe)+1 < true digit count of b^k */
#include <stdio.h>
#include <stdlib.h>
#include <quadmath.h>
#include "mpir.h"
#include "gmp-impl.h"
typedef unsigned __int128 u128;
int main(int argc,char**argv){
  int b0=atoi(argv[1]), b1=atoi(argv[2]); unsigned long T=strtoul(argv[3],0,0);
  for(int b=b0;b<=b1;b++){
    if((b&(b-1))==0) continue;
    __float128 c = logq(2)/logq(b);
    /* fixed point 2^-128 */
    __float128 s = ldexpq(c,64);
    unsigned long hi=(unsigned long)s; __float128 r = s-(__float128)hi; unsigned long lo=(unsigned long)ldexpq(r,64);
    u128 C=((u128)hi<<64)|lo;
    double cp = mp_bases[b].chars_per_bit_exactly;
    double cd=(double)c;
    printf("base %d c'=%.20g c=%.20g diff=%.3g\n",b,cp,(double)c,(double)((__float128)cp-c)); fflush(stdout);
    u128 acc=0; unsigned long ip=0; int found=0;
    for(unsigned long t=1;t<=T;t++){
      u128 n=acc+C; if(n<acc) ip++; acc=n;
      unsigned long fh=(unsigned long)(acc>>64);
      /* frac = fh/2^64 ; threshold t*5e-16 */
      if((double)fh < (double)t*5e-16*18446744073709551616.0){
        size_t res=(size_t)((double)t*cp)+1;
        size_t tru=ip+1;
        if(res<tru){ printf("HIT base %d t=%lu k=%lu lib=%zu true=%zu frac=%.3g\n",b,t,ip,res,tru,(double)fh/18446744073709551616.0); fflush(stdout); if(++found>=3) break;}
      }
    }
  }
}
