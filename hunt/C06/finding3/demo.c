/* finding3: mpz_set_str / mpq_set_str reject strings that become valid numbers once white space
   is "simply ignored" as the manual promises: white space directly after the minus sign, and
   (base 0) between the leading "0" and the 'x'/'b' of the prefix.

   Build/run:
     gcc -O2 -I/tmp/hunt-C06 demo.c -o demo /tmp/hunt-C06/.libs/libmpir.a && ./demo
   Exits non-zero and lists the rejected strings.

   Oracle: strip all isspace() characters with a 3-line loop, parse the rest with libc strtol.  */
#include <stdio.h>
#include <stdlib.h>
#include <string.h>
#include <ctype.h>
#include "mpir.h"

int main (void)
{
  int bad = 0;
  struct { const char *s; int base; } T[] = {
    { "- 1", 10 }, { "-\t12", 10 }, { " - 7", 10 }, { "-\n0x10", 0 }, { "- ff", 16 },
    { "0 x10", 0 },            /* prefix split by a space */
    { "1 2 3", 10 }, { " -1 2", 10 }, { "0x 1 0", 0 },   /* controls: these ARE accepted */
  };
  mpz_t x; mpz_init (x);
  for (unsigned i = 0; i < sizeof T / sizeof T[0]; i++)
    {
      char tmp[64]; size_t j = 0;
      for (const char *p = T[i].s; *p; p++) if (!isspace ((unsigned char) *p)) tmp[j++] = *p;
      tmp[j] = 0;
      char *end; long want = strtol (tmp, &end, T[i].base);
      int valid = (j > 0 && *end == 0);
      mpz_set_si (x, -4242);
      int rc = mpz_set_str (x, T[i].s, T[i].base);
      int ok = valid ? (rc == 0 && mpz_get_si (x) == want) : (rc == -1);
      printf ("%-4s mpz_set_str (\"%s\", %d) = %d; with white space ignored the string is \"%s\" = %ld\n",
              ok ? "ok" : "BAD", T[i].s, T[i].base, rc, tmp, want);
      if (!ok) bad++;
    }
  { mpq_t q; mpq_init (q); int rc = mpq_set_str (q, "1/- 2", 10);
    printf ("%-4s mpq_set_str (\"1/- 2\", 10) = %d\n", rc ? "BAD" : "ok", rc); if (rc) bad++; mpq_clear (q); }
  printf ("%d valid strings rejected\n", bad);
  return bad != 0;
}
