/* finding1: mpz_miller_rabin / mpz_millerrabin return 0 ("composite") for the primes 2, 3, 5, 7.
 *
 * Build/run:
 *   gcc -O2 -I/tmp/hunt-C16 demo.c /tmp/hunt-C16/.libs/libmpir.a -o demo && ./demo
 * Exits non-zero and prints the offending primes on the unmodified tree.
 *
 * Oracle: trial division in plain C.
 */
#include <stdio.h>
#include "mpir.h"

static int is_prime_td(unsigned long n)
{
  unsigned long d;
  if (n < 2) return 0;
  for (d = 2; d * d <= n; d++)
    if (n % d == 0) return 0;
  return 1;
}

int main(void)
{
  gmp_randstate_t st;
  mpz_t z;
  unsigned long n;
  int bad = 0;

  gmp_randinit_default(st);
  mpz_init(z);
  for (n = 2; n < 2000; n++)
    {
      int want = is_prime_td(n), got1, got2;
      mpz_set_ui(z, n);
      got1 = mpz_miller_rabin(z, 25, st);
      got2 = mpz_millerrabin(z, 25);
      if (want && got1 == 0)
        { printf("mpz_miller_rabin(%lu, 25, st) = 0, but %lu is prime\n", n, n); bad++; }
      if (want && got2 == 0)
        { printf("mpz_millerrabin(%lu, 25) = 0, but %lu is prime\n", n, n); bad++; }
      if (!want && (got1 || got2))
        { printf("composite %lu accepted (%d,%d)\n", n, got1, got2); bad++; }
    }
  mpz_clear(z);
  gmp_randclear(st);
  printf("%d violations\n", bad);
  return bad != 0;
}
