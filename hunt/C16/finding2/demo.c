/* finding2: mpz_remove returns a wrong count when the factor occurs 2^32-1 or more times.
 *
 * Build/run (needs about 10 GB of RAM and roughly 45-60 minutes of CPU; the operand must
 * have at least 2^32-1 factors f >= 3, so it cannot be smaller than ~850 MB):
 *   gcc -O2 -I/tmp/hunt-C16 demo.c /tmp/hunt-C16/.libs/libmpir.a -o demo && ./demo
 * Exits non-zero and prints the wrong count on the unmodified tree.
 *
 * Oracle: the operand is constructed as 7 * 4^c with c = 2^32-1 by setting one bit and one
 * multiplication by 7, so the exact answer (count c, cofactor 7) is known by construction.
 * (f = 4 is used, not f = 2, because f == 2 takes a separate mpz_scan1 shortcut.)
 *
 * Optional argument: ./demo <log2>  uses c = 2^<log2> - 1 (e.g. 24 finishes in seconds and
 * passes, showing that the harness itself is right).
 */
#include <stdio.h>
#include <stdlib.h>
#include "mpir.h"

int main(int argc, char **argv)
{
  unsigned long lg = argc > 1 ? strtoul(argv[1], 0, 10) : 32;
  unsigned long c = (1UL << lg) - 1;
  unsigned long got;
  mpz_t src, f, dest;

  mpz_init(src); mpz_init(dest); mpz_init_set_ui(f, 4);
  mpz_setbit(src, 2 * c);          /* 4^c */
  mpz_mul_ui(src, src, 7);         /* 7 * 4^c */

  got = mpz_remove(dest, src, f);

  printf("mpz_remove(7*4^%lu, 4): returned count %lu (correct %lu), cofactor %s\n",
         c, got, c, mpz_cmp_ui(dest, 7) == 0 ? "7 (correct)" : "WRONG");
  if (got != c || mpz_cmp_ui(dest, 7) != 0)
    {
      printf("VIOLATION: wrong result from mpz_remove\n");
      return 1;
    }
  return 0;
}
