/* C20 finding 1: operator>> for mpz_class / mpq_class / mpf_class (and the
   mpz_t / mpq_t / mpf_t extractors behind them) throw std::ios_base::failure
   and leave the destination unassigned when a perfectly valid number is the
   last thing in the stream and the stream has exceptions(ios::failbit) set.
   The built-in extractors (long, double) read the same input without error.

   build & run (this file is C++; demo.c is an identical copy):
     g++ -std=c++11 -I/tmp/hunt4-C20 demo.cc \
         /tmp/hunt4-C20/.libs/libmpirxx.a /tmp/hunt4-C20/.libs/libmpir.a -o demo && ./demo
   (or: g++ -x c++ -std=c++11 -I/tmp/hunt4-C20 demo.c ... )
   exit status 1 and "MISMATCH" lines on the unmodified tree.  */
#include <iostream>
#include <sstream>
#include <string>
#include <mpirxx.h>
using namespace std;

static int bad = 0;

/* oracle: what the standard library does for the corresponding built-in type
   on the very same bytes and the very same stream settings */
template <class Builtin, class Cls>
static void check (const char *what, const char *input, const Cls &expect)
{
  bool b_threw = false, c_threw = false;
  Builtin bv = Builtin ();
  Cls cv (-1);

  { istringstream i (input); i.exceptions (ios::failbit);
    try { i >> bv; } catch (ios::failure &) { b_threw = true; } }
  { istringstream i (input); i.exceptions (ios::failbit);
    try { i >> cv; } catch (ios::failure &) { c_threw = true; } }

  cout << what << " input \"" << input << "\": builtin "
       << (b_threw ? "THROWS" : "ok") << " value " << bv
       << "; class " << (c_threw ? "THROWS" : "ok") << " value " << cv
       << " (expected " << expect << ")";
  if (c_threw != b_threw || cv != expect)
    { cout << "   <-- MISMATCH"; bad++; }
  cout << "\n";
}

int main ()
{
  check<long, mpz_class>   ("mpz_class", "123", mpz_class (123));
  check<long, mpz_class>   ("mpz_class", "  -0x7f", mpz_class (0));   /* dec: reads -0, stops at x; not at EOF: fine */
  check<long, mpz_class>   ("mpz_class", "123 ", mpz_class (123));    /* not at EOF: fine */
  check<long, mpq_class>   ("mpq_class", "123", mpq_class (123));
  check<double, mpf_class> ("mpf_class", "1.5", mpf_class (1.5));
  check<double, mpf_class> ("mpf_class", "2e3", mpf_class (2000));

  /* fraction: numerator is stored, then the exception escapes before the
     denominator is: the object ends up holding 1/1 instead of 1/2 */
  {
    istringstream i ("1/2"); i.exceptions (ios::failbit);
    mpq_class q (-1); bool threw = false;
    try { i >> q; } catch (ios::failure &) { threw = true; }
    cout << "mpq_class input \"1/2\": " << (threw ? "THROWS" : "ok") << " value " << q << " (expected 1/2)";
    if (threw || q != mpq_class (1, 2)) { cout << "   <-- MISMATCH"; bad++; }
    cout << "\n";
  }

  /* same through the C-type extractor documented in "C++ Formatted Input" */
  {
    istringstream i ("42"); i.exceptions (ios::failbit);
    mpz_t z; mpz_init_set_si (z, -1); bool threw = false;
    try { i >> z; } catch (ios::failure &) { threw = true; }
    cout << "mpz_t input \"42\": " << (threw ? "THROWS" : "ok") << " value " << z << " (expected 42)";
    if (threw || mpz_cmp_ui (z, 42) != 0) { cout << "   <-- MISMATCH"; bad++; }
    cout << "\n";
    mpz_clear (z);
  }

  cout << (bad ? "FAILED" : "ok") << ": " << bad << " mismatches\n";
  return bad != 0;
}
