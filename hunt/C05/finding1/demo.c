/* C05 finding 1: mpz_powm / mpz_powm_ui WRITE to their input-only modulus operand.

   Build and run (unmodified tree built in /tmp/hunt-C05):

     gcc -O1 -g -pthread -I/tmp/hunt-C05 /tmp/hunt-C05-out/finding1/demo.c \
         /tmp/hunt-C05/.libs/libmpir.a -o /tmp/hunt-C05-out/finding1/demo \
       && /tmp/hunt-C05-out/finding1/demo

   Exit status 1 + a description of what is wrong on the unmodified library,
   exit status 0 if the modulus is never written.

   Phase 1 (observer thread): while the main thread runs mpz_powm (r, b, e, m)
   in a loop, a second thread only READS limb 50 of m.  It sees a value that m
   never had (high 32 bits cleared): the library temporarily changes the value
   of m during the call.  The manual (Reentrancy) promises "It's safe for two
   threads to read from the same MPIR variable simultaneously".

   Phase 2 (deterministic): the limbs of m are placed in a page that is made
   read-only with mprotect and wrapped with mpz_roinit_n, which the manual
   documents as "can be passed safely as input to any mpz function" (its
   example uses a `static const mp_limb_t' array).  mpz_powm then dies with
   SIGSEGV on a store into m's limb array; the handler reports the limb index.

   No other MPIR function is used as an oracle: the evidence is the memory
   protection fault / the value read directly from memory.  */

#include <stdio.h>
#include <stdlib.h>
#include <string.h>
#include <signal.h>
#include <unistd.h>
#include <pthread.h>
#include <sys/mman.h>
#include "mpir.h"

#define N 101                   /* limbs in the (odd) modulus: odd count >= 100 */

static mp_limb_t *mlimbs;       /* modulus limbs, inside an mmap'ed page */
static volatile int stop;
static volatile mp_limb_t seen_bad;
static volatile long seen_idx = -1;
static mp_limb_t orig[N];

static void *
observer (void *arg)
{
  (void) arg;
  while (!stop)
    {
      /* pure reads of the shared input operand */
      mp_limb_t v = ((volatile mp_limb_t *) mlimbs)[N / 2];
      if (v != orig[N / 2])
        {
          seen_bad = v;
          seen_idx = N / 2;
          break;
        }
    }
  return NULL;
}

static void
on_segv (int sig, siginfo_t *si, void *ctx)
{
  char buf[300];
  char *a = (char *) si->si_addr;
  (void) sig; (void) ctx;
  if (a >= (char *) mlimbs && a < (char *) (mlimbs + N))
    snprintf (buf, sizeof buf,
              "FAIL (phase 2): mpz_powm stored into limb %ld of its INPUT-ONLY modulus m "
              "(read-only memory wrapped with mpz_roinit_n) -> SIGSEGV at %p\n",
              (long) ((mp_limb_t *) a - mlimbs), (void *) a);
  else
    snprintf (buf, sizeof buf, "FAIL (phase 2): unexpected SIGSEGV at %p\n", (void *) a);
  if (write (1, buf, strlen (buf)) < 0) {}
  _exit (1);
}

int
main (void)
{
  mpz_t r, b, e, tmp;
  mpz_srcptr m;
  long i, it;
  int bad = 0;
  pthread_t th;

  /* modulus limbs live at the start of a private 2-page mapping */
  mlimbs = mmap (NULL, 8192, PROT_READ | PROT_WRITE, MAP_PRIVATE | MAP_ANONYMOUS, -1, 0);
  if (mlimbs == MAP_FAILED) { perror ("mmap"); return 2; }
  for (i = 0; i < N; i++)
    mlimbs[i] = 0x9E3779B97F4A7C15UL * (mp_limb_t) (i + 1) | 0x8000000000000001UL; /* odd, high bits set */
  memcpy (orig, mlimbs, sizeof orig);
  m = mpz_roinit_n (tmp, mlimbs, N);

  mpz_init (r);
  mpz_init_set_ui (b, 3);
  mpz_init_set_ui (e, 65537);   /* also reached through mpz_powm_ui for exponents >= 20 */

  /* ---- phase 1: another thread merely reads m during the calls ---- */
  pthread_create (&th, NULL, observer, NULL);
  for (it = 0; it < 3000 && seen_idx < 0; it++)
    mpz_powm (r, b, e, m);
  stop = 1;
  pthread_join (th, NULL);
  if (seen_idx >= 0)
    {
      printf ("FAIL (phase 1): a thread that only READS the modulus saw limb %ld = 0x%016lx\n"
              "                during mpz_powm; its value before and after the call is 0x%016lx\n"
              "                (input operand temporarily modified; concurrent readers see a wrong m)\n",
              seen_idx, (unsigned long) seen_bad, (unsigned long) orig[seen_idx]);
      bad = 1;
    }
  else
    printf ("phase 1: observer thread did not catch the transient modification in %ld calls (race not hit)\n", it);
  if (memcmp (orig, mlimbs, sizeof orig) != 0)
    { printf ("FAIL: modulus value changed after the call\n"); bad = 1; }

  /* ---- phase 2: read-only modulus ---- */
  {
    struct sigaction sa;
    memset (&sa, 0, sizeof sa);
    sa.sa_sigaction = on_segv;
    sa.sa_flags = SA_SIGINFO;
    sigaction (SIGSEGV, &sa, NULL);
    sigaction (SIGBUS, &sa, NULL);
  }
  if (mprotect (mlimbs, 4096, PROT_READ) != 0) { perror ("mprotect"); return 2; }
  fflush (stdout);
  mpz_powm (r, b, e, m);        /* m is const / input-only */
  printf ("phase 2: mpz_powm did not write to its read-only modulus\n");

  if (!bad)
    printf ("OK\n");
  return bad;
}
