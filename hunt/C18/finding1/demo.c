/* finding1: "%.Fg" (empty precision, general conversion) indexes mp_bases[] with the
   mpf precision instead of the base (swapped macro arguments in printf/doprntf.c):
   wrong fixed/scientific choice, out-of-bounds read, crash for precise operands.

   build/run:
     gcc -w -I/tmp/hunt-C18 demo.c /tmp/hunt-C18/.libs/libmpir.a -o demo && ./demo
   exits non-zero and prints what is wrong on the unmodified tree.  */
#include <stdio.h>
#include <stdlib.h>
#include <string.h>
#include <unistd.h>
#include <sys/wait.h>
#include "mpir.h"

static int is_scientific (const char *s) { return strchr (s, 'e') != NULL; }

int main (void)
{
  int bad = 0;
  char buf[8192];
  mpf_t f, t;

  /* (a) 64-bit mpf holding 10^50.  Count the significant digits such an mpf can
     give with "%.Fe" on 1/3 (independent of the %g code path): P digits.  C's %g
     rule (which the manual says F follows) is: scientific iff exponent X >= P. */
  mpf_init2 (f, 64); mpf_init2 (t, 64);
  mpf_set_ui (t, 1); mpf_div_ui (t, t, 3);
  gmp_snprintf (buf, sizeof buf, "%.Fe", t);
  int P = 0; for (char *p = buf; *p && *p != 'e'; p++) if (*p >= '0' && *p <= '9') P++;
  mpf_set_ui (f, 10); mpf_pow_ui (f, f, 50);            /* X = 50 */
  gmp_snprintf (buf, sizeof buf, "%.Fg", f);
  printf ("(a) 64-bit mpf has P=%d significant digits; 10^50 (X=50) with %%.Fg -> \"%s\"\n", P, buf);
  if (50 >= P && !is_scientific (buf))
    { printf ("    WRONG: X >= P so C's %%g rule gives \"1e+50\"; got %d digits of fixed notation\n", (int) strlen (buf)); bad = 1; }

  /* (b) the choice must be monotone in the precision: more significant digits can
     only move the output from scientific to fixed, never the other way. */
  int fixed64 = !is_scientific (buf);
  mpf_clear (f); mpf_init2 (f, 19200);
  mpf_set_ui (f, 10); mpf_pow_ui (f, f, 50);
  gmp_snprintf (buf, sizeof buf, "%.Fg", f);
  printf ("(b) same value in a 19200-bit mpf (thousands of significant digits) -> \"%s\"\n", buf);
  if (fixed64 && is_scientific (buf))
    { printf ("    WRONG: fixed at 64 bits but scientific at 19200 bits\n"); bad = 1; }

  /* (c) precise operand: mp_bases[PREC(f)] is far outside the 257-entry table */
  fflush (stdout);
  pid_t pid = fork ();
  if (pid == 0)
    {
      mpf_t g; mpf_init2 (g, 6400000);
      mpf_set_ui (g, 3); mpf_div_ui (g, g, 7);
      char small[64];
      int r = gmp_snprintf (small, sizeof small, "%.Fg", g);
      _exit (r > 0 && strncmp (small, "0.428571428571", 14) == 0 ? 0 : 3);
    }
  int st = 0; waitpid (pid, &st, 0);
  if (WIFSIGNALED (st))
    { printf ("(c) WRONG: gmp_snprintf(\"%%.Fg\") of 3/7 in a 6400000-bit mpf died with signal %d\n", WTERMSIG (st)); bad = 1; }
  else if (WEXITSTATUS (st) != 0)
    { printf ("(c) WRONG: gmp_snprintf(\"%%.Fg\") of 3/7 in a 6400000-bit mpf gave a wrong string\n"); bad = 1; }
  else printf ("(c) ok\n");

  printf (bad ? "FAIL\n" : "PASS\n");
  return bad;
}
