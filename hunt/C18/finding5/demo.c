/* finding5 (low confidence): gmp_sscanf/gmp_fscanf "%Zx" / "%Qx" do not accept the
   "0x"/"0X" prefix that C's "%x" accepts (C99 7.19.6.2: same subject sequence as
   strtoul with base 16), so the output of gmp_printf("%#Zx") cannot be read back
   with the matching conversion "%Zx": the field is read as 0 and "x1f" is left in
   the input.  ("%Zi" does read it back.)

   build/run:
     gcc -w -I/tmp/hunt-C18 demo.c /tmp/hunt-C18/.libs/libmpir.a -o demo && ./demo  */
#include <stdio.h>
#include <string.h>
#include "mpir.h"
int main (void)
{
  int bad = 0; char buf[64], rest[16] = "";
  mpz_t z, y; mpz_init_set_si (z, -31); mpz_init (y);
  gmp_snprintf (buf, sizeof buf, "%#Zx end", z);             /* "-0x1f end" */
  long l = 0; char crest[16] = "";
  int rc = sscanf (buf, "%lx %15s", (unsigned long *) &l, crest);   /* libc: 2, -31, "end" */
  int rg = gmp_sscanf (buf, "%Zx %15s", y, rest);
  printf ("input \"%s\": libc %%lx -> fields=%d value=%ld rest=\"%s\"\n", buf, rc, l, crest);
  gmp_printf ("input \"%s\": gmp  %%Zx -> fields=%d value=%Zd rest=\"%s\"\n", buf, rg, y, rest);
  if (rg != rc || mpz_cmp_si (y, l) != 0 || strcmp (rest, crest) != 0)
    { printf ("WRONG: %%Zx does not read back what %%#Zx printed (C's %%x accepts the 0x prefix)\n"); bad = 1; }
  printf (bad ? "FAIL\n" : "PASS\n");
  return bad;
}
