/* finding4: "%#Fg" (alternate form of the general conversion: keep trailing zeros,
   P significant digits) counts the leading "0." and the zeros after the point as
   significant digits when the value is < 1, so it pads too little:
   0.5 -> "0.50000" (5 sig. digits) instead of "0.500000"; 0.0001234 -> "0.0001234"
   instead of "0.000123400".  Values >= 1 are padded correctly ("123.500").

   build/run:
     gcc -w -I/tmp/hunt-C18 demo.c /tmp/hunt-C18/.libs/libmpir.a -o demo && ./demo
   Oracle: libc printf on the equal double (all values exactly representable or
   far from any rounding tie).  */
#include <stdio.h>
#include <string.h>
#include "mpir.h"
int main (void)
{
  int bad = 0; char got[128], want[128];
  mpf_t f; mpf_init2 (f, 128);
  double v[] = { 123.5, 1.0, 0.5, 0.25, 0.0001234, -0.0390625, 0.796 };
  const char *cf[] = { "%#g", "%#.3g", "%#.12g", "%#G", "%#+12.4g" };
  const char *gf[] = { "%#Fg", "%#.3Fg", "%#.12Fg", "%#FG", "%#+12.4Fg" };
  for (int i = 0; i < 7; i++)
    for (int k = 0; k < 5; k++)
      {
        mpf_set_d (f, v[i]);
        snprintf (want, sizeof want, cf[k], v[i]);
        gmp_snprintf (got, sizeof got, gf[k], f);
        int ok = strcmp (got, want) == 0;
        if (!ok || k == 0)
          printf ("%-10g %-10s -> [%s]  libc %s -> [%s]  %s\n", v[i], gf[k], got, cf[k], want, ok ? "ok" : "WRONG");
        bad |= !ok;
      }
  printf (bad ? "FAIL\n" : "PASS\n");
  return bad;
}
