/* finding3: gmp_sprintf/gmp_vsprintf measure each standard-conversion chunk with
   strlen() instead of using vsprintf's return value, so a chunk that legitimately
   contains a NUL byte ("%c" with 0) is cut there: the following output overwrites
   the rest of the chunk and the return value is too small.  gmp_snprintf,
   gmp_asprintf and gmp_fprintf (and C sprintf) all produce the full output.

   build/run:
     gcc -w -I/tmp/hunt-C18 demo.c /tmp/hunt-C18/.libs/libmpir.a -o demo && ./demo  */
#include <stdio.h>
#include <string.h>
#include "mpir.h"

static void show (const char *name, const char *b, int n)
{
  printf ("%-13s ret=%d bytes=", name, n);
  for (int i = 0; i < 8; i++)
    printf (b[i] >= 32 && b[i] < 127 ? "%c" : "\\x%02x", (unsigned char) b[i]);
  printf ("\n");
}

int main (void)
{
  mpz_t z; mpz_init_set_si (z, -77);
  char c[32], g[32], s[32];
  memset (c, '#', 32); memset (g, '#', 32); memset (s, '#', 32);
  int rc = sprintf (c, "a%cb%ldc", 0, -77L);            /* libc oracle: "a\0b-77c", 7 */
  int rs = gmp_snprintf (s, 32, "a%cb%Zdc", 0, z);      /* sibling function */
  int rg = gmp_sprintf (g, "a%cb%Zdc", 0, z);
  show ("sprintf(libc)", c, rc); show ("gmp_snprintf", s, rs); show ("gmp_sprintf", g, rg);
  int bad = (rg != rc) || memcmp (g, c, rc + 1) != 0;
  if (bad) printf ("WRONG: gmp_sprintf differs from C sprintf (and from gmp_snprintf) for a standard %%c conversion\n");
  printf (bad ? "FAIL\n" : "PASS\n");
  return bad;
}
