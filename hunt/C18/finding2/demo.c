/* finding2: "%.<n>Ff" rounds twice (mpf_get_str rounds to n+2 digits, then doprntf.c
   rounds that string again half-up), so values just below a rounding boundary are
   rounded the wrong way: 0.12499 prints as 0.13.

   build/run:
     gcc -w -I/tmp/hunt-C18 demo.c /tmp/hunt-C18/.libs/libmpir.a -o demo && ./demo
   Oracle: exact integer arithmetic on the decimal string the mpf was set from
   (and, for the doubles, libc printf, which prints the exact binary value).  */
#include <stdio.h>
#include <string.h>
#include <math.h>
#include "mpir.h"

int main (void)
{
  int bad = 0;
  char got[128], want[128];
  mpf_t f; mpf_init2 (f, 256);

  /* hand-picked: the true value is strictly below the midpoint, so every rounding
     rule (nearest-even, nearest-half-up, truncation) gives the "want" string */
  static const struct { const char *val, *fmt, *want; } t[] = {
    { "0.12499",      "%.2Ff", "0.12" },
    { "0.1249999999", "%.2Ff", "0.12" },
    { "0.4999",       "%.0Ff", "0"    },
    { "0.24999",      "%.1Ff", "0.2"  },
    { "-0.0078124999","%Ff",   "-0.007812" },
    { "0.99499",      "%.2Ff", "0.99" },
  };
  for (unsigned i = 0; i < sizeof t / sizeof *t; i++)
    {
      mpf_set_str (f, t[i].val, 10);
      gmp_snprintf (got, sizeof got, t[i].fmt, f);
      int ok = strcmp (got, t[i].want) == 0;
      printf ("%-14s %-6s -> %-10s expected %-10s %s\n", t[i].val, t[i].fmt, got, t[i].want, ok ? "ok" : "WRONG");
      bad |= !ok;
    }

  /* exactly representable doubles (odd mantissa * 2^-48: the decimal expansion has 48
     fraction digits, so no precision <= 30 can hit a tie): compare with libc */
  double d[] = { 0x1fffffffffffp-48 /* 0.12499999999999645 */, 0x3fffffffffffp-48, 0x7fffffffffffp-48, 0x3ffffffffffp-48 };
  const char *fm[] = { "%.2", "%.1", "%.0", "%.5" };
  for (int i = 0; i < 4; i++)
    {
      char cf[16], gf[16];
      sprintf (cf, "%sf", fm[i]); sprintf (gf, "%sFf", fm[i]);
      mpf_set_d (f, d[i]);
      snprintf (want, sizeof want, cf, d[i]);
      gmp_snprintf (got, sizeof got, gf, f);
      int ok = strcmp (got, want) == 0;
      printf ("%.20g %s -> %s, libc %s gives %s  %s\n", d[i], gf, got, cf, want, ok ? "ok" : "WRONG");
      bad |= !ok;
    }
  printf (bad ? "FAIL\n" : "PASS\n");
  return bad;
}
