/* C15 finding 1: mpz_powm / mpz_powm_ui WRITE to their (const) modulus operand.

   Build and run (unmodified tree built in /tmp/hunt-C15):
     gcc -O1 -g -I/tmp/hunt-C15 demo.c /tmp/hunt-C15/.libs/libmpir.a -lpthread -o demo && ./demo
   Exit status 0 = no problem seen, 1 = violation demonstrated.

   What it shows
   (A) deterministic, single-threaded: the modulus (mpz_t header and limbs) is
       placed in PROT_READ memory; mpz_powm (r, b, e, M) and mpz_powm_ui must
       only read it.  With a 157-limb odd modulus the library takes SIGSEGV
       on a store into M's limb array (caught here and reported with the limb
       index).  A 156-limb modulus is shown as a control (no store).
   (B) concurrent, independent observer: one thread runs mpz_powm with a
       shared modulus M, a second thread does nothing but read limb 78 of M
       (plain volatile loads, no MPIR calls) and sees values different from
       the value M has before and after -- i.e. M is not stable while it is
       only being "read" by MPIR.
   (C) consequence: several threads each compute b_i^e mod M into their own
       destination, sharing only the source M.  Results are compared with a
       reference computed beforehand by a plain binary square-and-multiply
       using mpz_mul + mpz_tdiv_r (no Montgomery/REDC code).  Mismatches are
       counted (timing dependent; (A) and (B) are the primary evidence).
*/
#define _GNU_SOURCE
#include <stdio.h>
#include <stdlib.h>
#include <string.h>
#include <signal.h>
#include <setjmp.h>
#include <pthread.h>
#include <sys/mman.h>
#include "mpir.h"

/* ---------- independent reference: b^e mod m, left-to-right binary ---------- */
static void ref_powm (mpz_t r, const mpz_t b, const mpz_t e, const mpz_t m)
{
  mpz_t acc, t; long i;
  mpz_init_set_ui (acc, 1); mpz_init (t);
  for (i = (long) mpz_sizeinbase (e, 2) - 1; i >= 0; i--)
    {
      mpz_mul (t, acc, acc); mpz_tdiv_r (acc, t, m);
      if (mpz_tstbit (e, i)) { mpz_mul (t, acc, b); mpz_tdiv_r (acc, t, m); }
    }
  if (mpz_sgn (acc) < 0) mpz_add (acc, acc, m);
  mpz_set (r, acc); mpz_clear (acc); mpz_clear (t);
}

/* ---------- part A ---------- */
static sigjmp_buf jb;
static void *fault_addr;
static void on_segv (int sig, siginfo_t *si, void *ctx) { fault_addr = si->si_addr; siglongjmp (jb, 1); }

static void make_modulus (mpz_t m, gmp_randstate_t rs, long limbs)
{
  mpz_urandomb (m, rs, limbs * 64);
  mpz_setbit (m, limbs * 64 - 1);   /* exactly `limbs' limbs */
  mpz_setbit (m, 0);                /* odd -> Montgomery path */
  /* make sure the high half of the middle limb is non-zero, so the temporary
     masking inside the library changes its value */
  mpz_setbit (m, ((limbs + 1) / 2 - 1) * 64 + 63);
}

/* returns 1 if the library stored into the read-only modulus */
static int partA (long limbs, int use_ui)
{
  gmp_randstate_t rs; mpz_t b, e, m, r; int hit = 0;
  size_t pg = 1 << 16; char *ro; __mpz_struct *M; mp_limb_t *md;

  gmp_randinit_default (rs); gmp_randseed_ui (rs, 12345);
  mpz_inits (b, e, m, r, NULL);
  make_modulus (m, rs, limbs);
  mpz_urandomb (b, rs, limbs * 64 - 3); mpz_urandomb (e, rs, 200);

  ro = mmap (NULL, pg, PROT_READ | PROT_WRITE, MAP_PRIVATE | MAP_ANONYMOUS, -1, 0);
  M = (__mpz_struct *) ro; md = (mp_limb_t *) (ro + 256);
  memcpy (md, m->_mp_d, limbs * sizeof (mp_limb_t));
  M->_mp_d = md; M->_mp_size = limbs; M->_mp_alloc = limbs;
  mprotect (ro, pg, PROT_READ);

  if (sigsetjmp (jb, 1) == 0)
    {
      if (use_ui) mpz_powm_ui (r, b, 65537, M); else mpz_powm (r, b, e, M);
      printf ("  (A) %s, %ld-limb read-only modulus: no store into the modulus\n",
              use_ui ? "mpz_powm_ui" : "mpz_powm", limbs);
    }
  else
    {
      hit = 1;
      printf ("  (A) %s, %ld-limb read-only modulus: STORE INTO THE MODULUS at limb index %ld (fault address %p, limbs at %p)\n",
              use_ui ? "mpz_powm_ui" : "mpz_powm", limbs,
              (long) ((mp_limb_t *) fault_addr - md), fault_addr, (void *) md);
    }
  munmap (ro, pg);
  /* r may be half-written after the longjmp; leak everything, it is a demo */
  return hit;
}

/* ---------- parts B and C ---------- */
#define LIMBS 157
#define NTHR 4
static mpz_t Msh, Esh;                 /* shared sources */
static mpz_t Bs[NTHR], Ref[NTHR];      /* per-thread base and reference result */
static volatile int stop;
static long seen_changed; static mp_limb_t seen_value, orig_limb;
static long mism[NTHR], runs[NTHR];

static void *watcher (void *arg)
{
  volatile const mp_limb_t *p = &Msh->_mp_d[(LIMBS + 1) / 2 - 1];
  mp_limb_t orig = orig_limb, v;   /* value before any thread was started */
  while (!stop)
    if ((v = *p) != orig) { seen_changed++; seen_value = v; }
  return NULL;
}
static void *worker (void *arg)
{
  long id = (long) arg; mpz_t r; mpz_init (r);
  while (!stop)
    {
      mpz_powm (r, Bs[id], Esh, Msh);          /* private destination, shared M and E */
      runs[id]++;
      if (mpz_cmp (r, Ref[id]) != 0) mism[id]++;
    }
  mpz_clear (r);
  return NULL;
}

int main (void)
{
  struct sigaction sa; int bad = 0, a1, a2, a3; long i, tot_m = 0, tot_r = 0;
  gmp_randstate_t rs; pthread_t w, th[NTHR]; mpz_t msave;
  struct timespec ts = { 3, 0 };

  memset (&sa, 0, sizeof sa); sa.sa_sigaction = on_segv; sa.sa_flags = SA_SIGINFO | SA_NODEFER;
  sigaction (SIGSEGV, &sa, NULL);

  printf ("Part A: modulus placed in read-only memory\n");
  a1 = partA (157, 0); a2 = partA (157, 1); a3 = partA (156, 0);
  if (a1 || a2 || a3) bad = 1;
  signal (SIGSEGV, SIG_DFL);

  printf ("Part B/C: %d threads call mpz_powm with private destinations and a shared %d-limb modulus\n", NTHR, LIMBS);
  gmp_randinit_default (rs); gmp_randseed_ui (rs, 777);
  mpz_init (Msh); mpz_init (Esh); mpz_init (msave);
  make_modulus (Msh, rs, LIMBS);
  mpz_urandomb (Esh, rs, 64);
  for (i = 0; i < NTHR; i++)
    {
      mpz_init (Bs[i]); mpz_init (Ref[i]);
      mpz_urandomb (Bs[i], rs, LIMBS * 64 - 5);
      ref_powm (Ref[i], Bs[i], Esh, Msh);      /* independent, serial, before any thread exists */
      mpz_powm (msave, Bs[i], Esh, Msh);       /* sanity: the serial library result agrees with it */
      if (mpz_cmp (msave, Ref[i]) != 0) { printf ("  serial mpz_powm disagrees with the reference?!\n"); return 2; }
    }
  printf ("  serial mpz_powm agrees with the square-and-multiply reference for all %d bases\n", NTHR);
  mpz_set (msave, Msh);
  orig_limb = Msh->_mp_d[(LIMBS + 1) / 2 - 1];
  pthread_create (&w, NULL, watcher, NULL);
  for (i = 0; i < NTHR; i++) pthread_create (&th[i], NULL, worker, (void *) i);
  nanosleep (&ts, NULL);
  stop = 1;
  for (i = 0; i < NTHR; i++) pthread_join (th[i], NULL);
  pthread_join (w, NULL);

  printf ("  (B) observer thread saw limb %d of the shared modulus hold a foreign value %ld times (e.g. %#lx instead of %#lx)\n",
          (LIMBS + 1) / 2 - 1, seen_changed, (unsigned long) seen_value,
          (unsigned long) msave->_mp_d[(LIMBS + 1) / 2 - 1]);
  if (seen_changed) bad = 1;
  if (mpz_cmp (msave, Msh) != 0)
    {
      printf ("  the shared modulus is left CHANGED after all threads have finished: limb %d is now %#lx\n",
              (LIMBS + 1) / 2 - 1, (unsigned long) Msh->_mp_d[(LIMBS + 1) / 2 - 1]);
      bad = 1;
    }
  for (i = 0; i < NTHR; i++) { tot_m += mism[i]; tot_r += runs[i]; }
  printf ("  (C) %ld of %ld concurrent mpz_powm results differ from the serial reference\n", tot_m, tot_r);
  if (tot_m) bad = 1;

  printf (bad ? "VIOLATION: mpz_powm modifies a source operand shared between threads\n" : "no violation observed\n");
  return bad;
}
