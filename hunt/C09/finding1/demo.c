/* mpn_perfect_square_p gives wrong answers (and can die with SIGFPE) when the
   operand {s1p,n} has zero high limbs, although the manual puts no such
   restriction on it ("Return non-zero iff {s1p, n} is a perfect square").

   Build/run:
     gcc -O1 -g -I/tmp/hunt-C09 demo.c /tmp/hunt-C09/.libs/libmpir.a -o demo && ./demo
   Exits non-zero on the unmodified tree.

   Oracle: the value of each operand is written down by hand (4, 9, 2^64, 16, 0 are
   squares; 5 and 17 are not); nothing from the library is used to decide. */
#include <stdio.h>
#include <signal.h>
#include <setjmp.h>
#include "mpir.h"

static sigjmp_buf jb;
static void on_sig (int s) { siglongjmp (jb, s); }
static int bad = 0;

static void
try (const char *name, mp_limb_t *a, mp_size_t n, int want)
{
  int s;
  if ((s = sigsetjmp (jb, 1)) == 0)
    {
      int r = mpn_perfect_square_p (a, n);
      int ok = (r != 0) == want;
      printf ("%-26s -> %d   (correct: %s)%s\n", name, r, want ? "non-zero" : "0", ok ? "" : "   WRONG");
      bad += !ok;
    }
  else
    {
      printf ("%-26s -> killed by signal %d   (correct: %s)   CRASH\n", name, s, want ? "non-zero" : "0");
      bad++;
    }
}

int
main (void)
{
  signal (SIGFPE, on_sig); signal (SIGSEGV, on_sig); signal (SIGABRT, on_sig);
  { mp_limb_t a[] = {4};             try ("{4} n=1          (=4)", a, 1, 1); }   /* control */
  { mp_limb_t a[] = {0};             try ("{0} n=1          (=0)", a, 1, 1); }
  { mp_limb_t a[] = {0, 0};          try ("{0,0} n=2        (=0)", a, 2, 1); }
  { mp_limb_t a[] = {4, 0};          try ("{4,0} n=2        (=4)", a, 2, 1); }
  { mp_limb_t a[] = {5, 0};          try ("{5,0} n=2        (=5)", a, 2, 0); }
  { mp_limb_t a[] = {1, 0, 0};       try ("{1,0,0} n=3      (=1)", a, 3, 1); }
  { mp_limb_t a[] = {9, 0, 0, 0};    try ("{9,0,0,0} n=4    (=9)", a, 4, 1); }
  { mp_limb_t a[] = {0, 1, 0};       try ("{0,1,0} n=3      (=2^64)", a, 3, 1); }
  { mp_limb_t a[] = {17, 0, 0, 0};   try ("{17,0,0,0} n=4   (=17)", a, 4, 0); }
  { mp_limb_t a[] = {16, 0, 0, 0, 0}; try ("{16,0,0,0,0} n=5 (=16)", a, 5, 1); }
  printf ("%d wrong answers / crashes\n", bad);
  return bad != 0;
}
