/* mpf_init2 / mpf_set_prec / mpf_set_default_prec: a huge precision request is
   silently turned into a tiny precision (0 or 1 limb, below the library's own
   minimum of 2), and the 0-limb case makes mpf_set_d write past the block that
   mpf_init2 allocated.

   Build and run (unmodified tree built in /tmp/hunt3-C13):
     gcc -O1 -I/tmp/hunt3-C13 demo.c /tmp/hunt3-C13/.libs/libmpir.a -o demo && ./demo
   Exit status is non-zero when the defect is present.

   Oracle: a checking allocator installed with mp_set_memory_functions.  It
   records the byte count of every request, puts a canary behind the block and
   never hands out more than 4096 real bytes (so the 32 GiB request of part C
   "succeeds" the way it would on a big machine; that block is never touched).
   Expected behaviour: either p = mpf_get_prec (x) >= the requested number of
   bits, or the request fails like any unsatisfiable allocation.  */
#include <stdio.h>
#include <stdlib.h>
#include <string.h>
#include <limits.h>
#include "mpir.h"

#define CANARY 0xA5
#define GUARD  64
static size_t last_req;
static unsigned char *last_blk;
static size_t last_real;

static void *
my_alloc (size_t n)
{
  size_t real = n > 4096 ? 4096 : n;
  unsigned char *p = malloc (real + GUARD);
  memset (p + real, CANARY, GUARD);
  last_req = n; last_blk = p; last_real = real;
  return p;
}
static void *
my_realloc (void *q, size_t o, size_t n)
{
  void *p = my_alloc (n);
  memcpy (p, q, o < n ? (o > 4096 ? 4096 : o) : (n > 4096 ? 4096 : n));
  free (q);
  return p;
}
static void my_free (void *p, size_t n) { free (p); }

static int
canary_broken (void)
{
  size_t i;
  for (i = 0; i < GUARD; i++)
    if (last_blk[last_real + i] != CANARY)
      return 1;
  return 0;
}

int
main (void)
{
  mpf_t x, three;
  int bad = 0;
  unsigned long req;

  mp_set_memory_functions (my_alloc, my_realloc, my_free);

  /* A: ULONG_MAX - 126 bits: __GMPF_BITS_TO_PREC wraps to 0 limbs */
  req = ULONG_MAX - 126;
  mpf_init2 (x, req);
  printf ("A: mpf_init2 (x, %lu): _mp_prec = %d limbs, allocated %lu bytes\n",
          req, x->_mp_prec, (unsigned long) last_req);
  if (x->_mp_prec < 2)
    {
      printf ("   FAIL: precision below the 2-limb minimum instead of a failed request\n");
      bad = 1;
    }
  mpf_set_d (x, 1.5);           /* always stores LIMBS_PER_DOUBLE = 2 limbs */
  if (canary_broken ())
    {
      printf ("   FAIL: mpf_set_d (x, 1.5) wrote past the %lu byte block (heap overflow)\n",
              (unsigned long) last_req);
      bad = 1;
    }

  /* B: ULONG_MAX bits: wraps to 1 limb; mpf_get_prec says 0 bits */
  req = ULONG_MAX;
  mpf_init2 (x, req);
  printf ("B: mpf_init2 (x, %lu): _mp_prec = %d, mpf_get_prec = %lu\n",
          req, x->_mp_prec, (unsigned long) mpf_get_prec (x));
  if (mpf_get_prec (x) < req)
    {
      printf ("   FAIL: mpf_get_prec (x) < requested precision, no error raised\n");
      bad = 1;
    }
  mpf_init2 (three, 64);
  mpf_set_ui (three, 3);
  mpf_ui_div (x, 1, three);
  printf ("   1/3 computed in x carries %d limb(s)\n", abs (x->_mp_size));

  /* the same through mpf_set_prec and mpf_set_default_prec */
  mpf_set_prec (three, ULONG_MAX - 126);
  printf ("   mpf_set_prec (y, ULONG_MAX-126): _mp_prec = %d\n", three->_mp_prec);
  if (three->_mp_prec < 2)
    bad = 1;
  mpf_set_default_prec (ULONG_MAX - 126);
  printf ("   mpf_set_default_prec (ULONG_MAX-126): mpf_get_default_prec = %lu\n",
          (unsigned long) mpf_get_default_prec ());
  mpf_set_default_prec (64);

  /* C: 2^38 bits = 2^32+1 limbs: no wrap in the macro, but _mp_prec is an int */
  req = 1UL << 38;
  mpf_init2 (x, req);
  printf ("C: mpf_init2 (x, 2^38): asked the allocator for %lu bytes, _mp_prec = %d, mpf_get_prec = %lu\n",
          (unsigned long) last_req, x->_mp_prec, (unsigned long) mpf_get_prec (x));
  if (mpf_get_prec (x) < req)
    {
      printf ("   FAIL: 32 GiB allocated, precision recorded as %d limb(s)\n", x->_mp_prec);
      bad = 1;
    }
  /* 2^37 bits = 2^31+1 limbs: negative precision */
  req = 1UL << 37;
  mpf_init2 (x, req);
  printf ("   mpf_init2 (x, 2^37): _mp_prec = %d\n", x->_mp_prec);
  if (x->_mp_prec < 2)
    bad = 1;

  printf (bad ? "FAIL\n" : "ok\n");
  return bad;
}
