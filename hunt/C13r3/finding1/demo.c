/* mpf_eq (u, v, n) with n close to ULONG_MAX reports unequal numbers as equal.

   Build and run (unmodified tree built in /tmp/hunt3-C13):
     gcc -O1 -I/tmp/hunt3-C13 demo.c /tmp/hunt3-C13/.libs/libmpir.a -o demo && ./demo
   Exit status is non-zero when the defect is present.

   Oracle: u and v are built by hand, limb by limb, so that they differ in a
   known bit (bit 71 resp. bit 134 counted from the most significant bit).
   "The first n bits are equal" is therefore false for every n above that
   position, whatever the size of n; mpf_eq itself confirms it for n = 200.  */
#include <stdio.h>
#include <limits.h>
#include "mpir.h"

int
main (void)
{
  mpf_t u, v;
  int bad = 0, i, r;

  mpf_init2 (u, 128);
  mpf_init2 (v, 128);

  /* case 1: top limb has 63 leading zeros: u = 1, v = 1 + 2^-70 */
  u->_mp_d[0] = 1; u->_mp_size = 1; u->_mp_exp = 1;
  v->_mp_d[0] = 1UL << 58; v->_mp_d[1] = 0; v->_mp_d[2] = 1;
  v->_mp_size = 3; v->_mp_exp = 1;
  {
    unsigned long n[] = { 200, ULONG_MAX - 64, ULONG_MAX - 63, ULONG_MAX - 1, ULONG_MAX };
    for (i = 0; i < 5; i++)
      {
        r = mpf_eq (u, v, n[i]);
        printf ("mpf_eq (1, 1+2^-70, %lu) = %d (want 0)\n", n[i], r);
        if (r != 0)
          bad = 1;
      }
  }

  /* case 2: top limb has no leading zeros: u = 2^63, v = 2^63 + 2^-70 */
  u->_mp_d[0] = 1UL << 63;
  v->_mp_d[2] = 1UL << 63;
  {
    unsigned long n[] = { 200, ULONG_MAX - 62, ULONG_MAX - 1, ULONG_MAX };
    for (i = 0; i < 4; i++)
      {
        r = mpf_eq (u, v, n[i]);
        printf ("mpf_eq (2^63, 2^63+2^-70, %lu) = %d (want 0)\n", n[i], r);
        if (r != 0)
          bad = 1;
      }
  }

  if (bad)
    printf ("FAIL: numbers that differ are reported equal in their first n bits\n");
  else
    printf ("ok\n");
  return bad;
}
