/* Build/run:
     gcc -O1 -I/tmp/hunt-C03 demo.c /tmp/hunt-C03/.libs/libmpir.a -o demo && ./demo
   mpz_mul_2exp (w, 1, 64*(2^31-1)) needs a result of 2^31 limbs (16 GiB).  The
   library neither produces it nor fails: the limb count is silently truncated
   to the "int" _mp_size/_mp_alloc fields, so it returns normally with a
   NEGATIVE value and a negative allocation count.

   To keep the demo cheap and safe, the 16 GiB block the library asks for is
   served by a custom allocator (mp_set_memory_functions) as 16 GiB of virtual
   address space in which every 2 MiB window maps the same 2 MiB memfd, so only
   ~2 MiB of physical memory is used.  The demo only looks at the sign and the
   size/alloc fields, which do not depend on the aliasing.  */
#define _GNU_SOURCE
#include <stdio.h>
#include <stdlib.h>
#include <string.h>
#include <limits.h>
#include <sys/mman.h>
#include <unistd.h>
#include "mpir.h"

#define CHUNK (2UL << 20)
static size_t biggest_request = 0;

static void *big_alloc (size_t n)
{
  size_t len = (n + CHUNK - 1) / CHUNK * CHUNK, off;
  int fd = memfd_create ("alias", 0);
  char *base;
  if (fd < 0 || ftruncate (fd, CHUNK) != 0) { perror ("memfd"); exit (2); }
  base = mmap (NULL, len, PROT_NONE, MAP_PRIVATE | MAP_ANONYMOUS | MAP_NORESERVE, -1, 0);
  if (base == MAP_FAILED) { perror ("mmap reserve"); exit (2); }
  for (off = 0; off < len; off += CHUNK)
    if (mmap (base + off, CHUNK, PROT_READ | PROT_WRITE, MAP_SHARED | MAP_FIXED, fd, 0) == MAP_FAILED)
      { perror ("mmap alias"); exit (2); }
  return base;
}
static void *my_alloc (size_t n)
{
  if (n > biggest_request) biggest_request = n;
  return n >= (1UL << 30) ? big_alloc (n) : malloc (n);
}
static void *my_realloc (void *p, size_t o, size_t n)
{
  void *q = my_alloc (n);
  memcpy (q, p, o < n ? o : n);
  if (o < (1UL << 30)) free (p);
  return q;
}
static void my_free (void *p, size_t n) { if (n < (1UL << 30)) free (p); }

int main (void)
{
  mpz_t one, w;
  mp_bitcnt_t cnt = 64UL * ((1UL << 31) - 1);   /* 2^37 - 64 */
  int bad = 0;

  mp_set_memory_functions (my_alloc, my_realloc, my_free);
  mpz_init_set_ui (one, 1);
  mpz_init (w);

  mpz_mul_2exp (w, one, cnt);   /* exact result: 2^cnt > 0, 2^31 limbs */

  printf ("mpz_mul_2exp (w, 1, %lu) returned normally\n", (unsigned long) cnt);
  printf ("  largest block requested from the allocator: %zu bytes (= %zu limbs)\n",
          biggest_request, biggest_request / sizeof (mp_limb_t));
  printf ("  w->_mp_size  = %d   (correct limb count 2147483648 does not fit)\n", w->_mp_size);
  printf ("  w->_mp_alloc = %d\n", w->_mp_alloc);
  printf ("  mpz_sgn (w)  = %d   (must be +1: 1 * 2^cnt is positive)\n", mpz_sgn (w));

  if (mpz_sgn (w) != 1) { printf ("WRONG: positive * 2^k came out with sign %d\n", mpz_sgn (w)); bad = 1; }
  if (w->_mp_alloc < 0) { printf ("WRONG: negative _mp_alloc, the mpz_t is corrupt\n"); bad = 1; }
  if (mpz_cmp_ui (one, 1) != 0) { printf ("source modified\n"); bad = 1; }
  return bad;
}
