/* finding2: mpz_cmp / mpz_cmp_si return the wrong SIGN when the limb counts of the two
   operands differ by 2^31 or more: the mp_size_t (long) size difference is returned through
   an int and wraps to INT_MIN.

   build+run:
     gcc -O1 -I/tmp/hunt-C11 demo.c /tmp/hunt-C11/.libs/libmpir.a -o demo && ./demo
   exits non-zero on the unmodified tree.

   The operands are +-2^(64*(n-1)) with n = 2^30 (resp. 2^31-1) limbs.  They need 8 GiB
   (16 GiB) of ADDRESS SPACE each, but the demo installs an mmap based allocator through
   mp_set_memory_functions, so the pages are lazily zero-filled and only the top limb is
   ever touched: a few KiB of real memory are used.  The objects are nevertheless perfectly
   valid, normalised mpz values created through mpz_limbs_write/mpz_limbs_finish.

   Oracle: the signs of the operands (a > 0 > b), nothing else is needed. */
#define _GNU_SOURCE
#include <stdio.h>
#include <stdlib.h>
#include <string.h>
#include <limits.h>
#include <sys/mman.h>
#include "mpir.h"

static void *al (size_t n)
{
  void *p = mmap (0, n + 4096, PROT_READ | PROT_WRITE,
                  MAP_PRIVATE | MAP_ANONYMOUS | MAP_NORESERVE, -1, 0);
  if (p == MAP_FAILED) { perror ("mmap (needs ~32 GiB of address space)"); exit (77); }
  return (char *) p + 4096;
}
static void fr (void *p, size_t n) { munmap ((char *) p - 4096, n + 4096); }
static void *re (void *p, size_t o, size_t n)
{ void *q = al (n); memcpy (q, p, o < n ? (o < 4096 ? o : 4096) : (n < 4096 ? n : 4096)); fr (p, o); return q; }
/* (realloc is only ever called here on the fresh 1-limb block of mpz_init) */

static void big (mpz_t z, long n, int neg)      /* z = +-2^(64*(n-1)), exactly n limbs */
{
  mp_ptr p;
  mpz_init (z);
  p = mpz_limbs_write (z, n);                   /* fresh zero pages from mmap */
  p[n - 1] = 1;
  mpz_limbs_finish (z, neg ? -n : n);
}

int main (void)
{
  mpz_t a, b; int r, bad = 0; long v = -5;
  mp_set_memory_functions (al, re, fr);

  big (a, 1L << 30, 0);                         /* a = +2^(64*(2^30-1)) */
  big (b, 1L << 30, 1);                         /* b = -a                */
  printf ("mpz_sgn(a)=%d mpz_sgn(b)=%d, limbs: %d and %d\n", mpz_sgn (a), mpz_sgn (b), a->_mp_size, b->_mp_size);
  r = mpz_cmp (a, b); printf ("mpz_cmp(a,b) = %d   (a>0>b, want >0)\n", r); if (!(r > 0)) bad = 1;
  r = mpz_cmp (b, a); printf ("mpz_cmp(b,a) = %d   (want <0; correct only by accident)\n", r);
  mpz_clear (a); mpz_clear (b);

  big (a, INT_MAX, 0);                          /* a = +2^(64*(2^31-2)) */
  r = mpz_cmp_si (a, v);  printf ("mpz_cmp_si(a,-5) = %d   (a>0, want >0)\n", r); if (!(r > 0)) bad = 1;
  big (b, 1, 1);                                /* b = -1 */
  r = mpz_cmp (a, b);     printf ("mpz_cmp(a,-1) = %d   (want >0)\n", r); if (!(r > 0)) bad = 1;
  printf (bad ? "FAIL\n" : "ok\n");
  return bad;
}
