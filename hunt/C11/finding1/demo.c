/* finding1: mpf_get_d returns 0.0 / finite garbage / inf for floats whose exponent is far
   outside the double range, because (EXP - size) * GMP_NUMB_BITS overflows a long.

   build+run:
     gcc -O1 -I/tmp/hunt-C11 demo.c /tmp/hunt-C11/.libs/libmpir.a -lm -o demo && ./demo
   exits non-zero on the unmodified tree.

   Oracle: the operands are exact powers of two times a small integer, built with
   mpf_mul_2exp/mpf_div_2exp and cross-checked by looking at the mpf_t fields
   (value = {_mp_d,_mp_size} * 2^(64*(_mp_exp-_mp_size)) as documented in the Internals
   chapter).  A value >= 2^1024 must convert to +inf, a value < 2^-1075 must convert
   to 0.0 (manual, mpf_get_d: "For too big an infinity is returned when available.
   For too small 0.0 is normally returned"), and in every case the sign of
   mpf_cmp_d(f, x) fixes on which side of the double x the result may lie. */
#include <stdio.h>
#include <math.h>
#include <float.h>
#include "mpir.h"

static int bad = 0;

static void big (unsigned long m, unsigned long k)   /* f = m * 2^k, k multiple of 64, m < 2^64 */
{
  mpf_t f; double r;
  mpf_init2 (f, 128);
  mpf_set_ui (f, m);
  mpf_mul_2exp (f, f, k);
  /* independent check of the operand: one limb m, exponent k/64+1 limbs */
  if (!(f->_mp_size == 1 && f->_mp_d[0] == m && f->_mp_exp == (long) (k / 64) + 1))
    { printf ("operand not as expected\n"); bad = 1; }
  r = mpf_get_d (f);
  printf ("%lu * 2^%lu : mpf_get_d = %g   (mpf_cmp_d(f,DBL_MAX) = %d, so f > DBL_MAX)\n",
          m, k, r, mpf_cmp_d (f, DBL_MAX));
  if (!(isinf (r) && r > 0))
    { printf ("   WRONG: exact value is >= 2^1024, expected +inf\n"); bad = 1; }
  mpf_clear (f);
}

static void tiny (unsigned long m, unsigned long k)  /* f = m * 2^-k, k multiple of 64 */
{
  mpf_t f; double r;
  mpf_init2 (f, 128);
  mpf_set_ui (f, m);
  mpf_div_2exp (f, f, k);
  if (!(f->_mp_size == 1 && f->_mp_d[0] == m && f->_mp_exp == 1 - (long) (k / 64)))
    { printf ("operand not as expected\n"); bad = 1; }
  r = mpf_get_d (f);
  printf ("%lu * 2^-%lu : mpf_get_d = %g   (mpf_cmp_d(f,2^-1074) = %d, so 0 < f < 2^-1074)\n",
          m, k, r, mpf_cmp_d (f, 4.9406564584124654e-324));
  if (r != 0.0)
    { printf ("   WRONG: exact value is < 2^-1075, expected 0.0\n"); bad = 1; }
  mpf_clear (f);
}

int main (void)
{
  big (1, 1UL << 62);                    /* control: handled correctly (inf) */
  big (1, 1UL << 63);                    /* returns 0 */
  big (5, (1UL << 63) + 64);             /* returns 0 */
  big (1, 0xFFFFFFFFFFFFFFC0UL);         /* 2^(2^64-64): returns 2^-64 */
  big (3, 0xFFFFFFFFFFFFFFC0UL);         /* returns 3*2^-64 */
  tiny (3, 1UL << 62);                   /* control: handled correctly (0) */
  tiny (3, (1UL << 63) + 64);            /* returns inf */
  tiny (3, 0xFFFFFFFFFFFFFFC0UL);        /* 3*2^-(2^64-64): returns 3*2^64 */
  printf (bad ? "FAIL\n" : "ok\n");
  return bad;
}
