/* finding3 (low confidence, see NOTES.md): mpz_get_sx returns a value of the OPPOSITE sign
   for operands that do not fit an intmax_t, although the manual promises "the least
   significant part of op, with the same sign as op"; mpz_get_si on the very same operand
   (intmax_t == long here) does keep the sign.

   build+run:
     gcc -O1 -I/tmp/hunt-C11 demo.c /tmp/hunt-C11/.libs/libmpir.a -o demo && ./demo
   exits non-zero on the unmodified tree.  Oracle: sign of the operand, built limb by limb. */
#include <stdio.h>
#include <stdint.h>
#include "mpir.h"

static int bad = 0;
static void t (int neg, mp_limb_t hi, mp_limb_t lo)
{
  mpz_t z; mp_ptr p; intmax_t sx; mpir_si si;
  mpz_init (z);
  p = mpz_limbs_write (z, 2); p[0] = lo; p[1] = hi;
  mpz_limbs_finish (z, hi ? (neg ? -2 : 2) : (neg ? -1 : 1));
  sx = mpz_get_sx (z); si = mpz_get_si (z);
  printf ("op = %s(0x%lx * 2^64 + 0x%lx): mpz_get_sx = %jd, mpz_get_si = %ld\n", neg ? "-" : "+", hi, lo, sx, si);
  if (sx != 0 && (sx < 0) != neg) { printf ("   mpz_get_sx has the opposite sign of op\n"); bad = 1; }
  if (si != 0 && (si < 0) != neg) { printf ("   mpz_get_si has the opposite sign of op\n"); bad = 1; }
  mpz_clear (z);
}
int main (void)
{
  t (1, 1, 0xFFFFFFFFFFFFFFFFUL);      /* -(2^65-1)      -> get_sx = +1            */
  t (1, 0, 0xFFFFFFFFFFFFFFFFUL);      /* -(2^64-1)      -> get_sx = +1            */
  t (0, 0, 0x8000000000000000UL);      /* +2^63          -> get_sx = INTMAX_MIN    */
  t (0, 5, 0xC000000000000000UL);      /* positive       -> get_sx negative        */
  t (1, 5, 0xC000000000000001UL);      /* negative       -> get_sx positive        */
  printf (bad ? "FAIL\n" : "ok\n");
  return bad;
}
