/* Build/run:
     gcc -O1 -I/tmp/hunt3-C11 demo.c /tmp/hunt3-C11/.libs/libmpir.a -lm -o demo && ./demo

   mpf_get_d returns +-infinity for a non-zero float that is astronomically
   SMALL (exponent field within a few limbs of the most negative mp_exp_t).
   Only public functions are used to build the value; the exponent field never
   overflows (it ends at LONG_MIN+1, a representable mp_exp_t).

   Oracle: mpf_cmp_ui / mpf_cmp_si / mpf_cmp_d / mpf_sgn (share no code with
   mpf_get_d) and plain reasoning: the value was obtained from 1+2^-64 by
   dividing by powers of two only, so 0 < f < 1 and the truncated double is 0.0
   (doc: "For too small 0.0 is normally returned"); in no case can it be
   larger than 1.  */
#include <stdio.h>
#include <math.h>
#include <limits.h>
#include "mpir.h"

int main (void)
{
  mpf_t f, t;
  int i, bad = 0;
  double d;

  mpf_init2 (f, 128);
  mpf_init2 (t, 128);
  /* f = 1 + 2^-64 : two limbs, exponent 1 */
  mpf_set_ui (f, 1);
  mpf_set_ui (t, 1);
  mpf_div_2exp (t, t, 64);
  mpf_add (f, f, t);

  /* 64 divisions by 2^(2^63): each lowers the limb exponent by 2^57,
     1 - 64*2^57 = LONG_MIN + 1, no wrap-around anywhere */
  for (i = 0; i < 64; i++)
    {
      mpf_div_2exp (f, f, 1UL << 63);
      d = mpf_get_d (f);
      if (!(d == 0.0))
        {
          printf ("step %d: exponent field %ld, size %d: mpf_get_d = %g, expected 0\n",
                  i + 1, (long) f->_mp_exp, f->_mp_size, d);
          bad = 1;
        }
    }
  printf ("final exponent field = %ld (LONG_MIN = %ld), limbs = %d\n",
          (long) f->_mp_exp, LONG_MIN, f->_mp_size);
  printf ("mpf_sgn = %d, mpf_cmp_ui (f, 1) = %d, mpf_cmp_d (f, 1.0) = %d, mpf_cmp_d (f, 4.9e-324) = %d\n",
          mpf_sgn (f), mpf_cmp_ui (f, 1), mpf_cmp_d (f, 1.0), mpf_cmp_d (f, 4.9e-324));
  d = mpf_get_d (f);
  printf ("mpf_get_d (f)  = %g\n", d);
  mpf_neg (f, f);
  printf ("mpf_get_d (-f) = %g\n", mpf_get_d (f));

  /* the order is inconsistent: f < 1 according to every comparison, yet
     its double value is +inf > 1 */
  if (bad)
    {
      printf ("WRONG: a value 0 < f < 1 converts to an infinite double\n");
      return 1;
    }
  printf ("ok\n");
  return 0;
}
