/* mpz_remove raises SIGFPE (division by zero) for every negative factor f,
   although e.g. -3 is a perfectly good factor of -72 = (-3)^2 * (-8).

   Build and run (unmodified tree built in /tmp/hunt3-C16):
     gcc -O2 -I/tmp/hunt3-C16 demo.c /tmp/hunt3-C16/.libs/libmpir.a -o demo && ./demo
   Exits 1 and prints the failing cases on the unmodified tree, exits 0 when
   mpz_remove handles negative factors.

   Oracle: the expected (count, cofactor) pairs are written down by hand and
   re-verified below with plain C long arithmetic: src == f^count * cofactor
   and cofactor % f != 0.  */
#include <stdio.h>
#include <signal.h>
#include <setjmp.h>
#include "mpir.h"

static sigjmp_buf jb;
static void on_fpe (int sig) { (void) sig; siglongjmp (jb, 1); }

static const struct { long src, f, count, cof; } tc[] = {
  { -72,  -3, 2,  -8 },   /* -72 = (-3)^2 * -8 */
  {  72,  -3, 2,   8 },
  { -81,  -3, 4,  -1 },   /* (-3)^4 = 81 */
  {  27,  -3, 3,  -1 },   /* (-3)^3 = -27 */
  {  40,  -2, 3,  -5 },   /* (-2)^3 = -8 */
  {   7,  -5, 0,   7 },
  { 1000000, -10, 6, 1 },
};

int
main (void)
{
  mpz_t d, s, f;
  int bad = 0;
  unsigned i;

  signal (SIGFPE, on_fpe);
  mpz_init (d); mpz_init (s); mpz_init (f);

  for (i = 0; i < sizeof tc / sizeof tc[0]; i++)
    {
      long pw = 1, c;
      /* self-check of the table with C arithmetic */
      for (c = 0; c < tc[i].count; c++) pw *= tc[i].f;
      if (pw * tc[i].cof != tc[i].src || tc[i].cof % tc[i].f == 0)
        { printf ("table entry %u is wrong\n", i); return 2; }

      mpz_set_si (s, tc[i].src);
      mpz_set_si (f, tc[i].f);
      if (sigsetjmp (jb, 1) == 0)
        {
          unsigned long got = mpz_remove (d, s, f);
          if (got != (unsigned long) tc[i].count || mpz_cmp_si (d, tc[i].cof) != 0)
            {
              gmp_printf ("mpz_remove (%ld, %ld): count %lu, rop %Zd; want count %ld, rop %ld\n",
                          tc[i].src, tc[i].f, got, d, tc[i].count, tc[i].cof);
              bad++;
            }
        }
      else
        {
          printf ("mpz_remove (rop, %ld, %ld) raised SIGFPE; want count %ld, rop %ld\n",
                  tc[i].src, tc[i].f, tc[i].count, tc[i].cof);
          bad++;
        }
    }
  if (bad)
    printf ("FAIL: %d of %u negative-factor cases\n", bad,
            (unsigned) (sizeof tc / sizeof tc[0]));
  else
    printf ("ok\n");
  return bad != 0;
}
