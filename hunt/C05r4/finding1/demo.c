/* mpz_fib2_ui (x, x, n) and mpz_lucnum2_ui (x, x, n): the two outputs given as
   the same variable (which the manual does not exclude for these functions,
   unlike mpz_sqrtrem and the *_qr divisions).

   build/run:
     gcc -O1 -g -I/tmp/hunt4-C05 demo.c /tmp/hunt4-C05/.libs/libmpir.a -o demo && ./demo

   Oracle: Fibonacci / Lucas numbers by the defining recurrence with our own
   fixed-size schoolbook adder (no MPIR arithmetic).  The only results that can
   make sense for one variable receiving both outputs are F[n] or F[n-1]
   (L[n] or L[n-1]); the library delivers neither, and for larger n it runs
   with a limb count of 0 / -1 and faults.  The faulting call is made in a
   child process so that the demo can report it.  Exit status is non-zero on
   the unmodified tree. */
#include <stdio.h>
#include <stdlib.h>
#include <string.h>
#include <unistd.h>
#include <signal.h>
#include <sys/wait.h>
#include "mpir.h"

#define NL 64                   /* 64 limbs = 4096 bits, enough for n <= 5000 */
typedef struct { mp_limb_t d[NL]; } big;

static void big_add (big *r, const big *a, const big *b)
{
  int i; mp_limb_t c = 0;
  for (i = 0; i < NL; i++)
    {
      mp_limb_t s = a->d[i] + b->d[i], c1 = s < a->d[i];
      r->d[i] = s + c; c = c1 | (r->d[i] < s);
    }
}

/* a = S[n], b = S[n-1] for the sequence with S[0] = s0, S[1] = s1 (n >= 1) */
static void seq (big *a, big *b, unsigned long n, unsigned s0, unsigned s1)
{
  big t; unsigned long i;
  memset (a, 0, sizeof *a); memset (b, 0, sizeof *b);
  a->d[0] = s1; b->d[0] = s0;
  for (i = 1; i < n; i++) { big_add (&t, a, b); *b = *a; *a = t; }
}

static int equals (const mpz_t x, const big *v)
{
  mp_size_t i, n = NL;
  while (n > 0 && v->d[n - 1] == 0) n--;
  if (x->_mp_size != n) return 0;
  for (i = 0; i < n; i++) if (x->_mp_d[i] != v->d[i]) return 0;
  return 1;
}

static int wellformed (const mpz_t x)
{
  mp_size_t n = x->_mp_size < 0 ? -x->_mp_size : x->_mp_size;
  return x->_mp_alloc >= n && (n == 0 || x->_mp_d[n - 1] != 0);
}

static int check (int lucas, unsigned long n)
{
  big a, b; mpz_t x, y, z; int ok;
  seq (&a, &b, n, lucas ? 2 : 0, 1);

  /* control: distinct variables agree with the oracle */
  mpz_init (y); mpz_init (z);
  if (lucas) mpz_lucnum2_ui (y, z, n); else mpz_fib2_ui (y, z, n);
  if (!equals (y, &a) || !equals (z, &b))
    { printf ("oracle disagrees with the non-aliased call, n=%lu (demo bug?)\n", n); return 1; }

  mpz_init (x);
  if (lucas) mpz_lucnum2_ui (x, x, n); else mpz_fib2_ui (x, x, n);
  ok = wellformed (x) && (equals (x, &a) || equals (x, &b));
  if (!ok)
    gmp_printf ("WRONG: %s (x, x, %lu) left x = %Zd (size %d); expected %s[%lu] = %Zd or %s[%lu] = %Zd\n",
                lucas ? "mpz_lucnum2_ui" : "mpz_fib2_ui", n, x, x->_mp_size,
                lucas ? "L" : "F", n, y, lucas ? "L" : "F", n - 1, z);
  mpz_clear (x); mpz_clear (y); mpz_clear (z);
  return !ok;
}

int main (void)
{
  int bad = 0, st; pid_t pid;
  static const unsigned long ns[] = { 94, 100, 200, 300 };
  unsigned i;

  setvbuf (stdout, NULL, _IONBF, 0);
  for (i = 0; i < sizeof ns / sizeof ns[0]; i++) bad += check (0, ns[i]);
  for (i = 0; i < sizeof ns / sizeof ns[0]; i++) bad += check (1, ns[i]);

  /* larger n: mpn_fib2_ui continues with size 0, then -1, ... and faults */
  pid = fork ();
  if (pid == 0)
    {
      mpz_t x; mpz_init (x);
      mpz_fib2_ui (x, x, 1000);
      _exit (0);
    }
  waitpid (pid, &st, 0);
  if (WIFSIGNALED (st))
    { printf ("CRASH: mpz_fib2_ui (x, x, 1000) died with signal %d\n", WTERMSIG (st)); bad++; }

  printf ("%d problem(s)\n", bad);
  return bad != 0;
}
