/* gmp_fprintf / gmp_vfprintf do not return -1 when the write of a GMP
   conversion (%Zd, %Qd, %Fe ..., or trailing padding) fails.

   Build/run:
     gcc -O1 -g -I/tmp/hunt-C17 demo.c /tmp/hunt-C17/.libs/libmpir.a -o demo && ./demo
   Exits 1 and prints the offending return values on the unmodified tree. */
#define _GNU_SOURCE
#include <stdio.h>
#include <string.h>
#include <errno.h>
#include <sys/types.h>
#include "mpir.h"

/* A stream that accepts `limit` bytes and then fails every write (ENOSPC). */
struct wc { size_t limit, got; };
static ssize_t wc_write (void *c, const char *b, size_t n)
{
  struct wc *w = c; size_t room = w->limit - w->got;
  (void) b;
  if (n <= room) { w->got += n; return n; }
  if (room) { w->got += room; return room; }
  errno = ENOSPC; return 0;
}
static FILE *wopen (struct wc *w, size_t limit)
{
  cookie_io_functions_t f = { 0, wc_write, 0, 0 };
  FILE *fp;
  w->limit = limit; w->got = 0;
  fp = fopencookie (w, "w", f);
  setvbuf (fp, NULL, _IONBF, 0);
  return fp;
}

int main (void)
{
  int bad = 0, r, err;
  struct wc w;
  FILE *fp;
  mpz_t z; mpq_t q;
  size_t lim;

  mpz_init_set_str (z, "123456789012345678901234567890", 10);  /* 30 digits */
  mpq_init (q); mpq_set_str (q, "-12345678901234567890/7", 10);

  /* 1. /dev/full: every write fails with ENOSPC. */
  fp = fopen ("/dev/full", "w");
  if (fp != NULL)
    {
      setvbuf (fp, NULL, _IONBF, 0);
      r = gmp_fprintf (fp, "%Zd", z);
      err = ferror (fp);
      printf ("/dev/full  gmp_fprintf(\"%%Zd\")  returned %d, ferror=%d (libc fprintf for comparison: %d)\n",
              r, err != 0, fprintf (fp, "%s", "123456789012345678901234567890"));
      if (r != -1) bad++;
      fclose (fp);
    }

  /* 2. write failing after `lim` bytes, every position. */
  for (lim = 0; lim < 30; lim++)
    {
      fp = wopen (&w, lim);
      r = gmp_fprintf (fp, "%Zd", z);
      err = ferror (fp);
      fclose (fp);
      if (r != -1)
        {
          if (bad < 8)
            printf ("write fails after %2zu of 30 bytes: gmp_fprintf(\"%%Zd\") returned %d (ferror=%d), expected -1\n",
                    lim, r, err != 0);
          bad++;
        }
    }
  for (lim = 0; lim < 23; lim++)
    {
      fp = wopen (&w, lim);
      r = gmp_fprintf (fp, "%Qd", q);
      fclose (fp);
      if (r != -1)
        {
          if (bad < 40 && lim % 8 == 0)
            printf ("write fails after %2zu of 23 bytes: gmp_fprintf(\"%%Qd\") returned %d, expected -1\n", lim, r);
          bad++;
        }
    }
  /* trailing padding goes through gmp_fprintf_reps, same defect */
  fp = wopen (&w, 35);
  r = gmp_fprintf (fp, "%-50Zd", z);
  fclose (fp);
  if (r != -1)
    { printf ("write fails after 35 of 50 bytes: gmp_fprintf(\"%%-50Zd\") returned %d, expected -1\n", r); bad++; }

  mpz_clear (z); mpq_clear (q);
  printf ("%d failing writes were not reported as -1\n", bad);
  return bad != 0;
}
