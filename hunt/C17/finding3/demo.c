/* mpf_out_str with base -11..-36 (documented: upper-case digits) separates mantissa and
   exponent with 'e' instead of '@', because it tests the signed base (`base <= 10`).
   In those bases 'e'/'E' is a DIGIT (value 14) for mpf_inp_str / mpf_set_str, so the text
   cannot be read back: it is either parsed as a different number or rejected.
   n_digits is given explicitly here, so this is independent of finding 2.

   Build/run:
     gcc -O1 -g -I/tmp/hunt-C17 demo.c /tmp/hunt-C17/.libs/libmpir.a -o demo && ./demo
   Exits 1 on the unmodified tree. */
#define _GNU_SOURCE
#include <stdio.h>
#include <string.h>
#include "mpir.h"

int main (void)
{
  int bad = 0, base, k;
  mpf_t f, g;
  mpf_init2 (f, 256); mpf_init2 (g, 256);

  for (k = 0; k < 2; k++)
    {
      /* 0xABCDEF * 2^-4 = 0.ABCDEF@5 (hex);  0xABCDEF * 2^-44 = 0.ABCDEF@-5 */
      mpf_set_ui (f, 0xABCDEF); mpf_div_2exp (f, f, k == 0 ? 4 : 44);
      for (base = -16; base >= -32; base -= 16)
        {
          char neg[200] = {0}, pos[200] = {0};
          size_t rn, rp, rr;
          int rb;
          FILE *fp;
          fp = fmemopen (pos, sizeof pos - 1, "w"); rp = mpf_out_str (fp, -base, 20, f); fclose (fp);
          fp = fmemopen (neg, sizeof neg - 1, "w"); rn = mpf_out_str (fp, base, 20, f); fclose (fp);
          printf ("base %d writes [%s] (%zu bytes);  base %d writes [%s] (%zu bytes)\n",
                  base, neg, rn, -base, pos, rp);
          if (strchr (neg, '@') == NULL)
            { printf ("   no '@' exponent separator although |base| > 10\n"); bad++; }
          /* try to read it back with either sign of the base */
          for (rb = base; rb != 0; rb = (rb < 0 ? -rb : 0))
            {
              fp = fmemopen (neg, strlen (neg), "r");
              mpf_set_ui (g, 0);
              rr = mpf_inp_str (g, fp, rb);
              fclose (fp);
              if (rr != rn || mpf_cmp (f, g) != 0)
                {
                  gmp_printf ("   mpf_inp_str (base %d) returned %zu, value %.10Fe; original %.10Fe\n",
                              rb, rr, g, f);
                  bad++;
                }
            }
          /* the positive-base text does round-trip (exponent is decimal -> read with negative base) */
          fp = fmemopen (pos, strlen (pos), "r"); rr = mpf_inp_str (g, fp, base); fclose (fp);
          if (rr != rp || mpf_cmp (f, g) != 0)
            { printf ("   (unexpected: positive-base text does not round-trip either)\n"); bad++; }
        }
    }
  mpf_clear (f); mpf_clear (g);
  printf ("%d problems\n", bad);
  return bad != 0;
}
