/* mpf_out_str with a negative base (documented: -2..-36 = upper-case digits) and
   n_digits == 0 (documented: "the accurate maximum") indexes mp_bases[] with the
   NEGATIVE base (out of bounds, before the table).  Depending on what garbage lies
   there it either prints only 1-2 mantissa digits (value read back differs) or
   requests an absurd amount of memory and aborts.

   Build/run:
     gcc -O1 -g -I/tmp/hunt-C17 demo.c /tmp/hunt-C17/.libs/libmpir.a -o demo && ./demo
   Exits 1 on the unmodified tree.  Each base runs in a child process so that an
   abort in one base does not hide the others. */
#define _GNU_SOURCE
#include <stdio.h>
#include <stdlib.h>
#include <string.h>
#include <unistd.h>
#include <sys/wait.h>
#include "mpir.h"

static int one_base (int base)
{
  int bad = 0;
  char neg[600] = {0}, pos[600] = {0};
  size_t rn, rr;
  FILE *fp;
  mpf_t f, g;
  mpf_init2 (f, 256); mpf_init2 (g, 256);
  /* f = 0xABCDEF / 16 = 703710.9375, exactly representable, 24 significant bits */
  mpf_set_ui (f, 0xABCDEF); mpf_div_2exp (f, f, 4);

  fp = fmemopen (pos, sizeof pos - 1, "w"); mpf_out_str (fp, -base, 0, f); fclose (fp);
  fp = fmemopen (neg, sizeof neg - 1, "w"); rn = mpf_out_str (fp, base, 0, f); fclose (fp);

  /* bases up to 10 use digits only, so upper/lower case output must be identical */
  if (strcmp (neg, pos) != 0)
    {
      printf ("base %3d: wrote [%s] (%zu bytes); base %d writes [%.40s%s]\n",
              base, neg, rn, -base, pos, strlen (pos) > 40 ? "..." : "");
      bad = 1;
    }
  /* round trip (negative read base = exponent in decimal, as written) */
  fp = fmemopen (neg, strlen (neg), "r"); rr = mpf_inp_str (g, fp, base); fclose (fp);
  if (rr != rn || mpf_cmp (f, g) != 0)
    {
      gmp_printf ("          read back %.Ff, original %.Ff\n", g, f);
      bad = 1;
    }
  fflush (stdout);
  return bad;
}

int main (void)
{
  int bad = 0, base, st;
  for (base = -2; base >= -10; base--)   /* bases where the 'e' separator is unambiguous */
    {
      pid_t p;
      fflush (stdout);
      p = fork ();
      if (p == 0)
        _exit (one_base (base));
      waitpid (p, &st, 0);
      if (WIFSIGNALED (st))
        { printf ("base %3d: mpf_out_str (fp, %d, 0, f) killed by signal %d\n", base, base, WTERMSIG (st)); bad++; }
      else if (WEXITSTATUS (st) != 0)
        bad++;
    }
  printf ("%d of 9 negative bases misbehave\n", bad);
  return bad != 0;
}
