/* C14 finding 3: the kernels selected for "skylake" = Skylake WITHOUT AVX (cpuid.c:192-193: "Celeron/Pentium
   Skylake without AVX2" -> CPUIS(skylake) -> CPUVEC_SETUP_skylake in a fat build; configure path
   "x86_64/skylake x86_64/sandybridge x86_64" in a skylake-*-* build) are mpn/x86_64/skylake/add_n.as and sub_n.as,
   and both execute the AVX2 instruction  vpblendd ymm0,ymm0,ymm0,0  in their main loop (n >= 8).
   On such a CPU (Pentium G4400/Celeron G3900 class: no AVX, no AVX2) mpn_add_n/mpn_sub_n raise SIGILL, where the
   generic C (and every other x86_64 add_n) returns the sum.  The fat dispatcher therefore does not "dispatch only
   to kernels of the running CPU".

   This host has AVX2, so the trap itself cannot be shown here; the demo shows it statically on the unmodified
   tree: it assembles the two files exactly as the build does, disassembles them, and reports every AVX (VEX/ymm)
   instruction in the kernels that the non-AVX dispatch entry installs.  Exit 1 if any is found.

   Build/run:  gcc demo.c -o demo && ./demo            (needs yasm and objdump; tree configured in /tmp/hunt-C14) */
#include <stdio.h>
#include <stdlib.h>
#include <string.h>

int main (void)
{
  const char *files[] = { "add_n", "sub_n" };
  char cmd[1024], line[512];
  int i, found = 0;
  /* 1. the dispatcher really sends the non-AVX CPU to these kernels */
  if (system ("grep -n 'else { CPUIS(skylake);break; }' /tmp/hunt-C14/cpuid.c") != 0
      || system ("grep -n 'define CPUSETUP_skylake  ' /tmp/hunt-C14/mpn/x86_64/fat/fat.c") != 0)
    { printf ("dispatch lines not found (tree changed?)\n"); return 2; }
  for (i = 0; i < 2; i++)
    {
      FILE *p;
      snprintf (cmd, sizeof cmd,
        "cd /tmp/hunt-C14/mpn && yasm -I .. -f elf64 x86_64/skylake/%s.as -o /tmp/c14f3_%s.o && objdump -d /tmp/c14f3_%s.o",
        files[i], files[i], files[i]);
      p = popen (cmd, "r");
      if (!p) { perror ("popen"); return 2; }
      while (fgets (line, sizeof line, p))
        if (strstr (line, "ymm") || strstr (line, "\tv"))
          { printf ("mpn/x86_64/skylake/%s.as: AVX instruction in non-AVX kernel: %s", files[i], line); found++; }
      pclose (p);
    }
  if (found) { printf ("FAIL: %d AVX2 instruction(s) in kernels dispatched to Skylake CPUs without AVX\n", found); return 1; }
  printf ("OK\n");
  return 0;
}
