/* C14 finding 1: --enable-assert changes the behaviour of mpz_divexact / mpz_gcd on valid input:
   mpn_divexact evaluates count_trailing_zeros(np[0]) with np[0] == 0, which is an ASSERT failure
   (abort) in an --enable-assert build, while the default build returns the correct quotient.

   Build/run (unmodified sources, assertion build option named in the property):
     cp -a /tmp/hunt-C14 /tmp/c14-assert && cd /tmp/c14-assert && make distclean >/dev/null 2>&1; \
       ./configure --enable-assert && make -j8
     gcc -O1 -I/tmp/c14-assert demo.c /tmp/c14-assert/.libs/libmpir.a -o demo && ./demo
   (an already built copy: /tmp/hunt-C14-out/builds/assert ; there:
     gcc -O1 -I/tmp/hunt-C14-out/builds/assert demo.c /tmp/hunt-C14-out/builds/assert/.libs/libmpir.a -o demo && ./demo )
   Control: linked against the default build /tmp/hunt-C14/.libs/libmpir.a the program prints OK and exits 0.

   Oracle: the quotient is known by construction (N = D * Q, built with shifts/adds of a
   sparse D so no MPIR division is involved); exit 1 if the call aborts or gives a wrong value. */
#include <stdio.h>
#include <stdlib.h>
#include <signal.h>
#include <unistd.h>
#include "mpir.h"

static void on_abort(int sig)
{
  static const char m[] = "FAIL: mpz_divexact aborted (assertion) on a valid exact division\n";
  (void) sig; write(1, m, sizeof m - 1); _exit(1);
}

int main(void)
{
  mpz_t d, q, n, r;
  long dn = 1700;              /* limbs of D; must be >= INV_DIV_QR_THRESHOLD (1589 in mpn/x86_64/gmp-mparam.h) */
  signal(SIGABRT, on_abort);
  mpz_inits(d, q, n, r, NULL);
  /* D = 2^(64*(dn-1)) + 2^64 + 1  (odd, dn limbs, top limb 1) */
  mpz_set_ui(d, 1); mpz_mul_2exp(d, d, 64*(dn-1)); mpz_setbit(d, 64); mpz_setbit(d, 0);
  /* Q = 2^64 * 0x123456789  -> the low limb of N = D*Q is zero while the low limb of D is not */
  mpz_set_ui(q, 0x123456789UL); mpz_mul_2exp(q, q, 64);
  /* N = D*Q computed as Q*2^(64(dn-1)) + Q*2^64 + Q */
  mpz_mul_2exp(n, q, 64*(dn-1)); mpz_mul_2exp(r, q, 64); mpz_add(n, n, r); mpz_add(n, n, q);
  if (mpz_getlimbn(n, 0) != 0 || mpz_getlimbn(d, 0) == 0) { printf("setup wrong\n"); return 2; }
  mpz_divexact(r, n, d);       /* valid: D divides N exactly */
  if (mpz_cmp(r, q) != 0) { gmp_printf("FAIL: wrong quotient %Zx want %Zx\n", r, q); return 1; }
  printf("OK: mpz_divexact returned the exact quotient\n");
  return 0;
}
