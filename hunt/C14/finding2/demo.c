/* C14 finding 2: the shift kernels of most CPU directories (k8, k8/k10, bobcat, atom, sandybridge,
   haswell/avx, netburst rshift; also lshiftc and rsh_divrem_hensel_qr_1_{1,2}) take the
   `unsigned int cnt` argument from the full 64-bit register RCX (movq mm0,rcx / vmovq xmm,rcx).
   The SysV x86-64 ABI leaves bits 32..63 of a register carrying a 32-bit argument undefined, and
   gcc/clang really do pass them unmodified when the argument is a truncation of a 64-bit value.
   MMX/SSE/AVX shifts give 0 for counts > 63, so mpn_lshift/mpn_rshift return all-zero limbs,
   where mpn/generic/lshift.c (and the plain x86_64 build) gives the correct result.

   Build/run (unmodified sources, built for one of the shipped CPU families):
     cp -a /tmp/hunt-C14 /tmp/c14-k8 && cd /tmp/c14-k8 && make distclean >/dev/null 2>&1; \
       ./configure --build=k8-unknown-linux-gnu && make -j8      (or sandybridge-, haswellavx-, atom-, bobcat-, k10-)
     gcc -O2 -I/tmp/c14-k8 demo.c /tmp/c14-k8/.libs/libmpir.a -o demo && ./demo
   (already built copy: /tmp/hunt-C14-out/cpub/k8)
   Control: with the default build (/tmp/hunt-C14/.libs/libmpir.a, generic C lshift) it prints OK.

   Oracle: plain C shift loop. */
#include <stdio.h>
#include <stdint.h>
#include "mpir.h"

/* a caller that keeps a shift count in the low half of a 64-bit word: perfectly valid C, the
   conversion to unsigned int discards the high half */
__attribute__((noinline,noclone)) mp_limb_t
shl_packed (mp_limb_t *r, const mp_limb_t *s, mp_size_t n, uint64_t packed)
{
  return mpn_lshift (r, s, n, (unsigned int) packed);
}
__attribute__((noinline,noclone)) mp_limb_t
shr_packed (mp_limb_t *r, const mp_limb_t *s, mp_size_t n, uint64_t packed)
{
  return mpn_rshift (r, s, n, (unsigned int) packed);
}

int main (void)
{
  mp_limb_t s[5] = { 0x0123456789abcdefUL, 0xfedcba9876543210UL, 0x1111111122222222UL, 0x8000000000000001UL, 0x7fffffffffffffffUL };
  mp_limb_t r[5], w[5], ret, wret;
  volatile uint64_t packed = ((uint64_t) 0xABCD << 32) | 13;   /* count 13, tag in the high half */
  int i, bad = 0;

  wret = s[4] >> (64-13);
  for (i = 4; i > 0; i--) w[i] = (s[i] << 13) | (s[i-1] >> (64-13));
  w[0] = s[0] << 13;
  ret = shl_packed (r, s, 5, packed);
  for (i = 0; i < 5; i++) if (r[i] != w[i]) { printf ("mpn_lshift limb %d: got %016lx want %016lx\n", i, r[i], w[i]); bad = 1; }
  if (ret != wret) { printf ("mpn_lshift return: got %lx want %lx\n", ret, wret); bad = 1; }

  wret = s[0] << (64-13);
  for (i = 0; i < 4; i++) w[i] = (s[i] >> 13) | (s[i+1] << (64-13));
  w[4] = s[4] >> 13;
  ret = shr_packed (r, s, 5, packed);
  for (i = 0; i < 5; i++) if (r[i] != w[i]) { printf ("mpn_rshift limb %d: got %016lx want %016lx\n", i, r[i], w[i]); bad = 1; }
  if (ret != wret) { printf ("mpn_rshift return: got %lx want %lx\n", ret, wret); bad = 1; }

  printf (bad ? "FAIL: shift by (unsigned int) 13 wrong\n" : "OK\n");
  return bad;
}
