/* mpn_neg / mpn_neg_n (inline in mpir.h) negates a limb in SIGNED arithmetic:
   undefined behaviour (signed overflow) whenever the lowest non-zero limb of
   the operand is 0x8000000000000000.  With overflow trapping switched on in the
   application (-ftrapv, or -fsanitize=signed-integer-overflow) a perfectly
   valid call kills the program.

   Build and run (either one; both fail on the unmodified tree):

     clang -O1 -ftrapv -I/tmp/hunt4-C03 demo.c /tmp/hunt4-C03/.libs/libmpir.a -o demo && ./demo
     gcc -O1 -fsanitize=signed-integer-overflow -fno-sanitize-recover=all \
         -I/tmp/hunt4-C03 demo.c /tmp/hunt4-C03/.libs/libmpir.a -o demo && ./demo

   (With plain "gcc -O2" the negation happens to wrap and the demo passes: the
   defect is the undefined behaviour in the public header, which the two
   builds above make observable.)

   Exit status: 0 = fine, 1 = mpn_neg crashed or returned a wrong result.  */
#include <stdio.h>
#include <stdlib.h>
#include <string.h>
#include <unistd.h>
#include <sys/wait.h>
#include "mpir.h"

#define N 3

/* independent reference: 0 - {s,n} by schoolbook subtraction, unsigned only */
static mp_limb_t ref_neg (mp_limb_t *r, const mp_limb_t *s, long n)
{
  mp_limb_t bw = 0; long i;
  for (i = 0; i < n; i++)
    {
      unsigned __int128 t = (unsigned __int128) 0 - s[i] - bw;
      r[i] = (mp_limb_t) t;
      bw = (mp_limb_t) (t >> 64) & 1;
    }
  return bw;
}

static int run_case (const mp_limb_t *src)
{
  volatile mp_limb_t vs[N];     /* volatile: no constant folding of the call */
  mp_limb_t s[N], r[N], e[N], c, ec;
  int i, st;
  pid_t pid;

  for (i = 0; i < N; i++) vs[i] = src[i];
  for (i = 0; i < N; i++) s[i] = vs[i];
  ec = ref_neg (e, s, N);

  fflush (stdout);
  pid = fork ();
  if (pid == 0)
    {
      c = mpn_neg (r, s, N);
      if (c != ec || memcmp (r, e, sizeof r) != 0)
        {
          printf ("  wrong result: carry %lu (want %lu), limbs %016lx %016lx %016lx\n",
                  (unsigned long) c, (unsigned long) ec, r[2], r[1], r[0]);
          _exit (2);
        }
      _exit (0);
    }
  waitpid (pid, &st, 0);
  printf ("mpn_neg ({%016lx, %016lx, %016lx}, 3): ", s[0], s[1], s[2]);
  if (WIFSIGNALED (st))
    {
      printf ("KILLED by signal %d (signed overflow trapped in the mpir.h inline)\n", WTERMSIG (st));
      return 1;
    }
  if (WEXITSTATUS (st) != 0)
    {
      printf ("FAILED, child exit status %d (see message above)\n", WEXITSTATUS (st));
      return 1;
    }
  printf ("ok\n");
  return 0;
}

int main (void)
{
  static const mp_limb_t cases[][N] = {
    { 5, 6, 7 },                                /* control: fine */
    { (mp_limb_t) 1 << 63, 5, 7 },              /* lowest limb 2^63 */
    { 0, (mp_limb_t) 1 << 63, 7 },              /* lowest NON-ZERO limb 2^63 */
    { 0, 0, (mp_limb_t) 1 << 63 },              /* the value 2^191 */
  };
  int bad = 0; unsigned k;
  for (k = 0; k < sizeof cases / sizeof cases[0]; k++)
    bad |= run_case (cases[k]);
  if (bad)
    printf ("FAIL: mpn_neg does not compute 0 - {sp,n} for every limb content under this (valid) compilation mode\n");
  else
    printf ("PASS\n");
  return bad;
}
