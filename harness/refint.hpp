// refint: a deliberately plain arbitrary-precision integer used as the oracle.
// Shares no code with MPIR.  Cross-checked against CPython ints at setup time
// (selftest/refint_vs_python.py).  Sign + magnitude, 64-bit limbs, little endian.
#pragma once
#include <cstdint>
#include <vector>
#include <string>
#include <algorithm>
#include <cassert>
#include <stdexcept>

namespace ref {
typedef unsigned __int128 u128;
typedef std::vector<uint64_t> Mag;

static inline void norm(Mag& a) { while (!a.empty() && a.back() == 0) a.pop_back(); }
static inline int mcmp(const Mag& a, const Mag& b) {
  if (a.size() != b.size()) return a.size() < b.size() ? -1 : 1;
  for (size_t i = a.size(); i-- > 0;) if (a[i] != b[i]) return a[i] < b[i] ? -1 : 1;
  return 0;
}
static inline Mag madd(const Mag& a, const Mag& b) {
  const Mag& x = a.size() >= b.size() ? a : b; const Mag& y = a.size() >= b.size() ? b : a;
  Mag r(x.size() + 1); unsigned c = 0;
  for (size_t i = 0; i < x.size(); i++) {
    u128 s = (u128)x[i] + (i < y.size() ? y[i] : 0) + c; r[i] = (uint64_t)s; c = (unsigned)(s >> 64);
  }
  r[x.size()] = c; norm(r); return r;
}
// a - b, requires a >= b
static inline Mag msub(const Mag& a, const Mag& b) {
  Mag r(a.size()); unsigned bw = 0;
  for (size_t i = 0; i < a.size(); i++) {
    uint64_t bi = i < b.size() ? b[i] : 0;
    u128 d = (u128)a[i] - bi - bw; r[i] = (uint64_t)d; bw = (unsigned)((d >> 64) & 1);
  }
  assert(bw == 0); norm(r); return r;
}
static inline void mul_school(const uint64_t* a, size_t an, const uint64_t* b, size_t bn, uint64_t* r) {
  std::fill(r, r + an + bn, 0);
  for (size_t i = 0; i < an; i++) {
    uint64_t c = 0, ai = a[i]; if (!ai) continue;
    for (size_t j = 0; j < bn; j++) { u128 t = (u128)ai * b[j] + r[i + j] + c; r[i + j] = (uint64_t)t; c = (uint64_t)(t >> 64); }
    r[i + bn] = c;
  }
}
static const size_t KARA = 40;
static inline Mag mmul(const Mag& a, const Mag& b);
// equal-length Karatsuba on raw arrays (n limbs each) -> 2n limbs
static inline void kara(const uint64_t* a, const uint64_t* b, size_t n, uint64_t* r) {
  if (n < KARA) { mul_school(a, n, b, n, r); return; }
  size_t h = n / 2, g = n - h;            // low h limbs, high g limbs (g >= h)
  Mag a0(a, a + h), a1(a + h, a + n), b0(b, b + h), b1(b + h, b + n);
  norm(a0); norm(a1); norm(b0); norm(b1);
  Mag z0 = mmul(a0, b0), z2 = mmul(a1, b1);
  Mag sa = madd(a0, a1), sb = madd(b0, b1);
  Mag z1 = mmul(sa, sb); z1 = msub(z1, z0); z1 = msub(z1, z2);
  std::fill(r, r + 2 * n, 0);
  auto addat = [&](const Mag& z, size_t off) {
    unsigned c = 0; size_t i = 0;
    for (; i < z.size(); i++) { u128 s = (u128)r[off + i] + z[i] + c; r[off + i] = (uint64_t)s; c = (unsigned)(s >> 64); }
    for (; c; i++) { assert(off + i < 2 * n); u128 s = (u128)r[off + i] + c; r[off + i] = (uint64_t)s; c = (unsigned)(s >> 64); }
  };
  addat(z0, 0); addat(z1, h); addat(z2, 2 * h); (void)g;
}
static inline Mag mmul(const Mag& a, const Mag& b) {
  if (a.empty() || b.empty()) return Mag();
  const Mag& x = a.size() >= b.size() ? a : b; const Mag& y = a.size() >= b.size() ? b : a;
  Mag r(x.size() + y.size());
  if (y.size() < KARA) { mul_school(x.data(), x.size(), y.data(), y.size(), r.data()); norm(r); return r; }
  if (x.size() == y.size()) { kara(x.data(), y.data(), x.size(), r.data()); norm(r); return r; }
  // unbalanced: chop x into pieces of y.size()
  size_t n = y.size(); std::fill(r.begin(), r.end(), 0);
  std::vector<uint64_t> t(2 * n);
  for (size_t off = 0; off < x.size(); off += n) {
    size_t len = std::min(n, x.size() - off);
    Mag piece(x.begin() + off, x.begin() + off + len); norm(piece);
    Mag p = mmul(piece, y);
    unsigned c = 0; size_t i = 0;
    for (; i < p.size(); i++) { u128 s = (u128)r[off + i] + p[i] + c; r[off + i] = (uint64_t)s; c = (unsigned)(s >> 64); }
    for (; c; i++) { u128 s = (u128)r[off + i] + c; r[off + i] = (uint64_t)s; c = (unsigned)(s >> 64); }
  }
  norm(r); return r;
}
static inline Mag mshl(const Mag& a, uint64_t bits) {
  if (a.empty()) return a;
  size_t w = bits / 64; unsigned s = bits % 64;
  Mag r(a.size() + w + 1, 0);
  for (size_t i = 0; i < a.size(); i++) {
    r[i + w] |= s ? (a[i] << s) : a[i];
    if (s) r[i + w + 1] |= a[i] >> (64 - s);
  }
  norm(r); return r;
}
static inline Mag mshr(const Mag& a, uint64_t bits) {
  size_t w = bits / 64; unsigned s = bits % 64;
  if (w >= a.size()) return Mag();
  Mag r(a.size() - w);
  for (size_t i = 0; i < r.size(); i++) {
    uint64_t lo = a[i + w] >> s, hi = (s && i + w + 1 < a.size()) ? (a[i + w + 1] << (64 - s)) : 0;
    r[i] = lo | hi;
  }
  norm(r); return r;
}
static inline uint64_t mbits(const Mag& a) { if (a.empty()) return 0; return 64 * (uint64_t)(a.size() - 1) + (64 - __builtin_clzll(a.back())); }
static inline bool mtest(const Mag& a, uint64_t bit) { size_t w = bit / 64; return w < a.size() && ((a[w] >> (bit % 64)) & 1); }

// Knuth algorithm D.  q = floor(a/b), r = a - q*b.  b non-zero.
static inline void mdivrem(const Mag& a, const Mag& b, Mag& q, Mag& r) {
  if (b.empty()) throw std::domain_error("refint: division by zero");
  if (mcmp(a, b) < 0) { q.clear(); r = a; return; }
  if (b.size() == 1) {
    uint64_t d = b[0], rem = 0; q.assign(a.size(), 0);
    for (size_t i = a.size(); i-- > 0;) { u128 cur = ((u128)rem << 64) | a[i]; q[i] = (uint64_t)(cur / d); rem = (uint64_t)(cur % d); }
    norm(q); r.clear(); if (rem) r.push_back(rem); return;
  }
  unsigned s = __builtin_clzll(b.back());
  Mag v = mshl(b, s), u = mshl(a, s);
  size_t n = v.size();
  u.resize(a.size() + 1, 0);            // exactly a.size()+1 limbs, top may be zero
  size_t m = u.size() - n;
  q.assign(m, 0);
  for (size_t j = m; j-- > 0;) {
    u128 num = ((u128)u[j + n] << 64) | u[j + n - 1];
    u128 qhat = num / v[n - 1], rhat = num % v[n - 1];
    while (qhat >> 64 || (u128)(uint64_t)qhat * v[n - 2] > ((rhat << 64) | u[j + n - 2])) {
      qhat--; rhat += v[n - 1]; if (rhat >> 64) break;
    }
    // multiply and subtract
    uint64_t borrow = 0, carry = 0;
    for (size_t i = 0; i < n; i++) {
      u128 p = (u128)(uint64_t)qhat * v[i] + carry; carry = (uint64_t)(p >> 64);
      uint64_t pl = (uint64_t)p;
      u128 d = (u128)u[i + j] - pl - borrow; u[i + j] = (uint64_t)d; borrow = (uint64_t)((d >> 64) & 1);
    }
    u128 d = (u128)u[j + n] - carry - borrow; u[j + n] = (uint64_t)d; borrow = (uint64_t)((d >> 64) & 1);
    uint64_t qd = (uint64_t)qhat;
    if (borrow) {
      qd--; unsigned c = 0;
      for (size_t i = 0; i < n; i++) { u128 t = (u128)u[i + j] + v[i] + c; u[i + j] = (uint64_t)t; c = (unsigned)(t >> 64); }
      u[j + n] += c;
    }
    q[j] = qd;
  }
  norm(q); u.resize(n); norm(u); r = mshr(u, s);
}

struct Int {
  bool neg = false; Mag m;
  Int() {}
  Int(long long v) { if (v < 0) { neg = true; m.push_back((uint64_t)0 - (uint64_t)v); } else if (v) m.push_back((uint64_t)v); }
  static Int from_u64(uint64_t v) { Int r; if (v) r.m.push_back(v); return r; }
  static Int from_limbs(const uint64_t* p, size_t n, bool negative = false) { Int r; r.m.assign(p, p + n); norm(r.m); r.neg = negative && !r.m.empty(); return r; }
  bool is_zero() const { return m.empty(); }
  int sgn() const { return m.empty() ? 0 : (neg ? -1 : 1); }
  size_t size() const { return m.size(); }
  uint64_t bits() const { return mbits(m); }
  Int abs() const { Int r = *this; r.neg = false; return r; }
  Int operator-() const { Int r = *this; if (!r.m.empty()) r.neg = !r.neg; return r; }
  bool is_odd() const { return !m.empty() && (m[0] & 1); }
  uint64_t low() const { return m.empty() ? 0 : m[0]; }
  bool fits_u64() const { return !neg && m.size() <= 1; }
  void fix() { norm(m); if (m.empty()) neg = false; }
};
static inline int cmp(const Int& a, const Int& b) {
  if (a.neg != b.neg) return a.neg ? -1 : 1;
  int c = mcmp(a.m, b.m); return a.neg ? -c : c;
}
static inline int cmpabs(const Int& a, const Int& b) { return mcmp(a.m, b.m); }
static inline bool operator==(const Int& a, const Int& b) { return cmp(a, b) == 0; }
static inline bool operator!=(const Int& a, const Int& b) { return cmp(a, b) != 0; }
static inline bool operator<(const Int& a, const Int& b) { return cmp(a, b) < 0; }
static inline bool operator<=(const Int& a, const Int& b) { return cmp(a, b) <= 0; }
static inline bool operator>(const Int& a, const Int& b) { return cmp(a, b) > 0; }
static inline bool operator>=(const Int& a, const Int& b) { return cmp(a, b) >= 0; }
static inline Int operator+(const Int& a, const Int& b) {
  Int r;
  if (a.neg == b.neg) { r.m = madd(a.m, b.m); r.neg = a.neg; }
  else { int c = mcmp(a.m, b.m); if (c == 0) return r; if (c > 0) { r.m = msub(a.m, b.m); r.neg = a.neg; } else { r.m = msub(b.m, a.m); r.neg = b.neg; } }
  r.fix(); return r;
}
static inline Int operator-(const Int& a, const Int& b) { return a + (-b); }
static inline Int operator*(const Int& a, const Int& b) { Int r; r.m = mmul(a.m, b.m); r.neg = (a.neg != b.neg); r.fix(); return r; }
// truncating division
static inline void tdivrem(const Int& a, const Int& b, Int& q, Int& r) {
  Mag qq, rr; mdivrem(a.m, b.m, qq, rr); q.m = qq; r.m = rr; q.neg = (a.neg != b.neg); r.neg = a.neg; q.fix(); r.fix();
}
static inline void fdivrem(const Int& a, const Int& b, Int& q, Int& r) {
  tdivrem(a, b, q, r); if (!r.is_zero() && (r.neg != b.neg)) { q = q - Int(1); r = r + b; }
}
static inline void cdivrem(const Int& a, const Int& b, Int& q, Int& r) {
  tdivrem(a, b, q, r); if (!r.is_zero() && (r.neg == b.neg)) { q = q + Int(1); r = r - b; }
}
static inline Int tdiv(const Int& a, const Int& b) { Int q, r; tdivrem(a, b, q, r); return q; }
static inline Int tmod(const Int& a, const Int& b) { Int q, r; tdivrem(a, b, q, r); return r; }
static inline Int fmod_(const Int& a, const Int& b) { Int q, r; fdivrem(a, b, q, r); return r; }   // sign of b
static inline Int emod(const Int& a, const Int& b) { Int q, r; fdivrem(a, b.abs(), q, r); return r; }  // in [0,|b|)
static inline Int shl(const Int& a, uint64_t k) { Int r; r.m = mshl(a.m, k); r.neg = a.neg; r.fix(); return r; }
// magnitude shift (truncation toward zero)
static inline Int tshr(const Int& a, uint64_t k) { Int r; r.m = mshr(a.m, k); r.neg = a.neg; r.fix(); return r; }
// arithmetic shift (floor)
static inline Int fshr(const Int& a, uint64_t k) {
  Int r = tshr(a, k);
  if (a.neg) { // any discarded bit set -> subtract one
    bool lost = false; size_t w = k / 64; unsigned s = k % 64;
    for (size_t i = 0; i < std::min(w, a.m.size()); i++) if (a.m[i]) lost = true;
    if (!lost && s && w < a.m.size() && (a.m[w] & ((1ull << s) - 1))) lost = true;
    if (lost) r = r - Int(1);
  }
  return r;
}
static inline Int pow2(uint64_t k) { return shl(Int(1), k); }
static inline Int pow(const Int& b, uint64_t e) {
  Int r(1), x = b; while (e) { if (e & 1) r = r * x; e >>= 1; if (e) x = x * x; } return r;
}
// b^e mod |m| in [0,|m|), e >= 0, m != 0
static inline Int powmod(const Int& b, const Int& e, const Int& m) {
  Int mm = m.abs(); Int r = emod(Int(1), mm); Int x = emod(b, mm);
  uint64_t nb = e.bits();
  for (uint64_t i = 0; i < nb; i++) { if (mtest(e.m, i)) r = emod(r * x, mm); if (i + 1 < nb) x = emod(x * x, mm); }
  return r;
}
static inline Int gcd(Int a, Int b) { a.neg = false; b.neg = false; while (!b.is_zero()) { Int t = tmod(a, b); a = b; b = t; } return a; }
// extended Euclid on magnitudes with signs restored: a*s + b*t = g
static inline Int gcdext(const Int& a, const Int& b, Int& s, Int& t) {
  Int r0 = a, r1 = b, s0(1), s1(0), t0(0), t1(1);
  while (!r1.is_zero()) { Int q, r; tdivrem(r0, r1, q, r); Int s2 = s0 - q * s1, t2 = t0 - q * t1; r0 = r1; r1 = r; s0 = s1; s1 = s2; t0 = t1; t1 = t2; }
  if (r0.neg) { r0 = -r0; s0 = -s0; t0 = -t0; }
  s = s0; t = t0; return r0;
}
static inline Int isqrt(const Int& u) {   // u >= 0
  if (u.is_zero()) return Int(0);
  Int x = pow2((u.bits() + 1) / 2);     // >= sqrt(u)
  for (;;) { Int y = tshr(x + tdiv(u, x), 1); if (y >= x) break; x = y; }
  return x;
}
// floor(|u|^(1/n)) for u >= 0, n >= 1
static inline Int iroot(const Int& u, uint64_t n) {
  if (u.is_zero() || n == 1) return u;
  uint64_t b = u.bits(); if (n >= b) return Int(1);
  Int x = pow2(b / n + 1);  // > root
  Int nn = Int::from_u64(n), n1 = Int::from_u64(n - 1);
  for (;;) { Int y = tdiv(n1 * x + tdiv(u, pow(x, n - 1)), nn); if (y >= x) break; x = y; }
  return x;
}
// Kronecker symbol (a/b), textbook definition via Jacobi recursion
static inline int kronecker(Int a, Int b) {
  if (b.is_zero()) return (a.m.size() == 1 && a.m[0] == 1) ? 1 : 0;
  if (!a.is_odd() && !b.is_odd()) return 0;
  int res = 1;
  // remove twos from b
  uint64_t v = 0; while (!mtest(b.m, v)) v++;
  if (v) { b = tshr(b, v); if (v & 1) { uint64_t a8 = a.low() & 7; if (a.neg) a8 = (8 - a8) & 7; if (a8 == 3 || a8 == 5) res = -res; } }
  if (b.neg) { b = -b; if (a.neg) res = -res; }
  // now b odd positive: Jacobi (a/b)
  a = emod(a, b);
  while (!a.is_zero()) {
    uint64_t t = 0; while (!mtest(a.m, t)) t++;
    if (t) { a = tshr(a, t); uint64_t b8 = b.low() & 7; if ((t & 1) && (b8 == 3 || b8 == 5)) res = -res; }
    if ((a.low() & 3) == 3 && (b.low() & 3) == 3) res = -res;
    Int tmp = a; a = b; b = tmp; a = emod(a, b);
  }
  return (b.m.size() == 1 && b.m[0] == 1) ? res : 0;
}
// two's complement limb i of the infinitely sign-extended value
static inline uint64_t tc_limb(const Int& a, size_t i) {
  if (!a.neg) return i < a.m.size() ? a.m[i] : 0;
  // -(m) = ~(m-1)
  uint64_t borrow = 1; uint64_t cur = 0;
  for (size_t k = 0; k <= i; k++) { uint64_t x = k < a.m.size() ? a.m[k] : 0; cur = x - borrow; borrow = (x < borrow) ? 1 : 0; }
  return ~cur;
}
static inline Int from_tc(const std::vector<uint64_t>& limbs, bool negative) {
  // limbs = low limbs of the two's complement; sign extension = negative
  Int r;
  if (!negative) { r.m = limbs; r.fix(); return r; }
  Mag t(limbs.size()); for (size_t i = 0; i < t.size(); i++) t[i] = ~limbs[i];
  norm(t); Int one(1); Int mag; mag.m = t; r = mag + one; r.neg = true; r.fix(); return r;
}
template <class F> static inline Int bitop(const Int& a, const Int& b, F f) {
  size_t n = std::max(a.m.size(), b.m.size()) + 1; std::vector<uint64_t> l(n);
  for (size_t i = 0; i < n; i++) l[i] = f(tc_limb(a, i), tc_limb(b, i));
  bool neg = f(a.neg ? ~0ull : 0ull, b.neg ? ~0ull : 0ull) != 0;
  return from_tc(l, neg);
}
static inline bool tc_bit(const Int& a, uint64_t bit) { size_t w = bit / 64; if (w > a.m.size()) return a.neg; return (tc_limb(a, w) >> (bit % 64)) & 1; }

static inline std::string to_string(const Int& a, int base, bool upper = false) {
  // bases 2..62; for base <= 36 lower (or upper) letters, for > 36: 0-9 A-Z a-z
  const char* dig = base > 36 ? "0123456789ABCDEFGHIJKLMNOPQRSTUVWXYZabcdefghijklmnopqrstuvwxyz"
                  : upper ? "0123456789ABCDEFGHIJKLMNOPQRSTUVWXYZ" : "0123456789abcdefghijklmnopqrstuvwxyz";
  if (a.is_zero()) return "0";
  // divide by base^k chunks that fit in a limb
  uint64_t chunk = base; int k = 1; while (chunk <= UINT64_MAX / (uint64_t)base) { chunk *= base; k++; }
  std::string out; Mag cur = a.m;
  if (cur.size() > 200) {
    // divide and conquer: split by base^(k*2^j)
    std::vector<Int> pw; pw.push_back(Int::from_u64(chunk)); // base^(k)
    { Int vv; vv.m = cur; while (cmp(pw.back(), vv) <= 0) pw.push_back(pw.back() * pw.back()); }   // now v < pw.back()
    struct Rec { static void go(const Int& v, int lvl, const std::vector<Int>& pw, int k, int base, const char* dig, bool pad, std::string& o) {
      if (lvl < 0) { // v < base^k : one chunk
        uint64_t x = v.low(); char buf[80]; int n = 0; while (x) { buf[n++] = dig[x % base]; x /= base; }
        if (pad) for (int i = n; i < k; i++) o += '0';
        while (n) o += buf[--n]; return; }
      Int q, r; tdivrem(v, pw[lvl], q, r);
      if (q.is_zero() && !pad) { go(r, lvl - 1, pw, k, base, dig, false, o); return; }
      go(q, lvl - 1, pw, k, base, dig, pad, o); go(r, lvl - 1, pw, k, base, dig, true, o); } };
    Int v; v.m = cur; Rec::go(v, (int)pw.size() - 2, pw, k, base, dig, false, out);   // go(v,lvl) needs v < pw[lvl]^2 = pw[lvl+1]
    size_t nz = out.find_first_not_of('0'); out = nz == std::string::npos ? "0" : out.substr(nz);
  } else {
    std::string rev;
    while (!cur.empty()) {
      uint64_t rem = 0;
      for (size_t i = cur.size(); i-- > 0;) { u128 t = ((u128)rem << 64) | cur[i]; cur[i] = (uint64_t)(t / chunk); rem = (uint64_t)(t % chunk); }
      norm(cur);
      for (int i = 0; i < k; i++) { rev += dig[rem % base]; rem /= base; if (cur.empty() && rem == 0) break; }
    }
    while (rev.size() > 1 && rev.back() == '0') rev.pop_back();
    out.assign(rev.rbegin(), rev.rend());
  }
  return (a.neg ? "-" : "") + out;
}
// digits only (values 0..base-1), most significant first
static inline Int from_digits(const std::vector<unsigned>& d, unsigned base) {
  struct Rec { static Int go(const unsigned* p, size_t n, unsigned base, std::vector<Int>& pwc) {
      if (n <= 16) { Int r; for (size_t i = 0; i < n; i++) { r = r * Int::from_u64(base) + Int::from_u64(p[i]); } return r; }
      size_t lo = n / 2, hi = n - lo; Int H = go(p, hi, base, pwc), L = go(p + hi, lo, base, pwc);
      return H * pow(Int::from_u64(base), lo) + L; } };
  std::vector<Int> pwc; return Rec::go(d.data(), d.size(), base, pwc);
}
static inline std::string hex(const Int& a) { return to_string(a, 16); }

// Deterministic Miller-Rabin for n < 3.3e24 (first 13 primes as bases)
static inline bool is_prime_small(const Int& n) {
  if (n.neg || n.is_zero()) return false;
  if (n.m.size() == 1 && n.m[0] < 2) return false;
  static const unsigned P[] = {2, 3, 5, 7, 11, 13, 17, 19, 23, 29, 31, 37, 41};
  for (unsigned p : P) { Int pp(p); if (n == pp) return true; if (tmod(n, pp).is_zero()) return false; }
  Int n1 = n - Int(1); uint64_t s = 0; while (!mtest(n1.m, s)) s++; Int d = tshr(n1, s);
  for (unsigned p : P) {
    Int x = powmod(Int(p), d, n); if (x == Int(1) || x == n1) continue;
    bool comp = true;
    for (uint64_t r = 1; r < s; r++) { x = emod(x * x, n); if (x == n1) { comp = false; break; } }
    if (comp) return false;
  }
  return true;
}
// fast 64-bit deterministic MR
static inline uint64_t mulmod64(uint64_t a, uint64_t b, uint64_t m) { return (uint64_t)((u128)a * b % m); }
static inline uint64_t powmod64(uint64_t b, uint64_t e, uint64_t m) { uint64_t r = 1 % m; b %= m; while (e) { if (e & 1) r = mulmod64(r, b, m); b = mulmod64(b, b, m); e >>= 1; } return r; }
static inline bool is_prime_u64(uint64_t n) {
  if (n < 2) return false;
  static const uint64_t P[] = {2, 3, 5, 7, 11, 13, 17, 19, 23, 29, 31, 37};
  for (uint64_t p : P) { if (n == p) return true; if (n % p == 0) return false; }
  uint64_t d = n - 1; int s = 0; while (!(d & 1)) { d >>= 1; s++; }
  for (uint64_t a : P) {
    uint64_t x = powmod64(a, d, n); if (x == 1 || x == n - 1) continue;
    bool comp = true; for (int r = 1; r < s; r++) { x = mulmod64(x, x, n); if (x == n - 1) { comp = false; break; } }
    if (comp) return false;
  }
  return true;
}
}  // namespace ref
