// Algorithm crossovers of the tree under test (its gmp-mparam.h), used ONLY to aim generated sizes at both sides of
// each crossover and for labels.  A table that does not define a threshold gets a value near gmp-impl.h's fallback.
#pragma once
#include "gmp-mparam.h"
#define TH_DEFAULT(name, val) 
#ifndef MUL_KARATSUBA_THRESHOLD
#define MUL_KARATSUBA_THRESHOLD 32
#endif
#ifndef MUL_TOOM3_THRESHOLD
#define MUL_TOOM3_THRESHOLD 128
#endif
#ifndef MUL_TOOM4_THRESHOLD
#define MUL_TOOM4_THRESHOLD 300
#endif
#ifndef MUL_TOOM8H_THRESHOLD
#define MUL_TOOM8H_THRESHOLD 401
#endif
#ifndef SQR_KARATSUBA_THRESHOLD
#define SQR_KARATSUBA_THRESHOLD 32
#endif
#ifndef SQR_TOOM3_THRESHOLD
#define SQR_TOOM3_THRESHOLD 128
#endif
#ifndef SQR_TOOM4_THRESHOLD
#define SQR_TOOM4_THRESHOLD 300
#endif
#ifndef SQR_TOOM8_THRESHOLD
#define SQR_TOOM8_THRESHOLD 401
#endif
#ifndef MUL_FFT_FULL_THRESHOLD
#define MUL_FFT_FULL_THRESHOLD 3520
#endif
#ifndef SQR_FFT_FULL_THRESHOLD
#define SQR_FFT_FULL_THRESHOLD 2016
#endif
#ifndef POWM_THRESHOLD
#define POWM_THRESHOLD 150
#endif
#ifndef REDC_1_TO_REDC_2_THRESHOLD
#define REDC_1_TO_REDC_2_THRESHOLD 15
#endif
#ifndef REDC_2_TO_REDC_N_THRESHOLD
#define REDC_2_TO_REDC_N_THRESHOLD 100
#endif
#ifndef DC_DIV_QR_THRESHOLD
#define DC_DIV_QR_THRESHOLD 56
#endif
#ifndef DC_DIV_Q_THRESHOLD
#define DC_DIV_Q_THRESHOLD 56
#endif
#ifndef DC_DIVAPPR_Q_THRESHOLD
#define DC_DIVAPPR_Q_THRESHOLD 56
#endif
#ifndef INV_DIV_QR_THRESHOLD
#define INV_DIV_QR_THRESHOLD 1500
#endif
#ifndef INV_DIV_Q_THRESHOLD
#define INV_DIV_Q_THRESHOLD 1500
#endif
#ifndef MOD_1_1_THRESHOLD
#define MOD_1_1_THRESHOLD 16
#endif
#ifndef MOD_1_2_THRESHOLD
#define MOD_1_2_THRESHOLD 32
#endif
#ifndef MOD_1_3_THRESHOLD
#define MOD_1_3_THRESHOLD 64
#endif
#ifndef DIVREM_HENSEL_QR_1_THRESHOLD
#define DIVREM_HENSEL_QR_1_THRESHOLD 8
#endif
#ifndef RSH_DIVREM_HENSEL_QR_1_THRESHOLD
#define RSH_DIVREM_HENSEL_QR_1_THRESHOLD 8
#endif
#ifndef DIVREM_EUCLID_HENSEL_THRESHOLD
#define DIVREM_EUCLID_HENSEL_THRESHOLD 32
#endif
#ifndef HGCD_THRESHOLD
#define HGCD_THRESHOLD 400
#endif
#ifndef HGCD_APPR_THRESHOLD
#define HGCD_APPR_THRESHOLD 400
#endif
#ifndef GCD_DC_THRESHOLD
#define GCD_DC_THRESHOLD 1000
#endif
#ifndef GCDEXT_DC_THRESHOLD
#define GCDEXT_DC_THRESHOLD 600
#endif
#ifndef GET_STR_DC_THRESHOLD
#define GET_STR_DC_THRESHOLD 18
#endif
#ifndef GET_STR_PRECOMPUTE_THRESHOLD
#define GET_STR_PRECOMPUTE_THRESHOLD 35
#endif
#ifndef SET_STR_DC_THRESHOLD
#define SET_STR_DC_THRESHOLD 750
#endif
#ifndef SET_STR_PRECOMPUTE_THRESHOLD
#define SET_STR_PRECOMPUTE_THRESHOLD 2000
#endif
#ifndef ROOTREM_THRESHOLD
#define ROOTREM_THRESHOLD 8
#endif
#ifndef FAC_DSC_THRESHOLD
#define FAC_DSC_THRESHOLD 400
#endif
#ifndef FAC_ODD_THRESHOLD
#define FAC_ODD_THRESHOLD 35
#endif
#ifndef BINV_NEWTON_THRESHOLD
#define BINV_NEWTON_THRESHOLD 300
#endif
