// Byte-stream property engine (Hypothesis-style): one decode-and-check function
// per property, three drivers (PBT with shrinking, libFuzzer, replay).
// See DESIGN.md section 2.2.
#pragma once
#include <cstdint>
#include <cstdio>
#include <cstdlib>
#include <cstring>
#include <cstdarg>
#include <string>
#include <vector>
#include <map>
#include <set>
#include <algorithm>

namespace eng {

static inline uint64_t mix64(uint64_t x) {
  x += 0x9e3779b97f4a7c15ull; x = (x ^ (x >> 30)) * 0xbf58476d1ce4e5b9ull;
  x = (x ^ (x >> 27)) * 0x94d049bb133111ebull; return x ^ (x >> 31);
}

struct Fail { std::string msg; };

[[noreturn]] static inline void fail(const char* fmt, ...) {
  char buf[4096]; va_list ap; va_start(ap, fmt); vsnprintf(buf, sizeof buf, fmt, ap); va_end(ap);
  throw Fail{buf};
}
#define REQUIRE(c, ...) do { if (!(c)) ::eng::fail(__VA_ARGS__); } while (0)

// Finite byte string with typed readers.  Runs out => zeros, so every byte
// string is a valid case, and smaller/shorter bytes decode to simpler cases.
// Byte 0 is the "scale" (size class), chosen by the driver's size schedule.
struct ByteSource {
  const uint8_t* p; size_t n; size_t pos; uint64_t h; unsigned scale;
  ByteSource(const uint8_t* d, size_t len) : p(d), n(len), pos(0), h(0x1234567) {
    scale = len ? d[0] : 0; pos = len ? 1 : 0; h = mix64(h ^ scale);
  }
  bool exhausted() const { return pos >= n; }
  uint8_t raw8() { return pos < n ? p[pos++] : (pos++, 0); }
  uint8_t u8() { uint8_t v = raw8(); h = mix64(h ^ v); return v; }
  uint64_t raw64() { uint64_t v = 0; for (int i = 0; i < 8; i++) v |= (uint64_t)raw8() << (8 * i); return v; }
  uint64_t u64() { uint64_t v = raw64(); h = mix64(h ^ v); return v; }
  // uniform-ish integer in [lo,hi]; all-zero bytes give lo
  uint64_t range(uint64_t lo, uint64_t hi) {
    if (hi <= lo) { return lo; }
    uint64_t span = hi - lo, v = 0; int nb = 0; uint64_t s = span;
    while (s) { nb++; s >>= 8; }
    for (int i = 0; i < nb; i++) v |= (uint64_t)raw8() << (8 * i);
    v = (span == UINT64_MAX) ? v : v % (span + 1);
    h = mix64(h ^ (lo + v)); return lo + v;
  }
  int64_t srange(int64_t lo, int64_t hi) { return lo + (int64_t)range(0, (uint64_t)(hi - lo)); }
  bool flag() { return u8() & 1; }
  // true with probability num/256
  bool chance(unsigned num) { return u8() < num; }
  // weighted choice; weights sum <= 65535; zero bytes give index 0
  unsigned pick(std::initializer_list<unsigned> w) {
    unsigned tot = 0; for (unsigned x : w) tot += x;
    unsigned r = (unsigned)range(0, tot - 1), i = 0;
    for (unsigned x : w) { if (r < x) return i; r -= x; i++; }
    return i - 1;
  }
  // log-uniform size in [lo,hi]
  uint64_t logrange(uint64_t lo, uint64_t hi) {
    if (hi <= lo) return lo;
    unsigned bl = 0; { uint64_t t = lo; while (t) { bl++; t >>= 1; } }
    unsigned bh = 0; { uint64_t t = hi; while (t) { bh++; t >>= 1; } }
    unsigned b = (unsigned)range(bl, bh);
    uint64_t l2 = b ? (1ull << (b - 1)) : 0, h2 = b >= 64 ? UINT64_MAX : ((1ull << b) - 1);
    if (b == 0) { l2 = 0; h2 = 0; }
    if (l2 < lo) l2 = lo; if (h2 > hi) h2 = hi;
    return range(l2, h2);
  }
  void mixin(uint64_t v) { h = mix64(h ^ v); }
};

struct CaseInfo {
  bool want_desc = false;
  bool nontrivial = false;
  std::vector<const char*> labels;      // static strings only
  std::string desc;
  std::vector<std::string> excluded;    // known-finding ids that matched
  uint64_t hash = 0;                    // set by driver from ByteSource.h after the run
  uint64_t mixin_count = 0;             // sub-evaluations inside the case (e.g. enumerated fault positions); summed under label sub_evaluations
  void label(const char* s) { labels.push_back(s); }
  void d(const char* fmt, ...) {
    if (!want_desc) return;
    char buf[2048]; va_list ap; va_start(ap, fmt); vsnprintf(buf, sizeof buf, fmt, ap); va_end(ap);
    desc += buf;
  }
  void ds(const std::string& s) { if (want_desc) desc += s; }
};

// Known findings (DESIGN.md section 6): ids listed as "known" in
// known_findings.json are passed with --known; a check asks is_known(id) before
// it excludes a case that matches that finding's predicate.
extern std::set<std::string> g_known;
static inline bool is_known(const char* id) { return g_known.count(id) != 0; }

// Property entry point, implemented by each props/Cxx.cc
struct PropDef {
  const char* id;
  const char* rule;                                 // generator + non-triviality rule (goes to evidence)
  void (*check)(ByteSource&, CaseInfo&);
  void (*setup)();                                  // once per process (may be null)
  std::vector<const char*> required_labels;
  // hand-written deterministic reproductions of recorded findings (stable across generator changes):
  // returns normally if the property holds on fixed case k, throws Fail otherwise; used by `--fixed k`
  void (*fixed)(unsigned k, CaseInfo&) = nullptr;
  // exhaustive sweep of a small finite sub-domain (DESIGN.md 2.4): sweep_count() items, each checked by
  // sweep_item(i); run by `--sweep` on all workers, a failing item is replayable with `--sweep-one i`
  uint64_t (*sweep_count)() = nullptr;
  void (*sweep_item)(uint64_t i, CaseInfo&) = nullptr;
  const char* sweep_rule = nullptr;
};
extern PropDef g_prop;

// Tier/run parameters available to properties (set by drivers from argv/env).
struct Params { unsigned max_scale = 100; long sub = 0; };
extern Params g_params;

int driver_main(int argc, char** argv);

}  // namespace eng
