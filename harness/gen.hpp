// Shared generators and MPIR glue for the numeric properties (DESIGN.md 2.4).
#pragma once
#include "engine.hpp"
#include "refint.hpp"
#include <mpir.h>
#include <string>
#include <cmath>
#define DESC(ci, expr) do { if ((ci).want_desc) (ci).desc += (expr); } while (0)

namespace gen {
using eng::ByteSource; using eng::CaseInfo; using ref::Int;
typedef std::vector<uint64_t> Limbs;

// ---- limb contents ----------------------------------------------------------
// n limbs in one of the styles of DESIGN.md 2.4.  Small vectors take their
// limbs from the byte stream directly (so a fuzzer can set them); large ones
// expand an 8-byte seed deterministically.
static inline void fill_uniform(ByteSource& in, uint64_t* p, size_t n) {
  if (n <= 24) { for (size_t i = 0; i < n; i++) p[i] = in.u64(); return; }
  uint64_t k = in.u64(); for (size_t i = 0; i < n; i++) { k += 0x9e3779b97f4a7c15ull; p[i] = eng::mix64(k); }
}
static const uint64_t PALETTE[8] = {0, 1, 2, 0x7fffffffffffffffull, 0x8000000000000000ull, 0x8000000000000001ull, 0xfffffffffffffffeull, 0xffffffffffffffffull};
enum Style { S_UNIFORM, S_RUNS, S_PALETTE, S_ALLONES, S_SINGLEBIT, S_LOWZERO, S_HIGHONES_LOWRAND, S_SPARSE, S_NSTYLES };
static inline void fill_style(ByteSource& in, uint64_t* p, size_t n, unsigned style) {
  if (n == 0) return;
  switch (style) {
    default:
    case S_UNIFORM: fill_uniform(in, p, n); break;
    case S_RUNS: {  // rrandom-like: alternating runs of 0s and 1s, run lengths from the stream
      uint64_t k = in.u64(); size_t bit = 0, total = n * 64; bool one = k & 1; std::fill(p, p + n, 0);
      while (bit < total) {
        k = eng::mix64(k + 1); size_t len = 1 + (k % 96); if ((k >> 8) % 7 == 0) len += (k >> 16) % (total / 2 + 1);
        if (one) for (size_t b = bit; b < std::min(total, bit + len); b++) p[b / 64] |= 1ull << (b % 64);
        bit += len; one = !one;
      } break; }
    case S_PALETTE: {
      if (n <= 48) for (size_t i = 0; i < n; i++) p[i] = PALETTE[in.u8() & 7];
      else { uint64_t k = in.u64(); for (size_t i = 0; i < n; i++) { k = eng::mix64(k + i); p[i] = PALETTE[k & 7]; } }
      break; }
    case S_ALLONES: std::fill(p, p + n, ~0ull); break;
    case S_SINGLEBIT: { std::fill(p, p + n, 0); uint64_t b = in.range(0, n * 64 - 1); p[b / 64] = 1ull << (b % 64); break; }
    case S_LOWZERO: { size_t z = (size_t)in.range(0, n - 1); std::fill(p, p + z, 0); fill_uniform(in, p + z, n - z); break; }
    case S_HIGHONES_LOWRAND: { size_t z = (size_t)in.range(0, n - 1); fill_uniform(in, p, z); std::fill(p + z, p + n, ~0ull); break; }
    case S_SPARSE: { std::fill(p, p + n, 0); unsigned k = (unsigned)in.range(1, 4); for (unsigned i = 0; i < k; i++) { uint64_t b = in.range(0, n * 64 - 1); p[b / 64] ^= 1ull << (b % 64); } break; }
  }
}
static inline unsigned pick_style(ByteSource& in) { return in.pick({8, 4, 3, 2, 1, 2, 2, 1}); }
static inline Limbs limbs(ByteSource& in, size_t n, int style = -1) {
  Limbs v(n); fill_style(in, v.data(), n, style < 0 ? pick_style(in) : (unsigned)style); return v;
}
// n limbs with a non-zero top limb
static inline Limbs limbs_nz(ByteSource& in, size_t n, int style = -1) {
  Limbs v = limbs(in, n, style); if (n && v[n - 1] == 0) v[n - 1] = 1 + (in.u8() & 3); return v;
}

// ---- sizes --------------------------------------------------------------------
// cap(scale): exponential size cap, cap(0)=lo ... cap(100)~hi100
static inline size_t expcap(unsigned scale, double lo, double hi100) {
  double v = lo * std::pow(hi100 / lo, scale / 100.0); if (v < 1) v = 1; return (size_t)v;
}
// a size in [lo,cap] that prefers tiny sizes, neighbourhoods of thresholds <= cap, and log-uniform
static inline size_t size_near(ByteSource& in, size_t lo, size_t cap, std::initializer_list<size_t> thresholds) {
  if (cap < lo) cap = lo;
  unsigned w = in.pick({5, 5, 6});
  if (w == 0) return (size_t)in.range(lo, std::min<size_t>(cap, lo + 17));
  if (w == 1) {
    std::vector<size_t> t; for (size_t x : thresholds) if (x >= lo + 2 && x <= cap) t.push_back(x);
    if (!t.empty()) { size_t T = t[in.range(0, t.size() - 1)]; size_t s = T - 2 + (size_t)in.range(0, 4); if (s < lo) s = lo; if (s > cap) s = cap; return s; }
  }
  return (size_t)in.logrange(lo, cap);
}

// ---- mpz glue (no arithmetic entry point of the library is used here) --------
static inline void mpz_from_limbs(mpz_ptr z, const uint64_t* p, size_t n, bool neg) {
  while (n && p[n - 1] == 0) n--;
  // limbs between the size and the allocation hold unspecified values: poison them, so that code which reads a stale limb shows
  if (n == 0) { z->_mp_size = 0; for (int i = 0; i < z->_mp_alloc; i++) z->_mp_d[i] = 0xdeadbeefdeadbeefull; return; }
  if ((size_t)z->_mp_alloc < n) _mpz_realloc(z, (mp_size_t)n);
  memcpy(z->_mp_d, p, n * 8); z->_mp_size = neg ? -(int)n : (int)n;
  for (size_t i = n; i < (size_t)z->_mp_alloc; i++) z->_mp_d[i] = 0xdeadbeefdeadbeefull;
}
static inline void mpz_from_int(mpz_ptr z, const Int& a) { mpz_from_limbs(z, a.m.data(), a.m.size(), a.neg); }
static inline Int int_from_mpz(mpz_srcptr z) {
  int s = z->_mp_size; size_t n = s < 0 ? -s : s; return Int::from_limbs((const uint64_t*)z->_mp_d, n, s < 0);
}
// well-formedness of an mpz result
static inline const char* mpz_illformed(mpz_srcptr z) {
  int s = z->_mp_size; size_t n = s < 0 ? -s : s;
  if (z->_mp_alloc < 1) return "alloc < 1";
  if ((size_t)z->_mp_alloc < n) return "size exceeds allocation";
  if (n && z->_mp_d[n - 1] == 0) return "leading zero limb";
  return nullptr;
}
#define REQUIRE_WF(z, what) do { const char* _e = ::gen::mpz_illformed(z); REQUIRE(!_e, "%s: result not well formed: %s", what, _e); } while (0)

// signed integer of up to maxlimbs limbs (maxlimbs may be 0 => zero)
static inline Int gen_int(ByteSource& in, size_t maxlimbs, bool allow_neg = true) {
  size_t n = maxlimbs ? (size_t)in.logrange(0, maxlimbs) : 0;
  Limbs v = limbs(in, n); bool neg = allow_neg && in.flag();
  return Int::from_limbs(v.data(), v.size(), neg);
}

// boundary values: 0, +-1, +-2, limb boundaries (B-1, B, B+1, B^2-1, B^2), signed/unsigned long boundaries
static inline Int gen_special(ByteSource& in) {
  unsigned k = (unsigned)in.range(0, 15); bool neg = in.flag(); Int v;
  switch (k) {
    case 0: v = Int(0); break; case 1: case 2: v = Int(1); break; case 3: v = Int(2); break; case 4: v = Int(3); break;
    case 5: v = Int::from_u64(~0ull); break; case 6: v = ref::pow2(64); break; case 7: v = ref::pow2(64) + Int(1); break;
    case 8: v = Int::from_u64(1ull << 63); break; case 9: v = Int::from_u64((1ull << 63) - 1); break;
    case 10: v = ref::pow2(128) - Int(1); break; case 11: v = ref::pow2(128); break; case 12: v = ref::pow2(64 * (unsigned)in.range(1, 6)); break;
    case 13: v = ref::pow2(64 * (unsigned)in.range(1, 6)) - Int(1); break; case 14: v = ref::pow2((unsigned)in.range(0, 200)); break;
    default: v = Int::from_u64(in.range(0, 40)); break;
  }
  return neg ? -v : v;
}

// value number idx of the nlimbs-limb "palette" domain: limb i is P[digit i of idx in base np] (high zero limbs give the shorter values)
static const uint64_t PAL6[6] = {0, 1, 0x7fffffffffffffffull, 0x8000000000000000ull, 0xfffffffffffffffeull, 0xffffffffffffffffull};
static inline Int palette_int(uint64_t idx, int nlimbs, const uint64_t* P = PAL6, unsigned np = 6) {
  uint64_t l[8]; for (int i = 0; i < nlimbs; i++) { l[i] = P[idx % np]; idx /= np; } return Int::from_limbs(l, (size_t)nlimbs);
}
static inline uint64_t palette_count(int nlimbs, unsigned np = 6) { uint64_t c = 1; for (int i = 0; i < nlimbs; i++) c *= np; return c; }

// ---- description helpers ------------------------------------------------------
static inline std::string show(const Int& a, size_t maxhex = 96) {
  static const bool full = getenv("VERIF_FULLHEX") != nullptr; if (full) maxhex = 1u << 30;
  std::string h = ref::hex(a.abs());
  if (h.size() > maxhex) h = h.substr(0, maxhex / 2) + ".." + h.substr(h.size() - maxhex / 2) + "(" + std::to_string(a.size()) + " limbs)";
  return (a.neg ? "-0x" : "0x") + h;
}
static inline std::string show(const uint64_t* p, size_t n, size_t maxhex = 96) { return show(Int::from_limbs(p, n, false), maxhex) + "[n=" + std::to_string(n) + "]"; }
static inline std::string show(const Limbs& v, size_t maxhex = 96) { return show(v.data(), v.size(), maxhex); }

// guarded limb buffer: n limbs with g guard limbs on each side, to detect writes outside the window
struct Guarded {
  std::vector<uint64_t> buf; size_t g, n; uint64_t pat;
  Guarded(size_t n_, uint64_t pattern = 0xdeadbeefcafef00dull, size_t g_ = 4) : buf(n_ + 2 * g_), g(g_), n(n_), pat(pattern) {
    for (size_t i = 0; i < buf.size(); i++) buf[i] = pat ^ (i * 0x0101010101010101ull);
  }
  uint64_t* p() { return buf.data() + g; }
  bool intact() const {
    for (size_t i = 0; i < g; i++) if (buf[i] != (pat ^ (i * 0x0101010101010101ull))) return false;
    for (size_t i = g + n; i < buf.size(); i++) if (buf[i] != (pat ^ (i * 0x0101010101010101ull))) return false;
    return true;
  }
};
}  // namespace gen
