// API table shared by C04 (call histories / allocator contract), C05 (aliasing) and C15 (threads).
// One descriptor per public function: which object arguments it takes (outputs first), its documented
// preconditions, and a caller.  Scalar arguments are taken from the Args block (the op derives what it needs
// deterministically, so that two executions with the same Args make the same call).
#pragma once
#include "gen.hpp"
#include <cstdio>
#include <cmath>
#include <climits>
#include <cstdarg>

namespace api {
using ref::Int;
struct Args {
  mpz_ptr z[5]; mpq_ptr q[4]; mpf_ptr f[4]; __gmp_randstate_struct* r;
  uint64_t u[3]; int64_t s[2]; double d; int base; std::string str;
};
struct Res { std::vector<long long> iv; std::vector<std::string> sv; std::vector<double> dv;
  bool operator==(const Res& o) const { if (iv != o.iv || sv != o.sv || dv.size() != o.dv.size()) return false; for (size_t i = 0; i < dv.size(); i++) if (memcmp(&dv[i], &o.dv[i], 8)) return false; return true; } };
struct Op { const char* name; const char* sig;      // sig: object arguments, outputs before '=', inputs after; letters Z Q F; 'R' after the inputs = uses the random state
  bool (*pre)(const Args&); void (*run)(Args&, Res&); unsigned flags; };
enum { F_STDIO = 1, F_SLOW = 2, F_RAND = 4, F_NOTHREAD = 8 };

static inline size_t zl(mpz_srcptr z) { return (size_t)std::abs(z->_mp_size); }
static inline bool znz(mpz_srcptr z) { return z->_mp_size != 0; }
static inline bool zsmall(mpz_srcptr z, size_t l) { return zl(z) <= l; }
static inline bool qnz(mpq_srcptr q) { return q->_mp_num._mp_size != 0; }
static inline bool fnz(mpf_srcptr f) { return f->_mp_size != 0; }
static inline uint64_t bc(const Args& a, uint64_t m) { if ((a.base & 0x30) == 0x30) { static const uint64_t B[8] = {0, 1, 63, 64, 65, 127, 128, 0}; uint64_t v = (a.u[2] % 8 == 7) ? m - 1 : B[a.u[2] % 8]; return v % m; } return a.u[1] % m; }   // a bit count / small exponent; a quarter of the time a boundary value (0, 1, 63..65, 127, 128, m-1)
static inline int nbase(const Args& a) { return 2 + (int)((unsigned)a.base % 61); }     // 2..62
static inline int nbase36(const Args& a) { return 2 + (int)((unsigned)a.base % 35); }   // 2..36
static inline int asprintf_width(const Args& a) { static const int W[6] = {255, 256, 257, 511, 512, 513}; return (a.base & 1) ? W[a.u[2] % 6] : (int)(a.u[2] % 600); }   // around the internal buffer sizes of the printf code
static inline std::string take_str(char* p) { std::string s = p; void (*fr)(void*, size_t); mp_get_memory_functions(nullptr, nullptr, &fr); fr(p, s.size() + 1); return s; }
static inline std::string mem_out(size_t (*w)(FILE*, const Args&), const Args& a, size_t* ret) { char* m = nullptr; size_t ml = 0; FILE* fp = open_memstream(&m, &ml); *ret = w(fp, a); fclose(fp); std::string s(m, ml); free(m); return s; }

#define OPZ(nm, sg, prec, body, fl) {#nm, sg, [](const Args& a) -> bool { (void)a; return (prec); }, [](Args& a, Res& r) { (void)r; body; }, fl}
#define Z0 a.z[0]
#define Z1 a.z[1]
#define Z2 a.z[2]
#define Z3 a.z[3]
#define Z4 a.z[4]
#define Q0 a.q[0]
#define Q1 a.q[1]
#define Q2 a.q[2]
#define F0 a.f[0]
#define F1 a.f[1]
#define F2 a.f[2]
#define U0 a.u[0]
#define S0 a.s[0]
#define RI(x) r.iv.push_back((long long)(x))
#define CAP(z, l) zsmall(z, l)

// bodies of the mpn-level operations (kept out of the OPZ macro: their declarations contain top-level commas)
static inline void body_mpn_mul_via_limbs(Args& a, Res& r) { (void)r; mpz_srcptr u = zl(Z1) >= zl(Z2) ? Z1 : Z2; mpz_srcptr v = u == Z1 ? Z2 : Z1; size_t un = zl(u), vn = zl(v); mp_limb_t* rp = mpz_limbs_write(Z0, (mp_size_t)(un + vn)); mpn_mul(rp, mpz_limbs_read(u), (mp_size_t)un, mpz_limbs_read(v), (mp_size_t)vn); mpz_limbs_finish(Z0, (mp_size_t)(un + vn)); }
static inline void body_mpn_sqr_via_limbs(Args& a, Res& r) { (void)r; size_t n = zl(Z1); mp_limb_t* rp = mpz_limbs_write(Z0, (mp_size_t)(2 * n)); mpn_sqr(rp, mpz_limbs_read(Z1), (mp_size_t)n); mpz_limbs_finish(Z0, (mp_size_t)(2 * n)); }
static inline void body_mpn_tdiv_qr_via_limbs(Args& a, Res& r) { (void)r; size_t nn = zl(Z2), dn = zl(Z3); mp_limb_t* qp = mpz_limbs_write(Z0, (mp_size_t)(nn - dn + 1)); mp_limb_t* rp = mpz_limbs_write(Z1, (mp_size_t)dn); mpn_tdiv_qr(qp, rp, 0, mpz_limbs_read(Z2), (mp_size_t)nn, mpz_limbs_read(Z3), (mp_size_t)dn); mpz_limbs_finish(Z0, (mp_size_t)(nn - dn + 1)); mpz_limbs_finish(Z1, (mp_size_t)dn); }
static inline void body_mpn_sqrtrem_via_limbs(Args& a, Res& r) { (void)r; size_t n = zl(Z2); mp_limb_t* sp = mpz_limbs_write(Z0, (mp_size_t)((n + 1) / 2)); mp_limb_t* rp = mpz_limbs_write(Z1, (mp_size_t)n); mp_size_t rn = mpn_sqrtrem(sp, rp, mpz_limbs_read(Z2), (mp_size_t)n); mpz_limbs_finish(Z0, (mp_size_t)((n + 1) / 2)); mpz_limbs_finish(Z1, rn); }
static inline void body_mpn_get_set_str_via_limbs(Args& a, Res& r) { (void)r; size_t n = zl(Z1); int b = 2 + (int)((unsigned)a.base % 255); std::vector<mp_limb_t> cp(mpz_limbs_read(Z1), mpz_limbs_read(Z1) + n); cp.push_back(0); std::vector<unsigned char> d(mpz_sizeinbase(Z1, b <= 62 ? b : 62) * 2 + 70); size_t nd = mpn_get_str(d.data(), b, cp.data(), (mp_size_t)n); RI(nd); size_t k0 = 0; while (k0 + 1 < nd && d[k0] == 0) k0++;
    mp_limb_t* rp = mpz_limbs_write(Z0, (mp_size_t)(n + 2)); mp_size_t rn = mpn_set_str(rp, d.data() + k0, nd - k0, b); mpz_limbs_finish(Z0, rn); }
static inline void body_mpn_divrem_1_mod_1(Args& a, Res& r) { (void)r; size_t n = zl(Z1); mp_limb_t dv = U0 | 1; mp_limb_t* qp = mpz_limbs_write(Z0, (mp_size_t)n); mp_limb_t r1 = mpn_divrem_1(qp, 0, mpz_limbs_read(Z1), (mp_size_t)n, dv); mp_limb_t r2 = mpn_mod_1(mpz_limbs_read(Z1), (mp_size_t)n, dv); mpz_limbs_finish(Z0, (mp_size_t)n); RI(r1); RI(r1 == r2); }
// va_list forms are reached through these variadic shims
static inline int call_vasprintf(char** p, const char* fmt, ...) { va_list ap; va_start(ap, fmt); int n = gmp_vasprintf(p, fmt, ap); va_end(ap); return n; }
static inline int call_vsnprintf(char* b, size_t n, const char* fmt, ...) { va_list ap; va_start(ap, fmt); int r = gmp_vsnprintf(b, n, fmt, ap); va_end(ap); return r; }
static inline int call_vsprintf(char* b, const char* fmt, ...) { va_list ap; va_start(ap, fmt); int r = gmp_vsprintf(b, fmt, ap); va_end(ap); return r; }
static inline int call_vfprintf(FILE* f, const char* fmt, ...) { va_list ap; va_start(ap, fmt); int r = gmp_vfprintf(f, fmt, ap); va_end(ap); return r; }
static inline int call_vsscanf(const char* s, const char* fmt, ...) { va_list ap; va_start(ap, fmt); int r = gmp_vsscanf(s, fmt, ap); va_end(ap); return r; }
static inline int call_vfscanf(FILE* f, const char* fmt, ...) { va_list ap; va_start(ap, fmt); int r = gmp_vfscanf(f, fmt, ap); va_end(ap); return r; }
static const Op OPS[] = {
  // ---- mpz arithmetic ------------------------------------------------------------------------------------
  OPZ(mpz_add, "Z=ZZ", true, mpz_add(Z0, Z1, Z2), 0), OPZ(mpz_sub, "Z=ZZ", true, mpz_sub(Z0, Z1, Z2), 0),
  OPZ(mpz_mul, "Z=ZZ", CAP(Z1, 6000) && CAP(Z2, 6000), mpz_mul(Z0, Z1, Z2), 0),
  OPZ(mpz_addmul, "Z=ZZ", CAP(Z1, 300) && CAP(Z2, 300), mpz_addmul(Z0, Z1, Z2), 0), OPZ(mpz_submul, "Z=ZZ", CAP(Z1, 300) && CAP(Z2, 300), mpz_submul(Z0, Z1, Z2), 0),
  OPZ(mpz_add_ui, "Z=Z", true, mpz_add_ui(Z0, Z1, U0), 0), OPZ(mpz_sub_ui, "Z=Z", true, mpz_sub_ui(Z0, Z1, U0), 0), OPZ(mpz_ui_sub, "Z=Z", true, mpz_ui_sub(Z0, U0, Z1), 0),
  OPZ(mpz_mul_ui, "Z=Z", true, mpz_mul_ui(Z0, Z1, U0), 0), OPZ(mpz_mul_si, "Z=Z", true, mpz_mul_si(Z0, Z1, S0), 0),
  OPZ(mpz_addmul_ui, "Z=Z", true, mpz_addmul_ui(Z0, Z1, U0), 0), OPZ(mpz_submul_ui, "Z=Z", true, mpz_submul_ui(Z0, Z1, U0), 0),
  OPZ(mpz_neg, "Z=Z", true, mpz_neg(Z0, Z1), 0), OPZ(mpz_abs, "Z=Z", true, mpz_abs(Z0, Z1), 0), OPZ(mpz_set, "Z=Z", true, mpz_set(Z0, Z1), 0),
  OPZ(mpz_mul_2exp, "Z=Z", true, mpz_mul_2exp(Z0, Z1, bc(a, 3000)), 0),
  OPZ(mpz_tdiv_q_2exp, "Z=Z", true, mpz_tdiv_q_2exp(Z0, Z1, bc(a, 3000)), 0), OPZ(mpz_tdiv_r_2exp, "Z=Z", true, mpz_tdiv_r_2exp(Z0, Z1, bc(a, 3000)), 0),
  OPZ(mpz_fdiv_q_2exp, "Z=Z", true, mpz_fdiv_q_2exp(Z0, Z1, bc(a, 3000)), 0), OPZ(mpz_fdiv_r_2exp, "Z=Z", true, mpz_fdiv_r_2exp(Z0, Z1, bc(a, 3000)), 0),
  OPZ(mpz_cdiv_q_2exp, "Z=Z", true, mpz_cdiv_q_2exp(Z0, Z1, bc(a, 3000)), 0), OPZ(mpz_cdiv_r_2exp, "Z=Z", true, mpz_cdiv_r_2exp(Z0, Z1, bc(a, 3000)), 0),
  // ---- mpz division ------------------------------------------------------------------------------------------
  OPZ(mpz_tdiv_q, "Z=ZZ", znz(Z2), mpz_tdiv_q(Z0, Z1, Z2), 0), OPZ(mpz_tdiv_r, "Z=ZZ", znz(Z2), mpz_tdiv_r(Z0, Z1, Z2), 0), OPZ(mpz_tdiv_qr, "ZZ=ZZ", znz(Z3), mpz_tdiv_qr(Z0, Z1, Z2, Z3), 0),
  OPZ(mpz_fdiv_q, "Z=ZZ", znz(Z2), mpz_fdiv_q(Z0, Z1, Z2), 0), OPZ(mpz_fdiv_r, "Z=ZZ", znz(Z2), mpz_fdiv_r(Z0, Z1, Z2), 0), OPZ(mpz_fdiv_qr, "ZZ=ZZ", znz(Z3), mpz_fdiv_qr(Z0, Z1, Z2, Z3), 0),
  OPZ(mpz_cdiv_q, "Z=ZZ", znz(Z2), mpz_cdiv_q(Z0, Z1, Z2), 0), OPZ(mpz_cdiv_r, "Z=ZZ", znz(Z2), mpz_cdiv_r(Z0, Z1, Z2), 0), OPZ(mpz_cdiv_qr, "ZZ=ZZ", znz(Z3), mpz_cdiv_qr(Z0, Z1, Z2, Z3), 0),
  OPZ(mpz_mod, "Z=ZZ", znz(Z2), mpz_mod(Z0, Z1, Z2), 0),
  OPZ(mpz_tdiv_q_ui, "Z=Z", U0 != 0, RI(mpz_tdiv_q_ui(Z0, Z1, U0)), 0), OPZ(mpz_tdiv_r_ui, "Z=Z", U0 != 0, RI(mpz_tdiv_r_ui(Z0, Z1, U0)), 0), OPZ(mpz_tdiv_qr_ui, "ZZ=Z", U0 != 0, RI(mpz_tdiv_qr_ui(Z0, Z1, Z2, U0)), 0), OPZ(mpz_tdiv_ui, "=Z", U0 != 0, RI(mpz_tdiv_ui(Z0, U0)), 0),
  OPZ(mpz_fdiv_q_ui, "Z=Z", U0 != 0, RI(mpz_fdiv_q_ui(Z0, Z1, U0)), 0), OPZ(mpz_fdiv_r_ui, "Z=Z", U0 != 0, RI(mpz_fdiv_r_ui(Z0, Z1, U0)), 0), OPZ(mpz_fdiv_qr_ui, "ZZ=Z", U0 != 0, RI(mpz_fdiv_qr_ui(Z0, Z1, Z2, U0)), 0), OPZ(mpz_fdiv_ui, "=Z", U0 != 0, RI(mpz_fdiv_ui(Z0, U0)), 0),
  OPZ(mpz_cdiv_q_ui, "Z=Z", U0 != 0, RI(mpz_cdiv_q_ui(Z0, Z1, U0)), 0), OPZ(mpz_cdiv_r_ui, "Z=Z", U0 != 0, RI(mpz_cdiv_r_ui(Z0, Z1, U0)), 0), OPZ(mpz_cdiv_qr_ui, "ZZ=Z", U0 != 0, RI(mpz_cdiv_qr_ui(Z0, Z1, Z2, U0)), 0), OPZ(mpz_cdiv_ui, "=Z", U0 != 0, RI(mpz_cdiv_ui(Z0, U0)), 0),
  OPZ(mpz_mod_ui, "Z=Z", U0 != 0, RI(mpz_mod_ui(Z0, Z1, U0)), 0),
  OPZ(mpz_divexact, "Z=ZZ", znz(Z2) && mpz_divisible_p(Z1, Z2), mpz_divexact(Z0, Z1, Z2), 0), OPZ(mpz_divexact_ui, "Z=Z", U0 != 0 && mpz_divisible_ui_p(Z1, U0), mpz_divexact_ui(Z0, Z1, U0), 0),
  OPZ(mpz_divisible_p, "=ZZ", true, RI(mpz_divisible_p(Z0, Z1) != 0), 0), OPZ(mpz_divisible_ui_p, "=Z", true, RI(mpz_divisible_ui_p(Z0, U0) != 0), 0), OPZ(mpz_divisible_2exp_p, "=Z", true, RI(mpz_divisible_2exp_p(Z0, bc(a, 300)) != 0), 0),
  OPZ(mpz_congruent_p, "=ZZZ", true, RI(mpz_congruent_p(Z0, Z1, Z2) != 0), 0), OPZ(mpz_congruent_ui_p, "=Z", true, RI(mpz_congruent_ui_p(Z0, U0, a.u[2]) != 0), 0), OPZ(mpz_congruent_2exp_p, "=ZZ", true, RI(mpz_congruent_2exp_p(Z0, Z1, bc(a, 300)) != 0), 0),
  // ---- powers, roots ---------------------------------------------------------------------------------------------
  OPZ(mpz_powm, "Z=ZZZ", znz(Z3) && Z2->_mp_size >= 0 && CAP(Z2, 6) && CAP(Z3, 260) && (CAP(Z3, 40) || CAP(Z2, 2)) && CAP(Z1, 300), mpz_powm(Z0, Z1, Z2, Z3), 0),   /* moduli up to 260 limbs (REDC_n with odd sizes 101..255) with exponents of at most 2 limbs */
  OPZ(mpz_powm_ui, "Z=ZZ", znz(Z2) && CAP(Z2, 260) && CAP(Z1, 300), mpz_powm_ui(Z0, Z1, U0 >> 20, Z2), 0),
  OPZ(mpz_pow_ui, "Z=Z", zl(Z1) * (U0 % 40) <= 400, mpz_pow_ui(Z0, Z1, U0 % 40), 0), OPZ(mpz_ui_pow_ui, "Z=", true, mpz_ui_pow_ui(Z0, U0, a.u[2] % 60), 0),
  OPZ(mpz_sqrt, "Z=Z", Z1->_mp_size >= 0, mpz_sqrt(Z0, Z1), 0), OPZ(mpz_sqrtrem, "ZZ=Z", Z2->_mp_size >= 0, mpz_sqrtrem(Z0, Z1, Z2), 0),
  OPZ(mpz_root, "Z=Z", (Z1->_mp_size >= 0 || ((U0 % 9 + 1) & 1)), RI(mpz_root(Z0, Z1, U0 % 9 + 1) != 0), 0), OPZ(mpz_nthroot, "Z=Z", (Z1->_mp_size >= 0 || ((U0 % 9 + 1) & 1)), mpz_nthroot(Z0, Z1, U0 % 9 + 1), 0),
  OPZ(mpz_rootrem, "ZZ=Z", (Z2->_mp_size >= 0 || ((U0 % 9 + 1) & 1)), mpz_rootrem(Z0, Z1, Z2, U0 % 9 + 1), 0),
  OPZ(mpz_perfect_power_p, "=Z", CAP(Z0, 40), RI(mpz_perfect_power_p(Z0) != 0), 0), OPZ(mpz_perfect_square_p, "=Z", true, RI(mpz_perfect_square_p(Z0) != 0), 0),
  // ---- number theory ------------------------------------------------------------------------------------------------
  OPZ(mpz_gcd, "Z=ZZ", true, mpz_gcd(Z0, Z1, Z2), 0), OPZ(mpz_gcd_ui, "Z=Z", true, RI(mpz_gcd_ui(Z0, Z1, U0)), 0), OPZ(mpz_gcdext, "ZZZ=ZZ", true, mpz_gcdext(Z0, Z1, Z2, Z3, Z4), 0),
  OPZ(mpz_lcm, "Z=ZZ", CAP(Z1, 300) && CAP(Z2, 300), mpz_lcm(Z0, Z1, Z2), 0), OPZ(mpz_lcm_ui, "Z=Z", true, mpz_lcm_ui(Z0, Z1, U0), 0),
  OPZ(mpz_invert, "Z=ZZ", znz(Z2), RI(mpz_invert(Z0, Z1, Z2) != 0), 0),
  OPZ(mpz_jacobi, "=ZZ", (Z1->_mp_size != 0 && (Z1->_mp_d[0] & 1)), RI(mpz_jacobi(Z0, Z1)), 0),
  OPZ(mpz_kronecker_si, "=Z", true, RI(mpz_kronecker_si(Z0, S0)), 0), OPZ(mpz_kronecker_ui, "=Z", true, RI(mpz_kronecker_ui(Z0, U0)), 0), OPZ(mpz_si_kronecker, "=Z", true, RI(mpz_si_kronecker(S0, Z0)), 0), OPZ(mpz_ui_kronecker, "=Z", true, RI(mpz_ui_kronecker(U0, Z0)), 0),
  OPZ(mpz_remove, "Z=ZZ", znz(Z1) && mpz_cmp_ui(Z2, 1) > 0, RI(mpz_remove(Z0, Z1, Z2)), 0),
  OPZ(mpz_fac_ui, "Z=", true, mpz_fac_ui(Z0, U0 % 400), 0), OPZ(mpz_2fac_ui, "Z=", true, mpz_2fac_ui(Z0, U0 % 500), 0), OPZ(mpz_mfac_uiui, "Z=", true, mpz_mfac_uiui(Z0, U0 % 500, a.u[2] % 7 + 1), 0), OPZ(mpz_primorial_ui, "Z=", true, mpz_primorial_ui(Z0, U0 % 900), 0),
  OPZ(mpz_bin_ui, "Z=Z", CAP(Z1, 4), mpz_bin_ui(Z0, Z1, U0 % 40), 0), OPZ(mpz_bin_uiui, "Z=", true, mpz_bin_uiui(Z0, U0 % 3000, a.u[2] % 120), 0),
  OPZ(mpz_fib_ui, "Z=", true, mpz_fib_ui(Z0, U0 % 3000), 0), OPZ(mpz_fib2_ui, "ZZ=", true, mpz_fib2_ui(Z0, Z1, U0 % 3000), 0), OPZ(mpz_lucnum_ui, "Z=", true, mpz_lucnum_ui(Z0, U0 % 3000), 0), OPZ(mpz_lucnum2_ui, "ZZ=", true, mpz_lucnum2_ui(Z0, Z1, U0 % 3000), 0),
  OPZ(mpz_probab_prime_p, "=Z", CAP(Z0, 4), RI(mpz_probab_prime_p(Z0, 10)), F_SLOW), OPZ(mpz_nextprime, "Z=Z", CAP(Z1, 3) && Z1->_mp_size >= 0, mpz_nextprime(Z0, Z1), F_SLOW),
  OPZ(mpz_likely_prime_p, "=ZR", CAP(Z0, 4) && Z0->_mp_size >= 0, RI(mpz_likely_prime_p(Z0, a.r, 0) != 0), F_SLOW | F_RAND), OPZ(mpz_probable_prime_p, "=ZR", CAP(Z0, 4) && Z0->_mp_size >= 0, RI(mpz_probable_prime_p(Z0, a.r, 10, 0) != 0), F_SLOW | F_RAND),
  OPZ(mpz_next_prime_candidate, "Z=ZR", CAP(Z1, 3) && Z1->_mp_size >= 0, mpz_next_prime_candidate(Z0, Z1, a.r), F_SLOW | F_RAND),
  // ---- bits ---------------------------------------------------------------------------------------------------------
  OPZ(mpz_and, "Z=ZZ", true, mpz_and(Z0, Z1, Z2), 0), OPZ(mpz_ior, "Z=ZZ", true, mpz_ior(Z0, Z1, Z2), 0), OPZ(mpz_xor, "Z=ZZ", true, mpz_xor(Z0, Z1, Z2), 0), OPZ(mpz_com, "Z=Z", true, mpz_com(Z0, Z1), 0),
  OPZ(mpz_setbit, "Z=", true, mpz_setbit(Z0, bc(a, 6000)), 0), OPZ(mpz_clrbit, "Z=", true, mpz_clrbit(Z0, bc(a, 6000)), 0), OPZ(mpz_combit, "Z=", true, mpz_combit(Z0, bc(a, 6000)), 0),
  OPZ(mpz_tstbit, "=Z", true, RI(mpz_tstbit(Z0, bc(a, 6000))), 0), OPZ(mpz_scan0, "=Z", true, RI(mpz_scan0(Z0, bc(a, 6000))), 0), OPZ(mpz_scan1, "=Z", true, RI(mpz_scan1(Z0, bc(a, 6000))), 0),
  OPZ(mpz_popcount, "=Z", true, RI(mpz_popcount(Z0)), 0), OPZ(mpz_hamdist, "=ZZ", true, RI(mpz_hamdist(Z0, Z1)), 0),
  // ---- comparison / conversion ------------------------------------------------------------------------------------------
  OPZ(mpz_cmp, "=ZZ", true, RI((mpz_cmp(Z0, Z1) > 0) - (mpz_cmp(Z0, Z1) < 0)), 0), OPZ(mpz_cmpabs, "=ZZ", true, RI((mpz_cmpabs(Z0, Z1) > 0) - (mpz_cmpabs(Z0, Z1) < 0)), 0),
  OPZ(mpz_cmp_ui, "=Z", true, { int c = mpz_cmp_ui(Z0, U0); RI((c > 0) - (c < 0)); }, 0), OPZ(mpz_cmp_si, "=Z", true, { int c = mpz_cmp_si(Z0, S0); RI((c > 0) - (c < 0)); }, 0), OPZ(mpz_cmp_d, "=Z", !std::isnan(a.d), { int c = mpz_cmp_d(Z0, a.d); RI((c > 0) - (c < 0)); }, 0),
  OPZ(mpz_cmpabs_ui, "=Z", true, { int c = mpz_cmpabs_ui(Z0, U0); RI((c > 0) - (c < 0)); }, 0), OPZ(mpz_cmpabs_d, "=Z", !std::isnan(a.d), { int c = mpz_cmpabs_d(Z0, a.d); RI((c > 0) - (c < 0)); }, 0),
  OPZ(mpz_sgn, "=Z", true, RI(mpz_sgn(Z0)), 0), OPZ(mpz_size, "=Z", true, RI(mpz_size(Z0)), 0), OPZ(mpz_sizeinbase, "=Z", true, RI(mpz_sizeinbase(Z0, nbase(a))), 0), OPZ(mpz_getlimbn, "=Z", znz(Z0), RI(mpz_getlimbn(Z0, (mp_size_t)(U0 % zl(Z0)))), 0),
  OPZ(mpz_fits, "=Z", true, { RI(mpz_fits_ulong_p(Z0) != 0); RI(mpz_fits_slong_p(Z0) != 0); RI(mpz_fits_uint_p(Z0) != 0); RI(mpz_fits_sint_p(Z0) != 0); RI(mpz_fits_ushort_p(Z0) != 0); RI(mpz_fits_sshort_p(Z0) != 0); }, 0),
  OPZ(mpz_get_ui, "=Z", true, RI(mpz_get_ui(Z0)), 0), OPZ(mpz_get_si, "=Z", mpz_fits_slong_p(Z0), RI(mpz_get_si(Z0)), 0), OPZ(mpz_get_d, "=Z", true, r.dv.push_back(mpz_get_d(Z0)), 0), OPZ(mpz_get_d_2exp, "=Z", true, { mpir_si e; r.dv.push_back(mpz_get_d_2exp(&e, Z0)); RI(e); }, 0),
  OPZ(mpz_set_ui, "Z=", true, mpz_set_ui(Z0, U0), 0), OPZ(mpz_set_si, "Z=", true, mpz_set_si(Z0, S0), 0), OPZ(mpz_set_d, "Z=", std::isfinite(a.d), mpz_set_d(Z0, a.d), 0), OPZ(mpz_set_q, "Z=Q", true, mpz_set_q(Z0, Q0), 0), OPZ(mpz_set_f, "Z=F", F0->_mp_exp < 200, mpz_set_f(Z0, F0), 0),
  OPZ(mpz_swap, "ZZ=", true, mpz_swap(Z0, Z1), 0),
  OPZ(mpz_set_str, "Z=", true, RI(mpz_set_str(Z0, a.str.c_str(), a.base % 63 == 1 ? 0 : (int)((unsigned)a.base % 63))), 0),
  OPZ(mpz_get_str, "=Z", true, r.sv.push_back(take_str(mpz_get_str(nullptr, (a.base & 64) && nbase(a) <= 36 ? -nbase(a) : nbase(a), Z0))), 0),
  OPZ(mpz_get_str_buf, "=Z", true, { int b = nbase(a); size_t n = mpz_sizeinbase(Z0, b) + 2; char* p = (char*)malloc(n); mpz_get_str(p, b, Z0); r.sv.push_back(std::string(p, strnlen(p, n))); free(p); }, 0),
  OPZ(mpz_out_str, "=Z", true, { char* m = nullptr; size_t ml = 0; FILE* fp = open_memstream(&m, &ml); RI(mpz_out_str(fp, nbase(a), Z0)); fclose(fp); r.sv.push_back(std::string(m, ml)); free(m); }, F_STDIO),
  OPZ(mpz_inp_str, "Z=", true, { std::string s = a.str + " "; FILE* fp = fmemopen((void*)s.data(), s.size(), "r"); RI(mpz_inp_str(Z0, fp, (int)((unsigned)a.base % 63) == 1 ? 0 : (int)((unsigned)a.base % 63))); fclose(fp); if (r.iv.back() == 0) { if (const char* e = gen::mpz_illformed(Z0)) r.sv.push_back(std::string("ILL-FORMED destination after a failed read: ") + e); mpz_set_ui(Z0, 0); } }, F_STDIO),
  OPZ(mpz_out_raw, "=Z", true, { char* m = nullptr; size_t ml = 0; FILE* fp = open_memstream(&m, &ml); RI(mpz_out_raw(fp, Z0)); fclose(fp); r.sv.push_back(std::string(m, ml)); free(m); }, F_STDIO),
  OPZ(mpz_out_raw_inp_raw, "Z=Z", true, { char* m = nullptr; size_t ml = 0; FILE* fp = open_memstream(&m, &ml); mpz_out_raw(fp, Z1); fclose(fp); FILE* fi = fmemopen(m, ml, "r"); RI(mpz_inp_raw(Z0, fi)); fclose(fi); free(m); }, F_STDIO),
  OPZ(mpz_inp_raw_garbage, "Z=", true, { std::string s = a.str; if (s.size() >= 4) { s[0] = 0; s[1] = 0; s[2] &= 3; } FILE* fp = fmemopen((void*)(s.empty() ? "x" : s.data()), s.empty() ? 1 : s.size(), "r"); if (s.empty()) fgetc(fp); size_t n = mpz_inp_raw(Z0, fp); fclose(fp); RI(n); if (n == 0) { if (const char* e = gen::mpz_illformed(Z0)) r.sv.push_back(std::string("ILL-FORMED destination after a failed read: ") + e); mpz_set_ui(Z0, 0); } }, F_STDIO),
  OPZ(mpz_inp_raw_truncated, "Z=Z", true, { char* m = nullptr; size_t ml = 0; FILE* fp = open_memstream(&m, &ml); mpz_out_raw(fp, Z1); fclose(fp); size_t cut = (a.base & 1) ? ml : (size_t)(a.u[2] % (ml + 1)); if (cut == 0) cut = 1; FILE* fi = fmemopen(m, cut, "r"); size_t n = mpz_inp_raw(Z0, fi); fclose(fi); free(m); RI(n);
    if (n == 0) { if (const char* e = gen::mpz_illformed(Z0)) r.sv.push_back(std::string("ILL-FORMED destination after a failed read: ") + e); mpz_set_ui(Z0, 0); } }, F_STDIO),
  OPZ(mpz_export_import, "Z=Z", true, { size_t sz = 1 + a.u[2] % 9; size_t nails = (a.u[1] >> 8) % (8 * sz); int order = (a.u[1] & 1) ? 1 : -1; int endian = (int)((a.u[1] >> 1) % 3) - 1; size_t cnt = 0; size_t numb = 8 * sz - nails; size_t need = (mpz_sizeinbase(Z1, 2) + numb - 1) / numb;
      void* p = malloc(need * sz ? need * sz : 1); mpz_export(p, &cnt, order, sz, endian, nails, Z1); RI(cnt); int sg = mpz_sgn(Z1); mpz_import(Z0, cnt, order, sz, endian, nails, p); if (sg < 0) mpz_neg(Z0, Z0); free(p); }, 0),
  OPZ(mpz_export_alloc, "=Z", true, { size_t cnt = 0; void* p = mpz_export(nullptr, &cnt, 1, 8, 0, 0, Z0); RI(cnt); if (p) { void (*fr)(void*, size_t); mp_get_memory_functions(nullptr, nullptr, &fr); fr(p, cnt * 8); } }, 0),
  OPZ(mpz_urandomb, "Z=R", true, mpz_urandomb(Z0, a.r, bc(a, 4000)), F_RAND), OPZ(mpz_urandomm, "Z=ZR", znz(Z1) && Z1->_mp_size > 0, mpz_urandomm(Z0, a.r, Z1), F_RAND), OPZ(mpz_rrandomb, "Z=R", true, mpz_rrandomb(Z0, a.r, bc(a, 4000)), F_RAND),
  OPZ(mpz_limbs_rw, "Z=Z", true, { mp_size_t n = (mp_size_t)zl(Z1); if (Z0 == Z1) { mp_ptr p = mpz_limbs_modify(Z0, n + 1); p[n] = 1; mpz_limbs_finish(Z0, n + 1); } else { mp_srcptr s = mpz_limbs_read(Z1); mp_ptr p = mpz_limbs_write(Z0, n + 1); for (mp_size_t i = 0; i < n; i++) p[i] = s[i]; p[n] = 1; mpz_limbs_finish(Z0, n + 1); } }, 0),
  OPZ(mpz_roinit_n, "Z=Z", a.z[0] != a.z[1] /* the read-only view borrows the limbs of its source */, { mpz_t ro; mp_size_t n = (mp_size_t)zl(Z1); mpz_srcptr v = mpz_roinit_n(ro, Z1->_mp_d, Z1->_mp_size); mpz_add_ui(Z0, v, 1); (void)n; }, 0),
  OPZ(gmp_asprintf_Z, "=Z", true, { char* p = nullptr; int n = gmp_asprintf(&p, "%Zd|%#Zx|%20Zd", Z0, Z0, Z0); RI(n); r.sv.push_back(take_str(p)); }, F_STDIO),
  OPZ(gmp_snprintf_Z, "=Z", true, { size_t sz = a.u[2] % 40; char* p = (char*)malloc(sz ? sz : 1); int n = gmp_snprintf(sz ? p : nullptr, sz, "<%Zd>", Z0); RI(n); if (sz) r.sv.push_back(std::string(p, strnlen(p, sz))); free(p); }, F_STDIO),
  OPZ(gmp_sscanf_Z, "Z=", true, { int n = gmp_sscanf(a.str.c_str(), "%Zi", Z0); RI(n); if (n != 1) mpz_set_ui(Z0, 0); }, F_STDIO),
  // ---- mpq -----------------------------------------------------------------------------------------------------------------
  OPZ(mpq_add, "Q=QQ", true, mpq_add(Q0, Q1, Q2), 0), OPZ(mpq_sub, "Q=QQ", true, mpq_sub(Q0, Q1, Q2), 0), OPZ(mpq_mul, "Q=QQ", true, mpq_mul(Q0, Q1, Q2), 0), OPZ(mpq_div, "Q=QQ", qnz(Q2), mpq_div(Q0, Q1, Q2), 0),
  OPZ(mpq_inv, "Q=Q", qnz(Q1), mpq_inv(Q0, Q1), 0), OPZ(mpq_neg, "Q=Q", true, mpq_neg(Q0, Q1), 0), OPZ(mpq_abs, "Q=Q", true, mpq_abs(Q0, Q1), 0), OPZ(mpq_set, "Q=Q", true, mpq_set(Q0, Q1), 0),
  OPZ(mpq_mul_2exp, "Q=Q", true, mpq_mul_2exp(Q0, Q1, bc(a, 800)), 0), OPZ(mpq_div_2exp, "Q=Q", true, mpq_div_2exp(Q0, Q1, bc(a, 800)), 0),
  OPZ(mpq_set_z, "Q=Z", true, mpq_set_z(Q0, Z0), 0), OPZ(mpq_set_si, "Q=", a.u[2] != 0, { mpq_set_si(Q0, S0, a.u[2]); mpq_canonicalize(Q0); }, 0), OPZ(mpq_set_ui, "Q=", a.u[2] != 0, { mpq_set_ui(Q0, U0, a.u[2]); mpq_canonicalize(Q0); }, 0),
  OPZ(mpq_set_d, "Q=", std::isfinite(a.d), mpq_set_d(Q0, a.d), 0), OPZ(mpq_set_f, "Q=F", std::abs((long)F0->_mp_exp) < 60, mpq_set_f(Q0, F0), 0),
  OPZ(mpq_set_num_den, "Q=ZZ", znz(Z1), { mpq_set_num(Q0, Z0); mpq_set_den(Q0, Z1); mpq_canonicalize(Q0); }, 0), OPZ(mpq_get_num_den, "ZZ=Q", true, { mpq_get_num(Z0, Q0); mpq_get_den(Z1, Q0); }, 0),
  OPZ(mpq_cmp, "=QQ", true, { int c = mpq_cmp(Q0, Q1); RI((c > 0) - (c < 0)); }, 0), OPZ(mpq_cmp_ui, "=Q", a.u[2] != 0, { int c = mpq_cmp_ui(Q0, U0, a.u[2]); RI((c > 0) - (c < 0)); }, 0), OPZ(mpq_cmp_si, "=Q", a.u[2] != 0, { int c = mpq_cmp_si(Q0, S0, a.u[2]); RI((c > 0) - (c < 0)); }, 0),
  OPZ(mpq_cmp_z, "=QZ", true, { int c = mpq_cmp_z(Q0, Z0); RI((c > 0) - (c < 0)); }, 0), OPZ(mpq_equal, "=QQ", true, RI(mpq_equal(Q0, Q1) != 0), 0), OPZ(mpq_get_d, "=Q", true, r.dv.push_back(mpq_get_d(Q0)), 0), OPZ(mpq_swap, "QQ=", true, mpq_swap(Q0, Q1), 0),
  OPZ(mpq_get_str, "=Q", true, r.sv.push_back(take_str(mpq_get_str(nullptr, nbase36(a), Q0))), 0),
  OPZ(mpq_set_str, "Q=", true, { int rc = mpq_set_str(Q0, a.str.c_str(), nbase36(a)); RI(rc); if (rc != 0 || mpz_sgn(mpq_denref(Q0)) == 0) mpq_set_ui(Q0, 0, 1); else mpq_canonicalize(Q0); }, 0),
  OPZ(mpq_out_inp_str, "Q=Q", true, { char* m = nullptr; size_t ml = 0; FILE* fp = open_memstream(&m, &ml); RI(mpq_out_str(fp, nbase36(a), Q1)); fclose(fp); FILE* fi = fmemopen(m, ml, "r"); RI(mpq_inp_str(Q0, fi, nbase36(a))); fclose(fi); free(m); }, F_STDIO),
  OPZ(gmp_asprintf_Q, "=Q", true, { char* p = nullptr; int n = gmp_asprintf(&p, "%Qd %#Qx", Q0, Q0); RI(n); r.sv.push_back(take_str(p)); }, F_STDIO),
  // ---- mpf --------------------------------------------------------------------------------------------------------------------
  OPZ(mpf_add, "F=FF", true, mpf_add(F0, F1, F2), 0), OPZ(mpf_sub, "F=FF", true, mpf_sub(F0, F1, F2), 0), OPZ(mpf_mul, "F=FF", true, mpf_mul(F0, F1, F2), 0), OPZ(mpf_div, "F=FF", fnz(F2), mpf_div(F0, F1, F2), 0),
  OPZ(mpf_sqrt, "F=F", F1->_mp_size >= 0, mpf_sqrt(F0, F1), 0), OPZ(mpf_neg, "F=F", true, mpf_neg(F0, F1), 0), OPZ(mpf_abs, "F=F", true, mpf_abs(F0, F1), 0), OPZ(mpf_set, "F=F", true, mpf_set(F0, F1), 0),
  OPZ(mpf_mul_2exp, "F=F", true, mpf_mul_2exp(F0, F1, bc(a, 500)), 0), OPZ(mpf_div_2exp, "F=F", true, mpf_div_2exp(F0, F1, bc(a, 500)), 0),
  OPZ(mpf_add_ui, "F=F", true, mpf_add_ui(F0, F1, U0), 0), OPZ(mpf_sub_ui, "F=F", true, mpf_sub_ui(F0, F1, U0), 0), OPZ(mpf_ui_sub, "F=F", true, mpf_ui_sub(F0, U0, F1), 0), OPZ(mpf_mul_ui, "F=F", true, mpf_mul_ui(F0, F1, U0), 0),
  OPZ(mpf_div_ui, "F=F", U0 != 0, mpf_div_ui(F0, F1, U0), 0), OPZ(mpf_ui_div, "F=F", fnz(F1), mpf_ui_div(F0, U0, F1), 0), OPZ(mpf_pow_ui, "F=F", true, mpf_pow_ui(F0, F1, U0 % 30), 0), OPZ(mpf_sqrt_ui, "F=", true, mpf_sqrt_ui(F0, U0), 0),
  OPZ(mpf_floor, "F=F", true, mpf_floor(F0, F1), 0), OPZ(mpf_ceil, "F=F", true, mpf_ceil(F0, F1), 0), OPZ(mpf_trunc, "F=F", true, mpf_trunc(F0, F1), 0), OPZ(mpf_reldiff, "F=FF", fnz(F1), mpf_reldiff(F0, F1, F2), 0),
  OPZ(mpf_set_ui, "F=", true, mpf_set_ui(F0, U0), 0), OPZ(mpf_set_si, "F=", true, mpf_set_si(F0, S0), 0), OPZ(mpf_set_d, "F=", std::isfinite(a.d), mpf_set_d(F0, a.d), 0), OPZ(mpf_set_z, "F=Z", true, mpf_set_z(F0, Z0), 0), OPZ(mpf_set_q, "F=Q", true, mpf_set_q(F0, Q0), 0),
  OPZ(mpf_cmp, "=FF", true, { int c = mpf_cmp(F0, F1); RI((c > 0) - (c < 0)); }, 0), OPZ(mpf_cmp_ui, "=F", true, { int c = mpf_cmp_ui(F0, U0); RI((c > 0) - (c < 0)); }, 0), OPZ(mpf_cmp_si, "=F", true, { int c = mpf_cmp_si(F0, S0); RI((c > 0) - (c < 0)); }, 0),
  OPZ(mpf_cmp_d, "=F", !std::isnan(a.d), { int c = mpf_cmp_d(F0, a.d); RI((c > 0) - (c < 0)); }, 0), OPZ(mpf_cmp_z, "=FZ", true, { int c = mpf_cmp_z(F0, Z0); RI((c > 0) - (c < 0)); }, 0), OPZ(mpf_eq, "=FF", true, RI(mpf_eq(F0, F1, bc(a, 300)) != 0), 0),
  OPZ(mpf_integer_p, "=F", true, RI(mpf_integer_p(F0) != 0), 0), OPZ(mpf_fits, "=F", true, { RI(mpf_fits_ulong_p(F0) != 0); RI(mpf_fits_slong_p(F0) != 0); RI(mpf_fits_uint_p(F0) != 0); RI(mpf_fits_sint_p(F0) != 0); RI(mpf_fits_ushort_p(F0) != 0); RI(mpf_fits_sshort_p(F0) != 0); }, 0),
  OPZ(mpf_get_d, "=F", true, r.dv.push_back(mpf_get_d(F0)), 0), OPZ(mpf_get_d_2exp, "=F", true, { mpir_si e; r.dv.push_back(mpf_get_d_2exp(&e, F0)); RI(e); }, 0),
  OPZ(mpf_get_si, "=F", mpf_fits_slong_p(F0), RI(mpf_get_si(F0)), 0), OPZ(mpf_get_ui, "=F", mpf_fits_ulong_p(F0), RI(mpf_get_ui(F0)), 0), OPZ(mpf_swap, "FF=", true, mpf_swap(F0, F1), 0),
  OPZ(mpf_get_str, "=F", true, { mp_exp_t e; r.sv.push_back(take_str(mpf_get_str(nullptr, &e, nbase(a), a.u[2] % 50, F0))); RI(e); }, 0),
  OPZ(mpf_get_str_buf, "=F", true, { mp_exp_t e; size_t nd = 1 + a.u[2] % 50; char* p = (char*)malloc(nd + 2); mpf_get_str(p, &e, nbase(a), nd, F0); r.sv.push_back(std::string(p, strnlen(p, nd + 2))); RI(e); free(p); }, 0),
  OPZ(mpf_set_str, "F=", true, { int rc = mpf_set_str(F0, a.str.c_str(), (a.base & 64) ? -nbase(a) : nbase(a)); RI(rc); if (rc != 0) mpf_set_ui(F0, 0); }, 0),
  OPZ(mpf_out_inp_str, "F=F", true, { char* m = nullptr; size_t ml = 0; FILE* fp = open_memstream(&m, &ml); RI(mpf_out_str(fp, nbase36(a), a.u[2] % 40, F1)); fclose(fp); FILE* fi = fmemopen(m, ml, "r"); RI(mpf_inp_str(F0, fi, -nbase36(a))); fclose(fi); free(m); }, F_STDIO),
  OPZ(mpf_urandomb, "F=R", true, mpf_urandomb(F0, a.r, bc(a, 900) + 1), F_RAND),
  OPZ(gmp_asprintf_F, "=F", true, { char* p = nullptr; int n = gmp_asprintf(&p, "%.20Fe %Ff %.*Fg", F0, F0, (int)(a.u[2] % 30), F0); RI(n); r.sv.push_back(take_str(p)); }, F_STDIO),
  OPZ(gmp_sscanf_F, "F=", true, { int n = gmp_sscanf(a.str.c_str(), "%Ff", F0); RI(n); if (n != 1) mpf_set_ui(F0, 0); }, F_STDIO),
  // clear + init_set forms: the destination is released and initialised afresh by the call under test
  OPZ(mpz_init_set, "Z=Z", a.z[0] != a.z[1], { mpz_clear(Z0); mpz_init_set(Z0, Z1); }, 0), OPZ(mpz_init_set_ui, "Z=", true, { mpz_clear(Z0); mpz_init_set_ui(Z0, U0); }, 0), OPZ(mpz_init_set_si, "Z=", true, { mpz_clear(Z0); mpz_init_set_si(Z0, S0); }, 0),
  OPZ(mpz_init_set_d, "Z=", std::isfinite(a.d), { mpz_clear(Z0); mpz_init_set_d(Z0, a.d); }, 0), OPZ(mpz_init_set_ux, "Z=", true, { mpz_clear(Z0); mpz_init_set_ux(Z0, (uintmax_t)U0); }, 0), OPZ(mpz_init_set_sx, "Z=", true, { mpz_clear(Z0); mpz_init_set_sx(Z0, (intmax_t)S0); }, 0),
  OPZ(mpz_init_set_str, "Z=", true, { mpz_clear(Z0); RI(mpz_init_set_str(Z0, a.str.c_str(), a.base % 63 == 1 ? 0 : (int)((unsigned)a.base % 63))); }, 0),
  OPZ(mpz_inits_clears, "ZZ=", a.z[0] != a.z[1], { mpz_clears(Z0, Z1, (mpz_ptr)0); mpz_inits(Z0, Z1, (mpz_ptr)0); mpz_set_ui(Z1, U0); }, 0),
  OPZ(mpq_inits_clears, "Q=", true, { mpq_clears(Q0, (mpq_ptr)0); mpq_inits(Q0, (mpq_ptr)0); mpq_set_si(Q0, S0 % 1000, 1 + U0 % 1000); mpq_canonicalize(Q0); }, 0),
  // mpn entry points on the limbs of mpz operands (results stored back through the documented mpz_limbs_write / finish interface)
  OPZ(mpn_mul_via_limbs, "Z=ZZ", znz(Z1) && znz(Z2) && a.z[0] != a.z[1] && a.z[0] != a.z[2], body_mpn_mul_via_limbs(a, r), 0),
  OPZ(mpn_sqr_via_limbs, "Z=Z", znz(Z1) && a.z[0] != a.z[1], body_mpn_sqr_via_limbs(a, r), 0),
  OPZ(mpn_tdiv_qr_via_limbs, "ZZ=ZZ", znz(Z2) && znz(Z3) && zl(Z2) >= zl(Z3) && a.z[0] != a.z[2] && a.z[0] != a.z[3] && a.z[1] != a.z[2] && a.z[1] != a.z[3], body_mpn_tdiv_qr_via_limbs(a, r), 0),
  OPZ(mpn_sqrtrem_via_limbs, "ZZ=Z", znz(Z2) && a.z[0] != a.z[2] && a.z[1] != a.z[2], body_mpn_sqrtrem_via_limbs(a, r), 0),
  OPZ(mpn_get_set_str_via_limbs, "Z=Z", znz(Z1) && a.z[0] != a.z[1], body_mpn_get_set_str_via_limbs(a, r), 0),
  OPZ(mpn_divrem_1_mod_1, "Z=Z", znz(Z1) && a.z[0] != a.z[1], body_mpn_divrem_1_mod_1(a, r), 0),
  OPZ(gmp_asprintf_width, "=Z", true, { int w = asprintf_width(a); char* p = nullptr; int n = gmp_asprintf(&p, (a.base & 2) ? "%-*Zd" : "%*Zx", w, Z0); RI(n); r.sv.push_back(take_str(p)); }, F_STDIO),
  OPZ(mpf_rrandomb, "F=R", true, mpf_rrandomb(F0, a.r, (mp_size_t)(a.s[0] % 9), (mp_exp_t)(a.u[2] % 50)), F_RAND),
  // ---- remaining documented entry points (fifth round): limb-count reallocation, intmax conversions, mpf init_set forms, the rest of the printf / scanf family
  OPZ(_mpz_realloc, "Z=", true, { size_t n = zl(Z0); int sz0 = Z0->_mp_size; std::vector<mp_limb_t> old(Z0->_mp_d, Z0->_mp_d + n); size_t na = (size_t)(a.u[2] % 4 == 0 ? n : a.u[2] % 4 == 1 ? n + U0 % 5 : a.u[2] % 4 == 2 ? (n ? n - 1 : 0) : U0 % 40); _mpz_realloc(Z0, (mp_size_t)na);
      /* documented: the value is preserved if it fits, or is set to 0 if not; never allocate zero space */ bool fits = n <= std::max<size_t>(na, 1);
      if ((size_t)Z0->_mp_alloc != std::max<size_t>(na, 1)) r.sv.push_back("ILL-FORMED: _mpz_realloc did not record the requested allocation"); else if (fits ? (Z0->_mp_size != sz0 || memcmp(Z0->_mp_d, old.data(), n * 8) != 0) : Z0->_mp_size != 0) r.sv.push_back("ILL-FORMED: _mpz_realloc changed a value that fits, or kept one that does not"); }, 0),
  OPZ(mpz_set_ux_sx, "Z=", true, { if (a.base & 1) mpz_set_ux(Z0, (uintmax_t)U0); else mpz_set_sx(Z0, (intmax_t)S0); }, 0),
  OPZ(mpz_get_ux_sx, "=Z", true, { RI(mpz_get_ux(Z0)); RI(mpz_get_sx(Z0)); RI(mpz_fits_ui_p(Z0) != 0); RI(mpz_fits_si_p(Z0) != 0); }, 0),
  OPZ(mpf_fits_ui_si_size, "=F", true, { RI(mpf_fits_ui_p(F0) != 0); RI(mpf_fits_si_p(F0) != 0); RI(mpf_size(F0)); }, 0),
  OPZ(mpf_init_set, "F=F", a.f[0] != a.f[1], { mpf_clear(F0); mpf_init_set(F0, F1); }, 0), OPZ(mpf_init_set_ui, "F=", true, { mpf_clear(F0); mpf_init_set_ui(F0, U0); }, 0), OPZ(mpf_init_set_si, "F=", true, { mpf_clear(F0); mpf_init_set_si(F0, S0); }, 0),
  OPZ(mpf_init_set_d, "F=", std::isfinite(a.d), { mpf_clear(F0); mpf_init_set_d(F0, a.d); }, 0),
  OPZ(mpf_init_set_str, "F=", true, { mpf_clear(F0); int rc = mpf_init_set_str(F0, a.str.c_str(), (a.base & 64) ? -nbase(a) : nbase(a)); RI(rc); if (rc != 0) mpf_set_ui(F0, 0); }, 0),
  OPZ(mpf_inits_clears, "F=", true, { mpf_clears(F0, (mpf_ptr)0); mpf_inits(F0, (mpf_ptr)0); mpf_set_si(F0, S0); }, 0),
  OPZ(mpz_miller_rabin, "=ZR", CAP(Z0, 4) && Z0->_mp_size >= 0, RI(mpz_miller_rabin(Z0, 5, a.r) != 0), F_SLOW | F_RAND),
  OPZ(gmp_urandom_ui, "Z=R", true, { mpir_ui m = U0 ? U0 : 1; mpir_ui x = gmp_urandomm_ui(a.r, m); mpir_ui y = gmp_urandomb_ui(a.r, 1 + bc(a, 64)); mpz_set_ui(Z0, x); mpz_mul_2exp(Z0, Z0, 64); mpz_add_ui(Z0, Z0, y); RI(x < m); }, F_RAND),
  OPZ(gmp_sprintf_Z, "=Z", true, { int len = gmp_snprintf(nullptr, 0, "%Zd,%5d,%#Zo", Z0, (int)S0, Z0); RI(len); char* p = (char*)malloc((size_t)len + 1); int n = gmp_sprintf(p, "%Zd,%5d,%#Zo", Z0, (int)S0, Z0); RI(n); r.sv.push_back(std::string(p, strnlen(p, (size_t)len + 1))); free(p); }, F_STDIO),
  OPZ(gmp_vsprintf_Q, "=Q", true, { int len = call_vsnprintf(nullptr, 0, "%Qd|%*Qx", Q0, (int)(a.u[2] % 70), Q0); RI(len); char* p = (char*)malloc((size_t)len + 1); int n = call_vsprintf(p, "%Qd|%*Qx", Q0, (int)(a.u[2] % 70), Q0); RI(n); r.sv.push_back(std::string(p, strnlen(p, (size_t)len + 1))); free(p); }, F_STDIO),
  OPZ(gmp_fprintf_Z, "=Z", true, { char* m = nullptr; size_t ml = 0; FILE* fp = open_memstream(&m, &ml); RI(gmp_fprintf(fp, "%Zx %s %-*Zd|", Z0, "s", asprintf_width(a), Z0)); fclose(fp); r.sv.push_back(std::string(m, ml)); free(m); }, F_STDIO),
  OPZ(gmp_vfprintf_F, "=F", true, { char* m = nullptr; size_t ml = 0; FILE* fp = open_memstream(&m, &ml); RI(call_vfprintf(fp, "%.*Fe %Fg", (int)(a.u[2] % 40), F0, F0)); fclose(fp); r.sv.push_back(std::string(m, ml)); free(m); }, F_STDIO),
  OPZ(gmp_vasprintf_F, "=F", true, { char* p = nullptr; int n = call_vasprintf(&p, "%*.*Ff", (int)(a.u[2] % 300), (int)(a.u[1] % 20), F0); RI(n); r.sv.push_back(take_str(p)); }, F_STDIO),
  OPZ(gmp_vsnprintf_F, "=F", true, { size_t sz = a.u[2] % 60; char* p = (char*)malloc(sz ? sz : 1); int n = call_vsnprintf(sz ? p : nullptr, sz, "[%Fe]", F0); RI(n); if (sz) r.sv.push_back(std::string(p, strnlen(p, sz))); free(p); }, F_STDIO),
  OPZ(gmp_fscanf_Z, "Z=", true, { std::string s = a.str + " "; FILE* fp = fmemopen((void*)s.data(), s.size(), "r"); int n = gmp_fscanf(fp, " %Zd", Z0); fclose(fp); RI(n); if (n != 1) mpz_set_ui(Z0, 0); }, F_STDIO),
  OPZ(gmp_vsscanf_Q, "Q=", true, { int n = call_vsscanf(a.str.c_str(), "%Qi", Q0); RI(n); if (n != 1 || mpz_sgn(mpq_denref(Q0)) == 0) mpq_set_ui(Q0, 0, 1); else mpq_canonicalize(Q0); }, F_STDIO),
  OPZ(gmp_vfscanf_F, "F=", true, { std::string s = a.str + " "; FILE* fp = fmemopen((void*)s.data(), s.size(), "r"); int n = call_vfscanf(fp, "%Fg", F0); fclose(fp); RI(n); if (n != 1) mpf_set_ui(F0, 0); }, F_STDIO),
};
static const size_t NOPS = sizeof OPS / sizeof OPS[0];
#undef Z0
#undef Z1
#undef Z2
#undef Z3
#undef Z4
#undef Q0
#undef Q1
#undef Q2
#undef F0
#undef F1
#undef F2
#undef U0
#undef S0
#undef RI
#undef CAP

// parse the signature: counts of output / input objects per class
struct Sig { int zo = 0, zi = 0, qo = 0, qi = 0, fo = 0, fi = 0; bool rnd = false; };
static inline Sig parse_sig(const char* s) { Sig g; bool in = false; for (; *s; s++) { if (*s == '=') { in = true; continue; } if (*s == 'R') { g.rnd = true; continue; } int* p = *s == 'Z' ? (in ? &g.zi : &g.zo) : *s == 'Q' ? (in ? &g.qi : &g.qo) : (in ? &g.fi : &g.fo); (*p)++; } return g; }

// strings for the parsing functions: valid numbers, near-valid, arbitrary bytes
static inline std::string gen_string(eng::ByteSource& in) {
  unsigned k = in.pick({5, 3, 2, 2}); std::string s; size_t n = (size_t)in.range(0, 40);
  static const char valid[] = "0123456789"; static const char near[] = "0123456789abcdefABCDEFxX -+./@e";
  if (k == 0) { if (in.flag()) s += '-'; for (size_t i = 0; i <= n; i++) s += valid[in.range(0, 9)]; }
  else if (k == 1) { for (size_t i = 0; i < n; i++) s += near[in.range(0, sizeof near - 2)]; }
  else if (k == 2) { for (size_t i = 0; i < n; i++) { char c = (char)in.u8(); s += c ? c : '0'; } }
  else { if (in.flag()) s += "0x"; for (size_t i = 0; i <= n; i++) s += "0123456789abcdef"[in.range(0, 15)]; if (in.flag()) { s += '/'; for (size_t i = 0; i <= n / 2; i++) s += valid[in.range(0, 9)]; } }
  return s;
}
}  // namespace api
