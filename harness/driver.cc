// Drivers for the byte-stream engine: PBT (forked workers, shrinking), replay,
// and (with -DENG_FUZZ) libFuzzer.  Linked into every props/Cxx binary.
#include "engine.hpp"
#include <unistd.h>
#include <signal.h>
#include <sys/wait.h>
#include <sys/stat.h>
#include <sys/time.h>
#include <fcntl.h>
#include <cmath>
#include <cerrno>

#if defined(__has_feature)
#if __has_feature(address_sanitizer) || __has_feature(thread_sanitizer)
#define ENG_SANITIZED 1
extern "C" void __sanitizer_set_death_callback(void (*)(void));
#endif
#endif

extern "C" const char* __asan_default_options() { return "exitcode=3:detect_leaks=0:allocator_may_return_null=1:handle_abort=1:handle_sigfpe=1:handle_sigill=1:detect_stack_use_after_return=0"; }
extern "C" const char* __tsan_default_options() { return "exitcode=3:halt_on_error=1"; }
extern "C" const char* __ubsan_default_options() { return "halt_on_error=1:print_stacktrace=1"; }
namespace eng {
std::set<std::string> g_known;
Params g_params;

static std::vector<uint8_t> g_cur;       // bytes of the case being executed
static std::string g_crashfile;          // where to dump g_cur if the process dies

extern "C" __attribute__((weak)) int __lsan_do_recoverable_leak_check();
static std::string g_crashdesc, g_crashmsg;
static CaseInfo* g_cur_ci = nullptr;     // for printing the partial description if the case crashes
static bool g_print_desc_on_crash = false;
static std::string g_sweep_dir; static uint64_t g_sweep_cur = UINT64_MAX;   // set while a sweep item runs: a crash inside it is a violation of that item
static void dump_cur() {
  if (g_sweep_cur != UINT64_MAX) { std::string path = g_sweep_dir + "/sweepfail." + std::to_string(g_sweep_cur); const char m[] = "crash (signal or sanitizer abort) inside the sweep item"; int fd = open(path.c_str(), O_WRONLY | O_CREAT | O_TRUNC, 0644); if (fd >= 0) { ssize_t r = write(fd, m, sizeof m - 1); (void)r; close(fd); } return; }
  if (g_print_desc_on_crash && g_cur_ci) { printf("case (crashed; description so far): %s\n", g_cur_ci->desc.c_str()); fflush(stdout); }
  if (!g_crashdesc.empty() && g_cur_ci) { std::string t = "property " + std::string(g_prop.id) + "\nfailure: " + g_crashmsg + "\ncase (crashes; description up to the crashing call): " + g_cur_ci->desc + "\n"; FILE* f = fopen(g_crashdesc.c_str(), "w"); if (f) { fwrite(t.data(), 1, t.size(), f); fclose(f); } }
  if (g_crashfile.empty()) return;
  int fd = open(g_crashfile.c_str(), O_WRONLY | O_CREAT | O_TRUNC, 0644);
  if (fd >= 0) { ssize_t r = write(fd, g_cur.data(), g_cur.size()); (void)r; close(fd); }
}
static void death_cb() { dump_cur(); }
static void sig_h(int sig) {
  dump_cur();
  const char m[] = "ENGINE: fatal signal in case\n"; ssize_t r = write(2, m, sizeof m - 1); (void)r; (void)sig;
  _exit(3);
}
static void install_crash_handlers() {
#ifdef ENG_SANITIZED
  __sanitizer_set_death_callback(death_cb);
#endif
  int sigs[] = {SIGSEGV, SIGBUS, SIGFPE, SIGILL, SIGABRT};
  for (int s : sigs) {
    struct sigaction old; sigaction(s, nullptr, &old);
    if (old.sa_handler == SIG_DFL || old.sa_handler == SIG_IGN) {   // do not displace the sanitizer's handler
      struct sigaction sa; memset(&sa, 0, sizeof sa); sa.sa_handler = sig_h; sigaction(s, &sa, nullptr);
    }
  }
}

static double now() { struct timeval tv; gettimeofday(&tv, nullptr); return tv.tv_sec + tv.tv_usec * 1e-6; }

// ---- running one case ------------------------------------------------------
struct RunOut { bool failed = false; std::string msg; CaseInfo ci; };
static RunOut run_case(const std::vector<uint8_t>& bytes, bool want_desc) {
  RunOut o; o.ci.want_desc = want_desc;
  g_cur = bytes;
  ByteSource in(g_cur.data(), g_cur.size());
  g_cur_ci = &o.ci;
  try { g_prop.check(in, o.ci); }
  catch (Fail& f) { o.failed = true; o.msg = f.msg; }
  o.ci.hash = in.h; g_cur_ci = nullptr;
  return o;
}

// run in a forked child: 0 pass, 1 property failure, 3 crash, 4 timeout
static int run_forked(const std::vector<uint8_t>& bytes, std::string* msg, int timeout_s) {
  int pfd[2]; if (pipe(pfd)) return 0;
  fflush(stdout); fflush(stderr);
  pid_t pid = fork();
  if (pid == 0) {
    close(pfd[0]);
    g_crashfile.clear();
    int dn = open("/dev/null", O_WRONLY); if (dn >= 0) { dup2(dn, 2); }
    alarm(timeout_s);
    signal(SIGALRM, [](int) { _exit(4); });
    RunOut o = run_case(bytes, false);
    if (o.failed) { ssize_t r = write(pfd[1], o.msg.data(), std::min<size_t>(o.msg.size(), 3000)); (void)r; _exit(1); }
    _exit(0);
  }
  close(pfd[1]);
  char buf[4096]; ssize_t k = read(pfd[0], buf, sizeof buf - 1); if (k < 0) k = 0; buf[k] = 0;
  close(pfd[0]);
  int st = 0; waitpid(pid, &st, 0);
  if (msg) *msg = buf;
  if (WIFEXITED(st)) { int c = WEXITSTATUS(st); if (c == 0) return 0; if (c == 1) return 1; if (c == 4) return 4; return 3; }
  return 3;
}

// ---- shrinking (bytes, shortlex) -------------------------------------------
static std::vector<uint8_t> shrink(std::vector<uint8_t> cur, int kind, int* attempts_out) {
  int attempts = 0; const int MAXA = 1500; double t0 = now(); const double TMAX = 240;
  auto try_ = [&](const std::vector<uint8_t>& c) -> bool {
    if (attempts >= MAXA || now() - t0 > TMAX) return false;
    attempts++;
    int r = run_forked(c, nullptr, 120);
    if (r == kind) { cur = c; return true; }
    return false;
  };
  // strip trailing zeros (decode-equivalent)
  while (cur.size() > 1 && cur.back() == 0) cur.pop_back();
  bool progress = true; int rounds = 0;
  while (progress && rounds++ < 6 && attempts < MAXA) {
    progress = false;
    // lower the scale byte
    if (!cur.empty() && cur[0] > 0) {
      for (unsigned tr : {0u, (unsigned)cur[0] / 2, (unsigned)cur[0] - 1}) {
        if (tr < cur[0]) { auto c = cur; c[0] = (uint8_t)tr; if (try_(c)) { progress = true; break; } }
      }
    }
    // truncate
    for (size_t len = cur.size() / 2; len >= 1 && len < cur.size(); ) {
      auto c = cur; c.resize(len);
      if (try_(c)) { progress = true; len = cur.size() / 2; } else break;
    }
    // delete blocks
    for (size_t bs = 64; bs >= 1; bs /= 2) {
      for (size_t i = 1; i + bs <= cur.size(); ) {
        auto c = cur; c.erase(c.begin() + i, c.begin() + i + bs);
        if (try_(c)) progress = true; else i += bs;
        if (attempts >= MAXA) break;
      }
    }
    // zero blocks
    for (size_t bs = 32; bs >= 1; bs /= 2) {
      for (size_t i = 1; i + bs <= cur.size(); i += bs) {
        bool allz = true; for (size_t j = 0; j < bs; j++) if (cur[i + j]) allz = false;
        if (allz) continue;
        auto c = cur; for (size_t j = 0; j < bs; j++) c[i + j] = 0;
        if (try_(c)) progress = true;
        if (attempts >= MAXA) break;
      }
    }
    // lower single bytes
    for (size_t i = 1; i < cur.size() && attempts < MAXA; i++) {
      if (!cur[i]) continue;
      for (unsigned tr : {(unsigned)cur[i] / 2, (unsigned)cur[i] - 1}) {
        if (tr < cur[i]) { auto c = cur; c[i] = (uint8_t)tr; if (try_(c)) { progress = true; break; } }
      }
    }
    while (cur.size() > 1 && cur.back() == 0) cur.pop_back();
  }
  if (attempts_out) *attempts_out = attempts;
  return cur;
}

// ---- helpers ----------------------------------------------------------------
static std::string jesc(const std::string& s) {
  std::string o; o.reserve(s.size() + 8);
  for (unsigned char c : s) {
    if (c == '"') o += "\\\""; else if (c == '\\') o += "\\\\"; else if (c == '\n') o += "\\n";
    else if (c == '\t') o += "\\t"; else if (c < 0x20 || c >= 0x7f) { char b[8]; snprintf(b, sizeof b, "\\u%04x", c); o += b; }
    else o += (char)c;
  }
  return o;
}
static bool read_file(const std::string& path, std::vector<uint8_t>& out) {
  FILE* f = fopen(path.c_str(), "rb"); if (!f) return false;
  out.clear(); uint8_t buf[65536]; size_t k;
  while ((k = fread(buf, 1, sizeof buf, f)) > 0) out.insert(out.end(), buf, buf + k);
  fclose(f); return true;
}
static void write_file(const std::string& path, const void* d, size_t n) {
  FILE* f = fopen(path.c_str(), "wb"); if (!f) return; fwrite(d, 1, n, f); fclose(f);
}

// deterministic bytes for case i of a run
static void gen_bytes(uint64_t seed, uint64_t i, unsigned max_scale, std::vector<uint8_t>& out) {
  uint64_t k = mix64(seed * 0x9e3779b97f4a7c15ull ^ mix64(i + 0x51ed));
  auto next = [&]() { k += 0x9e3779b97f4a7c15ull; return mix64(k); };
  double u = (next() >> 11) * (1.0 / 9007199254740992.0);
  unsigned scale;
  uint64_t sel = next() % 16;
  if (sel == 0) scale = max_scale - (unsigned)(next() % (max_scale / 4 + 1));      // some at the top
  else if (sel <= 3) scale = (unsigned)(next() % 12);                               // plenty tiny
  else scale = (unsigned)(max_scale * std::pow(u, 1.25));
  if (scale > max_scale) scale = max_scale;
  size_t len = 96 + (size_t)(next() % 160) + (sel >= 12 ? (size_t)(next() % 2048) : 0);
  out.resize(len);
  out[0] = (uint8_t)scale;
  // byte texture: mostly uniform, sometimes sparse (many zeros) or saturated
  unsigned tex = next() % 8;
  for (size_t j = 1; j < len; j += 8) {
    uint64_t v = next();
    if (tex == 0) { uint64_t m = next() & next(); v &= m; }        // sparse
    else if (tex == 1) { uint64_t m = next() | next(); v |= m; }   // dense
    for (size_t b = 0; b < 8 && j + b < len; b++) out[j + b] = (uint8_t)(v >> (8 * b));
  }
}

struct Agg {
  uint64_t evals = 0, nontriv = 0;
  std::map<std::string, uint64_t> labels, excluded;
  std::vector<uint64_t> hashes;
  std::vector<std::string> samples;
};

static void worker(uint64_t seed, uint64_t ncases, unsigned W, unsigned w, unsigned max_scale, const std::string& rundir) {
  g_crashfile = rundir + "/crash." + std::to_string(w) + ".bin";
  install_crash_handlers();
  if (g_prop.setup) g_prop.setup();
  Agg a; std::vector<uint8_t> bytes;
  uint64_t sample_every = std::max<uint64_t>(1, ncases / 48);
  for (uint64_t i = w; i < ncases; i += W) {
    gen_bytes(seed, i, max_scale, bytes);
    bool wd = (i % sample_every) == 0 || (i / W) < 1;
    RunOut o = run_case(bytes, wd);
    a.evals++;
    if (o.failed) {
      write_file(rundir + "/fail." + std::to_string(i) + ".bin", bytes.data(), bytes.size());
      write_file(rundir + "/fail." + std::to_string(i) + ".msg", o.msg.data(), o.msg.size());
      _exit(1);
    }
    if (o.ci.nontrivial) { a.nontriv++; a.hashes.push_back(o.ci.hash); }
    for (auto l : o.ci.labels) a.labels[l]++;
    if (o.ci.mixin_count) a.labels["sub_evaluations"] += o.ci.mixin_count;
    for (auto& x : o.ci.excluded) a.excluded[x]++;
    if (wd && a.samples.size() < 6 && (o.ci.nontrivial || a.samples.empty())) {
      std::string d = o.ci.desc; if (d.size() > 900) { d.resize(900); d += "..."; }
      a.samples.push_back("scale=" + std::to_string(bytes[0]) + " " + d);
    }
  }
  // write results
  std::string path = rundir + "/w." + std::to_string(w);
  FILE* f = fopen(path.c_str(), "w");
  fprintf(f, "E %llu %llu\n", (unsigned long long)a.evals, (unsigned long long)a.nontriv);
  for (auto& kv : a.labels) fprintf(f, "L %llu %s\n", (unsigned long long)kv.second, kv.first.c_str());
  for (auto& kv : a.excluded) fprintf(f, "X %llu %s\n", (unsigned long long)kv.second, kv.first.c_str());
  for (auto& s : a.samples) { std::string e = jesc(s); fprintf(f, "S %s\n", e.c_str()); }
  fclose(f);
  write_file(path + ".hash", a.hashes.data(), a.hashes.size() * 8);
  if (getenv("VERIF_LEAKCHECK") && __lsan_do_recoverable_leak_check) __lsan_do_recoverable_leak_check();
  _exit(0);
}

static int replay(const std::string& file, bool quiet) {
  std::vector<uint8_t> bytes; if (!read_file(file, bytes)) { fprintf(stderr, "cannot read %s\n", file.c_str()); return 2; }
  install_crash_handlers();
  if (g_prop.setup) g_prop.setup();
  int fails = 0;
  for (int r = 0; r < 3; r++) {
    std::string msg; int k = run_forked(bytes, &msg, 600);
    if (k == 1 || k == 3) fails++;
    if (r == 0 && !quiet) {
      if (k == 3) printf("replay: CRASH (signal/sanitizer abort) in case\n");
      if (k == 1) printf("replay: FAIL %s\n", msg.c_str());
      if (k == 4) printf("replay: TIMEOUT\n");
    }
  }
  if (!quiet) {
    // decoded form (in-process; if this crashes the crash itself is the answer)
    fflush(stdout);
    pid_t pid = fork();
    if (pid == 0) { g_print_desc_on_crash = true; RunOut o = run_case(bytes, true); printf("case: scale=%u %s\n", bytes.empty() ? 0 : bytes[0], o.ci.desc.c_str()); fflush(stdout); _exit(0); }
    int st; waitpid(pid, &st, 0);
  }
  if (fails == 3) { if (!quiet) printf("replay: property %s FAILS on %s (3/3)\n", g_prop.id, file.c_str()); return 1; }
  if (fails == 0) { if (!quiet) printf("replay: property %s holds on %s (3/3)\n", g_prop.id, file.c_str()); return 0; }
  if (!quiet) printf("replay: unstable (%d/3)\n", fails);
  return 2;
}

static int pbt(uint64_t seed, uint64_t ncases, unsigned W, unsigned max_scale, const std::string& rundir, int timeout_s) {
  double t0 = now();
  mkdir(rundir.c_str(), 0755);
  std::vector<pid_t> pids(W);
  fflush(stdout); fflush(stderr);
  for (unsigned w = 0; w < W; w++) {
    pid_t p = fork();
    if (p == 0) { worker(seed, ncases, W, w, max_scale, rundir); _exit(0); }
    pids[w] = p;
  }
  // wait; on first abnormal exit stop the others
  int bad = 0; unsigned left = W; bool timed_out = false;
  std::vector<int> wstat(W, -1);
  while (left) {
    int st; pid_t p = waitpid(-1, &st, WNOHANG);
    if (p == 0) {
      if (timeout_s > 0 && now() - t0 > timeout_s) { timed_out = true; for (auto q : pids) if (q > 0) kill(q, SIGKILL); timeout_s = 0; }
      usleep(20000); continue;
    }
    if (p < 0) break;
    for (unsigned w = 0; w < W; w++) if (pids[w] == p) {
      pids[w] = -1; left--;
      int code = WIFEXITED(st) ? WEXITSTATUS(st) : 3;
      wstat[w] = code;
      if (code != 0 && !bad && !timed_out) { bad = code; for (auto q : pids) if (q > 0) kill(q, SIGKILL); }
    }
  }
  std::string rj = rundir + "/result.json";
  FILE* out = fopen(rj.c_str(), "w");
  if (timed_out) {
    fprintf(out, "{\"status\":\"inconclusive\",\"reason\":\"wall-clock guard (%ds) fired\",\"wall_s\":%.1f}\n", timeout_s, now() - t0);
    fclose(out); printf("ENGINE: inconclusive (wall-clock guard)\n"); return 2;
  }
  if (bad) {
    // find a failing input: smallest case index among fail.*.bin, else a crash file
    std::vector<uint8_t> bytes; std::string msg; int kind = 0; bool have = false;
    uint64_t best = UINT64_MAX;
    for (uint64_t i = 0; i < ncases && !have; i++) { (void)i; break; }
    {
      // scan directory
      std::string cmd = "ls " + rundir; FILE* p = popen(cmd.c_str(), "r"); char nm[512];
      std::vector<std::string> crashes;
      while (p && fgets(nm, sizeof nm, p)) {
        std::string s(nm); while (!s.empty() && (s.back() == '\n')) s.pop_back();
        unsigned long long idx;
        if (sscanf(s.c_str(), "fail.%llu.bin", &idx) == 1 && s.find(".bin") != std::string::npos) { if (idx < best) best = idx; }
        if (s.rfind("crash.", 0) == 0) crashes.push_back(s);
      }
      if (p) pclose(p);
      if (best != UINT64_MAX) {
        read_file(rundir + "/fail." + std::to_string(best) + ".bin", bytes);
        std::vector<uint8_t> m; read_file(rundir + "/fail." + std::to_string(best) + ".msg", m); msg.assign(m.begin(), m.end());
        kind = 1; have = true;
      } else if (!crashes.empty()) {
        // several workers may have crashed (or been killed while writing): take the first file that reproduces
        if (g_prop.setup) g_prop.setup();
        for (auto& cf : crashes) {
          std::vector<uint8_t> b; if (!read_file(rundir + "/" + cf, b) || b.empty()) continue;
          if (!have) { bytes = b; have = true; }
          if (run_forked(b, nullptr, 600) == 3) { bytes = b; break; }
        }
        kind = 3; msg = "crash (signal or sanitizer abort) inside the case";
      }
    }
    if (!have) {
      fprintf(out, "{\"status\":\"harness_fault\",\"reason\":\"worker exited %d without a failing input\",\"wall_s\":%.1f}\n", bad, now() - t0);
      fclose(out); printf("ENGINE: harness fault: worker exited %d without a failing input\n", bad); return 2;
    }
    // confirm 3x, then shrink
    if (g_prop.setup) g_prop.setup();
    int conf = 0; for (int r = 0; r < 3; r++) { int k = run_forked(bytes, nullptr, 600); if (k == kind) conf++; }
    if (conf < 3) {
      write_file(rundir + "/unstable.bin", bytes.data(), bytes.size());
      fprintf(out, "{\"status\":\"harness_fault\",\"reason\":\"candidate failure did not reproduce 3/3 (%d/3)\",\"wall_s\":%.1f}\n", conf, now() - t0);
      fclose(out); printf("ENGINE: candidate failure not reproducible (%d/3): %s\n", conf, msg.c_str()); return 2;
    }
    int attempts = 0;
    std::vector<uint8_t> small = shrink(bytes, kind, &attempts);
    std::string smsg; run_forked(small, &smsg, 600); if (kind == 3) smsg = msg;
    write_file(rundir + "/replay.bin", small.data(), small.size());
    write_file(rundir + "/original.bin", bytes.data(), bytes.size());
    // decoded twin
    fflush(stdout);
    { pid_t pid = fork();
      if (pid == 0) { int dn = open("/dev/null", O_WRONLY); if (dn >= 0) dup2(dn, 2);
        g_crashdesc = rundir + "/replay.txt"; g_crashmsg = smsg;
        RunOut o = run_case(small, true);
        std::string t = "property " + std::string(g_prop.id) + "\nfailure: " + smsg + "\ncase: scale=" + std::to_string(small.empty() ? 0 : small[0]) + " " + o.ci.desc + "\n";
        write_file(rundir + "/replay.txt", t.data(), t.size()); _exit(0); }
      int st; waitpid(pid, &st, 0);
      struct stat sb; if (stat((rundir + "/replay.txt").c_str(), &sb) != 0) {
        std::string t = "property " + std::string(g_prop.id) + "\nfailure: " + smsg + "\n(case crashes while being decoded; see replay.bin)\n";
        write_file(rundir + "/replay.txt", t.data(), t.size()); }
    }
    fprintf(out, "{\"status\":\"violation\",\"kind\":\"%s\",\"message\":\"%s\",\"shrink_attempts\":%d,\"bytes_before\":%zu,\"bytes_after\":%zu,\"wall_s\":%.1f}\n",
            kind == 1 ? "oracle" : "crash", jesc(smsg).c_str(), attempts, bytes.size(), small.size(), now() - t0);
    fclose(out);
    printf("ENGINE: failure: %s\n", smsg.c_str());
    return 1;
  }
  // merge
  Agg a;
  for (unsigned w = 0; w < W; w++) {
    std::string path = rundir + "/w." + std::to_string(w);
    FILE* f = fopen(path.c_str(), "r"); if (!f) continue;
    char* line = nullptr; size_t cap = 0; ssize_t k;
    while ((k = getline(&line, &cap, f)) > 0) {
      if (line[k - 1] == '\n') line[k - 1] = 0;
      unsigned long long x, y; char nm[512];
      if (line[0] == 'E' && sscanf(line + 2, "%llu %llu", &x, &y) == 2) { a.evals += x; a.nontriv += y; }
      else if (line[0] == 'L' && sscanf(line + 2, "%llu %500s", &x, nm) == 2) a.labels[nm] += x;
      else if (line[0] == 'X' && sscanf(line + 2, "%llu %500s", &x, nm) == 2) a.excluded[nm] += x;
      else if (line[0] == 'S') a.samples.push_back(line + 2);
    }
    free(line); fclose(f);
    std::vector<uint8_t> hb; read_file(path + ".hash", hb);
    size_t n = hb.size() / 8; size_t o = a.hashes.size(); a.hashes.resize(o + n); memcpy(a.hashes.data() + o, hb.data(), n * 8);
  }
  std::sort(a.hashes.begin(), a.hashes.end());
  uint64_t distinct = std::unique(a.hashes.begin(), a.hashes.end()) - a.hashes.begin();
  write_file(rundir + "/hashes.bin", a.hashes.data(), distinct * 8);   // for merging several runs (e.g. inline / out-of-line flavours)
  std::vector<std::string> missing;
  for (auto r : g_prop.required_labels) if (!a.labels.count(r)) missing.push_back(r);
  fprintf(out, "{\"status\":\"%s\",\"evaluations\":%llu,\"nontrivial\":%llu,\"distinct_nontrivial\":%llu,\"wall_s\":%.1f,\n",
          missing.empty() ? "ok" : "generator_fault", (unsigned long long)a.evals, (unsigned long long)a.nontriv, (unsigned long long)distinct, now() - t0);
  fprintf(out, " \"rule\":\"%s\",\n \"labels\":{", jesc(g_prop.rule).c_str());
  bool first = true; for (auto& kv : a.labels) { fprintf(out, "%s\"%s\":%llu", first ? "" : ",", jesc(kv.first).c_str(), (unsigned long long)kv.second); first = false; }
  fprintf(out, "},\n \"excluded_known\":{");
  first = true; for (auto& kv : a.excluded) { fprintf(out, "%s\"%s\":%llu", first ? "" : ",", jesc(kv.first).c_str(), (unsigned long long)kv.second); first = false; }
  fprintf(out, "},\n \"missing_required_labels\":[");
  first = true; for (auto& m : missing) { fprintf(out, "%s\"%s\"", first ? "" : ",", m.c_str()); first = false; }
  fprintf(out, "],\n \"samples\":[");
  first = true; size_t ns = 0;
  for (auto& s : a.samples) { if (ns++ >= 12) break; fprintf(out, "%s\"%s\"", first ? "" : ",\n  ", s.c_str()); first = false; }
  fprintf(out, "]}\n");
  fclose(out);
  if (!missing.empty()) { printf("ENGINE: generator fault: required label(s) never produced:"); for (auto& m : missing) printf(" %s", m.c_str()); printf("\n"); return 2; }
  return 0;
}

int driver_main(int argc, char** argv) {
  uint64_t seed = 1, cases = 1000; unsigned W = 16, max_scale = 100; std::string rundir = "/var/tmp/eng-run"; std::string rep; int timeout_s = 0;
  bool quiet = false; int fixed = -1; bool do_sweep = false; long sweep_one = -1;
  for (int i = 1; i < argc; i++) {
    std::string a = argv[i];
    auto nxt = [&]() -> const char* { return i + 1 < argc ? argv[++i] : ""; };
    if (a == "--seed") seed = strtoull(nxt(), nullptr, 10);
    else if (a == "--cases") cases = strtoull(nxt(), nullptr, 10);
    else if (a == "--workers") W = (unsigned)atoi(nxt());
    else if (a == "--max-scale") max_scale = (unsigned)atoi(nxt());
    else if (a == "--rundir") rundir = nxt();
    else if (a == "--replay") rep = nxt();
    else if (a == "--timeout") timeout_s = atoi(nxt());
    else if (a == "--quiet") quiet = true;
    else if (a == "--fixed") fixed = atoi(nxt());
    else if (a == "--sweep") do_sweep = true;
    else if (a == "--sweep-one") sweep_one = atol(nxt());
    else if (a == "--sub") g_params.sub = atol(nxt());
    else if (a == "--known") { std::string k = nxt(); size_t p = 0; while (p <= k.size()) { size_t q = k.find(',', p); if (q == std::string::npos) q = k.size(); if (q > p) g_known.insert(k.substr(p, q - p)); p = q + 1; } }
    else { fprintf(stderr, "unknown argument %s\n", a.c_str()); return 2; }
  }
  if (max_scale > 255) max_scale = 255;
  g_params.max_scale = max_scale;
  if (fixed >= 0) {
    if (!g_prop.fixed) { fprintf(stderr, "no fixed cases in this property\n"); return 2; }
    install_crash_handlers(); if (g_prop.setup) g_prop.setup();
    CaseInfo ci; ci.want_desc = true;
    try { g_prop.fixed((unsigned)fixed, ci); } catch (Fail& f) { if (!quiet) printf("fixed case %d: FAIL %s\ncase: %s\n", fixed, f.msg.c_str(), ci.desc.c_str()); return 1; }
    if (!quiet) printf("fixed case %d: property holds\ncase: %s\n", fixed, ci.desc.c_str());
    return 0;
  }
  if (sweep_one >= 0 || do_sweep) {
    if (!g_prop.sweep_item || !g_prop.sweep_count) { if (!quiet) printf("no sweep in this property\n"); return do_sweep ? 0 : 2; }
    install_crash_handlers(); if (g_prop.setup) g_prop.setup();
    uint64_t n = g_prop.sweep_count();
    if (sweep_one >= 0) { CaseInfo ci; ci.want_desc = true; try { g_prop.sweep_item((uint64_t)sweep_one, ci); } catch (Fail& f) { if (!quiet) printf("sweep item %ld: FAIL %s\ncase: %s\n", sweep_one, f.msg.c_str(), ci.desc.c_str()); return 1; } if (!quiet) printf("sweep item %ld: property holds\ncase: %s\n", sweep_one, ci.desc.c_str()); return 0; }
    mkdir(rundir.c_str(), 0755); std::vector<pid_t> pids(W); fflush(stdout);
    for (unsigned w = 0; w < W; w++) { pid_t p = fork(); if (p == 0) { g_sweep_dir = rundir; for (uint64_t i = w; i < n; i += W) { CaseInfo ci; g_sweep_cur = i; try { g_prop.sweep_item(i, ci); } catch (Fail& f) { std::string path = rundir + "/sweepfail." + std::to_string(i); write_file(path, f.msg.data(), f.msg.size()); _exit(1); } } _exit(0); } pids[w] = p; }
    int bad = 0; for (unsigned w = 0; w < W; w++) { int st; waitpid(pids[w], &st, 0); if (!WIFEXITED(st) || WEXITSTATUS(st) != 0) bad = WIFEXITED(st) ? WEXITSTATUS(st) : 3; }
    uint64_t best = UINT64_MAX; std::string msg;
    if (bad) { FILE* p = popen(("ls " + rundir).c_str(), "r"); char nm[512]; while (p && fgets(nm, sizeof nm, p)) { unsigned long long idx; if (sscanf(nm, "sweepfail.%llu", &idx) == 1 && idx < best) best = idx; } if (p) pclose(p); if (best != UINT64_MAX) { std::vector<uint8_t> m; read_file(rundir + "/sweepfail." + std::to_string(best), m); msg.assign(m.begin(), m.end()); } }
    FILE* out = fopen((rundir + "/sweep.json").c_str(), "w");
    if (bad && best != UINT64_MAX) { fprintf(out, "{\"status\":\"violation\",\"item\":%llu,\"items\":%llu,\"message\":\"%s\"}\n", (unsigned long long)best, (unsigned long long)n, jesc(msg).c_str()); fclose(out); printf("ENGINE: sweep item %llu fails: %s\n", (unsigned long long)best, msg.c_str()); return 1; }
    if (bad) { fprintf(out, "{\"status\":\"harness_fault\",\"items\":%llu}\n", (unsigned long long)n); fclose(out); printf("ENGINE: sweep worker crashed\n"); return 2; }
    fprintf(out, "{\"status\":\"ok\",\"items\":%llu,\"rule\":\"%s\"}\n", (unsigned long long)n, jesc(g_prop.sweep_rule ? g_prop.sweep_rule : "").c_str()); fclose(out); return 0;
  }
  if (!rep.empty()) return replay(rep, quiet);
  return pbt(seed, cases, W, max_scale, rundir, timeout_s);
}
}  // namespace eng

#ifdef ENG_FUZZ
// libFuzzer entry: same decode-and-check function.  A property failure writes
// the message and aborts so that libFuzzer saves the input as crash-*.
static unsigned fuzz_max_scale() { static unsigned v = [] { const char* e = getenv("ENG_FUZZ_MAX_SCALE"); return e ? (unsigned)atoi(e) : 60u; }(); return v; }
extern "C" int LLVMFuzzerInitialize(int*, char***) {
  const char* k = getenv("ENG_KNOWN");
  if (k) { std::string s = k; size_t p = 0; while (p <= s.size()) { size_t q = s.find(',', p); if (q == std::string::npos) q = s.size(); if (q > p) eng::g_known.insert(s.substr(p, q - p)); p = q + 1; } }
  eng::g_params.max_scale = fuzz_max_scale();
  if (eng::g_prop.setup) eng::g_prop.setup();
  return 0;
}
extern "C" int LLVMFuzzerTestOneInput(const uint8_t* data, size_t size) {
  if (size == 0) return 0;
  std::vector<uint8_t> b(data, data + size);
  if (b[0] > fuzz_max_scale()) b[0] = (uint8_t)(b[0] % (fuzz_max_scale() + 1));
  eng::ByteSource in(b.data(), b.size()); eng::CaseInfo ci;
  try { eng::g_prop.check(in, ci); }
  catch (eng::Fail& f) { fprintf(stderr, "ENGINE-FUZZ: property %s failed: %s\n", eng::g_prop.id, f.msg.c_str()); fflush(stderr); abort(); }
  return 0;
}
#else
int main(int argc, char** argv) { return eng::driver_main(argc, argv); }
#endif
