#!/bin/bash
# Content hash of the source files of a MPIR tree (default /repo's working tree).
# Everything that can influence a build is hashed; build products are not.
R="${1:-${VERIF_REPO:-/repo}}"
cd "$R" || exit 2
find . \( -name .git -o -name .libs -o -name .deps -o -name autom4te.cache \) -prune -o -type f \
  ! -name '*.o' ! -name '*.lo' ! -name '*.la' ! -name '*.a' ! -name '*.so*' ! -name '*.log' ! -name '*.trs' \
  ! -name '*.Plo' ! -name '*.Po' ! -name 'stamp-h1' ! -name 'config.status' ! -name 'libtool' \
  -print0 | LC_ALL=C sort -z | xargs -0 -P1 sha1sum 2>/dev/null | grep -v -E ' \./tests/[a-z/]*/(t-|st_)?[a-z0-9_-]+$' | sha1sum | cut -c1-16
