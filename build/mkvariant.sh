#!/bin/bash
# mkvariant.sh <variant>   -> prints the directory holding libmpir.a + headers
#
# Builds a library variant from the *current working tree* of $VERIF_REPO
# (default /repo) in a scratch copy under /var/tmp, keeps only the archive and
# the headers in /verif/.cache/<treehash>/<variant>/ and removes the scratch.
#
# variants (same configuration as the tree's own in-tree build, other flags):
#   san    clang -O1 -g ASan + UBSan subset + fuzzer-no-link coverage
#          (UBSan 'bounds' is not used: it fires on the benign 'powtab - 1 + pi' pointer
#          formation in mpn/generic/get_str.c; real out-of-bounds accesses are ASan's job)
#   opt    gcc -O2 -g
#   tsan   clang -O1 -g -fsanitize=thread
#   asan   clang -O1 -g ASan only (no coverage instrumentation; for C++/C20)
#   cfg-<name>  real out-of-tree configure run; options from build/cfg/<name>.opts
set -u
V="$1"
REPO="${VERIF_REPO:-/repo}"
HERE="$(cd "$(dirname "$0")" && pwd)"
ROOT="$(dirname "$HERE")"
TH="$("$HERE/treehash.sh" "$REPO")-$(cat "$HERE/mkvariant.sh" "$HERE"/cfg/* 2>/dev/null | sha1sum | cut -c1-6)"
CACHE="$ROOT/.cache/$TH"
OUT="$CACHE/$V"
mkdir -p "$CACHE"; touch "$CACHE/.lastuse"
exec 9>"$CACHE/.lock.$V"
flock 9
if [ -f "$OUT/.ok" ]; then echo "$OUT"; exit 0; fi
rm -rf "$OUT"; mkdir -p "$OUT"
SCR="/var/tmp/mpir-verif.$$.$V"
rm -rf "$SCR"; mkdir -p "$SCR"
trap 'rm -rf "$SCR"' EXIT
LOG="$OUT/build.log"
rsync -a --exclude .git --exclude '*.o' --exclude '*.lo' --exclude '*.la' --exclude .libs \
      --exclude '*.a' --exclude '*.so' --exclude '*.so.*' --exclude '*.log' --exclude '*.trs' \
      "$REPO"/ "$SCR"/src/ >>"$LOG" 2>&1
# test programs (ELF, no suffix) are not needed
UBS="null,nonnull-attribute,returns-nonnull-attribute,return,unreachable,vla-bound,bool,enum"
J="${VERIF_JOBS:-16}"
build_intree() {   # $1=CC  $2=CCAS $3=CFLAGS
  cd "$SCR/src" || return 1
  # make sure timestamps do not trigger autotools regeneration
  touch aclocal.m4 configure Makefile.in */Makefile.in config.in config.status Makefile */Makefile config.h stamp-h1 2>/dev/null
  for d in mpn fft mpz mpq mpf printf scanf; do
    make -C $d -j"$J" CC="$1" CCAS="$2" LIBTOOLFLAGS=--tag=disable-shared CFLAGS="$3" >>"$LOG" 2>&1 || return 1
  done
  make -j"$J" CC="$1" CCAS="$2" LIBTOOLFLAGS=--tag=disable-shared CFLAGS="$3" libmpir.la >>"$LOG" 2>&1 || return 1
  cp .libs/libmpir.a "$OUT/" || return 1
  cp mpir.h config.h gmp-mparam.h gmp-impl.h longlong.h longlong_pre.h longlong_post.h randmt.h mpirxx.h config.m4 "$OUT/" 2>>"$LOG"
  mkdir -p "$OUT/mpn" "$OUT/fft"; cp mpn/*.h "$OUT/mpn/" 2>/dev/null; cp fft/*.h "$OUT/fft/" 2>/dev/null
  return 0
}
case "$V" in
  san)  build_intree clang "clang -c -Wno-unused-command-line-argument" \
        "-O1 -g -fno-omit-frame-pointer -Wno-error -fsanitize=address,$UBS,fuzzer-no-link -fno-sanitize-recover=all" ;;
  asan) build_intree clang "clang -c -Wno-unused-command-line-argument" \
        "-O1 -g -fno-omit-frame-pointer -Wno-error -fsanitize=address" ;;
  opt)  build_intree gcc "gcc -c" "-O2 -g -Wno-error" ;;
  tsan) build_intree clang "clang -c -Wno-unused-command-line-argument" \
        "-O1 -g -fno-omit-frame-pointer -Wno-error -fsanitize=thread" ;;
  mparam-*)
    # same configuration and kernels as /repo's build, but compiled against another shipped tuning table
    MP="$(echo "${V#mparam-}" | tr '_' '/')"
    [ "$MP" = "base" ] && MP="."
    test -f "$SCR/src/mpn/x86_64/$MP/gmp-mparam.h" || { echo "no tuning table mpn/x86_64/$MP/gmp-mparam.h" >&2; exit 2; }
    rm -f "$SCR/src/gmp-mparam.h"; cp "$SCR/src/mpn/x86_64/$MP/gmp-mparam.h" "$SCR/src/gmp-mparam.h"
    build_intree gcc "gcc -c" "-O2 -g -Wno-error" ;;
  cfg-*)
    OPTS="$(cat "$HERE/cfg/${V#cfg-}.opts" 2>/dev/null)" || { echo "no opts for $V" >&2; exit 2; }
    CFG_CFLAGS="$(cat "$HERE/cfg/${V#cfg-}.cflags" 2>/dev/null || echo '-O2 -g')"
    ( cd "$SCR/src" && make distclean >>"$LOG" 2>&1
      find . -name '*.o' -o -name '*.lo' | xargs rm -f
      mkdir -p "$SCR/bld" && cd "$SCR/bld" &&
      ../src/configure --disable-shared $OPTS CFLAGS="$CFG_CFLAGS" >>"$LOG" 2>&1 &&
      for d in mpn fft mpz mpq mpf printf scanf; do make -C $d -j"$J" >>"$LOG" 2>&1 || exit 1; done &&
      { if grep -q '^WANT_CXX_TRUE = *$' Makefile; then make -C cxx -j"$J" >>"$LOG" 2>&1; fi; true; } &&
      make -j"$J" libmpir.la >>"$LOG" 2>&1 &&
      { if grep -q '^WANT_CXX_TRUE = *$' Makefile; then make -j"$J" libmpirxx.la >>"$LOG" 2>&1 && cp .libs/libmpirxx.a "$OUT/"; fi; true; } &&
      cp .libs/libmpir.a "$OUT/" &&
      cp mpir.h config.h gmp-mparam.h config.m4 "$OUT/" &&
      cp ../src/gmp-impl.h ../src/longlong_pre.h ../src/longlong_post.h ../src/randmt.h ../src/mpirxx.h "$OUT/" &&
      cp longlong.h "$OUT/" 2>/dev/null
      mkdir -p "$OUT/mpn" "$OUT/fft"; cp mpn/*.h ../src/mpn/*.h "$OUT/mpn/" 2>/dev/null; cp ../src/fft/*.h "$OUT/fft/" 2>/dev/null
      test -f "$OUT/libmpir.a" ) || { echo "variant $V failed; see $LOG" >&2; tail -30 "$LOG" >&2; exit 2; } ;;
  *) echo "unknown variant $V" >&2; exit 2 ;;
esac
if [ ! -f "$OUT/libmpir.a" ]; then echo "variant $V failed; see $LOG" >&2; tail -30 "$LOG" >&2; exit 2; fi
touch "$OUT/.ok"
# bound the cache: beyond the four most recently used tree hashes, drop those not used for 45 minutes (never one a running check may still be using)
ls -1t "$ROOT/.cache"/*-*/.lastuse 2>/dev/null | tail -n +5 | while read f; do if [ -n "$(find "$f" -mmin +45 2>/dev/null)" ]; then rm -rf "$(dirname "$f")"; fi; done
echo "$OUT"
